(** C09rotLink.v — the acceptor model/M5lb.v implies the exact-rotation monitor corr/C09rot.v
    ([c09_rot_ok]), and what follows for every accepted trace: a rebuilt rotation is exactly the
    balancer's targets whose replayed state is healthy (each once, in the balancer's order), and
    strict rotation gives each of those healthy targets floor(n/k) or ceil(n/k) picks. *)
From KP Require Import model.Base model.Trace model.M5lb proofs.M5lbFacts proofs.M5lbHist proofs.M5lbC01 proofs.M5lbC09
  corr.C09rot proofs.M5lbMon.
From Coq Require Import ZifyN ZifyNat ZifyBool.
Local Open Scope nat_scope.

(** * The replay of the monitor as a total function of the trace *)

(** what one event writes into the replayed state (the monitor's step without its check) *)
Definition rot_write (m : monr) (e : event) : monr :=
  match e_k e with
  | KLbNew lb ts => mkMR (nset (r_ts m) lb ts) (fold_left (fun l t => nset l t TAdding) ts (r_st m))
  | KProbeApply t _ _ new => mkMR (r_ts m) (nset (r_st m) t new)
  | KStateSet t _ new => mkMR (r_ts m) (nset (r_st m) t new)
  | _ => m
  end.

Definition replay (tr : trace) : monr := fold_left rot_write tr (mkMR [] []).

(** the targets of a balancer / the state of a target / "healthy", as replayed from the trace alone *)
Definition replayed_targets (tr : trace) (lb : nat) : option (list nat) := nget (r_ts (replay tr)) lb.
Definition replayed_state (tr : trace) (t : nat) : option tstate := nget (r_st (replay tr)) t.
Definition replayed_healthy (tr : trace) (t : nat) : bool := healthy_now (replay tr) t.

Lemma replay_snoc : forall pre e, replay (pre ++ [e]) = rot_write (replay pre) e.
Proof. intros. unfold replay. now rewrite fold_left_app. Qed.

Lemma rot_step_write : forall m e m', rot_step m e = Some m' -> m' = rot_write m e.
Proof.
  intros m [tm a k] m' H. unfold rot_step, rot_write in *. cbn [e_k] in *.
  destruct k; try (inversion H; reflexivity).
  destruct (nget (r_ts m) lb) as [ts|]; [|discriminate].
  destruct (nlist_eqb healthy (filter (healthy_now m) ts)); [|discriminate]. inversion H; reflexivity.
Qed.

Lemma run_rot_replay : forall tr m0 m, run rot_step m0 tr = Some m -> m = fold_left rot_write tr m0.
Proof.
  induction tr as [|e tr IH]; intros m0 m H; cbn in *.
  - inversion H; reflexivity.
  - destruct (rot_step m0 e) as [m1|] eqn:E; [|discriminate].
    rewrite <- (rot_step_write _ _ _ E). now apply IH.
Qed.

Lemma replayed_healthy_iff : forall tr t, replayed_healthy tr t = true <-> replayed_state tr t = Some THealthy.
Proof.
  intros tr t. unfold replayed_healthy, healthy_now, replayed_state.
  destruct (nget (r_st (replay tr)) t) as [st|].
  - rewrite tstate_eqb_eq. split; [intros ->; reflexivity|intros H; inversion H; reflexivity].
  - split; discriminate.
Qed.

(** the replayed state of a target is the state carried by the last event that wrote it *)
Lemma set_adding_get : forall ts (l : list (nat * tstate)) t,
  nget (fold_left (fun l t => nset l t TAdding) ts l) t = if nmem t ts then Some TAdding else nget l t.
Proof.
  induction ts as [|t0 r IH]; intros l t; cbn [fold_left].
  - reflexivity.
  - rewrite IH. unfold nmem. cbn [existsb]. fold (nmem t r). destruct (nmem t r) eqn:E.
    + now rewrite orb_true_r.
    + rewrite orb_false_r. now rewrite nget_nset.
Qed.

Definition state_written (e : event) (t : nat) : option tstate :=
  match e_k e with
  | KLbNew _ ts => if nmem t ts then Some TAdding else None
  | KProbeApply t' _ _ new => if Nat.eqb t t' then Some new else None
  | KStateSet t' _ new => if Nat.eqb t t' then Some new else None
  | _ => None
  end.

Lemma replayed_state_snoc : forall pre e t,
  replayed_state (pre ++ [e]) t = match state_written e t with Some st => Some st | None => replayed_state pre t end.
Proof.
  intros pre [tm a k] t. unfold replayed_state. rewrite replay_snoc. unfold rot_write, state_written. cbn [e_k].
  destruct k; try reflexivity; cbn [r_st].
  - rewrite set_adding_get. destruct (nmem t targets); reflexivity.
  - rewrite nget_nset. destruct (Nat.eqb t t0); reflexivity.
  - rewrite nget_nset. destruct (Nat.eqb t t0); reflexivity.
Qed.

Lemma replayed_targets_snoc : forall pre e lb,
  replayed_targets (pre ++ [e]) lb =
  match e_k e with KLbNew l ts => if Nat.eqb lb l then Some ts else replayed_targets pre lb | _ => replayed_targets pre lb end.
Proof.
  intros pre [tm a k] lb. unfold replayed_targets. rewrite replay_snoc. unfold rot_write. cbn [e_k].
  destruct k; try reflexivity; cbn [r_ts]. now rewrite nget_nset.
Qed.

(** * The simulation relation: the replayed state agrees with the acceptor's *)

Record RR (s : state) (m : monr) : Prop := mkRR {
  rr_ts : forall lb b, nget (bals s) lb = Some b -> nget (r_ts m) lb = Some (b_ts b);
  rr_st : forall t x, nget (tgts s) t = Some x -> nget (r_st m) t = Some (t_st x)
}.

Lemma rr_init : RR init (mkMR [] []).
Proof. constructor; cbn; intros; discriminate. Qed.

Lemma nlist_eqb_refl : forall a, nlist_eqb a a = true.
Proof. induction a as [|x a IH]; cbn; auto. now rewrite Nat.eqb_refl. Qed.

(** RR is kept by every event that writes nothing the monitor replays *)
Lemma rr_keep : forall s e s' m,
  step s e = Some s' -> RR s m ->
  (forall lb ts, e_k e <> KLbNew lb ts) ->
  (forall t ok prev new, e_k e <> KProbeApply t ok prev new) ->
  (forall t orig new, e_k e <> KStateSet t orig new) ->
  RR s' m.
Proof.
  intros s e s' m H HR N1 N2 N3. constructor.
  - intros lb b' Hb. destruct (bal_back _ _ _ _ _ H Hb) as [[b [Hb0 [Hts _]]]|[_ [ts [Hk _]]]].
    + rewrite <- Hts. eapply (rr_ts _ _ HR); eauto.
    + exfalso. eapply N1; eauto.
  - intros t x' Hx.
    destruct (tgt_back _ _ _ _ _ H Hx) as [[x [Hx0 [_ [_ [Hst|[[ok [prev Hk]]|[orig Hk]]]]]]]|[_ [lb [ts [Hk _]]]]].
    + rewrite Hst. eapply (rr_st _ _ HR); eauto.
    + exfalso. eapply N2; eauto.
    + exfalso. eapply N3; eauto.
    + exfalso. eapply N1; eauto.
Qed.

Lemma step_stateset : forall s tm a t orig new s', step s (mkEv tm a (KStateSet t orig new)) = Some s' ->
  exists x', nget (tgts s') t = Some x' /\ t_st x' = new.
Proof.
  intros s tm a t orig new s' H. step_inv H; proj_simp; rewrite nget_nset_same; eexists; split; reflexivity.
Qed.

Lemma step_lbnew_nodup : forall s tm a lb ts s', step s (mkEv tm a (KLbNew lb ts)) = Some s' -> nodupb ts = true.
Proof. intros s tm a lb ts s' H. step_inv H; split_ands; assumption. Qed.

(** under the relation, the monitor's filter is the acceptor's [healthy_of] *)
Lemma healthy_filter_eq : forall s m lb b, Inv s -> RR s m -> nget (bals s) lb = Some b ->
  filter (healthy_now m) (b_ts b) = healthy_of (tgts s) (b_ts b).
Proof.
  intros s m lb b HI HR Hb. unfold healthy_of. apply filter_ext_in. intros t Hin.
  destruct (i_ts _ HI _ _ _ Hb Hin) as [x [Hx _]]. unfold healthy_now, is_healthy.
  now rewrite Hx, (rr_st _ _ HR _ _ Hx).
Qed.

Lemma simr : forall s e s' m, Inv s -> RR s m -> step s e = Some s' -> exists m', rot_step m e = Some m' /\ RR s' m'.
Proof.
  intros s [tm a k] s' m HI HR H.
  destruct k; try (exists m; split; [reflexivity|]; eapply rr_keep; eauto; cbn; intros; discriminate).
  - (* KLbNew *)
    destruct (step_lbnew _ _ _ _ _ _ H) as [Hnone [Hfr _]].
    unfold rot_step; cbn [e_k]. eexists; split; [reflexivity|]. constructor; cbn [r_ts r_st].
    + intros lb0 b1 Hb1. rewrite nget_nset.
      destruct (bal_back _ _ _ _ _ H Hb1) as [[b2 [Hb2 [Hts _]]]|[_ [ts0 [Hk [Hts _]]]]].
      * destruct (Nat.eqb_spec lb0 lb) as [->|Hne]; [congruence|]. rewrite <- Hts. eapply (rr_ts _ _ HR); eauto.
      * cbn in Hk. inversion Hk; subst. rewrite Nat.eqb_refl. reflexivity.
    + intros t x' Hx. rewrite set_adding_get.
      destruct (tgt_back _ _ _ _ _ H Hx) as [[x [Hx0 [_ [_ Hst]]]]|[_ [lb0 [ts0 [Hk [Hin [_ [_ Hst]]]]]]]].
      * destruct (nmem t targets) eqn:E; [apply nmem_In in E; rewrite (Hfr _ E) in Hx0; discriminate|].
        destruct Hst as [Hst|[[ok [prev Hk]]|[orig Hk]]]; try discriminate Hk.
        rewrite Hst. eapply (rr_st _ _ HR); eauto.
      * cbn in Hk. inversion Hk; subst lb0 ts0. rewrite (proj2 (nmem_In _ _) Hin). congruence.
  - (* KRotation *)
    destruct (step_rotation _ _ _ _ _ _ H) as [b [b' [Hb [Hhs _]]]].
    unfold rot_step; cbn [e_k]. rewrite (rr_ts _ _ HR _ _ Hb), (healthy_filter_eq _ _ _ _ HI HR Hb), <- Hhs, nlist_eqb_refl.
    exists m; split; [reflexivity|]. eapply rr_keep; eauto; cbn; intros; discriminate.
  - (* KProbeApply *)
    destruct (step_probe _ _ _ _ _ _ _ _ H) as [x0 [x1 [Hx0 [Hnew [Hx1 Hst1]]]]].
    unfold rot_step; cbn [e_k]. eexists; split; [reflexivity|]. constructor; cbn [r_ts r_st].
    + intros lb0 b1 Hb1. destruct (bal_back _ _ _ _ _ H Hb1) as [[b2 [Hb2 [Hts _]]]|[_ [ts0 [Hk _]]]]; [|discriminate Hk].
      rewrite <- Hts. eapply (rr_ts _ _ HR); eauto.
    + intros t0 x' Hx. rewrite nget_nset. destruct (Nat.eqb_spec t0 t) as [->|Hne].
      * rewrite Hx1 in Hx. inversion Hx; subst x'. now rewrite Hst1.
      * destruct (tgt_back _ _ _ _ _ H Hx) as [[x [Hxx [_ [_ [Hst|[[ok' [pv Hk]]|[og Hk]]]]]]]|[_ [lb0 [ts0 [Hk _]]]]];
          try (cbn in Hk; discriminate Hk).
        -- rewrite Hst. eapply (rr_st _ _ HR); eauto.
        -- cbn in Hk. inversion Hk; subst. congruence.
  - (* KStateSet *)
    destruct (step_stateset _ _ _ _ _ _ _ H) as [x1 [Hx1 Hst1]].
    unfold rot_step; cbn [e_k]. eexists; split; [reflexivity|]. constructor; cbn [r_ts r_st].
    + intros lb0 b1 Hb1. destruct (bal_back _ _ _ _ _ H Hb1) as [[b2 [Hb2 [Hts _]]]|[_ [ts0 [Hk _]]]]; [|discriminate Hk].
      rewrite <- Hts. eapply (rr_ts _ _ HR); eauto.
    + intros t0 x' Hx. rewrite nget_nset. destruct (Nat.eqb_spec t0 t) as [->|Hne].
      * rewrite Hx1 in Hx. inversion Hx; subst x'. now rewrite Hst1.
      * destruct (tgt_back _ _ _ _ _ H Hx) as [[x [Hxx [_ [_ [Hst|[[ok' [pv Hk]]|[og Hk]]]]]]]|[_ [lb0 [ts0 [Hk _]]]]];
          try (cbn in Hk; discriminate Hk).
        -- rewrite Hst. eapply (rr_st _ _ HR); eauto.
        -- cbn in Hk. inversion Hk; subst. congruence.
Qed.

Lemma simr_run : forall tr s0 m0 s1, Inv s0 -> RR s0 m0 -> run step s0 tr = Some s1 ->
  exists m1, run rot_step m0 tr = Some m1 /\ RR s1 m1.
Proof.
  induction tr as [|e tr IH]; intros s0 m0 s1 HI HR Hrun; cbn in *.
  - inversion Hrun; subst. eauto.
  - destruct (step s0 e) as [s2|] eqn:E; [|discriminate].
    destruct (simr _ _ _ _ HI HR E) as [m2 [Hm2 HR2]]. rewrite Hm2.
    apply (IH s2 m2 s1); [eapply inv_step; eauto|exact HR2|exact Hrun].
Qed.

(** (1) the acceptor implies the exact-rotation monitor *)
Theorem accepted_c09_rot_ok : forall tr, accepted tr = true -> c09_rot_ok tr = true.
Proof.
  intros tr H. unfold accepted in H. destruct (run step init tr) as [s|] eqn:E; [|discriminate].
  destruct (simr_run _ _ _ _ inv_init rr_init E) as [m1 [Hm1 _]]. unfold c09_rot_ok. now rewrite Hm1.
Qed.

(** the replay of an accepted trace is the acceptor's view of balancers and target states *)
Lemma replay_rel : forall tr s, run step init tr = Some s -> RR s (replay tr).
Proof.
  intros tr s E. destruct (simr_run _ _ _ _ inv_init rr_init E) as [m1 [Hm1 HR]].
  unfold replay. now rewrite <- (run_rot_replay _ _ _ Hm1).
Qed.

Theorem replay_is_state : forall tr s, run step init tr = Some s ->
  (forall lb b, nget (bals s) lb = Some b -> replayed_targets tr lb = Some (b_ts b)) /\
  (forall t x, nget (tgts s) t = Some x -> replayed_state tr t = Some (t_st x)).
Proof.
  intros tr s E. pose proof (replay_rel _ _ E) as HR. split.
  - intros lb b Hb. exact (rr_ts _ _ HR _ _ Hb).
  - intros t x Hx. exact (rr_st _ _ HR _ _ Hx).
Qed.

(** * A balancer's target list has no duplicates *)

Lemma ts_nodup_step : forall s e s', step s e = Some s' ->
  (forall lb b, nget (bals s) lb = Some b -> NoDup (b_ts b)) ->
  forall lb b, nget (bals s') lb = Some b -> NoDup (b_ts b).
Proof.
  intros s [tm a k] s' H Hold lb b' Hb.
  destruct (bal_back _ _ _ _ _ H Hb) as [[b [Hb0 [Hts _]]]|[_ [ts [Hk [Hts _]]]]].
  - rewrite <- Hts. eapply Hold; eauto.
  - cbn in Hk. subst k. rewrite Hts. apply nodupb_NoDup. eapply step_lbnew_nodup; eauto.
Qed.

Lemma ts_nodup_run : forall tr s lb b, run step init tr = Some s -> nget (bals s) lb = Some b -> NoDup (b_ts b).
Proof.
  intros tr s lb b Hrun. revert lb b.
  apply (run_inv step (fun s => forall lb b, nget (bals s) lb = Some b -> NoDup (b_ts b))) with (tr := tr) (s := init); auto.
  - intros s0 e s1 HP Hs. eapply ts_nodup_step; eauto.
  - cbn. intros; discriminate.
Qed.

(** * Sub-sequences *)

Inductive subseq {A : Type} : list A -> list A -> Prop :=
| sub_nil : subseq [] []
| sub_skip : forall x l1 l2, subseq l1 l2 -> subseq l1 (x :: l2)
| sub_take : forall x l1 l2, subseq l1 l2 -> subseq (x :: l1) (x :: l2).

Lemma filter_subseq : forall A (f : A -> bool) l, subseq (filter f l) l.
Proof.
  intros A f l. induction l as [|x l IH]; cbn; [constructor|]. destruct (f x); constructor; exact IH.
Qed.

Lemma NoDup_filter' : forall A (f : A -> bool) l, NoDup l -> NoDup (filter f l).
Proof.
  intros A f l H. induction H as [|x l Hx Hnd IH]; cbn; [constructor|].
  destruct (f x); auto. constructor; auto. intros Hin. apply filter_In in Hin. tauto.
Qed.

(** * (2) Consequences over every accepted trace *)

(** a rebuilt rotation is exactly the balancer's targets whose replayed state is healthy *)
Theorem rotation_exact : forall tr s i lb hs,
  run step init tr = Some s -> at_ tr i (KRotation lb hs) ->
  exists ts, replayed_targets (firstn i tr) lb = Some ts /\ NoDup ts /\
             hs = filter (replayed_healthy (firstn i tr)) ts.
Proof.
  intros tr s i lb hs Hrun [[tm a k] [Hi Hk]]. cbn in Hk; subst k.
  destruct (run_split step _ _ _ _ _ Hrun Hi) as [s1 [s2 [H1 [H2 _]]]].
  destruct (step_rotation _ _ _ _ _ _ H2) as [b [b' [Hb [Hhs _]]]].
  pose proof (replay_rel _ _ H1) as HR.
  exists (b_ts b). split; [exact (rr_ts _ _ HR _ _ Hb)|]. split; [eapply ts_nodup_run; eauto|].
  rewrite Hhs. symmetry. apply (healthy_filter_eq s1 (replay (firstn i tr)) lb b); auto. eapply inv_run; eauto.
Qed.

(** (a) every target of the balancer that is healthy at the rebuild is in the rotation — and nothing else is *)
Theorem rotation_has_every_healthy_target : forall tr s i lb hs,
  run step init tr = Some s -> at_ tr i (KRotation lb hs) ->
  exists ts, replayed_targets (firstn i tr) lb = Some ts /\
    forall t, In t hs <-> In t ts /\ replayed_state (firstn i tr) t = Some THealthy.
Proof.
  intros tr s i lb hs Hrun Hat. destruct (rotation_exact _ _ _ _ _ Hrun Hat) as [ts [Hts [_ ->]]].
  exists ts. split; auto. intros t. rewrite filter_In, replayed_healthy_iff. tauto.
Qed.

(** (b) each once, in the balancer's order *)
Theorem rotation_nodup : forall tr s i lb hs,
  run step init tr = Some s -> at_ tr i (KRotation lb hs) ->
  NoDup hs /\ exists ts, replayed_targets (firstn i tr) lb = Some ts /\ NoDup ts /\ subseq hs ts.
Proof.
  intros tr s i lb hs Hrun Hat. destruct (rotation_exact _ _ _ _ _ Hrun Hat) as [ts [Hts [Hnd ->]]].
  split; [now apply NoDup_filter'|]. exists ts. repeat split; auto. apply filter_subseq.
Qed.

(** (c) fairness over the healthy targets *)

(** a rebuild keeps the cursor *)
Lemma step_rotation_cursor : forall s tm a lb hs s' b, step s (mkEv tm a (KRotation lb hs)) = Some s' ->
  nget (bals s) lb = Some b ->
  exists b', nget (bals s') lb = Some b' /\ b_rot b' = hs /\ b_idx b' = b_idx b.
Proof.
  intros s tm a lb hs s' b H Hb. step_inv H; proj_simp; rewrite nget_nset_same; inj_some;
  eexists; repeat split; reflexivity.
Qed.

(** while every rebuild of the rotation of a balancer gives the same list, the targets it hands out
    are the strict round-robin sequence over that list from its cursor, and nothing else *)
Lemma fair_trace_same : forall seg s s' lb b,
  run step s seg = Some s' -> nget (bals s) lb = Some b ->
  (forall e hs', In e seg -> e_k e = KRotation lb hs' -> hs' = b_rot b) ->
  claims_of lb seg = pick_seq (b_rot b) (b_idx b) (length (claims_of lb seg)) /\
  (forall t, In t (claims_of lb seg) -> In t (b_rot b)).
Proof.
  induction seg as [|e seg IH]; intros s s' lb b H Hb Hsame; cbn in H.
  - split; [reflexivity|intros t []].
  - destruct (step s e) as [s1|] eqn:E; [|discriminate].
    assert (Hsame' : forall b1, b_rot b1 = b_rot b -> forall e0 hs', In e0 seg -> e_k e0 = KRotation lb hs' -> hs' = b_rot b1).
    { intros b1 Hr e0 hs' Hin Hk. rewrite Hr. eapply Hsame; eauto. right; exact Hin. }
    unfold claims_of; cbn [flat_map]; fold (claims_of lb seg).
    destruct (is_rot lb e) eqn:Hr1.
    + (* a rebuild with the same list *)
      destruct e as [tm a k]. unfold is_rot in Hr1. cbn [e_k] in Hr1. destruct k; try discriminate Hr1.
      apply Nat.eqb_eq in Hr1. subst lb0.
      assert (Hh : healthy = b_rot b) by (eapply Hsame; [left; reflexivity|reflexivity]).
      destruct (step_rotation_cursor _ _ _ _ _ _ _ E Hb) as [b1 [Hb1 [Hrot Hi]]]. rewrite Hh in Hrot.
      destruct (IH _ _ _ _ H Hb1 (Hsame' _ Hrot)) as [G1 G2].
      unfold claim_of; cbn [e_k app]. rewrite Hrot, Hi in G1. rewrite Hrot in G2. split; assumption.
    + destruct (step_cursor _ _ _ _ _ E Hb Hr1) as [b1 [Hb1 [Hrot [[Hc Hi]|[Hc Hi]]]]];
        destruct (IH _ _ _ _ H Hb1 (Hsame' _ Hrot)) as [G1 G2]; rewrite Hrot in G2; rewrite Hc.
      * cbn [app]. rewrite Hrot, Hi in G1. split; assumption.
      * cbn [app length pick_seq]. split.
        -- f_equal. rewrite G1 at 1. now rewrite Hrot, Hi.
        -- intros t [<-|Hin]; [|auto].
           destruct e as [tm a k]. unfold claim_of in Hc. cbn [e_k] in Hc.
           destruct k; try discriminate Hc. destruct t as [t|]; [|discriminate Hc].
           destruct (Nat.eqb_spec lb0 lb) as [->|Hne]; [|discriminate Hc].
           destruct (step_lbclaim_some _ _ _ _ _ _ _ E) as [b2 [Hb2 [Hin2 _]]].
           inversion Hc as [Ht]. rewrite <- Ht. congruence.
Qed.

Theorem fair_over_healthy_targets_gen : forall A eJ seg s lb hs,
  run step init (A ++ eJ :: seg) = Some s -> e_k eJ = KRotation lb hs ->
  (forall e hs', In e seg -> e_k e = KRotation lb hs' -> hs' = hs) ->
  exists ts, replayed_targets A lb = Some ts /\
    hs = filter (replayed_healthy A) ts /\
    let k := length (filter (replayed_healthy A) ts) in
    let n := length (claims_of lb seg) in
    (forall t, In t ts -> replayed_state A t = Some THealthy ->
       n / k <= count_occ Nat.eq_dec (claims_of lb seg) t <= (n + k - 1) / k) /\
    (forall t, ~ (In t ts /\ replayed_state A t = Some THealthy) -> count_occ Nat.eq_dec (claims_of lb seg) t = 0).
Proof.
  intros A eJ seg s lb hs Hrun Hk Hsame.
  destruct (run_mid _ _ _ _ _ _ _ Hrun) as [s1 [s2 [H1 [H2 H3]]]].
  destruct eJ as [tm a k]. cbn in Hk. subst k.
  destruct (step_rotation _ _ _ _ _ _ H2) as [b [b' [Hb [Hhs [Hb' [Hrot' _]]]]]].
  pose proof (replay_rel _ _ H1) as HR.
  assert (Hf : hs = filter (replayed_healthy A) (b_ts b)).
  { rewrite Hhs. symmetry. apply (healthy_filter_eq s1 (replay A) lb b); auto. eapply inv_run; eauto. }
  assert (Hnd : NoDup hs).
  { rewrite Hf. apply NoDup_filter'. eapply ts_nodup_run; eauto. }
  exists (b_ts b). split; [exact (rr_ts _ _ HR _ _ Hb)|]. split; [exact Hf|].
  cbv zeta. rewrite <- Hf.
  rewrite <- Hrot' in Hsame.
  destruct (fair_trace_same _ _ _ _ _ H3 Hb' Hsame) as [Hseq Hincl]. rewrite Hrot' in Hseq, Hincl.
  split.
  - intros t Hin Hst.
    assert (Hint : In t hs) by (rewrite Hf; apply filter_In; split; [exact Hin|now apply replayed_healthy_iff]).
    assert (Hpos : 0 < length hs) by (destruct hs; [destruct Hint|cbn; lia]).
    pose proof (fair hs Hnd Hpos (length (claims_of lb seg)) (b_idx b') t Hint) as Hfair.
    rewrite <- Hseq in Hfair. exact Hfair.
  - intros t Hnot. apply count_occ_not_In. intros Hin. apply Hnot.
    pose proof (Hincl _ Hin) as Hin'. rewrite Hf in Hin'.
    apply filter_In in Hin'. destruct Hin' as [G1 G2]. split; [exact G1|now apply replayed_healthy_iff].
Qed.

(** ... in particular while the rotation is not rebuilt at all *)
Theorem fair_over_healthy_targets : forall A eJ seg s lb hs,
  run step init (A ++ eJ :: seg) = Some s -> e_k eJ = KRotation lb hs -> existsb (is_rot lb) seg = false ->
  exists ts, replayed_targets A lb = Some ts /\
    hs = filter (replayed_healthy A) ts /\
    let k := length (filter (replayed_healthy A) ts) in
    let n := length (claims_of lb seg) in
    (forall t, In t ts -> replayed_state A t = Some THealthy ->
       n / k <= count_occ Nat.eq_dec (claims_of lb seg) t <= (n + k - 1) / k) /\
    (forall t, ~ (In t ts /\ replayed_state A t = Some THealthy) -> count_occ Nat.eq_dec (claims_of lb seg) t = 0).
Proof.
  intros A eJ seg s lb hs Hrun Hk Hnr. apply (fair_over_healthy_targets_gen A eJ seg s lb hs Hrun Hk).
  intros e hs' Hin He. exfalso.
  assert (Hex : existsb (is_rot lb) seg = true).
  { apply existsb_exists. exists e. split; [exact Hin|]. unfold is_rot. rewrite He. apply Nat.eqb_refl. }
  congruence.
Qed.

(** ... and while the healthy set of the balancer (as replayed) is what it was at the rebuild *)
Lemma run_bal_ts : forall seg s s' lb b, run step s seg = Some s' -> nget (bals s) lb = Some b ->
  exists b', nget (bals s') lb = Some b' /\ b_ts b' = b_ts b.
Proof.
  induction seg as [|e seg IH]; intros s s' lb b H Hb; cbn in H.
  - inversion H; subst. eauto.
  - destruct (step s e) as [s1|] eqn:E; [|discriminate].
    destruct (bal_stable _ _ _ _ _ E Hb) as [b1 [Hb1 [Hts _]]].
    destruct (IH _ _ _ _ H Hb1) as [b' [Hb' Hts']]. exists b'. split; [exact Hb'|congruence].
Qed.

Theorem fair_while_healthy_set_unchanged : forall A eJ seg s lb hs ts,
  run step init (A ++ eJ :: seg) = Some s -> e_k eJ = KRotation lb hs ->
  replayed_targets A lb = Some ts ->
  (forall pre post, seg = pre ++ post ->
     filter (replayed_healthy (A ++ eJ :: pre)) ts = filter (replayed_healthy A) ts) ->
  let k := length (filter (replayed_healthy A) ts) in
  let n := length (claims_of lb seg) in
  (forall t, In t ts -> replayed_state A t = Some THealthy ->
     n / k <= count_occ Nat.eq_dec (claims_of lb seg) t <= (n + k - 1) / k) /\
  (forall t, ~ (In t ts /\ replayed_state A t = Some THealthy) -> count_occ Nat.eq_dec (claims_of lb seg) t = 0).
Proof.
  intros A eJ seg s lb hs ts Hrun Hk Hts Hsame.
  assert (Hrot : forall e hs', In e seg -> e_k e = KRotation lb hs' -> hs' = hs).
  { intros e hs' Hin He. apply in_split in Hin. destruct Hin as [pre [post Hseg]].
    assert (Hrun' : run step init ((A ++ eJ :: pre) ++ e :: post) = Some s).
    { rewrite <- app_assoc. cbn [app]. rewrite <- Hseg. exact Hrun. }
    destruct (run_mid _ _ _ _ _ _ _ Hrun') as [s3 [s4 [H3 [H4 _]]]].
    destruct e as [tm' a' k']. cbn in He. subst k'.
    destruct (step_rotation _ _ _ _ _ _ H4) as [b3 [_ [Hb3 [Hhs' _]]]].
    pose proof (replay_rel _ _ H3) as HR3.
    destruct (run_mid _ _ _ _ _ _ _ H3) as [s1 [s2 [H1 [H2 H2']]]].
    destruct eJ as [tm a k]. cbn in Hk. subst k.
    destruct (step_rotation _ _ _ _ _ _ H2) as [b [b2 [Hb [Hhs [Hb2 [_ Hts2]]]]]].
    destruct (run_bal_ts _ _ _ _ _ H2' Hb2) as [b3' [Hb3' Hts3]].
    rewrite Hb3 in Hb3'. inversion Hb3'; subst b3'.
    pose proof (replay_rel _ _ H1) as HR1.
    pose proof (rr_ts _ _ HR1 _ _ Hb) as Hts1. unfold replayed_targets in Hts. rewrite Hts in Hts1.
    inversion Hts1 as [Hts1'].
    rewrite Hhs'. rewrite <- (healthy_filter_eq s3 _ lb b3 (inv_run _ _ H3) HR3 Hb3).
    rewrite Hts3, Hts2, <- Hts1'.
    change (filter (replayed_healthy (A ++ mkEv tm a (KRotation lb hs) :: pre)) ts = hs).
    rewrite (Hsame pre (mkEv tm' a' (KRotation lb hs') :: post) Hseg).
    rewrite Hhs. rewrite <- (healthy_filter_eq s1 _ lb b (inv_run _ _ H1) HR1 Hb). rewrite <- Hts1'. reflexivity. }
  destruct (fair_over_healthy_targets_gen A eJ seg s lb hs Hrun Hk Hrot) as [ts' [Hts' [_ Hres]]].
  rewrite Hts in Hts'. inversion Hts'; subst ts'. exact Hres.
Qed.
