(** M5fullPath.v — the exact path of a request through the proxy: in every
    reachable state the events of request r in the trace are one of a few
    fixed sequences determined by its phase (invariant J); hence the complete
    classification of the responses (props/C02.v) and the 504 of cancelled
    requests (props/C03.v). *)
From KP Require Import model.Base model.Trace model.M5full proofs.M5fullFacts proofs.M5fullGuards.
From Coq Require Import ZifyN ZifyNat ZifyBool.
Local Open Scope nat_scope.

(** the events that are steps of request r *)
Definition about (r : nat) (k : kind) : bool :=
  match k with
  | KArrive r' | KRouted r' _ | KGateResult r' _ _ | KPick r' _ _ | KLbClaim _ _ r'
  | KClaimRefused _ r' | KClaim _ r' | KAtTarget _ r' | KTargetReplied _ r' _
  | KTargetFailed _ r' _ | KEnd _ r' | KRespond r' _ _ => Nat.eqb r r'
  | _ => false
  end.

Definition req_path (r : nat) (tr : trace) : list kind := filter (about r) (map e_k tr).

Lemma req_path_snoc : forall r tr e,
  req_path r (tr ++ [e]) = req_path r tr ++ (if about r (e_k e) then [e_k e] else []).
Proof.
  intros. unfold req_path. rewrite map_app, filter_app. cbn. destruct (about r (e_k e)); reflexivity.
Qed.

Lemma req_path_app : forall r a b, req_path r (a ++ b) = req_path r a ++ req_path r b.
Proof. intros. unfold req_path. now rewrite map_app, filter_app. Qed.

Lemma req_path_In : forall r tr k, In k (req_path r tr) <-> exists e, In e tr /\ e_k e = k /\ about r k = true.
Proof.
  intros r tr k. unfold req_path. rewrite filter_In, in_map_iff. split.
  - intros [(e & He & Hi) Ha]. eauto.
  - intros (e & Hi & He & Ha). eauto.
Qed.

Section Shapes.
Variable r : nat.
Definition p_routed (so : option nat) : list kind := [KArrive r; KRouted r so].
Definition p_gate (sv : nat) (a : gaction) : list kind := p_routed (Some sv) ++ [KGateResult r sv a].
Definition p_picked (sv lb : nat) : list kind := p_gate sv AProceed ++ [KPick r sv (Some lb)].
Definition p_lbclaimed (sv lb : nat) (ot : option nat) : list kind := p_picked sv lb ++ [KLbClaim lb ot r].
Definition p_claimed (sv lb t : nat) : list kind := p_lbclaimed sv lb (Some t) ++ [KClaim t r].
Definition p_attarget (sv lb t : nat) : list kind := p_claimed sv lb t ++ [KAtTarget t r].

(** how the exchange with the target ended, and the status that is reported *)
Definition outcome_kind (t : nat) (st : N) (k : kind) : Prop :=
  k = KTargetReplied t r st \/
  exists why, k = KTargetFailed t r why /\ outcome_status (PFailed t why) = Some (t, st).

Definition path_pre (ks : list kind) (p : rphase) : Prop :=
  match p with
  | PArrived => ks = [KArrive r]
  | PRouted so => ks = p_routed so
  | PGate sv a => ks = p_gate sv a
  | PPicked sv lb => ks = p_picked sv lb
  | PLbClaimed lb ot => exists sv, ks = p_lbclaimed sv lb ot
  | PRefused t => exists sv lb, ks = p_lbclaimed sv lb (Some t) ++ [KClaimRefused t r]
  | PClaimed t => exists sv lb, ks = p_claimed sv lb t
  | PAtTarget t => exists sv lb, ks = p_attarget sv lb t
  | PReplied t st => exists sv lb, ks = p_attarget sv lb t ++ [KTargetReplied t r st]
  | PFailed t why => exists sv lb, ks = p_attarget sv lb t ++ [KTargetFailed t r why]
  | PEnded t st => exists sv lb k, ks = p_attarget sv lb t ++ [k; KEnd t r] /\ outcome_kind t st k
  | PDone => False
  end.

Definition path_ok (ks : list kind) (p : rphase) : Prop :=
  match p with
  | PDone => exists ks0 p0 status sb,
               ks = ks0 ++ [KRespond r status sb] /\ path_pre ks0 p0 /\ respond_ok p0 status sb
  | _ => path_pre ks p
  end.
End Shapes.

Definition InvJ (tr : trace) (s : state) : Prop :=
  forall r, match phase_of s r with
            | Some p => path_ok r (req_path r tr) p
            | None => req_path r tr = []
            end.

Ltac ex_hyps :=
  repeat match goal with
  | H : exists _, _ |- _ => destruct H
  | H : _ /\ _ |- _ => destruct H
  end.

Lemma outcome_failed_t : forall t why t' st, outcome_status (PFailed t why) = Some (t', st) -> t' = t.
Proof. intros t why t' st H. cbn in H. destruct why as [|[q|q|]]; inversion H; reflexivity. Qed.

Lemma invJ_step : forall tr s e s', InvJ tr s -> step s e = Some s' -> InvJ (tr ++ [e]) s'.
Proof.
  intros tr s e s' HI H r. rewrite req_path_snoc. specialize (HI r).
  step_inv H; cbn [about]; norm; rewrite ?app_nil_r; try exact HI.
  all: eqb_cases; rewrite ?app_nil_r; try exact HI.
  all: match goal with Hp : phase_of _ _ = _ |- _ => rewrite Hp in HI end.
  all: try match goal with Hq : r_phase _ = _ |- _ => rewrite Hq in HI end.
  all: try match goal with Ho : outcome_status ?p = Some _ |- _ =>
         destruct p; try discriminate Ho end.
  all: cbn [path_ok path_pre] in HI |- *; ex_hyps.
  all: try match goal with Hr : req_path _ _ = _ |- _ => rewrite Hr end.
  all: try reflexivity.
  all: try (repeat eexists; reflexivity).
  all: try match goal with Hp : phase_of _ _ = Some ?p0 |- exists _ _ _ _, _ =>
         eexists _, p0, _, _; split; [reflexivity|split];
         [cbn [path_pre]; first [reflexivity | eexists; reflexivity | eexists _, _; reflexivity
                                | eexists _, _, _; split; [reflexivity|eassumption]]
         |cbn [respond_ok]; n_hyps; repeat match goal with Hd : _ \/ _ |- _ => destruct Hd end; n_hyps; auto] end.
  - split; auto. destruct H as [H|H]; apply N.eqb_eq in H; auto.
  - split; [assumption|discriminate].
  - (* KEnd after a reply *)
    match goal with Ho : outcome_status _ = Some _ |- _ => cbn in Ho; inversion Ho; subst end.
    eexists _, _, _. split; [rewrite <- app_assoc; reflexivity|]. left. reflexivity.
  - (* KEnd after a failure *)
    match goal with Ho : outcome_status _ = Some _ |- _ => pose proof (outcome_failed_t _ _ _ _ Ho); subst end.
    eexists _, _, _. split; [rewrite <- app_assoc; reflexivity|]. right. eauto.
Qed.

Lemma invJ_run : forall tr s, run step init tr = Some s -> InvJ tr s.
Proof.
  intros tr s H. apply (run_hinv0 step InvJ init); auto.
  - intros r. reflexivity.
  - intros pre s0 e s' _ HI Hs. eapply invJ_step; eauto.
Qed.

(** * The complete classification of the responses by the path of the request *)

Lemma respond_path : forall pre e post s r status sb,
  run step init (pre ++ e :: post) = Some s -> e_k e = KRespond r status sb ->
  exists s1 p0, run step init pre = Some s1 /\ phase_of s1 r = Some p0 /\
    path_pre r (req_path r pre) p0 /\ respond_ok p0 status sb /\
    (forall t st, p0 = PEnded t st -> sb <> [] -> nget (tgt_names s1) t = Some sb).
Proof.
  intros pre e post s r status sb Hrun Hk.
  destruct (run_app _ _ _ _ _ _ Hrun) as (s1 & s2 & Ha & He & _).
  destruct (step_KRespond _ _ _ _ _ _ He Hk) as (p & Hp & Hok & _ & Hn).
  exists s1, p. repeat split; auto.
  pose proof (invJ_run _ _ Ha r) as HJ. rewrite Hp in HJ.
  destruct p; cbn [path_ok] in HJ; auto.
Qed.

Lemma outcome_failed_status : forall t why t' st,
  outcome_status (PFailed t why) = Some (t', st) ->
  (why = 0%N /\ st = 502%N) \/ (why = 1%N /\ st = 504%N) \/ (why <> 0%N /\ why <> 1%N /\ st = 499%N).
Proof.
  intros t why t' st H. cbn in H. destruct why as [|[q|q|]]; inversion H; subst; auto.
  all: right; right; repeat split; auto; discriminate.
Qed.

(** the request's events before the response, in words *)
Section Origins.
Variables (r : nat) (ks : list kind).
Definition no_service : Prop := ks = p_routed r None.
Definition before_gate : Prop := exists sv, ks = p_routed r (Some sv).
Definition gate_said (a : gaction) : Prop := exists sv, ks = p_gate r sv a.
Definition rotation_empty : Prop := exists sv lb, ks = p_lbclaimed r sv lb None.
Definition claim_refused : Prop := exists sv lb t, ks = p_lbclaimed r sv lb (Some t) ++ [KClaimRefused t r].
Definition target_replied (t : nat) (st : N) : Prop :=
  exists sv lb, ks = p_attarget r sv lb t ++ [KTargetReplied t r st; KEnd t r].
Definition target_failed (t : nat) (why : N) : Prop :=
  exists sv lb, ks = p_attarget r sv lb t ++ [KTargetFailed t r why; KEnd t r].
End Origins.

(** every response is exactly one of these seven cases *)
Lemma response_cases : forall pre e post s r status sb,
  run step init (pre ++ e :: post) = Some s -> e_k e = KRespond r status sb ->
  let ks := req_path r pre in
  (no_service r ks /\ status = 404%N) \/
  (before_gate r ks /\ (status = 200%N \/ status = 301%N \/ status = 503%N) /\ sb = []) \/
  (gate_said r ks AStopped /\ status = 503%N) \/
  (gate_said r ks ATimedOut /\ status = 504%N) \/
  (rotation_empty r ks /\ status = 503%N) \/
  (claim_refused r ks /\ status = 503%N) \/
  (exists t, target_replied r ks t status /\ (sb = [] -> status <> 200%N)) \/
  (exists t why, target_failed r ks t why /\ (sb = [] -> status <> 200%N) /\
     ((why = 0%N /\ status = 502%N) \/ (why = 1%N /\ status = 504%N) \/
      (why <> 0%N /\ why <> 1%N /\ status = 499%N))).
Proof.
  intros pre e post s r status sb Hrun Hk ks.
  destruct (respond_path _ _ _ _ _ _ _ Hrun Hk) as (s1 & p0 & _ & _ & Hpath & Hok & _). fold ks in Hpath.
  destruct p0; cbn [path_pre respond_ok] in Hpath, Hok; try contradiction.
  - destruct s0; [right; left|left]; unfold before_gate, no_service; intuition eauto.
  - destruct a; try contradiction; [right; right; right; left|right; right; left]; unfold gate_said; eauto.
  - destruct t; try contradiction. destruct Hpath as (sv & Hks).
    right; right; right; right; left. unfold rotation_empty; eauto.
  - destruct Hpath as (sv & lb & Hks). do 5 right. left. unfold claim_refused; eauto.
  - destruct Hpath as (sv & lb & k & Hks & [->|(why & -> & Ho)]); destruct Hok as [-> Hsb].
    + do 6 right. left. exists t. split; auto. unfold target_replied; eauto.
    + do 7 right. exists t, why. split; [unfold target_failed; eauto|split; auto].
      eapply outcome_failed_status; eauto.
Qed.

(** the name in [served_by] is the name of the target that was claimed *)
Lemma response_served_by : forall pre e post s r status sb t,
  run step init (pre ++ e :: post) = Some s -> e_k e = KRespond r status sb ->
  In (KClaim t r) (req_path r pre) -> sb <> [] ->
  exists s1, run step init pre = Some s1 /\ nget (tgt_names s1) t = Some sb.
Proof.
  intros pre e post s r status sb t Hrun Hk Hin Hne.
  destruct (respond_path _ _ _ _ _ _ _ Hrun Hk) as (s1 & p0 & Ha & _ & Hpath & Hok & Hn).
  exists s1. split; auto.
  destruct p0; cbn [path_pre respond_ok] in Hpath, Hok; try contradiction.
  - rewrite Hpath in Hin. destruct s0; cbn in Hin; intuition discriminate.
  - rewrite Hpath in Hin. cbn in Hin; intuition discriminate.
  - destruct Hpath as (sv' & Hks). rewrite Hks in Hin. cbn in Hin; intuition discriminate.
  - destruct Hpath as (sv' & lb' & Hks). rewrite Hks in Hin. cbn in Hin; intuition discriminate.
  - destruct Hpath as (sv' & lb' & k & Hks & Ho). rewrite Hks in Hin.
    assert (t0 = t).
    { cbn in Hin. destruct Hin as [Hi|[Hi|[Hi|[Hi|[Hi|[Hi|[Hi|[Hi|[Hi|[]]]]]]]]]]; try discriminate.
      - inversion Hi; auto.
      - destruct Ho as [->|(why & -> & _)]; discriminate. }
    subst. eapply Hn; eauto.
Qed.

(** C03: a request whose exchange with the target was cancelled by a drain is answered 504;
    one whose target replied is answered with the target's status *)
Lemma response_after_target : forall pre e post s r status sb t,
  run step init (pre ++ e :: post) = Some s -> e_k e = KRespond r status sb ->
  (In (KTargetFailed t r 1%N) (req_path r pre) -> status = 504%N) /\
  (forall st, In (KTargetReplied t r st) (req_path r pre) -> status = st).
Proof.
  intros pre e post s r status sb t Hrun Hk.
  destruct (respond_path _ _ _ _ _ _ _ Hrun Hk) as (s1 & p0 & Ha & _ & Hpath & Hok & Hn).
  assert (Hcase : forall k, In k (req_path r pre) ->
            (exists t' why, k = KTargetFailed t' r why) \/ (exists t' st, k = KTargetReplied t' r st) ->
            exists t0 st0, p0 = PEnded t0 st0 /\ outcome_kind r t0 st0 k).
  { intros k Hin Hk'.
    destruct p0; cbn [path_pre respond_ok] in Hpath, Hok; try contradiction.
    - rewrite Hpath in Hin. destruct s0; cbn in Hin; destruct Hk' as [(?&?&->)|(?&?&->)]; intuition discriminate.
    - rewrite Hpath in Hin. cbn in Hin; destruct Hk' as [(?&?&->)|(?&?&->)]; intuition discriminate.
    - destruct Hpath as (sv' & Hks). rewrite Hks in Hin. cbn in Hin; destruct Hk' as [(?&?&->)|(?&?&->)]; intuition discriminate.
    - destruct Hpath as (sv' & lb' & Hks). rewrite Hks in Hin. cbn in Hin; destruct Hk' as [(?&?&->)|(?&?&->)]; intuition discriminate.
    - destruct Hpath as (sv' & lb' & k' & Hks & Ho). rewrite Hks in Hin. exists t0, status0. split; auto.
      cbn in Hin. destruct Hin as [Hi|[Hi|[Hi|[Hi|[Hi|[Hi|[Hi|[Hi|[Hi|[]]]]]]]]]]; subst; auto;
        destruct Hk' as [(?&?&Hd)|(?&?&Hd)]; discriminate Hd. }
  split.
  - intros Hin. destruct (Hcase _ Hin) as (t0 & st0 & -> & Ho); [left; eauto|].
    cbn [respond_ok] in Hok. destruct Hok as [-> _].
    destruct Ho as [Hd|(why & Hd & Ho)]; [discriminate|]. inversion Hd; subst. cbn in Ho. congruence.
  - intros st Hin. destruct (Hcase _ Hin) as (t0 & st0 & -> & Ho); [right; eauto|].
    cbn [respond_ok] in Hok. destruct Hok as [-> _].
    destruct Ho as [Hd|(why & Hd & Ho)]; [|discriminate]. inversion Hd; subst. reflexivity.
Qed.

(** [KTargetFailed t r 1] is accepted only for a request already cancelled by a drain *)
Lemma failed_by_drain_cancelled : forall pre e post s t r,
  run step init (pre ++ e :: post) = Some s -> e_k e = KTargetFailed t r 1%N ->
  exists s1, run step init pre = Some s1 /\ cancelled s1 r = true.
Proof.
  intros pre e post s t r Hrun Hk. destruct (run_app _ _ _ _ _ _ Hrun) as (s1 & s2 & Ha & He & _).
  destruct (step_KTargetFailed _ _ _ _ _ _ He Hk) as (_ & Hc & _). eauto.
Qed.
