(** M5lbHist.v — history invariants of the load-balancer acceptor: what the
    ghost flags of a reachable state say about the events of the trace so far. *)
From KP Require Import model.Base model.Trace model.M5lb proofs.M5lbFacts.
From Coq Require Import ZifyN ZifyNat ZifyBool.
Local Open Scope nat_scope.

Definition has (tr : trace) (k : kind) : Prop := exists e, In e tr /\ e_k e = k.

Lemma has_snoc_old : forall pre e k, has pre k -> has (pre ++ [e]) k.
Proof. intros pre e k [e0 [H1 H2]]. exists e0. split; auto. apply in_or_app. auto. Qed.

Lemma has_snoc_new : forall pre e k, e_k e = k -> has (pre ++ [e]) k.
Proof. intros pre e k H. exists e. split; auto. apply in_or_app. right. left. reflexivity. Qed.

Lemma has_app_l : forall a b k, has a k -> has (a ++ b) k.
Proof. intros a b k [e [H1 H2]]. exists e. split; auto. apply in_or_app. auto. Qed.

Lemma has_firstn : forall tr i k, has (firstn i tr) k -> exists j e, j < i /\ nth_error tr j = Some e /\ e_k e = k.
Proof.
  intros tr i k [e [H1 H2]]. destruct (In_firstn_nth _ _ _ _ H1) as [j [Hj Hn]]. eauto.
Qed.

(** [probe_then_rotation pre t lb]: a probe took [t] adding->healthy, and later the same goroutine
    rebuilt the rotation of [lb] with [t] in it *)
Definition probe_then_rotation (pre : trace) (t lb : nat) : Prop :=
  exists l1 e1 l2 e2 l3 hs, pre = l1 ++ e1 :: l2 ++ e2 :: l3 /\
    e_k e1 = KProbeApply t true TAdding THealthy /\ e_k e2 = KRotation lb hs /\ In t hs /\ e_by e1 = e_by e2.

Lemma ptr_snoc : forall pre e t lb, probe_then_rotation pre t lb -> probe_then_rotation (pre ++ [e]) t lb.
Proof.
  intros pre e t lb [l1 [e1 [l2 [e2 [l3 [hs [H [H1 [H2 [H3 H4]]]]]]]]]].
  exists l1, e1, l2, e2, (l3 ++ [e]), hs. repeat split; auto.
  subst pre. repeat (rewrite <- app_assoc; cbn [app]). reflexivity.
Qed.

Definition has_by (tr : trace) (a : actor) (k : kind) : Prop := exists e, In e tr /\ e_k e = k /\ e_by e = a.

Lemma has_by_snoc_old : forall pre e a k, has_by pre a k -> has_by (pre ++ [e]) a k.
Proof. intros pre e a k [e0 [H1 H2]]. exists e0. split; auto. apply in_or_app. auto. Qed.

Lemma has_by_snoc_new : forall pre e k, e_k e = k -> has_by (pre ++ [e]) (e_by e) k.
Proof. intros pre e k H. exists e. split; [apply in_or_app; right; left; reflexivity|auto]. Qed.

Lemma ptr_new : forall pre e t lb hs,
  has_by pre (e_by e) (KProbeApply t true TAdding THealthy) -> e_k e = KRotation lb hs -> In t hs ->
  probe_then_rotation (pre ++ [e]) t lb.
Proof.
  intros pre e t lb hs [e1 [Hin [Hk Hb]]] He Ht. apply in_split in Hin. destruct Hin as [l1 [l2 ->]].
  exists l1, e1, l2, e, [], hs. repeat split; auto. rewrite <- app_assoc. reflexivity.
Qed.

Record HInv (pre : trace) (s : state) : Prop := mkHInv {
  h_pok : forall t x, nget (tgts s) t = Some x -> t_pok x = true -> exists prev new, has pre (KProbeApply t true prev new);
  h_by : forall t x a, nget (tgts s) t = Some x -> t_by x = Some a -> has_by pre a (KProbeApply t true TAdding THealthy);
  h_sig : forall t x, nget (tgts s) t = Some x -> t_sig x = true -> probe_then_rotation pre t (t_lb x);
  h_waited : forall lb b v, nget (bals s) lb = Some b -> b_waited b = Some v -> has pre (KDeployWaited lb v);
  h_wtr : forall t x v, nget (tgts s) t = Some x -> t_waiter x = Some v -> has pre (KWaiter t v);
  h_restored : forall lb b, nget (bals s) lb = Some b -> b_restored b = true ->
               exists sv act roll, has pre (KRestored sv act roll) /\ (act = Some lb \/ roll = Some lb);
  h_presumed : forall t x, nget (tgts s) t = Some x -> t_presumed x = true -> has pre (KStateSet t TAdding THealthy)
}.

Lemma hinv_init : HInv [] init.
Proof. constructor; cbn; intros; discriminate. Qed.

Lemma hpres_pok : forall pre s e s', HInv pre s -> step s e = Some s' ->
  forall t x, nget (tgts s') t = Some x -> t_pok x = true -> exists prev new, has (pre ++ [e]) (KProbeApply t true prev new).
Proof.
  intros pre s e s' HH H t x Hx Hp.
  assert (Hold : forall x, nget (tgts s) t = Some x -> t_pok x = true -> exists prev new, has (pre ++ [e]) (KProbeApply t true prev new)).
  { intros x0 H0 H1. destruct (h_pok _ _ HH _ _ H0 H1) as [p [n Hh]]. exists p, n. now apply has_snoc_old. }
  destruct e as [tm a k]. destruct k; step_inv H; proj_simp; try (eapply Hold; eauto; fail).
  all: norm; try (eapply Hold; eauto; fail).
  all: try (split_ands; discriminate).
  all: try (apply add_targets_inv in Hx; destruct Hx as [[_ ->]|[_ Hx]]; [discriminate|eapply Hold; eauto]; fail).
  all: try (do 2 eexists; apply has_snoc_new; reflexivity).
Qed.

Lemma hpres_by : forall pre s e s', HInv pre s -> step s e = Some s' ->
  forall t x a, nget (tgts s') t = Some x -> t_by x = Some a -> has_by (pre ++ [e]) a (KProbeApply t true TAdding THealthy).
Proof.
  intros pre s e s' HH H t x a0 Hx Hp.
  assert (Hold : forall x, nget (tgts s) t = Some x -> t_by x = Some a0 -> has_by (pre ++ [e]) a0 (KProbeApply t true TAdding THealthy)).
  { intros x0 H0 H1. apply has_by_snoc_old. eapply (h_by _ _ HH); eauto. }
  destruct e as [tm a k]. destruct k; step_inv H; proj_simp; try (eapply Hold; eauto; fail).
  all: norm; try (eapply Hold; eauto; fail).
  all: try (split_ands; discriminate).
  all: try (apply add_targets_inv in Hx; destruct Hx as [[_ ->]|[_ Hx]]; [discriminate|eapply Hold; eauto]; fail).
  all: inj_some; split_ands;
       repeat match goal with H : tstate_eqb _ _ = true |- _ => apply tstate_eqb_eq in H end;
       cbn [probe_next] in *; subst;
       repeat match goal with H : t_st _ = _ |- _ => rewrite H in * end; try discriminate;
       match goal with |- has_by (_ ++ [?ev]) ?ac _ => change ac with (e_by ev) end;
       apply has_by_snoc_new; reflexivity.
Qed.

Lemma becoming_some : forall tg a ts t, becoming tg a ts = Some t ->
  In t ts /\ exists x, nget tg t = Some x /\ exists b, t_by x = Some b /\ actor_eqb a b = true.
Proof.
  intros tg a ts t H. unfold becoming in H. apply find_some in H. destruct H as [Hin H]. split; auto.
  destruct (nget tg t) as [x|]; [|discriminate]. exists x. split; auto.
  unfold opt_actor_is in H. destruct (t_by x) as [b|]; [|discriminate]. eauto.
Qed.

Lemma actor_eqb_eq : forall a b, actor_eqb a b = true -> a = b.
Proof.
  intros [x|x|x|] [y|y|y|]; cbn; intros H; try discriminate; try reflexivity; apply Nat.eqb_eq in H; now subst.
Qed.

Lemma hpres_sig : forall pre s e s', Inv s -> HInv pre s -> step s e = Some s' ->
  forall t x, nget (tgts s') t = Some x -> t_sig x = true -> probe_then_rotation (pre ++ [e]) t (t_lb x).
Proof.
  intros pre s e s' HI HH H t x Hx Hp.
  assert (Hold : forall x0, nget (tgts s) t = Some x0 -> t_sig x0 = true -> t_lb x0 = t_lb x -> probe_then_rotation (pre ++ [e]) t (t_lb x)).
  { intros x0 H0 H1 H2. apply ptr_snoc. rewrite <- H2. eapply (h_sig _ _ HH); eauto. }
  destruct e as [tm a k]. destruct k; step_inv H; proj_simp; try (eapply Hold; eauto; fail).
  all: norm; try (eapply Hold; eauto; fail).
  all: try (split_ands; discriminate).
  all: try (apply add_targets_inv in Hx; destruct Hx as [[_ ->]|[_ Hx]]; [discriminate|eapply Hold; eauto]; fail).
  destruct (becoming_some _ _ _ _ Heqo0) as [Hin [x1 [Hx1 [b1 [Hb1 Hab]]]]]. same_get.
  apply actor_eqb_eq in Hab. subst b1.
  destruct (i_ts _ HI _ _ _ Heqo Hin) as [x2 [Hx2 Hl]]. same_get.
  eapply ptr_new.
  - cbn [e_by]. eapply (h_by _ _ HH); eauto.
  - reflexivity.
  - now apply nmem_In.
Qed.

Lemma hpres_waited : forall pre s e s', HInv pre s -> step s e = Some s' ->
  forall lb b v, nget (bals s') lb = Some b -> b_waited b = Some v -> has (pre ++ [e]) (KDeployWaited lb v).
Proof.
  intros pre s e s' HH H lb b v Hb Hw.
  assert (Hold : forall b, nget (bals s) lb = Some b -> b_waited b = Some v -> has (pre ++ [e]) (KDeployWaited lb v)).
  { intros b0 H0 H1. apply has_snoc_old. eapply (h_waited _ _ HH); eauto. }
  destruct e as [tm a k]. destruct k; step_inv H; proj_simp; try (eapply Hold; eauto; fail).
  all: norm; try (eapply Hold; eauto; fail).
  all: try (split_ands; discriminate).
  all: inj_some; try (apply has_snoc_new; reflexivity).
  unmark. rewrite Hs_w in Hw. eapply Hold; eauto.
Qed.

Lemma hpres_wtr : forall pre s e s', HInv pre s -> step s e = Some s' ->
  forall t x v, nget (tgts s') t = Some x -> t_waiter x = Some v -> has (pre ++ [e]) (KWaiter t v).
Proof.
  intros pre s e s' HH H t x v Hx Hw.
  assert (Hold : forall x, nget (tgts s) t = Some x -> t_waiter x = Some v -> has (pre ++ [e]) (KWaiter t v)).
  { intros x0 H0 H1. apply has_snoc_old. eapply (h_wtr _ _ HH); eauto. }
  destruct e as [tm a k]. destruct k; step_inv H; proj_simp; try (eapply Hold; eauto; fail).
  all: norm; try (eapply Hold; eauto; fail).
  all: try (split_ands; discriminate).
  all: try (apply add_targets_inv in Hx; destruct Hx as [[_ ->]|[_ Hx]]; [discriminate|eapply Hold; eauto]; fail).
  all: inj_some; try (apply has_snoc_new; reflexivity).
  all: try (destruct ok; proj_simp; eapply Hold; eauto; fail).
Qed.

Lemma in_restored_lbs : forall lb n roll, In lb (n :: opt_list roll) -> Some n = Some lb \/ roll = Some lb.
Proof.
  intros lb n roll [->|H]; [left; reflexivity|]. destruct roll as [l|]; cbn in H; [|contradiction].
  destruct H as [->|[]]. right. reflexivity.
Qed.

Lemma hpres_restored : forall pre s e s', HInv pre s -> step s e = Some s' ->
  forall lb b, nget (bals s') lb = Some b -> b_restored b = true ->
  exists sv act roll, has (pre ++ [e]) (KRestored sv act roll) /\ (act = Some lb \/ roll = Some lb).
Proof.
  intros pre s e s' HH H lb b Hb Hr.
  assert (Hold : forall b, nget (bals s) lb = Some b -> b_restored b = true ->
            exists sv act roll, has (pre ++ [e]) (KRestored sv act roll) /\ (act = Some lb \/ roll = Some lb)).
  { intros b0 H0 H1. destruct (h_restored _ _ HH _ _ H0 H1) as [sv [act [roll [Hh Ho]]]].
    exists sv, act, roll. split; auto. now apply has_snoc_old. }
  destruct e as [tm a k]. destruct k; step_inv H; proj_simp; try (eapply Hold; eauto; fail).
  all: norm; try (eapply Hold; eauto; fail).
  all: try discriminate.
  unmark. destruct (Hrest Hr) as [Hr0|Hin]; [eapply Hold; eauto|].
  do 3 eexists. split; [apply has_snoc_new; reflexivity|]. now apply in_restored_lbs.
Qed.

Lemma hpres_presumed : forall pre s e s', HInv pre s -> step s e = Some s' ->
  forall t x, nget (tgts s') t = Some x -> t_presumed x = true -> has (pre ++ [e]) (KStateSet t TAdding THealthy).
Proof.
  intros pre s e s' HH H t x Hx Hp.
  assert (Hold : forall x, nget (tgts s) t = Some x -> t_presumed x = true -> has (pre ++ [e]) (KStateSet t TAdding THealthy)).
  { intros x0 H0 H1. apply has_snoc_old. eapply (h_presumed _ _ HH); eauto. }
  destruct e as [tm a k]. destruct k; step_inv H; proj_simp; try (eapply Hold; eauto; fail).
  all: norm; try (eapply Hold; eauto; fail).
  all: try (split_ands; discriminate).
  all: try (apply add_targets_inv in Hx; destruct Hx as [[_ ->]|[_ Hx]]; [discriminate|eapply Hold; eauto]; fail).
  all: try (destruct ok; proj_simp; eapply Hold; eauto; fail).
  all: try (clear Heqb; split_ands; repeat match goal with H : tstate_eqb _ _ = true |- _ => apply tstate_eqb_eq in H end; subst;
            apply has_snoc_new; reflexivity).
Qed.

Theorem hinv_step : forall pre s e s', Inv s -> HInv pre s -> step s e = Some s' -> HInv (pre ++ [e]) s'.
Proof.
  intros pre s e s' HI HH H. constructor.
  - eapply hpres_pok; eauto.
  - eapply hpres_by; eauto.
  - eapply hpres_sig; eauto.
  - eapply hpres_waited; eauto.
  - eapply hpres_wtr; eauto.
  - eapply hpres_restored; eauto.
  - eapply hpres_presumed; eauto.
Qed.

Theorem hinv_run : forall tr s, run step init tr = Some s -> HInv tr s.
Proof.
  intros tr s H.
  apply (run_hinv0 step (fun pre s => HInv pre s) init hinv_init) with (tr := tr); auto.
  intros pre s0 e s1 Hr HH Hs. eapply hinv_step; eauto. eapply inv_run; eauto.
Qed.

