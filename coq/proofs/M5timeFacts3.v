(** M5timeFacts3.v — what never changes in a command record; frames of the steps. *)
From Coq Require Import ZifyN ZifyNat ZifyBool.
From KP Require Import model.Base model.Trace model.M5time proofs.M5timeFacts proofs.M5timeFacts2.
Local Open Scope N_scope.

(** ** What never changes in a command record *)

Definition cle (cm cm' : cmd) : Prop :=
  c_kind cm' = c_kind cm /\ c_issue cm' = c_issue cm /\
  (c_phase cm <> PNew -> c_dt cm' = c_dt cm /\ c_drt cm' = c_drt cm /\ c_phase cm' <> PNew) /\
  (forall lb, c_new cm = Some lb -> c_new cm' = Some lb) /\
  (forall r, c_repl cm = Some r -> c_repl cm' = Some r) /\
  (c_phase cm = PReturned -> c_phase cm' = PReturned).

Lemma cle_refl cm : cle cm cm.
Proof. unfold cle; repeat split; auto. Qed.

Lemma cle_trans a b c : cle a b -> cle b c -> cle a c.
Proof.
  unfold cle. intros (A1 & A2 & A3 & A4 & A5 & A6) (B1 & B2 & B3 & B4 & B5 & B6).
  split; [congruence|]. split; [congruence|]. split.
  - intros H. destruct (A3 H) as (X1 & X2 & X3). destruct (B3 X3) as (Y1 & Y2 & Y3). repeat split; congruence.
  - repeat split; auto.
Qed.

Ltac cle_goal :=
  unfold cle; cbn [stepped set_pending set_disp set_new set_repl set_last set_alt
                   c_phase c_kind c_issue c_dt c_drt c_new c_repl];
  repeat split; auto; try discriminate; try congruence.

Lemma own_step_cmds p st c cm e s' :
  own_step p st c cm e = Some s' ->
  cmds s' = cmds st \/ exists cm', cmds s' = nset (cmds st) c cm' /\ cle cm cm' /\ c_last cm' = e_t e /\ c_alt cm' = None.
Proof.
  unfold own_step.
  destruct (own_time_ok st cm (e_t e)); cbn [negb]; [|discriminate].
  destruct (e_k e) eqn:Hk.
  all: try (inv_some; left; frame3).
  all: destruct (disp_ok st cm); cbn [negb]; [|discriminate].
  all: destruct (tc_ok st cm _ (e_t e)); cbn [negb]; [|discriminate].
  all: destruct (is_gate (c_phase cm) && negb (cont_ok st c cm)); [discriminate|].
  all: cbv zeta.
  all: destruct (c_phase cm) eqn:Hph; cbn [is_gate].
  all: repeat match goal with
              | |- (match ?x with _ => _ end) = Some _ -> _ => destruct x eqn:?
              | |- (if ?x then _ else _) = Some _ -> _ => destruct x eqn:?
              end.
  all: try (inv_some; fail).
  all: inv_some.
  all: right; eexists; split;
       [unfold put; cbn [cmds upd_cmds upd_svcs];
        rewrite ?(proj1 (mark_disposed_frame _ _));
        try match goal with H : new_lb _ _ _ _ = Some _ |- _ => rewrite (proj1 (new_lb_frame _ _ _ _ _ H)) end;
        reflexivity|].
  all: repeat match goal with
              | H : _ && _ = true |- _ => apply andb_prop in H; destruct H
              end.
  all: repeat match goal with
              | H : match ?x with Some _ => false | None => true end = true |- _ => destruct x eqn:?; [discriminate|]
              end.
  all: (split; [|split; reflexivity]).
  all: try (cle_goal; fail).
  all: try (destruct ok; cle_goal; fail).
  all: try (destruct (is_pause_stop (c_kind cm)); cle_goal; fail).
Qed.

Definition keeps (l l' : list (nat * cmd)) : Prop :=
  forall c cm, nget l c = Some cm -> exists cm', nget l' c = Some cm' /\ cle cm cm'.

Lemma keeps_refl l : keeps l l.
Proof. intros c cm H; exists cm; split; [exact H|apply cle_refl]. Qed.

Lemma keeps_trans a b c : keeps a b -> keeps b c -> keeps a c.
Proof.
  intros H1 H2 k cm H. destruct (H1 _ _ H) as (cm1 & Hb & L1). destruct (H2 _ _ Hb) as (cm2 & Hc & L2).
  exists cm2; split; [exact Hc|exact (cle_trans _ _ _ L1 L2)].
Qed.

Lemma keeps_nset l c0 cm0 cm0' : nget l c0 = Some cm0 -> cle cm0 cm0' -> keeps l (nset l c0 cm0').
Proof.
  intros H0 L c cm H. rewrite nget_nset. destruct (Nat.eqb c c0) eqn:E.
  - apply Nat.eqb_eq in E; subst c0. rewrite H0 in H; injection H as <-. exists cm0'; split; [reflexivity|exact L].
  - exists cm; split; [exact H|apply cle_refl].
Qed.

Lemma keeps_nset_fresh l c0 cm0' : nget l c0 = None -> keeps l (nset l c0 cm0').
Proof.
  intros H0 c cm H. rewrite nget_nset. destruct (Nat.eqb c c0) eqn:E.
  - apply Nat.eqb_eq in E; subst c0. rewrite H0 in H; discriminate.
  - exists cm; split; [exact H|apply cle_refl].
Qed.

Lemma nget_clear_pending cs who t c :
  nget (clear_pending cs who t) c =
  match nget cs c with
  | Some cm => Some (if nmem c who then set_pending cm (nremove t (c_pending cm)) else cm)
  | None => None
  end.
Proof.
  unfold clear_pending. induction cs as [|[k v] cs IH]; cbn [map nget fst snd]; [reflexivity|].
  destruct (nmem k who) eqn:Hm; cbn [nget fst snd]; destruct (Nat.eqb c k) eqn:E; try exact IH.
  - apply Nat.eqb_eq in E; subst k. rewrite Hm; reflexivity.
  - apply Nat.eqb_eq in E; subst k. rewrite Hm; reflexivity.
Qed.

Lemma keeps_clear_pending cs who t : keeps cs (clear_pending cs who t).
Proof.
  intros c cm H. rewrite nget_clear_pending, H. eexists; split; [reflexivity|].
  destruct (nmem c who); [cle_goal|apply cle_refl].
Qed.

Lemma keeps_notify st d t cs : notify st d t = Some cs -> keeps (cmds st) cs.
Proof.
  unfold notify. generalize (cmds st) as l. generalize (d_owners d) as os.
  induction os as [|o os IH]; intros l; cbn [fold_left].
  - intros H; injection H as <-; apply keeps_refl.
  - destruct (notify_one st d t (Some l) o) as [l1|] eqn:E.
    + intros H. eapply keeps_trans; [|exact (IH _ H)].
      unfold notify_one in E. destruct (nget l (fst o)) as [cm|] eqn:Hg; [|injection E as <-; apply keeps_refl].
      destruct (negb (in_drain_phase cm)); [injection E as <-; apply keeps_refl|].
      destruct (parks st || _); [|discriminate]. injection E as <-.
      apply keeps_nset with cm; [exact Hg|]. destruct (snd o); cle_goal.
    + intros H. exfalso. clear -H. induction os as [|o' os IH]; cbn [fold_left] in H; [discriminate|]. apply IH; exact H.
Qed.

Lemma own_step_keeps p st c cm e s' :
  nget (cmds st) c = Some cm -> own_step p st c cm e = Some s' -> keeps (cmds st) (cmds s').
Proof.
  intros Hc H. destruct (own_step_cmds _ _ _ _ _ _ H) as [E|(cm' & E & L & _)]; rewrite E.
  - apply keeps_refl.
  - apply keeps_nset with cm; assumption.
Qed.

Lemma step_keeps p st0 e s' : step_gen p st0 e = Some s' -> keeps (cmds st0) (cmds s').
Proof.
  unfold step_gen.
  destruct (e_t e <? clock st0); [discriminate|].
  change (cmds st0) with (cmds (upd_clock st0 (e_t e))).
  set (st := upd_clock st0 (e_t e)) in *. clearbody st. cbv zeta.
  destruct (e_k e) eqn:Hk.
  all: try (destruct (e_by e) eqn:Hby;
            [inv_some; apply keeps_refl
            |destruct (nget (cmds st) c) eqn:Hc; [intros H; eapply own_step_keeps; eassumption|inv_some; apply keeps_refl]
            |inv_some; apply keeps_refl|inv_some; apply keeps_refl]; fail).
  all: try (step_destruct; try (inv_some; fail); inv_some; cbn [cmds set_parks upd_tnames upd_tgts upd_drains set_drain];
            apply keeps_refl; fail).
  - (* KIssue *)
    destruct (nget (cmds st) c) eqn:Hc; [discriminate|]. inv_some. apply keeps_nset_fresh; exact Hc.
  - (* KParams *)
    destruct (nget (cmds st) c) as [cm|] eqn:Hc; [|discriminate].
    destruct (c_phase cm) eqn:Hph; try discriminate.
    destruct (own_time_ok st cm (e_t e)); [|discriminate]. inv_some.
    apply keeps_nset with cm; [exact Hc|]. unfold cle; cbn; rewrite Hph; repeat split; auto; congruence.
  - (* KReturn *)
    destruct (nget (cmds st) c) as [cm|] eqn:Hc; [|discriminate].
    destruct (actor_eqb (e_by e) (ACmd c)); [|discriminate]. intros H. eapply own_step_keeps; eassumption.
  - (* KLbNew *)
    destruct (e_by e); [|destruct (nget (cmds st) c) eqn:Hc; [intros H; eapply own_step_keeps; eassumption|inv_some; apply keeps_refl]| |];
      intros H; rewrite (proj1 (new_lb_frame _ _ _ _ _ H)); apply keeps_refl.
  - (* KLbDispose *)
    destruct (e_by e); [|destruct (nget (cmds st) c) eqn:Hc; [intros H; eapply own_step_keeps; eassumption|inv_some; apply keeps_refl]| |];
      inv_some; rewrite (proj1 (mark_disposed_frame _ _)); apply keeps_refl.
  - (* KEnd *)
    inv_some. destruct (nget (tgts st) t); apply keeps_refl.
  - (* KWaiter *)
    destruct (nget (tgts st) t) as [x|]; [|discriminate].
    destruct (t_wait x); [discriminate|].
    destruct (nget (lbs st) (t_lb x)) as [l|]; [|discriminate].
    destruct (l_owner l) as [c|]; [|discriminate].
    destruct (nget (cmds st) c) as [cm|] eqn:Hc; [|discriminate].
    destruct (c_phase cm) eqn:Hph; try discriminate.
    destruct (_ && _); [|discriminate]. inv_some.
    apply keeps_nset with cm; [exact Hc|]. cle_goal.
  - (* KProbeStop *)
    destruct (e_by e); [|destruct (nget (cmds st) c) eqn:Hc; [intros H; eapply own_step_keeps; eassumption|inv_some; apply keeps_refl]| |];
      inv_some; rewrite (proj1 (set_probing_frame _ _ _)); apply keeps_refl.
  - (* restore *)
    destruct (nget (drains st) (goid (e_by e))) as [d|]; [|inv_some; apply keeps_refl].
    destruct (d_cancel d); [|discriminate]. destruct (tstate_eqb _ _) eqn:Hnd; [discriminate|]. destruct (_ && _); [|discriminate].
    destruct (notify st d (e_t e)) as [cs|] eqn:Hn; [|discriminate]. inv_some.
    exact (keeps_notify _ _ _ _ Hn).
  - (* KDrainBegin *)
    step_destruct; try (inv_some; fail); inv_some; apply keeps_clear_pending.
  - (* KDrainCancelRest *)
    step_destruct; try (inv_some; fail); inv_some; destruct (nget (tgts st) t); apply keeps_refl.
Qed.

(** frame of an own step *)
Lemma own_step_frame p st c cm e s' :
  own_step p st c cm e = Some s' ->
  parks s' = parks st /\ clock s' = clock st /\ drains s' = drains st /\ tnames s' = tnames st.
Proof.
  unfold own_step.
  destruct (own_time_ok st cm (e_t e)); cbn [negb]; [|discriminate].
  destruct (e_k e) eqn:Hk.
  all: try (inv_some; unfold set_probing; destruct (nget (tgts st) _); cbn; repeat split; fail).
  all: destruct (disp_ok st cm); cbn [negb]; [|discriminate].
  all: destruct (tc_ok st cm _ (e_t e)); cbn [negb]; [|discriminate].
  all: destruct (is_gate (c_phase cm) && negb (cont_ok st c cm)); [discriminate|].
  all: cbv zeta.
  all: destruct (c_phase cm) eqn:Hph; cbn [is_gate].
  all: repeat match goal with
              | |- (match ?x with _ => _ end) = Some _ -> _ => destruct x eqn:?
              | |- (if ?x then _ else _) = Some _ -> _ => destruct x eqn:?
              end.
  all: try (inv_some; fail).
  all: inv_some.
  all: try match goal with H : new_lb _ _ _ _ = Some _ |- _ => destruct (new_lb_frame _ _ _ _ _ H) as (_ & ? & ? & ?) end.
  all: unfold put, mark_disposed; repeat match goal with |- context [match ?x with _ => _ end] => destruct x end; cbn.
  all: try (repeat split; assumption).
  all: try match goal with H : new_lb _ _ _ _ = Some _ |- _ => revert H; unfold new_lb;
             repeat match goal with |- context [match ?x with _ => _ end] => destruct x | |- context [if ?x then _ else _] => destruct x end;
             try discriminate; intros H; injection H as <-; cbn; repeat split end.
Qed.
