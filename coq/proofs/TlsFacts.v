(** TlsFacts.v — proofs for property C16 about model/Seq.v ([serve],
    [sync_tls], [init_check]) and model/Tls.v ([cert_for]). *)
From KP Require Import model.Base model.ServiceMap model.Seq model.Tls.
From KP Require Import proofs.ServiceMapFacts proofs.PauseFacts.
From Coq Require Import ZifyNat.

(** * Request policy *)

Lemma serve_redirect ig st q n prefix s :
  route (table_of (st_services st)) (q_host q) (q_path q) = Some (n, prefix) ->
  svc_get (st_services st) n = Some s ->
  o_tls (s_opts s) = true -> o_tls_redirect (s_opts s) = true -> q_tls q = false ->
  serve ig st q = R301 (https_prefix ++ redirect_host (q_host q) ++ q_uri q).
Proof. intros Hr Hg H1 H2 H3. unfold serve. rewrite Hr, Hg, H1, H2, H3. reflexivity. Qed.

Lemma serve_refuse ig st q n prefix s :
  route (table_of (st_services st)) (q_host q) (q_path q) = Some (n, prefix) ->
  svc_get (st_services st) n = Some s ->
  o_tls (s_opts s) = false -> q_tls q = true ->
  serve ig st q = R503_tls.
Proof. intros Hr Hg H1 H2. unfold serve. rewrite Hr, Hg, H1, H2. reflexivity. Qed.

(** * The host of the redirect target *)

Lemma contains_colon_plain h : plain h -> contains_byte h colon = false.
Proof. intros (Hc & _). now apply contains_byte_false. Qed.

(** host:port -> host *)
Lemma redirect_host_port h port :
  h <> [] -> plain h -> plain port -> redirect_host (h ++ colon :: port) = h.
Proof.
  intros Hne Hh Hp. unfold redirect_host.
  rewrite (split_host_port_host_port h port Hne Hh Hp). now rewrite contains_colon_plain.
Qed.

(** host -> host *)
Lemma split_host_port_no_colon h : ~ In colon h -> split_host_port h = None.
Proof.
  intros Hc. unfold split_host_port.
  assert (E : last_index_byte h colon = None).
  { unfold last_index_byte. now rewrite last_index_aux_absent. }
  now rewrite E.
Qed.

Lemma redirect_host_no_port h : ~ In colon h -> redirect_host h = h.
Proof. intros Hc. unfold redirect_host. now rewrite split_host_port_no_colon. Qed.

(** [v6]:port -> [v6] *)
Lemma redirect_host_ipv6_port a port :
  In colon a -> ~ In x5b a -> ~ In x5d a -> plain port ->
  redirect_host (x5b :: a ++ x5d :: colon :: port) = x5b :: a ++ [x5d].
Proof.
  intros Hc Hl Hr Hp. unfold redirect_host.
  rewrite (split_host_port_bracket_port a port Hl Hr Hp).
  apply contains_byte_true in Hc. now rewrite Hc.
Qed.

(** [v6] -> [v6] *)
Lemma redirect_host_ipv6_no_port a :
  ~ In x5d a -> redirect_host (x5b :: a ++ [x5d]) = x5b :: a ++ [x5d].
Proof. intros Hr. unfold redirect_host. now rewrite split_host_port_bracket_no_port. Qed.

Lemma skipn_S_app {A} (a : list A) c rest : skipn (S (length a)) (a ++ c :: rest) = rest.
Proof. induction a as [|x a IH]; [reflexivity|exact IH]. Qed.

(** For every well-formed Host header the redirect target names the same
    host with the port removed. *)
Lemma redirect_host_wf h : wf_host h = true -> redirect_host h = host_without_port h.
Proof.
  destruct h as [|b0 r0]; [discriminate|].
  assert (Hplain : hd_error (b0 :: r0) <> Some x5b -> wf_host (b0 :: r0) =
            (negb (contains_byte (b0 :: r0) x5b) && negb (contains_byte (b0 :: r0) x5d) &&
             match index_byte (b0 :: r0) colon with
             | None => true
             | Some i => negb (Nat.eqb i 0) && forallb is_digit (skipn (S i) (b0 :: r0))
             end) /\
            host_without_port (b0 :: r0) =
              match index_byte (b0 :: r0) colon with Some i => firstn i (b0 :: r0) | None => b0 :: r0 end).
  { intros Hh. destruct b0; try (split; reflexivity). exfalso. apply Hh. reflexivity. }
  destruct (byte_eqb b0 x5b) eqn:Eb.
  - (* bracketed *)
    apply byte_eqb_eq in Eb. subst b0. cbn [wf_host host_without_port].
    destruct (index_byte r0 x5d) as [e|] eqn:Ei; [|discriminate].
    destruct (index_byte_some _ _ _ Ei) as (a & rest & -> & Hna & Hl). subst e.
    rewrite firstn_length_app.
    rewrite skipn_S_app.
    intros H. apply andb_true_iff in H as [H Hrest]. apply andb_true_iff in H as [Hnb Hc].
    apply negb_true_iff, contains_byte_false in Hnb. apply contains_byte_true in Hc.
    destruct rest as [|c port].
    + now rewrite redirect_host_ipv6_no_port.
    + apply andb_true_iff in Hrest as [Ec Hd]. apply byte_eqb_eq in Ec. subst c.
      now rewrite (redirect_host_ipv6_port a port Hc Hnb Hna (digits_plain _ Hd)).
  - (* plain *)
    assert (Hh : hd_error (b0 :: r0) <> Some x5b).
    { cbn. intros E. inversion E; subst. discriminate. }
    destruct (Hplain Hh) as [-> ->]. set (h := b0 :: r0) in *.
    intros H. apply andb_true_iff in H as [H Hp]. apply andb_true_iff in H as [Hl Hr].
    apply negb_true_iff, contains_byte_false in Hl. apply negb_true_iff, contains_byte_false in Hr.
    destruct (index_byte h colon) as [i|] eqn:Ei.
    + apply andb_true_iff in Hp as [Hi Hd]. apply negb_true_iff, Nat.eqb_neq in Hi.
      destruct (index_byte_some _ _ _ Ei) as (host & port & E & Hnc & Hlen). subst i.
      rewrite E in *. rewrite firstn_length_app.
      rewrite skipn_S_app in Hd.
      apply redirect_host_port.
      * intros ->. now apply Hi.
      * repeat split; [exact Hnc| |]; intros Hin; [apply Hl|apply Hr]; apply in_or_app; now left.
      * now apply digits_plain.
    + apply redirect_host_no_port. now apply index_byte_none.
Qed.

(** * Wildcard hosts and automatic TLS *)

Lemma wildcard_acme_refused v st name o t targets :
  o_tls o = true -> o_cert o = CertNone ->
  mem_str root_path (o_prefixes (normalize o)) = true ->
  existsb (fun h => contains_byte h star) (o_hosts o) = true ->
  exec v st (Deploy name o t targets) = (Err EWildcardACME, st).
Proof.
  intros Ht Hc Hr Hw. cbn [exec].
  assert (E : init_check v (normalize o) = Some EWildcardACME).
  { unfold init_check, wants_cert. cbn [normalize o_tls o_prefixes o_cert o_hosts o_pages].
    rewrite Ht. cbn [normalize o_prefixes] in Hr. rewrite Hr, orb_true_r. cbn [andb]. rewrite Hc.
    assert (Hh : existsb (fun h => contains_byte h star) (normalize_hosts (o_hosts o)) = true).
    { destruct (o_hosts o); [discriminate|exact Hw]. }
    now rewrite Hh. }
  now rewrite E.
Qed.

(** * The service found for the root path of a host serves the root path *)

Lemma seg_match_root_only p : normalised p -> seg_match root_path p -> p = root_path.
Proof.
  intros Hn [[H _]|[H|[r H]]]; [exact H|now symmetry|].
  destruct (normalised_cases p Hn) as [->|(_ & q & _ & ->)]; [reflexivity|].
  unfold root_path in H. cbn in H. inversion H as [H1]. destruct q; discriminate.
Qed.

Lemma svc_get_in_nodup svcs s :
  NoDup (map s_name svcs) -> In s svcs -> svc_get svcs (s_name s) = Some s.
Proof.
  induction svcs as [|x r IH]; intros Hn Hi; [contradiction|].
  cbn in Hn. inversion Hn as [|? ? Hx Hr]; subst. cbn.
  destruct Hi as [->|Hi]; [now rewrite str_eqb_refl|].
  destruct (str_eqb (s_name x) (s_name s)) eqn:E.
  - apply str_eqb_eq in E. exfalso. apply Hx. rewrite E. now apply in_map.
  - now apply IH.
Qed.

Lemma root_service_serves_root svcs host n p r :
  svcs_ok svcs ->
  service_for (table_of svcs) host root_path = Some (n, p) ->
  svc_get svcs n = Some r ->
  p = root_path /\ serves_root r = true.
Proof.
  intros Hok Hs Hg.
  pose proof (tbl_ok_norm _ Hok) as Hn.
  pose proof (service_for_spec (table_of svcs) host root_path Hn) as Hsp. rewrite Hs in Hsp.
  destruct Hsp as (l & _ & [Hb Hm] & _).
  pose proof (binds_normalised _ _ _ _ Hn Hb) as Hp.
  pose proof (seg_match_root_only p Hp Hm) as ->. split; [reflexivity|].
  destruct Hb as (b & Hbi & Hbn & _ & Hbp).
  unfold table_of in Hbi. apply in_map_iff in Hbi as (s0 & <- & Hs0).
  cbn in Hbn, Hbp.
  pose proof (svc_get_in_nodup svcs s0 (svcs_ok_nodup _ Hok) Hs0) as Hg0.
  rewrite Hbn, Hg in Hg0. inversion Hg0; subst.
  unfold serves_root. now apply mem_str_In.
Qed.

(** * Inheritance of the TLS flags *)

(** The flags syncTLSOptionsFromRootDomain assigns to a service that does not
    list the root path: those of the root-path service found for its first
    host, else TLS off / redirect on (defaultServiceOptions). *)
Definition inherited_flags (svcs : list service) (s : service) : bool * bool :=
  let host := match o_hosts (s_opts s) with h :: _ => h | [] => [] end in
  match service_for (table_of svcs) host root_path with
  | Some (n, _) => match svc_get svcs n with
                   | Some r => (o_tls (s_opts r), o_tls_redirect (s_opts r))
                   | None => (false, true)
                   end
  | None => (false, true)
  end.

Definition inherit_ok (svcs : list service) : Prop :=
  forall s, In s svcs -> serves_root s = false ->
  (o_tls (s_opts s), o_tls_redirect (s_opts s)) = inherited_flags svcs s.

Lemma sync_fun_flags svcs s : serves_root s = false ->
  (o_tls (s_opts (sync_fun svcs s)), o_tls_redirect (s_opts (sync_fun svcs s))) = inherited_flags svcs s.
Proof.
  intros Hr. unfold sync_fun, inherited_flags. rewrite Hr.
  match goal with |- context [let '(a, b) := ?X in _] => destruct X as [tls redir] end.
  reflexivity.
Qed.

Lemma sync_fun_root svcs s : serves_root s = true -> sync_fun svcs s = s.
Proof. intros Hr. unfold sync_fun. now rewrite Hr. Qed.

Lemma serves_root_sync svcs s : serves_root (sync_fun svcs s) = serves_root s.
Proof.
  unfold serves_root. destruct (sync_fun_keeps svcs s) as (_ & _ & _ & _ & _ & _ & _ & _ & Hp & _).
  cbv zeta in Hp. now rewrite Hp.
Qed.

(** [inherited_flags] looks only at the table and at root-path services, and
    sync leaves both alone. *)
Lemma inherited_flags_sync svcs s :
  svcs_ok svcs -> inherited_flags (sync_tls svcs) (sync_fun svcs s) = inherited_flags svcs s.
Proof.
  intros Hok. unfold inherited_flags. rewrite table_of_sync_tls.
  destruct (sync_fun_keeps svcs s) as (_ & _ & _ & _ & _ & _ & _ & Hh & _). cbv zeta in Hh. rewrite Hh.
  destruct (service_for (table_of svcs) _ root_path) as [[n p]|] eqn:Es; [|reflexivity].
  rewrite svc_get_sync. destruct (svc_get svcs n) as [r|] eqn:Eg; [|reflexivity]. cbn.
  destruct (root_service_serves_root svcs _ n p r Hok Es Eg) as [_ Hr].
  now rewrite (sync_fun_root svcs r Hr).
Qed.

Lemma inherit_ok_sync svcs : svcs_ok svcs -> inherit_ok (sync_tls svcs).
Proof.
  intros Hok s' Hi Hr. rewrite sync_tls_map in Hi. apply in_map_iff in Hi as (s & <- & Hs).
  rewrite serves_root_sync in Hr. rewrite inherited_flags_sync by exact Hok.
  now apply sync_fun_flags.
Qed.

Lemma svcs_ok_of_sync svcs : svcs_ok (sync_tls svcs) -> svcs_ok svcs.
Proof. unfold svcs_ok. now rewrite table_of_sync_tls. Qed.

(** Replacing a service by one with the same name and options (pause, resume,
    stop, rollout set/stop) keeps the inheritance. *)
Lemma inherit_ok_replace svcs k s s' :
  svcs_ok svcs -> inherit_ok svcs ->
  svc_get svcs k = Some s -> s_name s' = s_name s -> s_opts s' = s_opts s ->
  inherit_ok (map (fun x => if str_eqb (s_name x) k then s' else x) svcs).
Proof.
  intros Hok Hin Hg Hn Ho.
  set (g := fun x => if str_eqb (s_name x) k then s' else x).
  pose proof (svc_get_name _ _ _ Hg) as Hk.
  assert (Hgo : forall x, In x svcs -> s_opts (g x) = s_opts x /\ s_name (g x) = s_name x).
  { intros x Hx. unfold g. destruct (str_eqb (s_name x) k) eqn:E; [|auto].
    apply str_eqb_eq in E.
    pose proof (svc_get_in_nodup svcs x (svcs_ok_nodup _ Hok) Hx) as Hgx.
    rewrite E, Hg in Hgx. inversion Hgx; subst. rewrite Ho, Hn. auto. }
  assert (Ht : table_of (map g svcs) = table_of svcs).
  { unfold table_of. rewrite map_map. apply map_ext_in. intros x Hx.
    destruct (Hgo x Hx) as [E1 E2]. unfold bi_of. now rewrite E1, E2. }
  assert (Hget : forall n, match svc_get (map g svcs) n, svc_get svcs n with
                           | Some a, Some b => s_opts a = s_opts b
                           | None, None => True
                           | _, _ => False end).
  { intros n. clear Hin Ht Hg. induction svcs as [|x r IH]; [exact I|].
    cbn [map svc_get]. destruct (Hgo x (or_introl eq_refl)) as [E1 E2]. rewrite E2.
    destruct (str_eqb (s_name x) n); [exact E1|].
    apply IH.
    - unfold svcs_ok in *. destruct Hok as (H1 & H2 & H3). split; [|split].
      + intros h p n1 n2 B1 B2. apply (H1 h p n1 n2).
        * destruct B1 as (b & Hb & ?). exists b. split; [now right|assumption].
        * destruct B2 as (b & Hb & ?). exists b. split; [now right|assumption].
      + cbn in H2. now inversion H2.
      + now inversion H3.
    - intros y Hy. apply Hgo. now right. }
  intros x' Hi Hr. apply in_map_iff in Hi as (x & <- & Hx).
  destruct (Hgo x Hx) as [E1 E2].
  assert (Hr' : serves_root x = false) by (unfold serves_root in *; now rewrite <- E1).
  rewrite E1, (Hin x Hx Hr'). unfold inherited_flags. rewrite Ht, E1.
  destruct (service_for (table_of svcs) _ root_path) as [[n p]|]; [|reflexivity].
  specialize (Hget n). destruct (svc_get (map g svcs) n), (svc_get svcs n); try contradiction; [|reflexivity].
  now rewrite Hget.
Qed.

(** restart ends with a sync (or with no service at all) *)
Lemma fold_sync_shape : forall (l : list service) acc,
  let r := fold_left (fun acc s => sync_tls (svc_set acc s)) l acc in
  r = acc \/ exists x, r = sync_tls x.
Proof.
  intros l. induction l as [|s l IH] using rev_ind; intros acc; cbv zeta; [now left|].
  rewrite fold_left_app. cbn. right. eauto.
Qed.

Lemma inherit_ok_nil : inherit_ok [].
Proof. intros s []. Qed.

Definition tls_inv (st : state) : Prop := st_inv st /\ inherit_ok (st_services st).

Lemma exec_tls_inv v st c : tls_inv st -> tls_inv (snd (exec v st c)).
Proof.
  intros [Hi Hh]. pose proof (exec_inv v st c Hi) as Hi'. split; [exact Hi'|].
  destruct Hi' as [Hok' _]. destruct Hi as [Hok _].
  assert (Hinst : forall x, st_services (snd (exec v st c)) = sync_tls x -> inherit_ok (st_services (snd (exec v st c)))).
  { intros x E. rewrite E in *. apply inherit_ok_sync. now apply svcs_ok_of_sync. }
  assert (Hrepl : forall k s s', svc_get (st_services st) k = Some s -> s_name s' = s_name s -> s_opts s' = s_opts s ->
            st_services (snd (exec v st c)) = map (fun x => if str_eqb (s_name x) (s_name s') then s' else x) (st_services st) ->
            inherit_ok (st_services (snd (exec v st c)))).
  { intros k s s' Hg Hn Ho E. rewrite E. rewrite Hn, (svc_get_name _ _ _ Hg).
    now apply (inherit_ok_replace _ k s s'). }
  destruct c as [name o t tg|name tg|name pct al|name|name fa|name msg|name|name|]; cbn [exec] in *.
  - destruct (init_check v (normalize o)); [exact Hh|].
    match goal with |- context[deploy_into v st ?S false tg] => set (sv := S) in * end.
    destruct (deploy_into_services v st sv false tg) as [E|(s' & E & _)]; cbv zeta in E.
    + now rewrite E.
    + apply (Hinst _ E).
  - destruct (svc_get (st_services st) name) as [sv|]; [|exact Hh].
    destruct (deploy_into_services v st sv true tg) as [E|(s' & E & _)]; cbv zeta in E.
    + now rewrite E.
    + apply (Hinst _ E).
  - unfold on_service in *. destruct (svc_get (st_services st) name) as [sv|] eqn:Es; [|exact Hh].
    destruct (s_rollout sv); [|exact Hh].
    eapply (Hrepl name sv); [exact Es| | |reflexivity]; reflexivity.
  - unfold on_service in *. destruct (svc_get (st_services st) name) as [sv|] eqn:Es; [|exact Hh].
    eapply (Hrepl name sv); [exact Es| | |reflexivity]; reflexivity.
  - unfold on_service in *. destruct (svc_get (st_services st) name) as [sv|] eqn:Es; [|exact Hh].
    eapply (Hrepl name sv); [exact Es| | |reflexivity]; reflexivity.
  - unfold on_service in *. destruct (svc_get (st_services st) name) as [sv|] eqn:Es; [|exact Hh].
    unfold set_pause_state in *.
    match goal with |- context[if ?c then None else _] => destruct c end; [exact Hh|].
    eapply (Hrepl name sv); [exact Es| | |reflexivity]; reflexivity.
  - unfold on_service in *. destruct (svc_get (st_services st) name) as [sv|] eqn:Es; [|exact Hh].
    unfold set_pause_state in *.
    match goal with |- context[if ?c then None else _] => destruct c end; [exact Hh|].
    eapply (Hrepl name sv); [exact Es| | |reflexivity]; reflexivity.
  - destruct (svc_get (st_services st) name) as [sv|]; [|exact Hh].
    apply (Hinst (svc_remove (st_services st) name)). reflexivity.
  - unfold restart in *. destruct (st_disk st) as [saved|]; [|apply inherit_ok_nil].
    destruct (restore_all v saved) as [svcs|]; [|apply inherit_ok_nil].
    cbn [snd st_services] in *.
    destruct (fold_sync_shape svcs []) as [E|[x E]]; cbv zeta in E.
    + rewrite E. apply inherit_ok_nil.
    + rewrite E in *. apply inherit_ok_sync. now apply svcs_ok_of_sync.
Qed.

Lemma tls_inv_init : tls_inv init_state.
Proof. split; [apply st_inv_init|apply inherit_ok_nil]. Qed.

Lemma exec_all_tls_inv v : forall cs st, tls_inv st -> tls_inv (exec_all v st cs).
Proof. induction cs as [|c cs IH]; intros st H; [exact H|]. cbn. apply IH. now apply exec_tls_inv. Qed.

Lemma reachable_inherit v cs : inherit_ok (st_services (exec_all v init_state cs)).
Proof. apply (exec_all_tls_inv v cs init_state tls_inv_init). Qed.

(** * Certificates *)

(** Root-path services have a certificate manager exactly when TLS is on. *)
Definition cert_ok (svcs : list service) : Prop :=
  forall s, In s svcs -> serves_root s = true -> s_has_cert s = o_tls (s_opts s).

Lemma wants_cert_root v o : mem_str root_path (o_prefixes o) = true -> wants_cert v o = o_tls o.
Proof. intros H. unfold wants_cert. rewrite H, orb_true_r. apply andb_true_r. Qed.

Lemma cert_ok_sync svcs : cert_ok svcs -> cert_ok (sync_tls svcs).
Proof.
  intros H s' Hi Hr. rewrite sync_tls_map in Hi. apply in_map_iff in Hi as (s & <- & Hs).
  rewrite serves_root_sync in Hr. rewrite (sync_fun_root svcs s Hr). now apply H.
Qed.

Lemma in_svc_remove svcs n s : In s (svc_remove svcs n) -> In s svcs.
Proof.
  induction svcs as [|x r IH]; [contradiction|]. cbn.
  destruct (str_eqb (s_name x) n); [intros H; right; now apply IH|].
  intros [->|H]; [now left|right; now apply IH].
Qed.

Lemma cert_ok_set svcs s :
  cert_ok svcs -> (serves_root s = true -> s_has_cert s = o_tls (s_opts s)) -> cert_ok (svc_set svcs s).
Proof.
  intros H Hs x Hi Hr. unfold svc_set in Hi. apply in_app_or in Hi as [Hi|[<-|[]]].
  - apply H; [now apply in_svc_remove in Hi|exact Hr].
  - now apply Hs.
Qed.

Lemma cert_ok_replace svcs k s' :
  cert_ok svcs -> (serves_root s' = true -> s_has_cert s' = o_tls (s_opts s')) ->
  cert_ok (map (fun x => if str_eqb (s_name x) k then s' else x) svcs).
Proof.
  intros H Hs x Hi Hr. apply in_map_iff in Hi as (y & <- & Hy).
  destruct (str_eqb (s_name y) k); [now apply Hs|now apply H].
Qed.

Lemma restore_all_cert v : forall saved svcs, restore_all v saved = Some svcs ->
  forall s, In s svcs -> serves_root s = true -> s_has_cert s = o_tls (s_opts s).
Proof.
  induction saved as [|x r IH]; intros svcs H s Hi Hr; cbn in H.
  - inversion H; subst. contradiction.
  - destruct (restore_svc v x) as [x'|] eqn:Ex; [|discriminate].
    destruct (restore_all v r) as [r'|]; [|discriminate]. inversion H; subst.
    destruct Hi as [<-|Hi]; [|now apply (IH r' eq_refl)].
    unfold restore_svc in Ex. destruct (init_check v (s_opts x)); [discriminate|].
    inversion Ex; subst. cbn in *. now apply wants_cert_root.
Qed.

Lemma fold_set_cert : forall (l : list service) acc,
  cert_ok acc -> (forall s, In s l -> serves_root s = true -> s_has_cert s = o_tls (s_opts s)) ->
  cert_ok (fold_left (fun acc s => sync_tls (svc_set acc s)) l acc).
Proof.
  induction l as [|s l IH]; intros acc Ha Hl; [exact Ha|]. cbn. apply IH.
  - apply cert_ok_sync, cert_ok_set; [exact Ha|]. apply Hl. now left.
  - intros x Hx. apply Hl. now right.
Qed.

Lemma exec_cert_ok v st c : cert_ok (st_services st) -> cert_ok (st_services (snd (exec v st c))).
Proof.
  intros H.
  assert (Hdep : forall s slot tg, (serves_root s = true -> s_has_cert s = o_tls (s_opts s)) ->
            cert_ok (st_services (snd (deploy_into v st s slot tg)))).
  { intros s slot tg Hs. destruct (deploy_into_services v st s slot tg) as [E|(s' & E & _ & _ & Ho & Hc & _)]; cbv zeta in E; rewrite E.
    - exact H.
    - unfold install. apply cert_ok_sync, cert_ok_set; [exact H|].
      unfold serves_root. rewrite Ho, Hc. exact Hs. }
  destruct c as [name o t tg|name tg|name pct al|name|name fa|name msg|name|name|]; cbn [exec].
  - destruct (init_check v (normalize o)); [exact H|]. apply Hdep.
    destruct (svc_get (st_services st) name); unfold serves_root; cbn [s_opts s_has_cert];
      intros Hr; rewrite (wants_cert_root v (normalize o) Hr); reflexivity.
  - destruct (svc_get (st_services st) name) as [sv|] eqn:Es; [|exact H]. apply Hdep.
    apply H. now apply svc_get_some in Es.
  - unfold on_service. destruct (svc_get (st_services st) name) as [sv|] eqn:Es; [|exact H].
    destruct (s_rollout sv); [|exact H]. cbn. apply cert_ok_replace; [exact H|].
    apply (H sv). now apply svc_get_some in Es.
  - unfold on_service. destruct (svc_get (st_services st) name) as [sv|] eqn:Es; [|exact H].
    cbn. apply cert_ok_replace; [exact H|]. apply (H sv). now apply svc_get_some in Es.
  - unfold on_service. destruct (svc_get (st_services st) name) as [sv|] eqn:Es; [|exact H].
    cbn. apply cert_ok_replace; [exact H|]. apply (H sv). now apply svc_get_some in Es.
  - unfold on_service. destruct (svc_get (st_services st) name) as [sv|] eqn:Es; [|exact H].
    unfold set_pause_state. match goal with |- context[if ?c then None else _] => destruct c end; [exact H|].
    cbn. apply cert_ok_replace; [exact H|]. apply (H sv). now apply svc_get_some in Es.
  - unfold on_service. destruct (svc_get (st_services st) name) as [sv|] eqn:Es; [|exact H].
    unfold set_pause_state. match goal with |- context[if ?c then None else _] => destruct c end; [exact H|].
    cbn. apply cert_ok_replace; [exact H|]. apply (H sv). now apply svc_get_some in Es.
  - destruct (svc_get (st_services st) name) as [sv|]; [|exact H]. cbn. apply cert_ok_sync.
    intros x Hi. apply H. now apply in_svc_remove in Hi.
  - cbn. unfold restart. destruct (st_disk st) as [saved|]; [|intros x []].
    destruct (restore_all v saved) as [svcs|] eqn:Er; [|intros x []]. cbn.
    apply fold_set_cert; [intros x []|]. exact (restore_all_cert v saved svcs Er).
Qed.

Lemma reachable_cert_ok v : forall cs st, cert_ok (st_services st) -> cert_ok (st_services (exec_all v st cs)).
Proof. induction cs as [|c cs IH]; intros st H; [exact H|]. cbn. apply IH. now apply exec_cert_ok. Qed.

(** idna on ASCII: equal conversions mean equal names up to letter case. *)
Lemma idna_some s a : idna_lookup_ascii s = Some a -> a = map to_lower s.
Proof. unfold idna_lookup_ascii. destruct (_ && _); [intros H; now inversion H|discriminate]. Qed.

Lemma in_whitelist a hosts : In a (whitelist hosts) -> exists h, In h hosts /\ idna_lookup_ascii h = Some a.
Proof.
  unfold whitelist. rewrite in_flat_map. intros (h & Hh & Hi).
  destruct (idna_lookup_ascii h) as [b|] eqn:E; [|contradiction].
  destruct Hi as [<-|[]]. eauto.
Qed.

(** What [cert_for] answers in a reachable state. *)
Lemma cert_for_bound v cs sni :
  let st := exec_all v init_state cs in
  cert_for st sni <> CRefuse ->
  exists n p s,
    service_for (table_of (st_services st)) sni root_path = Some (n, p) /\
    svc_get (st_services st) n = Some s /\
    serves_root s = true /\ o_tls (s_opts s) = true /\
    (cert_for st sni = CStatic -> o_cert (s_opts s) = CertGood) /\
    (forall d, cert_for st sni = CAuto d ->
       o_cert (s_opts s) = CertNone /\
       d = trim_suffix_dot (map to_lower sni) /\
       exists h, In h (o_hosts (s_opts s)) /\ map to_lower h = map to_lower sni).
Proof.
  cbv zeta. set (st := exec_all v init_state cs). intros H.
  pose proof (reachable_inv v cs) as [Hok _]. fold st in Hok.
  assert (Hc : cert_ok (st_services st)) by (apply reachable_cert_ok; intros s []).
  unfold cert_for in *. destruct sni as [|b0 sni0]; [contradiction|]. set (sni := b0 :: sni0) in *.
  destruct (service_for (table_of (st_services st)) sni root_path) as [[n p]|] eqn:Es; [|contradiction].
  destruct (svc_get (st_services st) n) as [s|] eqn:Eg; [|contradiction].
  destruct (root_service_serves_root _ _ _ _ _ Hok Es Eg) as [_ Hr].
  exists n, p, s. split; [reflexivity|]. split; [exact Eg|]. split; [exact Hr|].
  destruct (s_has_cert s) eqn:Ec; cbn [negb] in *; [|contradiction].
  assert (Ht : o_tls (s_opts s) = true).
  { rewrite <- (Hc s); [exact Ec| |exact Hr]. now apply svc_get_some in Eg. }
  split; [exact Ht|].
  destruct (o_cert (s_opts s)); [| |contradiction].
  - split.
    { intros E. destruct (acme_domain (o_hosts (s_opts s)) sni); discriminate. }
    intros d Hd.
    unfold acme_domain in Hd.
    destruct (negb (contains_byte (trim_byte dot sni) dot)); [discriminate|].
    destruct (idna_lookup_ascii sni) as [name|] eqn:En; [|discriminate].
    destruct (mem_str name (whitelist (o_hosts (s_opts s)))) eqn:Em; [|discriminate].
    inversion Hd; subst d. split; [reflexivity|].
    apply idna_some in En. subst name. split; [reflexivity|].
    apply mem_str_In in Em. apply in_whitelist in Em as (h & Hh & Eh).
    apply idna_some in Eh. eauto.
  - split; [reflexivity|]. intros d Hd. discriminate.
Qed.
