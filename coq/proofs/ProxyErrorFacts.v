(** ProxyErrorFacts.v — proofs about model/ProxyError.v and model/ErrorPage.v
    (property C15). *)
From KP Require Import model.Base model.Trace model.Buffer model.ProxyError model.ErrorPage.
From Coq Require Import ZifyN ZifyNat ZifyBool.
Local Open Scope N_scope.

(** ** Classification *)

Lemma classify_info_cases e :
  (is_max_bytes e = true -> classify_info e = 413) /\
  (is_max_bytes e = false -> is_timeout e = true -> classify_info e = 504) /\
  (is_max_bytes e = false -> is_timeout e = false -> is_canceled e = true -> classify_info e = 499) /\
  (is_max_bytes e = false -> is_timeout e = false -> is_canceled e = false -> is_draining e = true ->
     classify_info e = 504) /\
  (is_max_bytes e = false -> is_timeout e = false -> is_canceled e = false -> is_draining e = false ->
     classify_info e = 502).
Proof.
  unfold classify_info. destruct e as [mb tmo cc dr]; cbn.
  repeat split; intros; subst; reflexivity.
Qed.

Lemma classify_info_range e :
  classify_info e = 413 \/ classify_info e = 504 \/ classify_info e = 499 \/ classify_info e = 502.
Proof. unfold classify_info. destruct e as [[] [] [] []]; cbn; auto. Qed.

Lemma classify_named :
  classify FBodyTooLarge = 413 /\ classify FHeaderTimeout = 504 /\ classify FDialTimeout = 504 /\
  classify FClientCancel = 499 /\ classify FDrainCancel = 504 /\
  classify FRefused = 502 /\ classify FReset = 502 /\ classify FEOF = 502 /\
  classify FMalformed = 502 /\ classify FPartialHeader = 502 /\ classify FOther = 502.
Proof. repeat split; reflexivity. Qed.

(** Target-side failures (neither the request-size nor the client-cancel mark). *)
Lemma classify_target_side f :
  is_max_bytes (info_of f) = false -> is_canceled (info_of f) = false ->
  classify f = 502 \/ classify f = 504.
Proof.
  unfold classify, classify_info. intros H1 H2. rewrite H1, H2.
  destruct (is_timeout (info_of f)), (is_draining (info_of f)); auto.
Qed.

Lemma classify_504_iff f :
  is_max_bytes (info_of f) = false -> is_canceled (info_of f) = false ->
  (classify f = 504 <-> is_timeout (info_of f) = true \/ is_draining (info_of f) = true).
Proof.
  unfold classify, classify_info. intros H1 H2. rewrite H1, H2.
  destruct (is_timeout (info_of f)), (is_draining (info_of f)); split; intros H; auto;
    try discriminate; destruct H; discriminate.
Qed.

(** ** Error pages *)

Lemma cview_aux_status_fixed evs : forall ct s0 html body,
  cv_status (cview_aux evs ct (Some s0) html body) = Some s0 /\
  cv_html (cview_aux evs ct (Some s0) html body) = html.
Proof.
  induction evs as [|e evs IH]; intros ct s0 html body; cbn; [auto|].
  destruct e as [h|s|b]; apply IH.
Qed.

(** The error-page part alone, on a writer nothing has been written to. *)
Lemma error_pages_view custom builtin s :
  cview_of (fst (error_pages custom builtin (Some s))) =
    mkCv (Some s) true (page_for custom builtin s) /\
  snd (error_pages custom builtin (Some s)) = None.
Proof.
  unfold error_pages, page_for, builtin_page, mw_after, respond, cview_of.
  destruct custom as [c|].
  - destruct (lookup s c) as [p|] eqn:Ec; cbn.
    + split; reflexivity.
    + destruct (lookup s builtin) as [q|] eqn:Eb; cbn; split; reflexivity.
  - destruct (lookup s builtin) as [q|] eqn:Eb; cbn; split; reflexivity.
Qed.

(** The calls themselves, as a function of which templates exist. *)
Lemma error_pages_events custom builtin s :
  fst (error_pages custom builtin (Some s)) =
    match custom with
    | Some c =>
      match lookup s c with
      | Some p => [WSetCT true; WWriteHeader s; WWrite p]
      | None => [WSetCT true; WWriteHeader s; WSetCT true; WWriteHeader s; WWrite (builtin_page builtin s)]
      end
    | None => [WSetCT true; WWriteHeader s; WWrite (builtin_page builtin s)]
    end.
Proof.
  unfold error_pages, builtin_page, mw_after, respond.
  destruct custom as [c|].
  - destruct (lookup s c) as [p|]; cbn; [reflexivity|].
    destruct (lookup s builtin) as [q|]; reflexivity.
  - destruct (lookup s builtin) as [q|]; reflexivity.
Qed.

Lemma error_pages_none custom builtin :
  error_pages custom builtin None = ([], None).
Proof. unfold error_pages, mw_after. destruct custom; reflexivity. Qed.

(** If a header has already gone out the page cannot change the status. *)
Lemma header_already_written s0 rest :
  cv_status (cview_of (WWriteHeader s0 :: rest)) = Some s0.
Proof. unfold cview_of; cbn. apply cview_aux_status_fixed. Qed.

(** ** The chain for a failure before the response header block *)

Lemma buffered_499 maxm maxb :
  flat_map cev_wev (fst (resp_mw maxm maxb [HWriteHeader 499 false])) = [WWriteHeader 499].
Proof. reflexivity. Qed.

Lemma buffered_nothing maxm maxb :
  flat_map cev_wev (fst (resp_mw maxm maxb [])) = [].
Proof. reflexivity. Qed.

Lemma serve_fail_before c f :
  serve c (TBFailBefore f) =
    if classify f =? 499 then mkOut [WWriteHeader 499] false
    else mkOut (fst (error_pages (c_custom c) (c_builtin c) (Some (classify f)))) false.
Proof.
  unfold serve, reverse_proxy, handle_proxy_error, target_events.
  destruct (classify f =? 499) eqn:E; cbn [panics proxy_hops proxy_slot].
  - rewrite error_pages_none. destruct (c_buffer_resp c); cbn [negb]; [rewrite buffered_499|]; reflexivity.
  - destruct (c_buffer_resp c); [rewrite buffered_nothing|]; reflexivity.
Qed.

Lemma before_headers c f :
  let o := serve c (TBFailBefore f) in
  let v := cview_of (o_events o) in
  complete o = true /\
  cv_status v = Some (classify f) /\
  (classify f <> 499 ->
     cv_html v = true /\ cv_body v = page_for (c_custom c) (c_builtin c) (classify f)).
Proof.
  cbv zeta. rewrite serve_fail_before.
  destruct (classify f =? 499) eqn:E.
  - apply N.eqb_eq in E. rewrite E. cbn. split; [reflexivity|]. split; [reflexivity|]. intros Hne; congruence.
  - cbn [o_events complete o_aborted negb].
    destruct (error_pages_view (c_custom c) (c_builtin c) (classify f)) as [Hv _].
    rewrite Hv. cbn. auto.
Qed.

(** ** A failure after the header block *)

Lemma serve_fail_after c s sent f :
  serve c (TBFailAfter s sent f) =
    mkOut (if c_buffer_resp c then [] else [WWriteHeader s; WWrite sent]) true.
Proof.
  unfold serve, reverse_proxy, target_events. cbn [panics proxy_hops].
  destruct (c_buffer_resp c); reflexivity.
Qed.

(** ** A good response *)
Lemma serve_respond_unbuffered c s body :
  c_buffer_resp c = false ->
  serve c (TBRespond s body) = mkOut [WWriteHeader s; WWrite body] false.
Proof.
  intros H. unfold serve, reverse_proxy, target_events. rewrite H. cbn [panics proxy_hops proxy_slot].
  rewrite error_pages_none. reflexivity.
Qed.

(** ** In-flight bookkeeping *)

Lemma nmem_In k l : nmem k l = true <-> In k l.
Proof.
  unfold nmem. rewrite existsb_exists. split.
  - intros (x & Hx & He). apply Nat.eqb_eq in He. subst. exact Hx.
  - intros H. exists k. split; [exact H|apply Nat.eqb_refl].
Qed.

Lemma nmem_false_In k l : nmem k l = false <-> ~ In k l.
Proof.
  rewrite <- nmem_In. destruct (nmem k l); split; intros H; try reflexivity; try discriminate; auto.
  exfalso; apply H; reflexivity.
Qed.

Lemma In_nremove k x l : In x (nremove k l) <-> In x l /\ x <> k.
Proof.
  induction l as [|y l IH]; cbn; [tauto|].
  destruct (Nat.eqb k y) eqn:E.
  - apply Nat.eqb_eq in E. subst y. rewrite IH. split; [tauto|]. intros [[H|H] Hn]; [congruence|tauto].
  - apply Nat.eqb_neq in E. cbn. rewrite IH. split.
    + intros [H|[H Hn]]; [subst; split; [auto|congruence]|tauto].
    + intros [[H|H] Hn]; [auto|tauto].
Qed.

Lemma not_In_nremove k l : ~ In k (nremove k l).
Proof. rewrite In_nremove. tauto. Qed.

Lemma send_request_spec infl r e x :
  In x (send_request infl r e) <-> In x infl /\ x <> r.
Proof. destruct e; cbn; unfold end_inflight; apply In_nremove. Qed.

Lemma nget_nset_same {A} (l : list (nat * A)) k v : nget (nset l k v) k = Some v.
Proof.
  induction l as [|[k' v'] l IH]; cbn.
  - rewrite Nat.eqb_refl. reflexivity.
  - destruct (Nat.eqb k k') eqn:E; cbn; [rewrite Nat.eqb_refl; reflexivity|].
    rewrite E. exact IH.
Qed.

Lemma nget_nset_other {A} (l : list (nat * A)) k k' v : k <> k' -> nget (nset l k v) k' = nget l k'.
Proof.
  intros Hn. induction l as [|[k2 v2] l IH]; cbn.
  - destruct (Nat.eqb k' k) eqn:E; [apply Nat.eqb_eq in E; congruence|reflexivity].
  - destruct (Nat.eqb k k2) eqn:E; cbn.
    + apply Nat.eqb_eq in E. subst k2.
      destruct (Nat.eqb k' k) eqn:E2; [apply Nat.eqb_eq in E2; congruence|reflexivity].
    + destruct (Nat.eqb k' k2); [reflexivity|exact IH].
Qed.

Lemma if_get_nset_same s t l : if_get (nset s t l) t = l.
Proof. unfold if_get. rewrite nget_nset_same. reflexivity. Qed.

Lemma if_get_nset_other s t t' l : t <> t' -> if_get (nset s t l) t' = if_get s t'.
Proof. intros H. unfold if_get. rewrite nget_nset_other by exact H. reflexivity. Qed.

Lemma run_app {St} (step : St -> event -> option St) a : forall b s,
  run step s (a ++ b) = match run step s a with Some s' => run step s' b | None => None end.
Proof.
  induction a as [|e a IH]; intros b s; cbn; [reflexivity|].
  destruct (step s e); [apply IH|reflexivity].
Qed.

(** One step that is not a claim of [r] at [t] keeps [r] out of [t]'s set. *)
Lemma if_step_keeps_out s e s' t r :
  if_step s e = Some s' -> e_k e <> KClaim t r ->
  ~ In r (if_get s t) -> ~ In r (if_get s' t).
Proof.
  unfold if_step. intros Hs Hk Hout.
  destruct (e_k e) eqn:Ek; try (inversion Hs; subst; exact Hout).
  - (* KClaim *)
    destruct (nmem r0 (if_get s t0)) eqn:Em; [discriminate|]. inversion Hs; subst s'.
    destruct (Nat.eq_dec t0 t) as [->|Hne].
    + rewrite if_get_nset_same. intros [H|H]; [subst r0; congruence|exact (Hout H)].
    + rewrite if_get_nset_other by exact Hne. exact Hout.
  - (* KEnd *)
    destruct (nmem r0 (if_get s t0)) eqn:Em; [|discriminate]. inversion Hs; subst s'.
    destruct (Nat.eq_dec t0 t) as [->|Hne].
    + rewrite if_get_nset_same. rewrite In_nremove. tauto.
    + rewrite if_get_nset_other by exact Hne. exact Hout.
  - (* KDrainSnapshot *)
    destruct (same_set (map fst inflight) (if_get s t0)); inversion Hs; subst; exact Hout.
Qed.

Lemma run_keeps_out mid : forall s s' t r,
  run if_step s mid = Some s' ->
  Forall (fun e => e_k e <> KClaim t r) mid ->
  ~ In r (if_get s t) -> ~ In r (if_get s' t).
Proof.
  induction mid as [|e mid IH]; intros s s' t r Hr Hf Hout; cbn in Hr.
  - inversion Hr; subst; exact Hout.
  - destruct (if_step s e) as [s1|] eqn:Es; [|discriminate].
    inversion Hf as [|? ? Hk Hf']; subst.
    eapply IH; [exact Hr|exact Hf'|]. eapply if_step_keeps_out; eauto.
Qed.

Lemma subset_In a b x : subset a b = true -> In x a -> In x b.
Proof.
  unfold subset. rewrite forallb_forall. intros H Hx. apply nmem_In. apply H. exact Hx.
Qed.

(** After an accepted [end] of [r] at [t], every later accepted snapshot of
    [t] is free of [r] unless [r] was claimed at [t] again in between. *)
Lemma if_no_residue pre e1 mid e2 post t r snap s :
  e_k e1 = KEnd t r -> e_k e2 = KDrainSnapshot t snap ->
  Forall (fun e => e_k e <> KClaim t r) mid ->
  run if_step if_init (pre ++ e1 :: mid ++ e2 :: post) = Some s ->
  ~ In r (map fst snap).
Proof.
  intros H1 H2 Hf Hr.
  rewrite run_app in Hr. destruct (run if_step if_init pre) as [s0|]; [|discriminate].
  cbn in Hr. destruct (if_step s0 e1) as [s1|] eqn:E1; [|discriminate].
  rewrite run_app in Hr. destruct (run if_step s1 mid) as [s2|] eqn:Em; [|discriminate].
  cbn in Hr. destruct (if_step s2 e2) as [s3|] eqn:E2; [|discriminate].
  assert (Hout1 : ~ In r (if_get s1 t)).
  { unfold if_step in E1. rewrite H1 in E1.
    destruct (nmem r (if_get s0 t)); [|discriminate]. inversion E1; subst s1.
    rewrite if_get_nset_same. apply not_In_nremove. }
  pose proof (run_keeps_out mid s1 s2 t r Em Hf Hout1) as Hout2.
  unfold if_step in E2. rewrite H2 in E2.
  destruct (same_set (map fst snap) (if_get s2 t)) eqn:Ess; [|discriminate].
  unfold same_set in Ess. apply andb_true_iff in Ess. destruct Ess as [Hsub _].
  intros Hin. apply Hout2. eapply subset_In; eauto.
Qed.

(** The events of one request are accepted in any state where [r] is not
    already in flight at [t], and leave [t]'s set as it was. *)
Lemma request_events_accepted s t r e :
  ~ In r (if_get s t) ->
  exists s', run if_step s (request_events t r e) = Some s' /\
             (forall x, In x (if_get s' t) <-> In x (if_get s t)) /\
             (forall t', t' <> t -> if_get s' t' = if_get s t').
Proof.
  intros Hout. apply nmem_false_In in Hout.
  assert (Hrun : run if_step s [ev (KClaim t r); ev (KEnd t r)] =
                 Some (nset (nset s t (r :: if_get s t)) t (nremove r (r :: if_get s t)))).
  { assert (E1 : if_step s (ev (KClaim t r)) = Some (nset s t (r :: if_get s t))).
    { unfold if_step. cbn [e_k ev]. rewrite Hout. reflexivity. }
    assert (E2 : if_step (nset s t (r :: if_get s t)) (ev (KEnd t r)) =
                 Some (nset (nset s t (r :: if_get s t)) t (nremove r (r :: if_get s t)))).
    { unfold if_step. cbn [e_k ev]. rewrite if_get_nset_same.
      assert (Hm : nmem r (r :: if_get s t) = true) by (apply nmem_In; left; reflexivity).
      rewrite Hm. reflexivity. }
    cbn [run]. rewrite E1, E2. reflexivity. }
  exists (nset (nset s t (r :: if_get s t)) t (nremove r (r :: if_get s t))).
  split; [destruct e; exact Hrun|]. split.
  - intros x. rewrite if_get_nset_same. rewrite In_nremove. cbn.
    apply nmem_false_In in Hout. split.
    + intros [[H|H] Hn]; [congruence|exact H].
    + intros H. split; [right; exact H|]. intros ->. exact (Hout H).
  - intros t' Hne. rewrite !if_get_nset_other by congruence. reflexivity.
Qed.
