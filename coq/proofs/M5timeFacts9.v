(** M5timeFacts9.v — promptness: own steps of a command, and the end of a Drain call's wait, happen at the time of an earlier event of their chain. *)
From Coq Require Import ZifyN ZifyNat ZifyBool.
From KP Require Import model.Base model.Trace model.M5time.
From KP Require Import proofs.M5timeFacts proofs.M5timeFacts2 proofs.M5timeFacts3 proofs.M5timeFacts4.
Local Open Scope N_scope.

(** ** Promptness: the time of every own step of a command is the time of an
    earlier event of its chain. *)

Definition chain_ev (c : nat) (e : event) : Prop :=
  e_by e = ACmd c \/
  (exists k n, e_k e = KIssue c k n) \/ (exists a b d, e_k e = KParams c a b d) \/
  (exists t ok, e_k e = KWaiter t ok) \/            (* a waiter of its balancer: signalled, or timed out *)
  (exists t o n, e_k e = KStateSet t o n).          (* the end of a Drain call it started *)

Definition wit (pre : trace) (c : nat) (t : N) : Prop := exists e, In e pre /\ e_t e = t /\ chain_ev c e.

Definition hrec (pre : trace) (p : nat * cmd) : Prop :=
  wit pre (fst p) (c_last (snd p)) /\ forall a, c_alt (snd p) = Some a -> wit pre (fst p) a.

Definition hinv (pre : trace) (s : state) : Prop := Forall (hrec pre) (cmds s).

Lemma wit_more pre e c t : wit pre c t -> wit (pre ++ [e]) c t.
Proof. intros (e' & Hin & Ht & Hc). exists e'. split; [apply in_or_app; left; exact Hin|auto]. Qed.

Lemma wit_now pre e c : chain_ev c e -> wit (pre ++ [e]) c (e_t e).
Proof. intros H. exists e. split; [apply in_or_app; right; left; reflexivity|auto]. Qed.

Lemma hrec_more pre e p : hrec pre p -> hrec (pre ++ [e]) p.
Proof. intros [H1 H2]. split; [apply wit_more; exact H1|intros a Ha; apply wit_more; exact (H2 _ Ha)]. Qed.

Lemma Forall_nset {A} (P : nat * A -> Prop) l k v : Forall P l -> P (k, v) -> Forall P (nset l k v).
Proof.
  induction l as [|[k0 v0] l IH]; cbn [nset]; intros H Hv.
  - constructor; [exact Hv|constructor].
  - inversion H as [|? ? H0 Hl]; subst. destruct (Nat.eqb k k0).
    + constructor; [exact Hv|exact Hl].
    + constructor; [exact H0|exact (IH Hl Hv)].
Qed.

Lemma hinv_more pre e l : Forall (hrec pre) l -> Forall (hrec (pre ++ [e])) l.
Proof. intros H. eapply Forall_impl; [|exact H]. intros p; apply hrec_more. Qed.

Lemma hinv_clear_pending pre cs who t : Forall (hrec pre) cs -> Forall (hrec pre) (clear_pending cs who t).
Proof.
  intros H. unfold clear_pending. induction H as [|[c cm] l Hp Hl IH]; cbn [map]; constructor; [|exact IH].
  cbn [fst snd]. destruct (nmem c who); [|exact Hp]. exact Hp.
Qed.

Lemma nget_hrec pre l c cm : Forall (hrec pre) l -> nget l c = Some cm -> hrec pre (c, cm).
Proof. intros H Hg. apply nget_In in Hg. rewrite Forall_forall in H. exact (H _ Hg). Qed.

Lemma hinv_notify pre e st d cs :
  (exists t o n, e_k e = KStateSet t o n) ->
  Forall (hrec (pre ++ [e])) (cmds st) -> notify st d (e_t e) = Some cs -> Forall (hrec (pre ++ [e])) cs.
Proof.
  intros Hk. unfold notify. generalize (cmds st) as l. generalize (d_owners d) as os.
  induction os as [|o os IH]; intros l Hl; cbn [fold_left].
  - intros H; injection H as <-; exact Hl.
  - destruct (notify_one st d (e_t e) (Some l) o) as [l1|] eqn:E.
    + apply IH. unfold notify_one in E. destruct (nget l (fst o)) as [cm|] eqn:Hg; [|injection E as <-; exact Hl].
      destruct (negb (in_drain_phase cm)); [injection E as <-; exact Hl|].
      destruct (parks st || _); [|discriminate]. injection E as <-.
      pose proof (nget_hrec _ _ _ _ Hl Hg) as [W1 W2]. cbn [fst snd] in W1, W2.
      apply Forall_nset; [exact Hl|].
      assert (Wn : wit (pre ++ [e]) (fst o) (e_t e)).
      { apply wit_now. right; right; right; right. exact Hk. }
      destruct (snd o); split; cbn [fst snd set_last set_alt c_last c_alt].
      * exact Wn.
      * exact W2.
      * exact W1.
      * intros a Ha; injection Ha as <-; exact Wn.
    + intros H. exfalso. clear -H. induction os as [|o' os IH]; cbn [fold_left] in H; [discriminate|]. apply IH; exact H.
Qed.

Lemma actor_eqb_eq a b : actor_eqb a b = true -> a = b.
Proof.
  destruct a, b; cbn; try discriminate; intros H; try (apply Nat.eqb_eq in H; subst); reflexivity.
Qed.

Lemma hinv_own p pre st c cm e s' :
  e_by e = ACmd c -> Forall (hrec pre) (cmds st) -> own_step p st c cm e = Some s' -> Forall (hrec (pre ++ [e])) (cmds s').
Proof.
  intros Hby Hl H. destruct (own_step_cmds _ _ _ _ _ _ H) as [E|(cm' & E & _ & L1 & L2)]; rewrite E.
  - apply hinv_more; exact Hl.
  - apply Forall_nset; [apply hinv_more; exact Hl|]. split; cbn [fst snd].
    + rewrite L1. apply wit_now. left; exact Hby.
    + rewrite L2. intros a Ha; discriminate.
Qed.

Lemma step_hinv p pre st0 e s' : hinv pre st0 -> step_gen p st0 e = Some s' -> hinv (pre ++ [e]) s'.
Proof.
  unfold hinv. intros Hl0. unfold step_gen.
  destruct (e_t e <? clock st0); [discriminate|].
  change (cmds st0) with (cmds (upd_clock st0 (e_t e))) in Hl0.
  set (st := upd_clock st0 (e_t e)) in *. clearbody st. cbv zeta.
  pose proof (hinv_more _ e _ Hl0) as Hl.
  destruct (e_k e) eqn:Hk.
  all: try (destruct (e_by e) eqn:Hby;
            [inv_some; exact Hl
            |destruct (nget (cmds st) c) eqn:Hc; [intros H; eapply hinv_own; eassumption|inv_some; exact Hl]
            |inv_some; exact Hl|inv_some; exact Hl]; fail).
  all: try (step_destruct; try (inv_some; fail); inv_some; cbn [cmds set_parks upd_tnames upd_tgts upd_drains set_drain];
            exact Hl; fail).
  - (* KIssue *)
    destruct (nget (cmds st) c) eqn:Hc; [discriminate|]. inv_some. cbn [cmds put upd_cmds].
    apply Forall_nset; [exact Hl|]. split; cbn [fst snd c_last c_alt]; [|intros a Ha; discriminate].
    apply wit_now. right; left. eauto.
  - (* KParams *)
    destruct (nget (cmds st) c) as [cm|] eqn:Hc; [|discriminate].
    destruct (c_phase cm) eqn:Hph; try discriminate.
    destruct (own_time_ok st cm (e_t e)); [|discriminate]. inv_some. cbn [cmds put upd_cmds].
    apply Forall_nset; [exact Hl|]. split; cbn [fst snd c_last c_alt]; [|intros a Ha; discriminate].
    apply wit_now. right; right; left. eauto.
  - (* KReturn *)
    destruct (nget (cmds st) c) as [cm|] eqn:Hc; [|discriminate].
    destruct (actor_eqb (e_by e) (ACmd c)) eqn:Ha; [|discriminate]. apply actor_eqb_eq in Ha.
    intros H. eapply hinv_own; eassumption.
  - (* KLbNew *)
    destruct (e_by e) eqn:Hby; [|destruct (nget (cmds st) c) eqn:Hc; [intros H; eapply hinv_own; eassumption|inv_some]| |];
      intros H; rewrite (proj1 (new_lb_frame _ _ _ _ _ H)); exact Hl.
  - (* KLbDispose *)
    destruct (e_by e) eqn:Hby; [|destruct (nget (cmds st) c) eqn:Hc; [intros H; eapply hinv_own; eassumption|inv_some]| |];
      inv_some; rewrite (proj1 (mark_disposed_frame _ _)); exact Hl.
  - (* KEnd *)
    inv_some. destruct (nget (tgts st) t); exact Hl.
  - (* KWaiter *)
    destruct (nget (tgts st) t) as [x|]; [|discriminate].
    destruct (t_wait x); [discriminate|].
    destruct (nget (lbs st) (t_lb x)) as [l|]; [|discriminate].
    destruct (l_owner l) as [c|]; [|discriminate].
    destruct (nget (cmds st) c) as [cm|] eqn:Hc; [|discriminate].
    destruct (c_phase cm) eqn:Hph; try discriminate.
    destruct (_ && _); [|discriminate]. inv_some. cbn [cmds put upd_cmds upd_tgts].
    pose proof (nget_hrec _ _ _ _ Hl Hc) as [W1 W2]. cbn [fst snd] in W1, W2.
    apply Forall_nset; [exact Hl|]. split; cbn [fst snd set_last c_last c_alt]; [|exact W2].
    apply wit_now. right; right; right; left. eauto.
  - (* KProbeStop *)
    destruct (e_by e) eqn:Hby; [|destruct (nget (cmds st) c) eqn:Hc; [intros H; eapply hinv_own; eassumption|inv_some]| |];
      inv_some; rewrite (proj1 (set_probing_frame _ _ _)); exact Hl.
  - (* restore *)
    destruct (nget (drains st) (goid (e_by e))) as [d|]; [|inv_some; exact Hl].
    destruct (d_cancel d); [|discriminate]. destruct (tstate_eqb _ _) eqn:Hnd; [discriminate|]. destruct (_ && _); [|discriminate].
    destruct (notify st d (e_t e)) as [cs|] eqn:Hn; [|discriminate]. inv_some. cbn [cmds upd_drains upd_cmds].
    eapply hinv_notify; [eauto|exact Hl|exact Hn].
  - (* KDrainBegin *)
    step_destruct; try (inv_some; fail); inv_some; cbn [cmds upd_cmds set_drain upd_drains]; apply hinv_clear_pending; exact Hl.
  - (* cancel-rest *)
    step_destruct; try (inv_some; fail); inv_some; destruct (nget (tgts st) t); exact Hl.
Qed.

Lemma run_hinv p tr pre s s' : hinv pre s -> run (step_gen p) s tr = Some s' -> hinv (pre ++ tr) s'.
Proof.
  revert pre s; induction tr as [|e tr IH]; intros pre s H; cbn [run].
  - intros E; injection E as <-. rewrite app_nil_r. exact H.
  - destruct (step_gen p s e) as [s1|] eqn:E; [|discriminate]. intros R.
    change (e :: tr) with ([e] ++ tr). rewrite app_assoc. apply IH with s1; [|exact R].
    exact (step_hinv _ _ _ _ _ H E).
Qed.

Lemma return_time p s e s' c r :
  step_gen p s e = Some s' -> e_k e = KReturn c r -> parks s = false ->
  exists cm, nget (cmds s) c = Some cm /\ (e_t e = c_last cm \/ c_alt cm = Some (e_t e)).
Proof.
  intros Hs Hk Hp. unfold step_gen in Hs.
  destruct (e_t e <? clock s); [discriminate|]. cbv zeta in Hs. rewrite Hk in Hs. cbn [cmds upd_clock] in Hs.
  destruct (nget (cmds s) c) as [cm|] eqn:Hc; [|discriminate]. exists cm. split; [reflexivity|].
  destruct (actor_eqb (e_by e) (ACmd c)); [|discriminate]. unfold own_step in Hs.
  destruct (own_time_ok (upd_clock s (e_t e)) cm (e_t e)) eqn:Hot; cbn [negb] in Hs; [|discriminate].
  exact (own_time_cases _ _ _ Hot Hp).
Qed.

Lemma prompt_trace pre eR post s c r :
  run step init (pre ++ eR :: post) = Some s -> e_k eR = KReturn c r -> no_parks pre = true ->
  exists e', In e' pre /\ e_t e' = e_t eR /\ chain_ev c e'.
Proof.
  intros Hrun HR Hnp. change (pre ++ eR :: post) with (pre ++ [eR] ++ post) in Hrun.
  rewrite run_app in Hrun. destruct (run step init pre) as [s0|] eqn:R0; [|discriminate].
  rewrite run_app in Hrun. destruct (run step s0 [eR]) as [s1|] eqn:R1; [|discriminate].
  cbn [run] in R1. destruct (step s0 eR) as [s1'|] eqn:E1; [|discriminate].
  assert (Hp : parks s0 = false) by (rewrite (run_parks _ _ _ _ R0), Hnp; reflexivity).
  assert (Hh : hinv [] init) by constructor.
  pose proof (run_hinv _ _ _ _ _ Hh R0) as Hh0. cbn [app] in Hh0.
  destruct (return_time _ _ _ _ _ _ E1 HR Hp) as (cm & Hc & Ht).
  pose proof (nget_hrec _ _ _ _ Hh0 Hc) as [W1 W2]. cbn [fst snd] in W1, W2.
  destruct Ht as [Ht|Ht].
  - rewrite <- Ht in W1. exact W1.
  - exact (W2 _ Ht).
Qed.

(** ** ... and of every Drain call *)

Definition drain_ev (g t : nat) (e : event) : Prop :=
  (goid (e_by e) = g /\ ((exists o d, e_k e = KDrainBegin t o d) \/ (exists rs, e_k e = KDrainSnapshot t rs) \/
                         e_k e = KDrainDeadline t)) \/
  (exists r, e_k e = KEnd t r) \/            (* a request of the snapshot ended *)
  e_k e = KDrainCancelRest t.                 (* ... or was cancelled by another Drain call *)

Definition dhrec (pre : trace) (p : nat * drain) : Prop :=
  (exists e0 o, In e0 pre /\ goid (e_by e0) = fst p /\ e_k e0 = KDrainBegin (d_t (snd p)) o (d_timeout (snd p)) /\
                e_t e0 = d_mark (snd p)) /\
  (exists e', In e' pre /\ e_t e' = d_last (snd p) /\ drain_ev (fst p) (d_t (snd p)) e').

Definition dhinv (pre : trace) (s : state) : Prop := Forall (dhrec pre) (drains s).

Lemma dhrec_more pre e p : dhrec pre p -> dhrec (pre ++ [e]) p.
Proof.
  intros [(e0 & o & I0 & A) (e' & I1 & B)]. split.
  - exists e0, o. split; [apply in_or_app; left; exact I0|exact A].
  - exists e'. split; [apply in_or_app; left; exact I1|exact B].
Qed.

Lemma dhinv_more pre e l : Forall (dhrec pre) l -> Forall (dhrec (pre ++ [e])) l.
Proof. intros H. eapply Forall_impl; [|exact H]. intros p; apply dhrec_more. Qed.

Lemma Forall_ndel {A} (P : nat * A -> Prop) l k : Forall P l -> Forall P (ndel l k).
Proof.
  induction l as [|[k0 v0] l IH]; cbn [ndel]; intros H; [constructor|].
  inversion H as [|? ? H0 Hl]; subst. destruct (Nat.eqb k k0); [exact Hl|constructor; [exact H0|exact (IH Hl)]].
Qed.

Lemma nget_dhrec pre l g d : Forall (dhrec pre) l -> nget l g = Some d -> dhrec pre (g, d).
Proof. intros H Hg. apply nget_In in Hg. rewrite Forall_forall in H. exact (H _ Hg). Qed.

(** a request ended / was cancelled at the current event *)
Lemma dhinv_done_req pre e ds t rs :
  ((exists r, e_k e = KEnd t r) \/ e_k e = KDrainCancelRest t) ->
  Forall (dhrec (pre ++ [e])) ds -> Forall (dhrec (pre ++ [e])) (drains_done_req ds t rs (e_t e)).
Proof.
  intros Hk H. unfold drains_done_req. induction H as [|[g d] l Hp Hl IH]; cbn [map]; constructor; [|exact IH].
  cbn [fst snd]. unfold drain_done_req. destruct (Nat.eqb (d_t d) t && existsb _ rs) eqn:E; [|exact Hp].
  apply andb_prop in E. destruct E as [E _]. apply Nat.eqb_eq in E.
  destruct Hp as [H0 _]. split; cbn [fst snd d_t d_timeout d_mark d_last] in *; [exact H0|].
  exists e. split; [apply in_or_app; right; left; reflexivity|]. split; [reflexivity|].
  right. rewrite E. exact Hk.
Qed.

Lemma step_dhinv p pre st0 e s' : dhinv pre st0 -> step_gen p st0 e = Some s' -> dhinv (pre ++ [e]) s'.
Proof.
  unfold dhinv. intros Hl0. unfold step_gen.
  destruct (e_t e <? clock st0); [discriminate|].
  change (drains st0) with (drains (upd_clock st0 (e_t e))) in Hl0.
  set (st := upd_clock st0 (e_t e)) in *. clearbody st. cbv zeta.
  pose proof (dhinv_more _ e _ Hl0) as Hl.
  assert (Hown : forall c cm, own_step p st c cm e = Some s' -> Forall (dhrec (pre ++ [e])) (drains s')).
  { intros c cm H. destruct (own_step_frame _ _ _ _ _ _ H) as (_ & _ & F & _). rewrite F. exact Hl. }
  assert (Hin : In e (pre ++ [e])) by (apply in_or_app; right; left; reflexivity).
  destruct (e_k e) eqn:Hk.
  all: try (destruct (e_by e) eqn:Hby;
            [inv_some; exact Hl
            |destruct (nget (cmds st) c) eqn:Hc; [intros H; eapply Hown; eassumption|inv_some; exact Hl]
            |inv_some; exact Hl|inv_some; exact Hl]; fail).
  all: try (step_destruct; try (inv_some; fail); inv_some; cbn [drains set_parks upd_tnames upd_tgts upd_cmds put];
            exact Hl; fail).
  - (* KReturn *)
    destruct (nget (cmds st) c) as [cm|]; [|discriminate].
    destruct (actor_eqb (e_by e) (ACmd c)); [|discriminate]. intros H. eapply Hown; eassumption.
  - (* KLbNew *)
    destruct (e_by e) eqn:Hby; [|destruct (nget (cmds st) c) eqn:Hc; [intros H; eapply Hown; eassumption|inv_some]| |];
      intros H; rewrite (proj1 (proj2 (new_lb_frame _ _ _ _ _ H))); exact Hl.
  - (* KLbDispose *)
    destruct (e_by e) eqn:Hby; [|destruct (nget (cmds st) c) eqn:Hc; [intros H; eapply Hown; eassumption|inv_some]| |];
      inv_some; rewrite (proj1 (proj2 (mark_disposed_frame _ _))); exact Hl.
  - (* KEnd *)
    inv_some. cbn [drains upd_drains].
    apply dhinv_done_req; [left; eauto|]. destruct (nget (tgts st) t); exact Hl.
  - (* KProbeStop *)
    destruct (e_by e) eqn:Hby; [|destruct (nget (cmds st) c) eqn:Hc; [intros H; eapply Hown; eassumption|inv_some]| |];
      inv_some; rewrite (proj1 (proj2 (set_probing_frame _ _ _))); exact Hl.
  - (* restore *)
    destruct (nget (drains st) (goid (e_by e))) as [d|]; [|inv_some; exact Hl].
    destruct (d_cancel d); [|discriminate]. destruct (tstate_eqb _ _) eqn:Hnd; [discriminate|]. destruct (_ && _); [|discriminate].
    destruct (notify st d (e_t e)) as [cs|]; [|discriminate]. inv_some. cbn [drains upd_drains].
    apply Forall_ndel. exact Hl.
  - (* KDrainBegin *)
    assert (Hnew : forall ow, dhrec (pre ++ [e]) (goid (e_by e), mkD t (e_t e) timeout None [] (e_t e) false None ow)).
    { intros ow. split; cbn [fst snd d_t d_timeout d_mark d_last].
      - exists e, orig. repeat split; auto.
      - exists e. split; [exact Hin|]. split; [reflexivity|]. left. split; [reflexivity|]. left. eauto. }
    step_destruct; try (inv_some; fail); inv_some; cbn [drains upd_cmds set_drain upd_drains]; try exact Hl;
      (apply Forall_nset; [exact Hl|apply Hnew]).
  - (* KDrainSnapshot *)
    destruct (nget (drains st) (goid (e_by e))) as [d|] eqn:Hd; [|discriminate].
    destruct (d_snap d); [discriminate|]. destruct (_ && _) eqn:Hc; [|discriminate]. inv_some.
    apply andb_prop in Hc. destruct Hc as [Hc _]. apply Nat.eqb_eq in Hc.
    pose proof (nget_dhrec _ _ _ _ Hl Hd) as [H0 _]. cbn [fst snd] in H0. rewrite Hc in H0.
    cbn [drains set_drain upd_drains]. apply Forall_nset; [exact Hl|].
    split; cbn [fst snd d_t d_timeout d_mark d_last]; [exact H0|].
    exists e. split; [exact Hin|]. split; [reflexivity|]. left. split; [reflexivity|]. right; left. eauto.
  - (* KDrainDeadline *)
    destruct (nget (drains st) (goid (e_by e))) as [d|] eqn:Hd; [|discriminate].
    destruct (d_snap d); [|discriminate]. destruct (d_cancel d); [discriminate|].
    destruct (_ && _) eqn:Hc; [|discriminate]. inv_some.
    apply andb_prop in Hc. destruct Hc as [Hc _]. apply andb_prop in Hc. destruct Hc as [Hc _]. apply Nat.eqb_eq in Hc.
    pose proof (nget_dhrec _ _ _ _ Hl Hd) as [H0 _]. cbn [fst snd] in H0. rewrite Hc in H0.
    cbn [drains set_drain upd_drains]. apply Forall_nset; [exact Hl|].
    split; cbn [fst snd d_t d_timeout d_mark d_last]; [exact H0|].
    exists e. split; [exact Hin|]. split; [reflexivity|]. left. split; [reflexivity|]. right; right. exact Hk.
  - (* KDrainCancelRest *)
    destruct (nget (drains st) (goid (e_by e))) as [d|] eqn:Hd; [|discriminate].
    destruct (d_snap d); [|discriminate]. destruct (d_cancel d); [discriminate|].
    destruct (_ && _) eqn:Hc; [|discriminate]. inv_some.
    apply andb_prop in Hc. destruct Hc as [Hc _]. apply andb_prop in Hc. destruct Hc as [Hc _]. apply Nat.eqb_eq in Hc.
    pose proof (nget_dhrec _ _ _ _ Hl Hd) as [H0 _]. cbn [fst snd] in H0. rewrite Hc in H0.
    unfold set_drain. cbn [drains upd_drains]. apply Forall_nset.
    + apply dhinv_done_req; [right; exact Hk|]. destruct (nget (tgts st) t); exact Hl.
    + split; cbn [fst snd d_t d_timeout d_mark d_last]; [exact H0|].
      exists e. split; [exact Hin|]. split; [reflexivity|]. right; right. exact Hk.
Qed.

Lemma run_dhinv p tr pre s s' : dhinv pre s -> run (step_gen p) s tr = Some s' -> dhinv (pre ++ tr) s'.
Proof.
  revert pre s; induction tr as [|e tr IH]; intros pre s H; cbn [run].
  - intros E; injection E as <-. rewrite app_nil_r. exact H.
  - destruct (step_gen p s e) as [s1|] eqn:E; [|discriminate]. intros R.
    change (e :: tr) with ([e] ++ tr). rewrite app_assoc. apply IH with s1; [|exact R].
    exact (step_dhinv _ _ _ _ _ H E).
Qed.

(** the wait of a Drain call ends at the time of: its begin / snapshot (nothing
    to wait for), the end of a request of its target, another Drain call's
    cancellation on its target, or its own deadline event *)
Lemma prompt_drain_trace pre eC post s t :
  run step init (pre ++ eC :: post) = Some s -> e_k eC = KDrainCancelRest t -> no_parks pre = true ->
  exists e', In e' pre /\ e_t e' = e_t eC /\ drain_ev (goid (e_by eC)) t e'.
Proof.
  intros Hrun HC Hnp. change (pre ++ eC :: post) with (pre ++ [eC] ++ post) in Hrun.
  rewrite run_app in Hrun. destruct (run step init pre) as [s0|] eqn:R0; [|discriminate].
  rewrite run_app in Hrun. destruct (run step s0 [eC]) as [s1|] eqn:R1; [|discriminate].
  cbn [run] in R1. destruct (step s0 eC) as [s1'|] eqn:E1; [|discriminate].
  assert (Hp : parks s0 = false) by (rewrite (run_parks _ _ _ _ R0), Hnp; reflexivity).
  assert (Hh : dhinv [] init) by constructor.
  pose proof (run_dhinv _ _ _ _ _ Hh R0) as Hh0. cbn [app] in Hh0.
  unfold step, step_gen in E1. destruct (e_t eC <? clock s0); [discriminate|]. cbv zeta in E1. rewrite HC in E1.
  cbn [drains upd_clock parks] in E1.
  destruct (nget (drains s0) (goid (e_by eC))) as [d|] eqn:Hd; [|discriminate].
  destruct (d_snap d); [|discriminate]. destruct (d_cancel d); [discriminate|].
  destruct (_ && _) eqn:Hc; [|discriminate].
  rewrite Hp in Hc. cbn [orb] in Hc.
  apply andb_prop in Hc. destruct Hc as [Hc Ht]. apply andb_prop in Hc. destruct Hc as [Hc _]. apply Nat.eqb_eq in Hc.
  apply andb_prop in Ht. destruct Ht as [Ht _]. apply N.eqb_eq in Ht.
  pose proof (nget_dhrec _ _ _ _ Hh0 Hd) as [_ (e' & I & T & D)]. cbn [fst snd] in *.
  exists e'. rewrite Hc in D. repeat split; [exact I|congruence|exact D].
Qed.

(** the deadline of a Drain call fires exactly drain_timeout after its begin *)
Lemma deadline_exact_trace pre eD post s t :
  run step init (pre ++ eD :: post) = Some s -> e_k eD = KDrainDeadline t -> no_parks pre = true ->
  exists e0 o timeout, In e0 pre /\ goid (e_by e0) = goid (e_by eD) /\ e_k e0 = KDrainBegin t o timeout /\
                       e_t eD = e_t e0 + timeout.
Proof.
  intros Hrun HD Hnp. change (pre ++ eD :: post) with (pre ++ [eD] ++ post) in Hrun.
  rewrite run_app in Hrun. destruct (run step init pre) as [s0|] eqn:R0; [|discriminate].
  rewrite run_app in Hrun. destruct (run step s0 [eD]) as [s1|] eqn:R1; [|discriminate].
  cbn [run] in R1. destruct (step s0 eD) as [s1'|] eqn:E1; [|discriminate].
  assert (Hp : parks s0 = false) by (rewrite (run_parks _ _ _ _ R0), Hnp; reflexivity).
  assert (Hh : dhinv [] init) by constructor.
  pose proof (run_dhinv _ _ _ _ _ Hh R0) as Hh0. cbn [app] in Hh0.
  unfold step, step_gen in E1. destruct (e_t eD <? clock s0); [discriminate|]. cbv zeta in E1. rewrite HD in E1.
  cbn [drains upd_clock parks] in E1.
  destruct (nget (drains s0) (goid (e_by eD))) as [d|] eqn:Hd; [|discriminate].
  destruct (d_snap d); [|discriminate]. destruct (d_cancel d); [discriminate|].
  destruct (_ && _) eqn:Hc; [|discriminate].
  rewrite Hp in Hc.
  apply andb_prop in Hc. destruct Hc as [Hc Ht]. apply andb_prop in Hc. destruct Hc as [Hc _]. apply Nat.eqb_eq in Hc.
  apply N.eqb_eq in Ht.
  pose proof (nget_dhrec _ _ _ _ Hh0 Hd) as [(e0 & o & I & G & K & M) _]. cbn [fst snd] in *.
  exists e0, o, (d_timeout d). rewrite Hc in K. repeat split; [exact I|exact G|exact K|lia].
Qed.
