(** TickerFacts.v — facts about the probe loop model/Ticker.v (health_check.go):
    the tick arithmetic, the shape of a run, exact cadence, the general bound
    between consecutive probes, re-synchronisation with the tick grid, result times,
    and Close.  The statements of C09's first clause are in props/C09probe.v. *)
From KP Require Import model.Base model.Ticker.
From Coq Require Import ZifyN ZifyNat ZifyBool.
Local Open Scope N_scope.

(** * Tick arithmetic *)

Lemma tu_decomp t0 I t : 0 < I -> t0 <= t ->
  t = t0 + ticks_upto t0 I t * I + phase t0 I t /\ phase t0 I t < I.
Proof.
  intros HI Ht. unfold ticks_upto, phase.
  pose proof (N.div_mod (t - t0) I) as Hd.
  pose proof (N.mod_lt (t - t0) I) as Hm.
  split; [|apply Hm; lia].
  assert (HIne : I <> 0) by lia. specialize (Hd HIne).
  rewrite (N.mul_comm (_ / _) I). lia.
Qed.

Lemma tu_unique t0 I t q r : 0 < I -> t = t0 + q * I + r -> r < I ->
  ticks_upto t0 I t = q /\ phase t0 I t = r.
Proof.
  intros HI Ht Hr. unfold ticks_upto, phase.
  assert (Hs : t - t0 = I * q + r) by (rewrite (N.mul_comm I q); lia).
  split; symmetry.
  - apply N.div_unique with r; assumption.
  - apply N.mod_unique with q; assumption.
Qed.

Lemma phase_lt t0 I t : 0 < I -> phase t0 I t < I.
Proof. intros HI. unfold phase. apply N.mod_lt. lia. Qed.

Lemma phase_tick t0 I k : 0 < I -> phase t0 I (tick_at t0 I k) = 0.
Proof.
  intros HI. unfold tick_at.
  destruct (tu_unique t0 I (t0 + k * I) k 0 HI) as [_ H]; [lia|lia|exact H].
Qed.

Lemma phase_t0 t0 I : 0 < I -> phase t0 I t0 = 0.
Proof.
  intros HI. destruct (tu_unique t0 I t0 0 0 HI) as [_ H]; [lia|lia|exact H].
Qed.

Lemma on_grid_iff t0 I t : 0 < I -> t0 <= t ->
  (on_grid t0 I t = true <-> exists k, t = tick_at t0 I k).
Proof.
  intros HI Ht. unfold on_grid. rewrite N.eqb_eq. split.
  - intros Hp. destruct (tu_decomp t0 I t HI Ht) as [Hd _]. rewrite Hp in Hd.
    exists (ticks_upto t0 I t). unfold tick_at. lia.
  - intros [k Hk]. subst t. now apply phase_tick.
Qed.

Lemma ticks_upto_mono t0 I a b : 0 < I -> t0 <= a -> a <= b -> ticks_upto t0 I a <= ticks_upto t0 I b.
Proof.
  intros HI Ha Hab. unfold ticks_upto. apply N.div_le_mono; lia.
Qed.

(** [ticks_upto] really counts the ticks up to and including [t]: tick k has fired
    at [t] iff k <= ticks_upto t. *)
Lemma tick_fired_iff t0 I t k : 0 < I -> t0 <= t ->
  (tick_at t0 I k <= t <-> k <= ticks_upto t0 I t).
Proof.
  intros HI Ht. destruct (tu_decomp t0 I t HI Ht) as [Hd Hr].
  set (q := ticks_upto t0 I t) in *. set (r := phase t0 I t) in *. unfold tick_at. split.
  - intros Hk. destruct (N.le_gt_cases k q) as [Hle|Hgt]; [exact Hle|exfalso].
    assert (H1 : (q + 1) * I <= k * I) by (apply N.mul_le_mono_r; lia). lia.
  - intros Hk. assert (H1 : k * I <= q * I) by (apply N.mul_le_mono_r; lia). lia.
Qed.

(** A check that ran over (s, e] missed a tick iff some tick fired in that window. *)
Lemma missed_tick_iff t0 I s e : 0 < I -> t0 <= s -> s <= e ->
  (missed_tick t0 I s e = true <-> exists k, s < tick_at t0 I k /\ tick_at t0 I k <= e).
Proof.
  intros HI Hs Hse. unfold missed_tick. rewrite N.ltb_lt. split.
  - intros Hlt. exists (ticks_upto t0 I e). split.
    + apply N.lt_nge. intros Hc. apply (tick_fired_iff t0 I s _ HI Hs) in Hc. lia.
    + apply (tick_fired_iff t0 I e _ HI); lia.
  - intros [k [Hk1 Hk2]].
    apply (tick_fired_iff t0 I e k HI) in Hk2; [|lia].
    assert (Hn : ~ k <= ticks_upto t0 I s).
    { intros Hc. apply (tick_fired_iff t0 I s k HI Hs) in Hc. lia. }
    lia.
Qed.

(** The closed form of [next_start] by the phase of the start of the check: the
    check either stays short of the next tick — then the next check starts on that
    tick — or not — then it starts at once. *)
Lemma next_start_closed t0 I s d : 0 < I -> t0 <= s ->
  next_start t0 I s (s + d) =
  if phase t0 I s + d <? I then s - phase t0 I s + I else s + d.
Proof.
  intros HI Hs. destruct (tu_decomp t0 I s HI Hs) as [Hd Hr].
  set (q := ticks_upto t0 I s) in *. set (r := phase t0 I s) in *.
  unfold next_start, missed_tick. fold q.
  destruct (r + d <? I) eqn:Hc.
  - apply N.ltb_lt in Hc.
    destruct (tu_unique t0 I (s + d) q (r + d) HI) as [Hq _]; [lia|exact Hc|].
    rewrite Hq. rewrite N.ltb_irrefl. unfold tick_at. lia.
  - apply N.ltb_ge in Hc.
    assert (He : t0 <= s + d) by lia.
    destruct (tu_decomp t0 I (s + d) HI He) as [Hd' Hr'].
    set (q' := ticks_upto t0 I (s + d)) in *. set (r' := phase t0 I (s + d)) in *.
    assert (Hlt : q < q').
    { destruct (N.lt_ge_cases q q') as [H|H]; [exact H|exfalso].
      assert (H1 : q' * I <= q * I) by (apply N.mul_le_mono_r; exact H). lia. }
    apply N.ltb_lt in Hlt. rewrite Hlt. reflexivity.
Qed.

(** When the loop waits, it waits for the FIRST tick strictly later than the end of
    the check. *)
Lemma next_start_first_tick t0 I s e : 0 < I -> t0 <= s -> s <= e ->
  missed_tick t0 I s e = false ->
  exists k, next_start t0 I s e = tick_at t0 I k /\ e < tick_at t0 I k /\
            (forall j, e < tick_at t0 I j -> tick_at t0 I k <= tick_at t0 I j).
Proof.
  intros HI Hs Hse Hm. unfold next_start. rewrite Hm.
  exists (ticks_upto t0 I e + 1). split; [reflexivity|].
  assert (He : t0 <= e) by lia.
  destruct (tu_decomp t0 I e HI He) as [Hd Hr]. split.
  - unfold tick_at. lia.
  - intros j Hj. unfold tick_at. apply N.add_le_mono_l. apply N.mul_le_mono_r.
    destruct (N.le_gt_cases (ticks_upto t0 I e + 1) j) as [H|H]; [exact H|exfalso].
    assert (Hle : j <= ticks_upto t0 I e) by lia.
    apply (tick_fired_iff t0 I e j HI He) in Hle. lia.
Qed.

Lemma next_start_missed t0 I s e : missed_tick t0 I s e = true -> next_start t0 I s e = e.
Proof. intros H. unfold next_start. now rewrite H. Qed.

(** Bounds that follow from the closed form. *)
Lemma next_start_bounds t0 I s d : 0 < I -> t0 <= s ->
  let s' := next_start t0 I s (s + d) in
  s + d <= s' /\ s' <= s + d + I /\ s' <= s + N.max I d /\ s < s' /\
  (s' = s + d \/ on_grid t0 I s' = true) /\
  (s' < s + d + I \/ (on_grid t0 I (s + d) = true /\ s' = s + d + I)).
Proof.
  intros HI Hs s'. subst s'. rewrite (next_start_closed t0 I s d HI Hs).
  destruct (tu_decomp t0 I s HI Hs) as [Hd Hr].
  set (q := ticks_upto t0 I s) in *. set (r := phase t0 I s) in *.
  destruct (r + d <? I) eqn:Hc.
  - apply N.ltb_lt in Hc.
    assert (Hg : on_grid t0 I (s - r + I) = true).
    { unfold on_grid. apply N.eqb_eq.
      destruct (tu_unique t0 I (s - r + I) (q + 1) 0 HI) as [_ H]; [lia|lia|exact H]. }
    split; [lia|]. split; [lia|]. split; [lia|]. split; [lia|]. split.
    + right. exact Hg.
    + destruct (N.eq_dec (r + d) 0) as [Hz|Hnz].
      * right. assert (r = 0) by lia. assert (d = 0) by lia. subst d.
        replace (s + 0) with s by lia. split; [|lia].
        unfold on_grid. fold r. apply N.eqb_eq. assumption.
      * left. lia.
  - apply N.ltb_ge in Hc.
    split; [lia|]. split; [lia|]. split; [lia|]. split; [lia|]. split.
    + left. reflexivity.
    + left. lia.
Qed.

(** * The shape of a run *)

Lemma after_stop_mono (stop : option N) a b : a <= b -> after_stop stop a = true -> after_stop stop b = true.
Proof. unfold after_stop. destruct stop as [x|]; [|discriminate]. rewrite !N.ltb_lt. lia. Qed.

Lemma after_stop_false_mono (stop : option N) a b : a <= b -> after_stop stop b = false -> after_stop stop a = false.
Proof.
  intros Hab Hb. destruct (after_stop stop a) eqn:Ha; [|reflexivity].
  rewrite (after_stop_mono stop a b Hab Ha) in Hb. discriminate.
Qed.

Section Run.
Variables (t0 I TO : N) (stop : option N).
Hypothesis HI : 0 < I.

Notation run := (loop t0 I TO stop).

Lemma run_cons s a rest :
  run s (a :: rest) =
  if after_stop stop s then []
  else if after_stop stop (s + dur TO a) then [(s, None)]
       else (s, Some (s + dur TO a, verdict TO a)) :: run (next_start t0 I s (s + dur TO a)) rest.
Proof. reflexivity. Qed.

(** the output never has more entries than the script *)
Lemma run_length script : forall s, (length (run s script) <= length script)%nat.
Proof.
  clear HI. induction script as [|a rest IH]; intros s; [cbn; lia|].
  rewrite run_cons. destruct (after_stop stop s); [cbn; lia|].
  destruct (after_stop stop (s + dur TO a)); [cbn; lia|]. cbn [length]. specialize (IH (next_start t0 I s (s + dur TO a))). lia.
Qed.

(** Entry k of the output belongs to answer k of the script; it was sent before
    the stop; its result, if any, is the one the answer determines, reported before
    the stop; an abandoned probe is the last entry and was in flight at the stop. *)
Lemma run_nth script : forall s k sk rk,
  nth_error (run s script) k = Some (sk, rk) ->
  exists a, nth_error script k = Some a /\
            after_stop stop sk = false /\
            match rk with
            | Some (e, ok) => e = sk + dur TO a /\ ok = verdict TO a /\ after_stop stop e = false
            | None => after_stop stop (sk + dur TO a) = true /\ nth_error (run s script) (S k) = None
            end.
Proof.
  induction script as [|a rest IH]; intros s k sk rk H.
  - destruct k; discriminate H.
  - rewrite run_cons in H |- *.
    destruct (after_stop stop s) eqn:Hs; [destruct k; discriminate H|].
    destruct (after_stop stop (s + dur TO a)) eqn:He.
    + destruct k as [|k]; [|destruct k; discriminate H].
      injection H as <- <-. exists a. repeat split; assumption.
    + destruct k as [|k].
      * injection H as <- <-. exists a. repeat split; assumption.
      * cbn [nth_error] in H. destruct (IH _ _ _ _ H) as (a' & Ha' & Hsk & Hrk).
        exists a'. split; [exact Ha'|]. split; [exact Hsk|].
        destruct rk as [[e ok]|]; [exact Hrk|]. exact Hrk.
Qed.

Lemma run_head script s s0 r : nth_error (run s script) 0 = Some (s0, r) -> s0 = s.
Proof.
  destruct script as [|a rest]; [discriminate|]. rewrite run_cons.
  destruct (after_stop stop s); [discriminate|].
  destruct (after_stop stop (s + dur TO a)); intros H; injection H as <- _; reflexivity.
Qed.

(** Consecutive entries: the earlier has a result, and the later was sent at
    [next_start]. *)
Lemma run_consec script : forall s k sk rk sk' rk',
  nth_error (run s script) k = Some (sk, rk) ->
  nth_error (run s script) (S k) = Some (sk', rk') ->
  exists a, nth_error script k = Some a /\
            rk = Some (sk + dur TO a, verdict TO a) /\
            sk' = next_start t0 I sk (sk + dur TO a).
Proof.
  induction script as [|a rest IH]; intros s k sk rk sk' rk' H H'.
  - destruct k; discriminate H.
  - rewrite run_cons in H, H'.
    destruct (after_stop stop s) eqn:Hs; [destruct k; discriminate H|].
    destruct (after_stop stop (s + dur TO a)) eqn:He.
    + destruct k; discriminate H'.
    + destruct k as [|k].
      * injection H as <- <-. cbn [nth_error] in H'. apply run_head in H'. subst sk'.
        exists a. repeat split.
      * cbn [nth_error] in H, H'. exact (IH _ _ _ _ _ _ H H').
Qed.

(** every send is at or after the start of the loop *)
Lemma run_ge script : forall s k sk rk, t0 <= s ->
  nth_error (run s script) k = Some (sk, rk) -> s <= sk.
Proof.
  induction script as [|a rest IH]; intros s k sk rk Hs H.
  - destruct k; discriminate H.
  - rewrite run_cons in H.
    destruct (after_stop stop s); [destruct k; discriminate H|].
    destruct (after_stop stop (s + dur TO a)).
    + destruct k as [|k]; [|destruct k; discriminate H]. injection H as <- _. lia.
    + destruct k as [|k]; [injection H as <- _; lia|].
      cbn [nth_error] in H.
      pose proof (next_start_bounds t0 I s (dur TO a) HI Hs) as (Hb & _).
      assert (Hs' : t0 <= next_start t0 I s (s + dur TO a)) by lia.
      specialize (IH _ _ _ _ Hs' H). lia.
Qed.

(** The run goes on until the stop: if the output ends before the script does, the
    probe that would come next is due only after the stop. *)
Lemma run_ends_by_stop script : forall s,
  (length (run s script) < length script)%nat ->
  match rev (run s script) with
  | [] => after_stop stop s = true
  | (sl, None) :: _ => True     (* abandoned: see run_nth *)
  | (sl, Some (e, _)) :: _ => after_stop stop (next_start t0 I sl e) = true
  end.
Proof.
  clear HI. induction script as [|a rest IH]; intros s Hlen; [cbn in Hlen; lia|].
  rewrite run_cons in Hlen |- *.
  destruct (after_stop stop s) eqn:Hs; [reflexivity|].
  destruct (after_stop stop (s + dur TO a)) eqn:He; [exact Logic.I|].
  cbn [length] in Hlen.
  set (n := next_start t0 I s (s + dur TO a)) in *.
  assert (Hl : (length (run n rest) < length rest)%nat) by lia.
  specialize (IH n Hl). cbn [rev].
  destruct (rev (run n rest)) as [|[sl [[e ok]|]] tl] eqn:Hr.
  - cbn. apply (f_equal (@rev _)) in Hr. rewrite rev_involutive in Hr. cbn in Hr.
    exact IH.
  - cbn. exact IH.
  - cbn. exact Logic.I.
Qed.

End Run.

(** * Exact cadence *)

Section Exact.
Variables (t0 I TO : N) (stop : option N).
Hypothesis HI : 0 < I.

Lemma next_start_on_grid j d : d < I ->
  next_start t0 I (tick_at t0 I j) (tick_at t0 I j + d) = tick_at t0 I (j + 1).
Proof.
  intros Hd. assert (Hs : t0 <= tick_at t0 I j) by (unfold tick_at; lia).
  rewrite (next_start_closed t0 I _ d HI Hs). rewrite (phase_tick t0 I j HI).
  replace (0 + d <? I) with true by (symmetry; apply N.ltb_lt; lia).
  unfold tick_at. lia.
Qed.

(** If every check is shorter than the interval, probe k is sent on tick k. *)
Lemma run_exact script : forall j k sk rk,
  (forall a, In a script -> dur TO a < I) ->
  nth_error (loop t0 I TO stop (tick_at t0 I j) script) k = Some (sk, rk) ->
  sk = tick_at t0 I (j + N.of_nat k).
Proof.
  induction script as [|a rest IH]; intros j k sk rk Hall H.
  - destruct k; discriminate H.
  - rewrite run_cons in H.
    destruct (after_stop stop (tick_at t0 I j)); [destruct k; discriminate H|].
    destruct (after_stop stop (tick_at t0 I j + dur TO a)).
    + destruct k as [|k]; [|destruct k; discriminate H]. injection H as <- _.
      f_equal. lia.
    + destruct k as [|k]; [injection H as <- _; f_equal; lia|].
      cbn [nth_error] in H.
      rewrite (next_start_on_grid j (dur TO a)) in H by (apply Hall; left; reflexivity).
      assert (Hall' : forall a', In a' rest -> dur TO a' < I) by (intros a' Ha'; apply Hall; right; exact Ha').
      rewrite (IH (j + 1) k sk rk Hall' H). f_equal. lia.
Qed.

(** ... and it IS sent, as long as the stop has not come. *)
Lemma run_exact_alive script : forall j k,
  (forall a, In a script -> dur TO a < I) ->
  (k < length script)%nat ->
  after_stop stop (tick_at t0 I (j + N.of_nat k)) = false ->
  exists rk, nth_error (loop t0 I TO stop (tick_at t0 I j) script) k = Some (tick_at t0 I (j + N.of_nat k), rk).
Proof.
  induction script as [|a rest IH]; intros j k Hall Hk Hst; [cbn in Hk; lia|].
  rewrite run_cons.
  assert (Hs0 : after_stop stop (tick_at t0 I j) = false).
  { apply (after_stop_false_mono stop _ (tick_at t0 I (j + N.of_nat k))); [|exact Hst].
    unfold tick_at. apply N.add_le_mono_l. apply N.mul_le_mono_r. lia. }
  rewrite Hs0.
  destruct k as [|k].
  - replace (j + N.of_nat 0) with j by lia.
    destruct (after_stop stop (tick_at t0 I j + dur TO a)); eexists; reflexivity.
  - assert (Hd : dur TO a < I) by (apply Hall; left; reflexivity).
    assert (He : after_stop stop (tick_at t0 I j + dur TO a) = false).
    { apply (after_stop_false_mono stop _ (tick_at t0 I (j + N.of_nat (S k)))); [|exact Hst].
      assert (H1 : (j + 1) * I <= (j + N.of_nat (S k)) * I) by (apply N.mul_le_mono_r; lia).
      unfold tick_at. lia. }
    rewrite He. cbn [nth_error]. rewrite (next_start_on_grid j (dur TO a) Hd).
    assert (Hall' : forall a', In a' rest -> dur TO a' < I) by (intros a' Ha'; apply Hall; right; exact Ha').
    cbn [length] in Hk.
    replace (j + N.of_nat (S k)) with (j + 1 + N.of_nat k) in * by lia.
    apply IH; [exact Hall'|lia|exact Hst].
Qed.

End Exact.

Lemma tick_at_0 t0 I : tick_at t0 I 0 = t0.
Proof. unfold tick_at. lia. Qed.

Lemma dur_le_timeout TO a : dur TO a <= TO.
Proof. unfold dur. destruct (fst a); lia. Qed.

Lemma dur_spec TO a :
  dur TO a = match fst a with Some d => N.min d TO | None => TO end.
Proof. reflexivity. Qed.

Lemma verdict_true_iff TO a :
  verdict TO a = true <-> exists d, fst a = Some d /\ d <= TO /\ snd a = true.
Proof.
  unfold verdict. destruct (fst a) as [d|]; split.
  - intros H. apply andb_true_iff in H. destruct H as [H1 H2]. apply N.leb_le in H1. eauto.
  - intros (d' & Hd & Hle & Hs). injection Hd as <-. apply andb_true_iff. split; [apply N.leb_le; exact Hle|exact Hs].
  - discriminate.
  - intros (d' & Hd & _). discriminate.
Qed.

(** * The theorems about [probe_times] *)

Section Probe.
Variables (t0 I TO : N) (script : list answer) (stop : option N).
Hypothesis HI : 0 < I.

Notation out := (probe_times t0 I TO script stop).

(** ** exact cadence *)
Lemma probe_exact k s r :
  (forall a, In a script -> dur TO a < I) ->
  nth_error out k = Some (s, r) -> s = t0 + N.of_nat k * I.
Proof.
  intros Hall H. unfold probe_times in H. rewrite <- (tick_at_0 t0 I) in H at 2.
  apply (run_exact t0 I TO stop HI script 0 k s r Hall) in H. subst s. unfold tick_at. f_equal.
Qed.

Lemma probe_exact_alive k :
  (forall a, In a script -> dur TO a < I) ->
  (k < length script)%nat ->
  after_stop stop (t0 + N.of_nat k * I) = false ->
  exists r, nth_error out k = Some (t0 + N.of_nat k * I, r).
Proof.
  intros Hall Hk Hst. unfold probe_times.
  destruct (run_exact_alive t0 I TO stop HI script 0 k Hall Hk) as [r Hr].
  - unfold tick_at. replace (0 + N.of_nat k) with (N.of_nat k) by lia. exact Hst.
  - exists r. rewrite tick_at_0 in Hr. rewrite Hr. unfold tick_at. do 3 f_equal.
Qed.

Lemma timeout_lt_all_fast : TO < I -> forall a, In a script -> dur TO a < I.
Proof. intros H a _. pose proof (dur_le_timeout TO a). lia. Qed.

(** ** the first probe *)
Lemma probe_first s r : nth_error out 0 = Some (s, r) -> s = t0.
Proof. apply run_head. Qed.

Lemma probe_ge k s r : nth_error out k = Some (s, r) -> t0 <= s.
Proof. apply (run_ge t0 I TO stop HI script t0 k s r). lia. Qed.

(** ** consecutive probes *)
Lemma probe_consec k s r s' r' :
  nth_error out k = Some (s, r) -> nth_error out (S k) = Some (s', r') ->
  exists a, nth_error script k = Some a /\
    let d := dur TO a in
    r = Some (s + d, verdict TO a) /\
    s' = next_start t0 I s (s + d) /\
    s' = (if phase t0 I s + d <? I then s - phase t0 I s + I else s + d) /\
    s + d <= s' /\ s' <= s + d + I /\ s' <= s + N.max I d /\ s' <= s + N.max I TO /\ s < s' /\
    (s' = s + d \/ on_grid t0 I s' = true) /\
    (s' < s + d + I \/ (on_grid t0 I (s + d) = true /\ s' = s + d + I)).
Proof.
  intros H H'. destruct (run_consec t0 I TO stop script t0 k s r s' r' H H') as (a & Ha & Hr & Hs').
  exists a. split; [exact Ha|]. cbn zeta.
  pose proof (probe_ge k s r H) as Hge.
  pose proof (next_start_bounds t0 I s (dur TO a) HI Hge) as (B1 & B2 & B3 & B4 & B5 & B6).
  pose proof (dur_le_timeout TO a) as Hd.
  rewrite <- Hs' in *.
  repeat split; try assumption; try lia.
  rewrite Hs'. apply next_start_closed; assumption.
Qed.

(** the tick-level reading of [next_start] for consecutive probes *)
Lemma probe_consec_ticks k s r s' r' :
  nth_error out k = Some (s, r) -> nth_error out (S k) = Some (s', r') ->
  exists e ok, r = Some (e, ok) /\ s <= e /\
    ((exists j, s < tick_at t0 I j /\ tick_at t0 I j <= e) -> s' = e) /\
    (~ (exists j, s < tick_at t0 I j /\ tick_at t0 I j <= e) ->
       exists j, s' = tick_at t0 I j /\ e < s' /\ (forall i, e < tick_at t0 I i -> s' <= tick_at t0 I i)).
Proof.
  intros H H'. destruct (run_consec t0 I TO stop script t0 k s r s' r' H H') as (a & Ha & Hr & Hs').
  pose proof (probe_ge k s r H) as Hge.
  exists (s + dur TO a), (verdict TO a). split; [exact Hr|]. split; [lia|].
  assert (Hse : s <= s + dur TO a) by lia.
  pose proof (missed_tick_iff t0 I s (s + dur TO a) HI Hge Hse) as Hm. split.
  - intros Hex. apply Hm in Hex. rewrite Hs'. now apply next_start_missed.
  - intros Hn. destruct (missed_tick t0 I s (s + dur TO a)) eqn:Hmt.
    + exfalso. apply Hn. apply Hm. reflexivity.
    + destruct (next_start_first_tick t0 I s (s + dur TO a) HI Hge Hse Hmt) as (j & Hj1 & Hj2 & Hj3).
      exists j. rewrite Hs', Hj1. repeat split; assumption.
Qed.

(** ** result times *)
Lemma probe_result k s e ok :
  nth_error out k = Some (s, Some (e, ok)) ->
  exists a, nth_error script k = Some a /\ e = s + dur TO a /\ ok = verdict TO a.
Proof.
  intros H. destruct (run_nth t0 I TO stop script t0 k s _ H) as (a & Ha & _ & He & Hok & _).
  exists a. repeat split; assumption.
Qed.

(** ** the stop *)
Lemma probe_stop x k s r : stop = Some x ->
  nth_error out k = Some (s, r) ->
  s <= x /\
  match r with
  | Some (e, _) => e <= x
  | None => (exists a, nth_error script k = Some a /\ x < s + dur TO a) /\ nth_error out (S k) = None
  end.
Proof.
  intros Hx H. destruct (run_nth t0 I TO stop script t0 k s r H) as (a & Ha & Hs & Hr).
  subst stop. cbn [after_stop] in Hs, Hr. apply N.ltb_ge in Hs. split; [exact Hs|].
  destruct r as [[e ok]|].
  - destruct Hr as (_ & _ & He). apply N.ltb_ge in He. exact He.
  - destruct Hr as (He & Hn). apply N.ltb_lt in He. split; [|exact Hn]. exists a. split; assumption.
Qed.

Lemma probe_no_stop_no_abandon k s r : stop = None -> nth_error out k = Some (s, r) -> r <> None.
Proof.
  intros Hx H. destruct (run_nth t0 I TO stop script t0 k s r H) as (a & _ & _ & Hr).
  subst stop. destruct r as [[e ok]|]; [discriminate|]. destruct Hr as [Hr _]. discriminate Hr.
Qed.

End Probe.

(** * The run goes on until the stop *)

Section Alive.
Variables (t0 I TO : N) (stop : option N).

Lemma run_next_due script : forall s k sk e ok,
  nth_error (loop t0 I TO stop s script) k = Some (sk, Some (e, ok)) ->
  nth_error (loop t0 I TO stop s script) (S k) = None ->
  (S k < length script)%nat ->
  after_stop stop (next_start t0 I sk e) = true.
Proof.
  induction script as [|a rest IH]; intros s k sk e ok H Hn Hlen.
  - destruct k; discriminate H.
  - rewrite run_cons in H, Hn.
    destruct (after_stop stop s) eqn:Hs; [destruct k; discriminate H|].
    destruct (after_stop stop (s + dur TO a)) eqn:He.
    + destruct k as [|k]; [discriminate H|destruct k; discriminate H].
    + destruct k as [|k].
      * injection H as <- <- _. cbn [nth_error] in Hn.
        destruct rest as [|a' rest']; [cbn in Hlen; lia|].
        rewrite run_cons in Hn.
        destruct (after_stop stop (next_start t0 I s (s + dur TO a))); [reflexivity|].
        destruct (after_stop stop (next_start t0 I s (s + dur TO a) + dur TO a')); discriminate Hn.
      * cbn [nth_error] in H, Hn. cbn [length] in Hlen.
        apply (IH _ _ _ _ _ H Hn). lia.
Qed.

Lemma run_starts script s : script <> [] -> after_stop stop s = false ->
  exists r, nth_error (loop t0 I TO stop s script) 0 = Some (s, r).
Proof.
  intros Hne Hs. destruct script as [|a rest]; [contradiction|].
  rewrite run_cons, Hs. destruct (after_stop stop (s + dur TO a)); eexists; reflexivity.
Qed.

End Alive.

Lemma run_no_stop_length t0 I TO script : forall s, length (loop t0 I TO None s script) = length script.
Proof.
  induction script as [|a rest IH]; intros s; [reflexivity|].
  rewrite run_cons. cbn [after_stop length]. now rewrite IH.
Qed.

(** * Re-synchronisation with the tick grid *)

Section Resync.
Variables (t0 I TO : N) (script : list answer) (stop : option N).
Hypothesis HI : 0 < I.

Notation out := (probe_times t0 I TO script stop).

(** One step: a check shorter than the interval either brings the loop back to the
    grid or brings it strictly closer (the phase shrinks by interval - duration). *)
Lemma probe_resync_step k s r s' r' :
  nth_error out k = Some (s, r) -> nth_error out (S k) = Some (s', r') ->
  exists a, nth_error script k = Some a /\
    let d := dur TO a in
    d < I ->
    (phase t0 I s + d < I -> s' = s - phase t0 I s + I /\ on_grid t0 I s' = true) /\
    (I <= phase t0 I s + d -> s' = s + d /\ phase t0 I s' = phase t0 I s + d - I /\ phase t0 I s' < phase t0 I s).
Proof.
  intros H H'.
  destruct (probe_consec t0 I TO script stop HI k s r s' r' H H') as (a & Ha & Hr & _ & Hc & _ & _ & _ & _ & _ & Hg & _).
  exists a. split; [exact Ha|]. cbn zeta in *. intros Hd.
  pose proof (probe_ge t0 I TO script stop HI k s r H) as Hge.
  destruct (tu_decomp t0 I s HI Hge) as [Hdec Hph].
  set (q := ticks_upto t0 I s) in *. set (p := phase t0 I s) in *. split.
  - intros Hlt. apply N.ltb_lt in Hlt. rewrite Hlt in Hc. split; [exact Hc|].
    destruct Hg as [Hg|Hg]; [|exact Hg].
    unfold on_grid. apply N.eqb_eq.
    destruct (tu_unique t0 I s' (q + 1) 0 HI) as [_ Hp]; [lia|lia|exact Hp].
  - intros Hge'. apply N.ltb_ge in Hge'. rewrite Hge' in Hc. apply N.ltb_ge in Hge'.
    split; [exact Hc|].
    destruct (tu_unique t0 I s' (q + 1) (p + dur TO a - I) HI) as [_ Hp]; [lia|lia|].
    rewrite Hp. split; [reflexivity|lia].
Qed.

(** On the grid with a check shorter than the interval: the next probe is exactly
    one interval later. *)
Lemma probe_stays_on_grid k s r s' r' :
  nth_error out k = Some (s, r) -> nth_error out (S k) = Some (s', r') ->
  on_grid t0 I s = true ->
  (exists a, nth_error script k = Some a /\ dur TO a < I) ->
  s' = s + I.
Proof.
  intros H H' Hg (a & Ha & Hd).
  destruct (probe_resync_step k s r s' r' H H') as (a' & Ha' & Hstep).
  rewrite Ha in Ha'. injection Ha' as <-. cbn zeta in Hstep.
  unfold on_grid in Hg. apply N.eqb_eq in Hg.
  destruct (Hstep Hd) as [H1 _]. rewrite Hg in H1. destruct H1 as [H1 _]; lia.
Qed.

(** With all checks at most D < interval long, the loop is back on the grid within
    n probes as soon as n * (interval - D) covers the phase it is off by. *)
Lemma probe_resync_within D :
  D < I -> (forall a, In a script -> dur TO a <= D) ->
  forall n k s r,
  nth_error out k = Some (s, r) ->
  nth_error out (k + n) <> None ->
  phase t0 I s <= N.of_nat n * (I - D) ->
  exists j sj rj, (j <= n)%nat /\ nth_error out (k + j) = Some (sj, rj) /\ on_grid t0 I sj = true.
Proof.
  intros HD Hall. induction n as [|n IH]; intros k s r H Hn Hph.
  - exists 0%nat, s, r. split; [lia|]. rewrite Nat.add_0_r. split; [exact H|].
    unfold on_grid. apply N.eqb_eq. lia.
  - destruct (N.eq_dec (phase t0 I s) 0) as [Hz|Hnz].
    + exists 0%nat, s, r. split; [lia|]. rewrite Nat.add_0_r. split; [exact H|].
      unfold on_grid. apply N.eqb_eq. exact Hz.
    + assert (Hlen : (k + S n < length out)%nat) by (apply nth_error_Some; exact Hn).
      destruct (nth_error out (S k)) as [[s' r']|] eqn:H'.
      2:{ apply nth_error_None in H'. lia. }
      destruct (probe_resync_step k s r s' r' H H') as (a & Ha & Hstep). cbn zeta in Hstep.
      assert (Hd : dur TO a <= D) by (apply Hall; eapply nth_error_In; exact Ha).
      assert (HdI : dur TO a < I) by lia.
      destruct (Hstep HdI) as [Hlt Hge].
      destruct (N.lt_ge_cases (phase t0 I s + dur TO a) I) as [Hc|Hc].
      * destruct (Hlt Hc) as [_ Hg]. exists 1%nat, s', r'. split; [lia|].
        replace (k + 1)%nat with (S k) by lia. split; assumption.
      * destruct (Hge Hc) as (_ & Hp & _).
        assert (Hn' : nth_error out (S k + n) <> None) by (replace (S k + n)%nat with (k + S n)%nat by lia; exact Hn).
        assert (Hph' : phase t0 I s' <= N.of_nat n * (I - D)).
        { rewrite Hp. replace (N.of_nat (S n)) with (N.of_nat n + 1) in Hph by lia. lia. }
        destruct (IH (S k) s' r' H' Hn' Hph') as (j & sj & rj & Hj & Hnth & Hg).
        exists (S j), sj, rj. split; [lia|]. replace (k + S j)%nat with (S k + j)%nat by lia. split; assumption.
Qed.

End Resync.

(** * Until the stop *)

Section Until.
Variables (t0 I TO : N) (script : list answer) (stop : option N).

Notation out := (probe_times t0 I TO script stop).

Lemma probe_next_due k s e ok :
  nth_error out k = Some (s, Some (e, ok)) -> nth_error out (S k) = None ->
  (S k < length script)%nat ->
  after_stop stop (next_start t0 I s e) = true.
Proof. apply run_next_due. Qed.

Lemma probe_starts : script <> [] -> after_stop stop t0 = false ->
  exists r, nth_error out 0 = Some (t0, r).
Proof. apply run_starts. Qed.

Lemma probe_length_le : (length out <= length script)%nat.
Proof. apply run_length. Qed.

End Until.

Lemma probe_no_stop_length t0 I TO script : length (probe_times t0 I TO script None) = length script.
Proof. apply run_no_stop_length. Qed.

(** * The statements of props/C09probe.v *)

Lemma P_exact_cadence : forall t0 I TO script stop k s r,
  0 < I -> (forall a, In a script -> dur TO a < I) ->
  nth_error (probe_times t0 I TO script stop) k = Some (s, r) ->
  s = t0 + N.of_nat k * I.
Proof. intros t0 I TO script stop k s r HI. apply probe_exact. exact HI. Qed.

Lemma P_exact_cadence_timeout : forall t0 I TO script stop k s r,
  0 < I -> TO < I ->
  nth_error (probe_times t0 I TO script stop) k = Some (s, r) ->
  s = t0 + N.of_nat k * I.
Proof.
  intros t0 I TO script stop k s r HI HTO. apply probe_exact; [exact HI|].
  intros a _. pose proof (dur_le_timeout TO a). lia.
Qed.

Lemma P_exact_cadence_alive : forall t0 I TO script stop k,
  0 < I -> (forall a, In a script -> dur TO a < I) ->
  (k < length script)%nat ->
  after_stop stop (t0 + N.of_nat k * I) = false ->
  exists r, nth_error (probe_times t0 I TO script stop) k = Some (t0 + N.of_nat k * I, r).
Proof. intros t0 I TO script stop k HI. apply probe_exact_alive. exact HI. Qed.

Lemma P_consecutive : forall t0 I TO script stop k s r s' r',
  0 < I ->
  nth_error (probe_times t0 I TO script stop) k = Some (s, r) ->
  nth_error (probe_times t0 I TO script stop) (S k) = Some (s', r') ->
  exists a, nth_error script k = Some a /\
    let d := dur TO a in
    r = Some (s + d, verdict TO a) /\
    s' = next_start t0 I s (s + d) /\
    s' = (if phase t0 I s + d <? I then s - phase t0 I s + I else s + d) /\
    s + d <= s' /\ s' <= s + d + I /\ s' <= s + N.max I d /\ s' <= s + N.max I TO /\ s < s' /\
    (s' = s + d \/ on_grid t0 I s' = true) /\
    (s' < s + d + I \/ (on_grid t0 I (s + d) = true /\ s' = s + d + I)).
Proof. intros t0 I TO script stop k s r s' r' HI. apply probe_consec. exact HI. Qed.

Lemma P_next_tick : forall t0 I TO script stop k s r s' r',
  0 < I ->
  nth_error (probe_times t0 I TO script stop) k = Some (s, r) ->
  nth_error (probe_times t0 I TO script stop) (S k) = Some (s', r') ->
  exists e ok, r = Some (e, ok) /\ s <= e /\
    ((exists j, s < tick_at t0 I j /\ tick_at t0 I j <= e) -> s' = e) /\
    (~ (exists j, s < tick_at t0 I j /\ tick_at t0 I j <= e) ->
       exists j, s' = tick_at t0 I j /\ e < s' /\ (forall i, e < tick_at t0 I i -> s' <= tick_at t0 I i)).
Proof. intros t0 I TO script stop k s r s' r' HI. apply probe_consec_ticks. exact HI. Qed.

(** The bound "next send < result + interval" is FALSE: a check that ends exactly on a
    tick it did not miss (e.g. an immediate answer to a probe sent on the grid) is
    followed by a wait of exactly one interval. *)
Lemma P_gap_lt_refuted :
  exists t0 I TO script stop k s e ok s' r',
    0 < I /\
    nth_error (probe_times t0 I TO script stop) k = Some (s, Some (e, ok)) /\
    nth_error (probe_times t0 I TO script stop) (S k) = Some (s', r') /\
    ~ s' < e + I.
Proof.
  exists 0, 1000, 500, [(Some 0, true); (Some 0, true)], None, 0%nat, 0, 0, true, 1000, (Some (1000, true)).
  split; [reflexivity|]. split; [reflexivity|]. split; [reflexivity|]. intros H. discriminate H.
Qed.

Lemma P_first : forall t0 I TO script stop s r,
  nth_error (probe_times t0 I TO script stop) 0 = Some (s, r) -> s = t0.
Proof. intros t0 I TO script stop s r. apply probe_first. Qed.

Lemma P_resync_step : forall t0 I TO script stop k s r s' r',
  0 < I ->
  nth_error (probe_times t0 I TO script stop) k = Some (s, r) ->
  nth_error (probe_times t0 I TO script stop) (S k) = Some (s', r') ->
  exists a, nth_error script k = Some a /\
    let d := dur TO a in
    d < I ->
    (phase t0 I s + d < I -> s' = s - phase t0 I s + I /\ on_grid t0 I s' = true) /\
    (I <= phase t0 I s + d -> s' = s + d /\ phase t0 I s' = phase t0 I s + d - I /\ phase t0 I s' < phase t0 I s).
Proof. intros t0 I TO script stop k s r s' r' HI. apply probe_resync_step. exact HI. Qed.

Lemma P_stays_on_grid : forall t0 I TO script stop k s r s' r',
  0 < I ->
  nth_error (probe_times t0 I TO script stop) k = Some (s, r) ->
  nth_error (probe_times t0 I TO script stop) (S k) = Some (s', r') ->
  on_grid t0 I s = true ->
  (exists a, nth_error script k = Some a /\ dur TO a < I) ->
  s' = s + I.
Proof. intros t0 I TO script stop k s r s' r' HI. apply probe_stays_on_grid. exact HI. Qed.

Lemma P_resync_within : forall t0 I TO script stop D n k s r,
  0 < I -> D < I -> (forall a, In a script -> dur TO a <= D) ->
  nth_error (probe_times t0 I TO script stop) k = Some (s, r) ->
  nth_error (probe_times t0 I TO script stop) (k + n) <> None ->
  phase t0 I s <= N.of_nat n * (I - D) ->
  exists j sj rj, (j <= n)%nat /\
    nth_error (probe_times t0 I TO script stop) (k + j) = Some (sj, rj) /\ on_grid t0 I sj = true.
Proof.
  intros t0 I TO script stop D n k s r HI HD Hall. apply probe_resync_within; assumption.
Qed.

Lemma P_result : forall t0 I TO script stop k s e ok,
  nth_error (probe_times t0 I TO script stop) k = Some (s, Some (e, ok)) ->
  exists a, nth_error script k = Some a /\
    e = s + match fst a with Some d => N.min d TO | None => TO end /\
    (ok = true <-> exists d, fst a = Some d /\ d <= TO /\ snd a = true).
Proof.
  intros t0 I TO script stop k s e ok H.
  destruct (probe_result t0 I TO script stop k s e ok H) as (a & Ha & He & Hok).
  exists a. split; [exact Ha|]. split; [exact He|]. subst ok. apply verdict_true_iff.
Qed.

Lemma P_stop : forall t0 I TO script x k s r,
  nth_error (probe_times t0 I TO script (Some x)) k = Some (s, r) ->
  s <= x /\
  match r with
  | Some (e, _) => e <= x
  | None => (exists a, nth_error script k = Some a /\ x < s + dur TO a) /\
            nth_error (probe_times t0 I TO script (Some x)) (S k) = None
  end.
Proof. intros t0 I TO script x k s r. apply probe_stop. reflexivity. Qed.

Lemma P_until_stop : forall t0 I TO script stop,
  (script <> [] -> after_stop stop t0 = false ->
   exists r, nth_error (probe_times t0 I TO script stop) 0 = Some (t0, r)) /\
  (forall k s e ok,
   nth_error (probe_times t0 I TO script stop) k = Some (s, Some (e, ok)) ->
   nth_error (probe_times t0 I TO script stop) (S k) = None ->
   (S k < length script)%nat ->
   after_stop stop (next_start t0 I s e) = true).
Proof.
  intros t0 I TO script stop. split.
  - apply probe_starts.
  - intros k s e ok. apply probe_next_due.
Qed.

Lemma P_no_stop : forall t0 I TO script,
  length (probe_times t0 I TO script None) = length script /\
  (forall k s r, nth_error (probe_times t0 I TO script None) k = Some (s, r) -> r <> None).
Proof.
  intros t0 I TO script. split; [apply probe_no_stop_length|].
  intros k s r. apply probe_no_stop_no_abandon. reflexivity.
Qed.

Lemma P_gap_lt_partial : forall t0 I TO script stop k s e ok s' r',
  0 < I ->
  nth_error (probe_times t0 I TO script stop) k = Some (s, Some (e, ok)) ->
  nth_error (probe_times t0 I TO script stop) (S k) = Some (s', r') ->
  s' < e + I \/ (on_grid t0 I e = true /\ s' = e + I).
Proof.
  intros t0 I TO script stop k s e ok s' r' HI H H'.
  destruct (probe_consec t0 I TO script stop HI k s _ s' r' H H') as (a & _ & Hr & _ & _ & _ & _ & _ & _ & _ & _ & Hg).
  cbn zeta in *. injection Hr as He _. rewrite <- He in Hg. exact Hg.
Qed.
