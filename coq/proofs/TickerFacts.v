(** TickerFacts.v — facts about the probe loop model/Ticker.v (health_check.go):
    the tick arithmetic, the shape of a run, exact cadence, the general bound
    between consecutive probes, re-synchronisation with the tick grid, result times,
    and Close.  The statements of C09's first clause are in props/C09probe.v. *)
From KP Require Import model.Base model.Ticker.
From Coq Require Import ZifyN ZifyNat ZifyBool.
Local Open Scope N_scope.

(** * Tick arithmetic *)

Lemma tu_decomp t0 I t : 0 < I -> t0 <= t ->
  t = t0 + ticks_upto t0 I t * I + phase t0 I t /\ phase t0 I t < I.
Proof.
  intros HI Ht. unfold ticks_upto, phase.
  pose proof (N.div_mod (t - t0) I) as Hd.
  pose proof (N.mod_lt (t - t0) I) as Hm.
  split; [|apply Hm; lia].
  assert (HIne : I <> 0) by lia. specialize (Hd HIne).
  rewrite (N.mul_comm (_ / _) I). lia.
Qed.

Lemma tu_unique t0 I t q r : 0 < I -> t = t0 + q * I + r -> r < I ->
  ticks_upto t0 I t = q /\ phase t0 I t = r.
Proof.
  intros HI Ht Hr. unfold ticks_upto, phase.
  assert (Hs : t - t0 = I * q + r) by (rewrite (N.mul_comm I q); lia).
  split; symmetry.
  - apply N.div_unique with r; assumption.
  - apply N.mod_unique with q; assumption.
Qed.

Lemma phase_lt t0 I t : 0 < I -> phase t0 I t < I.
Proof. intros HI. unfold phase. apply N.mod_lt. lia. Qed.

Lemma phase_tick t0 I k : 0 < I -> phase t0 I (tick_at t0 I k) = 0.
Proof.
  intros HI. unfold tick_at.
  destruct (tu_unique t0 I (t0 + k * I) k 0 HI) as [_ H]; [lia|lia|exact H].
Qed.

Lemma phase_t0 t0 I : 0 < I -> phase t0 I t0 = 0.
Proof.
  intros HI. destruct (tu_unique t0 I t0 0 0 HI) as [_ H]; [lia|lia|exact H].
Qed.

Lemma on_grid_iff t0 I t : 0 < I -> t0 <= t ->
  (on_grid t0 I t = true <-> exists k, t = tick_at t0 I k).
Proof.
  intros HI Ht. unfold on_grid. rewrite N.eqb_eq. split.
  - intros Hp. destruct (tu_decomp t0 I t HI Ht) as [Hd _]. rewrite Hp in Hd.
    exists (ticks_upto t0 I t). unfold tick_at. lia.
  - intros [k Hk]. subst t. now apply phase_tick.
Qed.

Lemma ticks_upto_mono t0 I a b : 0 < I -> t0 <= a -> a <= b -> ticks_upto t0 I a <= ticks_upto t0 I b.
Proof.
  intros HI Ha Hab. unfold ticks_upto. apply N.div_le_mono; lia.
Qed.

(** [ticks_upto] really counts the ticks up to and including [t]: tick k has fired
    at [t] iff k <= ticks_upto t. *)
Lemma tick_fired_iff t0 I t k : 0 < I -> t0 <= t ->
  (tick_at t0 I k <= t <-> k <= ticks_upto t0 I t).
Proof.
  intros HI Ht. destruct (tu_decomp t0 I t HI Ht) as [Hd Hr].
  set (q := ticks_upto t0 I t) in *. set (r := phase t0 I t) in *. unfold tick_at. split.
  - intros Hk. destruct (N.le_gt_cases k q) as [Hle|Hgt]; [exact Hle|exfalso].
    assert (H1 : (q + 1) * I <= k * I) by (apply N.mul_le_mono_r; lia). lia.
  - intros Hk. assert (H1 : k * I <= q * I) by (apply N.mul_le_mono_r; lia). lia.
Qed.

(** A check that ran over (s, e] missed a tick iff some tick fired in that window. *)
Lemma missed_tick_iff t0 I s e : 0 < I -> t0 <= s -> s <= e ->
  (missed_tick t0 I s e = true <-> exists k, s < tick_at t0 I k /\ tick_at t0 I k <= e).
Proof.
  intros HI Hs Hse. unfold missed_tick. rewrite N.ltb_lt. split.
  - intros Hlt. exists (ticks_upto t0 I e). split.
    + apply N.lt_nge. intros Hc. apply (tick_fired_iff t0 I s _ HI Hs) in Hc. lia.
    + apply (tick_fired_iff t0 I e _ HI); lia.
  - intros [k [Hk1 Hk2]].
    apply (tick_fired_iff t0 I e k HI) in Hk2; [|lia].
    assert (Hn : ~ k <= ticks_upto t0 I s).
    { intros Hc. apply (tick_fired_iff t0 I s k HI Hs) in Hc. lia. }
    lia.
Qed.

(** The closed form of [next_start] by the phase of the start of the check: the
    check either stays short of the next tick — then the next check starts on that
    tick — or not — then it starts at once. *)
Lemma next_start_closed t0 I s d : 0 < I -> t0 <= s ->
  next_start t0 I s (s + d) =
  if phase t0 I s + d <? I then s - phase t0 I s + I else s + d.
Proof.
  intros HI Hs. destruct (tu_decomp t0 I s HI Hs) as [Hd Hr].
  set (q := ticks_upto t0 I s) in *. set (r := phase t0 I s) in *.
  unfold next_start, missed_tick. fold q.
  destruct (r + d <? I) eqn:Hc.
  - apply N.ltb_lt in Hc.
    destruct (tu_unique t0 I (s + d) q (r + d) HI) as [Hq _]; [lia|exact Hc|].
    rewrite Hq. rewrite N.ltb_irrefl. unfold tick_at. lia.
  - apply N.ltb_ge in Hc.
    assert (He : t0 <= s + d) by lia.
    destruct (tu_decomp t0 I (s + d) HI He) as [Hd' Hr'].
    set (q' := ticks_upto t0 I (s + d)) in *. set (r' := phase t0 I (s + d)) in *.
    assert (Hlt : q < q').
    { destruct (N.lt_ge_cases q q') as [H|H]; [exact H|exfalso].
      assert (H1 : q' * I <= q * I) by (apply N.mul_le_mono_r; exact H). lia. }
    apply N.ltb_lt in Hlt. rewrite Hlt. reflexivity.
Qed.

(** When the loop waits, it waits for the FIRST tick strictly later than the end of
    the check. *)
Lemma next_start_first_tick t0 I s e : 0 < I -> t0 <= s -> s <= e ->
  missed_tick t0 I s e = false ->
  exists k, next_start t0 I s e = tick_at t0 I k /\ e < tick_at t0 I k /\
            (forall j, e < tick_at t0 I j -> tick_at t0 I k <= tick_at t0 I j).
Proof.
  intros HI Hs Hse Hm. unfold next_start. rewrite Hm.
  exists (ticks_upto t0 I e + 1). split; [reflexivity|].
  assert (He : t0 <= e) by lia.
  destruct (tu_decomp t0 I e HI He) as [Hd Hr]. split.
  - unfold tick_at. lia.
  - intros j Hj. unfold tick_at. apply N.add_le_mono_l. apply N.mul_le_mono_r.
    destruct (N.le_gt_cases (ticks_upto t0 I e + 1) j) as [H|H]; [exact H|exfalso].
    assert (Hle : j <= ticks_upto t0 I e) by lia.
    apply (tick_fired_iff t0 I e j HI He) in Hle. lia.
Qed.

Lemma next_start_missed t0 I s e : missed_tick t0 I s e = true -> next_start t0 I s e = e.
Proof. intros H. unfold next_start. now rewrite H. Qed.

(** Bounds that follow from the closed form. *)
Lemma next_start_bounds t0 I s d : 0 < I -> t0 <= s ->
  let s' := next_start t0 I s (s + d) in
  s + d <= s' /\ s' <= s + d + I /\ s' <= s + N.max I d /\ s < s' /\
  (s' = s + d \/ on_grid t0 I s' = true) /\
  (s' < s + d + I \/ (on_grid t0 I (s + d) = true /\ s' = s + d + I)).
Proof.
  intros HI Hs s'. subst s'. rewrite (next_start_closed t0 I s d HI Hs).
  destruct (tu_decomp t0 I s HI Hs) as [Hd Hr].
  set (q := ticks_upto t0 I s) in *. set (r := phase t0 I s) in *.
  destruct (r + d <? I) eqn:Hc.
  - apply N.ltb_lt in Hc.
    assert (Hg : on_grid t0 I (s - r + I) = true).
    { unfold on_grid. apply N.eqb_eq.
      destruct (tu_unique t0 I (s - r + I) (q + 1) 0 HI) as [_ H]; [lia|lia|exact H]. }
    split; [lia|]. split; [lia|]. split; [lia|]. split; [lia|]. split.
    + right. exact Hg.
    + destruct (N.eq_dec (r + d) 0) as [Hz|Hnz].
      * right. assert (r = 0) by lia. assert (d = 0) by lia. subst d.
        replace (s + 0) with s by lia. split; [|lia].
        unfold on_grid. fold r. apply N.eqb_eq. assumption.
      * left. lia.
  - apply N.ltb_ge in Hc.
    split; [lia|]. split; [lia|]. split; [lia|]. split; [lia|]. split.
    + left. reflexivity.
    + left. lia.
Qed.

(** * The shape of a run *)

Lemma after_stop_mono (stop : option N) a b : a <= b -> after_stop stop a = true -> after_stop stop b = true.
Proof. unfold after_stop. destruct stop as [x|]; [|discriminate]. rewrite !N.ltb_lt. lia. Qed.

Lemma after_stop_false_mono (stop : option N) a b : a <= b -> after_stop stop b = false -> after_stop stop a = false.
Proof.
  intros Hab Hb. destruct (after_stop stop a) eqn:Ha; [|reflexivity].
  rewrite (after_stop_mono stop a b Hab Ha) in Hb. discriminate.
Qed.

Section Run.
Variables (t0 I TO : N) (stop : option N).
Hypothesis HI : 0 < I.

Notation run := (loop t0 I TO stop).

Lemma run_cons s a rest :
  run s (a :: rest) =
  if after_stop stop s then []
  else if after_stop stop (s + dur TO a) then [(s, None)]
       else (s, Some (s + dur TO a, verdict TO a)) :: run (next_start t0 I s (s + dur TO a)) rest.
Proof. reflexivity. Qed.

(** the output never has more entries than the script *)
Lemma run_length script : forall s, (length (run s script) <= length script)%nat.
Proof.
  induction script as [|a rest IH]; intros s; [cbn; lia|].
  rewrite run_cons. destruct (after_stop stop s); [cbn; lia|].
  destruct (after_stop stop (s + dur TO a)); [cbn; lia|]. cbn [length]. specialize (IH (next_start t0 I s (s + dur TO a))). lia.
Qed.

(** Entry k of the output belongs to answer k of the script; it was sent before
    the stop; its result, if any, is the one the answer determines, reported before
    the stop; an abandoned probe is the last entry and was in flight at the stop. *)
Lemma run_nth script : forall s k sk rk,
  nth_error (run s script) k = Some (sk, rk) ->
  exists a, nth_error script k = Some a /\
            after_stop stop sk = false /\
            match rk with
            | Some (e, ok) => e = sk + dur TO a /\ ok = verdict TO a /\ after_stop stop e = false
            | None => after_stop stop (sk + dur TO a) = true /\ nth_error (run s script) (S k) = None
            end.
Proof.
  induction script as [|a rest IH]; intros s k sk rk H.
  - destruct k; discriminate H.
  - rewrite run_cons in H |- *.
    destruct (after_stop stop s) eqn:Hs; [destruct k; discriminate H|].
    destruct (after_stop stop (s + dur TO a)) eqn:He.
    + destruct k as [|k]; [|destruct k; discriminate H].
      injection H as <- <-. exists a. repeat split; assumption.
    + destruct k as [|k].
      * injection H as <- <-. exists a. repeat split; assumption.
      * cbn [nth_error] in H. destruct (IH _ _ _ _ H) as (a' & Ha' & Hsk & Hrk).
        exists a'. split; [exact Ha'|]. split; [exact Hsk|].
        destruct rk as [[e ok]|]; [exact Hrk|]. exact Hrk.
Qed.

Lemma run_head script s s0 r : nth_error (run s script) 0 = Some (s0, r) -> s0 = s.
Proof.
  destruct script as [|a rest]; [discriminate|]. rewrite run_cons.
  destruct (after_stop stop s); [discriminate|].
  destruct (after_stop stop (s + dur TO a)); intros H; injection H as <- _; reflexivity.
Qed.

(** Consecutive entries: the earlier has a result, and the later was sent at
    [next_start]. *)
Lemma run_consec script : forall s k sk rk sk' rk',
  nth_error (run s script) k = Some (sk, rk) ->
  nth_error (run s script) (S k) = Some (sk', rk') ->
  exists a, nth_error script k = Some a /\
            rk = Some (sk + dur TO a, verdict TO a) /\
            sk' = next_start t0 I sk (sk + dur TO a).
Proof.
  induction script as [|a rest IH]; intros s k sk rk sk' rk' H H'.
  - destruct k; discriminate H.
  - rewrite run_cons in H, H'.
    destruct (after_stop stop s) eqn:Hs; [destruct k; discriminate H|].
    destruct (after_stop stop (s + dur TO a)) eqn:He.
    + destruct k; discriminate H'.
    + destruct k as [|k].
      * injection H as <- <-. cbn [nth_error] in H'. apply run_head in H'. subst sk'.
        exists a. repeat split.
      * cbn [nth_error] in H, H'. exact (IH _ _ _ _ _ _ H H').
Qed.

(** every send is at or after the start of the loop *)
Lemma run_ge script : forall s k sk rk, t0 <= s ->
  nth_error (run s script) k = Some (sk, rk) -> s <= sk.
Proof.
  induction script as [|a rest IH]; intros s k sk rk Hs H.
  - destruct k; discriminate H.
  - rewrite run_cons in H.
    destruct (after_stop stop s); [destruct k; discriminate H|].
    destruct (after_stop stop (s + dur TO a)).
    + destruct k as [|k]; [|destruct k; discriminate H]. injection H as <- _. lia.
    + destruct k as [|k]; [injection H as <- _; lia|].
      cbn [nth_error] in H.
      pose proof (next_start_bounds t0 I s (dur TO a) HI Hs) as (Hb & _).
      assert (Hs' : t0 <= next_start t0 I s (s + dur TO a)) by lia.
      specialize (IH _ _ _ _ Hs' H). lia.
Qed.

(** The run goes on until the stop: if the output ends before the script does, the
    probe that would come next is due only after the stop. *)
Lemma run_ends_by_stop script : forall s,
  (length (run s script) < length script)%nat ->
  match rev (run s script) with
  | [] => after_stop stop s = true
  | (sl, None) :: _ => True     (* abandoned: see run_nth *)
  | (sl, Some (e, _)) :: _ => after_stop stop (next_start t0 I sl e) = true
  end.
Proof.
  induction script as [|a rest IH]; intros s Hlen; [cbn in Hlen; lia|].
  rewrite run_cons in Hlen |- *.
  destruct (after_stop stop s) eqn:Hs; [reflexivity|].
  destruct (after_stop stop (s + dur TO a)) eqn:He; [exact Logic.I|].
  cbn [length] in Hlen.
  set (n := next_start t0 I s (s + dur TO a)) in *.
  assert (Hl : (length (run n rest) < length rest)%nat) by lia.
  specialize (IH n Hl). cbn [rev].
  destruct (rev (run n rest)) as [|[sl [[e ok]|]] tl] eqn:Hr.
  - cbn. apply (f_equal (@rev _)) in Hr. rewrite rev_involutive in Hr. cbn in Hr.
    exact IH.
  - cbn. exact IH.
  - cbn. exact Logic.I.
Qed.

End Run.

(** * Exact cadence *)

Section Exact.
Variables (t0 I TO : N) (stop : option N).
Hypothesis HI : 0 < I.

Lemma next_start_on_grid j d : d < I ->
  next_start t0 I (tick_at t0 I j) (tick_at t0 I j + d) = tick_at t0 I (j + 1).
Proof.
  intros Hd. assert (Hs : t0 <= tick_at t0 I j) by (unfold tick_at; lia).
  rewrite (next_start_closed t0 I _ d HI Hs). rewrite (phase_tick t0 I j HI).
  replace (0 + d <? I) with true by (symmetry; apply N.ltb_lt; lia).
  unfold tick_at. lia.
Qed.

(** If every check is shorter than the interval, probe k is sent on tick k. *)
Lemma run_exact script : forall j k sk rk,
  (forall a, In a script -> dur TO a < I) ->
  nth_error (loop t0 I TO stop (tick_at t0 I j) script) k = Some (sk, rk) ->
  sk = tick_at t0 I (j + N.of_nat k).
Proof.
  induction script as [|a rest IH]; intros j k sk rk Hall H.
  - destruct k; discriminate H.
  - rewrite run_cons in H.
    destruct (after_stop stop (tick_at t0 I j)); [destruct k; discriminate H|].
    destruct (after_stop stop (tick_at t0 I j + dur TO a)).
    + destruct k as [|k]; [|destruct k; discriminate H]. injection H as <- _.
      f_equal. lia.
    + destruct k as [|k]; [injection H as <- _; f_equal; lia|].
      cbn [nth_error] in H.
      rewrite (next_start_on_grid j (dur TO a)) in H by (apply Hall; left; reflexivity).
      assert (Hall' : forall a', In a' rest -> dur TO a' < I) by (intros a' Ha'; apply Hall; right; exact Ha').
      rewrite (IH (j + 1) k sk rk Hall' H). f_equal. lia.
Qed.

(** ... and it IS sent, as long as the stop has not come. *)
Lemma run_exact_alive script : forall j k,
  (forall a, In a script -> dur TO a < I) ->
  (k < length script)%nat ->
  after_stop stop (tick_at t0 I (j + N.of_nat k)) = false ->
  exists rk, nth_error (loop t0 I TO stop (tick_at t0 I j) script) k = Some (tick_at t0 I (j + N.of_nat k), rk).
Proof.
  induction script as [|a rest IH]; intros j k Hall Hk Hst; [cbn in Hk; lia|].
  rewrite run_cons.
  assert (Hs0 : after_stop stop (tick_at t0 I j) = false).
  { apply (after_stop_false_mono stop _ (tick_at t0 I (j + N.of_nat k))); [|exact Hst].
    unfold tick_at. apply N.add_le_mono_l. apply N.mul_le_mono_r. lia. }
  rewrite Hs0.
  destruct k as [|k].
  - replace (j + N.of_nat 0) with j by lia.
    destruct (after_stop stop (tick_at t0 I j + dur TO a)); eexists; reflexivity.
  - assert (Hd : dur TO a < I) by (apply Hall; left; reflexivity).
    assert (He : after_stop stop (tick_at t0 I j + dur TO a) = false).
    { apply (after_stop_false_mono stop _ (tick_at t0 I (j + N.of_nat (S k)))); [|exact Hst].
      assert (H1 : (j + 1) * I <= (j + N.of_nat (S k)) * I) by (apply N.mul_le_mono_r; lia).
      unfold tick_at. lia. }
    rewrite He. cbn [nth_error]. rewrite (next_start_on_grid j (dur TO a) Hd).
    assert (Hall' : forall a', In a' rest -> dur TO a' < I) by (intros a' Ha'; apply Hall; right; exact Ha').
    cbn [length] in Hk.
    replace (j + N.of_nat (S k)) with (j + 1 + N.of_nat k) in * by lia.
    apply IH; [exact Hall'|lia|exact Hst].
Qed.

End Exact.

Lemma tick_at_0 t0 I : tick_at t0 I 0 = t0.
Proof. unfold tick_at. lia. Qed.

Lemma dur_le_timeout TO a : dur TO a <= TO.
Proof. unfold dur. destruct (fst a); lia. Qed.

Lemma dur_spec TO a :
  dur TO a = match fst a with Some d => N.min d TO | None => TO end.
Proof. reflexivity. Qed.

Lemma verdict_true_iff TO a :
  verdict TO a = true <-> exists d, fst a = Some d /\ d <= TO /\ snd a = true.
Proof.
  unfold verdict. destruct (fst a) as [d|]; split.
  - intros H. apply andb_true_iff in H. destruct H as [H1 H2]. apply N.leb_le in H1. eauto.
  - intros (d' & Hd & Hle & Hs). injection Hd as <-. apply andb_true_iff. split; [apply N.leb_le; exact Hle|exact Hs].
  - discriminate.
  - intros (d' & Hd & _). discriminate.
Qed.

(** * The theorems about [probe_times] *)

Section Probe.
Variables (t0 I TO : N) (script : list answer) (stop : option N).
Hypothesis HI : 0 < I.

Notation out := (probe_times t0 I TO script stop).

(** ** exact cadence *)
Lemma probe_exact k s r :
  (forall a, In a script -> dur TO a < I) ->
  nth_error out k = Some (s, r) -> s = t0 + N.of_nat k * I.
Proof.
  intros Hall H. unfold probe_times in H. rewrite <- (tick_at_0 t0 I) in H at 2.
  apply (run_exact t0 I TO stop HI script 0 k s r Hall) in H. subst s. unfold tick_at. f_equal.
Qed.

Lemma probe_exact_alive k :
  (forall a, In a script -> dur TO a < I) ->
  (k < length script)%nat ->
  after_stop stop (t0 + N.of_nat k * I) = false ->
  exists r, nth_error out k = Some (t0 + N.of_nat k * I, r).
Proof.
  intros Hall Hk Hst. unfold probe_times.
  destruct (run_exact_alive t0 I TO stop HI script 0 k Hall Hk) as [r Hr].
  - unfold tick_at. replace (0 + N.of_nat k) with (N.of_nat k) by lia. exact Hst.
  - exists r. rewrite tick_at_0 in Hr. rewrite Hr. unfold tick_at. do 3 f_equal.
Qed.

Lemma timeout_lt_all_fast : TO < I -> forall a, In a script -> dur TO a < I.
Proof. intros H a _. pose proof (dur_le_timeout TO a). lia. Qed.

(** ** the first probe *)
Lemma probe_first s r : nth_error out 0 = Some (s, r) -> s = t0.
Proof. apply run_head. Qed.

Lemma probe_ge k s r : nth_error out k = Some (s, r) -> t0 <= s.
Proof. apply (run_ge t0 I TO stop HI script t0 k s r). lia. Qed.

(** ** consecutive probes *)
Lemma probe_consec k s r s' r' :
  nth_error out k = Some (s, r) -> nth_error out (S k) = Some (s', r') ->
  exists a, nth_error script k = Some a /\
    let d := dur TO a in
    r = Some (s + d, verdict TO a) /\
    s' = next_start t0 I s (s + d) /\
    s' = (if phase t0 I s + d <? I then s - phase t0 I s + I else s + d) /\
    s + d <= s' /\ s' <= s + d + I /\ s' <= s + N.max I d /\ s' <= s + N.max I TO /\ s < s' /\
    (s' = s + d \/ on_grid t0 I s' = true) /\
    (s' < s + d + I \/ (on_grid t0 I (s + d) = true /\ s' = s + d + I)).
Proof.
  intros H H'. destruct (run_consec t0 I TO stop script t0 k s r s' r' H H') as (a & Ha & Hr & Hs').
  exists a. split; [exact Ha|]. cbn zeta.
  pose proof (probe_ge k s r H) as Hge.
  pose proof (next_start_bounds t0 I s (dur TO a) HI Hge) as (B1 & B2 & B3 & B4 & B5 & B6).
  pose proof (dur_le_timeout TO a) as Hd.
  rewrite <- Hs' in *.
  repeat split; try assumption; try lia.
  rewrite Hs'. apply next_start_closed; assumption.
Qed.

(** the tick-level reading of [next_start] for consecutive probes *)
Lemma probe_consec_ticks k s r s' r' :
  nth_error out k = Some (s, r) -> nth_error out (S k) = Some (s', r') ->
  exists e ok, r = Some (e, ok) /\ s <= e /\
    ((exists j, s < tick_at t0 I j /\ tick_at t0 I j <= e) -> s' = e) /\
    (~ (exists j, s < tick_at t0 I j /\ tick_at t0 I j <= e) ->
       exists j, s' = tick_at t0 I j /\ e < s' /\ (forall i, e < tick_at t0 I i -> s' <= tick_at t0 I i)).
Proof.
  intros H H'. destruct (run_consec t0 I TO stop script t0 k s r s' r' H H') as (a & Ha & Hr & Hs').
  pose proof (probe_ge k s r H) as Hge.
  exists (s + dur TO a), (verdict TO a). split; [exact Hr|]. split; [lia|].
  assert (Hse : s <= s + dur TO a) by lia.
  pose proof (missed_tick_iff t0 I s (s + dur TO a) HI Hge Hse) as Hm. split.
  - intros Hex. apply Hm in Hex. rewrite Hs'. now apply next_start_missed.
  - intros Hn. destruct (missed_tick t0 I s (s + dur TO a)) eqn:Hmt.
    + exfalso. apply Hn. apply Hm. reflexivity.
    + destruct (next_start_first_tick t0 I s (s + dur TO a) HI Hge Hse Hmt) as (j & Hj1 & Hj2 & Hj3).
      exists j. rewrite Hs', Hj1. repeat split; assumption.
Qed.

(** ** result times *)
Lemma probe_result k s e ok :
  nth_error out k = Some (s, Some (e, ok)) ->
  exists a, nth_error script k = Some a /\ e = s + dur TO a /\ ok = verdict TO a.
Proof.
  intros H. destruct (run_nth t0 I TO stop script t0 k s _ H) as (a & Ha & _ & He & Hok & _).
  exists a. repeat split; assumption.
Qed.

(** ** the stop *)
Lemma probe_stop x k s r : stop = Some x ->
  nth_error out k = Some (s, r) ->
  s <= x /\
  match r with
  | Some (e, _) => e <= x
  | None => (exists a, nth_error script k = Some a /\ x < s + dur TO a) /\ nth_error out (S k) = None
  end.
Proof.
  intros Hx H. destruct (run_nth t0 I TO stop script t0 k s r H) as (a & Ha & Hs & Hr).
  subst stop. cbn [after_stop] in Hs, Hr. apply N.ltb_ge in Hs. split; [exact Hs|].
  destruct r as [[e ok]|].
  - destruct Hr as (_ & _ & He). apply N.ltb_ge in He. exact He.
  - destruct Hr as (He & Hn). apply N.ltb_lt in He. split; [|exact Hn]. exists a. split; assumption.
Qed.

Lemma probe_no_stop_no_abandon k s r : stop = None -> nth_error out k = Some (s, r) -> r <> None.
Proof.
  intros Hx H. destruct (run_nth t0 I TO stop script t0 k s r H) as (a & _ & _ & Hr).
  subst stop. destruct r as [[e ok]|]; [discriminate|]. destruct Hr as [Hr _]. discriminate Hr.
Qed.

End Probe.
