(** M4Link.v — the sequential machine's own observation of a history, and
    the link between model/Seq.v (theorems props/C05 C06 C11 C18seq) and the
    monitors of corr/M4corr.v.  Part 1: the observation, reflexivity of the
    comparison functions, self-agreement ([check_history] finds no mismatch
    on a history produced by the model). *)
From KP Require Import model.Base model.ServiceMap model.Seq corr.M4corr
  proofs.SeqFacts proofs.SeqInv.
From Coq Require Import ZifyN ZifyNat ZifyBool Lia.
Local Open Scope N_scope.

(** ** The model's observation *)

Definition res_obs_of (r : result) : res_obs :=
  match r with Ok => OOk | Err e => OErr e | Panic => OPanic end.

(** For a forwarded request the serving target is the head of the target
    list ([serve] never forwards to an empty list, see [serve_forward_nonempty]). *)
Definition resp_obs_of (r : response) : resp_obs :=
  match r with
  | R404 => mkResp 404 [] [] 0 []
  | R301 loc => mkResp 301 loc [] 0 []
  | R503_tls => mkResp 503 [] [] 0 []
  | R200_health => mkResp 200 [] [] 0 []
  | R503_stopped msg => mkResp 503 [] [] 0 msg
  | RHeld fa _ => mkResp 504 [] [] fa []
  | R503_no_targets => mkResp 503 [] [] 0 []
  | RForward _ ts _ => mkResp 200 [] (hd [] ts) 0 []
  end.

Definition snapshot_of (st : state) : option (list snap_svc) :=
  match st_disk st with Some l => Some (sort_by sn_name (map snap_of l)) | None => None end.

Definition answers (ig : rollctl -> str -> bool) (st : state) (reqs : list request) : list (request * resp_obs) :=
  map (fun q => (q, resp_obs_of (serve ig st q))) reqs.

(** Everything observed after a command [c] with result [r] left state [st]. *)
Definition state_obs (ig : rollctl -> str -> bool) (st : state) (c : cmd) (r : result) (reqs : list request)
  : step_obs :=
  mkStep c (res_obs_of r) (sort_by lr_name (list_services st)) (snapshot_of st) (probed_of st)
         (answers ig st reqs).

Definition model_obs (ig : rollctl -> str -> bool) (v : variant) (st : state) (c : cmd) (reqs : list request)
  : state * step_obs :=
  let '(r, st') := exec v st c in (st', state_obs ig st' c r reqs).

Fixpoint model_history_from (ig : rollctl -> str -> bool) (v : variant) (st : state) (cs : list cmd)
         (reqs : list request) : list step_obs :=
  match cs with
  | [] => []
  | c :: r => let '(st', o) := model_obs ig v st c reqs in o :: model_history_from ig v st' r reqs
  end.

Definition model_history (ig : rollctl -> str -> bool) (v : variant) (cs : list cmd) (reqs : list request)
  : list step_obs := model_history_from ig v init_state cs reqs.

Lemma model_obs_fst ig v st c reqs : fst (model_obs ig v st c reqs) = snd (exec v st c).
Proof. unfold model_obs. now destruct (exec v st c). Qed.

Lemma model_obs_snd ig v st c reqs :
  snd (model_obs ig v st c reqs) = state_obs ig (snd (exec v st c)) c (fst (exec v st c)) reqs.
Proof. unfold model_obs. now destruct (exec v st c). Qed.

Lemma model_history_cons ig v st c cs reqs :
  model_history_from ig v st (c :: cs) reqs =
  state_obs ig (snd (exec v st c)) c (fst (exec v st c)) reqs ::
  model_history_from ig v (snd (exec v st c)) cs reqs.
Proof. cbn [model_history_from]. unfold model_obs. now destruct (exec v st c). Qed.

Lemma model_history_app ig v cs1 : forall st cs2 reqs,
  model_history_from ig v st (cs1 ++ cs2) reqs =
  model_history_from ig v st cs1 reqs ++ model_history_from ig v (exec_all v st cs1) cs2 reqs.
Proof.
  induction cs1 as [|c cs1 IH]; intros st cs2 reqs; [reflexivity|].
  rewrite <- app_comm_cons, !model_history_cons, IH. reflexivity.
Qed.

Lemma model_history_length ig v cs : forall st reqs, length (model_history_from ig v st cs reqs) = length cs.
Proof.
  induction cs as [|c cs IH]; intros st reqs; [reflexivity|].
  rewrite model_history_cons. cbn [length]. now rewrite IH.
Qed.

(** ** Reflexivity of the comparison functions *)

Lemma list_eqb_refl {A} (eqb : A -> A -> bool) :
  (forall x, eqb x x = true) -> forall l, list_eqb eqb l l = true.
Proof. intros H. induction l as [|x l IH]; cbn; [reflexivity|]. now rewrite H, IH. Qed.

Lemma list_eqb_refl_in {A} (eqb : A -> A -> bool) l :
  (forall x, In x l -> eqb x x = true) -> list_eqb eqb l l = true.
Proof.
  induction l as [|x l IH]; intros H; cbn; [reflexivity|].
  rewrite H by now left. rewrite IH; [reflexivity|]. intros; apply H; now right.
Qed.

Lemma strs_eqb_refl l : strs_eqb l l = true.
Proof. apply list_eqb_refl, str_eqb_refl. Qed.

Lemma err_eqb_refl e : err_eqb e e = true.
Proof. now destruct e. Qed.

Lemma row_eqb_refl r : row_eqb r r = true.
Proof. unfold row_eqb. now rewrite !str_eqb_refl, Bool.eqb_reflx. Qed.

Lemma opt_strs_eqb_refl o : opt_strs_eqb o o = true.
Proof. destruct o; cbn; [apply strs_eqb_refl|reflexivity]. Qed.

Lemma roll_eqb_refl o : roll_eqb o o = true.
Proof. destruct o as [[z l]|]; cbn; [|reflexivity]. now rewrite Z.eqb_refl, strs_eqb_refl. Qed.

Lemma snap_eqb_refl s : snap_eqb s s = true.
Proof.
  unfold snap_eqb.
  now rewrite !str_eqb_refl, !strs_eqb_refl, !Bool.eqb_reflx, !N.eqb_refl, opt_strs_eqb_refl, roll_eqb_refl.
Qed.

Lemma snapshot_eqb_refl o : option_eqb (list_eqb snap_eqb) o o = true.
Proof. destruct o; cbn; [apply list_eqb_refl, snap_eqb_refl|reflexivity]. Qed.

Lemma probed_eqb_refl l : probed_eqb l l = true.
Proof. apply list_eqb_refl. intros x. now rewrite str_eqb_refl, N.eqb_refl. Qed.

Lemma res_matches_refl r : res_matches r (res_obs_of r) = true.
Proof. destruct r; cbn; [reflexivity|apply err_eqb_refl|reflexivity]. Qed.

Lemma res_obs_eqb_refl o : res_obs_eqb o o = true.
Proof. destruct o; cbn; try reflexivity. apply err_eqb_refl. Qed.

Lemma resp_obs_eqb_refl o : resp_obs_eqb o o = true.
Proof. unfold resp_obs_eqb. now rewrite !N.eqb_refl, !str_eqb_refl, Bool.eqb_reflx. Qed.

(** ** [serve] never forwards to an empty target list *)

Lemma serve_forward_nonempty ig st q n ts sp : serve ig st q = RForward n ts sp -> ts <> [].
Proof.
  unfold serve.
  destruct (route _ _ _) as [[n' pre]|]; [|discriminate].
  destruct (svc_get _ _) as [s|]; [|discriminate].
  destruct (_ && _ && _); [discriminate|].
  destruct (_ && _); [discriminate|].
  destruct (p_state (s_pause s)).
  - match goal with |- context [match ?x with [] => R503_no_targets | _ => _ end] => destruct x as [|t r] eqn:E end;
      [discriminate|].
    intros H. inversion H; subst. discriminate.
  - destruct (_ && _); discriminate.
  - destruct (_ && _); discriminate.
Qed.

Lemma resp_matches_model ig st q : resp_matches (serve ig st q) (resp_obs_of (serve ig st q)) = true.
Proof.
  destruct (serve ig st q) as [|loc| | |msg|fa cn| |n ts sp] eqn:E; cbn;
    try reflexivity; try (now rewrite ?str_eqb_refl, ?N.eqb_refl).
  apply serve_forward_nonempty in E. destruct ts as [|t r]; [contradiction|].
  cbn. now rewrite str_eqb_refl.
Qed.

(** ** Self-agreement *)

Lemma reqs_mismatch_model ig st reqs : forall k, reqs_mismatch ig st (answers ig st reqs) k = [].
Proof.
  induction reqs as [|q reqs IH]; intros k; cbn [answers map reqs_mismatch]; [reflexivity|].
  rewrite resp_matches_model. apply IH.
Qed.

Lemma step_mismatch_model ig v st c reqs :
  step_mismatch ig v st (snd (model_obs ig v st c reqs)) = (fst (model_obs ig v st c reqs), []).
Proof.
  unfold step_mismatch, model_obs. destruct (exec v st c) as [r st'] eqn:E.
  cbn [snd fst state_obs so_cmd so_result so_list so_snapshot so_probed so_requests]. rewrite E.
  rewrite res_matches_refl, (list_eqb_refl row_eqb row_eqb_refl), probed_eqb_refl.
  fold (snapshot_of st'). rewrite snapshot_eqb_refl, reqs_mismatch_model. reflexivity.
Qed.

Lemma history_mismatches_model ig v cs reqs : forall st n,
  history_mismatches ig v st (model_history_from ig v st cs reqs) n = [].
Proof.
  induction cs as [|c cs IH]; intros st n; cbn [model_history_from history_mismatches]; [reflexivity|].
  pose proof (step_mismatch_model ig v st c reqs) as H.
  destruct (model_obs ig v st c reqs) as [st' o]. cbn [fst snd] in H.
  cbn [history_mismatches]. rewrite H. cbn [map app]. apply IH.
Qed.

(** Under [fixed] no command panics in a state satisfying the invariant, so
    [upto_panic] keeps the whole model history. *)
Lemma result_not_panic_obs r : r <> Panic -> res_obs_of r <> OPanic.
Proof. destruct r; cbn; congruence. Qed.

Lemma upto_panic_model ig cs reqs : forall st, Inv st ->
  upto_panic (model_history_from ig fixed st cs reqs) = model_history_from ig fixed st cs reqs.
Proof.
  induction cs as [|c cs IH]; intros st HI; [reflexivity|].
  rewrite model_history_cons. cbn [upto_panic so_result state_obs].
  pose proof (result_not_panic_obs _ (exec_no_panic st c HI)) as Hn.
  destruct (res_obs_of (fst (exec fixed st c))); try contradiction;
    (f_equal; apply IH; now apply exec_inv).
Qed.

Lemma no_panic_model ig cs reqs : forall st, Inv st ->
  no_panic (model_history_from ig fixed st cs reqs) = true.
Proof.
  induction cs as [|c cs IH]; intros st HI; [reflexivity|].
  rewrite model_history_cons. unfold no_panic in *. cbn [forallb so_result state_obs].
  rewrite (IH _ (exec_inv st c HI)).
  pose proof (result_not_panic_obs _ (exec_no_panic st c HI)) as Hn.
  destruct (res_obs_of (fst (exec fixed st c))); try contradiction; reflexivity.
Qed.

Lemma self_agreement ig cs reqs : check_history ig fixed (model_history ig fixed cs reqs) = [].
Proof.
  unfold check_history, model_history. rewrite upto_panic_model by apply Inv_init.
  apply history_mismatches_model.
Qed.
