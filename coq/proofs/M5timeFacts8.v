(** M5timeFacts8.v — the statements of props/C17.v. *)
From Coq Require Import ZifyN ZifyNat ZifyBool.
From KP Require Import model.Base model.Trace model.M5time.
From KP Require Import proofs.M5timeFacts proofs.M5timeFacts2 proofs.M5timeFacts3 proofs.M5timeFacts4
                       proofs.M5timeFacts5 proofs.M5timeFacts6 proofs.M5timeFacts7.
Local Open Scope N_scope.

(** [tr = pre ++ eI :: eP :: mid ++ eR :: post]: the command [c] is issued by
    [eI] with the durations of [eP], and returns with [eR]. *)

Lemma deploy_bound_trace :
  forall pre eI eP mid eR post c k name dt drt fa r s,
    run step init (pre ++ eI :: eP :: mid ++ eR :: post) = Some s ->
    e_k eI = KIssue c k name -> e_k eP = KParams c dt drt fa -> e_k eR = KReturn c r ->
    no_parks (pre ++ eI :: eP :: mid) = true ->
    is_deploy k = true ->
    e_t eR <= e_t eI + dt + drt.
Proof.
  intros pre eI eP mid eR post c k name dt drt fa r s Hrun HI HP HR Hnp Hk.
  destruct (bound_trace false _ _ _ _ _ _ _ _ _ _ _ _ _ _ Hrun HI HP HR Hnp) as (cm & K1 & K2 & K3 & K4 & B).
  unfold bound in B. rewrite K1, Hk in B. lia.
Qed.

Lemma pause_stop_bound_trace :
  forall pre eI eP mid eR post c k name dt drt fa r s,
    run step init (pre ++ eI :: eP :: mid ++ eR :: post) = Some s ->
    e_k eI = KIssue c k name -> e_k eP = KParams c dt drt fa -> e_k eR = KReturn c r ->
    no_parks (pre ++ eI :: eP :: mid) = true ->
    is_pause_stop k = true ->
    e_t eR <= e_t eI + drt.
Proof.
  intros pre eI eP mid eR post c k name dt drt fa r s Hrun HI HP HR Hnp Hk.
  destruct (bound_trace false _ _ _ _ _ _ _ _ _ _ _ _ _ _ Hrun HI HP HR Hnp) as (cm & K1 & K2 & K3 & K4 & B).
  unfold bound in B. rewrite K1, Hk in B. destruct k; try discriminate; cbn in B; lia.
Qed.

(** resume, remove, rollout set, rollout stop *)
Lemma nonblocking_trace :
  forall pre eI eP mid eR post c k name dt drt fa r s,
    run step init (pre ++ eI :: eP :: mid ++ eR :: post) = Some s ->
    e_k eI = KIssue c k name -> e_k eP = KParams c dt drt fa -> e_k eR = KReturn c r ->
    no_parks (pre ++ eI :: eP :: mid) = true ->
    is_deploy k = false -> is_pause_stop k = false ->
    e_t eR = e_t eI.
Proof.
  intros pre eI eP mid eR post c k name dt drt fa r s Hrun HI HP HR Hnp Hk1 Hk2.
  destruct (bound_trace false _ _ _ _ _ _ _ _ _ _ _ _ _ _ Hrun HI HP HR Hnp) as (cm & K1 & K2 & K3 & K4 & B).
  unfold bound in B. rewrite K1, Hk1, Hk2 in B. lia.
Qed.

(** D4 (pinned code, before fix 3d904ad): a deploy that fails at install with a
    host conflict returns without disposing the balancer it created; its
    target is probed afterwards.  Times in ns. *)
Definition d4_name : str := [x74; x65].
Definition d4_trace : trace :=
  [mkEv 0 AEnv (KTargetName 0 d4_name);
   mkEv 0 (ACmd 1) (KIssue 1 CkDeploy [x7a; x7a]);
   mkEv 0 (ACmd 1) (KParams 1 5000 3000 0);
   mkEv 0 (ACmd 1) (KLbNew 0 [0%nat]);
   mkEv 0 (ACmd 1) (KDeployLb 0 false 0);
   mkEv 0 AEnv (KProbeSent d4_name true);
   mkEv 0 (AGo 7) (KWaiter 0 true);
   mkEv 0 (ACmd 1) (KDeployWaited 0 true);
   mkEv 0 (ACmd 1) (KSlot 0 false 0 None);
   mkEv 0 (ACmd 1) (KInstall 0 false);
   mkEv 0 (ACmd 1) (KReturn 1 (CRErr 3));
   mkEv 1000 AEnv (KProbeSent d4_name true)].

Lemma d4_refuted :
  run step_pinned init d4_trace <> None /\ run step init d4_trace = None /\
  (exists s, run step_pinned init (firstn 11 d4_trace) = Some s /\ tgt_probing s 0 = true /\
             nth_error d4_trace 10 = Some (mkEv 0 (ACmd 1) (KReturn 1 (CRErr 3))) /\
             nth_error d4_trace 3 = Some (mkEv 0 (ACmd 1) (KLbNew 0 [0%nat])) /\
             nth_error d4_trace 11 = Some (mkEv 1000 AEnv (KProbeSent d4_name true))).
Proof.
  split; [vm_compute; discriminate|]. split; [vm_compute; reflexivity|].
  eexists. split; [vm_compute; reflexivity|]. repeat split.
Qed.
