(** UrlFacts.v — proofs about model/Url.v and model/Headers.v (C13). *)
From KP Require Import model.Base model.Url model.Headers.
From Coq Require Import ZifyN ZifyNat ZifyBool.
Local Open Scope N_scope.
Local Arguments byte_eqb : simpl never.

(** * Bytes and strings *)

Lemma byte_eqb_eq a b : byte_eqb a b = true <-> a = b.
Proof.
  unfold byte_eqb. split; intro H.
  - now apply Byte.byte_dec_bl.
  - now apply Byte.byte_dec_lb.
Qed.

Lemma byte_eqb_refl a : byte_eqb a a = true.
Proof. now apply byte_eqb_eq. Qed.

Lemma byte_eqb_sym a b : byte_eqb a b = byte_eqb b a.
Proof.
  destruct (byte_eqb a b) eqn:E1, (byte_eqb b a) eqn:E2; auto.
  - apply byte_eqb_eq in E1. subst. now rewrite byte_eqb_refl in E2.
  - apply byte_eqb_eq in E2. subst. now rewrite byte_eqb_refl in E1.
Qed.

Lemma byte_eqb_neq a b : byte_eqb a b = false <-> a <> b.
Proof.
  split; intro H.
  - intro E. subst. now rewrite byte_eqb_refl in H.
  - destruct (byte_eqb a b) eqn:E; auto. apply byte_eqb_eq in E. contradiction.
Qed.

Lemma str_eqb_eq : forall a b, str_eqb a b = true <-> a = b.
Proof.
  induction a as [|x a IH]; destruct b as [|y b]; cbn; split; intro H; try discriminate; auto.
  - apply andb_true_iff in H as [H1 H2]. apply byte_eqb_eq in H1. apply IH in H2. now subst.
  - inversion H; subst. apply andb_true_iff. split; [apply byte_eqb_refl | now apply IH].
Qed.

Lemma str_eqb_refl a : str_eqb a a = true.
Proof. now apply str_eqb_eq. Qed.

Lemma str_eqb_neq a b : str_eqb a b = false <-> a <> b.
Proof.
  split; intro H.
  - intro E. subst. now rewrite str_eqb_refl in H.
  - destruct (str_eqb a b) eqn:E; auto. apply str_eqb_eq in E. contradiction.
Qed.

Lemma has_prefix_split : forall p s, has_prefix s p = true -> s = p ++ skipn (length p) s.
Proof.
  induction p as [|y p IH]; intros s H; cbn in *; auto.
  destruct s as [|x s]; [discriminate|].
  apply andb_true_iff in H as [H1 H2]. apply byte_eqb_eq in H1. subst. f_equal. now apply IH.
Qed.

Lemma has_prefix_app : forall p r, has_prefix (p ++ r) p = true.
Proof.
  induction p as [|y p IH]; intro r; cbn; [now destruct r|]. now rewrite byte_eqb_refl, IH.
Qed.

Lemma has_prefix_nil s : has_prefix s [] = true.
Proof. now destruct s. Qed.

Lemma has_prefix_slash_cons d : has_prefix (slash :: d) [slash] = true.
Proof. cbn. now rewrite byte_eqb_refl, has_prefix_nil. Qed.
Local Hint Resolve has_prefix_slash_cons has_prefix_nil : core.

Lemma has_prefix_refl s : has_prefix s s = true.
Proof. rewrite <- (app_nil_r s) at 1. apply has_prefix_app. Qed.

Lemma skipn_app_len {A} : forall (p r : list A), skipn (length p) (p ++ r) = r.
Proof. induction p; cbn; auto. Qed.

Lemma mem_byte_app c a b : mem_byte c (a ++ b) = mem_byte c a || mem_byte c b.
Proof. unfold mem_byte. apply existsb_app. Qed.

Lemma mem_byte_cons c x s : mem_byte c (x :: s) = byte_eqb c x || mem_byte c s.
Proof. reflexivity. Qed.

Lemma mem_byte_skipn c : forall n s, mem_byte c s = false -> mem_byte c (skipn n s) = false.
Proof.
  induction n as [|n IH]; intros s H; cbn; auto. destruct s as [|x s]; auto.
  rewrite mem_byte_cons in H. apply orb_false_iff in H as [_ H]. now apply IH.
Qed.

Lemma has_suffix_last s c : has_suffix s [c] = true -> exists s', s = s' ++ [c].
Proof.
  unfold has_suffix. cbn. intro H. destruct (rev s) as [|x l] eqn:E; [discriminate|].
  apply andb_true_iff in H as [H _]. apply byte_eqb_eq in H. subst x.
  exists (rev l). rewrite <- (rev_involutive s), E. reflexivity.
Qed.

Lemma has_suffix_snoc s c : has_suffix (s ++ [c]) [c] = true.
Proof. unfold has_suffix. rewrite rev_app_distr. cbn. rewrite byte_eqb_refl. now destruct (rev s). Qed.

(** * Character classes of net/url (256-case sweeps) *)

Lemma unescape_escape_byte c rest :
  unescape (escape_byte c ++ rest) =
  match unescape rest with Some d => Some (c :: d) | None => None end.
Proof. destruct c; reflexivity. Qed.

Lemma escape_byte_no_qmark c : mem_byte qmark (escape_byte c) = false.
Proof. destruct c; reflexivity. Qed.

Lemma escape_byte_valid c : valid_encoded (escape_byte c) = true.
Proof. destruct c; reflexivity. Qed.

Lemma escape_byte_cases c : escape_byte c = [c] \/ exists a b, escape_byte c = [pct; a; b].
Proof. unfold escape_byte. destruct (should_escape c); eauto. Qed.

Lemma should_escape_pct : should_escape pct = true.
Proof. reflexivity. Qed.

(** * unescape / escape *)

Lemma escape_app a b : escape (a ++ b) = escape a ++ escape b.
Proof. unfold escape. apply flat_map_app. Qed.

Lemma unescape_escape : forall d, unescape (escape d) = Some d.
Proof.
  induction d as [|c d IH]; [reflexivity|].
  change (escape (c :: d)) with (escape_byte c ++ escape d).
  now rewrite unescape_escape_byte, IH.
Qed.

Lemma escape_no_qmark : forall d, mem_byte qmark (escape d) = false.
Proof.
  induction d as [|c d IH]; [reflexivity|].
  change (escape (c :: d)) with (escape_byte c ++ escape d).
  now rewrite mem_byte_app, escape_byte_no_qmark, IH.
Qed.

Lemma valid_encoded_app a b : valid_encoded (a ++ b) = valid_encoded a && valid_encoded b.
Proof. unfold valid_encoded. apply forallb_app. Qed.

Lemma escape_valid : forall d, valid_encoded (escape d) = true.
Proof.
  induction d as [|c d IH]; [reflexivity|].
  change (escape (c :: d)) with (escape_byte c ++ escape d).
  now rewrite valid_encoded_app, escape_byte_valid, IH.
Qed.

Lemma unescape_cons_nopct c r :
  byte_eqb c pct = false ->
  unescape (c :: r) = match unescape r with Some d => Some (c :: d) | None => None end.
Proof. intro H. cbn. now rewrite H. Qed.

Lemma unescape_nopct_app : forall q r,
  mem_byte pct q = false ->
  unescape (q ++ r) = match unescape r with Some d => Some (q ++ d) | None => None end.
Proof.
  induction q as [|c q IH]; intros r H.
  - cbn. now destruct (unescape r).
  - rewrite mem_byte_cons in H. apply orb_false_iff in H as [H1 H2]. rewrite byte_eqb_sym in H1.
    change ((c :: q) ++ r) with (c :: (q ++ r)).
    rewrite (unescape_cons_nopct _ _ H1), (IH r H2). now destruct (unescape r).
Qed.

Lemma escape_nopct_prefix : forall q x y,
  mem_byte pct q = false -> escape q ++ x = q ++ y -> x = y.
Proof.
  induction q as [|c q IH]; intros x y H E; [exact E|].
  rewrite mem_byte_cons in H. apply orb_false_iff in H as [H1 H2].
  change (escape (c :: q)) with (escape_byte c ++ escape q) in E.
  destruct (escape_byte_cases c) as [Hc | (a & b & Hc)]; rewrite Hc in E.
  - cbn [app] in E. injection E as E. eauto.
  - cbn [app] in E. injection E as Hp _. rewrite <- Hp, byte_eqb_refl in H1. discriminate.
Qed.

Lemma unescape_slash_head r d : unescape (slash :: r) = Some d -> exists d', d = slash :: d'.
Proof.
  rewrite unescape_cons_nopct by reflexivity. destruct (unescape r); intro H; inversion H. eauto.
Qed.

(** * The net/url round-trip law *)

Lemma set_path_inv p d raw :
  set_path p = Some (d, raw) ->
  unescape p = Some d /\ ((raw = [] /\ escape d = p) \/ (raw = p /\ escape d <> p)).
Proof.
  unfold set_path. destruct (unescape p) as [d'|]; [|discriminate]. intro H.
  destruct (str_eqb (escape d') p) eqn:E; inversion H; subst; split; auto.
  - left. split; auto. now apply str_eqb_eq.
  - right. split; auto. now apply str_eqb_neq.
Qed.

Lemma escaped_path_of_raw path raw :
  raw <> [] -> valid_encoded raw = true -> unescape raw = Some path ->
  escaped_path_of path raw = raw.
Proof.
  intros Hne Hv Hu. unfold escaped_path_of. rewrite Hv, Hu, str_eqb_refl.
  destruct raw; [contradiction | reflexivity].
Qed.

Lemma escaped_path_of_default path : path <> bs "*" -> escaped_path_of path [] = escape path.
Proof.
  intro H. unfold escaped_path_of. cbn [is_empty negb andb]. apply str_eqb_neq in H. now rewrite H.
Qed.

(** [escaped_path (set_path p) = p] for every raw path made of characters
    that net/url regards as valid in an encoded path. *)
Lemma path_roundtrip p d raw :
  set_path p = Some (d, raw) -> has_prefix p [slash] = true -> valid_encoded p = true ->
  escaped_path_of d raw = p.
Proof.
  intros H Hs Hv. apply set_path_inv in H as (Hu & [(-> & He) | (-> & He)]).
  - destruct (str_eqb d (bs "*")) eqn:E.
    + apply str_eqb_eq in E. subst d. cbn in He. subst p. discriminate.
    + unfold escaped_path_of. cbn [is_empty negb andb]. now rewrite E.
  - apply escaped_path_of_raw; auto. intro E. subst p. cbn in Hu. inversion Hu. subst d.
    now apply He.
Qed.

(** Whatever the spelling, the decoded path survives. *)
Lemma escaped_path_decodes p d raw :
  set_path p = Some (d, raw) -> unescape (escaped_path_of d raw) = Some d.
Proof.
  intro H. apply set_path_inv in H as (Hu & _). unfold escaped_path_of.
  destruct (negb (is_empty raw) && valid_encoded raw &&
            match unescape raw with Some d0 => str_eqb d0 d | None => false end) eqn:E.
  - apply andb_true_iff in E as [_ E]. destruct (unescape raw) as [d0|]; [|discriminate].
    apply str_eqb_eq in E. now subst.
  - destruct (str_eqb d (bs "*")) eqn:E2.
    + apply str_eqb_eq in E2. now subst.
    + apply unescape_escape.
Qed.

Lemma escaped_path_of_idem d raw :
  escaped_path_of d (escaped_path_of d raw) = escaped_path_of d raw.
Proof.
  unfold escaped_path_of at 2 3.
  destruct (negb (is_empty raw) && valid_encoded raw &&
            match unescape raw with Some d0 => str_eqb d0 d | None => false end) eqn:E.
  - unfold escaped_path_of. now rewrite E.
  - destruct (str_eqb d (bs "*")) eqn:E2.
    + apply str_eqb_eq in E2. subst d. reflexivity.
    + unfold escaped_path_of. rewrite E2, escape_valid, unescape_escape, str_eqb_refl.
      now destruct (escape d).
Qed.

Lemma escaped_path_of_no_qmark path raw :
  mem_byte qmark raw = false -> mem_byte qmark (escaped_path_of path raw) = false.
Proof.
  intro H. unfold escaped_path_of.
  destruct (negb (is_empty raw) && valid_encoded raw &&
            match unescape raw with Some d0 => str_eqb d0 path | None => false end); auto.
  destruct (str_eqb path (bs "*")); [reflexivity | apply escape_no_qmark].
Qed.

(** * The query split *)

Lemma cut_q_spec : forall t,
  mem_byte qmark (fst (cut_q t)) = false /\
  t = fst (cut_q t) ++ match snd (cut_q t) with Some b => qmark :: b | None => [] end.
Proof.
  induction t as [|c t [IH1 IH2]]; [split; reflexivity|].
  cbn. destruct (byte_eqb c qmark) eqn:E.
  - apply byte_eqb_eq in E. subst. split; reflexivity.
  - destruct (cut_q t) as [a b]. cbn in *. split.
    + rewrite byte_eqb_sym, E. exact IH1.
    + now rewrite <- IH2.
Qed.

Lemma count_byte_app c a b : (count_byte c (a ++ b) = count_byte c a + count_byte c b)%nat.
Proof. unfold count_byte. now rewrite filter_app, app_length. Qed.

Lemma count_byte_zero c : forall s, mem_byte c s = false -> count_byte c s = 0%nat.
Proof.
  induction s as [|x s IH]; intro H; [reflexivity|].
  rewrite mem_byte_cons in H. apply orb_false_iff in H as [H1 H2]. unfold count_byte in *. cbn. rewrite H1. now apply IH.
Qed.

Lemma count_byte_pos c : forall s, mem_byte c s = true -> (0 < count_byte c s)%nat.
Proof.
  induction s as [|x s IH]; intro H; [discriminate|].
  cbn in H. unfold count_byte in *. cbn. destruct (byte_eqb c x); cbn in *; [lia | now apply IH].
Qed.

Lemma cut_q_nomem t : mem_byte qmark t = false -> cut_q t = (t, None).
Proof.
  induction t as [|c t IH]; intro H; [reflexivity|].
  rewrite mem_byte_cons in H. apply orb_false_iff in H as [H1 H2]. cbn. rewrite byte_eqb_sym, H1, (IH H2). reflexivity.
Qed.

Lemma cut_q_app a r : mem_byte qmark a = false -> cut_q (a ++ qmark :: r) = (a, Some r).
Proof.
  induction a as [|c a IH]; intro H; cbn.
  - reflexivity.
  - rewrite mem_byte_cons in H. apply orb_false_iff in H as [H1 H2]. rewrite byte_eqb_sym, H1, (IH H2). reflexivity.
Qed.

Definition query_part (force : bool) (q : str) : str :=
  if force || negb (is_empty q) then qmark :: q else [].

Lemma split_query_spec t p f q :
  split_query t = (p, f, q) -> p = raw_path_of t /\ t = p ++ query_part f q.
Proof.
  unfold split_query, raw_path_of, query_part.
  pose proof (cut_q_spec t) as [Hm Ht]. destruct (cut_q t) as [a ob]. cbn [fst snd] in Hm, Ht.
  destruct (has_suffix t [qmark] && Nat.eqb (count_byte qmark t) 1) eqn:Hc.
  - apply andb_true_iff in Hc as [Hs Hn]. apply Nat.eqb_eq in Hn.
    destruct (has_suffix_last _ _ Hs) as [s' Hs'].
    intro H. inversion H; subst p f q; clear H. cbn.
    destruct ob as [b|].
    + assert (Hb : mem_byte qmark b = false).
      { destruct (mem_byte qmark b) eqn:Eb; auto. apply count_byte_pos in Eb.
        rewrite Ht in Hn. rewrite count_byte_app in Hn.
        change (qmark :: b) with ([qmark] ++ b) in Hn. rewrite count_byte_app in Hn.
        rewrite (count_byte_zero _ _ Hm) in Hn.
        change (count_byte qmark [qmark]) with 1%nat in Hn. lia. }
      destruct b as [|x b] using rev_ind.
      * rewrite Ht. rewrite removelast_last. auto.
      * exfalso. rewrite Ht in Hs'.
        change (a ++ qmark :: b ++ [x]) with (a ++ (qmark :: b) ++ [x]) in Hs'.
        rewrite app_assoc in Hs'. apply app_inj_tail in Hs' as [_ Hx]. subst x.
        rewrite mem_byte_app in Hb. change (mem_byte qmark [qmark]) with true in Hb.
        rewrite orb_true_r in Hb. discriminate.
    + exfalso. rewrite app_nil_r in Ht. subst a. rewrite Hs', mem_byte_app in Hm.
      change (mem_byte qmark [qmark]) with true in Hm. rewrite orb_true_r in Hm. discriminate.
  - destruct ob as [b|]; intro H; inversion H; subst p f q; clear H; cbn; split; auto.
    destruct b as [|x b]; cbn; auto.
    exfalso. rewrite Ht in Hc. rewrite has_suffix_snoc in Hc. rewrite count_byte_app in Hc.
    rewrite (count_byte_zero _ _ Hm) in Hc.
    change (count_byte qmark [qmark]) with 1%nat in Hc. cbn in Hc. discriminate.
Qed.

Lemma raw_path_of_app p f q :
  mem_byte qmark p = false -> raw_path_of (p ++ query_part f q) = p.
Proof.
  intro H. unfold raw_path_of, query_part.
  destruct (f || negb (is_empty q)).
  - now rewrite cut_q_app.
  - rewrite app_nil_r. now rewrite cut_q_nomem.
Qed.

Lemma query_suffix_of_app p f q :
  mem_byte qmark p = false -> query_suffix_of (p ++ query_part f q) = query_part f q.
Proof.
  intro H. unfold query_suffix_of. rewrite raw_path_of_app by auto. apply skipn_app_len.
Qed.

(** * The server-side parse *)

Lemma slash_head t : has_prefix t [slash] = true -> exists r, t = slash :: r.
Proof.
  destruct t as [|c r]; cbn; [discriminate|]. intro H. apply andb_true_iff in H as [H _].
  apply byte_eqb_eq in H. subst. eauto.
Qed.

Lemma parse_accept_inv t u :
  parse_request_target t = PAccept u -> has_prefix t [slash] = true ->
  exists d raw f q,
    u = mkUrl d raw f q /\ set_path (raw_path_of t) = Some (d, raw) /\
    t = raw_path_of t ++ query_part f q /\ has_prefix (raw_path_of t) [slash] = true /\
    mem_byte qmark (raw_path_of t) = false /\ has_ctl t = false.
Proof.
  intros H Hs. unfold parse_request_target in H.
  destruct (has_ctl t) eqn:Hc; [discriminate|].
  destruct (slash_head _ Hs) as [r ->].
  cbn [is_empty] in H.
  replace (str_eqb (slash :: r) (bs "*")) with false in H by reflexivity.
  rewrite Hs in H.
  destruct (split_query (slash :: r)) as [[p f] q] eqn:Hq.
  apply split_query_spec in Hq as [Hp Ht].
  destruct (set_path p) as [[d raw]|] eqn:Hsp; [|discriminate].
  inversion H; subst u. exists d, raw, f, q. subst p.
  repeat split; auto.
  - unfold raw_path_of. cbn. replace (byte_eqb slash qmark) with false by reflexivity.
    destruct (cut_q r). cbn [fst]. cbn. rewrite byte_eqb_refl. now destruct s.
  - apply (proj1 (cut_q_spec (slash :: r))).
Qed.

Lemma path_accepted_of_parse t u :
  parse_request_target t = PAccept u -> has_prefix t [slash] = true ->
  path_accepted (raw_path_of t) = true.
Proof.
  intros H Hs. destruct (parse_accept_inv _ _ H Hs) as (d & raw & f & q & _ & Hsp & Ht & Hsl & Hq & Hc).
  unfold path_accepted. rewrite Hsl, Hq. apply set_path_inv in Hsp as [Hu _]. rewrite Hu.
  assert (has_ctl (raw_path_of t) = false) as ->; [|reflexivity].
  rewrite Ht in Hc. unfold has_ctl in *. rewrite existsb_app in Hc. now apply orb_false_iff in Hc as [Hc _].
Qed.

(** * What the proxy sends *)

Lemma join_target_slash d raw :
  has_prefix d [slash] = true ->
  has_prefix (escaped_path_of d raw) [slash] = true ->
  join_target (mkUrl d raw false []) = (d, if is_empty raw then [] else escaped_path_of d raw).
Proof.
  intros Hd He. unfold join_target. cbn [u_raw_path u_path].
  destruct (is_empty raw) eqn:E.
  - unfold single_joining_slash. rewrite Hd. reflexivity.
  - unfold escaped_path. cbn [u_raw_path u_path]. now rewrite He.
Qed.

Lemma join_target_query d raw f q :
  join_target (mkUrl d raw f q) = join_target (mkUrl d raw false []).
Proof. reflexivity. Qed.

Section Forward.
  Variables (t : str) (u : url).
  Hypothesis Hparse : parse_request_target t = PAccept u.
  Hypothesis Hslash : has_prefix t [slash] = true.

  Let p := raw_path_of t.

  (** Without stripping the proxy writes exactly [RequestURI] of the parsed URL. *)
  Lemma forward_no_strip_request_uri repaired : forward_target_gen repaired None u = request_uri u.
  Proof.
    destruct (parse_accept_inv _ _ Hparse Hslash) as (d & raw & f & q & -> & Hsp & Ht & Hsl & Hq & Hc).
    fold p in Hsp, Ht, Hsl, Hq.
    destruct (slash_head _ Hsl) as [r Hr].
    pose proof Hsp as Hinv. apply set_path_inv in Hinv as (Hu & Hcases).
    rewrite Hr in Hu. destruct (unescape_slash_head _ _ Hu) as [d' ->].
    unfold forward_target_gen, rewrite_url. rewrite join_target_query.
    destruct Hcases as [(-> & He) | (-> & He)].
    - assert (Hsl1 : has_prefix (escaped_path_of (slash :: d') []) [slash] = true).
      { rewrite escaped_path_of_default by discriminate. rewrite He, Hr. auto. }
      rewrite join_target_slash by auto. cbn [is_empty]. reflexivity.
    - pose proof (escaped_path_of_idem (slash :: d') p) as Hep. symmetry in Hep.
      assert (Hsl2 : has_prefix (escaped_path_of (slash :: d') p) [slash] = true).
      { unfold escaped_path_of.
        destruct (negb (is_empty p) && valid_encoded p &&
                  match unescape p with Some d0 => str_eqb d0 (slash :: d') | None => false end); auto.
        replace (str_eqb (slash :: d') (bs "*")) with false by reflexivity.
        change (escape (slash :: d')) with (slash :: escape d'). auto. }
      rewrite join_target_slash by auto.
      replace (is_empty p) with false by (now rewrite Hr).
      unfold request_uri, escaped_path. cbn [u_path u_raw_path u_force_query u_raw_query].
      now rewrite <- Hep.
  Qed.

  (** … and that is the request target the client sent, byte for byte. *)
  Lemma forward_no_strip_identity repaired :
    valid_encoded p = true -> forward_target_gen repaired None u = t.
  Proof.
    intro Hv. rewrite forward_no_strip_request_uri.
    destruct (parse_accept_inv _ _ Hparse Hslash) as (d & raw & f & q & -> & Hsp & Ht & Hsl & Hq & Hc).
    fold p in Hsp, Ht, Hsl, Hq.
    unfold request_uri, escaped_path. cbn [u_path u_raw_path u_force_query u_raw_query].
    rewrite (path_roundtrip _ _ _ Hsp Hsl Hv).
    destruct (slash_head _ Hsl) as [r Hr]. rewrite Hr at 1. cbn [is_empty].
    symmetry. exact Ht.
  Qed.

  (** Stripping (repaired tree): the client spelled the prefix literally. *)
  Lemma forward_strip_literal pre :
    valid_encoded p = true -> mem_byte pct pre = false -> literal_prefix p pre = true ->
    forward_target (Some pre) u =
      (let r := skipn (length pre) p in if is_empty r then [slash] else r) ++ query_suffix_of t.
  Proof.
    intros Hv Hpct Hlit.
    destruct (parse_accept_inv _ _ Hparse Hslash) as (d & raw & f & q & -> & Hsp & Ht & Hsl & Hq & Hc).
    fold p in Hsp, Ht, Hsl, Hq.
    assert (Hqs : query_suffix_of t = query_part f q).
    { rewrite Ht. now apply query_suffix_of_app. }
    rewrite Hqs. clear Hqs.
    unfold literal_prefix in Hlit. apply andb_true_iff in Hlit as [Hpre Hbound].
    apply has_prefix_split in Hpre. remember (skipn (length pre) p) as r eqn:Hrdef. clear Hrdef.
    assert (Hr : r = [] \/ exists r', r = slash :: r').
    { destruct r as [|c r']; auto. right. apply byte_eqb_eq in Hbound. subst c. eauto. }
    clear Hbound.
    pose proof Hsp as Hinv. apply set_path_inv in Hinv as (Hu & Hcases).
    rewrite Hpre in Hu. rewrite unescape_nopct_app in Hu by auto.
    destruct (unescape r) as [dr|] eqn:Hur; [|discriminate]. inversion Hu; subst d; clear Hu.
    assert (Hdr : dr = [] \/ exists d', dr = slash :: d').
    { destruct Hr as [Hr | [r' Hr]]; rewrite Hr in Hur.
      - cbn in Hur. inversion Hur. auto.
      - right. eapply unescape_slash_head; eauto. }
    assert (Hdstar : str_eqb dr (bs "*") = false).
    { destruct Hdr as [-> | [d' ->]]; reflexivity. }
    destruct (slash_head _ Hsl) as [p' Hp'].
    assert (Hd : has_prefix (pre ++ dr) [slash] = true).
    { rewrite Hpre in Hp'. destruct pre as [|c pre'].
      - cbn in Hp'. cbn. destruct Hr as [Hr | [r' Hr]]; rewrite Hr in Hp'; [discriminate|].
        destruct Hdr as [-> | [d' ->]]; [|cbn [app]; auto]. rewrite Hr in Hur.
        destruct (unescape_slash_head _ _ Hur) as [? ?]. discriminate.
      - cbn in Hp'. inversion Hp'. cbn [app]. auto. }
    assert (Hvr : valid_encoded r = true).
    { rewrite Hpre, valid_encoded_app in Hv. now apply andb_true_iff in Hv as [_ Hv]. }
    assert (Htrim : trim_prefix (pre ++ dr) pre = dr).
    { unfold trim_prefix. now rewrite has_prefix_app, skipn_app_len. }
    unfold forward_target, forward_target_gen, rewrite_url. rewrite join_target_query.
    destruct Hcases as [(-> & He) | (-> & He)].
    - (* default encoding: RawPath is empty *)
      assert (Hsl1 : has_prefix (escaped_path_of (pre ++ dr) []) [slash] = true).
      { rewrite escaped_path_of_default.
        - rewrite He. exact Hsl.
        - intro E. rewrite E in Hd. discriminate. }
      rewrite join_target_slash by auto.
      cbn [is_empty]. rewrite Htrim.
      assert (Hcut : (match cut_prefix [] pre with
                      | Some r0 => if is_empty r0 || has_prefix r0 [slash] then r0 else []
                      | None => [] end) = []).
      { unfold cut_prefix. destruct pre; cbn; reflexivity. }
      rewrite Hcut.
      unfold request_uri, escaped_path. cbn [u_path u_raw_path u_force_query u_raw_query].
      unfold escaped_path_of. cbn [is_empty negb andb]. rewrite Hdstar.
      rewrite escape_app in He. rewrite Hpre in He.
      apply escape_nopct_prefix in He; auto. rewrite He. reflexivity.
    - (* RawPath = p *)
      assert (Hpne : p <> []) by (rewrite Hp'; discriminate).
      assert (Hep : escaped_path_of (pre ++ dr) p = p).
      { apply escaped_path_of_raw; auto. rewrite Hpre at 1. rewrite unescape_nopct_app by auto.
        now rewrite Hur. }
      rewrite join_target_slash by (auto; now rewrite Hep).
      replace (is_empty p) with false by (now rewrite Hp').
      rewrite Hep, Htrim.
      assert (Hcut : cut_prefix p pre = Some r).
      { unfold cut_prefix. rewrite Hpre. now rewrite has_prefix_app, skipn_app_len. }
      rewrite Hcut.
      assert (Hb : is_empty r || has_prefix r [slash] = true).
      { destruct Hr as [-> | [r' ->]]; [reflexivity|]. cbn [is_empty orb]. auto. }
      rewrite Hb.
      unfold request_uri, escaped_path. cbn [u_path u_raw_path u_force_query u_raw_query].
      assert (Her : escaped_path_of dr r = r).
      { destruct Hr as [Hr0 | [r' Hr0]].
        - rewrite Hr0 in *. cbn in Hur. inversion Hur. reflexivity.
        - apply escaped_path_of_raw; auto. rewrite Hr0. discriminate. }
      rewrite Her. reflexivity.
  Qed.

  (** A literal prefix without '%' is also what the router matches on the decoded path. *)
  Lemma literal_prefix_routes pre :
    mem_byte pct pre = false -> literal_prefix p pre = true ->
    prefix_matches (u_path u) pre = true.
  Proof.
    intros Hpct Hlit.
    destruct (parse_accept_inv _ _ Hparse Hslash) as (d & raw & f & q & -> & Hsp & Ht & Hsl & Hq & Hc).
    fold p in Hsp, Ht, Hsl, Hq. cbn [u_path].
    unfold literal_prefix in Hlit. apply andb_true_iff in Hlit as [Hpre Hbound].
    apply has_prefix_split in Hpre. remember (skipn (length pre) p) as r eqn:Hrdef. clear Hrdef.
    apply set_path_inv in Hsp as (Hu & _).
    rewrite Hpre in Hu. rewrite unescape_nopct_app in Hu by auto.
    destruct (unescape r) as [dr|] eqn:Hur; [|discriminate]. inversion Hu; subst d; clear Hu.
    unfold prefix_matches.
    assert (Hpe : forall x, has_prefix (pre ++ slash :: x) (ensure_trailing_slash pre) = true).
    { intro x. unfold ensure_trailing_slash. destruct (has_suffix pre [slash]) eqn:Es.
      - apply has_prefix_app.
      - change (pre ++ slash :: x) with (pre ++ [slash] ++ x). rewrite app_assoc. apply has_prefix_app. }
    destruct r as [|c r'].
    - cbn in Hur. inversion Hur. subst dr. rewrite app_nil_r.
      apply has_prefix_refl.
    - apply byte_eqb_eq in Hbound. subst c.
      destruct (unescape_slash_head _ _ Hur) as [d' ->].
      unfold ensure_trailing_slash at 1.
      destruct (has_suffix (pre ++ slash :: d') [slash]).
      + apply Hpe.
      + rewrite <- app_assoc. apply Hpe.
  Qed.

  (** The query string is never touched: pinned or repaired, stripping or not,
      whatever bytes the path is made of. *)
  Lemma forward_query_verbatim repaired matched :
    query_suffix_of (forward_target_gen repaired matched u) = query_suffix_of t.
  Proof.
    destruct (parse_accept_inv _ _ Hparse Hslash) as (d & raw & f & q & -> & Hsp & Ht & Hsl & Hq & Hc).
    fold p in Hsp, Ht, Hsl, Hq.
    assert (Hqs : query_suffix_of t = query_part f q).
    { rewrite Ht. now apply query_suffix_of_app. }
    rewrite Hqs.
    assert (Hraw : mem_byte qmark raw = false).
    { apply set_path_inv in Hsp as (_ & [(-> & _) | (-> & _)]); auto. }
    unfold forward_target_gen, request_uri.
    set (u' := rewrite_url repaired matched (mkUrl d raw f q)).
    assert (Hf : u_force_query u' = f /\ u_raw_query u' = q /\ mem_byte qmark (u_raw_path u') = false).
    { subst u'. unfold rewrite_url.
      assert (Hj : mem_byte qmark (snd (join_target (mkUrl d raw f q))) = false).
      { unfold join_target. cbn [u_raw_path u_path]. destruct (is_empty raw); [reflexivity|].
        unfold escaped_path. cbn [u_raw_path u_path].
        destruct (has_prefix (escaped_path_of d raw) [slash]); cbn [snd].
        - now apply escaped_path_of_no_qmark.
        - rewrite mem_byte_app. cbn. now apply escaped_path_of_no_qmark. }
      destruct (join_target (mkUrl d raw f q)) as [jp jr]. cbn [snd] in Hj.
      destruct matched as [pre|]; cbn; repeat split; auto.
      destruct repaired; auto. unfold cut_prefix.
      destruct (has_prefix jr pre); auto.
      destruct (is_empty (skipn (length pre) jr) || has_prefix (skipn (length pre) jr) [slash]); auto.
      now apply mem_byte_skipn. }
    destruct Hf as (-> & -> & Hrq).
    fold (query_part f q).
    apply query_suffix_of_app.
    destruct (is_empty (escaped_path u')); [reflexivity|].
    unfold escaped_path. now apply escaped_path_of_no_qmark.
  Qed.
End Forward.

(** The pinned tree loses the client's encoding when it strips. *)
Lemma pinned_strip_refuted :
  exists t u pre,
    parse_request_target t = PAccept u /\ valid_encoded (raw_path_of t) = true /\
    literal_prefix (raw_path_of t) pre = true /\
    forward_target_pinned (Some pre) u <> skipn (length pre) t /\
    forward_target (Some pre) u = skipn (length pre) t.
Proof.
  exists (bs "/app/a%2Fb"), (mkUrl (bs "/app/a/b") (bs "/app/a%2Fb") false []), (bs "/app").
  vm_compute. repeat split; discriminate.
Qed.

(** Bytes outside net/url's valid-encoded set make the whole path fall back to
    the default encoding (known finding C13-F1). *)
Lemma invalid_pchar_refuted :
  exists t u,
    parse_request_target t = PAccept u /\ path_accepted (raw_path_of t) = true /\
    valid_encoded (raw_path_of t) = false /\
    forward_target None u <> t.
Proof.
  exists (bs "/app/a""b%2F"), (mkUrl (bs "/app/a""b/") (bs "/app/a""b%2F") false []).
  vm_compute. repeat split; discriminate.
Qed.

(** * Headers *)

Lemma hvalues_app k a b : hvalues k (a ++ b) = hvalues k a ++ hvalues k b.
Proof. unfold hvalues. now rewrite filter_app, map_app. Qed.

Lemma hvalues_hdel_same k : forall h, hvalues k (hdel k h) = [].
Proof.
  induction h as [|[k' v] h IH]; [reflexivity|].
  unfold hdel, hvalues in *. cbn. destruct (str_eqb k' k) eqn:E; cbn; [exact IH|].
  rewrite E. exact IH.
Qed.

Lemma hvalues_hdel_other k k' : str_eqb k k' = false -> forall h, hvalues k (hdel k' h) = hvalues k h.
Proof.
  intros Hne. induction h as [|[k0 v] h IH]; [reflexivity|].
  unfold hdel, hvalues in *. cbn. destruct (str_eqb k0 k') eqn:E; cbn.
  - apply str_eqb_eq in E. subst k0.
    replace (str_eqb k' k) with false; [exact IH|].
    symmetry. apply str_eqb_neq. intro E. subst. now rewrite str_eqb_refl in Hne.
  - destruct (str_eqb k0 k); cbn; now rewrite IH.
Qed.

Lemma hvalues_single k v : hvalues k [(k, v)] = [v].
Proof. unfold hvalues. cbn. now rewrite str_eqb_refl. Qed.

Lemma hvalues_single_other k k' v : str_eqb k k' = false -> hvalues k [(k', v)] = [].
Proof.
  intro H. unfold hvalues. cbn.
  replace (str_eqb k' k) with false; [reflexivity|].
  symmetry. apply str_eqb_neq. intro E. subst. now rewrite str_eqb_refl in H.
Qed.

Lemma hvalues_hset_same k v h : hvalues k (hset k v h) = [v].
Proof. unfold hset. now rewrite hvalues_app, hvalues_hdel_same, hvalues_single. Qed.

Lemma hvalues_hset_other k k' v h : str_eqb k k' = false -> hvalues k (hset k' v h) = hvalues k h.
Proof.
  intro H. unfold hset. rewrite hvalues_app, hvalues_hdel_other, hvalues_single_other by auto.
  apply app_nil_r.
Qed.

Lemma hvalues_map_pairs k vs : hvalues k (map (fun v => (k, v)) vs) = vs.
Proof.
  induction vs as [|v vs IH]; [reflexivity|]. unfold hvalues in *. cbn. rewrite str_eqb_refl. cbn.
  now rewrite IH.
Qed.

Lemma hvalues_map_pairs_other k k' vs : str_eqb k k' = false -> hvalues k (map (fun v => (k', v)) vs) = [].
Proof.
  intro H. induction vs as [|v vs IH]; [reflexivity|].
  change (map (fun v0 => (k', v0)) (v :: vs)) with ([(k', v)] ++ map (fun v0 => (k', v0)) vs).
  now rewrite hvalues_app, hvalues_single_other, IH.
Qed.

Lemma hvalues_hset_all_same k vs h : hvalues k (hset_all k vs h) = vs.
Proof. unfold hset_all. now rewrite hvalues_app, hvalues_hdel_same, hvalues_map_pairs. Qed.

Lemma hvalues_hset_all_other k k' vs h : str_eqb k k' = false -> hvalues k (hset_all k' vs h) = hvalues k h.
Proof.
  intro H. unfold hset_all. rewrite hvalues_app, hvalues_hdel_other, hvalues_map_pairs_other by auto.
  apply app_nil_r.
Qed.

Lemma hvalues_hdel_all_notin k : forall ks h, mem_str k ks = false -> hvalues k (hdel_all ks h) = hvalues k h.
Proof.
  induction ks as [|k0 ks IH]; intros h H; [reflexivity|].
  cbn [mem_str] in H. apply orb_false_iff in H as [H1 H2].
  change (hdel_all (k0 :: ks) h) with (hdel_all ks (hdel k0 h)). rewrite IH by auto. now apply hvalues_hdel_other.
Qed.

Lemma hvalues_hdel_all_in k : forall ks h, mem_str k ks = true -> hvalues k (hdel_all ks h) = [].
Proof.
  induction ks as [|k0 ks IH]; intros h H; [discriminate|].
  cbn [mem_str] in H. change (hdel_all (k0 :: ks) h) with (hdel_all ks (hdel k0 h)).
  destruct (mem_str k ks) eqn:E.
  - now apply IH.
  - rewrite orb_false_r in H. apply str_eqb_eq in H. subst k0.
    rewrite hvalues_hdel_all_notin by auto. apply hvalues_hdel_same.
Qed.

Lemma mem_str_app k : forall a b, mem_str k (a ++ b) = mem_str k a || mem_str k b.
Proof. induction a as [|x a IH]; intro b; cbn; [reflexivity|]. now rewrite IH, orb_assoc. Qed.

Lemma hget_hvalues k h h' : hvalues k h = hvalues k h' -> hget k h = hget k h'.
Proof. unfold hget. now intros ->. Qed.

Lemma mw_default_other k k' fresh h : str_eqb k k' = false -> hvalues k (mw_default k' fresh h) = hvalues k h.
Proof.
  intro H. unfold mw_default. destruct (is_empty (hget k' h)); auto. now apply hvalues_hset_other.
Qed.

Lemma mw_default_same k fresh h :
  hvalues k (mw_default k fresh h) = if is_empty (hget k h) then [fresh] else hvalues k h.
Proof.
  unfold mw_default. destruct (is_empty (hget k h)); auto. apply hvalues_hset_same.
Qed.

Lemma join_snoc sep : forall (l : list str) x, l <> [] -> join sep l ++ sep ++ x = join sep (l ++ [x]).
Proof.
  induction l as [|a l IH]; intros x H; [contradiction|].
  destruct l as [|b l].
  - reflexivity.
  - change (join sep (a :: b :: l)) with (a ++ sep ++ join sep (b :: l)).
    change ((a :: b :: l) ++ [x]) with (a :: ((b :: l) ++ [x])).
    assert (Hne : (b :: l) ++ [x] = b :: (l ++ [x])) by reflexivity.
    rewrite Hne. change (join sep (a :: b :: l ++ [x])) with (a ++ sep ++ join sep (b :: (l ++ [x]))).
    rewrite <- Hne, <- IH by discriminate. now rewrite <- !app_assoc.
Qed.

(** The X-Forwarded-* table. *)
Lemma forward_headers_spec fwd ip tls host inh out :
  hvalues K_xff out = [] ->
  let h := forward_headers fwd ip tls host inh out in
  hvalues K_xff h = [join comma_space ((if fwd then hvalues K_xff inh else []) ++ [ip])] /\
  hvalues K_xfp h = [if fwd && negb (is_empty (hget K_xfp inh)) then hget K_xfp inh else proto_of tls] /\
  hvalues K_xfh h = [if fwd && negb (is_empty (hget K_xfh inh)) then hget K_xfh inh else host] /\
  (forall k, mem_str k [K_xff; K_xfp; K_xfh] = false -> hvalues k h = hvalues k out).
Proof.
  intros Hout. unfold forward_headers.
  set (out1 := if fwd then hset_all K_xff (hvalues K_xff inh) out else out).
  assert (Hprior : hvalues K_xff out1 = if fwd then hvalues K_xff inh else []).
  { subst out1. destruct fwd; [apply hvalues_hset_all_same | exact Hout]. }
  assert (Hother1 : forall k, str_eqb k K_xff = false -> hvalues k out1 = hvalues k out).
  { intros k Hk. subst out1. destruct fwd; auto. now apply hvalues_hset_all_other. }
  set (xff := if is_empty (hvalues K_xff out1) then ip
              else join comma_space (hvalues K_xff out1) ++ comma_space ++ ip).
  assert (Hxff : xff = join comma_space ((if fwd then hvalues K_xff inh else []) ++ [ip])).
  { subst xff. rewrite Hprior. destruct (if fwd then hvalues K_xff inh else []) as [|a l] eqn:E.
    - reflexivity.
    - cbn [is_empty]. apply join_snoc. discriminate. }
  set (out2 := hset K_xfp (proto_of tls) (hset K_xfh host (hset K_xff xff out1))).
  assert (H2ff : hvalues K_xff out2 = [xff]).
  { subst out2. rewrite !hvalues_hset_other by reflexivity. apply hvalues_hset_same. }
  assert (H2fp : hvalues K_xfp out2 = [proto_of tls]) by (subst out2; apply hvalues_hset_same).
  assert (H2fh : hvalues K_xfh out2 = [host]).
  { subst out2. rewrite hvalues_hset_other by reflexivity. apply hvalues_hset_same. }
  assert (H2o : forall k, mem_str k [K_xff; K_xfp; K_xfh] = false -> hvalues k out2 = hvalues k out).
  { intros k Hk. cbn in Hk. rewrite orb_false_r in Hk.
    apply orb_false_iff in Hk as [Ha Hk]. apply orb_false_iff in Hk as [Hb Hc].
    subst out2. rewrite !hvalues_hset_other by auto. now apply Hother1. }
  assert (Hlast : forall h', (forall k, mem_str k [K_xff; K_xfp; K_xfh] = false -> hvalues k h' = hvalues k out2) ->
                       forall k, mem_str k [K_xff; K_xfp; K_xfh] = false -> hvalues k h' = hvalues k out).
  { intros h' Hh' k Hk. rewrite Hh' by auto. now apply H2o. }
  destruct fwd; cbn [andb].
  - destruct (is_empty (hget K_xfp inh)) eqn:Ep; destruct (is_empty (hget K_xfh inh)) eqn:Eh; cbn [negb];
      (split; [|split; [|split]]);
      try (apply Hlast; intros k Hk; cbn [mem_str] in Hk; rewrite orb_false_r in Hk;
           apply orb_false_iff in Hk as [Ha Hk]; apply orb_false_iff in Hk as [Hb Hc];
           now rewrite ?hvalues_hset_other by auto);
      repeat (rewrite hvalues_hset_same || rewrite hvalues_hset_other by reflexivity);
      rewrite ?H2ff, ?H2fp, ?H2fh, ?Hxff; reflexivity.
  - (split; [|split; [|split]]); rewrite ?H2ff, ?H2fp, ?H2fh, ?Hxff; auto.
Qed.

Definition not_wire_key (k : str) : bool := negb (mem_str k [K_ua; K_te; K_cl; K_ae]).

Lemma wire_headers_other method k h :
  mem_str k [K_ua; K_te; K_cl; K_ae] = false -> hvalues k (wire_headers method h) = hvalues k h.
Proof.
  intro Hk. cbn in Hk. rewrite orb_false_r in Hk.
  apply orb_false_iff in Hk as [Ha Hk]. apply orb_false_iff in Hk as [Hb Hk]. apply orb_false_iff in Hk as [Hc Hd].
  unfold wire_headers.
  assert (H1 : hvalues k (hdel K_cl (hdel K_te (hdel K_ua h))) = hvalues k h).
  { now rewrite !hvalues_hdel_other by auto. }
  destruct (is_empty (hget K_ua h)); destruct (asks_gzip method h);
    rewrite ?hvalues_app, ?hvalues_single_other by auto; rewrite H1; now rewrite ?app_nil_r.
Qed.

Lemma remove_hop_other k h :
  mem_str k hop_headers = false -> mem_str k (connection_listed h) = false ->
  hvalues k (remove_hop_by_hop h) = hvalues k h.
Proof. intros H1 H2. unfold remove_hop_by_hop. now rewrite !hvalues_hdel_all_notin. Qed.

(** The full request pipeline, X-Forwarded-* part. *)
Lemma target_xff_policy e fwd method host raw :
  let h := target_headers e fwd method host raw in
  let sent := server_headers raw in
  hvalues K_xff h = [join comma_space ((if fwd then hvalues K_xff sent else []) ++ [e_client_ip e])] /\
  hvalues K_xfp h = [if fwd && negb (is_empty (hget K_xfp sent)) then hget K_xfp sent else proto_of (e_tls e)] /\
  hvalues K_xfh h = [if fwd && negb (is_empty (hget K_xfh sent)) then hget K_xfh sent else host] /\
  hvalues K_forwarded h = [].
Proof.
  cbv zeta. unfold target_headers, proxy_headers.
  set (inh := after_middleware e raw).
  set (out := hdel_all [K_forwarded; K_xff; K_xfh; K_xfp] (remove_hop_by_hop inh)).
  assert (Hout : hvalues K_xff out = []) by (subst out; now apply hvalues_hdel_all_in).
  assert (Hin : forall k, mem_str k [K_rid; K_rstart] = false -> hvalues k inh = hvalues k (server_headers raw)).
  { intros k Hk. cbn in Hk. rewrite orb_false_r in Hk. apply orb_false_iff in Hk as [Ha Hb].
    subst inh. unfold after_middleware. now rewrite !mw_default_other by auto. }
  destruct (forward_headers_spec fwd (e_client_ip e) (e_tls e) host inh out Hout) as (H1 & H2 & H3 & H4).
  rewrite !wire_headers_other by reflexivity.
  rewrite H1, H2, H3.
  rewrite (Hin K_xff) by reflexivity.
  rewrite (hget_hvalues K_xfp inh (server_headers raw)) by (now apply Hin).
  rewrite (hget_hvalues K_xfh inh (server_headers raw)) by (now apply Hin).
  repeat split.
  rewrite H4 by reflexivity. subst out. now apply hvalues_hdel_all_in.
Qed.

(** Request id and request start after the middleware … *)
Lemma middleware_ids e raw :
  let sent := server_headers raw in
  let h := after_middleware e raw in
  hvalues K_rid h = (if is_empty (hget K_rid sent) then [e_fresh_id e] else hvalues K_rid sent) /\
  hvalues K_rstart h = (if is_empty (hget K_rstart sent) then [e_fresh_start e] else hvalues K_rstart sent).
Proof.
  cbv zeta. unfold after_middleware. split.
  - rewrite mw_default_same.
    rewrite (hget_hvalues K_rid _ (server_headers raw)) by (now apply mw_default_other).
    now rewrite mw_default_other by reflexivity.
  - rewrite mw_default_other by reflexivity. apply mw_default_same.
Qed.

Definition reserved_request_keys : list str :=
  hop_headers ++ [K_forwarded; K_xff; K_xfh; K_xfp; K_ua; K_te; K_cl; K_ae].

(** … and a header that is neither hop-by-hop (fixed list or named in
    Connection), nor a forwarding header, nor one the HTTP client writes itself
    reaches the target exactly as it left the middleware. *)
Lemma target_header_kept e fwd method host raw k :
  mem_str k reserved_request_keys = false ->
  mem_str k (connection_listed (after_middleware e raw)) = false ->
  hvalues k (target_headers e fwd method host raw) = hvalues k (after_middleware e raw).
Proof.
  intros Hk Hc. unfold reserved_request_keys in Hk. rewrite mem_str_app in Hk.
  apply orb_false_iff in Hk as [Hhop Hrest].
  cbn [mem_str] in Hrest. rewrite orb_false_r in Hrest.
  apply orb_false_iff in Hrest as [R1 Hrest]. apply orb_false_iff in Hrest as [R2 Hrest].
  apply orb_false_iff in Hrest as [R3 Hrest]. apply orb_false_iff in Hrest as [R4 Hrest].
  apply orb_false_iff in Hrest as [R5 Hrest]. apply orb_false_iff in Hrest as [R6 Hrest].
  apply orb_false_iff in Hrest as [R7 R8].
  unfold target_headers, proxy_headers.
  set (inh := after_middleware e raw) in *.
  set (out := hdel_all [K_forwarded; K_xff; K_xfh; K_xfp] (remove_hop_by_hop inh)).
  assert (Hout : hvalues K_xff out = []) by (subst out; now apply hvalues_hdel_all_in).
  destruct (forward_headers_spec fwd (e_client_ip e) (e_tls e) host inh out Hout) as (_ & _ & _ & H4).
  rewrite wire_headers_other by (cbn [mem_str]; now rewrite R5, R6, R7, R8).
  rewrite H4 by (cbn [mem_str]; now rewrite R2, R4, R3).
  subst out. rewrite hvalues_hdel_all_notin by (cbn [mem_str]; now rewrite R1, R2, R3, R4).
  now apply remove_hop_other.
Qed.

(** Known finding C13-F5: a client can have the proxy drop X-Request-Id by
    naming it in Connection. *)
Lemma request_id_droppable :
  exists e fwd method host raw,
    hvalues K_rid (after_middleware e raw) <> [] /\
    hvalues K_rid (target_headers e fwd method host raw) = [].
Proof.
  exists (mkEnv (bs "127.0.0.1") false (bs "fresh") (bs "1")), false, (bs "GET"), (bs "h"),
         ([(bs "connection", bs "x-request-id")] : headers).
  vm_compute. split; [discriminate | reflexivity].
Qed.

(** Response headers: what is not hop-by-hop or framing passes unchanged. *)
Lemma client_header_kept status (gz nonempty : bool) raw k :
  mem_str k (K_cl :: K_ce :: hop_headers) = false ->
  (status =? 304) && str_eqb k K_ct = false ->
  mem_str k (connection_listed (if gz then hdel K_ce (resp_canonical raw) else resp_canonical raw)) = false ->
  hvalues k (fst (fst (client_headers status gz nonempty raw))) = hvalues k (resp_canonical raw).
Proof.
  intros Hk H304 Hc. cbn [mem_str] in Hk.
  apply orb_false_iff in Hk as [K1 Hk]. apply orb_false_iff in Hk as [K2 Hhop].
  unfold client_headers. cbn [fst].
  assert (H2 : hvalues k (hdel K_cl (remove_hop_by_hop (if gz then hdel K_ce (resp_canonical raw) else resp_canonical raw)))
               = hvalues k (resp_canonical raw)).
  { rewrite hvalues_hdel_other by auto. rewrite remove_hop_other by auto.
    destruct gz; auto. now apply hvalues_hdel_other. }
  destruct (status =? 304); [|exact H2].
  cbn [andb] in H304. now rewrite hvalues_hdel_other.
Qed.
