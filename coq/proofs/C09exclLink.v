(** C09exclLink.v — the acceptor model/M5lb.v implies the exclusion monitor [c09_excl_ok] (corr/C09rot.v)
    under the side condition [c09_excl_side] (corr/C09excl.v). *)
From KP Require Import model.Base model.Trace model.M5lb proofs.M5lbFacts proofs.M5lbHist proofs.M5lbC01 proofs.M5lbC09
  corr.C09corr corr.C09rot corr.C09excl proofs.M5lbMon.
From Coq Require Import ZifyN ZifyNat ZifyBool.
Local Open Scope nat_scope.

(** * What the monitor sees of the acceptor's state *)

Definition vt (s : state) (t : nat) : option (nat * tstate) :=
  match nget (tgts s) t with Some x => Some (t_lb x, t_st x) | None => None end.
Definition vr (s : state) (lb : nat) : option (list nat) :=
  match nget (bals s) lb with Some b => Some (b_rot b) | None => None end.

Lemma actor_eqb_refl : forall a, actor_eqb a a = true.
Proof. intros [x|x|x|]; cbn; auto using Nat.eqb_refl. Qed.

Lemma actor_eqb_sym : forall a b, actor_eqb a b = actor_eqb b a.
Proof. intros [x|x|x|] [y|y|y|]; cbn; auto using Nat.eqb_sym. Qed.

(** ** events that write nothing the monitor replays *)
Lemma view_keep : forall s e s',
  step s e = Some s' ->
  (forall lb ts, e_k e <> KLbNew lb ts) ->
  (forall t ok prev new, e_k e <> KProbeApply t ok prev new) ->
  (forall t orig new, e_k e <> KStateSet t orig new) ->
  (forall lb hs, e_k e <> KRotation lb hs) ->
  (forall t, vt s' t = vt s t) /\ (forall lb, vr s' lb = vr s lb) /\ owe s' = owe s.
Proof.
  intros s [tm a k] s' H N1 N2 N3 N4. cbn [e_k] in *.
  destruct k;
    try solve [exfalso; eapply N1; reflexivity | exfalso; eapply N2; reflexivity
              | exfalso; eapply N3; reflexivity | exfalso; eapply N4; reflexivity];
    step_inv H; proj_simp; unfold vt, vr; proj_simp; (split; [|split]); try reflexivity; intros.
  all: heap_cases; proj_simp; try reflexivity.
  all: repeat match goal with H : nget ?l ?k = Some _ |- context [nget ?l ?k] => rewrite H end; proj_simp; try reflexivity.
  rewrite mark_restored_get. destruct (nget (bals s) lb) as [b|]; [|reflexivity].
  destruct (nmem lb (n :: opt_list rollout)); reflexivity.
Qed.

(** ** the four events the monitor replays *)
Lemma view_probe : forall s tm a t ok prev new s', step s (mkEv tm a (KProbeApply t ok prev new)) = Some s' ->
  exists lb st, vt s t = Some (lb, st) /\ prev = st /\ new = probe_next st ok /\ owes (owe s) a = false /\
    (forall t0, vt s' t0 = if Nat.eqb t0 t then Some (lb, new) else vt s t0) /\
    (forall lb0, vr s' lb0 = vr s lb0) /\
    owe s' = (if tstate_eqb prev new then owe s else a :: owe s).
Proof.
  intros s tm a t ok prev new s' H. step_inv H; proj_simp; split_ands;
    repeat match goal with H : tstate_eqb _ _ = true |- _ => apply tstate_eqb_eq in H end;
    match goal with H : negb _ = true |- _ => apply negb_true_iff in H end; subst;
    unfold vt, vr; proj_simp;
    match goal with H : nget (tgts _) _ = Some _ |- _ => rewrite H end;
    do 2 eexists; (split; [reflexivity|]); repeat split; auto; intros.
  all: try (rewrite nget_nset; match goal with |- context [Nat.eqb ?u ?v] => destruct (Nat.eqb u v) end; reflexivity).
  all: try (match goal with H : tstate_eqb _ _ = _ |- _ => rewrite H end; reflexivity).
Qed.

Lemma view_stateset : forall s tm a t orig new s', step s (mkEv tm a (KStateSet t orig new)) = Some s' ->
  exists lb, vt s t = Some (lb, orig) /\
    (forall t0, vt s' t0 = if Nat.eqb t0 t then Some (lb, new) else vt s t0) /\
    (forall lb0, vr s' lb0 = vr s lb0) /\ owe s' = owe s.
Proof.
  intros s tm a t orig new s' H. step_inv H; proj_simp;
    repeat match goal with H : tstate_eqb _ _ = true |- _ => apply tstate_eqb_eq in H end; subst;
    unfold vt, vr; proj_simp;
    match goal with H : nget (tgts _) _ = Some _ |- _ => rewrite H end;
    eexists; (split; [reflexivity|]); repeat split; auto; intros.
  all: rewrite nget_nset; match goal with |- context [Nat.eqb ?u ?v] => destruct (Nat.eqb u v) end; try reflexivity.
  all: match goal with |- context [if ?c then _ else _] => destruct c end; reflexivity.
Qed.

Lemma view_rotation : forall s tm a lb hs s', step s (mkEv tm a (KRotation lb hs)) = Some s' ->
  (exists old, vr s lb = Some old) /\
  (forall t, In t hs -> exists lb', vt s t = Some (lb', THealthy)) /\
  (forall t0, vt s' t0 = vt s t0) /\
  (forall lb0, vr s' lb0 = if Nat.eqb lb0 lb then Some hs else vr s lb0) /\
  owe s' = unowe (owe s) a.
Proof.
  intros s tm a lb hs s' H.
  assert (Hh : forall b, nget (bals s) lb = Some b -> nlist_eqb hs (healthy_of (tgts s) (b_ts b)) = true ->
               forall t, In t hs -> exists lb', vt s t = Some (lb', THealthy)).
  { intros b _ He t Hin. apply nlist_eqb_eq in He. subst hs. unfold healthy_of in Hin. apply filter_In in Hin.
    destruct Hin as [_ Hh]. unfold is_healthy in Hh. unfold vt. destruct (nget (tgts s) t) as [x|]; [|discriminate].
    apply tstate_eqb_eq in Hh. rewrite Hh. eauto. }
  step_inv H; proj_simp; unfold vt, vr in *; proj_simp;
    (split; [rewrite Heqo; eauto|]); (split; [eapply Hh; eauto|]); repeat split; intros.
  all: try (rewrite nget_nset; destruct (Nat.eqb lb0 lb); reflexivity).
  all: rewrite nget_nset; destruct (Nat.eqb_spec t0 n); [subst; rewrite Heqo1; reflexivity|reflexivity].
Qed.

Lemma view_lbnew : forall s tm a lb ts s', step s (mkEv tm a (KLbNew lb ts)) = Some s' ->
  vr s lb = None /\ (forall t, In t ts -> vt s t = None) /\
  (forall t0, vt s' t0 = if nmem t0 ts then Some (lb, TAdding) else vt s t0) /\
  (forall lb0, vr s' lb0 = if Nat.eqb lb0 lb then Some [] else vr s lb0) /\
  owe s' = owe s.
Proof.
  intros s tm a lb ts s' H.
  step_inv H; proj_simp; split_ands; unfold vt, vr; proj_simp.
  all: match goal with H : fresh (bals _) _ = true |- _ => apply fresh_none in H; rewrite H end.
  all: split; [reflexivity|]; split;
       [intros t Hin; match goal with H : forallb _ _ = true |- _ => rewrite forallb_forall in H; specialize (H _ Hin);
                        apply fresh_none in H; rewrite H end; reflexivity|].
  all: repeat split; intros.
  all: try (rewrite add_targets_get; destruct (nmem t0 ts); reflexivity).
  all: rewrite nget_nset; destruct (Nat.eqb lb0 lb); reflexivity.
Qed.

(** * The simulation relation *)

Record XR (s : state) (m : mone) : Prop := mkXR {
  x_lb : forall t, nget (e_lb m) t = match vt s t with Some (lb, _) => Some lb | None => None end;
  x_rot : forall lb, nget (e_rot m) lb = vr s lb;
  (* an owed exclusion: the acceptor asks the same goroutine for a rebuild, and the target is not healthy *)
  x_owe : forall a t, In (a, t) (e_owe m) -> owes (owe s) a = true /\ forall lb, vt s t <> Some (lb, THealthy);
  (* a target in the rotation rebuilt last is healthy, draining, or its exclusion is owed *)
  x_cov : forall t lb st hs, vt s t = Some (lb, st) -> vr s lb = Some hs -> nmem t hs = true ->
            st = THealthy \/ st = TDraining \/ exists a, In (a, t) (e_owe m)
}.

Lemma xr_init : XR init (mkME [] [] []).
Proof. constructor; cbn; intros; try reflexivity; try contradiction; discriminate. Qed.

Lemma xr_views : forall s s' m,
  (forall t, vt s' t = vt s t) -> (forall lb, vr s' lb = vr s lb) -> owe s' = owe s -> XR s m -> XR s' m.
Proof.
  intros s s' m Ht Hr Ho HX. constructor.
  - intros t. rewrite Ht. apply (x_lb _ _ HX).
  - intros lb. rewrite Hr. apply (x_rot _ _ HX).
  - intros a t Hin. rewrite Ho. destruct (x_owe _ _ HX _ _ Hin) as [H1 H2]. split; auto. intros lb. rewrite Ht. apply H2.
  - intros t lb st hs H1 H2 H3. rewrite Ht in H1. rewrite Hr in H2. eapply (x_cov _ _ HX); eauto.
Qed.

Lemma set_lb_get : forall ts lb (l : list (nat * nat)) t,
  nget (fold_left (fun l t => nset l t lb) ts l) t = if nmem t ts then Some lb else nget l t.
Proof.
  induction ts as [|t0 r IH]; intros lb l t; cbn [fold_left].
  - reflexivity.
  - rewrite IH. unfold nmem. cbn [existsb]. fold (nmem t r). destruct (nmem t r) eqn:E.
    + now rewrite orb_true_r.
    + rewrite orb_false_r. now rewrite nget_nset.
Qed.

Lemma owes_e_in : forall l a, owes_e l a = true -> exists t, In (a, t) l.
Proof.
  intros l a H. unfold owes_e in H. apply existsb_exists in H. destruct H as [[b t] [Hin Hb]]. cbn in Hb.
  apply actor_eqb_eq in Hb. subst b. eauto.
Qed.

Lemma pending_for_in : forall l t, pending_for l t = true <-> exists a, In (a, t) l.
Proof.
  intros l t. unfold pending_for. rewrite existsb_exists. split.
  - intros [[b t'] [Hin Hb]]. cbn in Hb. apply Nat.eqb_eq in Hb. subst t'. eauto.
  - intros [a Hin]. exists (a, t). split; auto. cbn. apply Nat.eqb_refl.
Qed.

Lemma owes_cons : forall l a b, owes (a :: l) b = actor_eqb b a || owes l b.
Proof. reflexivity. Qed.

Lemma owes_unowe : forall l a b, actor_eqb a b = false -> owes (unowe l a) b = owes l b.
Proof.
  intros l a b Hab. unfold owes, unowe. induction l as [|c l IH]; cbn; auto.
  destruct (actor_eqb a c) eqn:E; cbn.
  - rewrite IH. apply actor_eqb_eq in E. subst c. rewrite actor_eqb_sym, Hab. reflexivity.
  - now rewrite IH.
Qed.

Lemma in_last_rot_view : forall s m t, XR s m ->
  in_last_rot m t = match vt s t with
                    | Some (lb, _) => match vr s lb with Some hs => nmem t hs | None => false end
                    | None => false end.
Proof.
  intros s m t HX. unfold in_last_rot. rewrite (x_lb _ _ HX). destruct (vt s t) as [[lb st]|]; [|reflexivity].
  now rewrite (x_rot _ _ HX).
Qed.

(** the acceptor refuses a probe result of a goroutine that owes a rebuild; so does the monitor *)
Lemma not_owing : forall s m a, XR s m -> owes (owe s) a = false -> owes_e (e_owe m) a = false.
Proof.
  intros s m a HX Ho. destruct (owes_e (e_owe m) a) eqn:E; [|reflexivity].
  destruct (owes_e_in _ _ E) as [t Hin]. destruct (x_owe _ _ HX _ _ Hin) as [H1 _]. congruence.
Qed.

Lemma sim_excl : forall s e s' m, XR s m -> step s e = Some s' -> side_bad m e = false ->
  excl_step m e = Some (excl_next m e) /\ XR s' (excl_next m e).
Proof.
  intros s [tm a k] s' m HX H Hside.
  destruct k; try (split; [reflexivity|];
                   destruct (view_keep _ _ _ H) as [Ht [Hr Ho]]; try (cbn; intros; discriminate);
                   eapply xr_views; eauto; fail).
  - (* KLbNew *)
    destruct (view_lbnew _ _ _ _ _ _ H) as [Hnone [Hfr [Ht [Hr Ho]]]].
    split; [reflexivity|]. unfold excl_next; cbn [e_k]. constructor; cbn [e_lb e_rot e_owe].
    + intros t. rewrite set_lb_get, Ht. destruct (nmem t targets); [reflexivity|apply (x_lb _ _ HX)].
    + intros lb0. rewrite nget_nset, Hr. destruct (Nat.eqb lb0 lb); [reflexivity|apply (x_rot _ _ HX)].
    + intros b t Hin. rewrite Ho. destruct (x_owe _ _ HX _ _ Hin) as [H1 H2]. split; auto.
      intros lb0. rewrite Ht. destruct (nmem t targets); [discriminate|apply H2].
    + intros t lb0 st hs H1 H2 H3. rewrite Ht in H1. rewrite Hr in H2.
      destruct (nmem t targets) eqn:E.
      * inversion H1; subst lb0 st. rewrite Nat.eqb_refl in H2. inversion H2; subst hs. discriminate H3.
      * destruct (Nat.eqb_spec lb0 lb) as [->|Hne].
        -- inversion H2; subst hs. discriminate H3.
        -- eapply (x_cov _ _ HX); eauto.
  - (* KRotation *)
    destruct (view_rotation _ _ _ _ _ _ H) as [[old Hold] [Hh [Ht [Hr Ho]]]].
    assert (Hchk : existsb (fun p => actor_eqb a (fst p) && nmem (snd p) healthy) (e_owe m) = false).
    { destruct (existsb _ (e_owe m)) eqn:E; [|reflexivity]. apply existsb_exists in E.
      destruct E as [[b t] [Hin Hb]]. cbn in Hb. apply andb_prop in Hb. destruct Hb as [_ Hb].
      apply nmem_In in Hb. destruct (Hh _ Hb) as [lb' Hv]. destruct (x_owe _ _ HX _ _ Hin) as [_ H2].
      exfalso. eapply H2; eauto. }
    split; [unfold excl_step, excl_next; cbn [e_k e_by]; now rewrite Hchk|].
    unfold excl_next; cbn [e_k e_by]. constructor; cbn [e_lb e_rot e_owe].
    + intros t. rewrite Ht. apply (x_lb _ _ HX).
    + intros lb0. rewrite nget_nset, Hr. destruct (Nat.eqb lb0 lb); [reflexivity|apply (x_rot _ _ HX)].
    + intros b t Hin. apply filter_In in Hin. destruct Hin as [Hin Hb]. cbn in Hb. apply negb_true_iff in Hb.
      destruct (x_owe _ _ HX _ _ Hin) as [H1 H2]. split.
      * rewrite Ho, owes_unowe; auto.
      * intros lb0. rewrite Ht. apply H2.
    + intros t lb0 st hs H1 H2 H3. rewrite Ht in H1. rewrite Hr in H2.
      destruct (Nat.eqb_spec lb0 lb) as [->|Hne].
      * inversion H2; subst hs. apply nmem_In in H3. destruct (Hh _ H3) as [lb' Hv]. left. congruence.
      * destruct (x_cov _ _ HX _ _ _ _ H1 H2 H3) as [Hs|[Hs|[b Hin]]]; auto.
        right; right. exists b. apply filter_In. split; auto. cbn. apply negb_true_iff.
        destruct (actor_eqb a b) eqn:Eab; [|reflexivity]. exfalso.
        (* w4: a goroutine that owes the exclusion of t rebuilds t's balancer *)
        unfold side_bad in Hside; cbn [e_k e_by] in Hside.
        assert (Hex : existsb (fun p => actor_eqb a (fst p)
                        && negb (match nget (e_lb m) (snd p) with Some lb' => Nat.eqb lb' lb | None => false end))
                        (e_owe m) = true).
        { apply existsb_exists. exists (b, t). split; auto. cbn [fst snd]. rewrite Eab. cbn.
          rewrite (x_lb _ _ HX), H1. apply negb_true_iff. now apply Nat.eqb_neq. }
        congruence.
  - (* KProbeApply *)
    destruct (view_probe _ _ _ _ _ _ _ _ H) as [lb [st [Hv [Hprev [Hnew [Hno [Ht [Hr Ho]]]]]]]].
    pose proof (not_owing _ _ _ HX Hno) as Hnoe. subst st new.
    unfold side_bad in Hside; cbn [e_k e_by] in Hside.
    (* w3: no other goroutine owes the exclusion of t; this one owes nothing: nobody does *)
    assert (Hnop : forall b, ~ In (b, t) (e_owe m)).
    { intros b Hin. destruct (actor_eqb a b) eqn:Eab.
      - apply actor_eqb_eq in Eab. subst b. destruct (x_owe _ _ HX _ _ Hin) as [H1 _]. congruence.
      - assert (Hex : existsb (fun p => Nat.eqb t (snd p) && negb (actor_eqb a (fst p))) (e_owe m) = true).
        { apply existsb_exists. exists (b, t). split; auto. cbn [fst snd]. now rewrite Nat.eqb_refl, Eab. }
        congruence. }
    assert (Howes : forall b, owes (owe s) b = true -> owes (owe s') b = true).
    { intros b Hb. rewrite Ho. destruct (tstate_eqb prev (probe_next prev ok)); auto. rewrite owes_cons, Hb. apply orb_true_r. }
    unfold excl_step, excl_next; cbn [e_k e_by]. rewrite Hnoe.
    destruct (ok || tstate_eqb (probe_next prev ok) TDraining) eqn:Eskip.
    + (* a successful result, or a failing one on a draining target *)
      split; [reflexivity|]. constructor.
      * intros t0. rewrite Ht. destruct (Nat.eqb_spec t0 t) as [->|Hne]; [|apply (x_lb _ _ HX)].
        rewrite (x_lb _ _ HX), Hv. reflexivity.
      * intros lb0. rewrite Hr. apply (x_rot _ _ HX).
      * intros b t0 Hin. destruct (x_owe _ _ HX _ _ Hin) as [H1 H2]. split; auto.
        intros lb0. rewrite Ht. destruct (Nat.eqb_spec t0 t) as [->|Hne]; [|apply H2].
        exfalso. eapply Hnop; eauto.
      * intros t0 lb0 st0 hs H1 H2 H3. rewrite Ht in H1. rewrite Hr in H2.
        destruct (Nat.eqb_spec t0 t) as [->|Hne]; [|eapply (x_cov _ _ HX); eauto].
        inversion H1; subst lb0 st0. destruct ok.
        -- left. reflexivity.
        -- cbn in Eskip. apply tstate_eqb_eq in Eskip. auto.
    + apply orb_false_iff in Eskip. destruct Eskip as [-> Hnd]. apply tstate_eqb_neq in Hnd.
      fold (in_last_rot m t). rewrite (in_last_rot_view _ _ _ HX), Hv.
      destruct (match vr s lb with Some hs => nmem t hs | None => false end) eqn:Erot.
      * (* in the rotation: the target was healthy (otherwise its exclusion would be owed), so the acceptor's
           goroutine owes the rebuild as well *)
        destruct (vr s lb) as [hs|] eqn:Evr; [|discriminate].
        assert (Hst : prev = THealthy).
        { destruct (x_cov _ _ HX _ _ _ _ Hv Evr Erot) as [Hs|[Hs|[b Hin]]]; auto.
          - exfalso. apply Hnd. rewrite Hs. reflexivity.
          - exfalso. eapply Hnop; eauto. }
        subst prev. cbn [probe_next] in *. cbn [tstate_eqb] in Ho.
        split; [reflexivity|]. constructor; cbn [e_lb e_rot e_owe].
        -- intros t0. rewrite Ht. destruct (Nat.eqb_spec t0 t) as [->|Hne]; [|apply (x_lb _ _ HX)].
           rewrite (x_lb _ _ HX), Hv. reflexivity.
        -- intros lb0. rewrite Hr. apply (x_rot _ _ HX).
        -- intros b t0 [Heq|Hin].
           ++ inversion Heq; subst b t0. split.
              ** rewrite Ho, owes_cons, actor_eqb_refl. reflexivity.
              ** intros lb0. rewrite Ht, Nat.eqb_refl. discriminate.
           ++ destruct (x_owe _ _ HX _ _ Hin) as [H1 H2]. split; auto.
              intros lb0. rewrite Ht. destruct (Nat.eqb_spec t0 t) as [->|Hne]; [discriminate|apply H2].
        -- intros t0 lb0 st0 hs0 H1 H2 H3. rewrite Ht in H1. rewrite Hr in H2.
           destruct (Nat.eqb_spec t0 t) as [->|Hne].
           ++ right; right. exists a. now left.
           ++ destruct (x_cov _ _ HX _ _ _ _ H1 H2 H3) as [Hs|[Hs|[b Hin]]]; auto.
              right; right. exists b. now right.
      * (* not in the rotation *)
        split; [reflexivity|]. constructor.
        -- intros t0. rewrite Ht. destruct (Nat.eqb_spec t0 t) as [->|Hne]; [|apply (x_lb _ _ HX)].
           rewrite (x_lb _ _ HX), Hv. reflexivity.
        -- intros lb0. rewrite Hr. apply (x_rot _ _ HX).
        -- intros b t0 Hin. destruct (x_owe _ _ HX _ _ Hin) as [H1 H2]. split; auto.
           intros lb0. rewrite Ht. destruct (Nat.eqb_spec t0 t) as [->|Hne]; [|apply H2].
           exfalso. eapply Hnop; eauto.
        -- intros t0 lb0 st0 hs H1 H2 H3. rewrite Ht in H1. rewrite Hr in H2.
           destruct (Nat.eqb_spec t0 t) as [->|Hne]; [|eapply (x_cov _ _ HX); eauto].
           inversion H1; subst lb0 st0. rewrite H2, H3 in Erot. discriminate.
  - (* KStateSet *)
    destruct (view_stateset _ _ _ _ _ _ _ H) as [lb [Hv [Ht [Hr Ho]]]].
    split; [reflexivity|]. unfold excl_next; cbn [e_k].
    unfold side_bad in Hside; cbn [e_k] in Hside. constructor.
    + intros t0. rewrite Ht. destruct (Nat.eqb_spec t0 t) as [->|Hne]; [|apply (x_lb _ _ HX)].
      rewrite (x_lb _ _ HX), Hv. reflexivity.
    + intros lb0. rewrite Hr. apply (x_rot _ _ HX).
    + intros b t0 Hin. rewrite Ho. destruct (x_owe _ _ HX _ _ Hin) as [H1 H2]. split; auto.
      intros lb0. rewrite Ht. destruct (Nat.eqb_spec t0 t) as [->|Hne]; [|apply H2].
      (* w2 *)
      intros Heq. inversion Heq; subst new.
      assert (Hp : pending_for (e_owe m) t = true) by (apply pending_for_in; eauto). congruence.
    + intros t0 lb0 st0 hs H1 H2 H3. rewrite Ht in H1. rewrite Hr in H2.
      destruct (Nat.eqb_spec t0 t) as [->|Hne]; [|eapply (x_cov _ _ HX); eauto].
      inversion H1; subst lb0 st0.
      (* w1 *)
      assert (Hin : in_last_rot m t = true) by (rewrite (in_last_rot_view _ _ _ HX), Hv, H2; exact H3).
      destruct new; auto; rewrite Hin in Hside; cbn in Hside; apply negb_false_iff in Hside;
        apply pending_for_in in Hside; auto.
Qed.

Lemma sim_excl_run : forall tr s0 m0 s1 m1, XR s0 m0 -> run step s0 tr = Some s1 -> run xs_step m0 tr = Some m1 ->
  run excl_step m0 tr = Some m1 /\ XR s1 m1.
Proof.
  induction tr as [|e tr IH]; intros s0 m0 s1 m1 HX Hrun Hside; cbn in *.
  - inversion Hrun; inversion Hside; subst. auto.
  - destruct (step s0 e) as [s2|] eqn:E; [|discriminate].
    unfold xs_step in Hside at 1. destruct (side_bad m0 e) eqn:Eb; [discriminate|].
    destruct (sim_excl _ _ _ _ HX E Eb) as [Hm HX2]. rewrite Hm. eapply IH; eauto.
Qed.

(** the acceptor implies the exclusion monitor, under the side condition *)
Theorem accepted_c09_excl_ok : forall tr, accepted tr = true -> c09_excl_side tr = true -> c09_excl_ok tr = true.
Proof.
  intros tr H Hs. unfold accepted in H. destruct (run step init tr) as [s|] eqn:E; [|discriminate].
  unfold c09_excl_side in Hs. destruct (run xs_step (mkME [] [] []) tr) as [m|] eqn:Es; [|discriminate].
  destruct (sim_excl_run _ _ _ _ _ xr_init E Es) as [Hm _]. unfold c09_excl_ok. now rewrite Hm.
Qed.

Print Assumptions accepted_c09_excl_ok.

(** * The acceptor before the previous state was pinned

    [step_loose]: model/M5lb.v with the rule of KProbeApply as it was before the requirement [prev = t_st x] (the
    reported previous state was trusted, except on the becameHealthy branch); every other rule is [step]'s.  Used only
    to state that the tightening removes behaviours, and which ([props/C09excl.v], the refutation witness). *)
Definition step_loose (s : state) (e : event) : option state :=
  match e_k e with
  | KProbeApply t ok prev new =>
    let a := e_by e in
    match nget (tgts s) t with
    | Some x =>
      if tstate_eqb new (probe_next (t_st x) ok) && negb (owes (owe s) a) then
        let s1 := if tstate_eqb prev new then s else set_owe s (a :: owe s) in
        let x1 := tg_st (if ok then tg_pok x true else x) new in
        if ok && tstate_eqb (t_st x) TAdding then
          if tstate_eqb prev TAdding then Some (put_t s1 t (tg_by x1 (Some a))) else None
        else Some (put_t s1 t x1)
      else None
    | None => None
    end
  | _ => step s e
  end.

Definition accepted_loose (tr : trace) : bool :=
  match run step_loose init tr with Some _ => true | None => false end.

Lemma step_tight_loose : forall s e s', step s e = Some s' -> step_loose s e = Some s'.
Proof.
  intros s [tm a k] s' H. unfold step_loose. cbn [e_k e_by]. destruct k; try exact H.
  unfold step, step_gen in H. cbn [e_k e_by] in H.
  destruct (nget (tgts s) t) as [x|]; [|discriminate].
  destruct (tstate_eqb prev (t_st x)) eqn:Ep; [|discriminate]. cbn [andb] in H.
  destruct (tstate_eqb new (probe_next (t_st x) ok) && negb (owes (owe s) a)); [|discriminate].
  destruct (ok && tstate_eqb (t_st x) TAdding) eqn:Ea; [|exact H].
  apply andb_prop in Ea. destruct Ea as [_ Ea]. apply tstate_eqb_eq in Ep. apply tstate_eqb_eq in Ea.
  assert (Hp : tstate_eqb prev TAdding = true) by (apply tstate_eqb_eq; congruence).
  rewrite Hp. exact H.
Qed.

Theorem accepted_tight_loose : forall tr, accepted tr = true -> accepted_loose tr = true.
Proof.
  intros tr H. unfold accepted in H. destruct (run step init tr) as [s|] eqn:E; [|discriminate].
  assert (G : forall tr s0 s1, run step s0 tr = Some s1 -> run step_loose s0 tr = Some s1).
  { induction tr0 as [|e tr0 IH]; intros s0 s1 Hr; cbn in *; [exact Hr|].
    destruct (step s0 e) as [s2|] eqn:E2; [|discriminate]. rewrite (step_tight_loose _ _ _ E2). now apply IH. }
  unfold accepted_loose. now rewrite (G _ _ _ E).
Qed.
