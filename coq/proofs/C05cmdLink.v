(** C05cmdLink.v — the sequential machine M4 (model/Seq.v, variant [fixed]) satisfies the
    commanded-ownership monitor [c05_cmd_ok] of corr/C05cmd.v, on EVERY command history.

    proofs/C04cmdLink.v relates the commanded list and the model's services entry by entry, in the same
    order, for deploys without TLS, removes and restarts.  Ownership needs less and holds for more: the
    table [cmd_table l] rebuilt by [cmd_apply] is a PERMUTATION of the model's table
    [table_of (st_services st)] after every command — deploys with or without TLS (a deploy refused for
    certificate, error-page, target-name, health or host reasons is not [OOk]: [cmd_apply] ignores it, the
    model keeps its services), rollout deploys (which re-file the service at the end of the model's list:
    the reason for "permutation"), rollout set / stop, pause / stop / resume (the bindings of a service are
    untouched), removes and restarts.  [pair_owned_once] is invariant under permutation and holds of every
    reachable model table (proofs/ServiceMapFacts.v [reachable_ok]). *)
From KP Require Import model.Base model.ServiceMap model.Seq corr.M4corr corr.C04cmd corr.C05cmd
  proofs.SeqFacts proofs.SeqInv proofs.M4Link proofs.M4LinkC05 proofs.C04cmdLink.
From KP Require proofs.ServiceMapFacts.
From Coq Require Import Permutation.
Local Open Scope N_scope.

(** ** Tables, removal, permutation *)

Definition keep (n : str) (b : binding_info) : bool := negb (str_eqb (bi_name b) n).

Lemma cmd_table_remove n l : cmd_table (cs_remove n l) = filter (keep n) (cmd_table l).
Proof.
  unfold cmd_table, cs_remove, keep. induction l as [|c l IH]; cbn [filter map]; [reflexivity|].
  cbn [bi_name]. destruct (negb (str_eqb (cs_name c) n)); cbn [map]; now rewrite IH.
Qed.

Lemma table_of_remove l n : table_of (svc_remove l n) = filter (keep n) (table_of l).
Proof.
  unfold table_of, keep. induction l as [|s l IH]; cbn [filter map svc_remove]; [reflexivity|].
  cbn [bi_of bi_name]. destruct (str_eqb (s_name s) n); cbn [negb map]; now rewrite IH.
Qed.

Lemma cmd_table_app a b : cmd_table (a ++ b) = cmd_table a ++ cmd_table b.
Proof. apply map_app. Qed.

Lemma table_of_app a b : table_of (a ++ b) = table_of a ++ table_of b.
Proof. apply map_app. Qed.

Lemma Permutation_filter {A} (f : A -> bool) l1 l2 : Permutation l1 l2 -> Permutation (filter f l1) (filter f l2).
Proof.
  induction 1 as [|x l1 l2 H IH|x y l|l1 l2 l3 H1 IH1 H2 IH2]; cbn [filter].
  - constructor.
  - destruct (f x); [now constructor|exact IH].
  - destruct (f x), (f y); try apply Permutation_refl. apply perm_swap.
  - now transitivity (filter f l2).
Qed.

(** The commanded table is the model's table up to order. *)
Definition TRel (l : list cmd_svc) (svcs : list service) : Prop := Permutation (cmd_table l) (table_of svcs).

Lemma TRel_nil : TRel [] [].
Proof. constructor. Qed.

Lemma TRel_remove l svcs n : TRel l svcs -> TRel (cs_remove n l) (svc_remove svcs n).
Proof. unfold TRel. intros H. rewrite cmd_table_remove, table_of_remove. now apply Permutation_filter. Qed.

Lemma TRel_sync l svcs : TRel l svcs -> TRel l (sync_tls svcs).
Proof. unfold TRel. now rewrite table_sync. Qed.

(** a (re)deploy: the old entry of that name goes, the new one is filed last — on both sides *)
Lemma TRel_install l svcs c s :
  TRel l svcs -> bi_of s = mkBI (cs_name c) (cs_hosts c) (cs_prefixes c) ->
  TRel (cs_remove (cs_name c) l ++ [c]) (install svcs s).
Proof.
  intros H Hb. unfold install. apply TRel_sync. unfold TRel, svc_set.
  rewrite cmd_table_app, table_of_app. apply Permutation_app.
  - replace (s_name s) with (cs_name c) by (change (s_name s) with (bi_name (bi_of s)); now rewrite Hb).
    now apply TRel_remove.
  - cbn [cmd_table table_of map]. now rewrite Hb.
Qed.

(** re-filing a service under the same bindings permutes the table *)
Lemma table_set_same svcs n s s' :
  NoDup (names svcs) -> svc_get svcs n = Some s -> bi_of s' = bi_of s ->
  Permutation (table_of (svc_set svcs s')) (table_of svcs).
Proof.
  intros Hn Hg Hb. unfold svc_set.
  assert (Hname : s_name s' = n).
  { change (s_name s') with (bi_name (bi_of s')). rewrite Hb. cbn. apply (svc_get_some _ _ _ Hg). }
  rewrite Hname. clear Hname. rewrite table_of_app. cbn [table_of map]. rewrite Hb.
  induction svcs as [|x r IH]; [discriminate Hg|].
  cbn [svc_get] in Hg. cbn [svc_remove]. unfold names in Hn. cbn [map] in Hn.
  apply NoDup_cons_iff in Hn. destruct Hn as [Hx Hr].
  destruct (str_eqb (s_name x) n) eqn:E.
  - injection Hg as ->. str_cases. subst n. rewrite svc_remove_notin by exact Hx.
    change (table_of (s :: r)) with (bi_of s :: table_of r). apply Permutation_sym, Permutation_cons_append.
  - change (table_of (x :: svc_remove r n)) with (bi_of x :: table_of (svc_remove r n)).
    change (table_of (x :: r)) with (bi_of x :: table_of r). cbn [app]. apply perm_skip. now apply IH.
Qed.

Lemma TRel_refile l svcs n s s' :
  NoDup (names svcs) -> svc_get svcs n = Some s -> bi_of s' = bi_of s ->
  TRel l svcs -> TRel l (install svcs s').
Proof.
  intros Hn Hg Hb H. unfold install. apply TRel_sync. unfold TRel.
  transitivity (table_of svcs); [exact H|]. apply Permutation_sym. now apply (table_set_same svcs n s s').
Qed.

Lemma TRel_replace l st n s s' :
  NoDup (names (st_services st)) -> svc_get (st_services st) n = Some s ->
  s_name s' = s_name s -> s_opts s' = s_opts s ->
  TRel l (st_services st) -> TRel l (st_services (save (replace_svc st s'))).
Proof.
  intros Hn Hg H1 H2 H. unfold TRel. cbn [save replace_svc st_services].
  change (map (fun x => if str_eqb (s_name x) (s_name s') then s' else x) (st_services st))
    with (map (repl s') (st_services st)).
  now rewrite (table_repl _ n s s' Hn Hg H1 H2).
Qed.

(** ** One command *)

Lemma apply_rc_err l e c : apply_rc l (OErr e) c = l.
Proof. reflexivity. Qed.

Lemma apply_rc_panic l c : apply_rc l OPanic c = l.
Proof. reflexivity. Qed.

Lemma apply_rc_ok_deploy l n o t ts :
  apply_rc l OOk (Deploy n o t ts) =
  cs_remove n l ++ [mkCS n (normalize_hosts (o_hosts o)) (normalize_prefixes (o_prefixes o)) (map tg_name ts)].
Proof. reflexivity. Qed.

Lemma Inv_nodup st : Inv st -> NoDup (names (st_services st)).
Proof. intros [((H & _) & _) _]. exact H. Qed.

Lemma step_trel st l c :
  Inv st -> TRel l (st_services st) ->
  TRel (apply_rc l (res_obs_of (fst (exec fixed st c))) c) (st_services (snd (exec fixed st c))).
Proof.
  intros HI HR. pose proof (Inv_nodup st HI) as Hnd.
  destruct c as [name o t targets|name targets|name pct allow|name|name fa|name msg|name|name|];
    cbn [exec]; unfold on_service.
  - (* Deploy, with or without TLS *)
    destruct (init_check fixed (normalize o)) as [e|]; [exact HR|].
    rewrite deploy_into_fixed. cbv zeta.
    destruct (negb (forallb valid_target_name _)); [exact HR|].
    destruct (negb (forallb tg_healthy _)); [exact HR|].
    destruct (conflicts _ _ _ _); [exact HR|].
    cbn [fst snd res_obs_of save st_services]. rewrite apply_rc_ok_deploy.
    set (c := mkCS name (normalize_hosts (o_hosts o)) (normalize_prefixes (o_prefixes o)) (map tg_name targets)).
    change (cs_remove name l) with (cs_remove (cs_name c) l).
    apply TRel_install; [exact HR|]. now destruct (svc_get (st_services st) name).
  - (* RolloutDeploy: the service is re-filed last, with its bindings *)
    destruct (svc_get (st_services st) name) as [s|] eqn:Eg; [|exact HR].
    rewrite deploy_into_fixed. cbv zeta.
    destruct (negb (forallb valid_target_name _)); [exact HR|].
    destruct (negb (forallb tg_healthy _)); [exact HR|].
    destruct (conflicts _ _ _ _); [exact HR|].
    cbn [fst snd res_obs_of save st_services]. change (apply_rc l OOk (RolloutDeploy name targets)) with l.
    now apply (TRel_refile l (st_services st) name s).
  - (* RolloutSet *)
    destruct (svc_get (st_services st) name) as [s|] eqn:Eg; [|exact HR].
    destruct (s_rollout s); [|exact HR]. cbn [fst snd res_obs_of].
    change (apply_rc l OOk (RolloutSet name pct allow)) with l.
    now apply (TRel_replace l st name s).
  - (* RolloutStop *)
    destruct (svc_get (st_services st) name) as [s|] eqn:Eg; [|exact HR]. cbn [fst snd res_obs_of].
    change (apply_rc l OOk (RolloutStop name)) with l.
    now apply (TRel_replace l st name s).
  - (* Pause *)
    destruct (svc_get (st_services st) name) as [s|] eqn:Eg; [|exact HR]. cbn [fst snd res_obs_of].
    change (apply_rc l OOk (Pause name fa)) with l.
    now apply (TRel_replace l st name s).
  - (* Stop *)
    destruct (svc_get (st_services st) name) as [s|] eqn:Eg; [|exact HR].
    unfold set_pause_state. destruct (_ && _); [exact HR|]. cbn [fst snd res_obs_of].
    change (apply_rc l OOk (Stop name msg)) with l.
    now apply (TRel_replace l st name s).
  - (* Resume *)
    destruct (svc_get (st_services st) name) as [s|] eqn:Eg; [|exact HR].
    unfold set_pause_state. destruct (_ && _); [exact HR|]. cbn [fst snd res_obs_of].
    change (apply_rc l OOk (Resume name)) with l.
    now apply (TRel_replace l st name s).
  - (* Remove *)
    destruct (svc_get (st_services st) name) as [s|]; [|exact HR].
    cbn [fst snd res_obs_of save st_services]. change (apply_rc l OOk (Remove name)) with (cs_remove name l).
    apply TRel_sync. now apply TRel_remove.
  - (* Restart *)
    cbn [fst snd]. rewrite restart_fixed by exact HI. exact HR.
Qed.

(** ** Whole histories *)

Lemma owned_of_trel l st :
  reachable fixed st -> TRel l (st_services st) -> pair_owned_once (cmd_table l) = true.
Proof.
  intros [cs ->] HR. rewrite (pair_owned_once_perm _ _ HR).
  destruct (ServiceMapFacts.reachable_ok fixed cs) as (H & _). exact H.
Qed.

Lemma c05_cmd_from_model ig reqs cs : forall st l,
  reachable fixed st -> TRel l (st_services st) ->
  c05_cmd_from l (model_history_from ig fixed st cs reqs) = true.
Proof.
  induction cs as [|c cs IH]; intros st l Hre HR; [reflexivity|].
  rewrite model_history_cons. cbn [c05_cmd_from]. rewrite cmd_apply_state_obs.
  pose proof (step_trel st l c (reachable_inv st Hre) HR) as HR'.
  pose proof (reachable_step fixed st c Hre) as Hre'.
  rewrite (owned_of_trel _ _ Hre' HR'). cbn [andb]. now apply IH.
Qed.

(** The link: no hypothesis on the commands, none on the requests. *)
Lemma c05_cmd_of_model ig cs reqs : c05_cmd_ok (model_history ig fixed cs reqs) = true.
Proof.
  unfold c05_cmd_ok, model_history. apply c05_cmd_from_model; [now exists []|apply TRel_nil].
Qed.

Lemma c05_cmd_of_model_steps ig crs : forall st l,
  reachable fixed st -> TRel l (st_services st) ->
  c05_cmd_from l (model_history_steps_from ig fixed st crs) = true.
Proof.
  induction crs as [|[c reqs] crs IH]; intros st l Hre HR; [reflexivity|].
  rewrite model_history_steps_cons. cbn [c05_cmd_from]. rewrite cmd_apply_state_obs.
  pose proof (step_trel st l c (reachable_inv st Hre) HR) as HR'.
  pose proof (reachable_step fixed st c Hre) as Hre'.
  rewrite (owned_of_trel _ _ Hre' HR'). cbn [andb]. now apply IH.
Qed.

Lemma c05_cmd_of_model_per_step ig crs : c05_cmd_ok (model_history_steps ig fixed crs) = true.
Proof.
  unfold c05_cmd_ok, model_history_steps. apply c05_cmd_of_model_steps; [now exists []|apply TRel_nil].
Qed.

(** The invariant for whole histories: the commanded table is the model's table up to order. *)
Lemma cmd_list_trel ig reqs cs : forall st l,
  Inv st -> TRel l (st_services st) ->
  TRel (cmd_list_from l (model_history_from ig fixed st cs reqs)) (st_services (exec_all fixed st cs)).
Proof.
  induction cs as [|c cs IH]; intros st l HI HR; [exact HR|].
  rewrite model_history_cons. cbn [cmd_list_from fold_left exec_all]. rewrite cmd_apply_state_obs.
  apply IH; [now apply exec_inv|now apply step_trel].
Qed.

Lemma cmd_table_perm_model ig cs reqs :
  Permutation (cmd_table (cmd_list_of (model_history ig fixed cs reqs)))
              (table_of (st_services (exec_all fixed init_state cs))).
Proof. apply cmd_list_trel; [apply Inv_init|apply TRel_nil]. Qed.

(** Hence the routing rule gives the same answer on both tables (order-free: ownership is pair-wise distinct). *)
Lemma cmd_route_model ig cs reqs host path :
  route (cmd_table (cmd_list_of (model_history ig fixed cs reqs))) host path =
  route (table_of (st_services (exec_all fixed init_state cs))) host path.
Proof.
  pose proof (cmd_table_perm_model ig cs reqs) as P.
  destruct (ServiceMapFacts.reachable_wf fixed cs) as (Ho & Hn & _).
  symmetry. apply (ServiceMapFacts.table_order_free _ _ (Permutation_sym P) Ho Hn).
Qed.

(** ** The monitor reads the property *)

(** service [n] claims (host, prefix) in the commanded list *)
Definition cmd_owns (l : list cmd_svc) (h p n : str) : Prop :=
  exists c, In c l /\ cs_name c = n /\ In h (cs_hosts c) /\ In p (cs_prefixes c).

Definition no_double_owner (l : list cmd_svc) : Prop :=
  forall h p n1 n2, cmd_owns l h p n1 -> cmd_owns l h p n2 -> n1 = n2.

Lemma cmd_owns_binds l h p n : cmd_owns l h p n <-> ServiceMapFacts.binds (cmd_table l) h p n.
Proof.
  unfold cmd_owns, ServiceMapFacts.binds, cmd_table. split.
  - intros (c & Hc & Hn & Hh & Hp). exists (mkBI (cs_name c) (cs_hosts c) (cs_prefixes c)).
    split; [apply in_map_iff; now exists c|]. cbn. auto.
  - intros (b & Hb & Hn & Hh & Hp). apply in_map_iff in Hb. destruct Hb as (c & <- & Hc).
    exists c. cbn in *. auto.
Qed.

Lemma owned_once_no_double l : pair_owned_once (cmd_table l) = true <-> no_double_owner l.
Proof.
  rewrite ServiceMapFacts.pair_owned_once_iff. unfold ServiceMapFacts.owned_once, no_double_owner.
  split; intros H h p n1 n2 H1 H2; apply (H h p n1 n2); now apply cmd_owns_binds.
Qed.

Lemma cmd_list_from_app l a b : cmd_list_from l (a ++ b) = cmd_list_from (cmd_list_from l a) b.
Proof. apply fold_left_app. Qed.

Lemma c05_cmd_from_iff h : forall l,
  c05_cmd_from l h = true <->
  forall k, (1 <= k <= length h)%nat -> no_double_owner (cmd_list_from l (firstn k h)).
Proof.
  induction h as [|o h IH]; intros l; cbn [c05_cmd_from].
  - split; [|reflexivity]. intros _ k [H1 H2]. cbn in H2. exfalso. apply (Nat.nle_succ_0 0). now transitivity k.
  - rewrite andb_true_iff, owned_once_no_double, IH. split.
    + intros [H0 H] [|k] [Hk1 Hk2]; [exfalso; now apply (Nat.nle_succ_0 0)|].
      cbn [firstn cmd_list_from fold_left]. destruct k as [|k]; [exact H0|].
      apply (H (S k)). cbn [length] in Hk2. split; [apply le_n_S, Nat.le_0_l|now apply le_S_n].
    + intros H. split.
      * apply (H 1%nat). cbn [length]. split; [apply le_n|apply le_n_S, Nat.le_0_l].
      * intros k [Hk1 Hk2]. apply (H (S k)). cbn [length]. split; [apply le_n_S, Nat.le_0_l|now apply le_n_S].
Qed.

(** [c05_cmd_ok] says: after every step, no pair has two owners in the commanded list. *)
Lemma c05_cmd_ok_iff h :
  c05_cmd_ok h = true <-> forall k, no_double_owner (cmd_list_of (firstn k h)).
Proof.
  unfold c05_cmd_ok, cmd_list_of. rewrite c05_cmd_from_iff. split.
  - intros H k. destruct k as [|k]; [intros ? ? ? ? (c & [] & _)|].
    destruct (Nat.le_gt_cases (S k) (length h)) as [Hle|Hgt].
    + apply H. split; [apply le_n_S, Nat.le_0_l|exact Hle].
    + rewrite firstn_all2 by now apply Nat.lt_le_incl.
      destruct h as [|o h]; [intros ? ? ? ? (c & [] & _)|].
      rewrite <- (firstn_all (o :: h)). apply H. cbn [length]. split; [apply le_n_S, Nat.le_0_l|apply le_n].
  - intros H k _. apply H.
Qed.

Lemma c05_cmd_ok_no_double h k : c05_cmd_ok h = true -> no_double_owner (cmd_list_of (firstn k h)).
Proof. intros H. now apply c05_cmd_ok_iff. Qed.

(** Where the entries of the commanded list come from: an entry is the last successful deploy of its name,
    hosts as commanded ([] = the default host), prefixes normalised as documented. *)
Definition from_deploy (h : list step_obs) (c : cmd_svc) : Prop :=
  exists o op t ts, In o h /\ so_result o = OOk /\ so_cmd o = Deploy (cs_name c) op t ts /\
    cs_hosts c = normalize_hosts (o_hosts op) /\ cs_prefixes c = normalize_prefixes (o_prefixes op) /\
    cs_targets c = map tg_name ts.

Lemma in_cs_remove n l c : In c (cs_remove n l) -> In c l.
Proof. unfold cs_remove. intros H. now apply filter_In in H. Qed.

Lemma cmd_list_from_origin h : forall l c,
  In c (cmd_list_from l h) -> In c l \/ from_deploy h c.
Proof.
  induction h as [|o h IH]; intros l c Hc; [now left|].
  cbn [cmd_list_from fold_left] in Hc. apply IH in Hc. destruct Hc as [Hc|Hc].
  - unfold cmd_apply in Hc. destruct (so_result o) eqn:Er; try (now left).
    destruct (so_cmd o) as [name op t ts| | | | | | |name|] eqn:Ec; try (now left).
    + apply in_app_or in Hc. destruct Hc as [Hc|[<-|[]]]; [left; now apply in_cs_remove in Hc|].
      right. exists o, op, t, ts. cbn [cs_name cs_hosts cs_prefixes cs_targets].
      split; [now left|]. split; [exact Er|]. split; [exact Ec|]. repeat split.
    + left. now apply in_cs_remove in Hc.
  - right. destruct Hc as (o' & op & t & ts & Hin & Hrest). exists o', op, t, ts. split; [now right|exact Hrest].
Qed.

Lemma cmd_list_of_origin h c : In c (cmd_list_of h) -> from_deploy h c.
Proof. intros H. apply cmd_list_from_origin in H. destruct H as [[]|H]. exact H. Qed.

(** ** On the tree as given ([pinned]) the statement is false: D17

    A sub-path service inherits the TLS flag of the root service of its host; with a wildcard host the
    pinned restore asks for a certificate manager, fails, and the proxy comes up EMPTY: the next deploy of
    another service on a pair that is still commanded succeeds. *)
Definition d17_tls : sopts := mkSopts [bs "*.example.com"] [] true false CertGood PagesNone false.
Definition d17_sub : sopts := mkSopts [bs "*.example.com"] [bs "/api"] false false CertNone PagesNone false.
Definition d17_t : topts := mkTopts (bs "/up") 0.
Definition d17_cs : list cmd :=
  [ Deploy (bs "root") d17_tls d17_t [mkTgt (bs "root-1") true];
    Deploy (bs "api") d17_sub d17_t [mkTgt (bs "api-1") true];
    Restart;
    Deploy (bs "thief") d17_sub d17_t [mkTgt (bs "thief-1") true] ].

Lemma c05_cmd_of_model_pinned_refuted :
  exists ig cs reqs, c05_cmd_ok (model_history ig pinned cs reqs) = false.
Proof. exists rf_ig, d17_cs, []. vm_compute. reflexivity. Qed.
