(** SnapFsFacts.v — the file-system projection of the repaired snapshot steps
    (model/M5snap.v: fs_of_trace) satisfies the inotify monitor
    (corr/C12corr.v: c12_fs_ok). *)
From KP Require Import model.Base model.Trace model.M5snap corr.C12corr.

Lemma fs_failures_nil : forall evs seen n,
  (forall k, In (k, FsLive) evs -> k = FsMovedTo) -> fs_failures seen evs n = [].
Proof.
  intros evs. induction evs as [|[k nm] evs IH]; intros seen n H; [reflexivity|].
  assert (Hrest : forall k', In (k', FsLive) evs -> k' = FsMovedTo) by (intros k' Hin; apply H; right; exact Hin).
  cbn [fs_failures]. destruct nm.
  - assert (k = FsMovedTo) by (apply H; left; reflexivity). subst k.
    destruct seen; cbn; apply IH; exact Hrest.
  - apply IH. exact Hrest.
Qed.

Lemma fs_of_trace_live : forall tr k, In (k, FsLive) (fs_of_trace tr) -> k = FsMovedTo.
Proof.
  intros tr k H. unfold fs_of_trace in H. apply in_flat_map in H. destruct H as [e [_ H]].
  destruct (read e); cbn in H; repeat (destruct H as [H|H]; [inversion H; reflexivity || discriminate|]); try contradiction.
Qed.

Theorem fs_projection_ok : forall tr, c12_fs_ok (fs_of_trace tr) = true.
Proof.
  intros tr. unfold c12_fs_ok, c12_fs_failures. rewrite fs_failures_nil; [reflexivity|apply fs_of_trace_live].
Qed.
