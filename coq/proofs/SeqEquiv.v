(** SeqEquiv.v — observational equivalence of M4 states and property C11:
    a restart yields an equivalent state, and equivalence is a bisimulation
    for every command (variant [fixed]). *)
From KP Require Import model.Base model.ServiceMap model.Seq corr.M4corr proofs.SeqFacts proofs.SeqInv.
From Coq Require Import ZifyN ZifyNat ZifyBool Lia.
Local Open Scope N_scope.

(** ** What can be observed of a service

    [snap_of] (corr/M4corr.v): everything that is written to the state file —
    name, hosts, prefixes, TLS flags, strip, whether certificate paths / error
    pages are configured, target options, active and rollout targets, pause
    state + message + max pause, rollout split.  Plus two things that are not
    in the file: whether a paused gate has a nil channel ([p_chan_nil], seen by
    [serve] as RHeld and by Stop/Resume as a panic) and, on root path services
    (the only ones GetCertificate consults), whether a certificate manager
    exists.

    Ignored: [o_cert]/[o_pages] beyond "configured or not" (whether the files
    were readable — an input of the command that deployed the service, read
    again only by a restore), and [s_has_cert] of services that do not serve
    the root path.  None of [serve], [list_services], or [exec] of any command
    other than Restart reads them; Restart reads them from the state file and
    is covered by the invariant. *)
Definition obs_of (s : service) : snap_svc * bool * bool :=
  (snap_of s, p_chan_nil (s_pause s), serves_root s && s_has_cert s).

Definition svcs_equiv (l1 l2 : list service) : Prop := map obs_of l1 = map obs_of l2.

(** Same observable services in the same order; the same multiset of probed
    targets; the same parsed state file. *)
Definition equiv (st1 st2 : state) : Prop :=
  svcs_equiv (st_services st1) (st_services st2) /\
  meq (st_probing st1) (st_probing st2) /\
  option_map (map snap_of) (st_disk st1) = option_map (map snap_of) (st_disk st2).

(** Field-wise form. *)
Record sveq (a b : service) : Prop := mkSveq {
  eq_name : s_name a = s_name b;
  eq_hosts : o_hosts (s_opts a) = o_hosts (s_opts b);
  eq_prefixes : o_prefixes (s_opts a) = o_prefixes (s_opts b);
  eq_tls : o_tls (s_opts a) = o_tls (s_opts b);
  eq_redir : o_tls_redirect (s_opts a) = o_tls_redirect (s_opts b);
  eq_strip : o_strip (s_opts a) = o_strip (s_opts b);
  eq_certp : cert_paths (o_cert (s_opts a)) = cert_paths (o_cert (s_opts b));
  eq_pages : has_pages (o_pages (s_opts a)) = has_pages (o_pages (s_opts b));
  eq_topts : s_topts a = s_topts b;
  eq_active : s_active a = s_active b;
  eq_rollout : s_rollout a = s_rollout b;
  eq_pause : s_pause a = s_pause b;
  eq_roll : s_roll a = s_roll b;
  eq_cert : serves_root a && s_has_cert a = serves_root b && s_has_cert b }.

Lemma pstate_n_inj p q : pstate_n p = pstate_n q -> p = q.
Proof. destruct p, q; cbn; intros H; try reflexivity; discriminate. Qed.

Lemma sveq_of_obs a b : obs_of a = obs_of b -> sveq a b.
Proof.
  destruct a as [n [h p tl rd ce pg sp] [hp tg] ac ro [ps pm pf pc] rl hc].
  destruct b as [n' [h' p' tl' rd' ce' pg' sp'] [hp' tg'] ac' ro' [ps' pm' pf' pc'] rl' hc'].
  unfold obs_of, snap_of. cbn. intros H. injection H as H1 H2 H3 H4 H5 H6 H7 H8 H9 H10 H11 H12 H13 H14 H15 H16 H17 H18.
  apply pstate_n_inj in H13. subst.
  constructor; cbn; try congruence.
  destruct rl as [[pct al]|], rl' as [[pct' al']|]; cbn in *; congruence.
Qed.

Lemma obs_of_sveq a b : sveq a b -> obs_of a = obs_of b.
Proof.
  intros [H1 H2 H3 H4 H5 H6 H7 H8 H9 H10 H11 H12 H13 H14].
  unfold obs_of, snap_of. cbv zeta.
  now rewrite H1, H2, H3, H4, H5, H6, H7, H8, H9, H10, H11, H12, H13, H14.
Qed.

Lemma sveq_refl a : sveq a a.
Proof. now constructor. Qed.

Definition E (l1 l2 : list service) : Prop := Forall2 sveq l1 l2.

Lemma cons_inj {A} (x y : A) l l' : x :: l = y :: l' -> x = y /\ l = l'.
Proof. intros H. injection H as H1 H2. auto. Qed.

Lemma E_of_equiv l1 l2 : svcs_equiv l1 l2 -> E l1 l2.
Proof.
  unfold svcs_equiv, E. revert l2. induction l1 as [|a l1 IH]; intros [|b l2] H; try discriminate.
  - constructor.
  - cbn [map] in H. apply cons_inj in H. destruct H as [H1 H2].
    constructor; [now apply sveq_of_obs|auto].
Qed.

Lemma equiv_of_E l1 l2 : E l1 l2 -> svcs_equiv l1 l2.
Proof.
  unfold svcs_equiv. induction 1 as [|a b l1 l2 Hab Hl IH]; [reflexivity|].
  cbn. now rewrite IH, (obs_of_sveq _ _ Hab).
Qed.

Lemma E_refl l : E l l.
Proof. induction l; constructor; [apply sveq_refl|assumption]. Qed.

Lemma sveq_snap a b : sveq a b -> snap_of a = snap_of b.
Proof. intros H. apply obs_of_sveq in H. unfold obs_of in H. congruence. Qed.

Lemma E_snap l1 l2 : E l1 l2 -> map snap_of l1 = map snap_of l2.
Proof. induction 1 as [|a b l1 l2 Hab Hl IH]; cbn; [reflexivity|]. now rewrite IH, (sveq_snap _ _ Hab). Qed.

Lemma sveq_bi a b : sveq a b -> bi_of a = bi_of b.
Proof. intros H. unfold bi_of. now rewrite (eq_name _ _ H), (eq_hosts _ _ H), (eq_prefixes _ _ H). Qed.

Lemma sveq_root a b : sveq a b -> serves_root a = serves_root b.
Proof. intros H. unfold serves_root. now rewrite (eq_prefixes _ _ H). Qed.

Lemma sveq_targets a b : sveq a b -> svc_targets a = svc_targets b.
Proof. intros H. unfold svc_targets. now rewrite (eq_active _ _ H), (eq_rollout _ _ H). Qed.

Lemma E_table l1 l2 : E l1 l2 -> table_of l1 = table_of l2.
Proof.
  unfold table_of. induction 1 as [|a b l1 l2 Hab Hl IH]; cbn [map]; [reflexivity|].
  now rewrite IH, (sveq_bi _ _ Hab).
Qed.

Lemma E_targets l1 l2 : E l1 l2 -> targets_of l1 = targets_of l2.
Proof.
  rewrite !targets_of_eq. induction 1 as [|a b l1 l2 Hab Hl IH]; cbn; [reflexivity|].
  now rewrite IH, (sveq_targets _ _ Hab).
Qed.

Definition opt_rel {A} (R : A -> A -> Prop) (x y : option A) : Prop :=
  match x, y with Some a, Some b => R a b | None, None => True | _, _ => False end.

Lemma E_get l1 l2 n : E l1 l2 -> opt_rel sveq (svc_get l1 n) (svc_get l2 n).
Proof.
  induction 1 as [|a b l1 l2 Hab Hl IH]; cbn; [exact I|].
  rewrite <- (eq_name _ _ Hab). destruct (str_eqb (s_name a) n); [exact Hab|exact IH].
Qed.

Lemma E_remove l1 l2 n : E l1 l2 -> E (svc_remove l1 n) (svc_remove l2 n).
Proof.
  induction 1 as [|a b l1 l2 Hab Hl IH]; cbn; [constructor|].
  rewrite <- (eq_name _ _ Hab). destruct (str_eqb (s_name a) n); [exact IH|now constructor].
Qed.

Lemma E_set l1 l2 a b : E l1 l2 -> sveq a b -> E (svc_set l1 a) (svc_set l2 b).
Proof.
  intros Hl Hab. unfold svc_set. rewrite <- (eq_name _ _ Hab).
  apply Forall2_app; [now apply E_remove|]. constructor; [assumption|constructor].
Qed.

Lemma E_tls_src l1 l2 h : E l1 l2 -> tls_src l1 h = tls_src l2 h.
Proof.
  intros H. unfold tls_src. rewrite (E_table _ _ H).
  destruct (service_for _ _ _) as [[n p]|]; [|reflexivity].
  pose proof (E_get _ _ n H) as Hg. destruct (svc_get l1 n), (svc_get l2 n); cbn in Hg; try tauto.
  now rewrite (eq_tls _ _ Hg), (eq_redir _ _ Hg).
Qed.

Lemma sveq_sync_one src a b : sveq a b -> sveq (sync_one src a) (sync_one src b).
Proof.
  intros H. unfold sync_one. rewrite <- (sveq_root _ _ H).
  destruct (serves_root a) eqn:Er; [exact H|].
  unfold first_host. rewrite <- (eq_hosts _ _ H). destruct (src _) as [x y].
  pose proof (sveq_root _ _ H) as Hr. rewrite Er in Hr.
  destruct H. constructor; cbn; try assumption; try reflexivity.
Qed.

Lemma E_sync l1 l2 : E l1 l2 -> E (sync_tls l1) (sync_tls l2).
Proof.
  intros H. rewrite !sync_tls_eq.
  assert (Hs : forall h, tls_src l1 h = tls_src l2 h) by (intros; now apply E_tls_src).
  revert Hs. generalize (tls_src l1), (tls_src l2). intros s1 s2 Hs.
  induction H as [|a b l1 l2 Hab Hl IH]; cbn; constructor; [|exact IH].
  rewrite (sync_one_ext s1 s2 a Hs). now apply sveq_sync_one.
Qed.

Lemma E_install l1 l2 a b : E l1 l2 -> sveq a b -> E (install l1 a) (install l2 b).
Proof. intros. unfold install. now apply E_sync, E_set. Qed.

Lemma E_repl l1 l2 a b : E l1 l2 -> sveq a b -> E (map (repl a) l1) (map (repl b) l2).
Proof.
  intros H Hab. induction H as [|x y l1 l2 Hxy Hl IH]; cbn; constructor; [|exact IH].
  unfold repl. rewrite <- (eq_name _ _ Hxy), <- (eq_name _ _ Hab).
  destruct (str_eqb _ _); assumption.
Qed.

(** ** Requests and `list` cannot tell equivalent states apart *)

Lemma serve_E ig st1 st2 q :
  E (st_services st1) (st_services st2) -> serve ig st1 q = serve ig st2 q.
Proof.
  intros H. unfold serve. rewrite (E_table _ _ H).
  destruct (route _ _ _) as [[n p]|]; [|reflexivity].
  pose proof (E_get _ _ n H) as Hg.
  destruct (svc_get (st_services st1) n) as [a|], (svc_get (st_services st2) n) as [b|];
    cbn in Hg; try tauto.
  destruct Hg as [H1 H2 H3 H4 H5 H6 H7 H8 H9 H10 H11 H12 H13 H14].
  now rewrite H4, H5, H6, H9, H10, H11, H12, H13.
Qed.

Lemma list_E st1 st2 : E (st_services st1) (st_services st2) -> list_services st1 = list_services st2.
Proof.
  unfold list_services. induction 1 as [|a b l1 l2 Hab Hl IH]; cbn [map]; [reflexivity|].
  rewrite IH. destruct Hab as [H1 H2 H3 H4 H5 H6 H7 H8 H9 H10 H11 H12 H13 H14].
  now rewrite H1, H2, H3, H4, H10, H12.
Qed.

(** ** Equivalence basics *)

Lemma meq_refl a : meq a a.
Proof. intros x; reflexivity. Qed.

Lemma equiv_intro st1 st2 :
  E (st_services st1) (st_services st2) -> meq (st_probing st1) (st_probing st2) ->
  option_map (map snap_of) (st_disk st1) = option_map (map snap_of) (st_disk st2) ->
  equiv st1 st2.
Proof. intros H1 H2 H3. split; [now apply equiv_of_E|auto]. Qed.

Lemma equiv_E st1 st2 : equiv st1 st2 -> E (st_services st1) (st_services st2).
Proof. intros [H _]. now apply E_of_equiv. Qed.

Lemma equiv_refl st : equiv st st.
Proof. repeat split. Qed.

Lemma equiv_sym st1 st2 : equiv st1 st2 -> equiv st2 st1.
Proof.
  intros (H1 & H2 & H3). split; [|split].
  - unfold svcs_equiv in *. now symmetry.
  - intros x. symmetry. apply H2.
  - now symmetry.
Qed.

Lemma equiv_trans st1 st2 st3 : equiv st1 st2 -> equiv st2 st3 -> equiv st1 st3.
Proof.
  intros (H1 & H2 & H3) (K1 & K2 & K3). unfold equiv, svcs_equiv in *. split; [|split].
  - congruence.
  - intros x. now rewrite H2.
  - congruence.
Qed.

Lemma equiv_save st1 st2 : equiv st1 st2 -> equiv (save st1) (save st2).
Proof.
  intros H. pose proof (equiv_E _ _ H) as HE. destruct H as (H1 & H2 & _).
  apply equiv_intro; cbn; [assumption|assumption|]. now rewrite (E_snap _ _ HE).
Qed.

Lemma equiv_save_mk l1 l2 p1 p2 d1 d2 :
  E l1 l2 -> meq p1 p2 -> equiv (save (mkState l1 p1 d1)) (save (mkState l2 p2 d2)).
Proof.
  intros HE Hp. apply equiv_intro; cbn; [assumption|assumption|]. now rewrite (E_snap _ _ HE).
Qed.

(** ** C11: a restart yields an equivalent state *)

Lemma restart_equiv st : Inv st -> equiv st (restart fixed st).
Proof.
  intros HI. rewrite restart_fixed by exact HI. apply equiv_intro; cbn.
  - apply E_refl.
  - apply HI.
  - reflexivity.
Qed.

(** ** C11: equivalence is a bisimulation *)

Lemma sveq_slot_new a b slot nm : sveq a b -> sveq (slot_new a slot nm) (slot_new b slot nm).
Proof.
  intros H. destruct H. destruct slot; constructor; cbn; try assumption; reflexivity.
Qed.

Lemma sveq_slot_old a b slot : sveq a b -> slot_old a slot = slot_old b slot.
Proof. intros H. unfold slot_old. now rewrite (eq_active _ _ H), (eq_rollout _ _ H). Qed.

Lemma deploy_into_bisim st1 st2 a b slot targets :
  equiv st1 st2 -> sveq a b ->
  fst (deploy_into fixed st1 a slot targets) = fst (deploy_into fixed st2 b slot targets) /\
  equiv (snd (deploy_into fixed st1 a slot targets)) (snd (deploy_into fixed st2 b slot targets)).
Proof.
  intros He Hab. pose proof (equiv_E _ _ He) as HE. rewrite !deploy_into_fixed. cbv zeta.
  destruct (negb (forallb valid_target_name _)); [now split|].
  destruct (negb (forallb tg_healthy _)); [now split|].
  rewrite <- (E_table _ _ HE), <- (eq_name _ _ Hab), <- (eq_hosts _ _ Hab), <- (eq_prefixes _ _ Hab).
  destruct (conflicts _ _ _ _); cbn [fst snd]; (split; [reflexivity|]).
  - now apply equiv_save.
  - apply equiv_save_mk.
    + apply E_install; [assumption|now apply sveq_slot_new].
    + intros x. rewrite !count_remove_all, !count_app, (sveq_slot_old _ _ slot Hab).
      destruct He as (_ & Hp & _). now rewrite (Hp x).
Qed.

Lemma sveq_with_roll a b r : sveq a b -> sveq (with_roll a r) (with_roll b r).
Proof. intros H. destruct H. constructor; cbn; try assumption; reflexivity. Qed.

Lemma sveq_with_pause a b p : sveq a b -> sveq (with_pause a p) (with_pause b p).
Proof. intros H. destruct H. constructor; cbn; try assumption; reflexivity. Qed.

Lemma set_pause_state_E a b new msg :
  sveq a b -> opt_rel sveq (set_pause_state a new msg) (set_pause_state b new msg).
Proof.
  intros H. unfold set_pause_state. rewrite <- (eq_pause _ _ H).
  destruct (_ && _); cbn; [exact I|]. now apply sveq_with_pause.
Qed.

Lemma replace_bisim st1 st2 a b :
  equiv st1 st2 -> sveq a b -> equiv (save (replace_svc st1 a)) (save (replace_svc st2 b)).
Proof.
  intros He Hab. rewrite !save_replace. apply equiv_save_mk.
  - apply E_repl; [now apply equiv_E|assumption].
  - apply He.
Qed.

Lemma exec_bisim st1 st2 c :
  equiv st1 st2 -> Inv st1 -> Inv st2 ->
  fst (exec fixed st1 c) = fst (exec fixed st2 c) /\
  equiv (snd (exec fixed st1 c)) (snd (exec fixed st2 c)).
Proof.
  intros He HI1 HI2. pose proof (equiv_E _ _ He) as HE.
  destruct c as [name o t targets|name targets|name pct allow|name|name fa|name msg|name|name|];
    cbn [exec]; unfold on_service;
    try (pose proof (E_get _ _ name HE) as Hg;
         destruct (svc_get (st_services st1) name) as [a|], (svc_get (st_services st2) name) as [b|];
         cbn in Hg; try contradiction).
  - (* Deploy, redeploy *)
    destruct (init_check fixed (normalize o)); [now split|].
    apply deploy_into_bisim; [assumption|]. destruct Hg. constructor; cbn; try assumption; reflexivity.
  - (* Deploy, new service *)
    destruct (init_check fixed (normalize o)); [now split|].
    apply deploy_into_bisim; [assumption|apply sveq_refl].
  - now apply deploy_into_bisim.
  - split; [reflexivity|exact He].
  - (* RolloutSet *)
    rewrite <- (eq_rollout _ _ Hg). destruct (s_rollout a); cbn [fst snd]; (split; [reflexivity|]).
    + apply replace_bisim; [assumption|now apply sveq_with_roll].
    + now apply equiv_save.
  - split; [reflexivity|now apply equiv_save].
  - (* RolloutStop *)
    split; [reflexivity|]. apply replace_bisim; [assumption|now apply sveq_with_roll].
  - split; [reflexivity|now apply equiv_save].
  - (* Pause *)
    split; [reflexivity|]. cbn [snd]. rewrite <- (eq_pause _ _ Hg).
    apply replace_bisim; [assumption|now apply sveq_with_pause].
  - split; [reflexivity|now apply equiv_save].
  - (* Stop *)
    pose proof (set_pause_state_E a b Stopped msg Hg) as Hs.
    destruct (set_pause_state a Stopped msg), (set_pause_state b Stopped msg); cbn in Hs; try contradiction.
    + split; [reflexivity|]. now apply replace_bisim.
    + split; [reflexivity|exact He].
  - split; [reflexivity|now apply equiv_save].
  - (* Resume *)
    pose proof (set_pause_state_E a b Running [] Hg) as Hs.
    destruct (set_pause_state a Running []), (set_pause_state b Running []); cbn in Hs; try contradiction.
    + split; [reflexivity|]. now apply replace_bisim.
    + split; [reflexivity|exact He].
  - split; [reflexivity|now apply equiv_save].
  - (* Remove *)
    split; [reflexivity|]. cbn [snd]. apply equiv_save_mk.
    + now apply E_sync, E_remove.
    + intros x. change (s_active a ++ _) with (svc_targets a). change (s_active b ++ _) with (svc_targets b).
      rewrite !count_remove_all, (sveq_targets _ _ Hg). destruct He as (_ & Hp & _). now rewrite (Hp x).
  - split; [reflexivity|now apply equiv_save].
  - (* Restart *)
    split; [reflexivity|]. cbn [snd].
    apply equiv_trans with st1; [apply equiv_sym; now apply restart_equiv|].
    apply equiv_trans with st2; [assumption|now apply restart_equiv].
Qed.

(** ** Continuations *)

Fixpoint results (v : variant) (st : state) (cs : list cmd) : list result :=
  match cs with
  | [] => []
  | c :: r => fst (exec v st c) :: results v (snd (exec v st c)) r
  end.

Lemma bisim_all cs : forall st1 st2,
  equiv st1 st2 -> Inv st1 -> Inv st2 ->
  results fixed st1 cs = results fixed st2 cs /\
  equiv (exec_all fixed st1 cs) (exec_all fixed st2 cs).
Proof.
  induction cs as [|c cs IH]; intros st1 st2 He H1 H2; cbn [results exec_all]; [now split|].
  destruct (exec_bisim st1 st2 c He H1 H2) as [Hr Hs].
  destruct (IH _ _ Hs (exec_inv _ c H1) (exec_inv _ c H2)) as [Hrs Hf].
  split; [now rewrite Hr, Hrs|assumption].
Qed.

Lemma continuation cs1 cs2 :
  let sA := exec_all fixed init_state (cs1 ++ [Restart]) in
  let sB := exec_all fixed init_state cs1 in
  results fixed sA cs2 = results fixed sB cs2 /\
  equiv (exec_all fixed sA cs2) (exec_all fixed sB cs2).
Proof.
  cbv zeta. rewrite exec_all_app. cbn [exec_all exec snd].
  assert (HI : Inv (exec_all fixed init_state cs1)) by apply exec_all_inv, Inv_init.
  apply bisim_all.
  - apply equiv_sym. now apply restart_equiv.
  - apply (exec_inv _ Restart HI).
  - exact HI.
Qed.

Lemma serve_equiv ig st1 st2 q : equiv st1 st2 -> serve ig st1 q = serve ig st2 q.
Proof. intros H. apply serve_E, equiv_E, H. Qed.

Lemma list_equiv st1 st2 : equiv st1 st2 -> list_services st1 = list_services st2.
Proof. intros H. apply list_E, equiv_E, H. Qed.

Lemma continuation_full cs1 cs2 :
  let sA := exec_all fixed init_state (cs1 ++ [Restart]) in
  let sB := exec_all fixed init_state cs1 in
  results fixed sA cs2 = results fixed sB cs2 /\
  equiv (exec_all fixed sA cs2) (exec_all fixed sB cs2) /\
  (forall ig q, serve ig (exec_all fixed sA cs2) q = serve ig (exec_all fixed sB cs2) q) /\
  list_services (exec_all fixed sA cs2) = list_services (exec_all fixed sB cs2).
Proof.
  cbv zeta. destruct (continuation cs1 cs2) as [H1 H2].
  split; [exact H1|split; [exact H2|split]].
  - intros. now apply serve_equiv.
  - now apply list_equiv.
Qed.

(** A restart inserted anywhere in a history. *)
Lemma restart_anywhere cs1 cs2 :
  equiv (exec_all fixed init_state (cs1 ++ Restart :: cs2)) (exec_all fixed init_state (cs1 ++ cs2)).
Proof.
  destruct (continuation cs1 cs2) as [_ H]. cbv zeta in H.
  rewrite !exec_all_app in *. exact H.
Qed.
