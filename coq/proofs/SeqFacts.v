(** SeqFacts.v — proofs about model/Seq.v, the sequential command machine M4
    (properties C06, C11 and the sequential part of C18).

    Part 1 (this file): strings, the name-keyed service list, the TLS option
    sync ([sync_tls]) and why re-installing a synced list reproduces it.
    Part 2: proofs/SeqInv.v (invariant of reachable states, C06, C18).
    Part 3: proofs/SeqEquiv.v (observational equivalence, C11). *)
From KP Require Import model.Base model.ServiceMap model.Seq.
From Coq Require Import ZifyN ZifyNat ZifyBool Lia.

(** ** Strings *)

Lemma byte_eqb_eq a b : byte_eqb a b = true <-> a = b.
Proof.
  unfold byte_eqb. split; [apply Byte.byte_dec_bl | apply Byte.byte_dec_lb].
Qed.

Lemma str_eqb_eq a b : str_eqb a b = true <-> a = b.
Proof.
  revert b. induction a as [|x a IH]; intros [|y b]; cbn; split; try congruence; try reflexivity.
  - rewrite andb_true_iff, byte_eqb_eq, IH. intros [-> ->]. reflexivity.
  - intros H. inversion H; subst. rewrite andb_true_iff, byte_eqb_eq, IH. auto.
Qed.

Lemma str_eqb_refl a : str_eqb a a = true.
Proof. now apply str_eqb_eq. Qed.

Lemma str_eqb_neq a b : str_eqb a b = false <-> a <> b.
Proof.
  split.
  - intros H E. apply str_eqb_eq in E. congruence.
  - intros H. destruct (str_eqb a b) eqn:E; [|reflexivity]. apply str_eqb_eq in E. contradiction.
Qed.

Lemma str_eqb_sym a b : str_eqb a b = str_eqb b a.
Proof.
  destruct (str_eqb a b) eqn:E; symmetry.
  - apply str_eqb_eq in E. subst. apply str_eqb_refl.
  - apply str_eqb_neq in E. apply str_eqb_neq. congruence.
Qed.

Lemma mem_str_In x l : mem_str x l = true <-> In x l.
Proof.
  induction l as [|y l IH]; cbn; [split; [discriminate|tauto]|].
  rewrite orb_true_iff, str_eqb_eq, IH. split; intros [H|H]; auto.
Qed.

Ltac str_cases :=
  repeat match goal with
  | H : str_eqb _ _ = true |- _ => apply str_eqb_eq in H
  | H : str_eqb _ _ = false |- _ => apply str_eqb_neq in H
  end.

(** ** The name-keyed service list *)

Definition names (l : list service) : list str := map s_name l.
Definition pfxs (l : list service) : list (list str) := map (fun s => o_prefixes (s_opts s)) l.

Lemma svc_get_some l n s : svc_get l n = Some s -> In s l /\ s_name s = n.
Proof.
  induction l as [|x l IH]; cbn; [discriminate|].
  destruct (str_eqb (s_name x) n) eqn:E.
  - intros H; inversion H; subst. str_cases. auto.
  - intros H. destruct (IH H). auto.
Qed.

Lemma svc_get_none l n : svc_get l n = None -> ~ In n (names l).
Proof.
  induction l as [|x l IH]; cbn; [tauto|].
  destruct (str_eqb (s_name x) n) eqn:E; [discriminate|].
  intros H [H1|H1]; str_cases; [congruence|]. now apply IH.
Qed.

Lemma svc_get_notin l n : ~ In n (names l) -> svc_get l n = None.
Proof.
  intros H. destruct (svc_get l n) eqn:E; [|reflexivity].
  apply svc_get_some in E. destruct E as [E1 E2]. exfalso. apply H. subst.
  unfold names. now apply in_map.
Qed.

Lemma svc_get_in l s : NoDup (names l) -> In s l -> svc_get l (s_name s) = Some s.
Proof.
  induction l as [|x l IH]; cbn; [tauto|].
  intros Hn [->|Hi].
  - now rewrite str_eqb_refl.
  - inversion Hn as [|? ? Hx Hl]; subst.
    destruct (str_eqb (s_name x) (s_name s)) eqn:E; [|auto].
    str_cases. exfalso. apply Hx. rewrite E. unfold names. now apply in_map.
Qed.

Lemma svc_get_app l r n :
  svc_get (l ++ r) n = match svc_get l n with Some s => Some s | None => svc_get r n end.
Proof.
  induction l as [|x l IH]; cbn; [reflexivity|].
  destruct (str_eqb (s_name x) n); auto.
Qed.

Lemma svc_remove_notin l n : ~ In n (names l) -> svc_remove l n = l.
Proof.
  induction l as [|x l IH]; cbn; [reflexivity|].
  intros H. destruct (str_eqb (s_name x) n) eqn:E; str_cases; [tauto|].
  f_equal. apply IH. tauto.
Qed.

Lemma in_svc_remove l n s : In s (svc_remove l n) -> In s l /\ s_name s <> n.
Proof.
  induction l as [|x l IH]; cbn; [tauto|].
  destruct (str_eqb (s_name x) n) eqn:E; str_cases.
  - intros H. destruct (IH H). auto.
  - intros [->|H]; [auto|]. destruct (IH H). auto.
Qed.

Lemma in_svc_remove_rev l n s : In s l -> s_name s <> n -> In s (svc_remove l n).
Proof.
  induction l as [|x l IH]; cbn; [tauto|].
  intros [->|H] Hn.
  - destruct (str_eqb (s_name s) n) eqn:E; str_cases; [contradiction|now left].
  - destruct (str_eqb (s_name x) n); [|right]; auto.
Qed.

Lemma in_names_svc_remove l n x : In x (names (svc_remove l n)) -> In x (names l) /\ x <> n.
Proof.
  unfold names. rewrite in_map_iff. intros (s & <- & H). apply in_svc_remove in H.
  destruct H. split; [now apply in_map|assumption].
Qed.

Lemma NoDup_svc_remove l n : NoDup (names l) -> NoDup (names (svc_remove l n)).
Proof.
  induction l as [|x l IH]; cbn; [auto|].
  intros H. inversion H as [|? ? Hx Hl]; subst.
  destruct (str_eqb (s_name x) n); [auto|]. cbn. constructor; [|auto].
  intros Hi. apply in_names_svc_remove in Hi. tauto.
Qed.

Lemma names_app l r : names (l ++ r) = names l ++ names r.
Proof. apply map_app. Qed.

Lemma NoDup_snoc {A} (l : list A) x : NoDup l -> ~ In x l -> NoDup (l ++ [x]).
Proof.
  induction l as [|y l IH]; cbn; intros Hn Hx.
  - constructor; [tauto|constructor].
  - inversion Hn; subst. constructor.
    + rewrite in_app_iff. cbn. intros [H|[H|[]]]; [contradiction|subst; tauto].
    + apply IH; tauto.
Qed.

Lemma NoDup_app_l {A} (l r : list A) : NoDup (l ++ r) -> NoDup l.
Proof.
  induction l as [|y l IH]; cbn; intros H; [constructor|].
  inversion H; subst. constructor; [|auto]. rewrite in_app_iff in *. tauto.
Qed.

Lemma NoDup_svc_set l s : NoDup (names l) -> NoDup (names (svc_set l s)).
Proof.
  intros H. unfold svc_set. rewrite names_app. cbn. apply NoDup_snoc.
  - now apply NoDup_svc_remove.
  - intros Hi. apply in_names_svc_remove in Hi. tauto.
Qed.

Lemma svc_set_new l s : ~ In (s_name s) (names l) -> svc_set l s = l ++ [s].
Proof. intros H. unfold svc_set. now rewrite svc_remove_notin. Qed.

(** ** sync_tls *)

(** TLS flags of the service that answers [host] at the root path. *)
Definition tls_src (l : list service) (host : str) : bool * bool :=
  match service_for (table_of l) host root_path with
  | Some (n, _) => match svc_get l n with
                   | Some r => (o_tls (s_opts r), o_tls_redirect (s_opts r))
                   | None => (false, true)
                   end
  | None => (false, true)
  end.

Definition first_host (s : service) : str :=
  match o_hosts (s_opts s) with h :: _ => h | [] => [] end.

Definition sync_one (src : str -> bool * bool) (s : service) : service :=
  if serves_root s then s else
  let '(tls, redir) := src (first_host s) in
  mkSvc (s_name s) (set_tls (s_opts s) tls redir) (s_topts s) (s_active s) (s_rollout s)
        (s_pause s) (s_roll s) (s_has_cert s).

Lemma sync_tls_eq l : sync_tls l = map (sync_one (tls_src l)) l.
Proof. reflexivity. Qed.

Global Opaque sync_tls.

Lemma sync_one_ext src src' s :
  (forall h, src h = src' h) -> sync_one src s = sync_one src' s.
Proof. intros H. unfold sync_one. now rewrite H. Qed.

Lemma sync_one_name src s : s_name (sync_one src s) = s_name s.
Proof. unfold sync_one. destruct (serves_root s); [reflexivity|]. now destruct (src _). Qed.

Lemma sync_one_hosts src s : o_hosts (s_opts (sync_one src s)) = o_hosts (s_opts s).
Proof. unfold sync_one. destruct (serves_root s); [reflexivity|]. now destruct (src _). Qed.

Lemma sync_one_prefixes src s : o_prefixes (s_opts (sync_one src s)) = o_prefixes (s_opts s).
Proof. unfold sync_one. destruct (serves_root s); [reflexivity|]. now destruct (src _). Qed.

Lemma sync_one_bi src s : bi_of (sync_one src s) = bi_of s.
Proof.
  unfold bi_of. now rewrite sync_one_name, sync_one_hosts, sync_one_prefixes.
Qed.

Lemma sync_one_root src s : serves_root (sync_one src s) = serves_root s.
Proof. unfold serves_root. now rewrite sync_one_prefixes. Qed.

Lemma sync_one_is_root src s : serves_root s = true -> sync_one src s = s.
Proof. unfold sync_one. now intros ->. Qed.

Lemma names_sync l : names (sync_tls l) = names l.
Proof.
  rewrite sync_tls_eq. unfold names. rewrite map_map. apply map_ext. apply sync_one_name.
Qed.

Lemma pfxs_sync l : pfxs (sync_tls l) = pfxs l.
Proof.
  rewrite sync_tls_eq. unfold pfxs. rewrite map_map. apply map_ext. intros; apply sync_one_prefixes.
Qed.

Lemma table_sync l : table_of (sync_tls l) = table_of l.
Proof.
  rewrite sync_tls_eq. unfold table_of. rewrite map_map. apply map_ext. apply sync_one_bi.
Qed.

Lemma length_sync l : length (sync_tls l) = length l.
Proof. rewrite sync_tls_eq. apply map_length. Qed.

(** *** Who answers the root path *)

Lemma best_match_in path bs : forall best p n,
  best_match path bs best = Some (p, n) ->
  best = Some (p, n) \/ (In (p, n) bs /\ prefix_matches path p = true).
Proof.
  induction bs as [|[p0 n0] bs IH]; cbn [best_match In]; intros best p n H; [auto|].
  destruct (prefix_matches path p0) eqn:Em.
  - destruct best as [[bp bn]|].
    + destruct (Nat.ltb (length bp) (length p0)).
      * apply IH in H. destruct H as [H|[H1 H2]]; [inversion H; subst; auto|auto].
      * apply IH in H. destruct H as [H|[H1 H2]]; auto.
    + apply IH in H. destruct H as [H|[H1 H2]]; [inversion H; subst; auto|auto].
  - apply IH in H. destruct H as [H|[H1 H2]]; auto.
Qed.

Lemma in_bindings_for t h p n :
  In (p, n) (bindings_for t h) ->
  exists b, In b t /\ bi_name b = n /\ In p (bi_prefixes b) /\ In h (bi_hosts b).
Proof.
  unfold bindings_for. rewrite in_flat_map. intros (b & Hb & H).
  rewrite in_flat_map in H. destruct H as (h' & Hh & H).
  destruct (str_eqb h' h) eqn:E; [|destruct H]. str_cases; subst.
  rewrite in_map_iff in H. destruct H as (p' & H & Hp). inversion H; subst.
  exists b. auto.
Qed.

Lemma has_prefix_nil_l p : has_prefix [] p = true -> p = [].
Proof. destruct p; [reflexivity|discriminate]. Qed.

Lemma prefix_matches_root p : prefix_matches root_path p = true -> p = [] \/ p = root_path.
Proof.
  unfold prefix_matches, ensure_trailing_slash.
  replace (has_suffix root_path [slash]) with true by reflexivity.
  destruct (has_suffix p [slash]) eqn:Es.
  - destruct p as [|x p]; [auto|]. unfold root_path. cbn [has_prefix].
    rewrite andb_true_iff, byte_eqb_eq.
    intros [<- H]. apply has_prefix_nil_l in H. subst. now right.
  - destruct p as [|x p]; [auto|]. unfold root_path. cbn [has_prefix app]. rewrite andb_true_iff.
    intros [_ H]. apply has_prefix_nil_l in H. destruct p; discriminate.
Qed.

Lemma service_for_root_owner t h n p :
  service_for t h root_path = Some (n, p) ->
  exists b, In b t /\ bi_name b = n /\ In p (bi_prefixes b) /\ (p = [] \/ p = root_path).
Proof.
  unfold service_for. destruct (best_match _ _ _) as [[p' n']|] eqn:E; [|discriminate].
  intros H; inversion H; subst. apply best_match_in in E.
  destruct E as [E|[E1 E2]]; [discriminate|].
  apply in_bindings_for in E1. destruct E1 as (b & Hb & Hn & Hp & _).
  exists b. repeat split; auto. now apply prefix_matches_root.
Qed.

(** Well-formed list: unique names, no empty prefix (normalised prefixes
    start with a slash). *)
Definition pfx_ok (l : list service) : Prop := Forall (fun ps => ~ In [] ps) (pfxs l).
Definition wf (l : list service) : Prop := NoDup (names l) /\ pfx_ok l.

Lemma wf_sync l : wf l -> wf (sync_tls l).
Proof. unfold wf, pfx_ok. now rewrite names_sync, pfxs_sync. Qed.

Lemma pfx_ok_in l s : pfx_ok l -> In s l -> ~ In [] (o_prefixes (s_opts s)).
Proof.
  unfold pfx_ok. rewrite Forall_forall. intros H Hi. apply H. unfold pfxs.
  apply in_map_iff. eauto.
Qed.

(** The service found for a host at the root path serves the root path. *)
Lemma root_owner l h n p :
  wf l -> service_for (table_of l) h root_path = Some (n, p) ->
  exists r, svc_get l n = Some r /\ serves_root r = true.
Proof.
  intros [Hn Hp] H. apply service_for_root_owner in H.
  destruct H as (b & Hb & Hbn & Hpb & Hpp).
  unfold table_of in Hb. rewrite in_map_iff in Hb. destruct Hb as (r & <- & Hr).
  cbn in *. exists r. split.
  - subst n. now apply svc_get_in.
  - unfold serves_root. apply mem_str_In. destruct Hpp as [->| ->]; [|assumption].
    exfalso. eapply pfx_ok_in; eauto.
Qed.

(** *** sync_tls only looks at names, hosts, prefixes and the TLS flags of
    root path services *)

Definition canon (s : service) : service :=
  if serves_root s then s else
  mkSvc (s_name s) (set_tls (s_opts s) false true) (s_topts s) (s_active s) (s_rollout s)
        (s_pause s) (s_roll s) (s_has_cert s).

Lemma canon_name s : s_name (canon s) = s_name s.
Proof. unfold canon. now destruct (serves_root s). Qed.

Lemma canon_bi s : bi_of (canon s) = bi_of s.
Proof. unfold canon. now destruct (serves_root s). Qed.

Lemma canon_is_root s : serves_root s = true -> canon s = s.
Proof. unfold canon. now intros ->. Qed.

Lemma table_canon l : table_of (map canon l) = table_of l.
Proof. unfold table_of. rewrite map_map. apply map_ext, canon_bi. Qed.

Lemma svc_get_map f l n :
  (forall s, s_name (f s) = s_name s) ->
  svc_get (map f l) n = option_map f (svc_get l n).
Proof.
  intros Hf. induction l as [|x l IH]; cbn; [reflexivity|].
  rewrite Hf. destruct (str_eqb (s_name x) n); auto.
Qed.

Lemma tls_src_canon l h : wf l -> tls_src (map canon l) h = tls_src l h.
Proof.
  intros Hwf. unfold tls_src. rewrite table_canon.
  destruct (service_for (table_of l) h root_path) as [[n p]|] eqn:E; [|reflexivity].
  destruct (root_owner _ _ _ _ Hwf E) as (r & Hr & Hroot).
  rewrite svc_get_map by apply canon_name. rewrite Hr. cbn.
  now rewrite canon_is_root.
Qed.

Lemma sync_one_canon src s : sync_one src (canon s) = sync_one src s.
Proof.
  unfold canon. destruct (serves_root s) eqn:E; [reflexivity|].
  unfold sync_one. unfold serves_root in *. cbn. rewrite E.
  unfold first_host. cbn. now destruct (src _).
Qed.

Lemma canon_sync_one src s : canon (sync_one src s) = canon s.
Proof.
  unfold sync_one. destruct (serves_root s) eqn:E; [reflexivity|].
  destruct (src _) as [a b]. unfold canon. unfold serves_root in *. cbn. now rewrite E.
Qed.

Lemma sync_canon l : wf l -> sync_tls (map canon l) = sync_tls l.
Proof.
  intros Hwf. rewrite !sync_tls_eq, map_map. apply map_ext. intros s.
  rewrite sync_one_canon. apply sync_one_ext. intros h. now apply tls_src_canon.
Qed.

Lemma canon_sync l : map canon (sync_tls l) = map canon l.
Proof. rewrite sync_tls_eq, map_map. apply map_ext. intros; apply canon_sync_one. Qed.

Lemma sync_cong l l' : wf l -> wf l' -> map canon l = map canon l' -> sync_tls l = sync_tls l'.
Proof. intros H1 H2 H. rewrite <- (sync_canon l), <- (sync_canon l'), H; auto. Qed.

Lemma sync_idem l : wf l -> sync_tls (sync_tls l) = sync_tls l.
Proof.
  intros H. apply sync_cong; [now apply wf_sync|assumption|apply canon_sync].
Qed.

(** *** Re-installing the services one by one (RestoreLastSavedState) *)

Definition reinstall (acc : list service) (s : service) : list service := sync_tls (svc_set acc s).

Lemma wf_app_snoc acc s r : wf (acc ++ s :: r) -> wf (acc ++ [s]) /\ ~ In (s_name s) (names acc).
Proof.
  unfold wf, pfx_ok, pfxs. rewrite !names_app, !map_app, !Forall_app. cbn.
  intros (Hn & Ha & Hs). inversion Hs; subst.
  apply NoDup_remove in Hn. destruct Hn as [Hn Hx]. rewrite in_app_iff in Hx.
  repeat split; auto.
  apply NoDup_snoc; [|tauto]. now apply NoDup_app_l in Hn.
Qed.

Lemma refold r : forall acc, wf (acc ++ r) -> fold_left reinstall r (sync_tls acc) = sync_tls (acc ++ r).
Proof.
  induction r as [|s r IH]; intros acc Hwf; cbn.
  - now rewrite app_nil_r.
  - destruct (wf_app_snoc _ _ _ Hwf) as [Hwf1 Hs].
    replace (acc ++ s :: r) with ((acc ++ [s]) ++ r) in * by (rewrite <- app_assoc; reflexivity).
    rewrite <- IH by assumption. f_equal.
    unfold reinstall. rewrite svc_set_new by now rewrite names_sync.
    apply sync_cong; [| assumption | now rewrite !map_app, canon_sync].
    destruct Hwf1 as [H1 H2]. unfold wf, pfx_ok, pfxs in *.
    rewrite names_app, names_sync, <- names_app. split; [assumption|].
    rewrite map_app in *. fold (pfxs (sync_tls acc)). rewrite pfxs_sync. assumption.
Qed.

Lemma sync_tls_nil : sync_tls [] = [].
Proof. reflexivity. Qed.

(** Restoring a well-formed, synced list rebuilds exactly that list. *)
Lemma reinstall_all l : wf l -> fold_left reinstall l [] = sync_tls l.
Proof. intros H. rewrite <- sync_tls_nil. now rewrite refold. Qed.
