(** M5cmdC03.v — the lemmas behind props/C03link.v: C03 at the level of the command with the
    EXACT command <-> drain linkage (view model/M5cmd.v), and jointly with the request-level
    view model/M5full.v.  Positions are indices into the trace ([ev_at tr i a k]: the event
    at position [i] is by actor [a] and of kind [k]). *)
From Coq Require Import ZifyN ZifyNat ZifyBool.
From KP Require Import model.Base model.Trace model.M5cmd proofs.M5cmdFacts.
From KP Require model.M5full proofs.M5fullFacts proofs.M5fullInv proofs.M5fullDrain proofs.M5fullDrainFwd.
Local Open Scope nat_scope.

(** * Vocabulary of the statements *)

(** the Drain call of child goroutine [g] on target [t] has FINISHED strictly between the
    positions [lo] and [hi]: either it found [t] already draining and returned at once
    (finding D11), or it began ([b]) on a target that was not draining, did its "cancel the
    rest" ([c]) and then its restoring state-set ([r]) — and no other state-set by an actor
    numbered [g] lies between [b] and [r] *)
Definition finished (tr : trace) (g t lo hi : nat) : Prop :=
  (exists b to, lo < b /\ b < hi /\ ev_at tr b (AGo g) (KDrainBegin t TDraining to)) \/
  (exists b c r orig to o nw, lo < b /\ b < c /\ c < r /\ r < hi /\ orig <> TDraining /\ nw <> TDraining /\
     ev_at tr b (AGo g) (KDrainBegin t orig to) /\ ev_at tr c (AGo g) (KDrainCancelRest t) /\
     ev_at tr r (AGo g) (KStateSet t o nw) /\ quiet tr g b r).

(** DrainAll call [w] spawned, between [lo] and [hi], a child for target [t] whose Drain call finished before [hi] *)
Definition drained (tr : trace) (t w lo hi : nat) : Prop :=
  exists g i, lo < i /\ i < hi /\ ev_at tr i (AGo g) (KDrainChild t w) /\ finished tr g t i hi.

(** request-level view: the Drain call of [g] on [t] that began at [b] and ended at [r]: in the
    state [fs] just before [r] its record is there, "cancel the rest" is done, and every request
    of its snapshot [sn] — the list of its own KDrainSnapshot event — has left the in-flight set
    of [t] or has been cancelled; and this is still so in the state [f1] after the first [m] events *)
Definition settled_at (tr : trace) (g t b r m : nat) : Prop :=
  exists fs x d sn,
    run M5full.step M5full.init (firstn r tr) = Some fs /\
    nget (M5full.targets fs) t = Some x /\ nget (M5full.t_drains x) g = Some d /\
    M5full.d_cancelled d = true /\ M5full.d_snap d = Some sn /\
    (forall rq, In rq sn -> ~ In rq (M5full.t_inflight x) \/ M5fullFacts.cancelled fs rq = true) /\
    (exists j es rs, b < j /\ j < r /\ nth_error tr j = Some es /\ goid (e_by es) = g /\
       e_k es = KDrainSnapshot t rs /\ map fst rs = sn) /\
    (exists f1 x1, run M5full.step M5full.init (firstn m tr) = Some f1 /\ nget (M5full.targets f1) t = Some x1 /\
       forall rq, In rq sn -> ~ In rq (M5full.t_inflight x1) \/ M5fullFacts.cancelled f1 rq = true).

(** [finished] with, for a call that opened, the request-level conclusion at position [m] *)
Definition finished_settled (tr : trace) (g t lo hi m : nat) : Prop :=
  (exists b to, lo < b /\ b < hi /\ ev_at tr b (AGo g) (KDrainBegin t TDraining to)) \/
  (exists b c r orig to o nw, lo < b /\ b < c /\ c < r /\ r < hi /\ orig <> TDraining /\ nw <> TDraining /\
     ev_at tr b (AGo g) (KDrainBegin t orig to) /\ ev_at tr c (AGo g) (KDrainCancelRest t) /\
     ev_at tr r (AGo g) (KStateSet t o nw) /\ quiet tr g b r /\ settled_at tr g t b r m).

Definition drained_settled (tr : trace) (t w lo hi m : nat) : Prop :=
  exists g i, lo < i /\ i < hi /\ ev_at tr i (AGo g) (KDrainChild t w) /\ finished_settled tr g t i hi m.

(** * Splitting a trace at a position *)

Lemma ev_at_split tr n a k :
  ev_at tr n a k -> exists pre e post, tr = pre ++ e :: post /\ length pre = n /\ e_by e = a /\ e_k e = k.
Proof.
  intros (e & Hn & Ha & Hk). destruct (nth_error_split _ _ Hn) as (pre & post & -> & Hl).
  exists pre, e, post. repeat split; assumption.
Qed.

Lemma finished_app_l pre post g t lo hi : hi <= length pre -> finished pre g t lo hi -> finished (pre ++ post) g t lo hi.
Proof.
  intros Hhi [(b & to & H1 & H2 & H3)|(b & c & r & orig & to & o & nw & H1 & H2 & H3 & H4 & H5 & H6 & H7 & H8 & H9 & H10)].
  - left. exists b, to. repeat split; try assumption. apply ev_at_app_l; exact H3.
  - right. exists b, c, r, orig, to, o, nw. repeat split; try assumption; try (apply ev_at_app_l; assumption).
    apply quiet_app_l; [lia|exact H10].
Qed.

Lemma finished_weaken tr g t lo hi hi' : hi <= hi' -> finished tr g t lo hi -> finished tr g t lo hi'.
Proof.
  intros Hhi [(b & to & H1 & H2 & H3)|(b & c & r & orig & to & o & nw & H1 & H2 & H3 & H4 & H5)].
  - left. exists b, to. repeat split; try assumption; lia.
  - right. exists b, c, r, orig, to, o, nw. repeat split; try tauto; lia.
Qed.

(** the record of a child that has ended *)
Lemma kid_finished pre g k :
  kid_ok pre g k -> (match k_ph k with KEarly _ | KEnded _ _ _ => true | _ => false end) = true ->
  finished pre g (k_t k) (k_reg k) (length pre).
Proof.
  intros (_ & _ & H) He. destruct (k_ph k) as [|o|b|b c|b|b c r]; try discriminate.
  - destruct H as (H1 & H2 & to & H3). left. exists b, to. repeat split; assumption.
  - destruct H as (H1 & H2 & H3 & H4 & (o & to & Ho & H5) & H6 & (o' & nw & Hn & H7) & H8).
    right. exists b, c, r, o, to, o', nw. repeat split; assumption.
Qed.

(** balancers keep their targets *)
Lemma run_lbs_keep tr s s' lb ts : run step s tr = Some s' -> nget (lbs s) lb = Some ts -> nget (lbs s') lb = Some ts.
Proof.
  intros R H. refine (run_inv step (fun s => nget (lbs s) lb = Some ts) _ tr s s' H R).
  intros s0 e s1 H0 E. destruct (step_parts _ _ _ E) as (_ & _ & Hl & _). exact (proj1 (lbs_step_frame _ _ _ Hl) lb ts H0).
Qed.

Lemma calls_step_done s n e cs' lb w :
  calls_step s n e = Some cs' -> e_k e = KDrainAllDone lb w ->
  exists a, nget (calls s) w = Some a /\ a_done a = None /\ a_lb a = lb /\ a_by a = e_by e /\ call_complete s a = true.
Proof.
  unfold calls_step. intros H Hk. rewrite Hk in H.
  destruct (nget (calls s) w) as [a|] eqn:Hw; [|discriminate].
  destruct (a_done a) eqn:Hd; [discriminate|].
  destruct (Nat.eqb (a_lb a) lb && actor_eqb (a_by a) (e_by e) && call_complete s a) eqn:Hc; [|discriminate].
  bool_hyps. exists a. repeat split; auto.
Qed.

(** * (L1) a DrainAll call that is done *)

Lemma drainall_done tr s n a lb w :
  run step init tr = Some s -> ev_at tr n a (KDrainAllDone lb w) ->
  exists iA, iA < n /\ ev_at tr iA a (KDrainAll lb w) /\
    forall iN aN ts, ev_at tr iN aN (KLbNew lb ts) -> forall t, In t ts -> drained tr t w iA n.
Proof.
  intros R Hev. destruct (ev_at_split _ _ _ _ Hev) as (pre & e & post & -> & Hl & Ha & Hk).
  destruct (run_at _ _ _ _ _ _ R) as (s1 & s2 & R1 & E & R2).
  pose proof (run_hist _ _ R1) as HH. pose proof (run_hist _ _ R) as HF.
  destruct (step_parts _ _ _ E) as (_ & _ & _ & _ & Hca & _).
  destruct (calls_step_done _ _ _ _ _ _ Hca Hk) as (a0 & Hw & _ & Hlb & Hby & Hcc).
  destruct (h_call _ _ HH _ _ (nget_In _ _ _ Hw)) as (Hat & HevA & (ts1 & Hts1) & Hkids & _).
  rewrite Hlb in *. rewrite Hby, Ha in HevA.
  exists (a_at a0). split; [lia|]. split; [apply ev_at_app_l; exact HevA|].
  intros iN aN ts HevN t Hin.
  assert (ts = ts1) as ->.
  { pose proof (h_lbs _ _ HF _ _ _ _ HevN) as H1.
    assert (H2 : nget (lbs s) lb = Some ts1).
    { eapply run_lbs_keep; [exact R2|]. destruct (step_parts _ _ _ E) as (_ & _ & Hl' & _).
      exact (proj1 (lbs_step_frame _ _ _ Hl') lb ts1 Hts1). }
    congruence. }
  unfold call_complete, lb_targets in Hcc. rewrite Hlb, Hts1 in Hcc. rewrite forallb_forall in Hcc. specialize (Hcc t Hin).
  destruct (nget (a_kids a0) t) as [g|] eqn:Hg; [|discriminate].
  destruct (Hkids t g Hg) as (k & Hk' & Et & Ew & Ereg).
  unfold kid_ended in Hcc. rewrite Hk' in Hcc.
  pose proof (h_kid _ _ HH _ _ Hk') as Hok.
  pose proof (kid_finished _ _ _ Hok Hcc) as Hfin. destruct Hok as (Hreg & Hevc & _).
  rewrite Et in *. rewrite Ew in *. rewrite Hl in *.
  exists g, (k_reg k). split; [exact Ereg|]. split; [exact Hreg|]. split; [apply ev_at_app_l; exact Hevc|].
  apply finished_app_l; [lia|exact Hfin].
Qed.

(** * A command does not act after its return *)

Lemma no_act_after_return tr s n a c r j k :
  run step init tr = Some s -> ev_at tr n a (KReturn c r) -> ev_at tr j (ACmd c) k ->
  (forall c' k' nm, k <> KIssue c' k' nm) -> j <= n.
Proof.
  intros R Hn Hj Hk. destruct (Nat.le_gt_cases j n) as [Hle|Hgt]; [exact Hle|exfalso].
  destruct (ev_at_split _ _ _ _ Hj) as (pre & e & post & -> & Hl & Ha & Hke).
  destruct (run_at _ _ _ _ _ _ R) as (s1 & s2 & R1 & E & _).
  pose proof (run_hist _ _ R1) as HH.
  assert (Hn' : ev_at pre n a (KReturn c r)) by (apply (ev_at_app_inv pre (e :: post)); [lia|exact Hn]).
  destruct (h_ret _ _ HH _ _ _ _ Hn') as (cm & Hc & Hr).
  destruct (step_parts _ _ _ E) as (Hact & _).
  destruct (actor_ok_cmd _ _ _ Hact Ha) as (cm' & Hc' & Hr'); [intros; rewrite Hke; apply Hk|].
  congruence.
Qed.

Lemma issue_before_return tr s n a c r i0 a0 k nm :
  run step init tr = Some s -> ev_at tr n a (KReturn c r) -> ev_at tr i0 a0 (KIssue c k nm) -> i0 < n.
Proof.
  intros R Hn Hi.
  destruct (Nat.lt_trichotomy i0 n) as [Hlt|[->|Hgt]]; [exact Hlt| |]; exfalso.
  - destruct (ev_at_fun _ _ _ _ _ _ Hn Hi) as [_ H]. discriminate.
  - destruct (ev_at_split _ _ _ _ Hi) as (pre & e & post & -> & Hl & Ha & Hke).
    destruct (run_at _ _ _ _ _ _ R) as (s1 & s2 & R1 & E & _).
    pose proof (run_hist _ _ R1) as HH.
    assert (Hn' : ev_at pre n a (KReturn c r)) by (apply (ev_at_app_inv pre (e :: post)); [lia|exact Hn]).
    destruct (h_ret _ _ HH _ _ _ _ Hn') as (cm & Hc & _).
    destruct (step_parts _ _ _ E) as (_ & Hcs & _).
    destruct (cmds_step_issue _ _ _ _ _ _ _ Hcs Hke) as [Hnone _]. congruence.
Qed.

(** the state in which a command returns *)
Lemma at_return tr s n c r :
  run step init tr = Some s -> ev_at tr n (ACmd c) (KReturn c r) ->
  exists pre e post s1 cm, tr = pre ++ e :: post /\ length pre = n /\ run step init pre = Some s1 /\ hist pre s1 /\
    nget (cmds s1) c = Some cm /\ return_ok (c_kind cm) (c_ph cm) r = true.
Proof.
  intros R Hn. destruct (ev_at_split _ _ _ _ Hn) as (pre & e & post & -> & Hl & Ha & Hk).
  destruct (run_at _ _ _ _ _ _ R) as (s1 & s2 & R1 & E & _).
  destruct (step_parts _ _ _ E) as (_ & Hcs & _).
  destruct (cmds_step_return _ _ _ _ _ _ Hcs Hk) as (_ & cm & Hc & Hr & _).
  exists pre, e, post, s1, cm. split; [reflexivity|]. split; [exact Hl|]. split; [exact R1|]. split; [apply run_hist; exact R1|].
  split; assumption.
Qed.

(** * (L2) the successful return of a deploy that replaced a balancer *)

Lemma deploy_return tr s n c iS iI sv ro lb old sv' :
  run step init tr = Some s -> ev_at tr n (ACmd c) (KReturn c CROk) ->
  ev_at tr iS (ACmd c) (KSlot sv ro lb (Some old)) -> ev_at tr iI (ACmd c) (KInstall sv' true) ->
  exists w iA iD, iS < iI /\ iI < iA /\ iA < iD /\ iD < n /\
    ev_at tr iA (ACmd c) (KDrainAll old w) /\ ev_at tr iD (ACmd c) (KDrainAllDone old w).
Proof.
  intros R Hn HS HI.
  assert (HSn : iS < n).
  { pose proof (no_act_after_return _ _ _ _ _ _ _ _ R Hn HS) as H.
    destruct (Nat.eq_dec iS n) as [->|]; [destruct (ev_at_fun _ _ _ _ _ _ Hn HS) as [_ H']; discriminate|].
    assert (iS <= n) by (apply H; intros; discriminate). lia. }
  assert (HIn : iI < n).
  { pose proof (no_act_after_return _ _ _ _ _ _ _ _ R Hn HI) as H.
    destruct (Nat.eq_dec iI n) as [->|]; [destruct (ev_at_fun _ _ _ _ _ _ Hn HI) as [_ H']; discriminate|].
    assert (iI <= n) by (apply H; intros; discriminate). lia. }
  destruct (at_return _ _ _ _ _ R Hn) as (pre & e & post & s1 & cm & -> & Hl & R1 & HH & Hc & Hr).
  assert (HS' : ev_at pre iS (ACmd c) (KSlot sv ro lb (Some old))) by (apply (ev_at_app_inv pre (e :: post)); [lia|exact HS]).
  assert (HI' : ev_at pre iI (ACmd c) (KInstall sv' true)) by (apply (ev_at_app_inv pre (e :: post)); [lia|exact HI]).
  destruct (h_slot _ _ HH _ _ _ _ _ _ HS') as (cm1 & Hc1 & Hs1). rewrite Hc in Hc1; injection Hc1 as <-.
  destruct (h_inst _ _ HH _ _ _ _ HI') as (cm2 & Hc2 & Hi2). rewrite Hc in Hc2; injection Hc2 as <-.
  destruct (h_cmd _ _ HH _ _ Hc) as [Hd Hok].
  assert (Hdep : is_deploy (c_kind cm) = true) by (apply Hd; rewrite Hs1; discriminate).
  unfold return_ok in Hr. rewrite Hdep in Hr.
  destruct (c_ph cm) eqn:Hph; try discriminate; cbn [slot_of inst_of] in Hs1, Hi2; try discriminate.
  injection Hs1 as -> ->. injection Hi2 as ->.
  destruct Hok as (H1 & H2 & H3 & H4 & H5 & H6).
  exists w, iA, iD. repeat split; try lia; apply ev_at_app_l; assumption.
Qed.

(** * (L3) the successful return of a pause / stop *)

Lemma pause_stop_not_deploy k : is_pause_stop k = true -> is_deploy k = false.
Proof. destruct k; cbn; try discriminate; reflexivity. Qed.

Lemma pause_stop_return tr s n c i0 a0 k nm :
  run step init tr = Some s -> ev_at tr n (ACmd c) (KReturn c CROk) ->
  ev_at tr i0 a0 (KIssue c k nm) -> is_pause_stop k = true ->
  exists sv ls iV iW, iV < iW /\ iW < n /\
    ev_at tr iV (ACmd c) (KSvcDrain sv ls) /\ ev_at tr iW (ACmd c) (KSvcDrainDone sv) /\
    (forall sV, run step init (firstn iV tr) = Some sV -> ls = svc_lbs sV sv) /\
    forall lb, In lb ls -> exists w a iA iD, iV < iA /\ iA < iD /\ iD < iW /\
      ev_at tr iA a (KDrainAll lb w) /\ ev_at tr iD a (KDrainAllDone lb w).
Proof.
  intros R Hn Hi Hps.
  pose proof (issue_before_return _ _ _ _ _ _ _ _ _ _ R Hn Hi) as Hi0.
  destruct (at_return _ _ _ _ _ R Hn) as (pre & e & post & s1 & cm & -> & Hl & R1 & HH & Hc & Hr).
  assert (Hi' : ev_at pre i0 a0 (KIssue c k nm)) by (apply (ev_at_app_inv pre (e :: post)); [lia|exact Hi]).
  destruct (h_issue _ _ HH _ _ _ _ _ Hi') as (cm1 & Hc1 & Hk1). rewrite Hc in Hc1; injection Hc1 as <-.
  destruct (h_cmd _ _ HH _ _ Hc) as [_ Hok].
  unfold return_ok in Hr. rewrite Hk1, (pause_stop_not_deploy _ Hps), Hps in Hr.
  destruct (c_ph cm) eqn:Hph; try discriminate.
  destruct Hok as (H1 & H2 & H3 & H4 & H5 & H6).
  exists svc, ls, iV, iW. split; [exact H1|]. split; [lia|].
  split; [apply ev_at_app_l; exact H3|]. split; [apply ev_at_app_l; exact H5|]. split.
  - intros sV. rewrite firstn_app_le by lia. apply H4.
  - intros lb Hin. destruct (H6 lb Hin) as (w & a & iA & iD & G1 & G2 & G3 & G4 & G5).
    exists w, a, iA, iD. repeat split; try assumption; apply ev_at_app_l; assumption.
Qed.

(** * (L4) jointly with the request-level view *)

Lemma nth_mid {A} (p1 : list A) x q1 rest k :
  k < length q1 -> nth_error (p1 ++ x :: q1 ++ rest) (length p1 + 1 + k) = nth_error q1 k.
Proof.
  intros Hk. rewrite nth_error_app2 by lia. replace (length p1 + 1 + k - length p1) with (S k) by lia.
  cbn [nth_error]. apply nth_error_app1. exact Hk.
Qed.

Lemma In_mid {A} (p1 : list A) x q1 rest e :
  In e q1 -> exists j, length p1 < j /\ j < length p1 + 1 + length q1 /\ nth_error (p1 ++ x :: q1 ++ rest) j = Some e.
Proof.
  intros Hin. destruct (In_nth_error _ _ Hin) as (k & Hk).
  assert (k < length q1) by (apply nth_error_Some; congruence).
  exists (length p1 + 1 + k). split; [lia|]. split; [lia|]. rewrite nth_mid by assumption. exact Hk.
Qed.

Lemma mid_In {A} (p1 : list A) x q1 rest j e :
  length p1 < j -> j < length p1 + 1 + length q1 -> nth_error (p1 ++ x :: q1 ++ rest) j = Some e -> In e q1.
Proof.
  intros H1 H2 Hn. replace j with (length p1 + 1 + (j - length p1 - 1)) in Hn by lia.
  rewrite nth_mid in Hn by lia. eapply nth_error_In; exact Hn.
Qed.

Lemma run_firstn {St} (stp : St -> event -> option St) s tr s' k :
  run stp s tr = Some s' -> exists s1, run stp s (firstn k tr) = Some s1.
Proof.
  intros R. rewrite <- (firstn_skipn k tr) in R. rewrite run_app in R.
  destruct (run stp s (firstn k tr)) as [s1|]; [eauto|discriminate].
Qed.

Lemma full_tgt_keep tr fs f1 t x :
  run M5full.step fs tr = Some f1 -> nget (M5full.targets fs) t = Some x -> exists x1, nget (M5full.targets f1) t = Some x1.
Proof.
  revert fs x. induction tr as [|e tr IH]; intros fs x R Hx; cbn [run] in R.
  - injection R as <-. eauto.
  - destruct (M5full.step fs e) as [s1|] eqn:E; [|discriminate].
    destruct (M5fullInv.step_tgt_fwd _ _ _ _ _ E Hx) as (x' & Hx' & _). exact (IH _ _ R Hx').
Qed.

(** the request-level view alone: a Drain call with its begin, "cancel the rest" and end *)
Lemma full_call_settled tr sf g t b c r orig to o nw :
  run M5full.step M5full.init tr = Some sf ->
  b < c -> c < r ->
  ev_at tr b (AGo g) (KDrainBegin t orig to) -> orig <> TDraining ->
  ev_at tr c (AGo g) (KDrainCancelRest t) -> ev_at tr r (AGo g) (KStateSet t o nw) -> quiet tr g b r ->
  forall m, r <= m -> m <= length tr -> settled_at tr g t b r m.
Proof.
  intros Rf Hbc Hcr HB Ho HC HE Hq m Hrm Hm.
  destruct (ev_at_split _ _ _ _ HE) as (pr & eE & post & -> & Hlr & HaE & HkE).
  assert (HB' : ev_at pr b (AGo g) (KDrainBegin t orig to)) by (apply (ev_at_app_inv pr (eE :: post)); [lia|exact HB]).
  destruct (ev_at_split _ _ _ _ HB') as (p1 & eB & q1 & -> & Hlb & HaB & HkB).
  assert (Hlq : length p1 + 1 + length q1 = r).
  { rewrite <- Hlr, app_length. cbn [length]. lia. }
  (* the trace is p1 ++ eB :: q1 ++ eE :: post *)
  assert (Etr : (p1 ++ eB :: q1) ++ eE :: post = p1 ++ eB :: q1 ++ eE :: post) by (rewrite <- app_assoc; reflexivity).
  rewrite Etr in *.
  assert (HgB : M5full.goid (e_by eB) = g) by (rewrite HaB; reflexivity).
  (* runs of the request-level view *)
  replace (p1 ++ eB :: q1 ++ eE :: post) with ((p1 ++ [eB]) ++ q1 ++ (eE :: post)) in Rf
    by (rewrite <- app_assoc; reflexivity).
  rewrite run_app in Rf. destruct (run M5full.step M5full.init (p1 ++ [eB])) as [fB|] eqn:RfB; [|discriminate].
  rewrite run_app in Rf. destruct (run M5full.step fB q1) as [fs|] eqn:Rfs; [|discriminate].
  pose proof (M5fullDrain.invBDE_run _ _ RfB) as IB.
  destruct (run_snoc _ _ _ _ _ RfB) as (f0 & Rf0 & EfB).
  destruct (M5fullDrainFwd.fbegin_opens _ _ _ _ _ _ EfB HkB Ho) as (x0 & Hx0 & Hd0). rewrite HgB in Hd0.
  assert (Hno : forall e', In e' q1 -> M5full.goid (e_by e') = g -> forall t' o' n', e_k e' <> KStateSet t' o' n').
  { intros e' Hin Hg'. destruct (In_mid p1 eB q1 (eE :: post) e' Hin) as (j & J1 & J2 & J3).
    apply (Hq j e'); try lia; [exact J3|exact Hg']. }
  destruct (M5fullDrainFwd.fdrain_run _ _ _ _ _ _ _ IB Rfs Hx0 Hd0 Hno) as (x & d & Hx & Hd & _ & Hcan & Hsnap).
  assert (Rall : run M5full.step M5full.init (p1 ++ eB :: q1) = Some fs).
  { change (p1 ++ eB :: q1) with (p1 ++ [eB] ++ q1). rewrite app_assoc, run_app, RfB. exact Rfs. }
  (* its "cancel the rest" lies in q1 *)
  destruct HC as (eC & HnC & HaC & HkC).
  assert (HinC : In eC q1) by (apply (mid_In p1 eB q1 (eE :: post) c eC); try lia; exact HnC).
  assert (Hc : M5full.d_cancelled d = true) by (apply (Hcan eC HinC); [rewrite HaC; reflexivity|exact HkC]).
  destruct (M5fullDrain.invBDE_run _ _ Rall) as (_ & HD & HEi).
  destruct (HEi _ _ _ _ Hx (M5fullFacts.nget_In _ _ _ _ Hd) Hc) as (sn & Hsn & Hall).
  assert (Efr : firstn r (p1 ++ eB :: q1 ++ eE :: post) = p1 ++ eB :: q1).
  { rewrite <- Etr. rewrite <- Hlr. apply firstn_len_app. }
  exists fs, x, d, sn. rewrite Efr. split; [exact Rall|]. split; [exact Hx|]. split; [exact Hd|]. split; [exact Hc|].
  split; [exact Hsn|]. split; [exact Hall|]. split.
  - destruct (Hsnap _ Hsn) as [Hbad|(es & rs & Hin & Hg' & Hk' & Hm')]; [discriminate Hbad|].
    destruct (In_mid p1 eB q1 (eE :: post) es Hin) as (j & J1 & J2 & J3).
    exists j, es, rs. repeat split; try lia; assumption.
  - (* settled stays settled *)
    assert (Efm : firstn m (p1 ++ eB :: q1 ++ eE :: post) = (p1 ++ eB :: q1) ++ firstn (m - r) (eE :: post)).
    { rewrite <- Etr. rewrite firstn_app. rewrite Hlr. f_equal. apply firstn_all2. lia. }
    destruct (run_firstn _ _ _ _ (m - r) Rf) as (f1 & Rf1).
    destruct (full_tgt_keep _ _ _ _ _ Rf1 Hx) as (x1 & Hx1).
    exists f1, x1. rewrite Efm, run_app, Rall. split; [exact Rf1|]. split; [exact Hx1|].
    intros rq Hrq.
    destruct (HD _ _ _ _ _ _ Hx (M5fullFacts.nget_In _ _ _ _ Hd) Hsn Hrq) as (ph & Hph & Hpc).
    destruct (M5fullDrainFwd.run_settled _ _ _ _ _ _ _ Rf1 Hx Hph Hpc (Hall _ Hrq)) as (x1' & Hx1' & Hset).
    rewrite Hx1 in Hx1'. injection Hx1' as <-. exact Hset.
Qed.

Lemma finished_settle tr sf g t lo hi m :
  run M5full.step M5full.init tr = Some sf -> finished tr g t lo hi -> hi <= m -> m <= length tr ->
  finished_settled tr g t lo hi m.
Proof.
  intros Rf [H|(b & c & r & orig & to & o & nw & H1 & H2 & H3 & H4 & H5 & H6 & H7 & H8 & H9 & H10)] Hhi Hm; [left; exact H|].
  right. exists b, c, r, orig, to, o, nw. repeat split; try assumption.
  eapply full_call_settled; eauto; lia.
Qed.

Lemma drained_settle tr sf t w lo hi m :
  run M5full.step M5full.init tr = Some sf -> drained tr t w lo hi -> hi <= m -> m <= length tr ->
  drained_settled tr t w lo hi m.
Proof.
  intros Rf (g & i & H1 & H2 & H3 & H4) Hhi Hm. exists g, i. repeat split; try assumption.
  eapply finished_settle; eauto.
Qed.

(** (L4) at a DrainAllDone, and at any later position [m] *)
Lemma drainall_done_settled tr s sf n a lb w :
  run step init tr = Some s -> run M5full.step M5full.init tr = Some sf ->
  ev_at tr n a (KDrainAllDone lb w) ->
  exists iA, iA < n /\ ev_at tr iA a (KDrainAll lb w) /\
    forall iN aN ts, ev_at tr iN aN (KLbNew lb ts) -> forall t, In t ts ->
    forall m, n <= m -> m <= length tr -> drained_settled tr t w iA n m.
Proof.
  intros R Rf Hev. destruct (drainall_done _ _ _ _ _ _ R Hev) as (iA & H1 & H2 & H3).
  exists iA. split; [exact H1|]. split; [exact H2|]. intros iN aN ts HN t Hin m Hnm Hm.
  eapply drained_settle; eauto.
Qed.

(** a DrainAll call is entered once: its WaitGroup identifies it *)
Lemma calls_keep tr s s' w a : run step s tr = Some s' -> nget (calls s) w = Some a -> exists a', nget (calls s') w = Some a'.
Proof.
  intros R Hw. assert (H : exists a2, nget (calls s) w = Some a2) by eauto. clear Hw.
  refine (run_inv step (fun st => exists a2, nget (calls st) w = Some a2) _ tr s s' H R).
  intros st ev st' (a2 & Ha2) Est. destruct (step_parts _ _ _ Est) as (_ & _ & _ & _ & Hcs & _).
  apply calls_step_shape in Hcs.
  destruct Hcs as [->|lb' w' ts' _ Hnone' _ ->|t' w' a' _ Hw' _ _ _ ->|lb' w' a' _ Hw' _ _ _ _ ->]; [eauto| | |].
  all: destruct (Nat.eq_dec w w') as [<-|Hne']; [rewrite nget_nset_same; eauto|rewrite nget_nset_other by exact Hne'; eauto].
Qed.

Lemma drainall_lt_absurd tr s i j a a' lb lb' w :
  run step init tr = Some s -> ev_at tr i a (KDrainAll lb w) -> ev_at tr j a' (KDrainAll lb' w) -> i < j -> False.
Proof.
  intros R Hi Hj Hlt.
  destruct (ev_at_split _ _ _ _ Hj) as (pre & e & post & -> & Hl & Ha & Hk).
  destruct (run_at _ _ _ _ _ _ R) as (s1 & s2 & R1 & E & _).
  assert (Hi' : ev_at pre i a (KDrainAll lb w)) by (apply (ev_at_app_inv pre (e :: post)); [lia|exact Hi]).
  destruct (ev_at_split _ _ _ _ Hi') as (p0 & e0 & q0 & -> & Hl0 & Ha0 & Hk0).
  destruct (run_at _ _ _ _ _ _ R1) as (t1 & t2 & T1 & E0 & T2).
  destruct (step_parts _ _ _ E0) as (_ & _ & _ & _ & Hca0 & _).
  unfold calls_step in Hca0. rewrite Hk0 in Hca0.
  destruct (nget (calls t1) w) eqn:Hw1; [discriminate|]. destruct (nget (lbs t1) lb); [|discriminate].
  injection Hca0 as Hca0.
  assert (Hw2 : nget (calls t2) w = Some (mkA lb (e_by e0) (tick t1) [] None)) by (rewrite <- Hca0; apply nget_nset_same).
  destruct (calls_keep _ _ _ _ _ T2 Hw2) as (a3 & Hw3).
  destruct (step_parts _ _ _ E) as (_ & _ & _ & _ & Hca & _).
  unfold calls_step in Hca. rewrite Hk, Hw3 in Hca. discriminate.
Qed.

Lemma drainall_unique tr s i j a a' lb lb' w :
  run step init tr = Some s -> ev_at tr i a (KDrainAll lb w) -> ev_at tr j a' (KDrainAll lb' w) -> i = j.
Proof.
  intros R Hi Hj. destruct (Nat.lt_trichotomy i j) as [H|[H|H]]; [exfalso|exact H|exfalso].
  - exact (drainall_lt_absurd _ _ _ _ _ _ _ _ _ R Hi Hj H).
  - exact (drainall_lt_absurd _ _ _ _ _ _ _ _ _ R Hj Hi H).
Qed.

(** (L4) at the successful return of a deploy *)
Lemma deploy_return_settled tr s sf n c iS iI sv ro lb old sv' :
  run step init tr = Some s -> run M5full.step M5full.init tr = Some sf ->
  ev_at tr n (ACmd c) (KReturn c CROk) ->
  ev_at tr iS (ACmd c) (KSlot sv ro lb (Some old)) -> ev_at tr iI (ACmd c) (KInstall sv' true) ->
  exists w iA iD, iS < iI /\ iI < iA /\ iA < iD /\ iD < n /\
    ev_at tr iA (ACmd c) (KDrainAll old w) /\ ev_at tr iD (ACmd c) (KDrainAllDone old w) /\
    forall iN aN ts, ev_at tr iN aN (KLbNew old ts) -> forall t, In t ts -> drained_settled tr t w iA iD n.
Proof.
  intros R Rf Hn HS HI.
  destruct (deploy_return _ _ _ _ _ _ _ _ _ _ _ R Hn HS HI) as (w & iA & iD & H1 & H2 & H3 & H4 & H5 & H6).
  exists w, iA, iD. repeat split; try assumption.
  intros iN aN ts HN t Hin.
  destruct (drainall_done _ _ _ _ _ _ R H6) as (iA' & G1 & G2 & G3).
  assert (iA' = iA) as -> by exact (drainall_unique _ _ _ _ _ _ _ _ _ R G2 H5).
  pose proof (ev_at_lt _ _ _ _ Hn) as Hlt.
  eapply drained_settle; [exact Rf|exact (G3 _ _ _ HN _ Hin)|lia|lia].
Qed.

(** (L4) at the successful return of a pause / stop *)
Lemma pause_stop_return_settled tr s sf n c i0 a0 k nm :
  run step init tr = Some s -> run M5full.step M5full.init tr = Some sf ->
  ev_at tr n (ACmd c) (KReturn c CROk) ->
  ev_at tr i0 a0 (KIssue c k nm) -> is_pause_stop k = true ->
  exists sv ls iV iW, iV < iW /\ iW < n /\
    ev_at tr iV (ACmd c) (KSvcDrain sv ls) /\ ev_at tr iW (ACmd c) (KSvcDrainDone sv) /\
    (forall sV, run step init (firstn iV tr) = Some sV -> ls = svc_lbs sV sv) /\
    forall lb, In lb ls -> exists w a iA iD, iV < iA /\ iA < iD /\ iD < iW /\
      ev_at tr iA a (KDrainAll lb w) /\ ev_at tr iD a (KDrainAllDone lb w) /\
      forall iN aN ts, ev_at tr iN aN (KLbNew lb ts) -> forall t, In t ts -> drained_settled tr t w iA iD n.
Proof.
  intros R Rf Hn Hi Hps.
  destruct (pause_stop_return _ _ _ _ _ _ _ _ R Hn Hi Hps) as (sv & ls & iV & iW & H1 & H2 & H3 & H4 & H5 & H6).
  exists sv, ls, iV, iW. repeat split; try assumption.
  intros lb Hin. destruct (H6 lb Hin) as (w & a & iA & iD & G1 & G2 & G3 & G4 & G5).
  exists w, a, iA, iD. repeat split; try assumption.
  intros iN aN ts HN t Ht.
  destruct (drainall_done _ _ _ _ _ _ R G5) as (iA' & K1 & K2 & K3).
  assert (iA' = iA) as -> by exact (drainall_unique _ _ _ _ _ _ _ _ _ R K2 G4).
  pose proof (ev_at_lt _ _ _ _ Hn) as Hlt.
  eapply drained_settle; [exact Rf|exact (K3 _ _ _ HN _ Ht)|lia|lia].
Qed.
