(** SeqInv.v — the invariant of reachable states of M4 (variant [fixed]),
    and what follows from it directly: C06 (failed commands), C18 (no panic). *)
From KP Require Import model.Base model.ServiceMap model.Seq corr.M4corr proofs.SeqFacts.
From Coq Require Import ZifyN ZifyNat ZifyBool Lia.
Local Open Scope N_scope.

Definition reachable (v : variant) (st : state) : Prop := exists cs, st = exec_all v init_state cs.

(** ** Multisets of probed targets: [count_str] of corr/M4corr.v *)

Definition meq (a b : list str) : Prop := forall x, count_str x a = count_str x b.

Lemma count_app x a b : count_str x (a ++ b) = count_str x a + count_str x b.
Proof. induction a as [|y a IH]; cbn [count_str app]; lia. Qed.

Lemma count_remove_one x y l :
  count_str x (remove_one y l) = count_str x l - (if str_eqb x y then 1 else 0).
Proof.
  induction l as [|z l IH]; cbn [count_str remove_one]; [lia|].
  destruct (str_eqb y z) eqn:Eyz.
  - str_cases. subst z. destruct (str_eqb x y); lia.
  - cbn [count_str]. rewrite IH.
    destruct (str_eqb x y) eqn:Exy; [|lia]. str_cases. subst y.
    destruct (str_eqb x z) eqn:Exz; [|lia]. str_cases. congruence.
Qed.

Lemma count_remove_all x ys : forall l,
  count_str x (remove_all_of ys l) = count_str x l - count_str x ys.
Proof.
  unfold remove_all_of. induction ys as [|y ys IH]; intros l; cbn [fold_left count_str]; [lia|].
  rewrite IH, count_remove_one. lia.
Qed.

(** ** Targets *)

Definition svc_targets (s : service) : list str :=
  s_active s ++ match s_rollout s with Some ts => ts | None => [] end.

Lemma targets_of_eq l : targets_of l = flat_map svc_targets l.
Proof. reflexivity. Qed.

Lemma targets_of_app a b : targets_of (a ++ b) = targets_of a ++ targets_of b.
Proof. rewrite !targets_of_eq. apply flat_map_app. Qed.

Lemma targets_of_map g l :
  (forall s, In s l -> svc_targets (g s) = svc_targets s) -> targets_of (map g l) = targets_of l.
Proof.
  rewrite !targets_of_eq. induction l as [|x l IH]; cbn [map flat_map]; intros H; [reflexivity|].
  rewrite H by now left. rewrite IH; [reflexivity|]. intros; apply H; now right.
Qed.

Lemma sync_one_targets src s : svc_targets (sync_one src s) = svc_targets s.
Proof. unfold sync_one. destruct (serves_root s); [reflexivity|]. now destruct (src _). Qed.

Lemma targets_of_sync l : targets_of (sync_tls l) = targets_of l.
Proof. rewrite sync_tls_eq. apply targets_of_map. intros; apply sync_one_targets. Qed.

Definition old_targets (l : list service) (n : str) : list str :=
  match svc_get l n with Some o => svc_targets o | None => [] end.

Lemma count_targets_split x l n :
  NoDup (names l) ->
  count_str x (targets_of l) = count_str x (old_targets l n) + count_str x (targets_of (svc_remove l n)).
Proof.
  unfold old_targets. induction l as [|s l IH]; intros Hn; [reflexivity|].
  inversion Hn as [|? ? Hs Hl]; subst. cbn [svc_get svc_remove].
  destruct (str_eqb (s_name s) n) eqn:E.
  - str_cases. subst n. rewrite svc_remove_notin by assumption.
    change (targets_of (s :: l)) with (svc_targets s ++ targets_of l). now rewrite count_app.
  - change (targets_of (s :: l)) with (svc_targets s ++ targets_of l).
    change (targets_of (s :: svc_remove l n)) with (svc_targets s ++ targets_of (svc_remove l n)).
    rewrite !count_app, (IH Hl). lia.
Qed.

(** ** The invariant *)

Definition pause_ok (p : pausectl) : Prop :=
  p_chan_nil p = false /\ (p_state p <> Stopped -> p_msg p = []).

(** What every installed service satisfies (besides well-formedness of the
    list): it would be restored from the state file, and restoring it
    reproduces it exactly. *)
Definition svc_ok (s : service) : Prop :=
  init_check fixed (s_opts s) = None /\
  pause_ok (s_pause s) /\
  s_has_cert s = wants_cert fixed (s_opts s).

Definition Inv_parts (svcs : list service) (probing : list str) : Prop :=
  wf svcs /\ Forall svc_ok svcs /\ sync_tls svcs = svcs /\ meq probing (targets_of svcs).

(** [st = init_state]: nothing saved yet, nothing deployed.  Otherwise the
    state file holds exactly the current services. *)
Definition Inv (st : state) : Prop :=
  Inv_parts (st_services st) (st_probing st) /\
  (st = init_state \/ st_disk st = Some (st_services st)).

Lemma Inv_init : Inv init_state.
Proof.
  split; [|now left]. cbn. repeat split; try constructor.
Qed.

Lemma Inv_save svcs pr d : Inv_parts svcs pr -> Inv (save (mkState svcs pr d)).
Proof. intros H. split; [exact H|now right]. Qed.

Lemma Inv_save_st st : Inv st -> Inv (save st).
Proof. intros [H _]. split; [exact H|now right]. Qed.

(** *** restore *)

Definition restored (s : service) : service :=
  let p := s_pause s in
  mkSvc (s_name s) (s_opts s) (s_topts s) (s_active s) (s_rollout s)
        (match p_state p with
         | Paused => mkPause Paused [] (p_fail_after p) false
         | Running => mkPause Running [] (p_fail_after p) false
         | Stopped => mkPause Stopped (p_msg p) (p_fail_after p) false
         end)
        (s_roll s) (wants_cert fixed (s_opts s)).

Lemma restore_svc_fixed s :
  init_check fixed (s_opts s) = None -> restore_svc fixed s = Some (restored s).
Proof.
  intros H. unfold restore_svc, restored. rewrite H. cbn. now destruct (s_rollout s).
Qed.

Lemma restored_ok s : svc_ok s -> restored s = s.
Proof.
  intros (_ & [Hc Hm] & Hcert). unfold restored. rewrite <- Hcert.
  destruct s as [n o t a r [ps pm pf pc] ro hc]. cbn in *. subst pc.
  destruct ps; cbn; try rewrite Hm by discriminate; reflexivity.
Qed.

Lemma restore_all_ok l : Forall svc_ok l -> restore_all fixed l = Some l.
Proof.
  induction 1 as [|s l Hs Hl IH]; cbn [restore_all]; [reflexivity|].
  rewrite restore_svc_fixed by apply Hs. rewrite IH, restored_ok; auto.
Qed.

(** A restart of a state satisfying the invariant keeps the services exactly
    and probes exactly their targets. *)
Lemma restart_fixed st :
  Inv st -> restart fixed st = mkState (st_services st) (targets_of (st_services st)) (st_disk st).
Proof.
  intros [(Hwf & Hok & Hsync & _) [->|Hd]]; [reflexivity|].
  unfold restart. rewrite Hd, restore_all_ok by assumption.
  change (fold_left _ (st_services st) []) with (fold_left reinstall (st_services st) []).
  rewrite reinstall_all, Hsync by assumption. reflexivity.
Qed.

(** *** sync_tls keeps services ok *)

Lemma wants_cert_nonroot o : mem_str root_path (o_prefixes o) = false -> wants_cert fixed o = false.
Proof. unfold wants_cert. cbn. intros ->. apply andb_false_r. Qed.

Lemma svc_ok_sync_one src s : svc_ok s -> svc_ok (sync_one src s).
Proof.
  unfold sync_one. destruct (serves_root s) eqn:E; [auto|].
  destruct (src _) as [a b]. intros (Hi & Hp & Hc). unfold serves_root in E.
  unfold svc_ok. cbn [s_opts s_pause s_has_cert]. repeat split; try apply Hp.
  - unfold init_check in *. rewrite wants_cert_nonroot in * by exact E. exact Hi.
  - rewrite Hc. now rewrite !wants_cert_nonroot by exact E.
Qed.

Lemma Forall_svc_ok_sync l : Forall svc_ok l -> Forall svc_ok (sync_tls l).
Proof.
  rewrite sync_tls_eq, !Forall_forall. intros H s Hs. rewrite in_map_iff in Hs.
  destruct Hs as (x & <- & Hx). apply svc_ok_sync_one. auto.
Qed.

Lemma Forall_svc_remove {P : service -> Prop} l n : Forall P l -> Forall P (svc_remove l n).
Proof.
  rewrite !Forall_forall. intros H s Hs. apply in_svc_remove in Hs. apply H, Hs.
Qed.

Lemma pfx_ok_svc_remove l n : pfx_ok l -> pfx_ok (svc_remove l n).
Proof.
  unfold pfx_ok, pfxs. rewrite !Forall_forall. intros H ps Hps.
  rewrite in_map_iff in Hps. destruct Hps as (s & <- & Hs). apply in_svc_remove in Hs.
  apply H. apply in_map_iff. exists s. tauto.
Qed.

Lemma wf_svc_remove l n : wf l -> wf (svc_remove l n).
Proof. intros [H1 H2]. split; [now apply NoDup_svc_remove|now apply pfx_ok_svc_remove]. Qed.

Lemma wf_svc_set l s : wf l -> ~ In [] (o_prefixes (s_opts s)) -> wf (svc_set l s).
Proof.
  intros [H1 H2] Hs. split; [now apply NoDup_svc_set|].
  unfold svc_set, pfx_ok, pfxs. rewrite map_app, Forall_app. split.
  - now apply pfx_ok_svc_remove.
  - cbn. constructor; [assumption|constructor].
Qed.

(** *** install *)

Lemma parts_install l pr s' replaced added :
  Inv_parts l pr -> svc_ok s' -> ~ In [] (o_prefixes (s_opts s')) ->
  (forall x, count_str x (svc_targets s') + count_str x replaced =
             count_str x added + count_str x (old_targets l (s_name s'))) ->
  Inv_parts (install l s') (remove_all_of replaced (pr ++ added)).
Proof.
  intros (Hwf & Hok & Hsync & Hpr) Hs' Hp Hcnt. unfold install.
  assert (Hwf' : wf (svc_set l s')) by now apply wf_svc_set.
  repeat split.
  - apply wf_sync, Hwf'.
  - apply wf_sync, Hwf'.
  - apply Forall_svc_ok_sync. unfold svc_set. rewrite Forall_app. split.
    + now apply Forall_svc_remove.
    + now constructor.
  - now apply sync_idem.
  - intros x. rewrite count_remove_all, count_app, targets_of_sync. unfold svc_set.
    rewrite targets_of_app, count_app. rewrite (Hpr x).
    rewrite (count_targets_split x l (s_name s')) by apply Hwf.
    change (targets_of [s']) with (svc_targets s' ++ []). rewrite app_nil_r.
    specialize (Hcnt x). lia.
Qed.

(** *** remove *)

Lemma parts_remove l pr n s :
  Inv_parts l pr -> svc_get l n = Some s ->
  Inv_parts (sync_tls (svc_remove l n)) (remove_all_of (svc_targets s) pr).
Proof.
  intros (Hwf & Hok & Hsync & Hpr) Hg.
  assert (Hwf' : wf (svc_remove l n)) by now apply wf_svc_remove.
  repeat split.
  - apply wf_sync, Hwf'.
  - apply wf_sync, Hwf'.
  - apply Forall_svc_ok_sync. now apply Forall_svc_remove.
  - now apply sync_idem.
  - intros x. rewrite count_remove_all, targets_of_sync, (Hpr x).
    rewrite (count_targets_split x l n) by apply Hwf. unfold old_targets. rewrite Hg. lia.
Qed.

(** *** in-place update of one service (pause / rollout controller) *)

Definition same_static (s s' : service) : Prop :=
  s_name s' = s_name s /\ s_opts s' = s_opts s /\ s_active s' = s_active s /\
  s_rollout s' = s_rollout s /\ s_has_cert s' = s_has_cert s.

Definition repl (s' : service) (x : service) : service :=
  if str_eqb (s_name x) (s_name s') then s' else x.

Lemma repl_name s' x : s_name (repl s' x) = s_name x.
Proof. unfold repl. destruct (str_eqb _ _) eqn:E; [|reflexivity]. str_cases. auto. Qed.

Lemma repl_cases l s s' x :
  NoDup (names l) -> In s l -> s_name s' = s_name s -> In x l ->
  repl s' x = x \/ (x = s /\ repl s' x = s').
Proof.
  intros Hn Hs Hname Hx. unfold repl. destruct (str_eqb _ _) eqn:E; [|now left].
  right. split; [|reflexivity]. str_cases.
  pose proof (svc_get_in _ _ Hn Hs) as H1. pose proof (svc_get_in _ _ Hn Hx) as H2.
  rewrite E, Hname, H1 in H2. now inversion H2.
Qed.

Lemma sync_one_fix src s s' :
  sync_one src s = s -> s_opts s' = s_opts s -> sync_one src s' = s'.
Proof.
  unfold sync_one, serves_root, first_host. intros H Ho. rewrite Ho.
  destruct (mem_str root_path (o_prefixes (s_opts s))); [reflexivity|].
  destruct (src _) as [a b]. destruct s, s'. cbn in *. subst. inversion H. congruence.
Qed.

Lemma map_fix_in {A} (f : A -> A) l : map f l = l -> forall x, In x l -> f x = x.
Proof.
  induction l as [|y l IH]; cbn; [tauto|]. intros H. injection H as H1 H2.
  intros x [<-|Hx]; [assumption|]. now apply IH.
Qed.

Lemma tls_src_ext l l' h :
  table_of l = table_of l' ->
  (forall n, option_map s_opts (svc_get l n) = option_map s_opts (svc_get l' n)) ->
  tls_src l h = tls_src l' h.
Proof.
  intros Ht Hg. unfold tls_src. rewrite Ht. destruct (service_for _ _ _) as [[n p]|]; [|reflexivity].
  specialize (Hg n). destruct (svc_get l n), (svc_get l' n); cbn in Hg; congruence.
Qed.

Lemma parts_replace l pr n s s' :
  Inv_parts l pr -> svc_get l n = Some s -> same_static s s' -> pause_ok (s_pause s') ->
  Inv_parts (map (repl s') l) pr.
Proof.
  intros (Hwf & Hok & Hsync & Hpr) Hg (Hn & Ho & Ha & Hr & Hc) Hp.
  apply svc_get_some in Hg. destruct Hg as [Hs _].
  assert (Hcases := fun x => repl_cases l s s' x (proj1 Hwf) Hs Hn).
  assert (Hopts : forall x, In x l -> s_opts (repl s' x) = s_opts x).
  { intros x Hx. destruct (Hcases x Hx) as [->|[-> ->]]; auto. }
  assert (Hnames : names (map (repl s') l) = names l).
  { unfold names. rewrite map_map. apply map_ext, repl_name. }
  assert (Hpf : pfxs (map (repl s') l) = pfxs l).
  { unfold pfxs. rewrite map_map. apply map_ext_in. intros x Hx. now rewrite Hopts. }
  assert (Htab : table_of (map (repl s') l) = table_of l).
  { unfold table_of. rewrite map_map. apply map_ext_in. intros x Hx. unfold bi_of.
    now rewrite repl_name, Hopts. }
  repeat split.
  - rewrite Hnames. apply Hwf.
  - unfold pfx_ok. rewrite Hpf. apply Hwf.
  - rewrite Forall_forall in *. intros y Hy. rewrite in_map_iff in Hy.
    destruct Hy as (x & <- & Hx). destruct (Hcases x Hx) as [->|[-> ->]]; [auto|].
    destruct (Hok s Hs) as (H1 & H2 & H3). unfold svc_ok. rewrite Ho, Hc. auto.
  - rewrite sync_tls_eq, map_map. rewrite sync_tls_eq in Hsync.
    rewrite <- Hsync at 2. rewrite map_map. apply map_ext_in. intros x Hx.
    assert (Hfix : sync_one (tls_src l) x = x) by (apply (map_fix_in _ _ Hsync); assumption).
    transitivity (sync_one (tls_src l) (repl s' x)).
    + apply sync_one_ext. intros h. apply tls_src_ext; [assumption|].
      intros m. rewrite svc_get_map by apply repl_name.
      destruct (svc_get l m) as [r|] eqn:Er; [|reflexivity]. cbn.
      apply svc_get_some in Er. now rewrite Hopts.
    + rewrite Hfix. apply sync_one_fix with (s := x); [assumption|now apply Hopts].
  - intros x. rewrite (Hpr x). f_equal. symmetry. apply targets_of_map.
    intros y Hy. destruct (Hcases y Hy) as [->|[-> ->]]; [reflexivity|].
    unfold svc_targets. now rewrite Ha, Hr.
Qed.

(** ** deploy_into *)

Definition slot_new (s : service) (slot : bool) (nm : list str) : service :=
  if slot then with_rollout s (Some nm)
  else mkSvc (s_name s) (s_opts s) (s_topts s) nm (s_rollout s) (s_pause s) (s_roll s) (s_has_cert s).

Definition slot_old (s : service) (slot : bool) : list str :=
  if slot then match s_rollout s with Some ts => ts | None => [] end else s_active s.

(** deploy_into as the [fixed] code runs it: the phases in order. *)
Lemma deploy_into_fixed st s slot targets :
  deploy_into fixed st s slot targets =
  let nm := map tg_name targets in
  if negb (forallb valid_target_name nm) then (Err EInvalidTarget, st) else
  if negb (forallb tg_healthy targets) then (Err EUnhealthy, st) else
  if conflicts (table_of (st_services st)) (s_name s) (o_hosts (s_opts s)) (o_prefixes (s_opts s))
  then (Err EHostInUse, save st)
  else (Ok, save (mkState (install (st_services st) (slot_new s slot nm))
                          (remove_all_of (slot_old s slot) (st_probing st ++ nm)) (st_disk st))).
Proof. reflexivity. Qed.

Lemma slot_new_name s slot nm : s_name (slot_new s slot nm) = s_name s.
Proof. now destruct slot. Qed.

Lemma slot_new_opts s slot nm : s_opts (slot_new s slot nm) = s_opts s.
Proof. now destruct slot. Qed.

Lemma slot_new_ok s slot nm : svc_ok s -> svc_ok (slot_new s slot nm).
Proof. now destruct slot. Qed.

Lemma deploy_into_inv st s slot targets :
  Inv st -> svc_ok s -> ~ In [] (o_prefixes (s_opts s)) ->
  (forall x, count_str x (svc_targets s) = count_str x (old_targets (st_services st) (s_name s))) ->
  Inv (snd (deploy_into fixed st s slot targets)).
Proof.
  intros HI Hok Hp Hcnt. rewrite deploy_into_fixed. cbv zeta.
  destruct (negb (forallb valid_target_name _)); [exact HI|].
  destruct (negb (forallb tg_healthy _)); [exact HI|].
  destruct (conflicts _ _ _ _); cbn [snd]; [now apply Inv_save_st|].
  apply Inv_save. apply parts_install.
  - apply HI.
  - now apply slot_new_ok.
  - now rewrite slot_new_opts.
  - intros x. rewrite slot_new_name, <- (Hcnt x). unfold svc_targets.
    destruct slot; cbn [slot_new slot_old with_rollout s_active s_rollout];
      rewrite ?count_app; lia.
Qed.

(** ** One step preserves the invariant *)

Lemma normalize_prefixes_ok ps : ~ In [] (normalize_prefixes ps).
Proof.
  destruct ps as [|p ps]; cbn [normalize_prefixes].
  - intros [H|[]]. discriminate.
  - rewrite in_map_iff. intros (q & H & _). discriminate.
Qed.

Lemma svc_ok_in l s : Forall svc_ok l -> In s l -> svc_ok s.
Proof. rewrite Forall_forall. auto. Qed.

Lemma set_pause_state_ok s new msg :
  pause_ok (s_pause s) ->
  set_pause_state s new msg =
    Some (with_pause s (mkPause new msg (p_fail_after (s_pause s)) false)).
Proof.
  intros [Hc _]. unfold set_pause_state. rewrite Hc, andb_false_r.
  now destruct (match p_state (s_pause s) with Paused => _ | _ => _ end).
Qed.

Lemma same_static_with_pause s p : same_static s (with_pause s p).
Proof. repeat split. Qed.

Lemma same_static_with_roll s r : same_static s (with_roll s r).
Proof. repeat split. Qed.

Lemma save_replace st s' :
  save (replace_svc st s') = save (mkState (map (repl s') (st_services st)) (st_probing st) (st_disk st)).
Proof. reflexivity. Qed.

Lemma replace_inv st n s s' :
  Inv st -> svc_get (st_services st) n = Some s -> same_static s s' -> pause_ok (s_pause s') ->
  Inv (save (replace_svc st s')).
Proof.
  intros [HI _] Hg Hs Hp. rewrite save_replace. apply Inv_save. eapply parts_replace; eauto.
Qed.

Lemma get_ok st n s : Inv st -> svc_get (st_services st) n = Some s -> svc_ok s.
Proof.
  intros [(_ & Hok & _) _] Hg. apply svc_get_some in Hg. eapply svc_ok_in; [eassumption|apply Hg].
Qed.

Lemma exec_inv st c : Inv st -> Inv (snd (exec fixed st c)).
Proof.
  intros HI. destruct c as [name o t targets|name targets|name pct allow|name|name fa|name msg|name|name|];
    cbn [exec]; unfold on_service.
  - (* Deploy *)
    destruct (init_check fixed (normalize o)) as [e|] eqn:Ei; [exact HI|].
    apply deploy_into_inv; [exact HI| | |].
    + destruct (svc_get (st_services st) name) as [old|] eqn:Eg.
      * destruct (get_ok _ _ _ HI Eg) as (_ & Hp & _).
        split; [exact Ei|split; [exact Hp|reflexivity]].
      * split; [exact Ei|split; [split; reflexivity|reflexivity]].
    + destruct (svc_get (st_services st) name); cbn; apply normalize_prefixes_ok.
    + intros x. unfold old_targets.
      destruct (svc_get (st_services st) name) as [old|] eqn:Eg; cbn [s_name]; rewrite Eg; reflexivity.
  - (* RolloutDeploy *)
    destruct (svc_get (st_services st) name) as [s|] eqn:Eg; [|exact HI].
    apply deploy_into_inv; [exact HI|eapply get_ok; eauto| |].
    + apply svc_get_some in Eg. eapply pfx_ok_in; [apply HI|apply Eg].
    + intros x. unfold old_targets. destruct (svc_get_some _ _ _ Eg) as [_ ->]. now rewrite Eg.
  - (* RolloutSet *)
    destruct (svc_get (st_services st) name) as [s|] eqn:Eg; [|now apply Inv_save_st].
    destruct (s_rollout s); cbn [snd]; [|now apply Inv_save_st].
    eapply replace_inv; [exact HI|exact Eg|apply same_static_with_roll|].
    apply (get_ok _ _ _ HI Eg).
  - (* RolloutStop *)
    destruct (svc_get (st_services st) name) as [s|] eqn:Eg; [|now apply Inv_save_st].
    eapply replace_inv; [exact HI|exact Eg|apply same_static_with_roll|].
    apply (get_ok _ _ _ HI Eg).
  - (* Pause *)
    destruct (svc_get (st_services st) name) as [s|] eqn:Eg; [|now apply Inv_save_st].
    eapply replace_inv; [exact HI|exact Eg|apply same_static_with_pause|].
    destruct (get_ok _ _ _ HI Eg) as (_ & [Hc _] & _). split; [|reflexivity].
    cbn. rewrite Hc. now destruct (p_state (s_pause s)).
  - (* Stop *)
    destruct (svc_get (st_services st) name) as [s|] eqn:Eg; [|now apply Inv_save_st].
    destruct (get_ok _ _ _ HI Eg) as (_ & Hp & _). rewrite set_pause_state_ok by exact Hp.
    eapply replace_inv; [exact HI|exact Eg|apply same_static_with_pause|].
    split; [reflexivity|]. cbn. congruence.
  - (* Resume *)
    destruct (svc_get (st_services st) name) as [s|] eqn:Eg; [|now apply Inv_save_st].
    destruct (get_ok _ _ _ HI Eg) as (_ & Hp & _). rewrite set_pause_state_ok by exact Hp.
    eapply replace_inv; [exact HI|exact Eg|apply same_static_with_pause|].
    split; reflexivity.
  - (* Remove *)
    destruct (svc_get (st_services st) name) as [s|] eqn:Eg; [|now apply Inv_save_st].
    apply Inv_save. apply parts_remove; [apply HI|exact Eg].
  - (* Restart *)
    cbn [snd]. rewrite restart_fixed by exact HI.
    destruct HI as [(Hwf & Hok & Hsync & Hpr) Hd]. split.
    + repeat split; try assumption; apply Hwf.
    + destruct Hd as [->|Hd]; [now left|now right].
Qed.

Lemma exec_all_inv cs : forall st, Inv st -> Inv (exec_all fixed st cs).
Proof.
  induction cs as [|c cs IH]; intros st HI; [exact HI|]. cbn [exec_all]. apply IH. now apply exec_inv.
Qed.

Lemma reachable_inv st : reachable fixed st -> Inv st.
Proof. intros [cs ->]. apply exec_all_inv, Inv_init. Qed.

Lemma exec_all_app v cs1 cs2 st : exec_all v st (cs1 ++ cs2) = exec_all v (exec_all v st cs1) cs2.
Proof. revert st. induction cs1 as [|c cs1 IH]; intros st; cbn [exec_all app]; auto. Qed.

Lemma reachable_step v st c : reachable v st -> reachable v (snd (exec v st c)).
Proof.
  intros [cs ->]. exists (cs ++ [c]). now rewrite exec_all_app.
Qed.

(** ** C06: a command that fails *)

Lemma deploy_into_err st s slot targets e st' :
  deploy_into fixed st s slot targets = (Err e, st') -> st' = st \/ st' = save st.
Proof.
  rewrite deploy_into_fixed. cbv zeta.
  destruct (negb (forallb valid_target_name _)); [intros H; inversion H; auto|].
  destruct (negb (forallb tg_healthy _)); [intros H; inversion H; auto|].
  destruct (conflicts _ _ _ _); intros H; inversion H; auto.
Qed.

(** Every failing command returns the state it was given, possibly after
    rewriting the state file from it. *)
Lemma exec_err_shape st c e st' : exec fixed st c = (Err e, st') -> st' = st \/ st' = save st.
Proof.
  destruct c as [name o t targets|name targets|name pct allow|name|name fa|name msg|name|name|];
    cbn [exec]; unfold on_service.
  - destruct (init_check fixed (normalize o)); [intros H; inversion H; auto|]. apply deploy_into_err.
  - destruct (svc_get (st_services st) name); [apply deploy_into_err|intros H; inversion H; auto].
  - destruct (svc_get (st_services st) name) as [s|]; [|intros H; inversion H; auto].
    destruct (s_rollout s); intros H; inversion H; auto.
  - destruct (svc_get (st_services st) name); intros H; inversion H; auto.
  - destruct (svc_get (st_services st) name); intros H; inversion H; auto.
  - destruct (svc_get (st_services st) name) as [s|]; [|intros H; inversion H; auto].
    destruct (set_pause_state s Stopped msg); intros H; inversion H.
  - destruct (svc_get (st_services st) name) as [s|]; [|intros H; inversion H; auto].
    destruct (set_pause_state s Running []); intros H; inversion H.
  - destruct (svc_get (st_services st) name); intros H; inversion H; auto.
  - intros H; inversion H.
Qed.

Lemma exec_err_services st c e st' : exec fixed st c = (Err e, st') -> st_services st' = st_services st.
Proof. intros H. destruct (exec_err_shape _ _ _ _ H) as [->| ->]; reflexivity. Qed.

Lemma exec_err_probing st c e st' : exec fixed st c = (Err e, st') -> st_probing st' = st_probing st.
Proof. intros H. destruct (exec_err_shape _ _ _ _ H) as [->| ->]; reflexivity. Qed.

(** The state file: untouched, or rewritten with the same content; when no
    file existed yet (nothing was ever deployed) an empty one may appear. *)
Lemma exec_err_disk st c e st' :
  Inv st -> exec fixed st c = (Err e, st') ->
  st_disk st' = st_disk st \/
  (st_disk st = None /\ st_services st' = [] /\ st_disk st' = Some (st_services st')).
Proof.
  intros [_ Hd] H. destruct (exec_err_shape _ _ _ _ H) as [->| ->]; [now left|].
  destruct Hd as [->|Hd]; [right; repeat split|left; now rewrite Hd].
Qed.

Lemma exec_err_serve ig st c e st' q :
  exec fixed st c = (Err e, st') -> serve ig st' q = serve ig st q.
Proof. intros H. unfold serve. now rewrite (exec_err_services _ _ _ _ H). Qed.

Lemma exec_err_list st c e st' :
  exec fixed st c = (Err e, st') -> list_services st' = list_services st.
Proof. intros H. unfold list_services. now rewrite (exec_err_services _ _ _ _ H). Qed.

Lemma exec_err_saved st c e st' :
  Inv st -> exec fixed st c = (Err e, st') -> st_disk st <> None ->
  option_map (map snap_of) (st_disk st') = option_map (map snap_of) (st_disk st).
Proof.
  intros HI H Hn. destruct (exec_err_disk _ _ _ _ HI H) as [->|[Hd _]]; [reflexivity|contradiction].
Qed.

(** ** Panic (any variant): the state is returned as given *)

Lemma deploy_into_not_panic v st s slot targets : fst (deploy_into v st s slot targets) <> Panic.
Proof.
  unfold deploy_into.
  destruct (negb (forallb valid_target_name _)); [discriminate|].
  destruct (negb (forallb tg_healthy _)); [discriminate|].
  destruct (conflicts _ _ _ _); discriminate.
Qed.

Lemma exec_panic_unchanged v st c st' : exec v st c = (Panic, st') -> st' = st.
Proof.
  destruct c as [name o t targets|name targets|name pct allow|name|name fa|name msg|name|name|];
    cbn [exec]; unfold on_service.
  - destruct (init_check v (normalize o)); [discriminate|].
    intros H. exfalso. eapply deploy_into_not_panic. rewrite H. reflexivity.
  - destruct (svc_get (st_services st) name); [|discriminate].
    intros H. exfalso. eapply deploy_into_not_panic. rewrite H. reflexivity.
  - destruct (svc_get (st_services st) name) as [s|]; [|discriminate]. destruct (s_rollout s); discriminate.
  - destruct (svc_get (st_services st) name); discriminate.
  - destruct (svc_get (st_services st) name); discriminate.
  - destruct (svc_get (st_services st) name) as [s|]; [|discriminate].
    destruct (set_pause_state s Stopped msg); intros H; inversion H; reflexivity.
  - destruct (svc_get (st_services st) name) as [s|]; [|discriminate].
    destruct (set_pause_state s Running []); intros H; inversion H; reflexivity.
  - destruct (svc_get (st_services st) name); discriminate.
  - discriminate.
Qed.

(** ** C18 (sequential part): no command panics in a reachable state *)

Lemma exec_no_panic st c : Inv st -> fst (exec fixed st c) <> Panic.
Proof.
  intros HI. destruct c as [name o t targets|name targets|name pct allow|name|name fa|name msg|name|name|];
    cbn [exec]; unfold on_service.
  - destruct (init_check fixed (normalize o)); [discriminate|]. apply deploy_into_not_panic.
  - destruct (svc_get (st_services st) name); [apply deploy_into_not_panic|discriminate].
  - destruct (svc_get (st_services st) name) as [s|]; [|discriminate]. destruct (s_rollout s); discriminate.
  - destruct (svc_get (st_services st) name); discriminate.
  - destruct (svc_get (st_services st) name); discriminate.
  - destruct (svc_get (st_services st) name) as [s|] eqn:Eg; [|discriminate].
    destruct (get_ok _ _ _ HI Eg) as (_ & Hp & _). rewrite set_pause_state_ok by exact Hp. discriminate.
  - destruct (svc_get (st_services st) name) as [s|] eqn:Eg; [|discriminate].
    destruct (get_ok _ _ _ HI Eg) as (_ & Hp & _). rewrite set_pause_state_ok by exact Hp. discriminate.
  - destruct (svc_get (st_services st) name); discriminate.
  - discriminate.
Qed.

Lemma no_panic_seq cs c : fst (exec fixed (exec_all fixed init_state cs) c) <> Panic.
Proof. apply exec_no_panic, exec_all_inv, Inv_init. Qed.

(** ** Empty rollout target sets

    `rollout deploy` with no targets succeeds (NewTargetList of nothing is
    legal and vacuously healthy) and leaves a rollout balancer without
    targets: [s_rollout = Some []].  It is the only way to get one. *)

Definition rollout_deploy_nonempty (c : cmd) : Prop :=
  match c with RolloutDeploy _ [] => False | _ => True end.

Definition Rn (l : list service) : Prop := Forall (fun s => s_rollout s <> Some []) l.

Lemma sync_one_rollout src s : s_rollout (sync_one src s) = s_rollout s.
Proof. unfold sync_one. destruct (serves_root s); [reflexivity|]. now destruct (src _). Qed.

Lemma Rn_sync l : Rn l -> Rn (sync_tls l).
Proof.
  unfold Rn. rewrite sync_tls_eq, !Forall_forall. intros H s Hs. rewrite in_map_iff in Hs.
  destruct Hs as (x & <- & Hx). rewrite sync_one_rollout. auto.
Qed.

Lemma Rn_install l s : Rn l -> s_rollout s <> Some [] -> Rn (install l s).
Proof.
  intros Hl Hs. unfold install. apply Rn_sync. unfold Rn, svc_set. rewrite Forall_app. split.
  - now apply Forall_svc_remove.
  - now constructor.
Qed.

Lemma Rn_repl l s' : Rn l -> s_rollout s' <> Some [] -> Rn (map (repl s') l).
Proof.
  unfold Rn. rewrite !Forall_forall. intros H Hs y Hy. rewrite in_map_iff in Hy.
  destruct Hy as (x & <- & Hx). unfold repl. destruct (str_eqb _ _); auto.
Qed.

Lemma Rn_get l n s : Rn l -> svc_get l n = Some s -> s_rollout s <> Some [].
Proof.
  unfold Rn. rewrite Forall_forall. intros H Hg. apply svc_get_some in Hg. apply H, Hg.
Qed.

Lemma deploy_into_rn st s slot targets :
  Rn (st_services st) -> s_rollout (slot_new s slot (map tg_name targets)) <> Some [] ->
  Rn (st_services (snd (deploy_into fixed st s slot targets))).
Proof.
  intros H Hs. rewrite deploy_into_fixed. cbv zeta.
  destruct (negb (forallb valid_target_name _)); [exact H|].
  destruct (negb (forallb tg_healthy _)); [exact H|].
  destruct (conflicts _ _ _ _); cbn [snd]; [exact H|]. now apply Rn_install.
Qed.

Lemma exec_rn st c :
  Inv st -> rollout_deploy_nonempty c -> Rn (st_services st) -> Rn (st_services (snd (exec fixed st c))).
Proof.
  intros HI Hc H. destruct c as [name o t targets|name targets|name pct allow|name|name fa|name msg|name|name|];
    cbn [exec]; unfold on_service.
  - destruct (init_check fixed (normalize o)); [exact H|]. apply deploy_into_rn; [exact H|].
    destruct (svc_get (st_services st) name) as [old|] eqn:Eg; cbn; [|discriminate].
    eapply Rn_get; eauto.
  - destruct (svc_get (st_services st) name) as [s|] eqn:Eg; [|exact H].
    apply deploy_into_rn; [exact H|]. cbn. destruct targets; [contradiction|discriminate].
  - destruct (svc_get (st_services st) name) as [s|] eqn:Eg; [|exact H].
    destruct (s_rollout s) eqn:Er; [|exact H]. rewrite save_replace. cbn.
    apply Rn_repl; [exact H|]. cbn. rewrite Er. intros K. rewrite <- Er in K. revert K. eapply Rn_get; eauto.
  - destruct (svc_get (st_services st) name) as [s|] eqn:Eg; [|exact H].
    rewrite save_replace. cbn. apply Rn_repl; [exact H|]. cbn. eapply Rn_get; eauto.
  - destruct (svc_get (st_services st) name) as [s|] eqn:Eg; [|exact H].
    rewrite save_replace. cbn. apply Rn_repl; [exact H|]. cbn. eapply Rn_get; eauto.
  - destruct (svc_get (st_services st) name) as [s|] eqn:Eg; [|exact H].
    destruct (get_ok _ _ _ HI Eg) as (_ & Hp & _). rewrite set_pause_state_ok by exact Hp.
    rewrite save_replace. cbn. apply Rn_repl; [exact H|]. cbn. eapply Rn_get; eauto.
  - destruct (svc_get (st_services st) name) as [s|] eqn:Eg; [|exact H].
    destruct (get_ok _ _ _ HI Eg) as (_ & Hp & _). rewrite set_pause_state_ok by exact Hp.
    rewrite save_replace. cbn. apply Rn_repl; [exact H|]. cbn. eapply Rn_get; eauto.
  - destruct (svc_get (st_services st) name) as [s|] eqn:Eg; [|exact H].
    cbn. apply Rn_sync. now apply Forall_svc_remove.
  - cbn [snd]. rewrite restart_fixed by exact HI. exact H.
Qed.

Lemma rollout_nonempty cs :
  Forall rollout_deploy_nonempty cs ->
  Forall (fun s => s_rollout s <> Some []) (st_services (exec_all fixed init_state cs)).
Proof.
  assert (G : forall cs st, Inv st -> Rn (st_services st) -> Forall rollout_deploy_nonempty cs ->
                            Rn (st_services (exec_all fixed st cs))).
  { clear cs. induction cs as [|c cs IH]; intros st HI H Hcs; [exact H|].
    inversion Hcs; subst. cbn [exec_all]. apply IH; [now apply exec_inv|now apply exec_rn|assumption]. }
  intros H. apply G; [apply Inv_init|constructor|exact H].
Qed.

(** ** No two installed services share a (host, prefix) pair; hence
    re-installing an installed service (rollout deploy) never conflicts *)

Definition PW (t : table) : Prop :=
  forall a b, In a t -> In b t -> bi_name a <> bi_name b ->
  forall h p, In h (bi_hosts a) -> In p (bi_prefixes a) -> In h (bi_hosts b) -> In p (bi_prefixes b) -> False.

Lemma in_bindings_for_rev t h p b :
  In b t -> In h (bi_hosts b) -> In p (bi_prefixes b) -> In (p, bi_name b) (bindings_for t h).
Proof.
  intros Hb Hh Hp. unfold bindings_for. rewrite in_flat_map. exists b. split; [assumption|].
  rewrite in_flat_map. exists h. split; [assumption|]. rewrite str_eqb_refl.
  apply in_map_iff. exists p. auto.
Qed.

Lemma conflicts_true_iff t name hosts prefixes :
  conflicts t name hosts prefixes = true <->
  exists h p b, In h hosts /\ In p prefixes /\ In b t /\ bi_name b <> name /\
                In h (bi_hosts b) /\ In p (bi_prefixes b).
Proof.
  unfold conflicts. rewrite existsb_exists. split.
  - intros (h & Hh & H). rewrite existsb_exists in H. destruct H as (p & Hp & H).
    rewrite existsb_exists in H. destruct H as ([p' n'] & Hb & H). cbn [fst snd] in H.
    rewrite andb_true_iff, negb_true_iff in H. destruct H as [H1 H2]. str_cases. subst p'.
    apply in_bindings_for in Hb. destruct Hb as (b & Hb & Hn & Hpb & Hhb). subst n'.
    exists h, p, b. repeat split; assumption.
  - intros (h & p & b & Hh & Hp & Hb & Hn & Hhb & Hpb). exists h. split; [assumption|].
    rewrite existsb_exists. exists p. split; [assumption|].
    rewrite existsb_exists. exists (p, bi_name b). split; [now apply in_bindings_for_rev|].
    cbn [fst snd]. rewrite str_eqb_refl. cbn. apply negb_true_iff. now apply str_eqb_neq.
Qed.

Lemma PW_no_conflict l s :
  PW (table_of l) -> In s l ->
  conflicts (table_of l) (s_name s) (o_hosts (s_opts s)) (o_prefixes (s_opts s)) = false.
Proof.
  intros H Hs. destruct (conflicts _ _ _ _) eqn:E; [|reflexivity]. exfalso.
  apply conflicts_true_iff in E. destruct E as (h & p & b & Hh & Hp & Hb & Hn & Hhb & Hpb).
  apply (H b (bi_of s)) with (h := h) (p := p); auto. unfold table_of. now apply in_map.
Qed.

Lemma in_table_remove l n b : In b (table_of (svc_remove l n)) -> In b (table_of l) /\ bi_name b <> n.
Proof.
  unfold table_of. rewrite in_map_iff. intros (s & <- & Hs). apply in_svc_remove in Hs.
  destruct Hs. split; [now apply in_map|assumption].
Qed.

Lemma PW_remove l n : PW (table_of l) -> PW (table_of (svc_remove l n)).
Proof.
  intros H a b Ha Hb. apply in_table_remove in Ha, Hb. apply H; tauto.
Qed.

Lemma PW_install l s :
  PW (table_of l) ->
  conflicts (table_of l) (s_name s) (o_hosts (s_opts s)) (o_prefixes (s_opts s)) = false ->
  PW (table_of (install l s)).
Proof.
  intros H Hc. unfold install. rewrite table_sync. unfold svc_set, table_of. rewrite map_app.
  fold (table_of (svc_remove l (s_name s))). cbn [map].
  assert (Hnew : forall a, In a (table_of (svc_remove l (s_name s))) ->
            forall h p, In h (bi_hosts a) -> In p (bi_prefixes a) ->
                        In h (o_hosts (s_opts s)) -> In p (o_prefixes (s_opts s)) -> False).
  { intros a Ha h p H1 H2 H3 H4. apply in_table_remove in Ha. destruct Ha as [Ha Hn].
    assert (E : conflicts (table_of l) (s_name s) (o_hosts (s_opts s)) (o_prefixes (s_opts s)) = true).
    { apply conflicts_true_iff. exists h, p, a. repeat split; assumption. }
    congruence. }
  intros a b Ha Hb Hn h p H1 H2 H3 H4. rewrite in_app_iff in Ha, Hb. cbn [In] in Ha, Hb.
  destruct Ha as [Ha|[<-|[]]], Hb as [Hb|[<-|[]]].
  - eapply (PW_remove l (s_name s) H a b); eauto.
  - eapply Hnew; eauto.
  - eapply Hnew; eauto.
  - now apply Hn.
Qed.

Lemma table_repl l n s s' :
  NoDup (names l) -> svc_get l n = Some s -> s_name s' = s_name s -> s_opts s' = s_opts s ->
  table_of (map (repl s') l) = table_of l.
Proof.
  intros Hn Hg H1 H2. apply svc_get_some in Hg. destruct Hg as [Hs _].
  unfold table_of. rewrite map_map. apply map_ext_in. intros x Hx.
  destruct (repl_cases l s s' x Hn Hs H1 Hx) as [->|[-> ->]]; [reflexivity|].
  unfold bi_of. now rewrite H1, H2.
Qed.

Lemma deploy_into_pw st s slot targets :
  PW (table_of (st_services st)) ->
  PW (table_of (st_services (snd (deploy_into fixed st s slot targets)))).
Proof.
  intros H. rewrite deploy_into_fixed. cbv zeta.
  destruct (negb (forallb valid_target_name _)); [exact H|].
  destruct (negb (forallb tg_healthy _)); [exact H|].
  destruct (conflicts _ _ _ _) eqn:E; cbn [snd]; [exact H|].
  cbn [save st_services]. apply PW_install; [exact H|]. now rewrite slot_new_name, slot_new_opts.
Qed.

Lemma exec_pw st c :
  Inv st -> PW (table_of (st_services st)) -> PW (table_of (st_services (snd (exec fixed st c)))).
Proof.
  intros HI H.
  assert (Hrep : forall n s s', svc_get (st_services st) n = Some s -> same_static s s' ->
            PW (table_of (st_services (save (replace_svc st s'))))).
  { intros n s s' Hg (H1 & H2 & _). rewrite save_replace. cbn [save st_services].
    erewrite table_repl; eauto. apply HI. }
  destruct c as [name o t targets|name targets|name pct allow|name|name fa|name msg|name|name|];
    cbn [exec]; unfold on_service.
  - destruct (init_check fixed (normalize o)); [exact H|]. now apply deploy_into_pw.
  - destruct (svc_get (st_services st) name); [now apply deploy_into_pw|exact H].
  - destruct (svc_get (st_services st) name) as [s|] eqn:Eg; [|exact H].
    destruct (s_rollout s); [|exact H]. cbn [snd]. eapply Hrep; [exact Eg|apply same_static_with_roll].
  - destruct (svc_get (st_services st) name) as [s|] eqn:Eg; [|exact H].
    cbn [snd]. eapply Hrep; [exact Eg|apply same_static_with_roll].
  - destruct (svc_get (st_services st) name) as [s|] eqn:Eg; [|exact H].
    cbn [snd]. eapply Hrep; [exact Eg|apply same_static_with_pause].
  - destruct (svc_get (st_services st) name) as [s|] eqn:Eg; [|exact H].
    destruct (get_ok _ _ _ HI Eg) as (_ & Hp & _). rewrite set_pause_state_ok by exact Hp.
    cbn [snd]. eapply Hrep; [exact Eg|apply same_static_with_pause].
  - destruct (svc_get (st_services st) name) as [s|] eqn:Eg; [|exact H].
    destruct (get_ok _ _ _ HI Eg) as (_ & Hp & _). rewrite set_pause_state_ok by exact Hp.
    cbn [snd]. eapply Hrep; [exact Eg|apply same_static_with_pause].
  - destruct (svc_get (st_services st) name) as [s|] eqn:Eg; [|exact H].
    cbn [snd save st_services]. rewrite table_sync. now apply PW_remove.
  - cbn [snd]. rewrite restart_fixed by exact HI. exact H.
Qed.

Lemma reachable_pw st : reachable fixed st -> PW (table_of (st_services st)).
Proof.
  intros [cs ->].
  assert (G : forall cs st, Inv st -> PW (table_of (st_services st)) ->
                            PW (table_of (st_services (exec_all fixed st cs)))).
  { clear cs. induction cs as [|c cs IH]; intros st HI H; [exact H|].
    cbn [exec_all]. apply IH; [now apply exec_inv|now apply exec_pw]. }
  apply G; [apply Inv_init|]. intros a b [].
Qed.

(** `rollout deploy` re-installs the service it found: it cannot be refused
    for a host conflict (so the update of the live service's rollout slot
    that the code makes before installing is never left half done). *)
Lemma rollout_deploy_no_conflict st name targets :
  reachable fixed st -> fst (exec fixed st (RolloutDeploy name targets)) <> Err EHostInUse.
Proof.
  intros Hr. cbn [exec]. destruct (svc_get (st_services st) name) as [s|] eqn:Eg; [|discriminate].
  rewrite deploy_into_fixed. cbv zeta.
  destruct (negb (forallb valid_target_name _)); [discriminate|].
  destruct (negb (forallb tg_healthy _)); [discriminate|].
  rewrite PW_no_conflict; [discriminate|now apply reachable_pw|].
  apply svc_get_some in Eg. apply Eg.
Qed.

(** C06, assembled. *)
Lemma exec_err_atomic st c e st' :
  reachable fixed st -> exec fixed st c = (Err e, st') ->
  st_services st' = st_services st /\
  st_probing st' = st_probing st /\
  (st_disk st' = st_disk st \/
   (st_disk st = None /\ st_services st' = [] /\ st_disk st' = Some (st_services st'))).
Proof.
  intros Hr H. split; [eapply exec_err_services; eauto|].
  split; [eapply exec_err_probing; eauto|]. eapply exec_err_disk; eauto using reachable_inv.
Qed.
