(** HtmlFacts.v — proofs about model/Html.v (property C08): the rune loop of
    html/template's text escaper equals the byte-wise escaper; the escaped
    text is inert; unescaping gives the message back (NUL as U+FFFD); the 503
    body is a function of the escaped message only. *)
From KP Require Import model.Base model.Html.
From Coq Require Import ZifyN ZifyNat ZifyBool.
Local Open Scope N_scope.

(** * The replacement table *)

Lemma replacement_none r : 63 <= r -> replacement r = None.
Proof.
  intros H. unfold replacement.
  repeat match goal with |- context[?a =? ?b] => destruct (N.eqb_spec a b); [lia|] end.
  reflexivity.
Qed.

Lemma replacement_guard r :
  (if r <? replacement_table_len then replacement r else None) = replacement r.
Proof.
  unfold replacement_table_len. destruct (N.ltb_spec r 63); [reflexivity|].
  symmetry. now apply replacement_none.
Qed.

Lemma esc_byte_high b : 63 <= byte_n b -> byte_n b <> 0 -> esc_byte b = [b].
Proof. intros H _. unfold esc_byte. now rewrite replacement_none. Qed.

Lemma in_range_iff lo hi b : in_range lo hi b = true <-> lo <= byte_n b /\ byte_n b <= hi.
Proof. unfold in_range. rewrite andb_true_iff, !N.leb_le. tauto. Qed.

Lemma is_cont_high b : is_cont b = true -> 128 <= byte_n b.
Proof. unfold is_cont. rewrite in_range_iff. lia. Qed.

Lemma html_escape_app a b : html_escape (a ++ b) = html_escape a ++ html_escape b.
Proof. apply flat_map_app. Qed.

(** * The rune loop equals the byte-wise escaper *)

(** One iteration of htmlReplacer: what it writes is the byte-wise escape of
    the bytes it consumes, and it consumes at least one and no more than there
    are. *)
Lemma replacer_step b0 r :
  let s := b0 :: r in
  let '(rn, w) := decode_rune s in
  (1 <= w <= length s)%nat /\
  match (if rn <? replacement_table_len then replacement rn else None) with
  | Some e => e
  | None => firstn w s
  end = html_escape (firstn w s).
Proof.
  cbv zeta. unfold decode_rune.
  assert (Hhi : forall b, 128 <= byte_n b -> esc_byte b = [b]).
  { intros b H. apply esc_byte_high; lia. }
  assert (Herr : forall x : str, match (if rune_error <? replacement_table_len then replacement rune_error else None) with
                        | Some e => e | None => x end = x) by reflexivity.
  destruct (N.ltb_spec (byte_n b0) 128) as [Ha|Ha].
  { (* ASCII *)
    split; [cbn; lia|]. rewrite replacement_guard. cbn. unfold esc_byte.
    destruct (replacement (byte_n b0)); now rewrite ?app_nil_r. }
  assert (E0 : esc_byte b0 = [b0]) by now apply Hhi.
  assert (One : html_escape (firstn 1 (b0 :: r)) = firstn 1 (b0 :: r)).
  { cbn. now rewrite E0. }
  destruct (N.ltb_spec (byte_n b0) 194); [split; [cbn; lia|]; now rewrite Herr, One|].
  destruct (N.ltb_spec (byte_n b0) 224).
  { destruct r as [|b1 r]; [split; [cbn; lia|]; now rewrite Herr, One|].
    destruct (is_cont b1) eqn:C1; [|split; [cbn; lia|]; now rewrite Herr, One].
    apply is_cont_high in C1. split; [cbn; lia|].
    rewrite replacement_guard, replacement_none by lia.
    cbn. now rewrite E0, (Hhi b1 C1). }
  destruct (N.ltb_spec (byte_n b0) 240).
  { destruct r as [|b1 [|b2 r]]; try (split; [cbn; lia|]; now rewrite Herr, One).
    match goal with |- context[if ?c then _ else _] => destruct c eqn:C end;
      [|split; [cbn; lia|]; now rewrite Herr, One].
    apply andb_true_iff in C as [C1 C2]. apply in_range_iff in C1. apply is_cont_high in C2.
    assert (128 <= byte_n b1) by (destruct (byte_n b0 =? 224); lia).
    split; [cbn; lia|].
    rewrite replacement_guard, replacement_none.
    - cbn. now rewrite E0, (Hhi b1), (Hhi b2).
    - destruct (N.eqb_spec (byte_n b0) 224); lia. }
  destruct (N.ltb_spec (byte_n b0) 245); [|split; [cbn; lia|]; now rewrite Herr, One].
  destruct r as [|b1 [|b2 [|b3 r]]]; try (split; [cbn; lia|]; now rewrite Herr, One).
  match goal with |- context[if ?c then _ else _] => destruct c eqn:C end;
    [|split; [cbn; lia|]; now rewrite Herr, One].
  apply andb_true_iff in C as [C C3]. apply andb_true_iff in C as [C1 C2].
  apply in_range_iff in C1. apply is_cont_high in C2, C3.
  assert (128 <= byte_n b1) by (destruct (byte_n b0 =? 240); lia).
  split; [cbn; lia|].
  rewrite replacement_guard, replacement_none.
  - cbn. now rewrite E0, (Hhi b1), (Hhi b2), (Hhi b3).
  - destruct (N.eqb_spec (byte_n b0) 240); lia.
Qed.

Lemma html_replacer_bytewise : forall fuel s, (length s <= fuel)%nat -> html_replacer fuel s = html_escape s.
Proof.
  induction fuel as [|f IH]; intros s Hl.
  - destruct s; [reflexivity|cbn in Hl; lia].
  - destruct s as [|b0 r]; [reflexivity|].
    cbn [html_replacer].
    pose proof (replacer_step b0 r) as Hs. cbv zeta in Hs.
    destruct (decode_rune (b0 :: r)) as [rn w]. destruct Hs as [Hw Ho].
    rewrite Ho, IH.
    + rewrite <- html_escape_app. now rewrite firstn_skipn.
    + rewrite skipn_length. cbn [length] in *. lia.
Qed.

(** html/template's escaper (rune loop) = the byte-wise escaper, on every
    byte string, well-formed UTF-8 or not. *)
Lemma html_escape_go_bytewise s : html_escape_go s = html_escape s.
Proof. unfold html_escape_go. now apply html_replacer_bytewise. Qed.

(** * Inertness *)

(** Bytes that never occur in escaped text. *)
Definition markup_byte (b : byte) : bool :=
  byte_eqb b x3c || byte_eqb b x3e || byte_eqb b x22 || byte_eqb b x27 || byte_eqb b x00.

Lemma esc_byte_safe b : forallb (fun c => negb (markup_byte c)) (esc_byte b) = true.
Proof. destruct b; reflexivity. Qed.

Lemma escape_no_markup m c : In c (html_escape m) -> markup_byte c = false.
Proof.
  unfold html_escape. rewrite in_flat_map. intros (b & _ & Hc).
  pose proof (esc_byte_safe b) as H. rewrite forallb_forall in H.
  specialize (H c Hc). now apply negb_true_iff.
Qed.

Lemma has_prefix_nil s : has_prefix s [] = true.
Proof. destruct s; reflexivity. Qed.

(** Every '&' is followed by one of the entity tails. *)
Fixpoint amps_ok (s : str) : bool :=
  match s with
  | [] => true
  | b :: r =>
    (if byte_eqb b amp then match match_entity entity_tails r with Some _ => true | None => false end else true)
    && amps_ok r
  end.

Lemma amps_ok_esc b E : amps_ok E = true -> amps_ok (esc_byte b ++ E) = true.
Proof. intros H. destruct b; cbn; rewrite ?has_prefix_nil; cbn; exact H. Qed.

Lemma escape_amps_ok m : amps_ok (html_escape m) = true.
Proof.
  induction m as [|b m IH]; [reflexivity|].
  change (html_escape (b :: m)) with (esc_byte b ++ html_escape m). now apply amps_ok_esc.
Qed.

Lemma match_entity_some l r n c :
  match_entity l r = Some (n, c) -> exists t, In (t, c) l /\ n = length t /\ has_prefix r t = true.
Proof.
  induction l as [|[t c'] l IH]; cbn; [discriminate|].
  destruct (has_prefix r t) eqn:E.
  - intros H; inversion H; subst. exists t. auto.
  - intros H. destruct (IH H) as (t' & Hi & Hn & Hp). exists t'. auto.
Qed.

Lemma amps_ok_spec s : amps_ok s = true ->
  forall pre post, s = pre ++ amp :: post ->
  exists t c, In (t, c) entity_tails /\ has_prefix post t = true.
Proof.
  intros H pre. revert s H. induction pre as [|x pre IH]; intros s H post ->.
  - cbn [app amps_ok] in H. apply andb_true_iff in H as [H _].
    replace (byte_eqb amp amp) with true in H by reflexivity.
    destruct (match_entity entity_tails post) as [[n c]|] eqn:E; [|discriminate].
    apply match_entity_some in E as (t & Hi & _ & Hp). eauto.
  - cbn [app amps_ok] in H. apply andb_true_iff in H as [_ H]. eapply IH; eauto.
Qed.

(** * Round trip *)

Lemma unescape_esc b E :
  unescape_aux 0 (esc_byte b ++ E) = (if byte_eqb b x00 then ent_nul else [b]) ++ unescape_aux 0 E.
Proof. destruct b; cbn; rewrite ?has_prefix_nil; reflexivity. Qed.

Lemma unescape_escape m : html_unescape (html_escape m) = nul_replaced m.
Proof.
  unfold html_unescape. induction m as [|b m IH]; [reflexivity|].
  change (html_escape (b :: m)) with (esc_byte b ++ html_escape m).
  rewrite unescape_esc, IH. reflexivity.
Qed.

Lemma nul_replaced_id m : ~ In x00 m -> nul_replaced m = m.
Proof.
  induction m as [|b m IH]; intros H; [reflexivity|].
  cbn. destruct (byte_eqb b x00) eqn:E.
  - exfalso. apply H. left. destruct b; try discriminate. reflexivity.
  - cbn. f_equal. apply IH. intros Hi. apply H. now right.
Qed.

(** * The 503 body *)

Lemma esc_byte_nonempty b : esc_byte b <> [].
Proof. destruct b; discriminate. Qed.

Lemma render503_of_escaped pg custom m :
  render503 pg custom m = render503_escaped pg custom (html_escape m).
Proof.
  unfold render503, render503_escaped. destruct custom as [[cpre csuf]|]; [reflexivity|].
  destruct m as [|b m]; [reflexivity|].
  change (html_escape (b :: m)) with (esc_byte b ++ html_escape m).
  pose proof (esc_byte_nonempty b). destruct (esc_byte b); [contradiction|reflexivity].
Qed.
