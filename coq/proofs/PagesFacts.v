(** Facts about model/Pages.v. *)
From Coq Require Import Arith Lia.
From KP Require Import model.Base model.Trace model.Pages.
From KP Require proofs.M5gateFacts.
Local Open Scope nat_scope.

Lemma ng_same {A} (l : list (nat * A)) k v : nget (nset l k v) k = Some v.
Proof. apply M5gateFacts.nget_nset_same. Qed.

Lemma ng_other {A} (l : list (nat * A)) k k' v : k' <> k -> nget (nset l k v) k' = nget l k'.
Proof. apply M5gateFacts.nget_nset_other. Qed.

(** does an operation (re)deploy / stop / resume the service? *)
Definition deploys (s : nat) (o : pop) : bool := match o with PDeploy s' _ => Nat.eqb s' s | _ => false end.
Definition gates (s : nat) (o : pop) : bool :=
  match o with PStop s' _ | PResume s' => Nat.eqb s' s | _ => false end.

Definition page_of (st : pstate) (s : nat) : option (option nat) :=
  match nget (p_svcs st) s with Some x => Some (p_page x) | None => None end.
Definition stop_of (st : pstate) (s : nat) : option (option str) :=
  match nget (p_svcs st) s with Some x => Some (p_stop x) | None => None end.

(** one step that does not deploy s leaves s's page alone *)
Lemma step_page_other st o s : deploys s o = false -> page_of (pstep st o) s = page_of st s.
Proof.
  unfold page_of. destruct o as [v|s' d|s' m|s'|s']; cbn [deploys pstep p_svcs]; intros H; try reflexivity.
  - apply Nat.eqb_neq in H. rewrite ng_other by congruence. reflexivity.
  - destruct (nget (p_svcs st) s') as [x|] eqn:E; [|reflexivity]. cbn [p_svcs].
    destruct (Nat.eq_dec s' s) as [->|Hne]; [rewrite ng_same, E; reflexivity|rewrite ng_other by congruence; reflexivity].
  - destruct (nget (p_svcs st) s') as [x|] eqn:E; [|reflexivity]. cbn [p_svcs].
    destruct (Nat.eq_dec s' s) as [->|Hne]; [rewrite ng_same, E; reflexivity|rewrite ng_other by congruence; reflexivity].
Qed.

Lemma run_page_other ops : forall st s, forallb (fun o => negb (deploys s o)) ops = true -> page_of (prun st ops) s = page_of st s.
Proof.
  induction ops as [|o ops IH]; intros st s H; [reflexivity|].
  cbn [forallb] in H. apply andb_prop in H as [Ho Hr]. apply Bool.negb_true_iff in Ho.
  unfold prun in *. cbn [fold_left]. rewrite IH by exact Hr. apply step_page_other, Ho.
Qed.

(** one step that neither stops nor resumes s leaves its gate alone - a redeploy included *)
Lemma step_stop_other st o s : gates s o = false -> (exists x, nget (p_svcs st) s = Some x) ->
  stop_of (pstep st o) s = stop_of st s /\ exists x, nget (p_svcs (pstep st o)) s = Some x.
Proof.
  unfold stop_of. intros H [x Hx]. destruct o as [v|s' d|s' m|s'|s']; cbn [gates pstep p_svcs] in *.
  - rewrite Hx. split; [reflexivity|eauto].
  - destruct (Nat.eq_dec s' s) as [->|Hne].
    + rewrite ng_same, Hx. split; [reflexivity|eauto].
    + rewrite ng_other by congruence. rewrite Hx. split; [reflexivity|eauto].
  - apply Nat.eqb_neq in H. destruct (nget (p_svcs st) s') as [y|] eqn:E; cbn [p_svcs].
    + rewrite ng_other by congruence. rewrite Hx. split; [reflexivity|eauto].
    + rewrite Hx. split; [reflexivity|eauto].
  - apply Nat.eqb_neq in H. destruct (nget (p_svcs st) s') as [y|] eqn:E; cbn [p_svcs].
    + rewrite ng_other by congruence. rewrite Hx. split; [reflexivity|eauto].
    + rewrite Hx. split; [reflexivity|eauto].
  - rewrite Hx. split; [reflexivity|eauto].
Qed.

Lemma run_stop_other ops : forall st s, forallb (fun o => negb (gates s o)) ops = true -> (exists x, nget (p_svcs st) s = Some x) ->
  stop_of (prun st ops) s = stop_of st s.
Proof.
  induction ops as [|o ops IH]; intros st s H Hx; [reflexivity|].
  cbn [forallb] in H. apply andb_prop in H as [Ho Hr]. apply Bool.negb_true_iff in Ho.
  destruct (step_stop_other st o s Ho Hx) as [E Hx']. unfold prun in *. cbn [fold_left]. rewrite IH by assumption. exact E.
Qed.

(** a deploy reads the directory as it is at that moment *)
Lemma deploy_reads_current st s d :
  page_of (pstep st (PDeploy s d)) s = Some (match d with DGood => Some (p_dir st) | _ => None end).
Proof. unfold page_of. cbn [pstep p_svcs]. rewrite ng_same. reflexivity. Qed.

(** replacing the pages changes nothing but the directory *)
Lemma write_only_dir st v : p_svcs (pstep st (PWrite v)) = p_svcs st.
Proof. reflexivity. Qed.

Lemma answer_of st s : p_answer st s =
  match page_of st s, stop_of st s with Some pg, Some (Some m) => Some (pg, m) | _, _ => None end.
Proof. unfold p_answer, page_of, stop_of. destruct (nget (p_svcs st) s) as [x|]; [destruct (p_stop x); reflexivity|reflexivity]. Qed.

(** a service stopped with [m] stays so across every step that neither stops nor resumes it *)
Definition stopped_with (st : pstate) (s : nat) (m : str) : Prop :=
  exists y, nget (p_svcs st) s = Some y /\ p_stop y = Some m.

Lemma step_keeps_stopped st o s m : gates s o = false -> stopped_with st s m -> stopped_with (pstep st o) s m.
Proof.
  intros H [y [Hy Hm]]. unfold stopped_with. destruct o as [v|s' d|s' m'|s'|s']; cbn [gates pstep p_svcs] in *.
  - eauto.
  - destruct (Nat.eq_dec s' s) as [->|Hne].
    + rewrite ng_same, Hy. eexists; split; [reflexivity|exact Hm].
    + rewrite ng_other by congruence. eauto.
  - apply Nat.eqb_neq in H. destruct (nget (p_svcs st) s') as [z|]; cbn [p_svcs]; [rewrite ng_other by congruence|]; eauto.
  - apply Nat.eqb_neq in H. destruct (nget (p_svcs st) s') as [z|]; cbn [p_svcs]; [rewrite ng_other by congruence|]; eauto.
  - eauto.
Qed.

Lemma run_keeps_stopped ops : forall st s m, forallb (fun o => negb (gates s o)) ops = true ->
  stopped_with st s m -> stopped_with (prun st ops) s m.
Proof.
  induction ops as [|o ops IH]; intros st s m H Hs; [exact Hs|].
  cbn [forallb] in H. apply andb_prop in H as [Ho Hr]. apply Bool.negb_true_iff in Ho.
  unfold prun in *. cbn [fold_left]. apply IH; [exact Hr|]. apply step_keeps_stopped; assumption.
Qed.

Lemma stop_stops st s m : (exists x, nget (p_svcs st) s = Some x) -> stopped_with (pstep st (PStop s m)) s m.
Proof. intros [x Hx]. unfold stopped_with. cbn [pstep]. rewrite Hx. cbn [p_svcs]. rewrite ng_same. eexists; split; reflexivity. Qed.

Lemma stopped_answer st s m : stopped_with st s m -> exists pg, p_answer st s = Some (pg, m).
Proof. intros [y [Hy Hm]]. unfold p_answer. rewrite Hy, Hm. eauto. Qed.
