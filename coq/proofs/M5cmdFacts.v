(** M5cmdFacts.v — the linkage view model/M5cmd.v: vocabulary of the statements of
    props/C03link.v (events at trace positions), the rule of every state component
    characterised by a "shape" lemma, and the history invariant [hist pre s]: what
    the state [s] reached after the events [pre] remembers about them.
    The theorems are in proofs/M5cmdC03.v. *)
From Coq Require Import ZifyN ZifyNat ZifyBool.
From KP Require Import model.Base model.Trace model.M5cmd.
Local Open Scope nat_scope.

(** * Heaps *)

Lemma nget_nset {A} (l : list (nat * A)) k v k' :
  nget (nset l k v) k' = if Nat.eqb k' k then Some v else nget l k'.
Proof.
  induction l as [|[k0 v0] l IH]; cbn [nset nget].
  - destruct (Nat.eqb k' k); reflexivity.
  - destruct (Nat.eqb k k0) eqn:E; cbn [nget].
    + apply Nat.eqb_eq in E; subst k0. destruct (Nat.eqb k' k); reflexivity.
    + destruct (Nat.eqb k' k0) eqn:E2.
      * apply Nat.eqb_eq in E2; subst k0.
        destruct (Nat.eqb k' k) eqn:E3; [|reflexivity].
        apply Nat.eqb_eq in E3; subst k'. rewrite Nat.eqb_refl in E; discriminate.
      * exact IH.
Qed.

Lemma nget_nset_same {A} (l : list (nat * A)) k v : nget (nset l k v) k = Some v.
Proof. rewrite nget_nset, Nat.eqb_refl; reflexivity. Qed.

Lemma nget_nset_other {A} (l : list (nat * A)) k v k' : k' <> k -> nget (nset l k v) k' = nget l k'.
Proof. intros H; rewrite nget_nset. destruct (Nat.eqb_spec k' k); [contradiction|reflexivity]. Qed.

Lemma nget_In {A} (l : list (nat * A)) k v : nget l k = Some v -> In (k, v) l.
Proof.
  induction l as [|[k0 v0] l IH]; cbn [nget]; [discriminate|].
  destruct (Nat.eqb_spec k k0) as [->|Hk].
  - intros H; injection H as ->. left; reflexivity.
  - intros H; right; exact (IH H).
Qed.

Lemma In_nset {A} (l : list (nat * A)) k v p : In p (nset l k v) -> p = (k, v) \/ In p l.
Proof.
  induction l as [|[k0 v0] l IH]; cbn [nset].
  - intros [<-|[]]. left; reflexivity.
  - destruct (Nat.eqb k k0).
    + intros [<-|H]; [left; reflexivity|right; right; exact H].
    + intros [<-|H]; [right; left; reflexivity|]. destruct (IH H) as [->|H']; [left; reflexivity|right; right; exact H'].
Qed.

Lemma nmem_In k l : nmem k l = true <-> In k l.
Proof.
  unfold nmem. rewrite existsb_exists. split.
  - intros (x & Hin & E). apply Nat.eqb_eq in E; subst; exact Hin.
  - intros H. exists k. split; [exact H|apply Nat.eqb_refl].
Qed.

Lemma actor_eqb_eq a b : actor_eqb a b = true -> a = b.
Proof.
  destruct a, b; cbn [actor_eqb]; try discriminate; try reflexivity.
  all: intros H; apply Nat.eqb_eq in H; subst; reflexivity.
Qed.

Lemma tstate_eqb_eq a b : tstate_eqb a b = true -> a = b.
Proof. destruct a, b; cbn [tstate_eqb]; try discriminate; reflexivity. Qed.

(** * Traces: runs, positions *)

Section Run.
Context {St : Type} (stp : St -> event -> option St).

Lemma run_app s a b :
  run stp s (a ++ b) = match run stp s a with Some s' => run stp s' b | None => None end.
Proof.
  revert s; induction a as [|e a IH]; intros s; cbn [app run]; [reflexivity|].
  destruct (stp s e); [apply IH|reflexivity].
Qed.

Lemma run_snoc s pre e s' :
  run stp s (pre ++ [e]) = Some s' -> exists s1, run stp s pre = Some s1 /\ stp s1 e = Some s'.
Proof.
  rewrite run_app. destruct (run stp s pre) as [s1|]; [|discriminate]. cbn [run].
  destruct (stp s1 e) as [s2|] eqn:E; [|discriminate]. intros H; injection H as <-. exists s1. split; [reflexivity|exact E].
Qed.

(** the run up to position [n] and the step taken there *)
Lemma run_at s pre e post s' :
  run stp s (pre ++ e :: post) = Some s' ->
  exists s1 s2, run stp s pre = Some s1 /\ stp s1 e = Some s2 /\ run stp s2 post = Some s'.
Proof.
  rewrite run_app. destruct (run stp s pre) as [s1|]; [|discriminate]. cbn [run].
  destruct (stp s1 e) as [s2|] eqn:E; [|discriminate]. intros H. exists s1, s2. repeat split; assumption.
Qed.

Lemma run_inv (P : St -> Prop) :
  (forall s e s', P s -> stp s e = Some s' -> P s') ->
  forall tr s s', P s -> run stp s tr = Some s' -> P s'.
Proof.
  intros Hstep tr; induction tr as [|e tr IH]; intros s s' Hs; cbn [run].
  - intros H; injection H as <-; exact Hs.
  - destruct (stp s e) as [s1|] eqn:E; [|discriminate]. apply IH. exact (Hstep _ _ _ Hs E).
Qed.
End Run.

Lemma firstn_len_app {A} (a b : list A) : firstn (length a) (a ++ b) = a.
Proof. induction a as [|x a IH]; cbn [length app firstn]; [destruct b; reflexivity|rewrite IH; reflexivity]. Qed.

Lemma firstn_app_le {A} (a b : list A) n : n <= length a -> firstn n (a ++ b) = firstn n a.
Proof.
  intros H. rewrite firstn_app. replace (n - length a) with 0 by lia. cbn [firstn]. apply app_nil_r.
Qed.

(** the event at position [i] of the trace is by actor [a] and of kind [k] *)
Definition ev_at (tr : trace) (i : nat) (a : actor) (k : kind) : Prop :=
  exists e, nth_error tr i = Some e /\ e_by e = a /\ e_k e = k.

(** no state-set by an actor numbered [g] strictly between positions [lo] and [hi] *)
Definition quiet (tr : trace) (g lo hi : nat) : Prop :=
  forall j e, lo < j -> j < hi -> nth_error tr j = Some e -> goid (e_by e) = g ->
  forall t o n, e_k e <> KStateSet t o n.

Lemma ev_at_lt tr i a k : ev_at tr i a k -> i < length tr.
Proof. intros (e & H & _). apply nth_error_Some. congruence. Qed.

Lemma ev_at_app_l pre post i a k : ev_at pre i a k -> ev_at (pre ++ post) i a k.
Proof.
  intros (e & H & Ha & Hk). exists e. split; [|split; assumption].
  rewrite nth_error_app1; [exact H|]. apply nth_error_Some. congruence.
Qed.

Lemma ev_at_snoc_inv pre e i a k :
  ev_at (pre ++ [e]) i a k -> ev_at pre i a k \/ (i = length pre /\ e_by e = a /\ e_k e = k).
Proof.
  intros (e' & H & Ha & Hk). destruct (Nat.lt_ge_cases i (length pre)) as [Hlt|Hge].
  - left. rewrite nth_error_app1 in H by exact Hlt. exists e'. repeat split; assumption.
  - right. rewrite nth_error_app2 in H by exact Hge.
    destruct (i - length pre) as [|m] eqn:Em.
    + cbn in H. injection H as <-. split; [lia|split; assumption].
    + cbn in H. destruct m; discriminate.
Qed.

Lemma ev_at_last pre e a k : e_by e = a -> e_k e = k -> ev_at (pre ++ [e]) (length pre) a k.
Proof.
  intros Ha Hk. exists e. split; [|split; assumption].
  rewrite nth_error_app2 by lia. rewrite Nat.sub_diag. reflexivity.
Qed.

Lemma ev_at_mid pre e post a k : e_by e = a -> e_k e = k -> ev_at (pre ++ e :: post) (length pre) a k.
Proof.
  intros Ha Hk. exists e. split; [|split; assumption].
  rewrite nth_error_app2 by lia. rewrite Nat.sub_diag. reflexivity.
Qed.

(** an event of the whole trace that lies before the split point *)
Lemma ev_at_app_inv pre post i a k : i < length pre -> ev_at (pre ++ post) i a k -> ev_at pre i a k.
Proof.
  intros Hlt (e & H & Ha & Hk). rewrite nth_error_app1 in H by exact Hlt. exists e. repeat split; assumption.
Qed.

Lemma ev_at_fun tr i a k a' k' : ev_at tr i a k -> ev_at tr i a' k' -> a = a' /\ k = k'.
Proof. intros (e & H & <- & <-) (e' & H' & <- & <-). rewrite H in H'. injection H' as <-. split; reflexivity. Qed.

Lemma quiet_app_l pre post g lo hi : hi <= length pre -> quiet pre g lo hi -> quiet (pre ++ post) g lo hi.
Proof.
  intros Hhi Hq j e Hlo Hj Hn. apply (Hq j e Hlo Hj). rewrite nth_error_app1 in Hn by lia. exact Hn.
Qed.

Lemma quiet_snoc pre e g lo :
  quiet pre g lo (length pre) ->
  (goid (e_by e) = g -> forall t o n, e_k e <> KStateSet t o n) ->
  quiet (pre ++ [e]) g lo (length (pre ++ [e])).
Proof.
  intros Hq He j e' Hlo Hj Hn Hg. rewrite app_length in Hj. cbn [length] in Hj.
  destruct (Nat.lt_ge_cases j (length pre)) as [Hlt|Hge].
  - rewrite nth_error_app1 in Hn by exact Hlt. exact (Hq j e' Hlo Hlt Hn Hg).
  - assert (j = length pre) by lia. subst j. rewrite nth_error_app2 in Hn by lia.
    rewrite Nat.sub_diag in Hn. cbn in Hn. injection Hn as <-. exact (He Hg).
Qed.

Lemma quiet_shrink tr g lo hi hi' : hi' <= hi -> quiet tr g lo hi -> quiet tr g lo hi'.
Proof. intros H Hq j e Hlo Hj. apply Hq; [exact Hlo|lia]. Qed.

(** * The rules of the components *)

Lemma step_parts s e s' :
  step s e = Some s' ->
  actor_ok s e = true /\
  cmds_step s (tick s) e = Some (cmds s') /\ lbs_step s e = Some (lbs s') /\ svcs_step s e = Some (svcs s') /\
  calls_step s (tick s) e = Some (calls s') /\ kids_step s (tick s) e = Some (kids s') /\ tick s' = S (tick s).
Proof.
  unfold step. cbv zeta. destruct (actor_ok s e); cbn [negb]; [|discriminate].
  destruct (cmds_step s (tick s) e); [|discriminate].
  destruct (lbs_step s e); [|discriminate].
  destruct (svcs_step s e); [|discriminate].
  destruct (calls_step s (tick s) e); [|discriminate].
  destruct (kids_step s (tick s) e); [|discriminate].
  intros H; injection H as <-. cbn. repeat split; reflexivity.
Qed.

(** ** commands *)

Lemma own_spec st e c cm : own st e = Some (c, cm) -> e_by e = ACmd c /\ nget (cmds st) c = Some cm.
Proof.
  unfold own. destruct (e_by e) as [r|c0|g|]; try discriminate.
  destruct (nget (cmds st) c0) as [cm0|] eqn:E; [|discriminate]. intros H; injection H as <- <-. split; [reflexivity|exact E].
Qed.

Lemma own_some st e c cm : e_by e = ACmd c -> nget (cmds st) c = Some cm -> own st e = Some (c, cm).
Proof. intros Ha Hc. unfold own. rewrite Ha, Hc. reflexivity. Qed.

(** a live command: what [actor_ok] gives for an event by [ACmd c] other than its KIssue *)
Lemma actor_ok_cmd st e c :
  actor_ok st e = true -> e_by e = ACmd c -> (forall c' k nm, e_k e <> KIssue c' k nm) ->
  exists cm, nget (cmds st) c = Some cm /\ c_ret cm = false.
Proof.
  unfold actor_ok. intros H Ha Hk. rewrite Ha in H.
  destruct (e_k e); try (exfalso; eapply Hk; reflexivity).
  all: destruct (nget (cmds st) c) as [cm|]; [|discriminate]; exists cm; split; [reflexivity|];
       destruct (c_ret cm); [discriminate|reflexivity].
Qed.

(** the step [ph -> ph'] of a command's program, taken at position [n] by an event of kind [k] *)
Definition ph_trans (st : state) (n : nat) (k : kind) (kd : cmdkind) (ph ph' : cphase) : Prop :=
  match ph' with
  | CRun => False
  | CSlotted iS rep => ph = CRun /\ iS = n /\ is_deploy kd = true /\ exists sv ro lb, k = KSlot sv ro lb rep
  | CConflict iS rep iI => ph = CSlotted iS rep /\ iI = n /\ exists sv, k = KInstall sv false
  | CFree iS iI => ph = CSlotted iS None /\ iI = n /\ exists sv, k = KInstall sv true
  | CInst iS old iI => ph = CSlotted iS (Some old) /\ iI = n /\ exists sv, k = KInstall sv true
  | CDraining iS old iI iA w => ph = CInst iS old iI /\ iA = n /\ k = KDrainAll old w
  | CDrained iS old iI iA w iD => ph = CDraining iS old iI iA w /\ iD = n /\ k = KDrainAllDone old w
  | CDisposed iS old iI iA w iD => ph = CDrained iS old iI iA w iD /\ k = KLbDispose old
  | CGate => ph = CRun /\ is_pause_stop kd = true
  | CSvcDraining sv ls iV => ph = CGate /\ iV = n /\ k = KSvcDrain sv ls /\ ls = svc_lbs st sv
  | CSvcDone sv ls iV iW =>
    ph = CSvcDraining sv ls iV /\ iW = n /\ k = KSvcDrainDone sv /\ forallb (drained_since st iV) ls = true
  end.

Lemma nlist_eqb_eq a b : nlist_eqb a b = true -> a = b.
Proof.
  unfold nlist_eqb, list_eqb. revert b. induction a as [|x a IH]; destruct b as [|y b]; try discriminate; [reflexivity|].
  intros H. apply andb_prop in H. destruct H as [H1 H2]. apply Nat.eqb_eq in H1. subst y. f_equal. exact (IH _ H2).
Qed.

Ltac bool_hyps :=
  repeat match goal with
  | H : _ && _ = true |- _ => apply andb_prop in H; destruct H
  | H : negb _ = true |- _ => apply negb_true_iff in H
  | H : Nat.eqb _ _ = true |- _ => apply Nat.eqb_eq in H; subst
  | H : Nat.ltb _ _ = true |- _ => apply Nat.ltb_lt in H
  | H : tstate_eqb _ _ = true |- _ => apply tstate_eqb_eq in H; subst
  | H : actor_eqb _ _ = true |- _ => apply actor_eqb_eq in H
  | H : nlist_eqb _ _ = true |- _ => apply nlist_eqb_eq in H
  end.

Lemma own_trans_spec st n k cm ph' :
  own_trans st n k cm = Some (Some ph') -> ph_trans st n k (c_kind cm) (c_ph cm) ph'.
Proof.
  unfold own_trans. destruct k; try discriminate.
  all: destruct (c_ph cm) eqn:Hph; try discriminate.
  all: repeat match goal with |- context [if ?c then _ else _] => destruct c eqn:? end; try discriminate.
  all: repeat match goal with |- context [match ?x with Some _ => _ | None => _ end] => destruct x end.
  all: intros H; injection H as <-; cbn; bool_hyps; repeat split; eauto.
Qed.

(** how the command table changes in one step *)
Inductive cmds_shape (s : state) (n : nat) (e : event) (cs' : list (nat * cmd)) : Prop :=
| CS_same : cs' = cmds s -> cmds_shape s n e cs'
| CS_issue c k nm : e_k e = KIssue c k nm -> nget (cmds s) c = None -> cs' = nset (cmds s) c (mkC k CRun false) ->
    cmds_shape s n e cs'
| CS_return c cm r : e_k e = KReturn c r -> e_by e = ACmd c -> nget (cmds s) c = Some cm ->
    return_ok (c_kind cm) (c_ph cm) r = true -> cs' = nset (cmds s) c (mkC (c_kind cm) (c_ph cm) true) ->
    cmds_shape s n e cs'
| CS_trans c cm ph : e_by e = ACmd c -> nget (cmds s) c = Some cm ->
    ph_trans s n (e_k e) (c_kind cm) (c_ph cm) ph -> cs' = nset (cmds s) c (mkC (c_kind cm) ph (c_ret cm)) ->
    cmds_shape s n e cs'.

Lemma cmds_step_shape s n e cs' : cmds_step s n e = Some cs' -> cmds_shape s n e cs'.
Proof.
  unfold cmds_step. destruct (e_k e) eqn:Hk.
  (* KIssue *)
  1: { destruct (nget (cmds s) c) eqn:Hc; [discriminate|]. intros H; injection H as <-. eapply CS_issue; eauto. }
  (* KReturn *)
  2: { destruct (own s e) as [[c' cm]|] eqn:Ho; [|discriminate]. destruct (own_spec _ _ _ _ Ho) as [Ha Hc].
       destruct (Nat.eqb_spec c c') as [<-|]; [|discriminate]. cbn [andb].
       destruct (return_ok (c_kind cm) (c_ph cm) r) eqn:Hr; [|discriminate]. intros H; injection H as <-.
       eapply CS_return; eauto. }
  all: destruct (own s e) as [[c' cm]|] eqn:Ho.
  all: try (intros H; injection H as <-; apply CS_same; reflexivity).
  all: try discriminate.
  all: destruct (own_spec _ _ _ _ Ho) as [Ha Hc].
  all: match goal with |- match ?x with _ => _ end = _ -> _ => destruct x as [[ph|]|] eqn:Ht end.
  all: try discriminate.
  all: intros H; injection H as <-.
  all: try (apply CS_same; reflexivity).
  all: eapply CS_trans; [exact Ha|exact Hc| |reflexivity].
  all: rewrite Hk; apply own_trans_spec; exact Ht.
Qed.

(** the data of the slot update / the install a phase remembers *)
Definition slot_of (ph : cphase) : option (nat * option nat) :=
  match ph with
  | CSlotted iS rep | CConflict iS rep _ => Some (iS, rep)
  | CFree iS _ => Some (iS, None)
  | CInst iS old _ | CDraining iS old _ _ _ | CDrained iS old _ _ _ _ | CDisposed iS old _ _ _ _ => Some (iS, Some old)
  | _ => None
  end.

Definition inst_of (ph : cphase) : option (nat * bool) :=
  match ph with
  | CConflict _ _ iI => Some (iI, false)
  | CFree _ iI | CInst _ _ iI | CDraining _ _ iI _ _ | CDrained _ _ iI _ _ _ | CDisposed _ _ iI _ _ _ => Some (iI, true)
  | _ => None
  end.

Lemma ph_trans_slot st n k kd ph ph' x : ph_trans st n k kd ph ph' -> slot_of ph = Some x -> slot_of ph' = Some x.
Proof.
  destruct ph'; cbn [ph_trans]; intros H Hs; try contradiction.
  all: repeat match goal with H : _ /\ _ |- _ => destruct H end; subst; cbn [slot_of] in *; try discriminate; exact Hs.
Qed.

Lemma ph_trans_inst st n k kd ph ph' x : ph_trans st n k kd ph ph' -> inst_of ph = Some x -> inst_of ph' = Some x.
Proof.
  destruct ph'; cbn [ph_trans]; intros H Hs; try contradiction.
  all: repeat match goal with H : _ /\ _ |- _ => destruct H end; subst; cbn [inst_of] in *; try discriminate; exact Hs.
Qed.

(** every entry stays, with its kind, its return flag once set, and its phase unless the
    event is the next step of that command's program *)
Lemma cmds_frame s n e cs' c cm :
  cmds_shape s n e cs' -> nget (cmds s) c = Some cm ->
  exists cm', nget cs' c = Some cm' /\ c_kind cm' = c_kind cm /\ (c_ret cm = true -> c_ret cm' = true) /\
    (c_ph cm' = c_ph cm \/ (e_by e = ACmd c /\ ph_trans s n (e_k e) (c_kind cm) (c_ph cm) (c_ph cm'))).
Proof.
  intros [->|c0 k nm Hk Hnone ->|c0 cm0 r Hk Ha H0 Hr ->|c0 cm0 ph Ha H0 Ht ->] Hc.
  - exists cm. repeat split; auto.
  - exists cm. rewrite nget_nset_other by (intros ->; congruence). repeat split; auto.
  - destruct (Nat.eq_dec c c0) as [->|Hne].
    + rewrite H0 in Hc; injection Hc as ->. rewrite nget_nset_same. eexists. split; [reflexivity|]. cbn. repeat split; auto.
    + rewrite nget_nset_other by exact Hne. exists cm. repeat split; auto.
  - destruct (Nat.eq_dec c c0) as [->|Hne].
    + rewrite H0 in Hc; injection Hc as ->. rewrite nget_nset_same. eexists. split; [reflexivity|]. cbn. repeat split; auto.
    + rewrite nget_nset_other by exact Hne. exists cm. repeat split; auto.
Qed.

Lemma cmds_back s n e cs' c cm' :
  cmds_shape s n e cs' -> nget cs' c = Some cm' ->
  (exists cm, nget (cmds s) c = Some cm) \/ (exists k nm, e_k e = KIssue c k nm /\ cm' = mkC k CRun false).
Proof.
  intros [->|c0 k nm Hk Hnone ->|c0 cm0 r Hk Ha H0 Hr ->|c0 cm0 ph Ha H0 Ht ->] Hc.
  - left; eauto.
  - destruct (Nat.eq_dec c c0) as [->|Hne].
    + rewrite nget_nset_same in Hc. injection Hc as <-. right; eauto.
    + rewrite nget_nset_other in Hc by exact Hne. left; eauto.
  - destruct (Nat.eq_dec c c0) as [->|Hne]; [left; eauto|]. rewrite nget_nset_other in Hc by exact Hne. left; eauto.
  - destruct (Nat.eq_dec c c0) as [->|Hne]; [left; eauto|]. rewrite nget_nset_other in Hc by exact Hne. left; eauto.
Qed.

(** what the events that a command's table entry records do to it *)
Lemma cmds_step_issue s n e cs' c k nm :
  cmds_step s n e = Some cs' -> e_k e = KIssue c k nm ->
  nget (cmds s) c = None /\ nget cs' c = Some (mkC k CRun false).
Proof.
  unfold cmds_step. intros H Hk. rewrite Hk in H. destruct (nget (cmds s) c) eqn:Hc; [discriminate|].
  injection H as <-. split; [reflexivity|apply nget_nset_same].
Qed.

Lemma cmds_step_return s n e cs' c r :
  cmds_step s n e = Some cs' -> e_k e = KReturn c r ->
  e_by e = ACmd c /\ exists cm, nget (cmds s) c = Some cm /\ return_ok (c_kind cm) (c_ph cm) r = true /\
    nget cs' c = Some (mkC (c_kind cm) (c_ph cm) true).
Proof.
  unfold cmds_step. intros H Hk. rewrite Hk in H.
  destruct (own s e) as [[c' cm]|] eqn:Ho; [|discriminate]. destruct (own_spec _ _ _ _ Ho) as [Ha Hc].
  destruct (Nat.eqb_spec c c') as [<-|]; [|discriminate]. cbn [andb] in H.
  destruct (return_ok (c_kind cm) (c_ph cm) r) eqn:Hr; [|discriminate]. injection H as <-.
  split; [exact Ha|]. exists cm. repeat split; try assumption. apply nget_nset_same.
Qed.

Lemma cmds_step_slot s n e cs' c sv ro lb rep :
  actor_ok s e = true -> cmds_step s n e = Some cs' -> e_by e = ACmd c -> e_k e = KSlot sv ro lb rep ->
  exists cm', nget cs' c = Some cm' /\ c_ph cm' = CSlotted n rep.
Proof.
  intros Hact H Ha Hk.
  destruct (actor_ok_cmd _ _ _ Hact Ha) as (cm & Hc & _); [intros; rewrite Hk; discriminate|].
  unfold cmds_step in H. rewrite Hk, (own_some _ _ _ _ Ha Hc) in H. cbn [own_trans] in H.
  destruct (c_ph cm); try discriminate. destruct (is_deploy (c_kind cm)); [|discriminate].
  injection H as <-. rewrite nget_nset_same. eexists. split; reflexivity.
Qed.

Lemma cmds_step_install s n e cs' c sv ok :
  actor_ok s e = true -> cmds_step s n e = Some cs' -> e_by e = ACmd c -> e_k e = KInstall sv ok ->
  exists cm', nget cs' c = Some cm' /\ inst_of (c_ph cm') = Some (n, ok).
Proof.
  intros Hact H Ha Hk.
  destruct (actor_ok_cmd _ _ _ Hact Ha) as (cm & Hc & _); [intros; rewrite Hk; discriminate|].
  unfold cmds_step in H. rewrite Hk, (own_some _ _ _ _ Ha Hc) in H. cbn [own_trans] in H.
  destruct (c_ph cm); try discriminate.
  injection H as <-. rewrite nget_nset_same. eexists. split; [reflexivity|].
  destruct ok; [destruct rep|]; reflexivity.
Qed.

(** ** balancers *)

Lemma lbs_step_frame s e l' :
  lbs_step s e = Some l' ->
  (forall lb ts, nget (lbs s) lb = Some ts -> nget l' lb = Some ts) /\
  (forall lb ts, e_k e = KLbNew lb ts -> nget l' lb = Some ts).
Proof.
  unfold lbs_step. destruct (e_k e) eqn:Hk; try (intros H; injection H as <-; split; [auto|intros; discriminate]).
  destruct (nget (lbs s) lb) eqn:Hl; [discriminate|]. intros H; injection H as <-. split.
  - intros lb' ts' H'. rewrite nget_nset_other by (intros ->; congruence). exact H'.
  - intros lb' ts' E. injection E as <- <-. apply nget_nset_same.
Qed.

(** ** children *)

Definition kid_live (ph : kphase) : Prop :=
  match ph with KEarly _ | KEnded _ _ _ => False | _ => True end.

Lemma live_kid_spec s e kd :
  live_kid s e = Some kd <-> (nget (kids s) (goid (e_by e)) = Some kd /\ kid_live (k_ph kd)).
Proof.
  unfold live_kid. destruct (nget (kids s) (goid (e_by e))) as [k|]; [|split; [discriminate|intros [H _]; discriminate]].
  destruct (k_ph k) eqn:Hph; split.
  all: try (intros H; injection H as <-; rewrite Hph; split; [reflexivity|exact I]).
  all: try discriminate.
  all: intros [H Hl]; injection H as <-; try reflexivity; rewrite Hph in Hl; contradiction.
Qed.

Lemma is_go_spec e : is_go e = true -> e_by e = AGo (goid (e_by e)).
Proof. unfold is_go. intros H. apply actor_eqb_eq in H. exact H. Qed.

(** the step [ph -> ph'] of a child's Drain call on target [t], taken at position [n] by an event of kind [k] *)
Definition kph_trans (n : nat) (k : kind) (t : nat) (ph ph' : kphase) : Prop :=
  match ph' with
  | KReg => False
  | KMarked o => ph = KReg /\ k = KStateSet t o TDraining
  | KOpen b =>
    (b = n /\ exists o to, ph = KMarked o /\ k = KDrainBegin t o to /\ o <> TDraining) \/
    (ph = KOpen b /\ ((exists rs, k = KDrainSnapshot t rs) \/ k = KDrainDeadline t))
  | KEarly b => b = n /\ exists to, ph = KMarked TDraining /\ k = KDrainBegin t TDraining to
  | KCancelled b c => c = n /\ ph = KOpen b /\ k = KDrainCancelRest t
  | KEnded b c r => r = n /\ ph = KCancelled b c /\ exists o nw, k = KStateSet t o nw /\ nw <> TDraining
  end.

Lemma kid_trans_spec n k t ph ph' :
  drain_target k = Some t -> kid_trans n k ph = Some ph' -> kph_trans n k t ph ph'.
Proof.
  unfold kid_trans, drain_target. destruct k; try discriminate; intros Ht; injection Ht as ->.
  - (* KStateSet *) destruct new, ph; try discriminate; intros H; injection H as <-; cbn.
    all: try (split; reflexivity).
    all: split; [reflexivity|split; [reflexivity|eexists _, _; split; [reflexivity|discriminate]]].
  - (* KDrainBegin *) destruct ph; try discriminate. destruct (tstate_eqb orig orig0) eqn:E; [|discriminate].
    apply tstate_eqb_eq in E. subst orig0. intros H; injection H as <-.
    destruct orig; cbn.
    2: { split; [reflexivity|]. eexists. split; reflexivity. }
    all: left; split; [reflexivity|]; eexists _, _; split; [reflexivity|split; [reflexivity|discriminate]].
  - destruct ph; try discriminate. intros H; injection H as <-. cbn. right. split; [reflexivity|]. left. eexists; reflexivity.
  - destruct ph; try discriminate. intros H; injection H as <-. cbn. right. split; [reflexivity|]. right. reflexivity.
  - destruct ph; try discriminate. intros H; injection H as <-. cbn. repeat split.
Qed.

Inductive kids_shape (s : state) (n : nat) (e : event) (ks' : list (nat * kid)) : Prop :=
| KS_same : ks' = kids s ->
    (forall kd, live_kid s e = Some kd -> forall t o nw, e_k e <> KStateSet t o nw) -> kids_shape s n e ks'
| KS_new g t w : e_by e = AGo g -> e_k e = KDrainChild t w -> nget (kids s) g = None ->
    ks' = nset (kids s) g (mkK t w n KReg) -> kids_shape s n e ks'
| KS_trans g kd ph : e_by e = AGo g -> nget (kids s) g = Some kd -> kid_live (k_ph kd) ->
    kph_trans n (e_k e) (k_t kd) (k_ph kd) ph ->
    ks' = nset (kids s) g (mkK (k_t kd) (k_w kd) (k_reg kd) ph) -> kids_shape s n e ks'.

Lemma kids_step_shape s n e ks' : kids_step s n e = Some ks' -> kids_shape s n e ks'.
Proof.
  unfold kids_step. cbv zeta. destruct (e_k e) eqn:Hk.
  all: cbn [drain_target].
  all: try (intros H; injection H as <-; apply KS_same; [reflexivity|intros; rewrite Hk; discriminate]; fail).
  (* KDrainChild *)
  6: { destruct (e_by e) as [r|c|g|] eqn:Ha; try discriminate. cbn [goid].
       destruct (nget (kids s) g) eqn:Hg; [discriminate|]. intros H; injection H as <-.
       eapply KS_new; eauto. }
  (* KStateSet and the four Drain kinds *)
  all: destruct (live_kid s e) as [kd|] eqn:Hl.
  all: try discriminate.
  all: try (intros H; injection H as <-; apply KS_same; [reflexivity|intros kd' Hkd'; rewrite Hl in Hkd'; discriminate]).
  all: destruct (proj1 (live_kid_spec _ _ _) Hl) as [Hg Hlive].
  all: destruct (is_go e) eqn:Hgo; cbn [andb]; try discriminate.
  all: match goal with |- (if Nat.eqb ?a ?b then _ else _) = _ -> _ => destruct (Nat.eqb_spec a b) as [Et|] end; try discriminate.
  all: match goal with |- match ?x with _ => _ end = _ -> _ => destruct x as [ph|] eqn:Ht end; try discriminate.
  all: intros H; injection H as <-.
  all: eapply KS_trans; [apply is_go_spec; exact Hgo|exact Hg|exact Hlive| |reflexivity].
  all: rewrite Hk, Et; apply kid_trans_spec; [reflexivity|rewrite <- Et; exact Ht].
Qed.

(** every child stays, with its static fields; its phase changes only by a step of its own Drain call *)
Lemma kids_frame s n e ks' g k :
  kids_shape s n e ks' -> nget (kids s) g = Some k ->
  exists k', nget ks' g = Some k' /\ k_t k' = k_t k /\ k_w k' = k_w k /\ k_reg k' = k_reg k /\
    ((k_ph k' = k_ph k /\ (kid_live (k_ph k) -> goid (e_by e) = g -> forall t o nw, e_k e <> KStateSet t o nw)) \/
     (e_by e = AGo g /\ kid_live (k_ph k) /\ kph_trans n (e_k e) (k_t k) (k_ph k) (k_ph k'))).
Proof.
  intros [-> Hq|g0 t w Ha Hk Hnone ->|g0 kd ph Ha H0 Hl Ht ->] Hg.
  - exists k. repeat split; auto. left. split; [reflexivity|]. intros Hlive Hgo. subst g.
    apply (Hq k). apply live_kid_spec. split; assumption.
  - exists k. rewrite nget_nset_other by (intros ->; congruence). repeat split; auto.
    left. split; [reflexivity|]. intros; rewrite Hk; discriminate.
  - destruct (Nat.eq_dec g g0) as [->|Hne].
    + rewrite H0 in Hg; injection Hg as ->. rewrite nget_nset_same. eexists. split; [reflexivity|]. cbn. repeat split; auto.
    + rewrite nget_nset_other by exact Hne. exists k. repeat split; auto. left. split; [reflexivity|].
      intros _ Hgo. rewrite Ha in Hgo. cbn in Hgo. congruence.
Qed.

Lemma kids_back s n e ks' g k' :
  kids_shape s n e ks' -> nget ks' g = Some k' ->
  (exists k, nget (kids s) g = Some k) \/
  (nget (kids s) g = None /\ e_by e = AGo g /\ exists t w, e_k e = KDrainChild t w /\ k' = mkK t w n KReg).
Proof.
  intros [-> Hq|g0 t w Ha Hk Hnone ->|g0 kd ph Ha H0 Hl Ht ->] Hg.
  - left; eauto.
  - destruct (Nat.eq_dec g g0) as [->|Hne].
    + rewrite nget_nset_same in Hg. injection Hg as <-. right. repeat split; eauto.
    + rewrite nget_nset_other in Hg by exact Hne. left; eauto.
  - destruct (Nat.eq_dec g g0) as [->|Hne]; [left; eauto|]. rewrite nget_nset_other in Hg by exact Hne. left; eauto.
Qed.

(** ** DrainAll calls *)

Inductive calls_shape (s : state) (n : nat) (e : event) (cs' : list (nat * call)) : Prop :=
| AS_same : cs' = calls s -> calls_shape s n e cs'
| AS_new lb w ts : e_k e = KDrainAll lb w -> nget (calls s) w = None -> nget (lbs s) lb = Some ts ->
    cs' = nset (calls s) w (mkA lb (e_by e) n [] None) -> calls_shape s n e cs'
| AS_child t w a : e_k e = KDrainChild t w -> nget (calls s) w = Some a -> a_done a = None ->
    nget (a_kids a) t = None -> In t (lb_targets s (a_lb a)) ->
    cs' = nset (calls s) w (mkA (a_lb a) (a_by a) (a_at a) (nset (a_kids a) t (goid (e_by e))) None) ->
    calls_shape s n e cs'
| AS_done lb w a : e_k e = KDrainAllDone lb w -> nget (calls s) w = Some a -> a_done a = None ->
    a_lb a = lb -> a_by a = e_by e -> call_complete s a = true ->
    cs' = nset (calls s) w (mkA (a_lb a) (a_by a) (a_at a) (a_kids a) (Some n)) -> calls_shape s n e cs'.

Lemma calls_step_shape s n e cs' : calls_step s n e = Some cs' -> calls_shape s n e cs'.
Proof.
  unfold calls_step. destruct (e_k e) eqn:Hk.
  all: try (intros H; injection H as <-; apply AS_same; reflexivity).
  - (* KDrainAll *)
    destruct (nget (calls s) w) eqn:Hw; [discriminate|]. destruct (nget (lbs s) lb) eqn:Hl; [|discriminate].
    intros H; injection H as <-. eapply AS_new; eauto.
  - (* KDrainChild *)
    destruct (nget (calls s) w) as [a|] eqn:Hw; [|discriminate].
    destruct (a_done a) eqn:Hd; [discriminate|]. destruct (nget (a_kids a) t) eqn:Ht; [discriminate|].
    destruct (nmem t (lb_targets s (a_lb a))) eqn:Hm; [|discriminate]. apply nmem_In in Hm.
    intros H; injection H as <-. eapply AS_child; eauto.
  - (* KDrainAllDone *)
    destruct (nget (calls s) w) as [a|] eqn:Hw; [|discriminate].
    destruct (a_done a) eqn:Hd; [discriminate|].
    destruct (Nat.eqb (a_lb a) lb && actor_eqb (a_by a) (e_by e) && call_complete s a) eqn:Hc; [|discriminate].
    bool_hyps. intros H'; injection H' as <-. eapply AS_done; eauto.
Qed.

(** * The history invariant *)

(** the slots service object [sv] had just before position [iV] are [ls] *)
Definition slots_at (pre : trace) (iV sv : nat) (ls : list nat) : Prop :=
  forall sV, run step init (firstn iV pre) = Some sV -> ls = svc_lbs sV sv.

(** for every balancer of [ls] a DrainAll call entered after [iV] is done before [iW] *)
Definition all_drained (pre : trace) (ls : list nat) (iV iW : nat) : Prop :=
  forall lb, In lb ls -> exists w a iA iD, iV < iA /\ iA < iD /\ iD < iW /\
    ev_at pre iA a (KDrainAll lb w) /\ ev_at pre iD a (KDrainAllDone lb w).

(** what the phase of command [c] says about the events [pre] *)
Definition cmd_ok (pre : trace) (c : nat) (cm : cmd) : Prop :=
  (slot_of (c_ph cm) <> None -> is_deploy (c_kind cm) = true) /\
  match c_ph cm with
  | CRun | CGate => True
  | CSlotted iS _ => iS < length pre
  | CConflict iS _ iI | CFree iS iI | CInst iS _ iI => iS < iI /\ iI < length pre
  | CDraining iS old iI iA w =>
    iS < iI /\ iI < iA /\ iA < length pre /\ ev_at pre iA (ACmd c) (KDrainAll old w)
  | CDrained iS old iI iA w iD | CDisposed iS old iI iA w iD =>
    iS < iI /\ iI < iA /\ iA < iD /\ iD < length pre /\
    ev_at pre iA (ACmd c) (KDrainAll old w) /\ ev_at pre iD (ACmd c) (KDrainAllDone old w)
  | CSvcDraining sv ls iV =>
    iV < length pre /\ ev_at pre iV (ACmd c) (KSvcDrain sv ls) /\ slots_at pre iV sv ls
  | CSvcDone sv ls iV iW =>
    iV < iW /\ iW < length pre /\ ev_at pre iV (ACmd c) (KSvcDrain sv ls) /\ slots_at pre iV sv ls /\
    ev_at pre iW (ACmd c) (KSvcDrainDone sv) /\ all_drained pre ls iV iW
  end.

(** ... the record of DrainAll call [w] ... *)
Definition call_ok (pre : trace) (s : state) (w : nat) (a : call) : Prop :=
  a_at a < length pre /\ ev_at pre (a_at a) (a_by a) (KDrainAll (a_lb a) w) /\
  (exists ts, nget (lbs s) (a_lb a) = Some ts) /\
  (forall t g, nget (a_kids a) t = Some g ->
     exists k, nget (kids s) g = Some k /\ k_t k = t /\ k_w k = w /\ a_at a < k_reg k) /\
  (forall iD, a_done a = Some iD ->
     a_at a < iD /\ iD < length pre /\ ev_at pre iD (a_by a) (KDrainAllDone (a_lb a) w)).

(** the Drain call of child [g] on target [t] began at [b] on a target that was not yet draining *)
Definition begun_at (pre : trace) (g t b : nat) : Prop :=
  exists o to, o <> TDraining /\ ev_at pre b (AGo g) (KDrainBegin t o to).

(** ... the record of child goroutine [g] *)
Definition kid_ok (pre : trace) (g : nat) (k : kid) : Prop :=
  k_reg k < length pre /\ ev_at pre (k_reg k) (AGo g) (KDrainChild (k_t k) (k_w k)) /\
  match k_ph k with
  | KReg | KMarked _ => True
  | KOpen b => k_reg k < b /\ b < length pre /\ begun_at pre g (k_t k) b /\ quiet pre g b (length pre)
  | KCancelled b c =>
    k_reg k < b /\ b < c /\ c < length pre /\ begun_at pre g (k_t k) b /\
    ev_at pre c (AGo g) (KDrainCancelRest (k_t k)) /\ quiet pre g b (length pre)
  | KEarly b => k_reg k < b /\ b < length pre /\ exists to, ev_at pre b (AGo g) (KDrainBegin (k_t k) TDraining to)
  | KEnded b c r =>
    k_reg k < b /\ b < c /\ c < r /\ r < length pre /\ begun_at pre g (k_t k) b /\
    ev_at pre c (AGo g) (KDrainCancelRest (k_t k)) /\
    (exists o nw, nw <> TDraining /\ ev_at pre r (AGo g) (KStateSet (k_t k) o nw)) /\ quiet pre g b r
  end.

Record hist (pre : trace) (s : state) : Prop := mkHist {
  h_tick : tick s = length pre;
  h_lbs : forall i a lb ts, ev_at pre i a (KLbNew lb ts) -> nget (lbs s) lb = Some ts;
  h_issue : forall i a c k nm, ev_at pre i a (KIssue c k nm) -> exists cm, nget (cmds s) c = Some cm /\ c_kind cm = k;
  h_ret : forall i a c r, ev_at pre i a (KReturn c r) -> exists cm, nget (cmds s) c = Some cm /\ c_ret cm = true;
  h_slot : forall i c sv ro lb rep, ev_at pre i (ACmd c) (KSlot sv ro lb rep) ->
           exists cm, nget (cmds s) c = Some cm /\ slot_of (c_ph cm) = Some (i, rep);
  h_inst : forall i c sv ok, ev_at pre i (ACmd c) (KInstall sv ok) ->
           exists cm, nget (cmds s) c = Some cm /\ inst_of (c_ph cm) = Some (i, ok);
  h_cmd : forall c cm, nget (cmds s) c = Some cm -> cmd_ok pre c cm;
  h_call : forall w a, In (w, a) (calls s) -> call_ok pre s w a;
  h_kid : forall g k, nget (kids s) g = Some k -> kid_ok pre g k
}.

Lemma hist_init : hist [] init.
Proof.
  constructor; cbn; try reflexivity.
  all: try (intros; match goal with H : ev_at [] _ _ _ |- _ => apply ev_at_lt in H; cbn in H; lia end).
  all: intros; try discriminate; contradiction.
Qed.

(** ** monotonicity in the trace *)

Lemma slots_at_snoc pre e iV sv ls : iV <= length pre -> slots_at pre iV sv ls -> slots_at (pre ++ [e]) iV sv ls.
Proof. intros Hle H sV. rewrite firstn_app_le by exact Hle. apply H. Qed.

Lemma all_drained_snoc pre e ls iV iW : all_drained pre ls iV iW -> all_drained (pre ++ [e]) ls iV iW.
Proof.
  intros H lb Hin. destruct (H lb Hin) as (w & a & iA & iD & H1 & H2 & H3 & H4 & H5).
  exists w, a, iA, iD. repeat split; try assumption; apply ev_at_app_l; assumption.
Qed.

Lemma cmd_ok_snoc pre e c cm : cmd_ok pre c cm -> cmd_ok (pre ++ [e]) c cm.
Proof.
  unfold cmd_ok. intros [Hd H]. split; [exact Hd|]. rewrite app_length. cbn [length].
  destruct (c_ph cm); try exact I.
  all: repeat match goal with H : _ /\ _ |- _ => destruct H end.
  all: repeat split; try lia; try (apply ev_at_app_l; assumption).
  all: try (apply slots_at_snoc; [lia|assumption]).
  apply all_drained_snoc; assumption.
Qed.

Lemma begun_at_snoc pre e g t b : begun_at pre g t b -> begun_at (pre ++ [e]) g t b.
Proof. intros (o & to & Ho & H). exists o, to. split; [exact Ho|apply ev_at_app_l; exact H]. Qed.

(** a child's record stays true when an event is appended that is not a state-set by its number
    while it is between its begin and its end *)
Lemma kid_ok_snoc pre e g k :
  kid_ok pre g k ->
  (kid_live (k_ph k) -> goid (e_by e) = g -> forall t o nw, e_k e <> KStateSet t o nw) ->
  kid_ok (pre ++ [e]) g k.
Proof.
  unfold kid_ok. intros (Hr & Hev & H) Hq.
  split; [rewrite app_length; cbn [length]; lia|]. split; [apply ev_at_app_l; exact Hev|].
  destruct (k_ph k); try exact I.
  - destruct H as (H1 & H2 & H3 & H4). split; [exact H1|]. split; [rewrite app_length; cbn [length]; lia|].
    split; [apply begun_at_snoc; exact H3|]. apply quiet_snoc; [exact H4|apply Hq; exact I].
  - destruct H as (H1 & H2 & H3 & H4 & H5 & H6). split; [exact H1|]. split; [exact H2|].
    split; [rewrite app_length; cbn [length]; lia|]. split; [apply begun_at_snoc; exact H4|].
    split; [apply ev_at_app_l; exact H5|]. apply quiet_snoc; [exact H6|apply Hq; exact I].
  - destruct H as (H1 & H2 & to & H3). split; [exact H1|]. split; [rewrite app_length; cbn [length]; lia|].
    exists to. apply ev_at_app_l; exact H3.
  - destruct H as (H1 & H2 & H3 & H4 & H5 & H6 & (o & nw & Hn & H7) & H8).
    split; [exact H1|]. split; [exact H2|]. split; [exact H3|]. split; [rewrite app_length; cbn [length]; lia|].
    split; [apply begun_at_snoc; exact H5|]. split; [apply ev_at_app_l; exact H6|].
    split; [exists o, nw; split; [exact Hn|apply ev_at_app_l; exact H7]|]. apply quiet_app_l; [lia|exact H8].
Qed.

Lemma cmd_ok_ext tr c cm cm' : c_kind cm' = c_kind cm -> c_ph cm' = c_ph cm -> cmd_ok tr c cm -> cmd_ok tr c cm'.
Proof. unfold cmd_ok. intros -> ->. auto. Qed.

Lemma kids_step_child s n e ks' t w :
  kids_step s n e = Some ks' -> e_k e = KDrainChild t w ->
  exists g, e_by e = AGo g /\ nget (kids s) g = None /\ ks' = nset (kids s) g (mkK t w n KReg).
Proof.
  unfold kids_step. cbv zeta. intros H Hk. rewrite Hk in H.
  destruct (e_by e) as [r|c|g|] eqn:Ha; try discriminate. cbn [goid] in H.
  destruct (nget (kids s) g) eqn:Hg; [discriminate|]. injection H as <-. exists g. repeat split; assumption.
Qed.

Lemma drained_since_spec s iV lb :
  drained_since s iV lb = true ->
  exists w a iD, In (w, a) (calls s) /\ a_lb a = lb /\ iV < a_at a /\ a_done a = Some iD.
Proof.
  unfold drained_since. rewrite existsb_exists. intros ([w a] & Hin & H). cbn [snd] in H.
  destruct (a_done a) as [iD|] eqn:Hd; [|rewrite andb_false_r in H; discriminate].
  bool_hyps. exists w, a, iD. repeat split; auto.
Qed.

(** ** one step *)

Section StepHist.
Variables (pre : trace) (s : state) (e : event) (s' : state).
Hypothesis Hrun : run step init pre = Some s.
Hypothesis HH : hist pre s.
Hypothesis Hstep : step s e = Some s'.

Let Hlen : length (pre ++ [e]) = S (length pre).
Proof. rewrite app_length. cbn [length]. lia. Qed.

Lemma sh_parts :
  actor_ok s e = true /\ cmds_step s (length pre) e = Some (cmds s') /\
  cmds_shape s (length pre) e (cmds s') /\ lbs_step s e = Some (lbs s') /\
  calls_shape s (length pre) e (calls s') /\ kids_step s (length pre) e = Some (kids s') /\
  kids_shape s (length pre) e (kids s') /\ tick s' = S (length pre).
Proof.
  destruct (step_parts _ _ _ Hstep) as (Ha & Hc & Hl & _ & Hca & Hk & Ht). rewrite (h_tick _ _ HH) in *.
  repeat split; try assumption.
  - apply cmds_step_shape; exact Hc.
  - apply calls_step_shape; exact Hca.
  - apply kids_step_shape; exact Hk.
Qed.

Lemma sh_lbs_keep lb ts : nget (lbs s) lb = Some ts -> nget (lbs s') lb = Some ts.
Proof. destruct sh_parts as (_ & _ & _ & Hl & _). exact (proj1 (lbs_step_frame _ _ _ Hl) lb ts). Qed.

Lemma sh_kids_static g k : nget (kids s) g = Some k ->
  exists k', nget (kids s') g = Some k' /\ k_t k' = k_t k /\ k_w k' = k_w k /\ k_reg k' = k_reg k.
Proof.
  destruct sh_parts as (_ & _ & _ & _ & _ & _ & SK & _). intros Hg.
  destruct (kids_frame _ _ _ _ _ _ SK Hg) as (k' & H1 & H2 & H3 & H4 & _). exists k'. repeat split; assumption.
Qed.

Lemma sh_cmd_trans c cm ph' :
  nget (cmds s) c = Some cm -> e_by e = ACmd c ->
  ph_trans s (length pre) (e_k e) (c_kind cm) (c_ph cm) ph' ->
  cmd_ok (pre ++ [e]) c (mkC (c_kind cm) ph' (c_ret cm)).
Proof.
  intros Hc Ha Ht. pose proof (h_cmd _ _ HH _ _ Hc) as [Hd Hok].
  unfold cmd_ok. cbn [c_kind c_ph]. rewrite Hlen.
  destruct ph'; cbn [ph_trans] in Ht; try contradiction.
  all: repeat match goal with H : _ /\ _ |- _ => destruct H end.
  all: repeat match goal with H : exists _, _ |- _ => destruct H end.
  all: match goal with H : c_ph _ = _ |- _ => rewrite H in Hd, Hok; cbn [slot_of] in Hd end; subst.
  all: split; [cbn [slot_of]; try (intros _; first [assumption|apply Hd; discriminate]); intros Hn; contradiction Hn; reflexivity|].
  all: repeat match goal with H : _ /\ _ |- _ => destruct H end.
  - (* CSlotted *) lia.
  - lia.
  - lia.
  - lia.
  - (* CDraining *) repeat split; try lia. apply ev_at_last; assumption.
  - (* CDrained *) repeat split; try lia; [apply ev_at_app_l; assumption|apply ev_at_last; assumption].
  - (* CDisposed *) repeat split; try lia; apply ev_at_app_l; assumption.
  - exact I.
  - (* CSvcDraining *) repeat split; try lia; [apply ev_at_last; assumption|].
    intros sV. rewrite firstn_len_app, Hrun. intros E; injection E as <-. reflexivity.
  - (* CSvcDone *) repeat split; try lia; try (apply ev_at_app_l; assumption).
    + apply slots_at_snoc; [lia|assumption].
    + apply ev_at_last; assumption.
    + intros lb Hin. match goal with H : forallb _ _ = true |- _ => rewrite forallb_forall in H; specialize (H lb Hin) end.
      match goal with H : drained_since _ _ _ = true |- _ => destruct (drained_since_spec _ _ _ H) as (w & a & iD & Hin' & Hlb & Hat & Hdone) end.
      destruct (h_call _ _ HH _ _ Hin') as (_ & Hev & _ & _ & Hdn). destruct (Hdn _ Hdone) as (G1 & G2 & G3).
      subst lb. exists w, (a_by a), (a_at a), iD. repeat split; try lia; apply ev_at_app_l; assumption.
Qed.

Lemma sh_cmd c cm' : nget (cmds s') c = Some cm' -> cmd_ok (pre ++ [e]) c cm'.
Proof.
  destruct sh_parts as (_ & _ & SC & _). intros Hc'.
  destruct (cmds_back _ _ _ _ _ _ SC Hc') as [(cm & Hc)|(k & nm & Hk & ->)].
  - destruct (cmds_frame _ _ _ _ _ _ SC Hc) as (cm'' & Hc'' & Hkd & _ & [Hph|(Ha & Ht)]).
    + rewrite Hc' in Hc''; injection Hc'' as <-. eapply cmd_ok_ext; [exact Hkd|exact Hph|]. apply cmd_ok_snoc. exact (h_cmd _ _ HH _ _ Hc).
    + rewrite Hc' in Hc''; injection Hc'' as <-.
      eapply cmd_ok_ext; [| |exact (sh_cmd_trans _ _ _ Hc Ha Ht)]; [exact Hkd|reflexivity].
  - split; [intros H; contradiction H; reflexivity|exact I].
Qed.

Lemma sh_issue i a c k nm : ev_at (pre ++ [e]) i a (KIssue c k nm) -> exists cm, nget (cmds s') c = Some cm /\ c_kind cm = k.
Proof.
  destruct sh_parts as (_ & Hc & SC & _). intros Hev.
  destruct (ev_at_snoc_inv _ _ _ _ _ Hev) as [Hold|(_ & _ & Hk)].
  - destruct (h_issue _ _ HH _ _ _ _ _ Hold) as (cm & Hcm & Hkd).
    destruct (cmds_frame _ _ _ _ _ _ SC Hcm) as (cm' & Hc' & Hkd' & _). exists cm'. split; [exact Hc'|congruence].
  - destruct (cmds_step_issue _ _ _ _ _ _ _ Hc Hk) as [_ H]. eexists. split; [exact H|reflexivity].
Qed.

Lemma sh_ret i a c r : ev_at (pre ++ [e]) i a (KReturn c r) -> exists cm, nget (cmds s') c = Some cm /\ c_ret cm = true.
Proof.
  destruct sh_parts as (_ & Hc & SC & _). intros Hev.
  destruct (ev_at_snoc_inv _ _ _ _ _ Hev) as [Hold|(_ & _ & Hk)].
  - destruct (h_ret _ _ HH _ _ _ _ Hold) as (cm & Hcm & Hr).
    destruct (cmds_frame _ _ _ _ _ _ SC Hcm) as (cm' & Hc' & _ & Hr' & _). exists cm'. split; [exact Hc'|auto].
  - destruct (cmds_step_return _ _ _ _ _ _ Hc Hk) as (_ & cm & _ & _ & H). eexists. split; [exact H|reflexivity].
Qed.

Lemma sh_slot i c sv ro lb rep : ev_at (pre ++ [e]) i (ACmd c) (KSlot sv ro lb rep) ->
  exists cm, nget (cmds s') c = Some cm /\ slot_of (c_ph cm) = Some (i, rep).
Proof.
  destruct sh_parts as (Hact & Hc & SC & _). intros Hev.
  destruct (ev_at_snoc_inv _ _ _ _ _ Hev) as [Hold|(-> & Ha & Hk)].
  - destruct (h_slot _ _ HH _ _ _ _ _ _ Hold) as (cm & Hcm & Hs).
    destruct (cmds_frame _ _ _ _ _ _ SC Hcm) as (cm' & Hc' & _ & _ & [Hph|(_ & Ht)]); exists cm'; (split; [exact Hc'|]).
    + rewrite Hph; exact Hs.
    + exact (ph_trans_slot _ _ _ _ _ _ _ Ht Hs).
  - destruct (cmds_step_slot _ _ _ _ _ _ _ _ _ Hact Hc Ha Hk) as (cm' & Hc' & Hph). exists cm'. split; [exact Hc'|rewrite Hph; reflexivity].
Qed.

Lemma sh_inst i c sv ok : ev_at (pre ++ [e]) i (ACmd c) (KInstall sv ok) ->
  exists cm, nget (cmds s') c = Some cm /\ inst_of (c_ph cm) = Some (i, ok).
Proof.
  destruct sh_parts as (Hact & Hc & SC & _). intros Hev.
  destruct (ev_at_snoc_inv _ _ _ _ _ Hev) as [Hold|(-> & Ha & Hk)].
  - destruct (h_inst _ _ HH _ _ _ _ Hold) as (cm & Hcm & Hs).
    destruct (cmds_frame _ _ _ _ _ _ SC Hcm) as (cm' & Hc' & _ & _ & [Hph|(_ & Ht)]); exists cm'; (split; [exact Hc'|]).
    + rewrite Hph; exact Hs.
    + exact (ph_trans_inst _ _ _ _ _ _ _ Ht Hs).
  - exact (cmds_step_install _ _ _ _ _ _ _ Hact Hc Ha Hk).
Qed.

Lemma sh_lbs i a lb ts : ev_at (pre ++ [e]) i a (KLbNew lb ts) -> nget (lbs s') lb = Some ts.
Proof.
  destruct sh_parts as (_ & _ & _ & Hl & _). intros Hev.
  destruct (ev_at_snoc_inv _ _ _ _ _ Hev) as [Hold|(_ & _ & Hk)].
  - apply sh_lbs_keep. exact (h_lbs _ _ HH _ _ _ _ Hold).
  - exact (proj2 (lbs_step_frame _ _ _ Hl) lb ts Hk).
Qed.

(** the record of a call none of whose fields changed *)
Lemma sh_call_keep w a : call_ok pre s w a -> call_ok (pre ++ [e]) s' w a.
Proof.
  intros (H1 & H2 & (ts & H3) & H4 & H5). unfold call_ok. rewrite Hlen. repeat split.
  - lia.
  - apply ev_at_app_l; exact H2.
  - exists ts. apply sh_lbs_keep; exact H3.
  - intros t g Hg. destruct (H4 t g Hg) as (k & Hk & E1 & E2 & E3).
    destruct (sh_kids_static _ _ Hk) as (k' & Hk' & F1 & F2 & F3). exists k'. repeat split; congruence.
  - destruct (H5 _ H) as (A & B & C); lia.
  - destruct (H5 _ H) as (A & B & C); lia.
  - destruct (H5 _ H) as (A & B & C). apply ev_at_app_l; exact C.
Qed.

Lemma sh_call w a' : In (w, a') (calls s') -> call_ok (pre ++ [e]) s' w a'.
Proof.
  destruct sh_parts as (_ & _ & _ & _ & SA & Hks & _). intros Hin.
  destruct SA as [E|lb w0 ts Hk Hnone Hl E|t w0 a Hk Hw Hd Ht Hin' E|lb w0 a Hk Hw Hd Hlb Hby Hc E]; rewrite E in Hin.
  - apply sh_call_keep. exact (h_call _ _ HH _ _ Hin).
  - destruct (In_nset _ _ _ _ Hin) as [Eq|Hold]; [|apply sh_call_keep; exact (h_call _ _ HH _ _ Hold)].
    injection Eq as -> ->. unfold call_ok. cbn [a_lb a_by a_at a_kids a_done]. rewrite Hlen. repeat split.
    + lia.
    + apply ev_at_last; [reflexivity|exact Hk].
    + exists ts. apply sh_lbs_keep; exact Hl.
    + intros t g Hg; discriminate.
    + discriminate.
    + discriminate.
    + discriminate.
  - destruct (In_nset _ _ _ _ Hin) as [Eq|Hold]; [|apply sh_call_keep; exact (h_call _ _ HH _ _ Hold)].
    injection Eq as -> ->.
    destruct (sh_call_keep _ _ (h_call _ _ HH _ _ (nget_In _ _ _ Hw))) as (H1 & H2 & H3 & H4 & H5).
    unfold call_ok. cbn [a_lb a_by a_at a_kids a_done]. split; [exact H1|]. split; [exact H2|]. split; [exact H3|]. split; [|discriminate].
    intros t' g' Hg'. rewrite nget_nset in Hg'. destruct (Nat.eqb_spec t' t) as [->|Hne]; [|exact (H4 _ _ Hg')].
    injection Hg' as <-.
    destruct (kids_step_child _ _ _ _ _ _ Hks Hk) as (g & Ha & Hnone & Eks).
    rewrite Ha. cbn [goid]. rewrite Eks, nget_nset_same. eexists. split; [reflexivity|]. cbn [k_t k_w k_reg].
    repeat split. destruct (h_call _ _ HH _ _ (nget_In _ _ _ Hw)) as (Hat & _). exact Hat.
  - destruct (In_nset _ _ _ _ Hin) as [Eq|Hold]; [|apply sh_call_keep; exact (h_call _ _ HH _ _ Hold)].
    injection Eq as -> ->.
    destruct (sh_call_keep _ _ (h_call _ _ HH _ _ (nget_In _ _ _ Hw))) as (H1 & H2 & H3 & H4 & H5).
    unfold call_ok. cbn [a_lb a_by a_at a_kids a_done]. split; [exact H1|]. split; [exact H2|]. split; [exact H3|]. split; [exact H4|].
    intros iD EiD. injection EiD as <-. rewrite Hlen.
    destruct (h_call _ _ HH _ _ (nget_In _ _ _ Hw)) as (Hat & _).
    split; [exact Hat|]. split; [lia|]. apply ev_at_last; [symmetry; exact Hby|rewrite Hlb; exact Hk].
Qed.

Lemma sh_kid_trans g k ph' :
  nget (kids s) g = Some k -> e_by e = AGo g ->
  kph_trans (length pre) (e_k e) (k_t k) (k_ph k) ph' ->
  kid_ok (pre ++ [e]) g (mkK (k_t k) (k_w k) (k_reg k) ph').
Proof.
  intros Hg Ha Ht. destruct (h_kid _ _ HH _ _ Hg) as (Hr & Hev & Hph).
  unfold kid_ok. cbn [k_t k_w k_reg k_ph]. rewrite Hlen.
  split; [lia|]. split; [apply ev_at_app_l; exact Hev|].
  assert (Hg' : goid (e_by e) = g) by (rewrite Ha; reflexivity).
  destruct ph' as [|o|b|b c|b|b c r]; cbn [kph_trans] in Ht; try contradiction; try exact I.
  - (* KOpen *)
    destruct Ht as [(-> & o & to & Eph & Hk & Ho)|(Eph & Hk)].
    + split; [lia|]. split; [lia|]. split; [exists o, to; split; [exact Ho|apply ev_at_last; assumption]|].
      intros j e' Hlo Hhi. lia.
    + rewrite Eph in Hph. destruct Hph as (H1 & H2 & H3 & H4).
      split; [exact H1|]. split; [lia|]. split; [apply begun_at_snoc; exact H3|].
      rewrite <- Hlen. apply quiet_snoc; [exact H4|]. intros _ t o nw. destruct Hk as [(rs & ->)| ->]; discriminate.
  - (* KCancelled *)
    destruct Ht as (-> & Eph & Hk). rewrite Eph in Hph. destruct Hph as (H1 & H2 & H3 & H4).
    split; [exact H1|]. split; [exact H2|]. split; [lia|]. split; [apply begun_at_snoc; exact H3|].
    split; [apply ev_at_last; assumption|]. rewrite <- Hlen. apply quiet_snoc; [exact H4|]. intros _ t o nw. rewrite Hk. discriminate.
  - (* KEarly *)
    destruct Ht as (-> & to & Eph & Hk). split; [lia|]. split; [lia|]. exists to. apply ev_at_last; assumption.
  - (* KEnded *)
    destruct Ht as (-> & Eph & o & nw & Hk & Hn). rewrite Eph in Hph. destruct Hph as (H1 & H2 & H3 & H4 & H5 & H6).
    split; [exact H1|]. split; [exact H2|]. split; [exact H3|]. split; [lia|]. split; [apply begun_at_snoc; exact H4|].
    split; [apply ev_at_app_l; exact H5|]. split; [exists o, nw; split; [exact Hn|apply ev_at_last; assumption]|].
    apply quiet_app_l; [lia|exact H6].
Qed.

Lemma kid_eta k : mkK (k_t k) (k_w k) (k_reg k) (k_ph k) = k.
Proof. destruct k; reflexivity. Qed.

Lemma sh_kid g k' : nget (kids s') g = Some k' -> kid_ok (pre ++ [e]) g k'.
Proof.
  destruct sh_parts as (_ & _ & _ & _ & _ & _ & SK & _). intros Hg'.
  destruct (kids_back _ _ _ _ _ _ SK Hg') as [(k & Hg)|(Hnone & Ha & t & w & Hk & ->)].
  - destruct (kids_frame _ _ _ _ _ _ SK Hg) as (k'' & Hg'' & E1 & E2 & E3 & [(Eph & Hq)|(Ha & Hl & Ht)]);
      rewrite Hg' in Hg''; injection Hg'' as <-.
    + assert (k' = k) as -> by (rewrite <- (kid_eta k'), <- (kid_eta k); congruence).
      apply kid_ok_snoc; [exact (h_kid _ _ HH _ _ Hg)|exact Hq].
    + rewrite <- (kid_eta k'), E1, E2, E3. exact (sh_kid_trans _ _ _ Hg Ha Ht).
  - unfold kid_ok. cbn [k_t k_w k_reg k_ph]. rewrite Hlen. split; [lia|]. split; [apply ev_at_last; assumption|exact I].
Qed.

Lemma step_hist_sec : hist (pre ++ [e]) s'.
Proof.
  constructor.
  - destruct sh_parts as (_ & _ & _ & _ & _ & _ & _ & Ht). rewrite Hlen. exact Ht.
  - exact sh_lbs.
  - exact sh_issue.
  - exact sh_ret.
  - exact sh_slot.
  - exact sh_inst.
  - exact sh_cmd.
  - exact sh_call.
  - exact sh_kid.
Qed.
End StepHist.

Lemma run_hist tr s : run step init tr = Some s -> hist tr s.
Proof.
  revert s. induction tr as [|e tr IH] using rev_ind; intros s.
  - cbn. intros H; injection H as <-. apply hist_init.
  - intros H. destruct (run_snoc _ _ _ _ _ H) as (s1 & R1 & E).
    exact (step_hist_sec _ _ _ _ R1 (IH _ R1) E).
Qed.
