(** M5fullInv.v — invariants of the acceptor model/M5full.v about targets,
    in-flight sets, drains and cancellation (the facts behind props/C03.v). *)
From KP Require Import model.Base model.Trace model.M5full proofs.M5fullFacts.
From Coq Require Import ZifyN ZifyNat ZifyBool.
Local Open Scope nat_scope.

Ltac tproj := cbn [t_lb t_state t_inflight t_drains t_ever_drained
                   d_orig d_deadline d_snap d_deadline_hit d_cancelled
                   l_targets l_rot l_idx l_waited l_tainted r_phase r_cancelled] in *.

(** * B: a request in flight on t is in a phase "on t" *)

Definition InvB (s : state) : Prop :=
  forall t x r, nget (targets s) t = Some x -> In r (t_inflight x) ->
  exists p, phase_of s r = Some p /\ on_target p = Some t.

Lemma invB_step : forall s e s', InvB s -> step s e = Some s' -> InvB s'.
Proof.
  intros s e s' HI H. step_inv H; norm; try exact HI.
  all: intros t' x' r' Hx' Hin'; norm; heap_cases; inj_some; tproj.
  all: try (rewrite add_new_get in Hx'; destruct (nmem t' ts) eqn:?; inj_some; tproj; [destruct Hin'|]).
  all: try (destruct Hin' as [<-|Hin']; [rewrite Nat.eqb_refl; eexists; split; [reflexivity|reflexivity]|]).
  all: try (apply nremove_In in Hin'; destruct Hin' as [Hin' Hne']).
  all: try match goal with Hx : nget (targets _) ?t = Some ?x, Hin : In ?r (t_inflight ?x) |- _ =>
         destruct (HI _ _ _ Hx Hin) as (pB & HpB & HoB) end.
  all: eqb_cases; eauto.
  all: try congruence.
  all: try match goal with Ho : outcome_status _ = Some _ |- _ => apply outcome_on_target in Ho end.
  all: try (rewrite HpB in *; inj_some; try discriminate; try congruence).
  all: try match goal with Hq : r_phase _ = _ |- _ => rewrite Hq in * end; try discriminate.
  all: try (eexists; split; [reflexivity|exact HoB]).
Qed.

Lemma invB_run : forall tr s, run step init tr = Some s -> InvB s.
Proof.
  intros tr s H. eapply (run_inv step InvB); [exact invB_step| |exact H].
  intros t x r Hx. discriminate Hx.
Qed.

(** * C: the in-flight set of t = requests claimed on t and not ended since *)

Definition track (t r : nat) (b : bool) (e : event) : bool :=
  match e_k e with
  | KClaim t' r' => if Nat.eqb t t' && Nat.eqb r r' then true else b
  | KEnd t' r' => if Nat.eqb t t' && Nat.eqb r r' then false else b
  | _ => b
  end.

Definition open_claim (t r : nat) (tr : trace) : bool := fold_left (track t r) tr false.

Definition InvC (tr : trace) (s : state) : Prop :=
  forall t r, match nget (targets s) t with
              | Some x => nmem r (t_inflight x) = open_claim t r tr
              | None => open_claim t r tr = false
              end.

Lemma invC_step : forall tr s e s', InvC tr s -> step s e = Some s' -> InvC (tr ++ [e]) s'.
Proof.
  intros tr s e s' HI H t' r'. unfold open_claim. rewrite fold_left_app. cbn [fold_left].
  fold (open_claim t' r' tr). specialize (HI t' r'). unfold track.
  step_inv H; norm; try exact HI.
  all: heap_cases; tproj; try exact HI.
  all: try match goal with Hx : nget (targets _) _ = Some _ |- _ => rewrite Hx in HI end; try exact HI.
  - (* KLbNew *) rewrite add_new_get. destruct (nmem t' ts) eqn:E; [|exact HI].
    apply nmem_In in E. rewrite (fresh_all _ _ _ Heqb E) in HI. cbn. now rewrite HI.
  - (* KClaim, same target *) cbn [andb]. rewrite nmem_cons.
    destruct (Nat.eqb_spec r' r); cbn; auto.
  - (* KEnd, same target *) cbn [andb]. rewrite nmem_nremove.
    destruct (Nat.eqb_spec r' r); cbn; [now rewrite andb_false_r | now rewrite andb_true_r].
Qed.

Lemma invC_run : forall tr s, run step init tr = Some s -> InvC tr s.
Proof.
  intros tr s H. apply (run_hinv0 step InvC init); auto.
  - intros t r. reflexivity.
  - intros pre s0 e s' _ HI Hs. eapply invC_step; eauto.
Qed.

Lemma track_no_end : forall t r post,
  (forall e', In e' post -> e_k e' <> KEnd t r) -> fold_left (track t r) post true = true.
Proof.
  intros t r. induction post as [|x post IH]; intros Hno; cbn [fold_left]; auto.
  assert (Hx : track t r true x = true).
  { unfold track. destruct (e_k x) eqn:Ek; auto.
    - destruct (Nat.eqb t t0 && Nat.eqb r r0); auto.
    - destruct (Nat.eqb_spec t t0) as [<-|]; cbn; auto. destruct (Nat.eqb_spec r r0) as [<-|]; cbn; auto.
      exfalso. apply (Hno x); cbn; auto. }
  rewrite Hx. apply IH. intros e' He'. apply Hno. now right.
Qed.

(** the boolean of InvC, as a statement about the events of the trace *)
Lemma open_claim_spec : forall t r tr,
  open_claim t r tr = true <->
  exists pre e post, tr = pre ++ e :: post /\ e_k e = KClaim t r /\
                     forall e', In e' post -> e_k e' <> KEnd t r.
Proof.
  intros t r tr. split.
  - induction tr as [|x l IH] using rev_ind; [discriminate|].
    unfold open_claim. rewrite fold_left_app. cbn [fold_left]. fold (open_claim t r l).
    unfold track. destruct (e_k x) eqn:Ek.
    all: try (intros Ho; destruct (IH Ho) as (pre & e & post & -> & Hk & Hno);
              exists pre, e, (post ++ [x]); split; [now rewrite <- app_assoc|split; [exact Hk|]];
              intros e' He'; apply in_app_or in He'; destruct He' as [He'|[<-|[]]]; [now apply Hno|congruence]).
    + (* KClaim *) destruct (Nat.eqb_spec t t0) as [<-|Hne]; cbn [andb].
      * destruct (Nat.eqb_spec r r0) as [<-|Hne].
        -- intros _. exists l, x, []. split; [reflexivity|split; [exact Ek|intros e' []]].
        -- intros Ho; destruct (IH Ho) as (pre & e & post & -> & Hk & Hno).
           exists pre, e, (post ++ [x]); split; [now rewrite <- app_assoc|split; [exact Hk|]].
           intros e' He'; apply in_app_or in He'; destruct He' as [He'|[<-|[]]]; [now apply Hno|congruence].
      * intros Ho; destruct (IH Ho) as (pre & e & post & -> & Hk & Hno).
        exists pre, e, (post ++ [x]); split; [now rewrite <- app_assoc|split; [exact Hk|]].
        intros e' He'; apply in_app_or in He'; destruct He' as [He'|[<-|[]]]; [now apply Hno|congruence].
    + (* KEnd *) destruct (Nat.eqb_spec t t0) as [<-|Hne]; cbn [andb].
      * destruct (Nat.eqb_spec r r0) as [<-|Hne]; [discriminate|].
        intros Ho; destruct (IH Ho) as (pre & e & post & -> & Hk & Hno).
        exists pre, e, (post ++ [x]); split; [now rewrite <- app_assoc|split; [exact Hk|]].
        intros e' He'; apply in_app_or in He'; destruct He' as [He'|[<-|[]]]; [now apply Hno|congruence].
      * intros Ho; destruct (IH Ho) as (pre & e & post & -> & Hk & Hno).
        exists pre, e, (post ++ [x]); split; [now rewrite <- app_assoc|split; [exact Hk|]].
        intros e' He'; apply in_app_or in He'; destruct He' as [He'|[<-|[]]]; [now apply Hno|congruence].
  - intros (pre & e & post & -> & Hk & Hno). unfold open_claim. rewrite fold_left_app. cbn [fold_left].
    assert (Ht : track t r (fold_left (track t r) pre false) e = true).
    { unfold track. rewrite Hk. now rewrite !Nat.eqb_refl. }
    rewrite Ht. now apply track_no_end.
Qed.

(** [inflight_spec]: in every reachable state the in-flight set of a target is
    exactly {r | a KClaim t r occurred and no KEnd t r since} *)
Theorem inflight_spec : forall tr s t x r,
  run step init tr = Some s -> nget (targets s) t = Some x ->
  (In r (t_inflight x) <->
   exists pre e post, tr = pre ++ e :: post /\ e_k e = KClaim t r /\
                      forall e', In e' post -> e_k e' <> KEnd t r).
Proof.
  intros tr s t x r Hrun Hx. rewrite <- open_claim_spec, <- nmem_In.
  pose proof (invC_run _ _ Hrun t r) as HC. rewrite Hx in HC. rewrite HC. tauto.
Qed.

(** * How one step changes a target: existence, in-flight set, drains *)

Lemma step_tgt_fwd : forall s e s' t x,
  step s e = Some s' -> nget (targets s) t = Some x ->
  exists x', nget (targets s') t = Some x' /\ t_lb x' = t_lb x /\
             (t_ever_drained x = true -> t_ever_drained x' = true).
Proof.
  intros s e s' t x H Hx. step_inv H; norm; eauto.
  all: heap_cases; inj_some; tproj; eauto.
  all: try (rewrite Hx in *; inj_some; eauto).
  rewrite add_new_get. destruct (nmem t ts) eqn:E; eauto.
  apply nmem_In in E. rewrite (fresh_all _ _ _ Heqb E) in Hx. discriminate.
Qed.

Lemma step_tgt_back : forall s e s' t x',
  step s e = Some s' -> nget (targets s') t = Some x' ->
  (exists x, nget (targets s) t = Some x) \/
  (exists lb ts, e_k e = KLbNew lb ts /\ In t ts /\ nget (targets s) t = None /\ x' = mkT lb TAdding [] [] false).
Proof.
  intros s e s' t x' H Hx'. step_inv H; norm; eauto.
  all: heap_cases; inj_some; tproj; eauto.
  rewrite add_new_get in Hx'. destruct (nmem t ts) eqn:E; eauto.
  inj_some. apply nmem_In in E. right. exists lb, ts. repeat split; auto. eapply fresh_all; eauto.
Qed.

Lemma step_inflight : forall s e s' t x x' r,
  step s e = Some s' -> nget (targets s) t = Some x -> nget (targets s') t = Some x' ->
  In r (t_inflight x') ->
  In r (t_inflight x) \/ (e_k e = KClaim t r /\ exists lb, phase_of s r = Some (PLbClaimed lb (Some t))).
Proof.
  intros s e s' t x x' r H Hx Hx' Hin. step_inv H; norm.
  all: try (rewrite Hx in Hx'; inj_some; auto).
  all: heap_cases; inj_some; tproj; try (rewrite Hx in *; inj_some; auto).
  - rewrite add_new_get in Hx'. destruct (nmem t ts) eqn:E; [|rewrite Hx in Hx'; inj_some; auto].
    apply nmem_In in E. rewrite (fresh_all _ _ _ Heqb E) in Hx. discriminate.
  - destruct Hin as [<-|Hin]; eauto.
  - apply nremove_In in Hin. tauto.
Qed.

Lemma step_inflight_keep : forall s e s' t x x' r,
  step s e = Some s' -> nget (targets s) t = Some x -> nget (targets s') t = Some x' ->
  In r (t_inflight x) -> In r (t_inflight x') \/ e_k e = KEnd t r.
Proof.
  intros s e s' t x x' r H Hx Hx' Hin. step_inv H; norm.
  all: try (rewrite Hx in Hx'; inj_some; auto).
  all: heap_cases; inj_some; tproj; try (rewrite Hx in *; inj_some; auto).
  - rewrite add_new_get in Hx'. destruct (nmem t ts) eqn:E; [|rewrite Hx in Hx'; inj_some; auto].
    apply nmem_In in E. rewrite (fresh_all _ _ _ Heqb E) in Hx. discriminate.
  - left. now right.
  - destruct (Nat.eq_dec r r0) as [->|Hne]; auto. left. apply nremove_In. auto.
Qed.

Lemma step_cancelled_mono : forall s e s' r,
  step s e = Some s' -> cancelled s r = true -> cancelled s' r = true.
Proof.
  intros s e s' r H Hc. step_inv H; norm; auto.
  all: try (rewrite cancelled_arrive; auto; fail).
  all: rewrite Hc; reflexivity.
Qed.

(** a request becomes cancelled only (a) in "cancel the rest" of a drain whose
    deadline was hit, whose snapshot holds it, while it is in flight; or (b) at
    the snapshot of a drain that lists it as an upgraded connection *)
Lemma step_cancelled_new : forall s e s' r,
  step s e = Some s' -> cancelled s r = false -> cancelled s' r = true ->
  (exists t x d sn, e_k e = KDrainCancelRest t /\ nget (targets s) t = Some x /\
     nget (t_drains x) (goid (e_by e)) = Some d /\ d_snap d = Some sn /\
     d_deadline_hit d = true /\ In r sn /\ In r (t_inflight x)) \/
  (exists t x rs, e_k e = KDrainSnapshot t rs /\ nget (targets s) t = Some x /\
     In (r, true) rs /\ In r (t_inflight x) /\ upgraded s r = true).
Proof.
  intros s e s' r H Hc Hc'. step_inv H; norm; try congruence.
  - rewrite cancelled_arrive in Hc'; auto. congruence.
  - (* snapshot *) right. rewrite Hc in Hc'. cbn [orb] in Hc'. apply andb_prop in Hc'. destruct Hc' as [Hm _].
    apply hij_in_In in Hm. exists t, t0, inflight. repeat split; auto.
    + match goal with Hf : forallb _ (map fst inflight) = true |- _ =>
        rewrite forallb_forall in Hf; apply nmem_In; apply Hf end.
      apply in_map_iff. exists (r, true). auto.
    + match goal with Hf : forallb _ inflight = true |- _ =>
        symmetry; exact (flags_spec s inflight Hf r true Hm) end.
  - left. rewrite Hc in Hc'. cbn [orb] in Hc'. apply andb_prop in Hc'. destruct Hc' as [Hm Hrec].
    apply nmem_In, filter_In in Hm. destruct Hm as [Hsn Hfl]. apply nmem_In in Hfl.
    exists t, t0, d, l. repeat split; auto.
    destruct (d_deadline_hit d) eqn:Eh; auto. cbn [orb] in Heqb.
    rewrite forallb_forall in Heqb. specialize (Heqb r Hsn).
    apply nmem_In in Hfl. rewrite Hfl in Heqb. cbn in Heqb. fold (cancelled s r) in Heqb. congruence.
Qed.
