(** C09handLink.v — every trace accepted by the request life-cycle model M5full
    also passes the hand-off monitor of corr/C09rot.v: a request for which the
    balancer picked a target is claimed (or refused) by that target before the
    proxy answers it. *)
From KP Require Import model.Base model.Trace model.M5full corr.C09rot proofs.M5fullFacts.
From Coq Require Import ZifyN ZifyNat ZifyBool.
Local Open Scope N_scope.

(** every request the monitor is waiting on sits, in the model, right after a pick with a target *)
Definition HInv (s : state) (pend : list nat) : Prop :=
  forall r, nmem r pend = true -> exists lb t, phase_of s r = Some (PLbClaimed lb (Some t)).

Lemma hinv_remove : forall s pend k,
  HInv s pend -> forall r, nmem r (nremove k pend) = true ->
  r <> k /\ exists lb t, phase_of s r = Some (PLbClaimed lb (Some t)).
Proof.
  intros s pend k Hinv r Hm. rewrite nmem_nremove in Hm. apply andb_prop in Hm. destruct Hm as [Hm Hne].
  apply negb_true_iff in Hne. apply Nat.eqb_neq in Hne. split; auto.
Qed.

Lemma hand_step_ok : forall s e s' pend,
  step s e = Some s' -> HInv s pend ->
  exists pend', hand_step pend e = Some pend' /\ HInv s' pend'.
Proof.
  intros s e s' pend H Hinv. step_inv H; unfold hand_step;
  match goal with Hk : e_k e = _ |- _ => rewrite Hk end.
  all: try (eexists; split; [reflexivity|]; intros rX HmX; destruct (Hinv rX HmX) as (lbX & tX & Hp);
            norm; eqb_cases; try rewrite Hp in *; inj_some; try discriminate; eauto; fail).
  (* KRespond: a pending request is in phase PLbClaimed _ (Some _), which has no answer rule *)
  all: try (destruct (nmem r pend) eqn:EmX;
            [ destruct (Hinv r EmX) as (lbX & tX & HpX); congruence
            | eexists; split; [reflexivity|]; intros rX HmX; destruct (Hinv rX HmX) as (lbX & tX & Hp);
              norm; eqb_cases; [congruence|eauto] ]; fail).
  (* KTargetFailed *)
  all: try (eexists; split; [reflexivity|]; intros rX HmX; destruct (Hinv rX HmX) as (lbX & tX & Hp);
            norm; eqb_cases; [congruence|eauto]; fail).
  (* KLbClaim without a target, KClaim, KClaimRefused: the request leaves the pending set *)
  all: try (eexists; split; [reflexivity|]; intros rX HmX;
            destruct (hinv_remove _ _ _ Hinv _ HmX) as (HneX & lbX & tX & Hp);
            norm; eqb_cases; [congruence|eauto]; fail).
  (* KLbClaim with a target: the request enters the pending set, in phase PLbClaimed _ (Some _) *)
  eexists; split; [reflexivity|]. intros rX HmX. rewrite nmem_cons in HmX.
  destruct (Nat.eqb_spec rX r) as [EqX|HneX]; [subst rX|].
  - exists lb0, n0. rewrite phase_of_set_phase, Nat.eqb_refl. reflexivity.
  - cbn [orb] in HmX. destruct (hinv_remove _ _ _ Hinv _ HmX) as (_ & lbX & tX & Hp).
    exists lbX, tX. rewrite phase_of_set_phase. apply Nat.eqb_neq in HneX. rewrite HneX.
    rewrite phase_of_upd_lbs, phase_of_tick. exact Hp.
Qed.

Lemma hand_run_ok : forall tr s s' pend,
  run step s tr = Some s' -> HInv s pend ->
  exists pend', run hand_step pend tr = Some pend' /\ HInv s' pend'.
Proof.
  induction tr as [|e tr IH]; intros s s' pend Hrun Hinv; cbn [run] in *.
  - injection Hrun as <-. eauto.
  - destruct (step s e) as [s1|] eqn:Es; [|discriminate Hrun].
    destruct (hand_step_ok _ _ _ _ Es Hinv) as (pend1 & Hh & Hinv1). rewrite Hh.
    eapply IH; eauto.
Qed.

Lemma full_accepted_handoff : forall tr, M5full.accepted tr = true -> c09_handoff_ok tr = true.
Proof.
  intros tr Hacc. unfold accepted in Hacc. unfold c09_handoff_ok.
  destruct (run step init tr) as [s'|] eqn:Erun; [|discriminate Hacc].
  assert (Hinit : HInv init []) by (intros r Hm; discriminate Hm).
  destruct (hand_run_ok _ _ _ _ Erun Hinit) as (pend' & Hr & _). rewrite Hr. reflexivity.
Qed.

Print Assumptions full_accepted_handoff.
