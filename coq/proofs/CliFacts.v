(** CliFacts.v — proofs about model/Cli.v (property C20). *)
From KP Require Import model.Base model.Cli.
From Coq Require Import ZifyN ZifyNat ZifyBool Permutation Sorted.

Local Open Scope Z_scope.

(** * Byte strings *)

Lemma byte_eqb_refl (c : byte) : byte_eqb c c = true.
Proof. unfold byte_eqb. now apply byte_dec_lb. Qed.

Lemma byte_eqb_eq (a b : byte) : byte_eqb a b = true <-> a = b.
Proof. unfold byte_eqb. split; [apply byte_dec_bl | apply byte_dec_lb]. Qed.

Lemma byte_eqb_neq (a b : byte) : byte_eqb a b = false <-> a <> b.
Proof.
  split.
  - intros H E. apply byte_eqb_eq in E. congruence.
  - intros H. destruct (byte_eqb a b) eqn:E; [|reflexivity]. apply byte_eqb_eq in E. contradiction.
Qed.

Lemma str_eqb_eq (a b : str) : str_eqb a b = true <-> a = b.
Proof.
  revert b. induction a as [|x a IH]; intros [|y b]; cbn; try (split; congruence).
  rewrite andb_true_iff, byte_eqb_eq, IH. split.
  - intros [H1 H2]. congruence.
  - intros H. inversion H. auto.
Qed.

Lemma str_eqb_refl (a : str) : str_eqb a a = true.
Proof. now apply str_eqb_eq. Qed.

Lemma mem_str_In (x : str) (l : list str) : mem_str x l = true <-> In x l.
Proof.
  induction l as [|y l IH]; cbn; [split; [discriminate|tauto]|].
  rewrite orb_true_iff, str_eqb_eq, IH. split; intros [H|H]; auto.
Qed.

(** * strconv.Atoi *)



Lemma digits_val_spec : forall ds acc,
  forallb is_digit ds = true ->
  digits_val acc ds = Some (acc * 10 ^ Z.of_nat (length ds) + pos_value ds).
Proof.
  induction ds as [|c r IH]; intros acc H; cbn [digits_val pos_value length].
  - f_equal. cbn. lia.
  - cbn in H. apply andb_true_iff in H as [Hc Hr]. rewrite Hc, (IH _ Hr). f_equal.
    rewrite Nat2Z.inj_succ, Z.pow_succ_r by lia. ring.
Qed.

Lemma digits_val_none : forall ds acc,
  forallb is_digit ds = false -> digits_val acc ds = None.
Proof.
  induction ds as [|c r IH]; intros acc H; cbn in *; [discriminate|].
  destruct (is_digit c); [apply IH; exact H|reflexivity].
Qed.

Lemma digit_val_range (c : byte) : is_digit c = true -> 0 <= digit_val c <= 9.
Proof. unfold is_digit, in_range, digit_val. lia. Qed.

Lemma pos_value_nonneg : forall ds, forallb is_digit ds = true -> 0 <= pos_value ds.
Proof.
  induction ds as [|c r IH]; intros H; cbn [pos_value]; [lia|].
  cbn in H. apply andb_true_iff in H as [Hc Hr].
  pose proof (digit_val_range c Hc) as Hd. specialize (IH Hr).
  assert (0 <= 10 ^ Z.of_nat (length r)) by (apply Z.pow_nonneg; lia). nia.
Qed.

Lemma digit_not_sign (c : byte) :
  is_digit c = true -> byte_eqb c minus_sign = false /\ byte_eqb c plus_sign = false.
Proof.
  intros H. split; apply byte_eqb_neq; intros ->; vm_compute in H; discriminate.
Qed.


Lemma split_sign_digits (ds : str) :
  ds <> [] -> forallb is_digit ds = true -> split_sign ds = (false, ds).
Proof.
  destruct ds as [|c r]; [congruence|]. intros _ H. cbn in H. apply andb_true_iff in H as [Hc _].
  destruct (digit_not_sign c Hc) as [H1 H2]. unfold split_sign. now rewrite H1, H2.
Qed.

Lemma split_sign_syntax (s : str) (neg : bool) (ds : str) :
  split_sign s = (neg, ds) -> int_syntax s neg ds.
Proof.
  destruct s as [|c r]; cbn.
  - intros H. inversion H. constructor.
  - destruct (byte_eqb c minus_sign) eqn:E1.
    + apply byte_eqb_eq in E1. subst c. intros H. inversion H. constructor.
    + destruct (byte_eqb c plus_sign) eqn:E2.
      * apply byte_eqb_eq in E2. subst c. intros H. inversion H. constructor.
      * intros H. inversion H. constructor.
Qed.

Lemma atoi_of_split (s : str) (neg : bool) (ds : str) :
  split_sign s = (neg, ds) -> ds <> [] -> forallb is_digit ds = true ->
  atoi s = if in_int (signed neg (pos_value ds)) then Some (signed neg (pos_value ds)) else None.
Proof.
  intros Hs Hne Hd. unfold atoi. rewrite Hs. destruct ds as [|c r]; [congruence|].
  rewrite (digits_val_spec _ 0 Hd). rewrite Z.mul_0_l, Z.add_0_l. reflexivity.
Qed.

(** Digit strings: the positional value, or an error when it does not fit in
    64 bits. *)
Lemma atoi_digits (ds : str) :
  ds <> [] -> forallb is_digit ds = true ->
  atoi ds = if in_int (pos_value ds) then Some (pos_value ds) else None.
Proof.
  intros Hne Hd. exact (atoi_of_split ds false ds (split_sign_digits ds Hne Hd) Hne Hd).
Qed.

Lemma atoi_plus (ds : str) :
  ds <> [] -> forallb is_digit ds = true ->
  atoi (plus_sign :: ds) = if in_int (pos_value ds) then Some (pos_value ds) else None.
Proof. intros Hne Hd. exact (atoi_of_split (plus_sign :: ds) false ds eq_refl Hne Hd). Qed.

Lemma atoi_minus (ds : str) :
  ds <> [] -> forallb is_digit ds = true ->
  atoi (minus_sign :: ds) = if in_int (- pos_value ds) then Some (- pos_value ds) else None.
Proof. intros Hne Hd. exact (atoi_of_split (minus_sign :: ds) true ds eq_refl Hne Hd). Qed.

(** Complete characterisation: exactly the optionally signed non-empty digit
    strings whose value fits are accepted, with that value. *)
Lemma atoi_some_iff (s : str) (z : Z) :
  atoi s = Some z <->
  exists neg ds, int_syntax s neg ds /\ ds <> [] /\ forallb is_digit ds = true /\
                 z = signed neg (pos_value ds) /\ int_min <= z <= int_max.
Proof.
  split.
  - intros H. destruct (split_sign s) as [neg ds] eqn:Hs.
    exists neg, ds. pose proof (split_sign_syntax _ _ _ Hs) as Hsyn.
    unfold atoi in H. rewrite Hs in H. destruct ds as [|c r]; [discriminate|].
    destruct (forallb is_digit (c :: r)) eqn:Hd.
    + rewrite (digits_val_spec _ 0 Hd), Z.mul_0_l, Z.add_0_l in H.
      fold (signed neg (pos_value (c :: r))) in H.
      destruct (in_int (signed neg (pos_value (c :: r)))) eqn:Hi; [|discriminate].
      assert (Hz : z = signed neg (pos_value (c :: r))) by congruence. clear H.
      split; [exact Hsyn|]. split; [congruence|]. split; [reflexivity|]. split; [exact Hz|].
      rewrite Hz. unfold in_int in Hi. lia.
    + rewrite (digits_val_none _ 0 Hd) in H. discriminate.
  - intros (neg & ds & Hsyn & Hne & Hd & Hz & Hr).
    assert (Hs : split_sign s = (neg, ds)).
    { inversion Hsyn; subst; [apply split_sign_digits; assumption | reflexivity | reflexivity]. }
    rewrite (atoi_of_split _ _ _ Hs Hne Hd), <- Hz.
    assert (Hi : in_int z = true) by (unfold in_int; lia). now rewrite Hi.
Qed.

Lemma atoi_empty : atoi [] = None.
Proof. reflexivity. Qed.

(** Anything containing a byte that is neither a digit nor a leading sign is
    refused: underscores, spaces, "0x", a second sign. *)
Lemma atoi_bad_byte (s : str) (neg : bool) (ds : str) :
  split_sign s = (neg, ds) -> forallb is_digit ds = false -> atoi s = None.
Proof.
  intros Hs Hd. unfold atoi. rewrite Hs. destruct ds as [|c r]; [reflexivity|].
  now rewrite (digits_val_none _ 0 Hd).
Qed.

(** * strconv.ParseBool *)

Lemma parse_bool_true_iff (s : str) : parse_bool s = Some true <-> In s true_spellings.
Proof.
  unfold parse_bool. rewrite <- mem_str_In. destruct (mem_str s true_spellings); [tauto|].
  destruct (mem_str s false_spellings); split; congruence.
Qed.

Lemma true_false_disjoint (s : str) :
  mem_str s true_spellings = true -> mem_str s false_spellings = true -> False.
Proof.
  intros H1 H2. apply mem_str_In in H1. apply mem_str_In in H2.
  cbv [true_spellings In] in H1.
  repeat (destruct H1 as [H1|H1]; [subst s; vm_compute in H2; intuition discriminate|]).
  exact H1.
Qed.

Lemma parse_bool_false_iff (s : str) : parse_bool s = Some false <-> In s false_spellings.
Proof.
  unfold parse_bool. rewrite <- mem_str_In. destruct (mem_str s true_spellings) eqn:Ht.
  - split; [discriminate|]. intros Hf. exfalso. eapply true_false_disjoint; eauto.
  - destruct (mem_str s false_spellings); split; congruence.
Qed.

Lemma parse_bool_none_iff (s : str) :
  parse_bool s = None <-> ~ In s true_spellings /\ ~ In s false_spellings.
Proof.
  unfold parse_bool. rewrite <- !mem_str_In.
  destruct (mem_str s true_spellings); destruct (mem_str s false_spellings); split; intros H;
    try discriminate; try reflexivity; try (destruct H; congruence); split; discriminate.
Qed.

(** * Precedence of the sources of a `run` option *)



Lemma precedence_int (e : env) (key : str) (flag : option Z) (def : Z) :
  precedence atoi e key flag def (run_opt_int e key flag def).
Proof.
  unfold precedence, run_opt_int, get_env_int, find_env, or_default. repeat split.
  - intros f ->. reflexivity.
  - intros -> s ->. reflexivity.
  - intros -> -> s ->. reflexivity.
  - intros -> -> ->. reflexivity.
Qed.

Lemma precedence_bool (e : env) (key : str) (flag : option bool) (def : bool) :
  precedence parse_bool e key flag def (run_opt_bool e key flag def).
Proof.
  unfold precedence, run_opt_bool, get_env_bool, find_env, or_default. repeat split.
  - intros f ->. reflexivity.
  - intros -> s ->. reflexivity.
  - intros -> -> s ->. reflexivity.
  - intros -> -> ->. reflexivity.
Qed.

(** The clauses determine the value: any two values satisfying them agree. *)
Lemma precedence_functional {A} (parse : str -> option A) e key flag def (v w : A) :
  precedence parse e key flag def v -> precedence parse e key flag def w -> v = w.
Proof.
  intros (V1 & V2 & V3 & V4) (W1 & W2 & W3 & W4).
  destruct flag as [f|]; [rewrite (V1 f eq_refl), (W1 f eq_refl); reflexivity|].
  destruct (lookup_env e (env_prefix ++ key)) as [s|] eqn:Hp.
  - rewrite (V2 eq_refl s eq_refl), (W2 eq_refl s eq_refl). reflexivity.
  - destruct (lookup_env e key) as [s|] eqn:Hb.
    + rewrite (V3 eq_refl eq_refl s eq_refl), (W3 eq_refl eq_refl s eq_refl). reflexivity.
    + rewrite (V4 eq_refl eq_refl eq_refl), (W4 eq_refl eq_refl eq_refl). reflexivity.
Qed.

(** * `deploy` pre-run validation *)

Lemma has_host_normalize (hs : list str) : has_host (normalize_hosts hs) = has_host hs.
Proof. destruct hs; reflexivity. Qed.


Lemma deploy_prerun_table (i : deploy_in) :
  is_some (refused_of (deploy_prerun i)) = should_refuse i.
Proof.
  unfold deploy_prerun, deploy_prerun_with, should_refuse, root_listed.
  rewrite has_host_normalize.
  destruct (di_tls i), (di_maxreq_changed i), (di_bufreq_changed i), (di_maxresp_changed i),
    (di_bufresp_changed i), (has_host (di_hosts i)),
    (mem_str [slash] (normalize_prefixes (di_prefixes i))); reflexivity.
Qed.

Lemma deploy_prerun_ok (i : deploy_in) :
  should_refuse i = false ->
  deploy_prerun i = PreOk (forward_headers_of i) (normalize_hosts (di_hosts i))
                          (normalize_prefixes (di_prefixes i)).
Proof.
  unfold deploy_prerun, deploy_prerun_with, should_refuse, root_listed.
  rewrite has_host_normalize.
  destruct (di_tls i), (di_maxreq_changed i), (di_bufreq_changed i), (di_maxresp_changed i),
    (di_bufresp_changed i), (has_host (di_hosts i)),
    (mem_str [slash] (normalize_prefixes (di_prefixes i))); cbn; congruence.
Qed.

(** Which message is reported: the first failing test, in the order of the code. *)
Lemma deploy_prerun_class (i : deploy_in) :
  refused_of (deploy_prerun i) =
    if di_maxreq_changed i && negb (di_bufreq_changed i) then Some ErrMaxReq
    else if di_maxresp_changed i && negb (di_bufresp_changed i) then Some ErrMaxResp
    else if di_tls i && negb (has_host (di_hosts i)) then Some ErrTlsHost
    else if di_tls i && negb (root_listed (di_prefixes i)) then Some ErrTlsRoot
    else None.
Proof.
  unfold deploy_prerun, deploy_prerun_with, root_listed. rewrite has_host_normalize.
  destruct (di_tls i), (di_maxreq_changed i), (di_bufreq_changed i), (di_maxresp_changed i),
    (di_bufresp_changed i), (has_host (di_hosts i)),
    (mem_str [slash] (normalize_prefixes (di_prefixes i))); reflexivity.
Qed.

Lemma forward_headers_default (i : deploy_in) :
  forward_headers_of i = match di_fwd i with Some b => b | None => negb (di_tls i) end.
Proof. reflexivity. Qed.

(** Path prefixes: the root path is listed iff no prefix was given or one of
    them consists of slashes only. *)
Lemma forallb_rev {A} (f : A -> bool) (l : list A) : forallb f (rev l) = forallb f l.
Proof.
  induction l as [|x l IH]; [reflexivity|]. cbn. rewrite forallb_app, IH. cbn.
  rewrite andb_true_r. apply andb_comm.
Qed.

Lemma trim_slash_nil_iff (p : str) :
  trim_byte slash p = [] <-> forallb (fun c => byte_eqb c slash) p = true.
Proof.
  unfold trim_byte.
  assert (Hd : forall s, drop_while_eq slash s = [] <-> forallb (fun c => byte_eqb c slash) s = true).
  { induction s as [|c s IH]; cbn; [tauto|]. destruct (byte_eqb c slash); cbn; [exact IH|].
    split; discriminate. }
  assert (Hsub : forall s, forallb (fun c => byte_eqb c slash) s = false ->
                           forallb (fun c => byte_eqb c slash) (drop_while_eq slash s) = false).
  { induction s as [|c s IH]; cbn; [discriminate|]. destruct (byte_eqb c slash) eqn:E; cbn; [exact IH|].
    intros _. now rewrite E. }
  split.
  - intros H. destruct (forallb (fun c => byte_eqb c slash) p) eqn:E; [reflexivity|exfalso].
    apply Hsub in E.
    assert (E2 : forallb (fun c => byte_eqb c slash) (rev (drop_while_eq slash p)) = false).
    { rewrite <- E. apply forallb_rev. }
    apply Hsub in E2.
    assert (Hr : drop_while_eq slash (rev (drop_while_eq slash p)) = []).
    { apply (f_equal (@rev byte)) in H. rewrite rev_involutive in H. exact H. }
    rewrite Hr in E2. discriminate.
  - intros H. apply Hd in H. rewrite H. reflexivity.
Qed.

Lemma root_listed_iff (ps : list str) :
  root_listed ps = true <->
  ps = [] \/ exists p, In p ps /\ forallb (fun c => byte_eqb c slash) p = true.
Proof.
  unfold root_listed, normalize_prefixes. rewrite mem_str_In. destruct ps as [|p0 ps'].
  - cbn. split; [auto|]. intros _. auto.
  - set (l := p0 :: ps'). rewrite in_map_iff. split.
    + intros (p & Hp & Hin). right. exists p. split; [exact Hin|].
      apply trim_slash_nil_iff. congruence.
    + intros [H|(p & Hin & Hp)]; [discriminate|]. exists p. split; [|exact Hin].
      apply trim_slash_nil_iff in Hp. now rewrite Hp.
Qed.

(** The pinned tree never reports the missing host … *)
Lemma pinned_never_tls_host (i : deploy_in) :
  refused_of (deploy_prerun_pinned i) <> Some ErrTlsHost.
Proof.
  unfold deploy_prerun_pinned, deploy_prerun_with.
  assert (H : Nat.eqb (length (normalize_hosts (di_hosts i))) 0 = false)
    by (destruct (di_hosts i); reflexivity).
  rewrite H, andb_false_r.
  destruct (di_maxreq_changed i && negb (di_bufreq_changed i));
  destruct (di_maxresp_changed i && negb (di_bufresp_changed i));
  destruct (di_tls i && negb (mem_str [slash] (normalize_prefixes (di_prefixes i)))); cbn; congruence.
Qed.

(** … and behaves like the repaired one on every other input. *)
Lemma pinned_agrees_outside (i : deploy_in) :
  di_tls i && negb (has_host (di_hosts i)) = false ->
  deploy_prerun_pinned i = deploy_prerun i.
Proof.
  unfold deploy_prerun_pinned, deploy_prerun, deploy_prerun_with. rewrite has_host_normalize.
  intros H. rewrite H.
  assert (H0 : Nat.eqb (length (normalize_hosts (di_hosts i))) 0 = false)
    by (destruct (di_hosts i); reflexivity).
  rewrite H0, andb_false_r. reflexivity.
Qed.

(** `deploy svc --target x:80 --tls` *)
Definition tls_without_host : deploy_in := mkDeployIn true [] [] false false false false None.

Lemma pinned_tls_host_witness :
  should_refuse tls_without_host = true /\
  deploy_prerun tls_without_host = PreRefused ErrTlsHost /\
  deploy_prerun_pinned tls_without_host = PreOk false [[]] [[slash]].
Proof. vm_compute. repeat split. Qed.

(** * Exit status *)

Lemma exit_code_01 (o : outcome) : exit_code o = 0%N \/ exit_code o = 1%N.
Proof. destruct o; cbn; auto. Qed.

Lemma exit_nonzero_iff (validation dial rpc : option str) :
  exit_code (client_outcome validation dial rpc) <> 0%N <->
  (validation <> None \/ dial <> None \/ rpc <> None).
Proof.
  destruct validation, dial, rpc; cbn; split; intros H; try discriminate; try congruence;
    try (left; discriminate); try (right; left; discriminate); try (right; right; discriminate).
  destruct H as [H|[H|H]]; congruence.
Qed.

Lemma exit_zero_iff (o : outcome) : exit_code o = 0%N <-> o = OSuccess.
Proof. destruct o; cbn; split; congruence. Qed.

Lemma stderr_empty_iff (o : outcome) : stderr_of o = [] <-> o = OSuccess.
Proof.
  destruct o; cbn; split; try congruence; intros H; try discriminate.
Qed.

(** No dial without passing validation, no call without a connection. *)
Lemma outcome_order (validation dial rpc : option str) :
  (forall m, validation = Some m -> client_outcome validation dial rpc = OValidation m) /\
  (forall m, validation = None -> dial = Some m -> client_outcome validation dial rpc = ODial m) /\
  (forall m, validation = None -> dial = None -> rpc = Some m -> client_outcome validation dial rpc = ORpc m).
Proof.
  repeat split; intros; subst; reflexivity.
Qed.

(** * The `list` table *)

Local Open Scope nat_scope.

Definition no_byte (c : byte) (s : str) : bool := forallb (fun x => negb (byte_eqb x c)) s.

Lemma no_byte_app c a b : no_byte c (a ++ b) = no_byte c a && no_byte c b.
Proof. apply forallb_app. Qed.

Lemma until_app c a r : no_byte c a = true -> until c (a ++ c :: r) = Some (a, r).
Proof.
  induction a as [|x a IH]; cbn; intros H.
  - now rewrite byte_eqb_refl.
  - apply andb_true_iff in H as [H1 H2]. apply negb_true_iff in H1. now rewrite H1, (IH H2).
Qed.

Lemma clean_app a b : clean (a ++ b) = clean a && clean b.
Proof. apply forallb_app. Qed.

Lemma clean_no_esc s : clean s = true -> no_byte esc s = true.
Proof.
  unfold no_byte. induction s as [|x s IH]; cbn; [reflexivity|]. intros H.
  apply andb_true_iff in H as [H1 H2]. apply andb_true_iff in H1 as [H1 _]. rewrite H1. exact (IH H2).
Qed.

Lemma clean_no_nl s : clean s = true -> no_byte newline s = true.
Proof.
  unfold no_byte. induction s as [|x s IH]; cbn; [reflexivity|]. intros H.
  apply andb_true_iff in H as [H1 H2]. apply andb_true_iff in H1 as [_ H1]. rewrite H1. exact (IH H2).
Qed.

Definition starts_cell (rest : str) : Prop := rest = [] \/ exists r, rest = esc :: r.

Lemma drop_spaces k rest :
  starts_cell rest -> drop_while_eq space (repeat space k ++ space :: space :: rest) = rest.
Proof.
  intros Hr. induction k as [|k IH].
  - cbn [repeat app drop_while_eq]. rewrite !byte_eqb_refl.
    destruct Hr as [->|(r & ->)]; reflexivity.
  - cbn [repeat app drop_while_eq]. rewrite byte_eqb_refl. exact IH.
Qed.

Lemma render_cell_shape sty w v rest :
  render_cell sty w v ++ rest =
  esc :: x5b :: (sty ++ x6d :: (v ++ esc :: x5b :: x30 :: x6d ::
                                (repeat space (w - length v) ++ space :: space :: rest))).
Proof.
  unfold render_cell, style_open, style_close. cbn [app]. rewrite <- !app_assoc. cbn [app].
  do 2 f_equal. f_equal. rewrite <- !app_assoc. reflexivity.
Qed.

Lemma parse_cell_render sty w v rest :
  no_byte x6d sty = true -> no_byte esc v = true -> starts_cell rest ->
  parse_cell (render_cell sty w v ++ rest) = Some (sty, v, rest).
Proof.
  intros Hs Hv Hr. rewrite render_cell_shape. unfold parse_cell.
  rewrite !byte_eqb_refl. cbn [andb]. rewrite (until_app _ _ _ Hs), (until_app _ _ _ Hv).
  rewrite !byte_eqb_refl. cbn [andb]. now rewrite drop_spaces.
Qed.

Lemma cell_style_cases n col :
  cell_style n col = style_italic \/ cell_style n col = style_bold \/ cell_style n col = style_plain.
Proof. unfold cell_style. destruct (n =? 0); [auto|]. destruct (col =? 0); auto. Qed.

Lemma cell_style_no_m n col : no_byte x6d (cell_style n col) = true.
Proof. destruct (cell_style_cases n col) as [->|[->| ->]]; reflexivity. Qed.

Lemma cell_style_no_nl n col : no_byte newline (cell_style n col) = true.
Proof. destruct (cell_style_cases n col) as [->|[->| ->]]; reflexivity. Qed.

Lemma render_cells_starts n col ws cells : starts_cell (render_cells n col ws cells).
Proof.
  destruct cells as [|c r]; [left; reflexivity|right]. cbn [render_cells].
  rewrite render_cell_shape. eexists. reflexivity.
Qed.

Lemma parse_cells_render : forall cells n col ws,
  forallb clean cells = true ->
  parse_cells (length cells) (render_cells n col ws cells) =
    Some (combine (map (cell_style n) (seq col (length cells))) cells).
Proof.
  induction cells as [|c r IH]; intros n col ws H; [reflexivity|].
  cbn in H. apply andb_true_iff in H as [Hc Hr].
  cbn [length parse_cells render_cells].
  rewrite (parse_cell_render _ _ _ _ (cell_style_no_m n col) (clean_no_esc _ Hc)
                             (render_cells_starts n (S col) (tl ws) r)).
  rewrite (IH n (S col) (tl ws) Hr). reflexivity.
Qed.

Lemma parse_header_render ws : parse_header (render_cells 0 0 ws header_row) = true.
Proof.
  unfold parse_header. change 6 with (length header_row).
  rewrite parse_cells_render by reflexivity. reflexivity.
Qed.

Lemma clean_tls_cell b : clean (tls_cell b) = true.
Proof. destruct b; reflexivity. Qed.

Lemma clean_desc_row d : wf_desc d = true -> forallb clean (desc_row d) = true.
Proof.
  unfold wf_desc, desc_row. intros H.
  repeat (apply andb_true_iff in H as [H ?]). cbn [forallb].
  rewrite clean_tls_cell. repeat (apply andb_true_iff; split); auto.
Qed.

Lemma parse_tls_cell b : parse_tls (tls_cell b) = Some b.
Proof. destruct b; reflexivity. Qed.

Lemma parse_desc_render n ws d :
  wf_desc d = true -> parse_desc (render_cells (S n) 0 ws (desc_row d)) = Some d.
Proof.
  intros H. unfold parse_desc. change 6 with (length (desc_row d)).
  rewrite (parse_cells_render _ _ _ _ (clean_desc_row d H)).
  unfold desc_row. cbn [length seq map combine fst snd].
  replace (styles_ok 1 _) with true by reflexivity.
  rewrite parse_tls_cell. destruct d; reflexivity.
Qed.

(** Lines *)

Lemma split_on_app sep l r :
  no_byte sep l = true -> split_on sep (l ++ sep :: r) = l :: split_on sep r.
Proof.
  induction l as [|x l IH]; cbn; intros H.
  - now rewrite byte_eqb_refl.
  - apply andb_true_iff in H as [H1 H2]. apply negb_true_iff in H1. now rewrite H1, (IH H2).
Qed.

Lemma split_on_nosep sep l : no_byte sep l = true -> split_on sep l = [l].
Proof.
  induction l as [|x l IH]; cbn; intros H; [reflexivity|].
  apply andb_true_iff in H as [H1 H2]. apply negb_true_iff in H1. now rewrite H1, (IH H2).
Qed.

Lemma no_nl_spaces k : no_byte newline (repeat space k) = true.
Proof. induction k; [reflexivity|]. cbn. exact IHk. Qed.

Lemma render_cells_no_nl : forall cells n col ws,
  forallb clean cells = true -> no_byte newline (render_cells n col ws cells) = true.
Proof.
  induction cells as [|c r IH]; intros n col ws H; [reflexivity|].
  cbn in H. apply andb_true_iff in H as [Hc Hr]. cbn [render_cells].
  rewrite no_byte_app, (IH _ _ _ Hr), andb_true_r.
  unfold render_cell, style_open, style_close.
  change (esc :: x5b :: cell_style n col ++ [x6d]) with ([esc; x5b] ++ cell_style n col ++ [x6d]).
  rewrite !no_byte_app, cell_style_no_nl, (clean_no_nl _ Hc), no_nl_spaces. reflexivity.
Qed.

Fixpoint row_lines (n : nat) (ws : list nat) (rows : list row) : list str :=
  match rows with
  | [] => []
  | r :: rs => render_cells n 0 ws r :: row_lines (S n) ws rs
  end.

Lemma split_render_rows : forall rows n ws,
  forallb (forallb clean) rows = true ->
  split_on newline (render_rows n ws rows) = row_lines n ws rows ++ [[]].
Proof.
  induction rows as [|r rs IH]; intros n ws H; [reflexivity|].
  cbn in H. apply andb_true_iff in H as [Hr Hrs].
  cbn [render_rows row_lines]. unfold render_row. rewrite <- app_assoc. cbn [app].
  rewrite (split_on_app _ _ _ (render_cells_no_nl _ n 0 ws Hr)), (IH _ _ Hrs). reflexivity.
Qed.

Lemma lines_of_render rows n ws :
  forallb (forallb clean) rows = true ->
  lines_of (render_rows n ws rows) = Some (row_lines n ws rows).
Proof.
  intros H. unfold lines_of. rewrite (split_render_rows _ _ _ H), rev_app_distr. cbn [rev app].
  now rewrite rev_involutive.
Qed.

Lemma parse_descs_render : forall ds n ws,
  forallb wf_desc ds = true -> parse_descs (row_lines (S n) ws (map desc_row ds)) = Some ds.
Proof.
  induction ds as [|d ds IH]; intros n ws H; [reflexivity|].
  cbn in H. apply andb_true_iff in H as [Hd Hds].
  cbn [map row_lines parse_descs]. now rewrite (parse_desc_render _ _ _ Hd), (IH _ _ Hds).
Qed.

Lemma clean_table_rows ds :
  forallb wf_desc ds = true -> forallb (forallb clean) (table_rows ds) = true.
Proof.
  intros H. unfold table_rows. cbn [forallb]. apply andb_true_iff. split; [reflexivity|].
  induction ds as [|d ds IH]; [reflexivity|]. cbn in H. apply andb_true_iff in H as [Hd Hds].
  cbn [map forallb]. now rewrite (clean_desc_row _ Hd), (IH Hds).
Qed.

Lemma parse_table_render ds :
  forallb wf_desc ds = true -> parse_table (render_table (table_rows ds)) = Some ds.
Proof.
  intros H. unfold parse_table, render_table.
  rewrite (lines_of_render _ _ _ (clean_table_rows _ H)).
  unfold table_rows at 2. cbn [row_lines]. rewrite parse_header_render.
  exact (parse_descs_render _ _ _ H).
Qed.

(** Sorting *)

Lemma forallb_insert f d l : forallb f (insert_by_name d l) = f d && forallb f l.
Proof.
  induction l as [|e l IH]; cbn; [reflexivity|].
  destruct (str_leb (d_name d) (d_name e)); cbn; [reflexivity|]. rewrite IH.
  destruct (f d), (f e); reflexivity.
Qed.

Lemma forallb_sort f l : forallb f (sort_by_name l) = forallb f l.
Proof.
  induction l as [|d l IH]; [reflexivity|]. cbn [sort_by_name fold_right].
  fold (sort_by_name l). now rewrite forallb_insert, IH.
Qed.

Lemma insert_perm d l : Permutation (insert_by_name d l) (d :: l).
Proof.
  induction l as [|e l IH]; cbn; [reflexivity|].
  destruct (str_leb (d_name d) (d_name e)); [reflexivity|].
  rewrite IH. apply perm_swap.
Qed.

Lemma sort_perm l : Permutation (sort_by_name l) l.
Proof.
  induction l as [|d l IH]; [reflexivity|]. cbn [sort_by_name fold_right]. fold (sort_by_name l).
  rewrite insert_perm. now constructor.
Qed.

Lemma str_leb_total : forall a b, str_leb a b = true \/ str_leb b a = true.
Proof.
  induction a as [|x a IH]; intros [|y b]; cbn; auto.
  destruct (byte_n x <? byte_n y)%N eqn:E1; [auto|].
  destruct (byte_n y <? byte_n x)%N eqn:E2; [auto|]. apply IH.
Qed.

Lemma byte_n_inj x y : byte_n x = byte_n y -> x = y.
Proof.
  unfold byte_n. intros H. pose proof (Byte.of_to_N x) as Hx. pose proof (Byte.of_to_N y) as Hy.
  rewrite H in Hx. congruence.
Qed.

Lemma str_leb_antisym : forall a b, str_leb a b = true -> str_leb b a = true -> a = b.
Proof.
  induction a as [|x a IH]; intros [|y b]; cbn; try congruence.
  destruct (byte_n x <? byte_n y)%N eqn:E1; destruct (byte_n y <? byte_n x)%N eqn:E2;
    try discriminate; try lia.
  intros H1 H2. assert (byte_n x = byte_n y) by lia.
  f_equal; [now apply byte_n_inj | now apply IH].
Qed.

Lemma str_leb_trans : forall a b c, str_leb a b = true -> str_leb b c = true -> str_leb a c = true.
Proof.
  induction a as [|x a IH]; intros [|y b] [|z c]; cbn; try congruence.
  destruct (byte_n x <? byte_n y)%N eqn:E1; destruct (byte_n y <? byte_n z)%N eqn:E2;
  destruct (byte_n x <? byte_n z)%N eqn:E3; destruct (byte_n y <? byte_n x)%N eqn:E4;
  destruct (byte_n z <? byte_n y)%N eqn:E5; destruct (byte_n z <? byte_n x)%N eqn:E6;
    try congruence; try lia.
  apply IH.
Qed.


Lemma insert_sorted d l : Sorted name_le l -> Sorted name_le (insert_by_name d l).
Proof.
  induction l as [|e l IH]; intros Hs; cbn.
  - repeat constructor.
  - destruct (str_leb (d_name d) (d_name e)) eqn:E.
    + constructor; [exact Hs|]. constructor. exact E.
    + inversion Hs as [|? ? Hs' Hhd]; subst. constructor; [now apply IH|].
      assert (Hed : name_le e d).
      { destruct (str_leb_total (d_name d) (d_name e)) as [H|H]; [congruence|exact H]. }
      destruct l as [|g l]; cbn; [constructor; exact Hed|].
      destruct (str_leb (d_name d) (d_name g)); constructor; [exact Hed|].
      inversion Hhd; assumption.
Qed.

Lemma sort_sorted l : Sorted name_le (sort_by_name l).
Proof.
  induction l as [|d l IH]; [constructor|]. cbn [sort_by_name fold_right]. fold (sort_by_name l).
  now apply insert_sorted.
Qed.

(** From services to descriptions *)

Lemma clean_join l : forallb clean l = true -> clean (join [comma] l) = true.
Proof.
  induction l as [|x l IH]; [reflexivity|]. intros H. cbn in H.
  apply andb_true_iff in H as [Hx Hl]. destruct l as [|y l]; [exact Hx|].
  change (join [comma] (x :: y :: l)) with (x ++ [comma] ++ join [comma] (y :: l)).
  rewrite !clean_app, Hx, (IH Hl). reflexivity.
Qed.

Lemma wf_describe s : wf_service s = true -> wf_desc (describe s) = true.
Proof.
  unfold wf_service, wf_desc, describe. intros H.
  repeat (apply andb_true_iff in H as [H ?]). cbn [d_name d_host d_path d_target d_state].
  rewrite H, (clean_join (sv_paths s)), (clean_join (sv_targets s)) by assumption.
  assert (Hh : clean (if is_nil (join [comma] (sv_hosts s)) then [star] else join [comma] (sv_hosts s)) = true).
  { destruct (is_nil (join [comma] (sv_hosts s))); [reflexivity|now apply clean_join]. }
  rewrite Hh. cbn. assumption.
Qed.

Lemma wf_describe_all svcs :
  forallb wf_service svcs = true -> forallb wf_desc (map describe svcs) = true.
Proof.
  induction svcs as [|s l IH]; [reflexivity|]. cbn. intros H.
  apply andb_true_iff in H as [Hs Hl]. now rewrite (wf_describe _ Hs), (IH Hl).
Qed.

(** Reading back what `list` prints gives exactly the services, by name. *)
Lemma list_roundtrip svcs :
  forallb wf_service svcs = true ->
  parse_table (render_list svcs) = Some (sort_by_name (map describe svcs)).
Proof.
  intros H. unfold render_list. apply parse_table_render.
  rewrite forallb_sort. now apply wf_describe_all.
Qed.

(** The comma-joined fields determine their elements. *)

Lemma contains_byte_cons x s c : contains_byte (x :: s) c = byte_eqb x c || contains_byte s c.
Proof.
  unfold contains_byte. cbn. destruct (byte_eqb x c); [reflexivity|].
  destruct (index_byte s c); reflexivity.
Qed.

Lemma comma_free_no_byte s : comma_free s = true -> no_byte comma s = true.
Proof.
  unfold comma_free. induction s as [|x s IH]; [reflexivity|].
  rewrite contains_byte_cons. cbn. destruct (byte_eqb x comma); cbn; [discriminate|exact IH].
Qed.

Lemma split_join_commas : forall l,
  l <> [] -> forallb comma_free l = true -> split_on comma (join [comma] l) = l.
Proof.
  induction l as [|x l IH]; [congruence|]. intros _ H. cbn in H.
  apply andb_true_iff in H as [Hx Hl]. destruct l as [|y l].
  - cbn [join]. apply split_on_nosep. now apply comma_free_no_byte.
  - change (join [comma] (x :: y :: l)) with (x ++ comma :: join [comma] (y :: l)).
    rewrite (split_on_app _ _ _ (comma_free_no_byte _ Hx)), IH; [reflexivity|congruence|exact Hl].
Qed.

(** Column layout: every column is as wide as its longest cell, so the
    padding count never truncates and all rows have the same visible width. *)


Fixpoint fits (ws : list nat) (cells : row) {struct cells} : bool :=
  match cells, ws with
  | [], _ => true
  | c :: r, w :: ws' => (length c <=? w) && fits ws' r
  | _ :: _, [] => false
  end.

Lemma upd_widths_mono : forall r ws cells, fits ws cells = true -> fits (upd_widths ws r) cells = true.
Proof.
  induction r as [|c r IH]; intros ws cells H; [destruct cells; exact H|].
  destruct cells as [|d cells]; [reflexivity|]. destruct ws as [|w ws]; [discriminate|].
  cbn in *. apply andb_true_iff in H as [H1 H2]. rewrite (IH _ _ H2), andb_true_r. lia.
Qed.

Lemma upd_widths_fits : forall r ws, fits (upd_widths ws r) r = true.
Proof.
  induction r as [|c r IH]; intros ws; [reflexivity|]. destruct ws as [|w ws]; cbn; rewrite IH; lia.
Qed.

Lemma widths_fit_from : forall rows ws r,
  (fits ws r = true \/ In r rows) -> fits (fold_left upd_widths rows ws) r = true.
Proof.
  induction rows as [|x rows IH]; intros ws r H; cbn.
  - destruct H as [H|[]]. exact H.
  - apply IH. destruct H as [H|[->|H]]; [left; now apply upd_widths_mono | left; apply upd_widths_fits | now right].
Qed.

Lemma widths_fit rows r : In r rows -> fits (widths rows) r = true.
Proof. intros H. apply widths_fit_from. now right. Qed.

Lemma visible_len_fits : forall cells ws,
  fits ws cells = true -> visible_len ws cells = fold_right (fun w a => w + 2 + a) 0 (firstn (length cells) ws).
Proof.
  induction cells as [|c r IH]; intros ws H; [reflexivity|]. destruct ws as [|w ws]; [discriminate|].
  cbn in *. apply andb_true_iff in H as [H1 H2]. rewrite (IH _ H2). lia.
Qed.

(** Rows of equal arity occupy the same visible width. *)
Lemma table_aligned rows r1 r2 :
  In r1 rows -> In r2 rows -> length r1 = length r2 ->
  visible_len (widths rows) r1 = visible_len (widths rows) r2.
Proof.
  intros H1 H2 Hl. rewrite !visible_len_fits by now apply widths_fit. now rewrite Hl.
Qed.

(** The padding of a cell is exactly the column width minus the cell. *)
Lemma table_pad_exact rows r : In r rows -> fits (widths rows) r = true.
Proof. apply widths_fit. Qed.
