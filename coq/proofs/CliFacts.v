(** CliFacts.v — proofs about model/Cli.v (property C20). *)
From KP Require Import model.Base model.Cli.
From Coq Require Import ZifyN ZifyNat ZifyBool Permutation Sorted.

Local Open Scope Z_scope.

(** * Byte strings *)

Lemma byte_eqb_refl (c : byte) : byte_eqb c c = true.
Proof. unfold byte_eqb. now apply byte_dec_lb. Qed.

Lemma byte_eqb_eq (a b : byte) : byte_eqb a b = true <-> a = b.
Proof. unfold byte_eqb. split; [apply byte_dec_bl | apply byte_dec_lb]. Qed.

Lemma byte_eqb_neq (a b : byte) : byte_eqb a b = false <-> a <> b.
Proof.
  split.
  - intros H E. apply byte_eqb_eq in E. congruence.
  - intros H. destruct (byte_eqb a b) eqn:E; [|reflexivity]. apply byte_eqb_eq in E. contradiction.
Qed.

Lemma str_eqb_eq (a b : str) : str_eqb a b = true <-> a = b.
Proof.
  revert b. induction a as [|x a IH]; intros [|y b]; cbn; try (split; congruence).
  rewrite andb_true_iff, byte_eqb_eq, IH. split.
  - intros [H1 H2]. congruence.
  - intros H. inversion H. auto.
Qed.

Lemma str_eqb_refl (a : str) : str_eqb a a = true.
Proof. now apply str_eqb_eq. Qed.

Lemma mem_str_In (x : str) (l : list str) : mem_str x l = true <-> In x l.
Proof.
  induction l as [|y l IH]; cbn; [split; [discriminate|tauto]|].
  rewrite orb_true_iff, str_eqb_eq, IH. split; intros [H|H]; auto.
Qed.

(** * strconv.Atoi *)

(** The value of a digit string, positionally. *)
Fixpoint pos_value (ds : str) : Z :=
  match ds with
  | [] => 0
  | c :: r => digit_val c * 10 ^ Z.of_nat (length r) + pos_value r
  end.

Definition signed (neg : bool) (n : Z) : Z := if neg then - n else n.

Lemma digits_val_spec : forall ds acc,
  forallb is_digit ds = true ->
  digits_val acc ds = Some (acc * 10 ^ Z.of_nat (length ds) + pos_value ds).
Proof.
  induction ds as [|c r IH]; intros acc H; cbn [digits_val pos_value length].
  - f_equal. cbn. lia.
  - cbn in H. apply andb_true_iff in H as [Hc Hr]. rewrite Hc, (IH _ Hr). f_equal.
    rewrite Nat2Z.inj_succ, Z.pow_succ_r by lia. ring.
Qed.

Lemma digits_val_none : forall ds acc,
  forallb is_digit ds = false -> digits_val acc ds = None.
Proof.
  induction ds as [|c r IH]; intros acc H; cbn in *; [discriminate|].
  destruct (is_digit c); [apply IH; exact H|reflexivity].
Qed.

Lemma digit_val_range (c : byte) : is_digit c = true -> 0 <= digit_val c <= 9.
Proof. unfold is_digit, in_range, digit_val. lia. Qed.

Lemma pos_value_nonneg : forall ds, forallb is_digit ds = true -> 0 <= pos_value ds.
Proof.
  induction ds as [|c r IH]; intros H; cbn [pos_value]; [lia|].
  cbn in H. apply andb_true_iff in H as [Hc Hr].
  pose proof (digit_val_range c Hc) as Hd. specialize (IH Hr).
  assert (0 <= 10 ^ Z.of_nat (length r)) by (apply Z.pow_nonneg; lia). nia.
Qed.

Lemma digit_not_sign (c : byte) :
  is_digit c = true -> byte_eqb c minus_sign = false /\ byte_eqb c plus_sign = false.
Proof.
  intros H. split; apply byte_eqb_neq; intros ->; vm_compute in H; discriminate.
Qed.

(** The three shapes of an accepted string. *)
Inductive int_syntax : str -> bool -> str -> Prop :=
| syn_plain : forall ds, int_syntax ds false ds
| syn_plus : forall ds, int_syntax (plus_sign :: ds) false ds
| syn_minus : forall ds, int_syntax (minus_sign :: ds) true ds.

Lemma split_sign_digits (ds : str) :
  ds <> [] -> forallb is_digit ds = true -> split_sign ds = (false, ds).
Proof.
  destruct ds as [|c r]; [congruence|]. intros _ H. cbn in H. apply andb_true_iff in H as [Hc _].
  destruct (digit_not_sign c Hc) as [H1 H2]. unfold split_sign. now rewrite H1, H2.
Qed.

Lemma split_sign_syntax (s : str) (neg : bool) (ds : str) :
  split_sign s = (neg, ds) -> int_syntax s neg ds.
Proof.
  destruct s as [|c r]; cbn.
  - intros H. inversion H. constructor.
  - destruct (byte_eqb c minus_sign) eqn:E1.
    + apply byte_eqb_eq in E1. subst c. intros H. inversion H. constructor.
    + destruct (byte_eqb c plus_sign) eqn:E2.
      * apply byte_eqb_eq in E2. subst c. intros H. inversion H. constructor.
      * intros H. inversion H. constructor.
Qed.

Lemma atoi_of_split (s : str) (neg : bool) (ds : str) :
  split_sign s = (neg, ds) -> ds <> [] -> forallb is_digit ds = true ->
  atoi s = if in_int (signed neg (pos_value ds)) then Some (signed neg (pos_value ds)) else None.
Proof.
  intros Hs Hne Hd. unfold atoi. rewrite Hs. destruct ds as [|c r]; [congruence|].
  rewrite (digits_val_spec _ 0 Hd). rewrite Z.mul_0_l, Z.add_0_l. reflexivity.
Qed.

(** Digit strings: the positional value, or an error when it does not fit in
    64 bits. *)
Lemma atoi_digits (ds : str) :
  ds <> [] -> forallb is_digit ds = true ->
  atoi ds = if in_int (pos_value ds) then Some (pos_value ds) else None.
Proof.
  intros Hne Hd. exact (atoi_of_split ds false ds (split_sign_digits ds Hne Hd) Hne Hd).
Qed.

Lemma atoi_plus (ds : str) :
  ds <> [] -> forallb is_digit ds = true ->
  atoi (plus_sign :: ds) = if in_int (pos_value ds) then Some (pos_value ds) else None.
Proof. intros Hne Hd. exact (atoi_of_split (plus_sign :: ds) false ds eq_refl Hne Hd). Qed.

Lemma atoi_minus (ds : str) :
  ds <> [] -> forallb is_digit ds = true ->
  atoi (minus_sign :: ds) = if in_int (- pos_value ds) then Some (- pos_value ds) else None.
Proof. intros Hne Hd. exact (atoi_of_split (minus_sign :: ds) true ds eq_refl Hne Hd). Qed.

(** Complete characterisation: exactly the optionally signed non-empty digit
    strings whose value fits are accepted, with that value. *)
Lemma atoi_some_iff (s : str) (z : Z) :
  atoi s = Some z <->
  exists neg ds, int_syntax s neg ds /\ ds <> [] /\ forallb is_digit ds = true /\
                 z = signed neg (pos_value ds) /\ int_min <= z <= int_max.
Proof.
  split.
  - intros H. destruct (split_sign s) as [neg ds] eqn:Hs.
    exists neg, ds. pose proof (split_sign_syntax _ _ _ Hs) as Hsyn.
    unfold atoi in H. rewrite Hs in H. destruct ds as [|c r]; [discriminate|].
    destruct (forallb is_digit (c :: r)) eqn:Hd.
    + rewrite (digits_val_spec _ 0 Hd), Z.mul_0_l, Z.add_0_l in H.
      fold (signed neg (pos_value (c :: r))) in H.
      destruct (in_int (signed neg (pos_value (c :: r)))) eqn:Hi; [|discriminate].
      injection H as Hz. subst z. split; [exact Hsyn|]. split; [congruence|]. split; [reflexivity|].
      split; [reflexivity|]. unfold in_int in Hi. Show. lia.
    + rewrite (digits_val_none _ 0 Hd) in H. discriminate.
  - intros (neg & ds & Hsyn & Hne & Hd & Hz & Hr).
    assert (Hs : split_sign s = (neg, ds)).
    { inversion Hsyn; subst; [apply split_sign_digits; assumption | reflexivity | reflexivity]. }
    rewrite (atoi_of_split _ _ _ Hs Hne Hd), <- Hz.
    assert (Hi : in_int z = true) by (unfold in_int; lia). now rewrite Hi.
Qed.

Lemma atoi_empty : atoi [] = None.
Proof. reflexivity. Qed.

(** Anything containing a byte that is neither a digit nor a leading sign is
    refused: underscores, spaces, "0x", a second sign. *)
Lemma atoi_bad_byte (s : str) (neg : bool) (ds : str) :
  split_sign s = (neg, ds) -> forallb is_digit ds = false -> atoi s = None.
Proof.
  intros Hs Hd. unfold atoi. rewrite Hs. destruct ds as [|c r]; [reflexivity|].
  now rewrite (digits_val_none _ 0 Hd).
Qed.

(** * strconv.ParseBool *)

Lemma parse_bool_true_iff (s : str) : parse_bool s = Some true <-> In s true_spellings.
Proof.
  unfold parse_bool. rewrite <- mem_str_In. destruct (mem_str s true_spellings); [tauto|].
  destruct (mem_str s false_spellings); split; congruence.
Qed.

Lemma true_false_disjoint (s : str) :
  mem_str s true_spellings = true -> mem_str s false_spellings = true -> False.
Proof.
  intros H1 H2. apply mem_str_In in H1. apply mem_str_In in H2.
  cbv [true_spellings In] in H1.
  repeat (destruct H1 as [H1|H1]; [subst s; vm_compute in H2; intuition discriminate|]).
  exact H1.
Qed.

Lemma parse_bool_false_iff (s : str) : parse_bool s = Some false <-> In s false_spellings.
Proof.
  unfold parse_bool. rewrite <- mem_str_In. destruct (mem_str s true_spellings) eqn:Ht.
  - split; [discriminate|]. intros Hf. exfalso. eapply true_false_disjoint; eauto.
  - destruct (mem_str s false_spellings); split; congruence.
Qed.

Lemma parse_bool_none_iff (s : str) :
  parse_bool s = None <-> ~ In s true_spellings /\ ~ In s false_spellings.
Proof.
  unfold parse_bool. rewrite <- !mem_str_In.
  destruct (mem_str s true_spellings); destruct (mem_str s false_spellings); split;
    try discriminate; try tauto; intros [H1 H2]; congruence.
Qed.

(** * Precedence of the sources of a `run` option *)

Definition or_default {A} (parse : str -> option A) (def : A) (s : str) : A :=
  match parse s with Some v => v | None => def end.

(** The four clauses of the statement, for a value [v] obtained with [parse]. *)
Definition precedence {A} (parse : str -> option A) (e : env) (key : str)
           (flag : option A) (def : A) (v : A) : Prop :=
  (forall f, flag = Some f -> v = f) /\
  (flag = None -> forall s, lookup_env e (env_prefix ++ key) = Some s -> v = or_default parse def s) /\
  (flag = None -> lookup_env e (env_prefix ++ key) = None ->
     forall s, lookup_env e key = Some s -> v = or_default parse def s) /\
  (flag = None -> lookup_env e (env_prefix ++ key) = None -> lookup_env e key = None -> v = def).

Lemma precedence_int (e : env) (key : str) (flag : option Z) (def : Z) :
  precedence atoi e key flag def (run_opt_int e key flag def).
Proof.
  unfold precedence, run_opt_int, get_env_int, find_env, or_default. repeat split.
  - intros f ->. reflexivity.
  - intros -> s ->. reflexivity.
  - intros -> -> s ->. reflexivity.
  - intros -> -> ->. reflexivity.
Qed.

Lemma precedence_bool (e : env) (key : str) (flag : option bool) (def : bool) :
  precedence parse_bool e key flag def (run_opt_bool e key flag def).
Proof.
  unfold precedence, run_opt_bool, get_env_bool, find_env, or_default. repeat split.
  - intros f ->. reflexivity.
  - intros -> s ->. reflexivity.
  - intros -> -> s ->. reflexivity.
  - intros -> -> ->. reflexivity.
Qed.

(** The clauses determine the value: any two values satisfying them agree. *)
Lemma precedence_functional {A} (parse : str -> option A) e key flag def (v w : A) :
  precedence parse e key flag def v -> precedence parse e key flag def w -> v = w.
Proof.
  intros (V1 & V2 & V3 & V4) (W1 & W2 & W3 & W4).
  destruct flag as [f|]; [rewrite (V1 f eq_refl), (W1 f eq_refl); reflexivity|].
  destruct (lookup_env e (env_prefix ++ key)) as [s|] eqn:Hp.
  - rewrite (V2 eq_refl s eq_refl), (W2 eq_refl s eq_refl). reflexivity.
  - destruct (lookup_env e key) as [s|] eqn:Hb.
    + rewrite (V3 eq_refl eq_refl s eq_refl), (W3 eq_refl eq_refl s eq_refl). reflexivity.
    + rewrite (V4 eq_refl eq_refl eq_refl), (W4 eq_refl eq_refl eq_refl). reflexivity.
Qed.

(** * `deploy` pre-run validation *)

Lemma has_host_normalize (hs : list str) : has_host (normalize_hosts hs) = has_host hs.
Proof. destruct hs; reflexivity. Qed.

Definition is_some {A} (o : option A) : bool := match o with Some _ => true | None => false end.

Lemma deploy_prerun_table (i : deploy_in) :
  is_some (refused_of (deploy_prerun i)) = should_refuse i.
Proof.
  unfold deploy_prerun, deploy_prerun_with, should_refuse, root_listed.
  rewrite has_host_normalize.
  destruct (di_tls i), (di_maxreq_changed i), (di_bufreq_changed i), (di_maxresp_changed i),
    (di_bufresp_changed i), (has_host (di_hosts i)),
    (mem_str [slash] (normalize_prefixes (di_prefixes i))); reflexivity.
Qed.

Lemma deploy_prerun_ok (i : deploy_in) :
  should_refuse i = false ->
  deploy_prerun i = PreOk (forward_headers_of i) (normalize_hosts (di_hosts i))
                          (normalize_prefixes (di_prefixes i)).
Proof.
  unfold deploy_prerun, deploy_prerun_with, should_refuse, root_listed.
  rewrite has_host_normalize.
  destruct (di_tls i), (di_maxreq_changed i), (di_bufreq_changed i), (di_maxresp_changed i),
    (di_bufresp_changed i), (has_host (di_hosts i)),
    (mem_str [slash] (normalize_prefixes (di_prefixes i))); cbn; congruence.
Qed.

(** Which message is reported: the first failing test, in the order of the code. *)
Lemma deploy_prerun_class (i : deploy_in) :
  refused_of (deploy_prerun i) =
    if di_maxreq_changed i && negb (di_bufreq_changed i) then Some ErrMaxReq
    else if di_maxresp_changed i && negb (di_bufresp_changed i) then Some ErrMaxResp
    else if di_tls i && negb (has_host (di_hosts i)) then Some ErrTlsHost
    else if di_tls i && negb (root_listed (di_prefixes i)) then Some ErrTlsRoot
    else None.
Proof.
  unfold deploy_prerun, deploy_prerun_with, root_listed. rewrite has_host_normalize.
  destruct (di_tls i), (di_maxreq_changed i), (di_bufreq_changed i), (di_maxresp_changed i),
    (di_bufresp_changed i), (has_host (di_hosts i)),
    (mem_str [slash] (normalize_prefixes (di_prefixes i))); reflexivity.
Qed.

Lemma forward_headers_default (i : deploy_in) :
  forward_headers_of i = match di_fwd i with Some b => b | None => negb (di_tls i) end.
Proof. reflexivity. Qed.

(** Path prefixes: the root path is listed iff no prefix was given or one of
    them consists of slashes only. *)
Lemma forallb_rev {A} (f : A -> bool) (l : list A) : forallb f (rev l) = forallb f l.
Proof.
  induction l as [|x l IH]; [reflexivity|]. cbn. rewrite forallb_app, IH. cbn.
  rewrite andb_true_r. apply andb_comm.
Qed.

Lemma trim_slash_nil_iff (p : str) :
  trim_byte slash p = [] <-> forallb (fun c => byte_eqb c slash) p = true.
Proof.
  unfold trim_byte.
  assert (Hd : forall s, drop_while_eq slash s = [] <-> forallb (fun c => byte_eqb c slash) s = true).
  { induction s as [|c s IH]; cbn; [tauto|]. destruct (byte_eqb c slash); cbn; [exact IH|].
    split; discriminate. }
  assert (Hsub : forall s, forallb (fun c => byte_eqb c slash) s = false ->
                           forallb (fun c => byte_eqb c slash) (drop_while_eq slash s) = false).
  { induction s as [|c s IH]; cbn; [discriminate|]. destruct (byte_eqb c slash) eqn:E; cbn; [exact IH|].
    intros _. now rewrite E. }
  split.
  - intros H. destruct (forallb (fun c => byte_eqb c slash) p) eqn:E; [reflexivity|exfalso].
    apply Hsub in E.
    assert (E2 : forallb (fun c => byte_eqb c slash) (rev (drop_while_eq slash p)) = false).
    { rewrite <- E. apply forallb_rev. }
    apply Hsub in E2.
    assert (Hr : drop_while_eq slash (rev (drop_while_eq slash p)) = []).
    { destruct (drop_while_eq slash (rev (drop_while_eq slash p))); [reflexivity|].
      cbn in H. destruct (rev l); discriminate. }
    rewrite Hr in E2. discriminate.
  - intros H. apply Hd in H. rewrite H. reflexivity.
Qed.
