(** C07Link.v — the link between acceptance by the pause-gate view
    (model/M5gate.v) and the verdict of the C07 monitor (corr/C07corr.v).

    The monitor judges a request on the OBSERVED trace, per service NAME (the
    state of a name is what the operator commanded); the view follows the pause
    CONTROLLERS.  The two agree when, over the whole trace, the gate-set events of
    the commands for the name are exactly the gate-set events on the controller
    the request read, each reporting the commanded state ([one_ctl]).  "Timed out
    although a resume / stop had come earlier" compares the TIMES of events, so the
    side condition also asks that time does not run backwards along the trace
    ([time_mono]; true of every recorded trace).

    Statements: props/C07link.v. *)
From KP Require Import model.Base model.Trace model.M5gate model.M5path corr.C07corr.
From KP Require Import proofs.M5gateFacts proofs.M5pathFacts.
From Coq Require Import ZifyN ZifyNat ZifyBool.
Local Open Scope N_scope.

(** * The side conditions, as booleans on the slim indexed trace *)

Definition is_routed (e : event) : bool := match e_k e with KRouted _ _ => true | _ => false end.

(** the function under the [flat_map] of [C07corr.name_sets] *)
Definition nsf (t : itrace) (n : str) (ie : nat * event) : list nev :=
  match e_k (snd ie), e_by (snd ie) with
  | KGateSet _ st _, ACmd c =>
    match cmd_info t c with
    | Some (k, n') =>
      if str_eqb n n' then
        match commanded k with
        | Some cs => [mkNev (fst ie) (e_t (snd ie)) cs (cmd_fail t c) c st]
        | None => []
        end
      else []
    | None => []
    end
  | _, _ => []
  end.

Lemma name_sets_nsf t n : name_sets t n = flat_map (nsf t n) t.
Proof. reflexivity. Qed.

(** one pause controller per service name, over the whole trace: the gate-set
    events of the pause / stop / resume commands for name [n] are exactly the
    gate-set events on controller [pc], and each reports the commanded state *)
Definition one_ctl (t : itrace) (n : str) (pc : nat) : bool :=
  forallb (fun ie =>
    match e_k (snd ie) with
    | KGateSet pc' st _ =>
      match nsf t n ie with
      | [x] => Nat.eqb pc' pc && gstate_eqb (ne_st x) st
      | _ => negb (Nat.eqb pc' pc)
      end
    | _ => true
    end) t.

(** every parameter event of a command carries the max-pause the monitor uses for it *)
Definition params_agree (t : itrace) : bool :=
  forallb (fun ie =>
    match e_k (snd ie) with
    | KParams c _ _ fa => cmd_fail t c =? fa
    | _ => true
    end) t.

(** the controller a request read *)
Fixpoint read_ctl (l : itrace) : option nat :=
  match l with
  | [] => None
  | (_, e) :: r => match e_k e with KGateRead pc _ _ => Some pc | _ => read_ctl r end
  end.

(** the side condition for request [r]: it was routed once, before anything else
    happened to it; something did happen to it afterwards; and the controller it
    read is THE controller of its service's name *)
Definition side_req (t : itrace) (r : nat) : bool :=
  match req_evs t r with
  | (_, e0) :: l =>
    match e_k e0 with
    | KRouted _ (Some s) =>
      match l with [] => false | _ => true end &&
      forallb (fun ie => negb (is_routed (snd ie))) l &&
      match read_ctl l with Some pc => one_ctl t (svc_name t s) pc | None => true end
    | _ => true
    end
  | [] => true
  end.

(** virtual time never runs backwards along the trace (the events are recorded in the order in which
    they happen) *)
Fixpoint mono_from (t0 : N) (l : trace) : bool :=
  match l with
  | [] => true
  | e :: r => (t0 <=? e_t e) && mono_from (e_t e) r
  end.

Definition time_mono (t : itrace) : bool := mono_from 0 (map snd t).

Definition c07_side (tr : trace) (r : nat) : bool :=
  params_agree (slim tr) && time_mono (slim tr) && side_req (slim tr) r.

(** the 503 / 504 of a request that the gate did not let proceed names no target (since the gate view
    demands it of every accepted trace, this is no longer a hypothesis of any theorem; kept to show that the
    old witness trace is now rejected) *)
Definition plain_answer (t : itrace) (r : nat) : bool :=
  let l := req_evs t r in
  proceeded l ||
  forallb (fun ie => match e_k (snd ie) with KRespond _ _ sb => str_eqb sb [] | _ => true end) l.

Definition c07_plain (tr : trace) (r : nat) : bool := plain_answer (slim tr) r.

(** * Part A: lists, indices *)

Lemma index_from_app {A} (a b : list A) n :
  index_from n (a ++ b) = index_from n a ++ index_from (n + length a) b.
Proof.
  revert n. induction a as [|x a IH]; intros n; cbn [index_from app length].
  - now rewrite Nat.add_0_r.
  - rewrite IH. replace (S n + length a)%nat with (n + S (length a))%nat by lia. reflexivity.
Qed.

Lemma index_from_In {A} (l : list A) n i x :
  In (i, x) (index_from n l) -> (n <= i < n + length l)%nat /\ In x l.
Proof.
  revert n. induction l as [|y l IH]; intros n; cbn [index_from In length]; [tauto|].
  intros [E|H].
  - injection E as <- <-. split; [lia|now left].
  - apply IH in H as [H1 H2]. split; [lia|now right].
Qed.

Lemma map_snd_index_from {A} (l : list A) n : map snd (index_from n l) = l.
Proof. revert n. induction l as [|x l IH]; intros n; cbn [index_from map snd]; [reflexivity|now rewrite IH]. Qed.

Lemma filter_nil_forall {A} (p : A -> bool) l : (forall x, In x l -> p x = false) -> filter p l = [].
Proof.
  induction l as [|x l IH]; intros H; cbn [filter]; [reflexivity|].
  rewrite (H x (or_introl eq_refl)). apply IH. intros y Hy. apply H. now right.
Qed.

Lemma filter_all_forall {A} (p : A -> bool) l : (forall x, In x l -> p x = true) -> filter p l = l.
Proof.
  induction l as [|x l IH]; intros H; cbn [filter]; [reflexivity|].
  rewrite (H x (or_introl eq_refl)). f_equal. apply IH. intros y Hy. apply H. now right.
Qed.

Lemma filter_filter {A} (p q : A -> bool) l : filter p (filter q l) = filter (fun x => q x && p x) l.
Proof.
  induction l as [|x l IH]; cbn [filter]; [reflexivity|].
  destruct (q x); cbn [filter andb]; [destruct (p x); now rewrite IH|exact IH].
Qed.

Lemma filter_ext_in' {A} (p q : A -> bool) l : (forall x, In x l -> p x = q x) -> filter p l = filter q l.
Proof.
  induction l as [|x l IH]; intros H; cbn [filter]; [reflexivity|].
  rewrite (H x (or_introl eq_refl)). rewrite IH; [reflexivity|]. intros y Hy. apply H. now right.
Qed.

(** * Part B: the gate view ignores what the monitor drops *)

Lemma irrelevant_ignored e : relevant e = false -> forall s, gstep s e = Some s.
Proof. unfold relevant, gstep. destruct (e_k e); try discriminate; reflexivity. Qed.

Lemma run_filter_relevant tr : forall s, run gstep s (filter relevant tr) = run gstep s tr.
Proof.
  induction tr as [|e tr IH]; intros s; cbn [filter run]; [reflexivity|].
  destruct (relevant e) eqn:E; cbn [run].
  - destruct (gstep s e); [apply IH|reflexivity].
  - rewrite (irrelevant_ignored e E s). apply IH.
Qed.

(** * Part B2: the story of a request that did not park *)

Definition Passed r (hist : trace) (pc : nat) (st : gstate) : Prop :=
  exists p2 p1 t ch, hist = p2 ++ mkEv t (AReq r) (KGateRead pc st ch) :: p1 /\
                     quiet r p2 /\ quiet r p1 /\ st <> GPaused /\ state_at p1 pc = st.

Definition DoneP r (hist : trace) (pc : nat) (st : gstate) (a : gaction) : Prop :=
  exists p4 hb t svc, hist = p4 ++ mkEv t (AReq r) (KGateResult r svc a) :: hb /\
                      pathonly r p4 /\ (a = AProceed \/ quiet r p4) /\ Passed r hb pc st /\
                      a = match st with GStopped => AStopped | _ => AProceed end.

Definition AnsP r (hist : trace) (a : gaction) (status : N) : Prop :=
  exists p5 hb t who sb pc st, hist = p5 ++ mkEv t who (KRespond r status sb) :: hb /\
                               quiet r p5 /\ DoneP r hb pc st a /\ status_ok a status sb.

Definition Direct r (hist : trace) (status : N) : Prop :=
  exists p5 hb t who sb, hist = p5 ++ mkEv t who (KRespond r status sb) :: hb /\ quiet r p5 /\ quiet r hb.

Definition ReqInv2 (r : nat) (hist : trace) (ph : option phase) : Prop :=
  match ph with
  | Some (PhPass pc st) => Passed r hist pc st
  | Some (PhDone pc None a) => exists st, DoneP r hist pc st a
  | Some (PhAnswered None None status) => Direct r hist status
  | Some (PhAnswered None (Some a) status) => AnsP r hist a status
  | _ => True
  end.

Lemma ReqInv2_cons_other r e hist ph :
  ~ M5gateFacts.concerns r e -> ReqInv2 r hist ph -> ReqInv2 r (e :: hist) ph.
Proof.
  intros Hn.
  destruct ph as [[pc st|h|h w|pc [[h w]|] a|[[h w]|] [a|] status]|]; cbn [ReqInv2]; try (intros; exact I).
  - intros (p2 & p1 & t & ch & -> & Q2 & Q1 & Hne & Hst). exists (e :: p2), p1, t, ch.
    split; [reflexivity|]. split; [now constructor|]. auto.
  - intros (st & p4 & hb & t & svc & -> & P4 & Hq & HP & Ha). exists st, (e :: p4), hb, t, svc.
    split; [reflexivity|]. split; [constructor; [intros Hc; contradiction|exact P4]|].
    split; [destruct Hq as [Hq|Hq]; [now left|right; now constructor]|]. split; assumption.
  - intros (p5 & hb & t & who & sb & pc & st & -> & Q5 & HD & Hs). exists (e :: p5), hb, t, who, sb, pc, st.
    split; [reflexivity|]. split; [now constructor|]. split; assumption.
  - intros (p5 & hb & t & who & sb & -> & Q5 & Qb). exists (e :: p5), hb, t, who, sb.
    split; [reflexivity|]. split; [now constructor|exact Qb].
Qed.

Lemma ReqInv2_step h s e s' :
  CtlInv h s -> (forall r, ReqInv r h (nget (g_req s) r)) -> (forall r, ReqInv2 r h (nget (g_req s) r)) ->
  gstep s e = Some s' -> forall r, ReqInv2 r (e :: h) (nget (g_req s') r).
Proof.
  intros Hc Hall1 Hall Hstep r.
  destruct (concerns_dec r e) as [Hreq|Hn].
  2:{ rewrite (gstep_req_other _ _ _ _ Hstep Hn). now apply ReqInv2_cons_other. }
  unfold M5gateFacts.concerns in Hreq.
  specialize (Hall r). specialize (Hall1 r). destruct Hc as [H1 H2 H3 H4 H5].
  destruct e as [t who k]. unfold req_of in Hreq. unfold gstep in Hstep. cbn [e_k e_by e_t] in *.
  destruct k; try discriminate.
  - (* respond *)
    injection Hreq as ->. unfold step_respond in Hstep.
    destruct (nget (g_req s) r) as [[pc st|hd|hd w|pc [[hd w]|] a|]|] eqn:Eph; try discriminate;
      cbn [ReqInv2 ReqInv] in Hall, Hall1.
    + destruct (match a with AStopped => _ | ATimedOut => _ | AProceed => _ end) eqn:Est; [|discriminate].
      injection Hstep as <-. rewrite get_set_req. exact I.
    + destruct (match a with AStopped => _ | ATimedOut => _ | AProceed => _ end) eqn:Est; [|discriminate].
      injection Hstep as <-. rewrite get_set_req. cbn [ReqInv2]. destruct Hall as (st & HD).
      exists [], h, t, who, served_by, pc, st. split; [reflexivity|]. split; [constructor|]. split; [exact HD|].
      unfold status_ok. destruct a; auto; apply andb_true_iff in Est as [Est Esb];
        apply N.eqb_eq in Est; apply str_eqb_nil in Esb; auto.
    + injection Hstep as <-. rewrite get_set_req. cbn [ReqInv2].
      exists [], h, t, who, served_by. split; [reflexivity|]. split; [constructor|exact Hall1].
  - (* pick *)
    injection Hreq as ->. unfold step_path in Hstep.
    destruct (nget (g_req s) r) as [[| | |pc [[hd w]|] []|]|] eqn:Eph; try discriminate; injection Hstep as <-;
      rewrite Eph; cbn [ReqInv2] in *; [exact I|].
    destruct Hall as (st & p4 & hb & t0 & svc0 & -> & P4 & Hq & HP & Ha).
    exists st, (mkEv t who (KPick r svc lb) :: p4), hb, t0, svc0. split; [reflexivity|].
    split; [constructor; [reflexivity|exact P4]|]. split; [now left|]. split; assumption.
  - (* read *)
    destruct who as [r0| | |]; try discriminate. injection Hreq as ->. unfold step_read in Hstep.
    destruct (nget (g_req s) r) eqn:Eph; [discriminate|]. cbn [ReqInv] in Hall1.
    destruct (gstate_eqb st (c_state (ctl_of s pc)) && onat_eqb chan (c_chan (ctl_of s pc))) eqn:Echk; [|discriminate].
    apply andb_true_iff in Echk as [Est Ech]. apply gstate_eqb_eq in Est.
    rewrite H2 in Est. cbn [ctl_at c_state] in Est.
    destruct st.
    + injection Hstep as <-. rewrite get_set_req. cbn [ReqInv2].
      exists [], h, t, chan. split; [reflexivity|]. split; [constructor|]. split; [exact Hall1|].
      split; [discriminate|now symmetry].
    + destruct chan as [g|]; [|discriminate]. injection Hstep as <-. rewrite get_set_req. exact I.
    + injection Hstep as <-. rewrite get_set_req. cbn [ReqInv2].
      exists [], h, t, chan. split; [reflexivity|]. split; [constructor|]. split; [exact Hall1|].
      split; [discriminate|now symmetry].
  - (* wake *)
    destruct who as [r0| | |]; try discriminate. injection Hreq as ->. unfold step_wake in Hstep.
    destruct (nget (g_req s) r) as [[pc0 st|hd|hd w|pc0 hw a|]|] eqn:Eph; try discriminate.
    destruct (Nat.eqb pc (h_pc hd) && _) eqn:Echk; [|discriminate].
    injection Hstep as <-. rewrite get_set_req. exact I.
  - (* result *)
    injection Hreq as ->. unfold step_result in Hstep.
    destruct who as [r0| | |]; try discriminate.
    destruct (Nat.eqb r r0) eqn:Er; [|discriminate]. apply Nat.eqb_eq in Er. subst r0.
    destruct (nget (g_req s) r) as [[pc0 st|hd|hd w|pc0 hw a0|]|] eqn:Eph; try discriminate; cbn [ReqInv2] in Hall.
    + destruct (M5gate.gaction_eqb a _) eqn:Ea; [|discriminate]. apply gaction_eqb_eq in Ea.
      destruct (bind_pc s svc pc0) as [s1|] eqn:Hb; [|discriminate]. injection Hstep as <-.
      rewrite get_set_req. cbn [ReqInv2]. exists st, [], h, t, svc.
      split; [reflexivity|]. split; [constructor|]. split; [right; constructor|]. split; assumption.
    + destruct (M5gate.gaction_eqb a (action_of w)) eqn:Ea; [|discriminate].
      destruct (bind_pc s svc (h_pc hd)) as [s1|] eqn:Hb; [|discriminate]. injection Hstep as <-.
      rewrite get_set_req. exact I.
  - (* lb-claim *)
    injection Hreq as ->. unfold step_path in Hstep.
    destruct (nget (g_req s) r) as [[| | |pc [[hd w]|] []|]|] eqn:Eph; try discriminate; injection Hstep as <-;
      rewrite Eph; cbn [ReqInv2] in *; [exact I|].
    destruct Hall as (st & p4 & hb & t1 & svc0 & -> & P4 & Hq & HP & Ha).
    exists st, (mkEv t who (KLbClaim lb t0 r) :: p4), hb, t1, svc0. split; [reflexivity|].
    split; [constructor; [reflexivity|exact P4]|]. split; [now left|]. split; assumption.
  - (* claim *)
    injection Hreq as ->. unfold step_path in Hstep.
    destruct (nget (g_req s) r) as [[| | |pc [[hd w]|] []|]|] eqn:Eph; try discriminate; injection Hstep as <-;
      rewrite Eph; cbn [ReqInv2] in *; [exact I|].
    destruct Hall as (st & p4 & hb & t1 & svc0 & -> & P4 & Hq & HP & Ha).
    exists st, (mkEv t who (KClaim t0 r) :: p4), hb, t1, svc0. split; [reflexivity|].
    split; [constructor; [reflexivity|exact P4]|]. split; [now left|]. split; assumption.
  - (* claim refused *)
    injection Hreq as ->. unfold step_path in Hstep.
    destruct (nget (g_req s) r) as [[| | |pc [[hd w]|] []|]|] eqn:Eph; try discriminate; injection Hstep as <-;
      rewrite Eph; cbn [ReqInv2] in *; [exact I|].
    destruct Hall as (st & p4 & hb & t1 & svc0 & -> & P4 & Hq & HP & Ha).
    exists st, (mkEv t who (KClaimRefused t0 r) :: p4), hb, t1, svc0. split; [reflexivity|].
    split; [constructor; [reflexivity|exact P4]|]. split; [now left|]. split; assumption.
Qed.

Lemma ReqInv2_run tr s : run gstep ginit tr = Some s -> GInv (rev tr) s /\ forall r, ReqInv2 r (rev tr) (nget (g_req s) r).
Proof.
  apply (run_inv gstep ginit (fun h s => GInv h s /\ forall r, ReqInv2 r h (nget (g_req s) r))).
  - split; [|intros r; exact I]. split; [apply CtlInv_init|]. intros r. cbn. constructor.
  - intros h s0 e s' [[Hc Hr] H2] Hstep. split.
    + split; [eapply CtlInv_step; eassumption|eapply ReqInv_step; eassumption].
    + eapply ReqInv2_step; eassumption.
Qed.

(** * Part B3: a generation belongs to one controller, and the generation of a paused controller is open *)

Definition same_gen (s s' : gst) : Prop :=
  g_ctl s' = g_ctl s /\ g_opened s' = g_opened s /\ g_closed s' = g_closed s.

Lemma bind_pc_gen s svc pc s' : bind_pc s svc pc = Some s' -> same_gen s s'.
Proof.
  unfold bind_pc. destruct (pc_of s svc) as [p|]; [destruct (Nat.eqb p pc); [|discriminate]|];
    intros H; injection H as <-; repeat split.
Qed.

Lemma gstep_same_gen s e s' :
  gstep s e = Some s' -> (forall pc st ch, e_k e <> KGateSet pc st ch) -> same_gen s s'.
Proof.
  intros Hstep Hs. unfold gstep in Hstep.
  destruct (e_k e) eqn:Hk; try (injection Hstep as <-; repeat split).
  - unfold step_respond in Hstep. destruct (nget (g_req s) r) as [[]|]; try discriminate.
    + destruct (match a with AStopped => _ | ATimedOut => _ | AProceed => _ end); [|discriminate].
      injection Hstep as <-. repeat split.
    + injection Hstep as <-. repeat split.
  - unfold step_copy in Hstep. destruct (nmem new (g_known s) || Nat.eqb old new); [discriminate|].
    injection Hstep as <-. repeat split.
  - unfold step_path in Hstep. destruct (nget (g_req s) r) as [[| | |? ? []|]|]; try discriminate.
    injection Hstep as <-. repeat split.
  - exfalso. eapply Hs. reflexivity.
  - unfold step_read in Hstep. destruct (e_by e); try discriminate.
    destruct (nget (g_req s) r); [discriminate|]. destruct (_ && _); [|discriminate].
    destruct st; try (injection Hstep as <-; repeat split).
    destruct chan; [|discriminate]. injection Hstep as <-. repeat split.
  - unfold step_wake in Hstep. destruct (e_by e); try discriminate.
    destruct (nget (g_req s) r) as [[]|]; try discriminate. destruct (_ && _); [|discriminate].
    injection Hstep as <-. repeat split.
  - unfold step_result in Hstep. destruct (e_by e); try discriminate.
    destruct (Nat.eqb r r0); [|discriminate].
    destruct (nget (g_req s) r) as [[]|]; try discriminate.
    + destruct (M5gate.gaction_eqb a _); [|discriminate].
      destruct (bind_pc s svc pc) as [s1|] eqn:Hb; [|discriminate]. injection Hstep as <-.
      apply bind_pc_gen in Hb. exact Hb.
    + destruct (M5gate.gaction_eqb a _); [|discriminate].
      destruct (bind_pc s svc (h_pc h)) as [s1|] eqn:Hb; [|discriminate]. injection Hstep as <-.
      apply bind_pc_gen in Hb. exact Hb.
  - unfold step_path in Hstep. destruct (nget (g_req s) r) as [[| | |? ? []|]|]; try discriminate.
    injection Hstep as <-. repeat split.
  - unfold step_path in Hstep. destruct (nget (g_req s) r) as [[| | |? ? []|]|]; try discriminate.
    injection Hstep as <-. repeat split.
  - unfold step_path in Hstep. destruct (nget (g_req s) r) as [[| | |? ? []|]|]; try discriminate.
    injection Hstep as <-. repeat split.
Qed.

(** the three effects of a Pause / Resume / Stop *)
Inductive set_shape (s s' : gst) (pc : nat) : Prop :=
| SKeep nc : g_ctl s' = nset (g_ctl s) pc nc -> g_opened s' = g_opened s -> g_closed s' = g_closed s ->
             c_chan nc = c_chan (ctl_of s pc) -> (c_state nc = GPaused -> c_state (ctl_of s pc) = GPaused) ->
             set_shape s s' pc
| SOpen g fa : g_ctl s' = nset (g_ctl s) pc (mkCtl GPaused (Some g) fa) -> g_opened s' = g :: g_opened s ->
               g_closed s' = g_closed s -> ~ In g (g_opened s) -> set_shape s s' pc
| SClose g st fa : c_state (ctl_of s pc) = GPaused -> c_chan (ctl_of s pc) = Some g -> nget (g_closed s) g = None ->
                   st <> GPaused -> g_ctl s' = nset (g_ctl s) pc (mkCtl st (Some g) fa) -> g_opened s' = g_opened s ->
                   g_closed s' = (g, st) :: g_closed s -> set_shape s s' pc.

Lemma step_setstate_shape s t pc st ch s' :
  st <> GPaused -> step_setstate s t pc st ch = Some s' -> set_shape s s' pc.
Proof.
  intros Hne. unfold step_setstate.
  destruct (onat_eqb ch (c_chan (ctl_of s pc))) eqn:Ech; [|discriminate]. apply onat_eqb_eq in Ech.
  destruct (c_state (ctl_of s pc)) eqn:Est.
  - intros H. injection H as <-. eapply SKeep with (nc := mkCtl st ch _); try reflexivity; cbn; congruence.
  - destruct (c_chan (ctl_of s pc)) as [g|] eqn:Ecc; [|discriminate].
    destruct (nget (g_closed s) g) eqn:Ecl; [discriminate|]. intros H. injection H as <-. subst ch.
    eapply SClose with (g := g) (st := st); try reflexivity; assumption.
  - intros H. injection H as <-. eapply SKeep with (nc := mkCtl st ch _); try reflexivity; cbn; congruence.
Qed.

Lemma step_pause_shape s who pc ch s' : step_pause s who pc ch = Some s' -> set_shape s s' pc.
Proof.
  unfold step_pause. destruct who as [|k| |]; try discriminate.
  destruct (nget (g_cmds s) k) as [fa|]; [|discriminate].
  assert (Hopen : match ch with
                  | Some g => if nmem g (g_opened s) then None
                              else Some (mkG (g_cmds s) (nset (g_ctl s) pc (mkCtl GPaused (Some g) fa)) (g :: g_opened s)
                                             (g_closed s) (g_ctime s) (g_req s) (g_known s) (g_parent s) (g_pc s))
                  | None => None
                  end = Some s' -> set_shape s s' pc).
  { destruct ch as [g|]; [|discriminate]. destruct (nmem g (g_opened s)) eqn:Em; [discriminate|].
    intros H. injection H as <-. eapply SOpen with (g := g) (fa := fa); try reflexivity.
    rewrite <- nmem_true. congruence. }
  destruct (c_state (ctl_of s pc)) eqn:Est; [exact Hopen| |exact Hopen].
  destruct (c_chan (ctl_of s pc)) as [g|] eqn:Ecc; [|exact Hopen].
  destruct (onat_eqb ch (Some g)) eqn:E; [|discriminate]. apply onat_eqb_eq in E. subst ch.
  intros H. injection H as <-. eapply SKeep with (nc := mkCtl GPaused (Some g) fa); try reflexivity.
  - cbn. congruence.
  - intros _. exact Est.
Qed.

Lemma step_set_shape s t who pc st ch s' : step_set s t who pc st ch = Some s' -> set_shape s s' pc.
Proof.
  unfold step_set. destruct st.
  - apply step_setstate_shape. discriminate.
  - apply step_pause_shape.
  - apply step_setstate_shape. discriminate.
Qed.

Record GenInv (s : gst) : Prop := {
  gi_open : forall pc g, c_chan (ctl_of s pc) = Some g -> In g (g_opened s);
  gi_uniq : forall pc pc' g, c_chan (ctl_of s pc) = Some g -> c_chan (ctl_of s pc') = Some g -> pc = pc';
  gi_closed_open : forall g st, nget (g_closed s) g = Some st -> In g (g_opened s);
  gi_live : forall pc g, c_state (ctl_of s pc) = GPaused -> c_chan (ctl_of s pc) = Some g -> nget (g_closed s) g = None
}.

Lemma GenInv_init : GenInv ginit.
Proof. split; cbn; intros; discriminate. Qed.

Lemma GenInv_same s s' : same_gen s s' -> GenInv s -> GenInv s'.
Proof.
  intros (E1 & E2 & E3) [A B C D].
  assert (Hc : forall pc, ctl_of s' pc = ctl_of s pc) by (intros pc; unfold ctl_of; now rewrite E1).
  split.
  - intros pc g. rewrite Hc, E2. apply A.
  - intros pc pc' g. rewrite !Hc. apply B.
  - intros g st. rewrite E2, E3. apply C.
  - intros pc g. rewrite Hc, E3. apply D.
Qed.

Lemma GenInv_shape s s' pc : set_shape s s' pc -> GenInv s -> GenInv s'.
Proof.
  intros Hsh [A B C D].
  destruct Hsh as [nc E1 E2 E3 Hch Hst|g fa E1 E2 E3 Hfresh|g st fa Est Ech Ecl Hne E1 E2 E3];
    pose proof (ctl_of_upd _ _ _ _ E1) as Hc.
  - split.
    + intros pc0 g. rewrite Hc, E2. destruct (Nat.eqb pc0 pc) eqn:E; [|apply A].
      rewrite Hch. apply A.
    + intros p1 p2 g. rewrite !Hc.
      destruct (Nat.eqb p1 pc) eqn:Ea, (Nat.eqb p2 pc) eqn:Eb;
        try apply Nat.eqb_eq in Ea; try apply Nat.eqb_eq in Eb; subst; auto; rewrite ?Hch; apply B.
    + intros g st. rewrite E2, E3. apply C.
    + intros pc0 g. rewrite Hc, E3. destruct (Nat.eqb pc0 pc) eqn:E; [|apply D].
      rewrite Hch. intros H1 H2. apply (D pc g); auto.
  - split.
    + intros pc0 g0. rewrite Hc, E2. destruct (Nat.eqb pc0 pc) eqn:E.
      * cbn. intros H. injection H as <-. now left.
      * intros H. right. eapply A. exact H.
    + intros p1 p2 g0. rewrite !Hc.
      destruct (Nat.eqb p1 pc) eqn:Ea, (Nat.eqb p2 pc) eqn:Eb;
        try apply Nat.eqb_eq in Ea; try apply Nat.eqb_eq in Eb; subst; auto; cbn.
      * intros H1 H2. injection H1 as <-. exfalso. apply Hfresh. eapply A. exact H2.
      * intros H1 H2. injection H2 as <-. exfalso. apply Hfresh. eapply A. exact H1.
      * apply B.
    + intros g0 st. rewrite E2, E3. intros H. right. eapply C. exact H.
    + intros pc0 g0. rewrite Hc, E3. destruct (Nat.eqb pc0 pc) eqn:E.
      * cbn. intros _ H. injection H as <-. destruct (nget (g_closed s) g) eqn:Ec; [|reflexivity].
        exfalso. apply Hfresh. eapply C. exact Ec.
      * apply D.
  - split.
    + intros pc0 g0. rewrite Hc, E2. destruct (Nat.eqb pc0 pc) eqn:E; [|apply A].
      cbn. intros H. injection H as <-. eapply A. exact Ech.
    + intros p1 p2 g0. rewrite !Hc.
      destruct (Nat.eqb p1 pc) eqn:Ea, (Nat.eqb p2 pc) eqn:Eb;
        try apply Nat.eqb_eq in Ea; try apply Nat.eqb_eq in Eb; subst; auto; cbn.
      * intros H1 H2. injection H1 as <-. eapply B; eassumption.
      * intros H1 H2. injection H2 as <-. eapply B; eassumption.
      * apply B.
    + intros g0 st0. rewrite E2, E3. cbn [nget]. destruct (Nat.eqb g0 g) eqn:E.
      * apply Nat.eqb_eq in E. subst g0. intros _. eapply A. exact Ech.
      * apply C.
    + intros pc0 g0. rewrite Hc, E3. destruct (Nat.eqb pc0 pc) eqn:E.
      * cbn. intros H. contradiction.
      * intros H1 H2. cbn [nget]. destruct (Nat.eqb g0 g) eqn:Eg.
        -- apply Nat.eqb_eq in Eg. subst g0. apply Nat.eqb_neq in E. exfalso. apply E. eapply B; eassumption.
        -- eapply D; eassumption.
Qed.

Lemma GenInv_step s e s' : GenInv s -> gstep s e = Some s' -> GenInv s'.
Proof.
  intros HI Hstep. destruct (e_k e) eqn:Hk;
    try (eapply GenInv_same; [eapply gstep_same_gen; [exact Hstep|intros; rewrite Hk; discriminate]|exact HI]).
  unfold gstep in Hstep. rewrite Hk in Hstep. eapply GenInv_shape; [eapply step_set_shape; exact Hstep|exact HI].
Qed.

Lemma GenInv_run tr s : run gstep ginit tr = Some s -> GenInv s.
Proof.
  intros H. apply (run_inv gstep ginit (fun _ s => GenInv s)) in H; [exact H|apply GenInv_init|].
  intros h s0 e s1 HI Hs. eapply GenInv_step; eassumption.
Qed.

(** * Part C: the commanded history of the name follows the controller *)

Fixpoint fin_st (l : list nev) (acc : gstate) : gstate :=
  match l with [] => acc | x :: r => fin_st r (ne_st x) end.

Fixpoint fin_fail (l : list nev) (acc : N) : N :=
  match l with
  | [] => acc
  | x :: r => fin_fail r (match ne_st x with GPaused => ne_fail x | _ => acc end)
  end.

Lemma fin_st_app a b acc : fin_st (a ++ b) acc = fin_st b (fin_st a acc).
Proof. revert acc. induction a as [|x a IH]; intros acc; cbn [fin_st app]; [reflexivity|apply IH]. Qed.

Lemma fin_fail_app a b acc : fin_fail (a ++ b) acc = fin_fail b (fin_fail a acc).
Proof. revert acc. induction a as [|x a IH]; intros acc; cbn [fin_fail app]; [reflexivity|apply IH]. Qed.

Lemma state_before_split l1 l2 p acc :
  (forall x, In x l1 -> (ne_pos x < p)%nat) -> (forall x, In x l2 -> (p <= ne_pos x)%nat) ->
  state_before (l1 ++ l2) p acc = fin_st l1 acc.
Proof.
  revert acc. induction l1 as [|x l1 IH]; intros acc H1 H2; cbn [app state_before fin_st].
  - destruct l2 as [|y l2]; cbn [state_before]; [reflexivity|].
    assert (Hy : (p <= ne_pos y)%nat) by (apply H2; now left).
    destruct (Nat.ltb (ne_pos y) p) eqn:E; [apply Nat.ltb_lt in E; lia|reflexivity].
  - assert (Hx : (ne_pos x < p)%nat) by (apply H1; now left).
    destruct (Nat.ltb (ne_pos x) p) eqn:E; [|apply Nat.ltb_ge in E; lia].
    apply IH; [intros y Hy; apply H1; now right|exact H2].
Qed.

Lemma fail_before_split l1 l2 p acc :
  (forall x, In x l1 -> (ne_pos x < p)%nat) -> (forall x, In x l2 -> (p <= ne_pos x)%nat) ->
  fail_before (l1 ++ l2) p acc = fin_fail l1 acc.
Proof.
  revert acc. induction l1 as [|x l1 IH]; intros acc H1 H2; cbn [app fail_before fin_fail].
  - destruct l2 as [|y l2]; cbn [fail_before]; [reflexivity|].
    assert (Hy : (p <= ne_pos y)%nat) by (apply H2; now left).
    destruct (Nat.ltb (ne_pos y) p) eqn:E; [apply Nat.ltb_lt in E; lia|reflexivity].
  - assert (Hx : (ne_pos x < p)%nat) by (apply H1; now left).
    destruct (Nat.ltb (ne_pos x) p) eqn:E; [|apply Nat.ltb_ge in E; lia].
    apply IH; [intros y Hy; apply H1; now right|exact H2].
Qed.

Lemma leaves_app a b cur : leaves (a ++ b) cur = leaves a cur ++ leaves b (fin_st a cur).
Proof.
  revert cur. induction a as [|x a IH]; intros cur; cbn [leaves app fin_st]; [reflexivity|].
  rewrite IH. now rewrite app_assoc.
Qed.

Lemma leaves_In x l cur : In x (leaves l cur) -> In x l.
Proof.
  revert cur. induction l as [|y l IH]; intros cur; cbn [leaves]; [tauto|].
  rewrite in_app_iff. intros [H|H]; [|right; eapply IH; exact H].
  destruct cur, (ne_st y); cbn in H; try contradiction; destruct H as [<-|[]]; now left.
Qed.

(** [nsf] yields nothing, or one entry for a gate-set event of a command *)
Lemma nsf_set t n i e pc' st ch :
  e_k e = KGateSet pc' st ch ->
  nsf t n (i, e) = [] \/ exists c cs, e_by e = ACmd c /\ nsf t n (i, e) = [mkNev i (e_t e) cs (cmd_fail t c) c st].
Proof.
  intros Hk. unfold nsf. cbn [fst snd]. rewrite Hk. destruct (e_by e) as [|c| |]; auto.
  destruct (cmd_info t c) as [[k n']|]; auto. destruct (str_eqb n n'); auto.
  destruct (commanded k) as [cs|]; auto. right. eauto.
Qed.

Lemma nsf_nonset t n ie : (forall pc st ch, e_k (snd ie) <> KGateSet pc st ch) -> nsf t n ie = [].
Proof.
  intros H. unfold nsf. destruct (e_k (snd ie)) eqn:Hk; try reflexivity. exfalso. eapply H. reflexivity.
Qed.

Lemma nsf_pos t n ie x : In x (nsf t n ie) -> ne_pos x = fst ie.
Proof.
  destruct ie as [i e]. destruct (e_k e) eqn:Hk;
    try (rewrite nsf_nonset; [intros []|cbn [snd]; intros; rewrite Hk; discriminate]).
  destruct (nsf_set t n i e _ _ _ Hk) as [E|(c & cs & _ & E)]; rewrite E; [intros []|].
  intros [<-|[]]. reflexivity.
Qed.

Lemma ns_pos t n l x : In x (flat_map (nsf t n) l) -> exists ie, In ie l /\ ne_pos x = fst ie.
Proof.
  rewrite in_flat_map. intros (ie & Hin & Hx). exists ie. split; [exact Hin|]. eapply nsf_pos. exact Hx.
Qed.

Lemma fail_of_in h c fa : fail_of h c = Some fa -> exists e a b, In e h /\ e_k e = KParams c a b fa.
Proof.
  induction h as [|e h IH]; cbn [fail_of]; [discriminate|].
  assert (Hrec : fail_of h c = Some fa -> exists e' a b, In e' (e :: h) /\ e_k e' = KParams c a b fa).
  { intros H. apply IH in H as (e' & a & b & Hin & Hk'). exists e', a, b. split; [now right|exact Hk']. }
  destruct (e_k e) eqn:Hk; try exact Hrec.
  destruct (Nat.eqb c c0) eqn:E; [|exact Hrec].
  apply Nat.eqb_eq in E. subst c0. intros H. injection H as <-. exists e, deploy_timeout, drain_timeout.
  split; [now left|exact Hk].
Qed.

Lemma params_agree_in t i e c a b fa :
  params_agree t = true -> In (i, e) t -> e_k e = KParams c a b fa -> cmd_fail t c = fa.
Proof.
  unfold params_agree. rewrite forallb_forall. intros H Hin Hk. specialize (H _ Hin). cbn [snd] in H.
  rewrite Hk in H. now apply N.eqb_eq in H.
Qed.

Lemma one_ctl_in t n pc i e pc' st ch :
  one_ctl t n pc = true -> In (i, e) t -> e_k e = KGateSet pc' st ch ->
  (nsf t n (i, e) = [] /\ pc' <> pc) \/
  (exists c, e_by e = ACmd c /\ nsf t n (i, e) = [mkNev i (e_t e) st (cmd_fail t c) c st] /\ pc' = pc).
Proof.
  unfold one_ctl. rewrite forallb_forall. intros H Hin Hk. specialize (H _ Hin). cbn [snd] in H. rewrite Hk in H.
  destruct (nsf_set t n i e _ _ _ Hk) as [E|(c & cs & Eby & E)]; rewrite E in H.
  - left. split; [exact E|]. apply negb_true_iff in H. now apply Nat.eqb_neq in H.
  - right. apply andb_true_iff in H as [H1 H2]. apply Nat.eqb_eq in H1. cbn [ne_st] in H2.
    apply gstate_eqb_eq in H2. subst cs. exists c. auto.
Qed.

Lemma ctl_at_proj h h' pc :
  ctl_at h' pc = ctl_at h pc -> state_at h' pc = state_at h pc /\ in_force h' pc = in_force h pc.
Proof. unfold ctl_at. intros H. injection H as H1 _ H3. auto. Qed.

Lemma in_map_snd {A B} (l : list (A * B)) e : In e (map snd l) -> exists i, In (i, e) l.
Proof. rewrite in_map_iff. intros ([i e'] & <- & Hin). exists i. exact Hin. Qed.

Lemma name_follows_ctl t n pc :
  one_ctl t n pc = true -> params_agree t = true ->
  forall t1 t2 s1, t = t1 ++ t2 -> run gstep ginit (map snd t1) = Some s1 ->
  fin_st (flat_map (nsf t n) t1) GRunning = state_at (rev (map snd t1)) pc /\
  fin_fail (flat_map (nsf t n) t1) 0 = in_force (rev (map snd t1)) pc.
Proof.
  intros Hone Hpar t1. induction t1 as [|[i e] t1 IH] using rev_ind; intros t2 s1 Ht Hrun.
  - cbn. auto.
  - rewrite map_app, run_app in Hrun. cbn [map snd] in Hrun.
    destruct (run gstep ginit (map snd t1)) as [s0|] eqn:R0; [|discriminate]. cbn [run] in Hrun.
    destruct (gstep s0 e) as [s0'|] eqn:Hs; [|discriminate].
    rewrite <- app_assoc in Ht. destruct (IH _ _ Ht eq_refl) as [IH1 IH2].
    rewrite flat_map_app, fin_st_app, fin_fail_app, map_app, rev_app_distr. cbn [flat_map map snd rev app].
    rewrite app_nil_r, IH1, IH2. set (hh := rev (map snd t1)).
    assert (Hin : In (i, e) t) by (rewrite Ht, in_app_iff; right; now left).
    assert (Hnon : (forall pc' st ch, e_k e = KGateSet pc' st ch -> pc' <> pc) -> nsf t n (i, e) = [] ->
                   fin_st (nsf t n (i, e)) (state_at hh pc) = state_at (e :: hh) pc /\
                   fin_fail (nsf t n (i, e)) (in_force hh pc) = in_force (e :: hh) pc).
    { intros Hne E. rewrite E. cbn [fin_st fin_fail]. destruct (ctl_at_proj _ _ _ (ctl_at_other' hh e pc Hne)). auto. }
    destruct (e_k e) eqn:Hk;
      try (apply Hnon; [intros; discriminate|apply nsf_nonset; cbn [snd]; intros; rewrite Hk; discriminate]).
    destruct (one_ctl_in _ _ _ _ _ _ _ _ Hone Hin Hk) as [[E Hne]|(c & Eby & E & ->)].
    + apply Hnon; [|exact E]. intros pc' st' ch' Hk'. injection Hk' as <- _ _. exact Hne.
    + rewrite E. cbn [fin_st fin_fail ne_st ne_fail].
      pose proof (ctl_at_set hh e pc st chan Hk) as Hset.
      pose proof (f_equal c_state Hset) as S1. pose proof (f_equal c_fail Hset) as S3.
      unfold ctl_at in S1, S3. cbn [c_state c_fail] in S1, S3.
      split; [now rewrite S1|]. rewrite S3. destruct st; try reflexivity.
      rewrite Eby. unfold gstep in Hs. rewrite Hk in Hs. cbn [step_set] in Hs. unfold step_pause in Hs. rewrite Eby in Hs.
      destruct (nget (g_cmds s0) c) as [fa|] eqn:Ec; [|discriminate].
      destruct (GInv_run _ _ R0) as [[H1 _ _ _ _] _]. rewrite H1 in Ec. fold hh in Ec. rewrite Ec.
      destruct (fail_of_in _ _ _ Ec) as (e' & a & b & Hin' & Hk').
      unfold hh in Hin'. rewrite <- in_rev in Hin'. apply in_map_snd in Hin' as (i' & Hin').
      eapply params_agree_in; [exact Hpar| |exact Hk']. rewrite Ht, in_app_iff. left. exact Hin'.
Qed.

(** while the name's commands only re-pause it, the controller stays paused on the same generation *)
Lemma gstep_ctl_other s e s' pc' st ch pc :
  gstep s e = Some s' -> e_k e = KGateSet pc' st ch -> pc' <> pc -> ctl_of s' pc = ctl_of s pc.
Proof.
  intros Hs Hk Hne. unfold gstep in Hs. rewrite Hk in Hs. apply step_set_shape in Hs.
  assert (E : exists nc, g_ctl s' = nset (g_ctl s) pc' nc) by (destruct Hs; eauto).
  destruct E as (nc & E). rewrite (ctl_of_upd _ _ _ _ E).
  destruct (Nat.eqb pc pc') eqn:E'; [apply Nat.eqb_eq in E'; congruence|reflexivity].
Qed.

Lemma step_pause_paused s who pc ch s' g :
  step_pause s who pc ch = Some s' -> c_state (ctl_of s pc) = GPaused -> c_chan (ctl_of s pc) = Some g ->
  c_state (ctl_of s' pc) = GPaused /\ c_chan (ctl_of s' pc) = Some g.
Proof.
  unfold step_pause. destruct who as [|k| |]; try discriminate. destruct (nget (g_cmds s) k) as [fa|]; [|discriminate].
  intros H Est Ech. rewrite Est, Ech in H. destruct (onat_eqb ch (Some g)); [|discriminate]. injection H as <-.
  rewrite ctl_of_set_ctl, Nat.eqb_refl. cbn. auto.
Qed.

Lemma stays_paused t n pc g :
  one_ctl t n pc = true ->
  forall t2 s s', (forall x, In x t2 -> In x t) -> run gstep s (map snd t2) = Some s' ->
  c_state (ctl_of s pc) = GPaused -> c_chan (ctl_of s pc) = Some g ->
  leaves (flat_map (nsf t n) t2) GPaused = [] ->
  c_state (ctl_of s' pc) = GPaused /\ c_chan (ctl_of s' pc) = Some g.
Proof.
  intros Hone t2. induction t2 as [|[i e] t2 IH]; intros s s' Hsub Hrun Est Ech Hlv.
  - cbn in Hrun. injection Hrun as <-. auto.
  - cbn [map snd run] in Hrun. destruct (gstep s e) as [s1|] eqn:Hs; [|discriminate].
    cbn [flat_map] in Hlv.
    assert (Hsub' : forall x, In x t2 -> In x t) by (intros x Hx; apply Hsub; now right).
    assert (Hin : In (i, e) t) by (apply Hsub; now left).
    assert (Hnon : ctl_of s1 pc = ctl_of s pc -> nsf t n (i, e) = [] ->
                   c_state (ctl_of s' pc) = GPaused /\ c_chan (ctl_of s' pc) = Some g).
    { intros Ec E. rewrite E in Hlv. cbn [app] in Hlv. eapply IH; try eassumption; now rewrite Ec. }
    destruct (e_k e) eqn:Hk;
      try (apply Hnon; [unfold ctl_of; erewrite gstep_g_ctl; [reflexivity|exact Hs|intros; rewrite Hk; discriminate]
                       |apply nsf_nonset; cbn [snd]; intros; rewrite Hk; discriminate]).
    destruct (one_ctl_in _ _ _ _ _ _ _ _ Hone Hin Hk) as [[E Hne]|(c & Eby & E & ->)].
    + apply Hnon; [|exact E]. eapply gstep_ctl_other; eassumption.
    + rewrite E in Hlv. cbn [app leaves ne_st] in Hlv.
      destruct st; cbn [app] in Hlv; try discriminate.
      unfold gstep in Hs. rewrite Hk in Hs. cbn [step_set] in Hs.
      destruct (step_pause_paused _ _ _ _ _ _ Hs Est Ech) as [Est1 Ech1].
      eapply IH; eassumption.
Qed.

(** time never runs backwards *)
Lemma mono_from_le t0 l : mono_from t0 l = true -> forall e, In e l -> t0 <= e_t e.
Proof.
  revert t0. induction l as [|x l IH]; intros t0 H e Hin; cbn [mono_from] in H; [destruct Hin|].
  apply andb_true_iff in H as [H1 H2]. apply N.leb_le in H1. destruct Hin as [<-|Hin]; [exact H1|].
  specialize (IH _ H2 e Hin). lia.
Qed.

Lemma mono_from_app t0 a b : mono_from t0 (a ++ b) = true -> exists t1, mono_from t1 b = true.
Proof.
  revert t0. induction a as [|x a IH]; intros t0 H; cbn [app mono_from] in H; [eauto|].
  apply andb_true_iff in H as [_ H]. eapply IH. exact H.
Qed.

Lemma mono_from_app_l t0 a b : mono_from t0 (a ++ b) = true -> mono_from t0 a = true.
Proof.
  revert t0. induction a as [|x a IH]; intros t0 H; cbn [app mono_from] in *; [reflexivity|].
  apply andb_true_iff in H as [H1 H2]. rewrite H1. cbn [andb]. eapply IH. exact H2.
Qed.

Lemma nsf_time t n ie x : In x (nsf t n ie) -> ne_t x = e_t (snd ie).
Proof.
  destruct ie as [i e]. destruct (e_k e) eqn:Hk;
    try (rewrite nsf_nonset; [intros []|cbn [snd]; intros; rewrite Hk; discriminate]).
  destruct (nsf_set t n i e _ _ _ Hk) as [E|(c & cs & _ & E)]; rewrite E; [intros []|].
  intros [<-|[]]. reflexivity.
Qed.

Lemma ns_time t n l x : In x (flat_map (nsf t n) l) -> exists ie, In ie l /\ ne_t x = e_t (snd ie).
Proof.
  rewrite in_flat_map. intros (ie & Hin & Hx). exists ie. split; [exact Hin|]. eapply nsf_time. exact Hx.
Qed.

Lemma close_time_app h2 h1 g tc : close_time h1 g = Some tc -> close_time (h2 ++ h1) g = Some tc.
Proof. intros H. induction h2 as [|e h2 IH]; cbn [app close_time]; [exact H|]. now rewrite IH. Qed.

(** from a controller paused on generation [g]: the first command that makes the name leave the paused
    state closes [g]; when time does not run backwards every later "leave" of the name comes at or after the
    time recorded for that close *)
Lemma closed_before t n pc g :
  one_ctl t n pc = true ->
  forall t2 t1 s s', (forall x, In x t2 -> In x t) ->
  run gstep ginit (map snd t1) = Some s -> run gstep s (map snd t2) = Some s' ->
  c_state (ctl_of s pc) = GPaused -> c_chan (ctl_of s pc) = Some g ->
  forall t0, mono_from t0 (map snd t2) = true ->
  forall x, In x (leaves (flat_map (nsf t n) t2) GPaused) ->
  exists tc, close_time (rev (map snd (t1 ++ t2))) g = Some tc /\ tc <= ne_t x.
Proof.
  intros Hone t2. induction t2 as [|[i e] t2 IH]; intros t1 s s' Hsub R1 Hrun Est Ech t0 Hmono x Hx.
  - destruct Hx.
  - cbn [map snd run] in Hrun. destruct (gstep s e) as [s1|] eqn:Hs; [|discriminate].
    cbn [map snd mono_from] in Hmono. apply andb_true_iff in Hmono as [_ Hmono].
    cbn [flat_map] in Hx.
    assert (Hsub' : forall y, In y t2 -> In y t) by (intros y Hy; apply Hsub; now right).
    assert (Hin : In (i, e) t) by (apply Hsub; now left).
    assert (R1' : run gstep ginit (map snd (t1 ++ [(i, e)])) = Some s1).
    { rewrite map_app, run_app, R1. cbn [map snd run]. now rewrite Hs. }
    assert (Eapp : t1 ++ (i, e) :: t2 = (t1 ++ [(i, e)]) ++ t2) by (now rewrite <- app_assoc).
    assert (Hnon : ctl_of s1 pc = ctl_of s pc -> nsf t n (i, e) = [] ->
                   exists tc, close_time (rev (map snd (t1 ++ (i, e) :: t2))) g = Some tc /\ tc <= ne_t x).
    { intros Ec E. rewrite E in Hx. cbn [app] in Hx. rewrite Eapp.
      eapply (IH (t1 ++ [(i, e)]) s1 s'); try eassumption; now rewrite Ec. }
    destruct (e_k e) eqn:Hk;
      try (apply Hnon; [unfold ctl_of; erewrite gstep_g_ctl; [reflexivity|exact Hs|intros; rewrite Hk; discriminate]
                       |apply nsf_nonset; cbn [snd]; intros; rewrite Hk; discriminate]).
    destruct (one_ctl_in _ _ _ _ _ _ _ _ Hone Hin Hk) as [[E Hne]|(c & Eby & E & ->)].
    + apply Hnon; [|exact E]. eapply gstep_ctl_other; eassumption.
    + rewrite E in Hx. cbn [app leaves ne_st] in Hx.
      unfold gstep in Hs. rewrite Hk in Hs. cbn [step_set] in Hs.
      destruct st.
      * (* resume: closes g now *)
        cbn [app] in Hx.
        assert (Hcl : close_time (rev (map snd (t1 ++ (i, e) :: t2))) g = Some (e_t e)).
        { cbn [step_set] in Hs. unfold step_setstate in Hs. cbv zeta in Hs. rewrite Est, Ech in Hs.
          destruct (onat_eqb chan (Some g)) eqn:Eo; [|discriminate]. apply onat_eqb_eq in Eo. subst chan.
          cbv beta iota in Hs.
          destruct (nget (g_closed s) g) eqn:Ecl; [discriminate|].
          destruct (GInv_run _ _ R1) as [[_ _ C3 _ _] _]. rewrite C3 in Ecl. apply close_time_closer in Ecl.
          rewrite map_app, rev_app_distr. cbn [map snd rev]. rewrite <- app_assoc. apply close_time_app.
          cbn [app close_time]. rewrite Ecl. unfold close_at, is_close. rewrite Hk, Nat.eqb_refl. reflexivity. }
        exists (e_t e). split; [exact Hcl|].
        destruct Hx as [<-|Hx]; [cbn [ne_t]; lia|].
        apply leaves_In, ns_time in Hx as (ie & Hie & ->).
        apply (mono_from_le _ _ Hmono). apply in_map. exact Hie.
      * (* pause again: same generation *)
        cbn [app] in Hx. cbn [step_set] in Hs. destruct (step_pause_paused _ _ _ _ _ _ Hs Est Ech) as [Est1 Ech1]. rewrite Eapp.
        eapply (IH (t1 ++ [(i, e)]) s1 s'); eassumption.
      * (* stop: closes g now *)
        cbn [app] in Hx.
        assert (Hcl : close_time (rev (map snd (t1 ++ (i, e) :: t2))) g = Some (e_t e)).
        { cbn [step_set] in Hs. unfold step_setstate in Hs. cbv zeta in Hs. rewrite Est, Ech in Hs.
          destruct (onat_eqb chan (Some g)) eqn:Eo; [|discriminate]. apply onat_eqb_eq in Eo. subst chan.
          cbv beta iota in Hs.
          destruct (nget (g_closed s) g) eqn:Ecl; [discriminate|].
          destruct (GInv_run _ _ R1) as [[_ _ C3 _ _] _]. rewrite C3 in Ecl. apply close_time_closer in Ecl.
          rewrite map_app, rev_app_distr. cbn [map snd rev]. rewrite <- app_assoc. apply close_time_app.
          cbn [app close_time]. rewrite Ecl. unfold close_at, is_close. rewrite Hk, Nat.eqb_refl. reflexivity. }
        exists (e_t e). split; [exact Hcl|].
        destruct Hx as [<-|Hx]; [cbn [ne_t]; lia|].
        apply leaves_In, ns_time in Hx as (ie & Hie & ->).
        apply (mono_from_le _ _ Hmono). apply in_map. exact Hie.
Qed.

(** * Part D: the events of one request in the slim trace *)

Definition gconc (r : nat) (e : event) : bool :=
  match req_of e with Some r' => Nat.eqb r r' | None => false end.

Lemma gconc_true r e : gconc r e = true <-> M5gateFacts.concerns r e.
Proof.
  unfold gconc, M5gateFacts.concerns. destruct (req_of e) as [r'|]; [|split; discriminate].
  rewrite Nat.eqb_eq. split; [intros ->; reflexivity|intros H; injection H as ->; reflexivity].
Qed.

Lemma gconc_false r e : gconc r e = false <-> ~ M5gateFacts.concerns r e.
Proof.
  rewrite <- gconc_true. destruct (gconc r e).
  - split; [discriminate|intros H; exfalso; now apply H].
  - split; [intros _; discriminate|reflexivity].
Qed.

Lemma concerns_split r e : C07corr.concerns r e && negb (is_routed e) = gconc r e.
Proof.
  unfold C07corr.concerns, is_routed, gconc, req_of.
  destruct (e_k e); cbn [negb andb]; rewrite ?andb_true_r, ?andb_false_r; try reflexivity.
  - destruct (e_by e); cbn [actor_eqb]; try reflexivity. apply Nat.eqb_sym.
  - destruct (e_by e); cbn [actor_eqb]; try reflexivity. apply Nat.eqb_sym.
Qed.

Definition G (r n : nat) (l : trace) : itrace := filter (fun ie => gconc r (snd ie)) (index_from n l).

Lemma G_quiet r n l : quiet r l -> G r n l = [].
Proof.
  intros H. unfold G. apply filter_nil_forall. intros [i e] Hin. apply index_from_In in Hin as [_ Hin].
  cbn [snd]. apply gconc_false. eapply quiet_not_in; eassumption.
Qed.

Lemma G_pathonly r n l : pathonly r l -> forall ie, In ie (G r n l) -> C07corr.is_path (snd ie) = true.
Proof.
  intros H [i e]. unfold G. rewrite filter_In. intros [Hin Hc]. apply index_from_In in Hin as [_ Hin].
  cbn [snd] in *. unfold pathonly in H. rewrite Forall_forall in H. apply (H e Hin). now apply gconc_true.
Qed.

Lemma G_split r n a e b :
  G r n (a ++ e :: b) =
  G r n a ++ (if gconc r e then [(n + length a, e)%nat] else []) ++ G r (S (n + length a)) b.
Proof.
  unfold G. rewrite index_from_app, filter_app. cbn [index_from filter snd].
  destruct (gconc r e); reflexivity.
Qed.

Lemma slim_split {A} n (a : list A) e b :
  index_from n (a ++ e :: b) = index_from n a ++ ((n + length a)%nat, e) :: index_from (S (n + length a)) b.
Proof. now rewrite index_from_app. Qed.

Lemma req_evs_tail t r i0 e0 l :
  req_evs t r = (i0, e0) :: l -> is_routed e0 = true ->
  forallb (fun ie => negb (is_routed (snd ie))) l = true ->
  l = filter (fun ie => gconc r (snd ie)) t.
Proof.
  intros Hreq Hr0 Hall.
  assert (E1 : filter (fun ie => negb (is_routed (snd ie))) (req_evs t r) = l).
  { rewrite Hreq. cbn [filter snd]. rewrite Hr0. cbn [negb]. apply filter_all_forall.
    rewrite forallb_forall in Hall. exact Hall. }
  rewrite <- E1. unfold req_evs. rewrite filter_filter. apply filter_ext_in'. intros [i e] _. cbn [snd].
  apply concerns_split.
Qed.

(** * Part D2: the story of every request the gate view knows, in trace order *)

Inductive story (r : nat) (tr : trace) : Prop :=
| StDirect pre rest t who status sb :
    tr = pre ++ mkEv t who (KRespond r status sb) :: rest -> quiet r pre -> quiet r rest -> story r tr
| StPass pre q1 mid rest t1 pc st ch t3 svc a t5 who status sb :
    tr = pre ++ mkEv t1 (AReq r) (KGateRead pc st ch) :: q1 ++ mkEv t3 (AReq r) (KGateResult r svc a) :: mid ++
         mkEv t5 who (KRespond r status sb) :: rest ->
    quiet r pre -> quiet r q1 -> pathonly r mid -> (a = AProceed \/ quiet r mid) -> quiet r rest ->
    st <> GPaused -> state_at (rev pre) pc = st ->
    a = match st with GStopped => AStopped | _ => AProceed end -> status_ok a status sb -> story r tr
| StHeld h w a status : held_story tr r h w a status -> story r tr.

Lemma req_story tr s r e :
  run gstep ginit tr = Some s -> quiescent s = true -> In e tr -> M5gateFacts.concerns r e -> story r tr.
Proof.
  intros Hrun Hq Hin Hc. destruct (ReqInv2_run _ _ Hrun) as [[_ HR1] HR2]. specialize (HR1 r). specialize (HR2 r).
  destruct (nget (g_req s) r) as [ph|] eqn:Eph.
  2:{ cbn [ReqInv] in HR1. exfalso. eapply quiet_not_in; [exact HR1|rewrite <- in_rev; exact Hin|exact Hc]. }
  destruct (quiescent_answered _ _ _ Hq Eph) as (hw & ao & status & ->). cbn [ReqInv ReqInv2] in HR1, HR2.
  destruct hw as [[h w]|].
  - destruct HR1 as (a & -> & HA). apply StHeld with (h := h) (w := w) (a := a) (status := status).
    rewrite <- (rev_involutive tr). now apply Answered_story.
  - destruct ao as [a|].
    + destruct HR2 as (p5 & hb5 & t5 & who & sb & pc & st & E5 & Q5 & (p4 & hb4 & t3 & svc & -> & P4 & Hq4 & HP & Ha) & Hs).
      destruct HP as (p2 & p1 & t1 & ch & -> & Q2 & Q1 & Hne & Hst).
      apply StPass with (pre := rev p1) (q1 := rev p2) (mid := rev p4) (rest := rev p5) (t1 := t1) (pc := pc) (st := st)
                        (ch := ch) (t3 := t3) (svc := svc) (a := a) (t5 := t5) (who := who) (status := status) (sb := sb);
        try (first [now apply quiet_rev|now apply pathonly_rev]); try assumption.
      * rewrite <- (rev_involutive tr), E5. rewrite !rev_split2.
        repeat first [rewrite <- app_assoc|progress cbn [app]]. reflexivity.
      * destruct Hq4 as [?|Hq4]; [now left|right; now apply quiet_rev].
      * now rewrite rev_involutive.
    + destruct HR2 as (p5 & hb & t5 & who & sb & E5 & Q5 & Qb).
      apply StDirect with (pre := rev hb) (rest := rev p5) (t := t5) (who := who) (status := status) (sb := sb);
        try now apply quiet_rev.
      rewrite <- (rev_involutive tr), E5. now rewrite rev_split2.
Qed.

(** * Part E: evaluating the monitor on a story *)

Lemma in_flag c b code : In c (flag b code) -> b = false /\ c = code.
Proof. unfold flag. destruct b; cbn [In]; [tauto|]. intros [<-|[]]. auto. Qed.

Lemma check_path_codes t sets inst l c :
  In c (check_path t sets inst l) -> c = F_forward \/ c = F_refused \/ c = F_stale.
Proof.
  unfold check_path. rewrite in_flat_map. intros (ie & _ & H).
  destruct (e_k (snd ie)); cbn beta iota in H; try contradiction.
  - apply in_flag in H as [_ ->]. auto.
  - apply in_flag in H as [_ ->]. auto.
  - destruct H as [<-|[]]. auto.
Qed.

Definition status_flag (a : gaction) (status : N) (sb : str) : bool :=
  match a with
  | AStopped => (status =? 503) && str_eqb sb []
  | ATimedOut => (status =? 504) && str_eqb sb []
  | AProceed => true
  end.

Lemma check_tail_eval a PM i t who r' status sb :
  (forall ie, In ie PM -> C07corr.is_path (snd ie) = true) -> (a = AProceed \/ PM = []) ->
  check_tail a (PM ++ [(i, mkEv t who (KRespond r' status sb))]) = flag (status_flag a status sb) F_status.
Proof.
  intros HP Ha. unfold check_tail.
  assert (E1 : filter (fun ie => C07corr.is_path (snd ie)) (PM ++ [(i, mkEv t who (KRespond r' status sb))]) = PM).
  { rewrite filter_app, filter_all_forall by exact HP. cbn. apply app_nil_r. }
  assert (E2 : filter (fun ie => negb (C07corr.is_path (snd ie))) (PM ++ [(i, mkEv t who (KRespond r' status sb))]) =
               [(i, mkEv t who (KRespond r' status sb))]).
  { rewrite filter_app, filter_nil_forall; [reflexivity|]. intros ie H. now rewrite (HP ie H). }
  rewrite E1, E2. cbv zeta. cbn [e_k].
  assert (E3 : match a with AProceed => true | _ => match PM with [] => true | _ :: _ => false end end = true).
  { destruct Ha as [->| ->]; [reflexivity|destruct a; reflexivity]. }
  rewrite E3. cbn [flag app]. unfold status_flag. destruct a; reflexivity.
Qed.

(** bounds of the indices of a split slim trace *)
Lemma index_from_bounds {A} n (a b : list A) :
  (forall y, In y (index_from n a) -> (fst y < n + length a)%nat) /\
  (forall y, In y (index_from (n + length a) b) -> (n + length a <= fst y)%nat).
Proof.
  split; intros [i x] H; apply index_from_In in H as [H _]; cbn [fst]; lia.
Qed.

Lemma sets_before t n L A B p acc :
  L = A ++ B ->
  (forall y, In y A -> (fst y < p)%nat) -> (forall y, In y B -> (p <= fst y)%nat) ->
  state_before (flat_map (nsf t n) L) p acc = fin_st (flat_map (nsf t n) A) acc /\
  fail_before (flat_map (nsf t n) L) p 0 = fin_fail (flat_map (nsf t n) A) 0.
Proof.
  intros -> HA HB. rewrite flat_map_app.
  assert (H1 : forall x, In x (flat_map (nsf t n) A) -> (ne_pos x < p)%nat).
  { intros x Hx. apply ns_pos in Hx as (ie & Hin & ->). now apply HA. }
  assert (H2 : forall x, In x (flat_map (nsf t n) B) -> (p <= ne_pos x)%nat).
  { intros x Hx. apply ns_pos in Hx as (ie & Hin & ->). now apply HB. }
  split; [now apply state_before_split|now apply fail_before_split].
Qed.

Definition verdict_ok (t : itrace) (r : nat) (hl : bool) (c : N) : Prop :=
  c = F_forward \/ c = F_refused \/ c = F_stale \/ c = F_shortcut \/ (c = F_health /\ hl = true).

Lemma gconc_respond r t who status sb : gconc r (mkEv t who (KRespond r status sb)) = true.
Proof. unfold gconc, req_of. cbn. apply Nat.eqb_refl. Qed.
Lemma gconc_result r t who svc a : gconc r (mkEv t who (KGateResult r svc a)) = true.
Proof. unfold gconc, req_of. cbn. apply Nat.eqb_refl. Qed.
Lemma gconc_read r t pc st ch : gconc r (mkEv t (AReq r) (KGateRead pc st ch)) = true.
Proof. unfold gconc, req_of. cbn. apply Nat.eqb_refl. Qed.
Lemma gconc_wake r t pc b : gconc r (mkEv t (AReq r) (KGateWake pc b)) = true.
Proof. unfold gconc, req_of. cbn. apply Nat.eqb_refl. Qed.

Lemma status_flag_ok a status sb : status_ok a status sb -> status_flag a status sb = true.
Proof. unfold status_flag, status_ok. destruct a; [reflexivity| |]; intros [-> ->]; reflexivity. Qed.

Lemma leaves_mid t n L A i e M B x :
  L = (A ++ (i, e) :: M) ++ B -> nsf t n (i, e) = [] ->
  In x (leaves (flat_map (nsf t n) M) (fin_st (flat_map (nsf t n) A) GRunning)) ->
  In x (leaves (flat_map (nsf t n) L) GRunning).
Proof.
  intros -> He Hx. rewrite !flat_map_app. cbn [flat_map]. rewrite He. cbn [app].
  rewrite leaves_app, leaves_app, !in_app_iff. left. right. exact Hx.
Qed.

Lemma leaves_split3 t n L A i e M B x :
  L = (A ++ (i, e) :: M) ++ B -> nsf t n (i, e) = [] ->
  In x (leaves (flat_map (nsf t n) L) GRunning) ->
  In x (leaves (flat_map (nsf t n) A) GRunning) \/
  In x (leaves (flat_map (nsf t n) M) (fin_st (flat_map (nsf t n) A) GRunning)) \/
  exists cur, In x (leaves (flat_map (nsf t n) B) cur).
Proof.
  intros -> He Hx. rewrite flat_map_app, leaves_app in Hx. apply in_app_or in Hx as [Hx|Hx]; [|right; right; eauto].
  rewrite flat_map_app in Hx. cbn [flat_map] in Hx. rewrite He in Hx. cbn [app] in Hx.
  rewrite leaves_app in Hx. apply in_app_or in Hx as [Hx|Hx]; [left|right; left]; exact Hx.
Qed.

Section Link.
  Variables (tr' : trace) (s : gst) (r : nat) (hl : bool).
  Let T := index_from 0 tr'.
  Hypothesis Hrun : run gstep ginit tr' = Some s.
  Hypothesis Hpar : params_agree T = true.
  Hypothesis Hmono : time_mono T = true.
  Variables (i0 : nat) (e0 : event) (l : itrace) (r0 sv : nat).
  Hypothesis Hreq : req_evs T r = (i0, e0) :: l.
  Hypothesis Hk0 : e_k e0 = KRouted r0 (Some sv).
  Hypothesis Hl : l = G r 0 tr'.
  Hypothesis Hone : forall pc, read_ctl l = Some pc -> one_ctl T (svc_name T sv) pc = true.

  Lemma link_direct pre rest t who status sb :
    tr' = pre ++ mkEv t who (KRespond r status sb) :: rest -> quiet r pre -> quiet r rest ->
    forall c, In c (check_req T r hl) -> verdict_ok T r hl c.
  Proof.
    intros Htr Q1 Q2 c Hc.
    assert (El : l = [(length pre, mkEv t who (KRespond r status sb))]).
    { rewrite Hl, Htr, G_split, (G_quiet _ _ _ Q1), (G_quiet _ _ _ Q2), gconc_respond. reflexivity. }
    unfold check_req in Hc. rewrite Hreq in Hc. cbn beta iota in Hc. rewrite Hk0 in Hc. rewrite El in Hc.
    cbn beta iota zeta in Hc.
    cbn [e_k] in Hc. apply in_app_or in Hc as [Hc|Hc].
    { apply check_path_codes in Hc. unfold verdict_ok. tauto. }
    apply in_app_or in Hc as [Hc|Hc]; [|destruct Hc].
    apply in_flag in Hc as [_ ->]. unfold verdict_ok. tauto.
  Qed.

  Lemma link_pass pre q1 mid rest t1 pc st ch t3 svc a t5 who status sb :
    tr' = pre ++ mkEv t1 (AReq r) (KGateRead pc st ch) :: q1 ++ mkEv t3 (AReq r) (KGateResult r svc a) :: mid ++
          mkEv t5 who (KRespond r status sb) :: rest ->
    quiet r pre -> quiet r q1 -> pathonly r mid -> (a = AProceed \/ quiet r mid) -> quiet r rest ->
    st <> GPaused -> state_at (rev pre) pc = st ->
    a = match st with GStopped => AStopped | _ => AProceed end -> status_ok a status sb ->
    forall c, In c (check_req T r hl) -> verdict_ok T r hl c.
  Proof.
    intros Htr Q1 Q2 P4 Hq Q5 Hne Hst Ha Hs c Hc.
    set (i1 := length pre). set (i3 := S (i1 + length q1)). set (PM := G r (S i3) mid).
    set (i5 := (S i3 + length mid)%nat).
    assert (El : l = (i1, mkEv t1 (AReq r) (KGateRead pc st ch)) :: (i3, mkEv t3 (AReq r) (KGateResult r svc a)) ::
                     PM ++ [(i5, mkEv t5 who (KRespond r status sb))]).
    { rewrite Hl, Htr, G_split, (G_quiet _ _ _ Q1), gconc_read. cbn [app Nat.add].
      rewrite G_split, (G_quiet _ _ _ Q2), gconc_result. cbn [app]. fold i1. fold i3.
      rewrite G_split, gconc_respond, (G_quiet _ _ _ Q5). reflexivity. }
    assert (HPM : forall ie, In ie PM -> C07corr.is_path (snd ie) = true) by (apply G_pathonly; exact P4).
    assert (HPM0 : a = AProceed \/ PM = []).
    { destruct Hq as [Hq|Hq]; [now left|right; apply G_quiet; exact Hq]. }
    (* the controller is the name's *)
    assert (Hctl : one_ctl T (svc_name T sv) pc = true) by (apply Hone; rewrite El; reflexivity).
    (* split of the slim trace at the read *)
    assert (ET : T = index_from 0 pre ++ (i1, mkEv t1 (AReq r) (KGateRead pc st ch)) ::
                     index_from (S i1) (q1 ++ mkEv t3 (AReq r) (KGateResult r svc a) :: mid ++
                                        mkEv t5 who (KRespond r status sb) :: rest)).
    { unfold T. rewrite Htr, slim_split. reflexivity. }
    destruct (run_split _ _ _ _ _ _ (eq_ind _ (fun x => run gstep ginit x = Some s) Hrun _ Htr)) as (s1 & s1' & R1 & _ & _).
    destruct (name_follows_ctl _ _ _ Hctl Hpar (index_from 0 pre) _ s1 ET) as [F1 _].
    { now rewrite map_snd_index_from. }
    rewrite map_snd_index_from, Hst in F1.
    assert (ET2 : T = index_from 0 pre ++ index_from i1 (mkEv t1 (AReq r) (KGateRead pc st ch) :: q1 ++
                        mkEv t3 (AReq r) (KGateResult r svc a) :: mid ++ mkEv t5 who (KRespond r status sb) :: rest)).
    { unfold T. rewrite Htr, index_from_app. reflexivity. }
    destruct (index_from_bounds 0 pre (mkEv t1 (AReq r) (KGateRead pc st ch) :: q1 ++ mkEv t3 (AReq r) (KGateResult r svc a) :: mid ++
                                        mkEv t5 who (KRespond r status sb) :: rest)) as [B1 B2].
    cbn [Nat.add] in B1, B2. fold i1 in B1, B2.
    destruct (sets_before T (svc_name T sv) T _ _ i1 GRunning ET2 B1 B2) as [SB _].
    rewrite <- name_sets_nsf, F1 in SB.
    unfold check_req in Hc. rewrite Hreq in Hc. cbn beta iota in Hc. rewrite Hk0 in Hc. rewrite El in Hc.
    cbn beta iota zeta in Hc. cbn [e_k] in Hc. rewrite SB in Hc.
    assert (Eaa : C07corr.gaction_eqb a match st with GStopped => AStopped | _ => AProceed end = true).
    { rewrite <- Ha. destruct a; reflexivity. }
    assert (Ess : gstate_eqb st st = true) by (destruct st; reflexivity).
    rewrite Ess in Hc. cbn [flag app] in Hc.
    apply in_app_or in Hc as [Hc|Hc].
    { apply check_path_codes in Hc. unfold verdict_ok. tauto. }
    apply in_app_or in Hc as [Hc|Hc].
    { apply in_flag in Hc as [Hb ->]. unfold verdict_ok. right. right. right. right. split; [reflexivity|].
      destruct hl; [reflexivity|discriminate]. }
    assert (Hc' : In c (check_tail a (PM ++ [(i5, mkEv t5 who (KRespond r status sb))]))).
    { destruct st; [|contradiction|]; rewrite Eaa in Hc; exact Hc. }
    clear Hc. rewrite (check_tail_eval _ _ _ _ _ _ _ _ HPM HPM0) in Hc'.
    apply in_flag in Hc' as [Hb _]. exfalso. rewrite (status_flag_ok _ _ _ Hs) in Hb. discriminate.
  Qed.

  Lemma link_held h w a status :
    held_story tr' r h w a status ->
    forall c, In c (check_req T r hl) -> verdict_ok T r hl c.
  Proof.
    intros (pre & held & aw & mid & rest & t3 & svc & t5 & who & sb & Htr & Q1 & Q2 & Q3 & P4 & Hq & Q5 &
            (S1 & S2 & S3) & (W1 & W2 & W3 & W4) & Ha & Hs) c Hc.
    unfold ev_read, ev_wake in *.
    set (pc := h_pc h) in *. set (g := h_gen h) in *.
    set (READ := mkEv (h_tread h) (AReq r) (KGateRead pc GPaused (Some g))) in *.
    set (WAKE := mkEv (w_t w) (AReq r) (KGateWake pc (w_chan w))) in *.
    set (RESULT := mkEv t3 (AReq r) (KGateResult r svc a)) in *.
    set (RESP := mkEv t5 who (KRespond r status sb)) in *.
    set (i1 := length pre). set (i2 := S (i1 + length held)). set (i3 := S (i2 + length aw)).
    set (PM := G r (S i3) mid). set (i5 := (S i3 + length mid)%nat).
    set (rest3 := aw ++ RESULT :: mid ++ RESP :: rest) in *.
    assert (El : l = (i1, READ) :: (i2, WAKE) :: (i3, RESULT) :: PM ++ [(i5, RESP)]).
    { rewrite Hl, Htr, G_split, (G_quiet _ _ _ Q1). unfold READ at 1. rewrite gconc_read. fold READ. cbn [app Nat.add].
      rewrite G_split, (G_quiet _ _ _ Q2). unfold WAKE at 1. rewrite gconc_wake. fold WAKE. cbn [app Nat.add]. fold i1. fold i2.
      unfold rest3. rewrite G_split, (G_quiet _ _ _ Q3). unfold RESULT at 1. rewrite gconc_result. fold RESULT.
      cbn [app Nat.add]. fold i3.
      rewrite G_split. unfold RESP at 1. rewrite gconc_respond, (G_quiet _ _ _ Q5). reflexivity. }
    assert (HPM : forall ie, In ie PM -> C07corr.is_path (snd ie) = true) by (apply G_pathonly; exact P4).
    assert (HPM0 : a = AProceed \/ PM = []).
    { destruct Hq as [Hq|Hq]; [now left|right; apply G_quiet; exact Hq]. }
    assert (Hctl : one_ctl T (svc_name T sv) pc = true) by (apply Hone; rewrite El; reflexivity).
    set (n := svc_name T sv) in *.
    (* the two splits of the slim trace: at the read, at the wake *)
    set (A1 := index_from 0 pre). set (M := index_from (S i1) held).
    assert (Elen : length (pre ++ READ :: held) = i2).
    { rewrite app_length. cbn [length]. unfold i2, i1. lia. }
    assert (Htr2 : tr' = (pre ++ READ :: held) ++ WAKE :: rest3).
    { rewrite Htr, <- app_assoc. reflexivity. }
    assert (ET1 : T = A1 ++ index_from i1 (READ :: held ++ WAKE :: rest3)).
    { unfold T. rewrite Htr, index_from_app. reflexivity. }
    assert (EA2 : index_from 0 (pre ++ READ :: held) = A1 ++ (i1, READ) :: M).
    { rewrite slim_split. reflexivity. }
    assert (ET2 : T = (A1 ++ (i1, READ) :: M) ++ index_from i2 (WAKE :: rest3)).
    { unfold T. rewrite Htr2, index_from_app, EA2, Elen. reflexivity. }
    destruct (index_from_bounds 0 pre (READ :: held ++ WAKE :: rest3)) as [B1 B1'].
    cbn [Nat.add] in B1, B1'. fold i1 A1 in B1, B1'.
    destruct (index_from_bounds 0 (pre ++ READ :: held) (WAKE :: rest3)) as [B2 B2'].
    cbn [Nat.add] in B2, B2'. rewrite Elen in B2, B2'. rewrite EA2 in B2.
    assert (BM : forall y, In y M -> (i1 < fst y < i2)%nat).
    { intros [i x] Hy. apply index_from_In in Hy as [Hy _]. cbn [fst]. unfold i2. lia. }
    (* the runs of the gate view up to the read and up to the wake *)
    pose proof Hrun as Hrun2. rewrite Htr2 in Hrun2. apply run_split in Hrun2 as (s2 & s2' & R2 & _ & _).
    pose proof R2 as R2'. apply run_split in R2' as (s1 & s1' & R1 & Hread & Rheld).
    destruct (GInv_run _ _ R1) as [[_ C1 C1c _ _] _]. destruct (GInv_run _ _ R2) as [[_ _ C2 _ _] _].
    (* name = controller at both points *)
    destruct (name_follows_ctl _ _ _ Hctl Hpar A1 _ s1 ET1) as [F1 F1']; [unfold A1; now rewrite map_snd_index_from|].
    unfold A1 in F1, F1'. rewrite map_snd_index_from in F1, F1'. fold A1 in F1, F1'. rewrite S1 in F1. rewrite <- S3 in F1'.
    destruct (name_follows_ctl _ _ _ Hctl Hpar _ _ s2 ET2) as [F2 _]; [now rewrite <- EA2, map_snd_index_from|].
    rewrite <- EA2, map_snd_index_from, <- W3 in F2. rewrite EA2 in F2.
    destruct (sets_before T n T _ _ i1 GRunning ET1 B1 B1') as [SB1 SF1].
    destruct (sets_before T n T _ _ i2 GRunning ET2 B2 B2') as [SB2 _].
    rewrite <- name_sets_nsf in SB1, SF1, SB2. rewrite F1 in SB1. rewrite F1' in SF1. rewrite F2 in SB2.
    assert (Hlv : w_chan w = true ->
              filter (fun x => Nat.ltb i1 (ne_pos x) && Nat.ltb (ne_pos x) i2) (leaves (name_sets T n) GRunning) <> []).
    { intros Ew Elv.
      assert (HM : leaves (flat_map (nsf T n) M) GPaused = []).
      { destruct (leaves (flat_map (nsf T n) M) GPaused) as [|x lx] eqn:E; [reflexivity|exfalso].
        assert (Hx : In x (leaves (flat_map (nsf T n) M) GPaused)) by (rewrite E; now left).
        assert (Hx' : In x (filter (fun x => Nat.ltb i1 (ne_pos x) && Nat.ltb (ne_pos x) i2) (leaves (name_sets T n) GRunning))).
        { apply filter_In. split.
          - rewrite name_sets_nsf. eapply leaves_mid; [exact ET2|apply nsf_nonset; cbn; intros; discriminate|].
            rewrite F1. exact Hx.
          - apply leaves_In, ns_pos in Hx as (ie & Hie & ->). apply BM in Hie.
            apply andb_true_iff. split; apply Nat.ltb_lt; lia. }
        rewrite Elv in Hx'. destruct Hx'. }
      assert (Hc1 : ctl_of s1' pc = ctl_of s1 pc).
      { unfold ctl_of. erewrite gstep_g_ctl; [reflexivity|exact Hread|cbn; intros; discriminate]. }
      destruct (stays_paused T n pc g Hctl M s1' s2) as [P1 P2].
      - intros x Hx. rewrite ET2, !in_app_iff. left. right. now right.
      - unfold M. now rewrite map_snd_index_from.
      - rewrite Hc1, C1. exact S1.
      - rewrite Hc1, C1. exact S2.
      - exact HM.
      - pose proof (gi_live _ (GenInv_run _ _ R2) pc g P1 P2) as Hopen. rewrite C2 in Hopen. now apply W1. }
    (* a timer wake: every resume / stop of the name between the read and the wake is at or after the wake's time *)
    assert (Hlate : w_chan w = false ->
              forallb (fun x => negb (ne_t x <? w_t w))
                (filter (fun x => Nat.ltb i1 (ne_pos x) && Nat.ltb (ne_pos x) i2) (leaves (name_sets T n) GRunning)) = true).
    { intros Ew. apply forallb_forall. intros x Hx. apply filter_In in Hx as [Hx Hpos].
      apply andb_true_iff in Hpos as [Hp1 Hp2]. apply Nat.ltb_lt in Hp1, Hp2.
      rewrite name_sets_nsf in Hx.
      apply (leaves_split3 T n T A1 i1 READ M _ x ET2) in Hx; [|apply nsf_nonset; cbn; intros; discriminate].
      destruct Hx as [Hx|[Hx|(cur & Hx)]].
      - exfalso. apply leaves_In, ns_pos in Hx as (ie & Hie & E). apply B1 in Hie. lia.
      - rewrite F1 in Hx.
        assert (Hc1 : ctl_of s1' pc = ctl_of s1 pc).
        { unfold ctl_of. erewrite gstep_g_ctl; [reflexivity|exact Hread|cbn; intros; discriminate]. }
        assert (Hm : exists t1, mono_from t1 (map snd M) = true).
        { pose proof Hmono as Hm. unfold time_mono, T in Hm. rewrite map_snd_index_from, Htr2 in Hm.
          apply mono_from_app_l in Hm.
          replace (pre ++ READ :: held) with ((pre ++ [READ]) ++ held) in Hm by (now rewrite <- app_assoc).
          apply mono_from_app in Hm as (t1 & Hm). exists t1. unfold M. now rewrite map_snd_index_from. }
        destruct Hm as (t1 & Hm).
        edestruct (closed_before T n pc g Hctl M (A1 ++ [(i1, READ)]) s1' s2) as (tc & Hct & Hle);
          [ | | | | |exact Hm|exact Hx|].
        + intros y Hy. rewrite ET2, !in_app_iff. left. right. now right.
        + rewrite map_app, run_app. unfold A1. rewrite map_snd_index_from, R1. cbn [map snd run]. now rewrite Hread.
        + unfold M. now rewrite map_snd_index_from.
        + rewrite Hc1, C1. exact S1.
        + rewrite Hc1, C1. exact S2.
        + assert (Emap : map snd ((A1 ++ [(i1, READ)]) ++ M) = pre ++ READ :: held).
          { rewrite <- app_assoc. cbn [app]. rewrite <- EA2. apply map_snd_index_from. }
          rewrite Emap in Hct. specialize (W4 Ew tc Hct). apply negb_true_iff, N.ltb_ge. lia.
      - exfalso. apply leaves_In, ns_pos in Hx as (ie & Hie & E). apply B2' in Hie. lia. }
    unfold check_req in Hc. rewrite Hreq in Hc. cbn beta iota in Hc. rewrite Hk0 in Hc. rewrite El in Hc.
    cbn beta iota zeta in Hc. unfold READ at 2 3 in Hc. cbn [e_k] in Hc.
    fold n in Hc. unfold WAKE, RESULT in Hc. cbn [e_k e_t] in Hc. rewrite SB1, SF1, SB2 in Hc.
    cbn [gstate_eqb flag app] in Hc.
    apply in_app_or in Hc as [Hc|Hc].
    { apply check_path_codes in Hc. unfold verdict_ok. tauto. }
    apply in_app_or in Hc as [Hc|Hc].
    { apply in_flag in Hc as [Hb ->]. unfold verdict_ok. right. right. right. right. split; [reflexivity|].
      destruct hl; [reflexivity|discriminate]. }
    apply in_app_or in Hc as [Hc|Hc].
    { destruct (w_chan w) eqn:Ew.
      - apply in_flag in Hc as [Hb _]. exfalso.
        destruct (filter (fun x => Nat.ltb i1 (ne_pos x) && Nat.ltb (ne_pos x) i2) (leaves (name_sets T n) GRunning)) eqn:E;
          [now apply (Hlv eq_refl)|discriminate].
      - apply in_app_or in Hc as [Hc|Hc].
        + apply in_flag in Hc as [Hb _]. exfalso. rewrite (W2 eq_refl), N.eqb_refl in Hb. discriminate.
        + apply in_flag in Hc as [Hb _]. exfalso. rewrite (Hlate eq_refl) in Hb. discriminate. }
    apply in_app_or in Hc as [Hc|Hc].
    { apply in_flag in Hc as [Hb _]. exfalso. unfold action_of in Ha. rewrite <- Ha in Hb. destruct a; discriminate. }
    unfold RESP in Hc. rewrite (check_tail_eval _ _ _ _ _ _ _ _ HPM HPM0) in Hc.
    apply in_flag in Hc as [Hb _]. exfalso. rewrite (status_flag_ok _ _ _ Hs) in Hb. discriminate.
  Qed.

  Lemma link_story : story r tr' -> forall c, In c (check_req T r hl) -> verdict_ok T r hl c.
  Proof.
    intros [pre rest t who status sb Htr Q1 Q2
           |pre q1 mid rest t1 pc st ch t3 svc a t5 who status sb Htr Q1 Q2 P4 Hq Q5 Hne Hst Ha Hs
           |h w a status HS].
    - eapply link_direct; eassumption.
    - eapply link_pass; eassumption.
    - eapply link_held; eassumption.
  Qed.
End Link.

(** * Part F: the link, per request and for the whole verdict *)

Theorem link_req tr r hl :
  gate_accepts tr = true -> c07_side tr r = true ->
  forall c, In c (check_req (slim tr) r hl) -> verdict_ok (slim tr) r hl c.
Proof.
  unfold gate_accepts, c07_side. intros Hacc Hside c Hc.
  rewrite <- run_filter_relevant in Hacc.
  destruct (run gstep ginit (filter relevant tr)) as [s|] eqn:Hrun; [|discriminate].
  apply andb_true_iff in Hside as [Hpar Hside]. apply andb_true_iff in Hpar as [Hpar Hmono].
  unfold slim in *. set (tr' := filter relevant tr) in *.
  unfold side_req in Hside.
  destruct (req_evs (index_from 0 tr') r) as [|[i0 e0] l] eqn:Hreq.
  { unfold check_req in Hc. rewrite Hreq in Hc. destruct Hc. }
  destruct (e_k e0) eqn:Hk0;
    try (unfold check_req in Hc; rewrite Hreq in Hc; cbn beta iota in Hc; rewrite Hk0 in Hc; destruct Hc).
  destruct svc as [sv|]; [|unfold check_req in Hc; rewrite Hreq in Hc; cbn beta iota in Hc; rewrite Hk0 in Hc; destruct Hc].
  apply andb_true_iff in Hside as [Hside Hctl]. apply andb_true_iff in Hside as [Hnil Hrt].
  assert (Hl : l = G r 0 tr').
  { unfold G. eapply req_evs_tail; [exact Hreq|unfold is_routed; now rewrite Hk0|exact Hrt]. }
  assert (Hstory : story r tr').
  { destruct l as [|[i e] l']; [discriminate|].
    assert (Hin : In (i, e) (G r 0 tr')) by (rewrite <- Hl; now left).
    unfold G in Hin. apply filter_In in Hin as [Hin Hg]. apply index_from_In in Hin as [_ Hin]. cbn [snd] in Hg.
    eapply req_story; [exact Hrun|exact Hacc|exact Hin|now apply gconc_true]. }
  eapply link_story with (s := s) (i0 := i0) (e0 := e0) (l := l) (r0 := r0) (sv := sv); try eassumption.
  intros pc Hpc. rewrite Hpc in Hctl. exact Hctl.
Qed.

Lemma check_cmds_codes t x c : In (x, c) (check_cmds t) -> c = F_cmd.
Proof.
  unfold check_cmds. rewrite in_flat_map. intros (ie & _ & H).
  destruct (e_k (snd ie)); try contradiction. destruct (e_by (snd ie)); try contradiction.
  destruct (cmd_info t c0) as [[k n]|]; [|contradiction]. destruct (commanded k); [|contradiction].
  destruct (gstate_eqb g st); [contradiction|]. destruct H as [H|[]]. now injection H as _ <-.
Qed.

Lemma c07_check_in tr reqs r c :
  In (r, c) (c07_check tr reqs) ->
  c = F_cmd \/ exists hl, In (r, hl) reqs /\ In c (check_req (slim tr) r hl).
Proof.
  unfold c07_check. rewrite in_app_iff, in_flat_map. intros [H|([r' hl] & Hin & H)].
  - left. eapply check_cmds_codes. exact H.
  - right. cbn [fst snd] in H. apply in_map_iff in H as (c' & E & H). injection E as -> ->. eauto.
Qed.

(** every failure the monitor reports for a request that satisfies the side
    condition, on a trace the gate view accepts, is one of these *)
Theorem link_verdict tr reqs r c :
  gate_accepts tr = true -> c07_side tr r = true -> In (r, c) (c07_check tr reqs) ->
  c = F_cmd \/ c = F_forward \/ c = F_refused \/ c = F_stale \/ c = F_shortcut \/
  (c = F_health /\ In (r, true) reqs).
Proof.
  intros Hacc Hside Hin. apply c07_check_in in Hin as [->|(hl & Hr & Hc)]; [now left|].
  pose proof (link_req tr r hl Hacc Hside c Hc) as Hv. unfold verdict_ok in Hv.
  destruct Hv as [->|[->|[->|[->|[-> ->]]]]]; auto 10.
Qed.

Theorem link_gate_codes tr reqs r c :
  gate_accepts tr = true -> c07_side tr r = true ->
  In c [F_once; F_read; F_held; F_chanwake; F_timer; F_late; F_result; F_status] -> ~ In (r, c) (c07_check tr reqs).
Proof.
  intros Hacc Hside Hc Hin. pose proof (link_verdict _ _ _ _ Hacc Hside Hin) as Hv.
  unfold F_cmd, F_forward, F_refused, F_stale, F_shortcut, F_health in Hv.
  unfold F_once, F_read, F_held, F_chanwake, F_timer, F_late, F_result, F_status in Hc. cbn [In] in Hc.
  intuition (subst; discriminate).
Qed.

(** "timed out although a resume / stop had come earlier" is never reported *)
Theorem link_late tr reqs r :
  gate_accepts tr = true -> c07_side tr r = true -> ~ In (r, F_late) (c07_check tr reqs).
Proof. intros Hacc Hside. apply link_gate_codes; [exact Hacc|exact Hside|]. cbn [In]. tauto. Qed.

(** "status inconsistent with the gate result" is never reported *)
Theorem link_status tr reqs r :
  gate_accepts tr = true -> c07_side tr r = true -> ~ In (r, F_status) (c07_check tr reqs).
Proof. intros Hacc Hside. apply link_gate_codes; [exact Hacc|exact Hside|]. cbn [In]. tauto. Qed.

Theorem link_health tr reqs r :
  gate_accepts tr = true -> c07_side tr r = true -> ~ In (r, true) reqs -> ~ In (r, F_health) (c07_check tr reqs).
Proof.
  intros Hacc Hside Hp Hin. pose proof (link_verdict _ _ _ _ Hacc Hside Hin) as Hv.
  unfold F_cmd, F_forward, F_refused, F_stale, F_shortcut, F_health in Hv.
  intuition (try discriminate).
Qed.

(** * Part G: what the views do NOT guarantee (doctored traces, accepted by both views) *)

Definition web : str := [x77;x65;x62].
Definition api : str := [x61;x70;x69].

(** deploy of "web": object 0, balancer 0, target 0 *)
Definition w_deploy : trace :=
 [mkEv 0 (ACmd 1) (KIssue 1 CkDeploy web);
  mkEv 0 (ACmd 1) (KParams 1 5000000000 3000000000 0);
  mkEv 0 AEnv (KTargetName 0 [x74;x61]);
  mkEv 0 (ACmd 1) (KLbNew 0 [0%nat]);
  mkEv 0 (AGo 9) (KProbeApply 0 true TAdding THealthy);
  mkEv 0 AEnv (KSvcName 0 web);
  mkEv 0 (ACmd 1) (KSlot 0 false 0 None);
  mkEv 0 (ACmd 1) (KInstall 0 true);
  mkEv 0 (ACmd 1) (KReturn 1 CROk)].

(** pause (max-pause 2 s) at time 0, then request 1 is routed and parks *)
Definition w_parked : trace := w_deploy ++
 [mkEv 0 (ACmd 2) (KIssue 2 CkPause web);
  mkEv 0 (ACmd 2) (KParams 2 0 3000000000 2000000000);
  mkEv 0 (ACmd 2) (KGateSet 0 GPaused (Some 0%nat));
  mkEv 0 (ACmd 2) (KReturn 2 CROk);
  mkEv 0 (AReq 1) (KRouted 1 (Some 0%nat));
  mkEv 0 (AReq 1) (KGateRead 0 GPaused (Some 0%nat))].

(** F_late: the resume closes the generation at 1 s, yet the request is woken by its timer at 2 s.
    The gate view now REJECTS this trace: [step_wake] by timer demands that the generation was not closed
    at a strictly earlier time. *)
Definition wit_late : trace := w_parked ++
 [mkEv 1000000000 (ACmd 3) (KIssue 3 CkResume web);
  mkEv 1000000000 (ACmd 3) (KParams 3 0 0 0);
  mkEv 1000000000 (ACmd 3) (KGateSet 0 GRunning (Some 0%nat));
  mkEv 1000000000 (ACmd 3) (KReturn 3 CROk);
  mkEv 2000000000 (AReq 1) (KGateWake 0 false);
  mkEv 2000000000 (AReq 1) (KGateResult 1 0 ATimedOut);
  mkEv 2000000000 (AReq 1) (KRespond 1 504 [])].

(** F_status: the 504 after "timed out" names a target.  The gate view now REJECTS this trace:
    [step_respond] demands an empty served-by after "timed out" / "stopped". *)
Definition wit_by : trace := w_parked ++
 [mkEv 2000000000 (AReq 1) (KGateWake 0 false);
  mkEv 2000000000 (AReq 1) (KGateResult 1 0 ATimedOut);
  mkEv 2000000000 (AReq 1) (KRespond 1 504 [x74;x61])].

(** the tie stays accepted: the resume closes the generation at 2 s, the request is woken by its timer
    at the same instant, after the close (the select had both cases ready) *)
Definition wit_tie : trace := w_parked ++
 [mkEv 2000000000 (ACmd 3) (KIssue 3 CkResume web);
  mkEv 2000000000 (ACmd 3) (KParams 3 0 0 0);
  mkEv 2000000000 (ACmd 3) (KGateSet 0 GRunning (Some 0%nat));
  mkEv 2000000000 (ACmd 3) (KReturn 3 CROk);
  mkEv 2000000000 (AReq 1) (KGateWake 0 false);
  mkEv 2000000000 (AReq 1) (KGateResult 1 0 ATimedOut);
  mkEv 2000000000 (AReq 1) (KRespond 1 504 [])].

(** time running backwards (not a recorded trace: [time_mono] is false): resume at 3 s, pause again, a second
    resume stamped 1 s, then the timer of request 1 at 2 s.  The gate view accepts (the generation of the
    request was closed at 3 s), the monitor reports F_late for the second resume. *)
Definition wit_backwards : trace := w_parked ++
 [mkEv 3000000000 (ACmd 3) (KIssue 3 CkResume web);
  mkEv 3000000000 (ACmd 3) (KParams 3 0 0 0);
  mkEv 3000000000 (ACmd 3) (KGateSet 0 GRunning (Some 0%nat));
  mkEv 3000000000 (ACmd 3) (KReturn 3 CROk);
  mkEv 3000000000 (ACmd 4) (KIssue 4 CkPause web);
  mkEv 3000000000 (ACmd 4) (KParams 4 0 3000000000 2000000000);
  mkEv 3000000000 (ACmd 4) (KGateSet 0 GPaused (Some 1%nat));
  mkEv 3000000000 (ACmd 4) (KReturn 4 CROk);
  mkEv 1000000000 (ACmd 5) (KIssue 5 CkResume web);
  mkEv 1000000000 (ACmd 5) (KParams 5 0 0 0);
  mkEv 1000000000 (ACmd 5) (KGateSet 0 GRunning (Some 1%nat));
  mkEv 1000000000 (ACmd 5) (KReturn 5 CROk);
  mkEv 2000000000 (AReq 1) (KGateWake 0 false);
  mkEv 2000000000 (AReq 1) (KGateResult 1 0 ATimedOut);
  mkEv 2000000000 (AReq 1) (KRespond 1 504 [])].

(** without the side condition: a routed request to which nothing more happens (F_once) *)
Definition wit_lost : trace := w_deploy ++ [mkEv 0 (AReq 1) (KRouted 1 (Some 0%nat))].

(** ... a second routing event while the request is held (F_held) *)
Definition wit_stray : trace := w_parked ++
 [mkEv 1 (AReq 1) (KRouted 1 None);
  mkEv 2000000000 (AReq 1) (KGateWake 0 false);
  mkEv 2000000000 (AReq 1) (KGateResult 1 0 ATimedOut);
  mkEv 2000000000 (AReq 1) (KRespond 1 504 [])].

(** ... a second parameter event of the pause command before its gate-set (F_timer) *)
Definition wit_params : trace := w_deploy ++
 [mkEv 0 (ACmd 2) (KIssue 2 CkPause web);
  mkEv 0 (ACmd 2) (KParams 2 0 3000000000 2000000000);
  mkEv 0 (ACmd 2) (KParams 2 0 3000000000 3000000000);
  mkEv 0 (ACmd 2) (KGateSet 0 GPaused (Some 0%nat));
  mkEv 0 (ACmd 2) (KReturn 2 CROk);
  mkEv 0 (AReq 1) (KRouted 1 (Some 0%nat));
  mkEv 0 (AReq 1) (KGateRead 0 GPaused (Some 0%nat));
  mkEv 3000000000 (AReq 1) (KGateWake 0 false);
  mkEv 3000000000 (AReq 1) (KGateResult 1 0 ATimedOut);
  mkEv 3000000000 (AReq 1) (KRespond 1 504 [])].

(** ... the controller of "web" resumed by a command issued for another name (F_chanwake):
    name and controller differ, the situation [one_ctl] excludes *)
Definition wit_name : trace := w_parked ++
 [mkEv 1000000000 (ACmd 3) (KIssue 3 CkResume api);
  mkEv 1000000000 (ACmd 3) (KParams 3 0 0 0);
  mkEv 1000000000 (ACmd 3) (KGateSet 0 GRunning (Some 0%nat));
  mkEv 1000000000 (ACmd 3) (KReturn 3 CROk);
  mkEv 1000000000 (AReq 1) (KGateWake 0 true);
  mkEv 1000000000 (AReq 1) (KGateResult 1 0 AProceed);
  mkEv 1000000000 (AReq 1) (KPick 1 0 (Some 0%nat));
  mkEv 1000000000 (AReq 1) (KLbClaim 0 (Some 0%nat) 1);
  mkEv 1000000000 (AReq 1) (KClaim 0 1);
  mkEv 1000000000 (AReq 1) (KRespond 1 200 [x74;x61])].

(** the pause takes effect between the balancer's choice (lb-claim) and the claim of the target:
    after the window of [known_d3], which ends at the first lb-claim / claim *)
Definition w_passed : trace := w_deploy ++
 [mkEv 0 (AReq 1) (KRouted 1 (Some 0%nat));
  mkEv 0 (AReq 1) (KGateRead 0 GRunning None);
  mkEv 0 (AReq 1) (KGateResult 1 0 AProceed);
  mkEv 0 (AReq 1) (KPick 1 0 (Some 0%nat));
  mkEv 0 (AReq 1) (KLbClaim 0 (Some 0%nat) 1);
  mkEv 0 (ACmd 2) (KIssue 2 CkPause web);
  mkEv 0 (ACmd 2) (KParams 2 0 3000000000 4000000000);
  mkEv 0 (ACmd 2) (KGateSet 0 GPaused (Some 0%nat))].

Definition wit_fwd : trace := w_passed ++
 [mkEv 0 (AReq 1) (KClaim 0 1);
  mkEv 0 (AReq 1) (KRespond 1 200 [x74;x61]);
  mkEv 0 (ACmd 2) (KReturn 2 CROk)].

Definition wit_ref : trace := w_passed ++
 [mkEv 0 (AGo 15) (KStateSet 0 THealthy TDraining);
  mkEv 0 (AReq 1) (KClaimRefused 0 1);
  mkEv 0 (AReq 1) (KRespond 1 503 []);
  mkEv 0 (AGo 15) (KStateSet 0 TDraining THealthy);
  mkEv 0 (ACmd 2) (KReturn 2 CROk)].

Definition no_pattern (tr : trace) (r : nat) : bool :=
  negb (known_d3 (slim tr) r) && negb (known_d2 (slim tr) r) && negb (known_ov (slim tr) r).

(** the former witnesses of the two refuted links: the monitor still reports F_late / F_status on them, the
    side condition holds, the path view accepts them — and the tightened gate view rejects them, at the timer
    wake and at the answer *)
Lemma wit_late_rejected :
  gate_accepts wit_late = false /\ first_reject gstep ginit wit_late 0 = Some 19%nat /\ path_accepts wit_late = true /\
  c07_side wit_late 1 = true /\ c07_plain wit_late 1 = true /\ c07_check wit_late [(1%nat, false)] = [(1%nat, F_late)].
Proof. repeat split; vm_compute; reflexivity. Qed.

Lemma wit_by_rejected :
  gate_accepts wit_by = false /\ first_reject gstep ginit wit_by 0 = Some 17%nat /\ path_accepts wit_by = true /\
  c07_side wit_by 1 = true /\ c07_plain wit_by 1 = false /\ c07_check wit_by [(1%nat, false)] = [(1%nat, F_status)].
Proof. repeat split; vm_compute; reflexivity. Qed.

Lemma wit_tie_accepted :
  accepted wit_tie /\ c07_side wit_tie 1 = true /\ c07_check wit_tie [(1%nat, false)] = [].
Proof. repeat split; vm_compute; reflexivity. Qed.

Theorem link_needs_side :
  (exists tr reqs r, accepted tr /\ c07_check tr reqs = [(r, F_once)]) /\
  (exists tr reqs r, accepted tr /\ c07_check tr reqs = [(r, F_held)]) /\
  (exists tr reqs r, accepted tr /\ c07_check tr reqs = [(r, F_timer)]) /\
  (exists tr reqs r, accepted tr /\ In (r, F_chanwake) (c07_check tr reqs)) /\
  (exists tr reqs r, accepted tr /\ time_mono (slim tr) = false /\ c07_check tr reqs = [(r, F_late)]).
Proof.
  split; [exists wit_lost, [(1%nat, false)], 1%nat; repeat split; vm_compute; reflexivity|].
  split; [exists wit_stray, [(1%nat, false)], 1%nat; repeat split; vm_compute; reflexivity|].
  split; [exists wit_params, [(1%nat, false)], 1%nat; repeat split; vm_compute; reflexivity|].
  split; [exists wit_name, [(1%nat, false)], 1%nat; repeat split; vm_compute; try reflexivity; tauto|].
  exists wit_backwards, [(1%nat, false)], 1%nat. repeat split; vm_compute; reflexivity.
Qed.

Theorem link_forward_refused_refuted :
  (exists tr reqs r, accepted tr /\ c07_side tr r = true /\ no_pattern tr r = true /\ c07_judge tr reqs = [(r, F_forward, 0)]) /\
  (exists tr reqs r, accepted tr /\ c07_side tr r = true /\ no_pattern tr r = true /\ c07_judge tr reqs = [(r, F_refused, 0)]).
Proof.
  split; [exists wit_fwd, [(1%nat, false)], 1%nat|exists wit_ref, [(1%nat, false)], 1%nat]; repeat split; vm_compute; reflexivity.
Qed.

(** * Part H: the excuses are sound (by definition of [excuse]) *)

Lemma excuse_d3_sound tr f :
  excuse tr f = 3 -> known_d3 (slim tr) (fst f) = true /\ (snd f = F_forward \/ snd f = F_refused).
Proof.
  unfold excuse.
  destruct (((snd f =? F_forward) || (snd f =? F_refused)) && known_d3 (slim tr) (fst f)) eqn:E1.
  - intros _. apply andb_true_iff in E1 as [E1 E2]. split; [exact E2|].
    apply orb_true_iff in E1 as [E1|E1]; apply N.eqb_eq in E1; auto.
  - destruct (_ && known_d2 (slim tr) (fst f)); [discriminate|].
    destruct (_ && known_ov (slim tr) (fst f)); discriminate.
Qed.

Lemma excuse_d2_sound tr f :
  excuse tr f = 2 ->
  known_d2 (slim tr) (fst f) = true /\ (snd f = F_read \/ snd f = F_forward \/ snd f = F_refused \/ snd f = F_stale).
Proof.
  unfold excuse.
  destruct (((snd f =? F_forward) || (snd f =? F_refused)) && known_d3 (slim tr) (fst f)); [discriminate|].
  destruct (((snd f =? F_read) || (snd f =? F_forward) || (snd f =? F_refused) || (snd f =? F_stale)) &&
            known_d2 (slim tr) (fst f)) eqn:E1.
  - intros _. apply andb_true_iff in E1 as [E1 E2]. split; [exact E2|].
    repeat (apply orb_true_iff in E1 as [E1|E1]); apply N.eqb_eq in E1; auto.
  - destruct (_ && known_ov (slim tr) (fst f)); discriminate.
Qed.

Lemma excuse_ov_sound tr f :
  excuse tr f = 1 -> known_ov (slim tr) (fst f) = true /\ snd f = F_refused.
Proof.
  unfold excuse.
  destruct (((snd f =? F_forward) || (snd f =? F_refused)) && known_d3 (slim tr) (fst f)); [discriminate|].
  destruct (_ && known_d2 (slim tr) (fst f)); [discriminate|].
  destruct ((snd f =? F_refused) && known_ov (slim tr) (fst f)) eqn:E1; [|discriminate].
  intros _. apply andb_true_iff in E1 as [E1 E2]. apply N.eqb_eq in E1. auto.
Qed.

Lemma judge_in tr reqs r c x :
  In (r, c, x) (c07_judge tr reqs) -> In (r, c) (c07_check tr reqs) /\ x = excuse tr (r, c).
Proof.
  unfold c07_judge. rewrite in_map_iff. intros ([r' c'] & E & Hin). cbn [fst snd] in E. injection E as -> -> <-. auto.
Qed.

Theorem excuses_sound tr reqs r c x :
  In (r, c, x) (c07_judge tr reqs) ->
  In (r, c) (c07_check tr reqs) /\
  (x = 3 -> known_d3 (slim tr) r = true /\ (c = F_forward \/ c = F_refused)) /\
  (x = 2 -> known_d2 (slim tr) r = true /\ (c = F_read \/ c = F_forward \/ c = F_refused \/ c = F_stale)) /\
  (x = 1 -> known_ov (slim tr) r = true /\ c = F_refused) /\
  (no_pattern tr r = true -> x = 0).
Proof.
  intros H. apply judge_in in H as [Hin ->]. split; [exact Hin|].
  split; [intros E; exact (excuse_d3_sound tr (r, c) E)|].
  split; [intros E; exact (excuse_d2_sound tr (r, c) E)|].
  split; [intros E; exact (excuse_ov_sound tr (r, c) E)|].
  unfold no_pattern, excuse. cbn [fst snd]. intros Hn.
  apply andb_true_iff in Hn as [Hn H3]. apply andb_true_iff in Hn as [H1 H2].
  apply negb_true_iff in H1, H2, H3. rewrite H1, H2, H3, !andb_false_r. reflexivity.
Qed.

(** * Part I: where "per name" and "per controller" differ *)

(** "web" is paused, removed and deployed again: the new service object has a NEW pause controller (1),
    running; the monitor still holds the name for paused.  Both views accept; the monitor reports F_read and
    F_forward for the request served by the new object.  [one_ctl] is false (the name has a gate-set on
    controller 0, the request read controller 1). *)
Definition wit_redeploy : trace := w_deploy ++
 [mkEv 0 (ACmd 2) (KIssue 2 CkPause web);
  mkEv 0 (ACmd 2) (KParams 2 0 3000000000 2000000000);
  mkEv 0 (ACmd 2) (KGateSet 0 GPaused (Some 0%nat));
  mkEv 0 (ACmd 2) (KReturn 2 CROk);
  mkEv 1000000000 (ACmd 3) (KIssue 3 CkRemove web);
  mkEv 1000000000 (ACmd 3) (KParams 3 0 0 0);
  mkEv 1000000000 (ACmd 3) (KRemoved 0);
  mkEv 1000000000 (ACmd 3) (KReturn 3 CROk);
  mkEv 2000000000 (ACmd 4) (KIssue 4 CkDeploy web);
  mkEv 2000000000 (ACmd 4) (KParams 4 5000000000 3000000000 0);
  mkEv 2000000000 AEnv (KTargetName 1 [x74;x62]);
  mkEv 2000000000 (ACmd 4) (KLbNew 1 [1%nat]);
  mkEv 2000000000 (AGo 19) (KProbeApply 1 true TAdding THealthy);
  mkEv 2000000000 AEnv (KSvcName 1 web);
  mkEv 2000000000 (ACmd 4) (KSlot 1 false 1 None);
  mkEv 2000000000 (ACmd 4) (KInstall 1 true);
  mkEv 2000000000 (ACmd 4) (KReturn 4 CROk);
  mkEv 3000000000 (AReq 1) (KRouted 1 (Some 1%nat));
  mkEv 3000000000 (AReq 1) (KGateRead 1 GRunning None);
  mkEv 3000000000 (AReq 1) (KGateResult 1 1 AProceed);
  mkEv 3000000000 (AReq 1) (KPick 1 1 (Some 1%nat));
  mkEv 3000000000 (AReq 1) (KLbClaim 1 (Some 1%nat) 1);
  mkEv 3000000000 (AReq 1) (KClaim 1 1);
  mkEv 3000000000 (AReq 1) (KRespond 1 200 [x74;x62])].

Theorem link_second_controller :
  exists tr reqs r, accepted tr /\ c07_side tr r = false /\ no_pattern tr r = true /\
                    c07_judge tr reqs = [(r, F_forward, 0); (r, F_read, 0)].
Proof. exists wit_redeploy, [(1%nat, false)], 1%nat. repeat split; vm_compute; reflexivity. Qed.
