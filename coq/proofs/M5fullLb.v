(** M5fullLb.v — balancers of the acceptor model/M5full.v: a balancer that was
    waited for and is not tainted has every target healthy and in rotation
    (as long as no Drain has marked one of them), slots hold waited balancers,
    and the consequences for the claims of requests (props/C02.v). *)
From KP Require Import model.Base model.Trace model.M5full proofs.M5fullFacts proofs.M5fullGuards
  proofs.M5fullInv proofs.M5fullPath.
From Coq Require Import ZifyN ZifyNat ZifyBool.
Local Open Scope nat_scope.

Ltac lb_cases :=
  repeat match goal with
  | H : context [nget (lbs (taint _ _)) _] |- _ => rewrite lbs_taint in H
  | |- context [nget (lbs (taint _ _)) _] => rewrite lbs_taint
  end.

(** * Balancer records are stable: targets fixed, waited and tainted only rise *)

Lemma step_lb_fwd : forall s e s' lb l,
  step s e = Some s' -> nget (lbs s) lb = Some l ->
  exists l', nget (lbs s') lb = Some l' /\ l_targets l' = l_targets l /\
    (l_waited l = true -> l_waited l' = true) /\ (l_tainted l = true -> l_tainted l' = true).
Proof.
  intros s e s' lb l H Hl. step_inv H; norm; lb_cases; proj; eauto.
  all: heap_cases; eqb_cases; inj_some; tproj; eauto.
  all: try (rewrite Hl in *; inj_some; tproj; eauto).
  all: try congruence.
  all: try (eexists; split; [reflexivity|]; cbn; auto).
Qed.

Lemma step_lb_back : forall s e s' lb l',
  step s e = Some s' -> nget (lbs s') lb = Some l' ->
  (exists l, nget (lbs s) lb = Some l /\ l_targets l' = l_targets l /\
             (l_waited l' = true -> l_waited l = true \/ e_k e = KDeployWaited lb true)) \/
  (exists ts, e_k e = KLbNew lb ts /\ nget (lbs s) lb = None /\ l' = mkL ts [] 0 false false).
Proof.
  intros s e s' lb l' H Hl'. step_inv H; norm; lb_cases; proj.
  all: try (left; eexists; split; [eassumption|split; [reflexivity|auto]]).
  all: heap_cases; eqb_cases; inj_some; tproj.
  all: try (left; eexists; split; [eassumption|split; [reflexivity|auto]]).
  all: try (right; eexists; repeat split; eauto; fail).
  all: try (destruct (nget (lbs s) _) eqn:El; inj_some; try discriminate; left; eexists; split; [reflexivity|split; [reflexivity|auto]]).
Qed.

Lemma step_KLbNew : forall s e s' lb ts,
  step s e = Some s' -> e_k e = KLbNew lb ts ->
  nget (lbs s) lb = None /\ (forall t, In t ts -> nget (targets s) t = None) /\
  s' = upd_lbs (upd_targets (tick s (e_t e)) (add_new lb ts (targets s)))
               (nset (lbs s) lb (mkL ts [] 0 false false)).
Proof.
  intros s e s' lb ts H Hk. step_inv_k H Hk. fold_add_new. repeat split; auto.
  intros t Ht. eapply fresh_all; eauto.
Qed.

(** * L1: the targets of a balancer exist and point back to it *)

Definition InvL1 (s : state) : Prop :=
  forall lb l t, nget (lbs s) lb = Some l -> In t (l_targets l) ->
  exists x, nget (targets s) t = Some x /\ t_lb x = lb.

Lemma invL1_step : forall s e s', InvL1 s -> step s e = Some s' -> InvL1 s'.
Proof.
  intros s e s' HI H lb l' t Hl' Ht.
  destruct (step_lb_back _ _ _ _ _ H Hl') as [(l & Hl & Hts & _)|(ts & Hk & Hn & ->)].
  - rewrite Hts in Ht. destruct (HI _ _ _ Hl Ht) as (x & Hx & Hlb).
    destruct (step_tgt_fwd _ _ _ _ _ H Hx) as (x' & Hx' & Hlb' & _). exists x'. split; auto. congruence.
  - destruct (step_KLbNew _ _ _ _ _ H Hk) as (_ & _ & ->). cbn [l_targets] in Ht. proj.
    rewrite add_new_get. apply nmem_In in Ht. rewrite Ht. eexists. split; [reflexivity|reflexivity].
Qed.

(** * L2: the rotation is a sub-list of the targets *)

Definition InvL2 (s : state) : Prop :=
  forall lb l t, nget (lbs s) lb = Some l -> In t (l_rot l) -> In t (l_targets l).

Lemma healthy_of_In : forall st ts t, In t (healthy_of st ts) ->
  In t ts /\ exists x, nget (targets st) t = Some x /\ t_state x = THealthy.
Proof.
  intros st ts t H. unfold healthy_of in H. apply filter_In in H. destruct H as [H1 H2]. split; auto.
  destruct (nget (targets st) t) as [x|]; [|discriminate]. exists x. split; auto. now apply tstate_eqb_eq.
Qed.

Lemma healthy_of_all : forall st ts, healthy_of st ts = ts ->
  forall t, In t ts -> exists x, nget (targets st) t = Some x /\ t_state x = THealthy.
Proof.
  intros st ts H t Ht. rewrite <- H in Ht. apply healthy_of_In in Ht. tauto.
Qed.

Lemma all_healthy_of : forall st ts,
  (forall t, In t ts -> exists x, nget (targets st) t = Some x /\ t_state x = THealthy) ->
  healthy_of st ts = ts.
Proof.
  intros st ts H. unfold healthy_of. induction ts as [|t ts IH]; cbn; auto.
  destruct (H t) as (x & Hx & Hs); [now left|]. rewrite Hx, Hs. cbn. f_equal. apply IH.
  intros t' Ht'. apply H. now right.
Qed.

Lemma invL2_step : forall s e s', InvL2 s -> step s e = Some s' -> InvL2 s'.
Proof.
  intros s e s' HI H lb l' t. step_inv H; norm; lb_cases; proj; try exact (HI lb l' t).
  all: heap_cases; eqb_cases; intros Hl' Ht; inj_some; tproj; eauto.
  all: try (destruct (nget (lbs s) _) eqn:El; inj_some; try discriminate; unfold tainted_rec in *; tproj; eauto).
  - destruct Ht.
  - rewrite <- Heql0 in Ht. eapply HI; eauto.
  - apply nlist_eqb_eq in Heqb. subst. apply healthy_of_In in Ht. tauto.
Qed.
