(** M5timeFacts4.v — parked goroutines, runs, and the bounds on the trace. *)
From Coq Require Import ZifyN ZifyNat ZifyBool.
From KP Require Import model.Base model.Trace model.M5time proofs.M5timeFacts proofs.M5timeFacts2 proofs.M5timeFacts3.
Local Open Scope N_scope.

Definition is_parked (e : event) : bool := match e_k e with KParked => true | _ => false end.
Definition no_parks (tr : trace) : bool := forallb (fun e => negb (is_parked e)) tr.

Lemma step_parks p st0 e s' : step_gen p st0 e = Some s' -> parks s' = parks st0 || is_parked e.
Proof.
  unfold step_gen, is_parked.
  destruct (e_t e <? clock st0); [discriminate|].
  change (parks st0) with (parks (upd_clock st0 (e_t e))).
  set (st := upd_clock st0 (e_t e)) in *. clearbody st. cbv zeta.
  destruct (e_k e) eqn:Hk; rewrite ?orb_false_r.
  all: try (destruct (e_by e) eqn:Hby;
            [inv_some; reflexivity
            |destruct (nget (cmds st) c) eqn:Hc; [intros H; exact (proj1 (own_step_frame _ _ _ _ _ _ H))|inv_some; reflexivity]
            |inv_some; reflexivity|inv_some; reflexivity]; fail).
  all: try (step_destruct; try (inv_some; fail); inv_some; cbn; rewrite ?orb_true_r; first [reflexivity|assumption]).
  - destruct (nget (cmds st) c) as [cm|]; [|discriminate].
    destruct (actor_eqb (e_by e) (ACmd c)); [|discriminate]. intros H; exact (proj1 (own_step_frame _ _ _ _ _ _ H)).
  - destruct (e_by e); [|destruct (nget (cmds st) c) eqn:Hc; [intros H; exact (proj1 (own_step_frame _ _ _ _ _ _ H))|inv_some; reflexivity]| |];
      intros H; destruct (new_lb_frame _ _ _ _ _ H) as (_ & _ & F & _); exact F.
  - destruct (e_by e); [|destruct (nget (cmds st) c) eqn:Hc; [intros H; exact (proj1 (own_step_frame _ _ _ _ _ _ H))|inv_some; reflexivity]| |];
      inv_some; frame3.
  - inv_some. destruct (nget (tgts st) t); reflexivity.
  - destruct (e_by e); [|destruct (nget (cmds st) c) eqn:Hc; [intros H; exact (proj1 (own_step_frame _ _ _ _ _ _ H))|inv_some; reflexivity]| |];
      inv_some; frame3.
  - step_destruct; try (inv_some; fail); inv_some; destruct (nget (tgts st) t); reflexivity.
Qed.

Lemma run_parks p tr s s' : run (step_gen p) s tr = Some s' -> parks s' = parks s || negb (no_parks tr).
Proof.
  revert s; induction tr as [|e tr IH]; intros s; cbn [run no_parks forallb].
  - intros H; injection H as <-. rewrite orb_false_r; reflexivity.
  - destruct (step_gen p s e) as [s1|] eqn:E; [|discriminate]. intros H.
    rewrite (IH _ H), (step_parks _ _ _ _ E). unfold no_parks.
    destruct (is_parked e); cbn; rewrite ?orb_true_r, ?orb_false_r; reflexivity.
Qed.

Lemma run_tinv p tr s s' : tinv s -> run (step_gen p) s tr = Some s' -> tinv s'.
Proof. apply run_inv. intros s0 e s1 H Hs. exact (step_tinv _ _ _ _ H Hs). Qed.

Lemma run_keeps p tr s s' : run (step_gen p) s tr = Some s' -> keeps (cmds s) (cmds s').
Proof.
  revert s; induction tr as [|e tr IH]; intros s; cbn [run].
  - intros H; injection H as <-; apply keeps_refl.
  - destruct (step_gen p s e) as [s1|] eqn:E; [|discriminate]. intros H.
    exact (keeps_trans _ _ _ (step_keeps _ _ _ _ E) (IH _ H)).
Qed.

(** the record of a command after its KIssue and KParams events *)
Lemma issue_params p s eI eP s2 c k name dt drt fa :
  e_k eI = KIssue c k name -> e_k eP = KParams c dt drt fa ->
  run (step_gen p) s [eI; eP] = Some s2 ->
  exists cm, nget (cmds s2) c = Some cm /\ c_kind cm = k /\ c_issue cm = e_t eI /\ c_dt cm = dt /\ c_drt cm = drt /\
             c_phase cm = PStart.
Proof.
  intros HI HP. cbn [run].
  destruct (step_gen p s eI) as [s1|] eqn:E1; [|discriminate].
  destruct (step_gen p s1 eP) as [s2'|] eqn:E2; [|discriminate]. intros H; injection H as <-.
  unfold step_gen in E1. destruct (e_t eI <? clock s); [discriminate|]. cbv zeta in E1. rewrite HI in E1.
  destruct (nget (cmds (upd_clock s (e_t eI))) c); [discriminate|]. injection E1 as <-.
  unfold step_gen in E2. destruct (e_t eP <? _); [discriminate|]. cbv zeta in E2. rewrite HP in E2.
  cbn [cmds upd_clock put upd_cmds] in E2. rewrite nget_nset_same in E2. cbn [c_phase] in E2.
  destruct (own_time_ok _ _ _); [|discriminate]. injection E2 as <-.
  eexists. split; [cbn [cmds put upd_cmds]; apply nget_nset_same|]. cbn. repeat split.
Qed.

(** ** The bounds, on the trace *)

Lemma bound_trace p pre eI eP mid eR post c k name dt drt fa r s :
  run (step_gen p) init (pre ++ eI :: eP :: mid ++ eR :: post) = Some s ->
  e_k eI = KIssue c k name -> e_k eP = KParams c dt drt fa -> e_k eR = KReturn c r ->
  no_parks (pre ++ eI :: eP :: mid) = true ->
  exists cm, c_kind cm = k /\ c_issue cm = e_t eI /\ c_dt cm = dt /\ c_drt cm = drt /\ bound cm (e_t eR).
Proof.
  intros Hrun HI HP HR Hnp.
  change (pre ++ eI :: eP :: mid ++ eR :: post) with (pre ++ [eI; eP] ++ mid ++ [eR] ++ post) in Hrun.
  rewrite run_app in Hrun. destruct (run (step_gen p) init pre) as [s0|] eqn:R0; [|discriminate].
  rewrite run_app in Hrun. destruct (run (step_gen p) s0 [eI; eP]) as [s2|] eqn:R2; [|discriminate].
  rewrite run_app in Hrun. destruct (run (step_gen p) s2 mid) as [s3|] eqn:R3; [|discriminate].
  rewrite run_app in Hrun. destruct (run (step_gen p) s3 [eR]) as [s4|] eqn:R4; [|discriminate].
  cbn [run] in R4. destruct (step_gen p s3 eR) as [s4'|] eqn:E4; [|discriminate].
  assert (Hpre : run (step_gen p) init (pre ++ [eI; eP] ++ mid) = Some s3).
  { rewrite run_app, R0, run_app, R2. exact R3. }
  assert (Hp3 : parks s3 = false).
  { rewrite (run_parks _ _ _ _ Hpre). change (pre ++ [eI; eP] ++ mid) with (pre ++ eI :: eP :: mid). rewrite Hnp. reflexivity. }
  assert (Hi3 : tinv s3) by exact (run_tinv _ _ _ _ tinv_init Hpre).
  destruct (issue_params _ _ _ _ _ _ _ _ _ _ _ HI HP R2) as (cm2 & G2 & K1 & K2 & K3 & K4 & K5).
  destruct (run_keeps _ _ _ _ R3 _ _ G2) as (cm3 & G3 & L).
  destruct (return_bound _ _ _ _ _ _ Hi3 E4 HR Hp3) as (cm & G & B).
  rewrite G3 in G; injection G as <-.
  destruct L as (L1 & L2 & L3 & _). destruct L3 as (L3 & L4 & _); [rewrite K5; discriminate|].
  exists cm3. repeat split; congruence.
Qed.
