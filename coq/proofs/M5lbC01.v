(** M5lbC01.v — the lemmas behind props/C01.v (deploys wait for every probe;
    failed deploys are inert). *)
From KP Require Import model.Base model.Trace model.M5lb proofs.M5lbFacts proofs.M5lbHist.
From Coq Require Import ZifyN ZifyNat ZifyBool.
Local Open Scope nat_scope.

(** * Splitting a run at one or two indices *)

Lemma nth_error_firstn_lt : forall A (l : list A) i j, j < i -> nth_error (firstn i l) j = nth_error l j.
Proof.
  intros A l. induction l as [|x l IH]; intros i j Hlt.
  - rewrite firstn_nil. reflexivity.
  - destruct i as [|i]; [lia|]. destruct j as [|j]; cbn; auto. apply IH. lia.
Qed.

Lemma run_two : forall St (stp : St -> event -> option St) s0 tr s j i e1 e2,
  run stp s0 tr = Some s -> nth_error tr j = Some e1 -> nth_error tr i = Some e2 -> j < i ->
  exists sa sb sc sd mid,
    run stp s0 (firstn j tr) = Some sa /\ stp sa e1 = Some sb /\ run stp sb mid = Some sc /\
    run stp s0 (firstn i tr) = Some sc /\ stp sc e2 = Some sd /\
    firstn i tr = firstn j tr ++ e1 :: mid /\ run stp sd (skipn (S i) tr) = Some s.
Proof.
  intros St stp s0 tr s j i e1 e2 Hrun Hj Hi Hlt.
  destruct (run_split stp _ _ _ _ _ Hrun Hi) as [sc [sd [H1 [H2 H3]]]].
  assert (Hj' : nth_error (firstn i tr) j = Some e1) by (rewrite nth_error_firstn_lt; auto).
  destruct (run_split stp _ _ _ _ _ H1 Hj') as [sa [sb [H4 [H5 H6]]]].
  assert (Hff : firstn j (firstn i tr) = firstn j tr).
  { rewrite firstn_firstn. f_equal. lia. }
  exists sa, sb, sc, sd, (skipn (S j) (firstn i tr)). rewrite Hff in H4. repeat split; auto.
  rewrite <- Hff. apply nth_error_split3. exact Hj'.
Qed.

(** * Stability along runs *)

Lemma run_bal_stable : forall tr s s' lb b,
  run step s tr = Some s' -> nget (bals s) lb = Some b ->
  exists b', nget (bals s') lb = Some b' /\ b_ts b' = b_ts b /\ b_deadline b' = b_deadline b /\
             (forall v, b_waited b = Some v -> b_waited b' = Some v).
Proof.
  induction tr as [|e tr IH]; intros s s' lb b Hrun Hb; cbn in Hrun.
  - inversion Hrun; subst. exists b. auto.
  - destruct (step s e) as [s1|] eqn:E; [|discriminate].
    destruct (bal_stable _ _ _ _ _ E Hb) as [b1 [H1 [H2 [H3 H4]]]].
    destruct (IH _ _ _ _ Hrun H1) as [b2 [H5 [H6 [H7 H8]]]].
    exists b2. repeat split; auto; try congruence.
Qed.

Lemma run_tgt_stable : forall tr s s' t x,
  run step s tr = Some s' -> nget (tgts s) t = Some x ->
  exists x', nget (tgts s') t = Some x' /\ t_lb x' = t_lb x /\
             (t_pok x = true -> t_pok x' = true) /\ (t_sig x = true -> t_sig x' = true) /\
             (forall v, t_waiter x = Some v -> t_waiter x' = Some v).
Proof.
  induction tr as [|e tr IH]; intros s s' t x Hrun Hx; cbn in Hrun.
  - inversion Hrun; subst. exists x. auto.
  - destruct (step s e) as [s1|] eqn:E; [|discriminate].
    destruct (tgt_stable _ _ _ _ _ E Hx) as [x1 [H1 [H2 [H3 [H4 H5]]]]].
    destruct (IH _ _ _ _ Hrun H1) as [x2 [H6 [H7 [H8 [H9 H10]]]]].
    exists x2. repeat split; auto; try congruence.
Qed.

(** what single events leave in the state *)

Lemma step_lbnew : forall s tm a lb ts s',
  step s (mkEv tm a (KLbNew lb ts)) = Some s' ->
  nget (bals s) lb = None /\ (forall t, In t ts -> nget (tgts s) t = None) /\
  exists b, nget (bals s') lb = Some b /\ b_ts b = ts /\ b_waited b = None /\ b_rot b = [].
Proof.
  intros s tm a lb ts s' H. step_inv H; proj_simp; split_ands;
  (split; [now apply fresh_none|]);
  (split; [intros t0 Hin; match goal with Hf : forallb _ _ = true |- _ => rewrite forallb_forall in Hf; apply fresh_none; auto end|]);
  rewrite nget_nset_same; eexists; split; try reflexivity; auto.
Qed.

Lemma step_waited : forall s tm a lb v s',
  step s (mkEv tm a (KDeployWaited lb v)) = Some s' ->
  exists b b', nget (bals s) lb = Some b /\ b_waited b = None /\ nget (bals s') lb = Some b' /\ b_waited b' = Some v /\
    (v = true -> forall t, In t (b_ts b) -> waiter_is (tgts s) true t = true).
Proof.
  intros s tm a lb v s' H. step_inv H; proj_simp; split_ands; rewrite nget_nset_same;
  do 2 eexists; repeat split; try reflexivity; auto; try discriminate.
  intros _ t Hin. apply eqb_prop in H0. symmetry in H0. rewrite forallb_forall in H0. auto.
Qed.

Lemma step_claim : forall s tm a t r s',
  step s (mkEv tm a (KClaim t r)) = Some s' ->
  exists p x, nget (pend s) r = Some p /\ p_choice p = Some t /\ nget (tgts s) t = Some x /\ t_st x <> TDraining.
Proof.
  intros s tm a t r s' H. step_inv H; split_ands. do 2 eexists. repeat split; eauto.
  - now apply opt_nat_eqb_eq.
  - apply negb_true_iff in H0. now apply tstate_eqb_neq.
Qed.

Lemma step_slot : forall s tm a sv sl lb rep s',
  step s (mkEv tm a (KSlot sv sl lb rep)) = Some s' ->
  exists b, nget (bals s) lb = Some b /\ b_waited b = Some true.
Proof.
  intros s tm a sv sl lb rep s' H. step_inv H; split_ands; try discriminate; eauto.
Qed.

Lemma step_pick : forall s tm a r sv lb s',
  step s (mkEv tm a (KPick r sv (Some lb))) = Some s' ->
  exists x, nget (svcs s) sv = Some x /\ in_slots x lb = true.
Proof.
  intros s tm a r sv lb s' H. step_inv H. split_ands. eauto.
Qed.

Definition at_ (tr : trace) (j : nat) (k : kind) : Prop := exists e, nth_error tr j = Some e /\ e_k e = k.

Lemma has_firstn_at : forall tr i k, has (firstn i tr) k -> exists j, j < i /\ at_ tr j k.
Proof.
  intros tr i k H. destruct (has_firstn _ _ _ H) as [j [e [H1 [H2 H3]]]]. exists j. split; auto. exists e. auto.
Qed.

Lemma state_at : forall St (stp : St -> event -> option St) s0 tr s j,
  run stp s0 tr = Some s -> exists sj, run stp s0 (firstn j tr) = Some sj /\ run stp sj (skipn j tr) = Some s.
Proof.
  intros St stp s0 tr s j H. rewrite <- (firstn_skipn j tr) in H. rewrite run_app in H.
  destruct (run stp s0 (firstn j tr)) as [sj|]; [|discriminate]. eauto.
Qed.

Lemma state_between : forall St (stp : St -> event -> option St) s0 tr j i sj si,
  j <= i -> run stp s0 (firstn j tr) = Some sj -> run stp s0 (firstn i tr) = Some si ->
  run stp sj (skipn j (firstn i tr)) = Some si.
Proof.
  intros St stp s0 tr j i sj si Hle Hj Hi.
  rewrite <- (firstn_skipn j (firstn i tr)) in Hi. rewrite run_app in Hi.
  rewrite firstn_firstn in Hi. replace (Nat.min j i) with j in Hi by lia. rewrite Hj in Hi. exact Hi.
Qed.

Lemma run_ready_stable : forall tr s s' lb, run step s tr = Some s' -> lb_ready s lb -> lb_ready s' lb.
Proof.
  induction tr as [|e tr IH]; intros s s' lb H Hr; cbn in H.
  - inversion H; subst. exact Hr.
  - destruct (step s e) as [s1|] eqn:E; [|discriminate].
    eapply IH; eauto. eapply ready_stable; eauto.
Qed.

Lemma run_bal_flags_stable : forall tr s s' lb b,
  run step s tr = Some s' -> nget (bals s) lb = Some b ->
  exists b', nget (bals s') lb = Some b' /\ b_cmd b' = b_cmd b /\ (b_restored b = true -> b_restored b' = true).
Proof.
  induction tr as [|e tr IH]; intros s s' lb b Hrun Hb; cbn in Hrun.
  - inversion Hrun; subst. exists b. auto.
  - destruct (step s e) as [s1|] eqn:E; [|discriminate].
    destruct (bal_flags_stable _ _ _ _ _ E Hb) as [b1 [H1 [H2 H3]]].
    destruct (IH _ _ _ _ Hrun H1) as [b2 [H5 [H6 H7]]].
    exists b2. repeat split; auto; congruence.
Qed.

(** a deploy waits only on a balancer created by a command, hence never on a restored one *)
Lemma step_waited_cmd : forall s tm a lb v s', Inv s ->
  step s (mkEv tm a (KDeployWaited lb v)) = Some s' ->
  exists b, nget (bals s) lb = Some b /\ b_cmd b = true /\ b_restored b = false.
Proof.
  intros s tm a lb v s' HI H. step_inv H; split_ands; try discriminate.
  all: match goal with Hp : phase_is_waiting _ _ = true |- _ => apply phase_waiting_eq in Hp;
         destruct (i_cmdlb _ HI _ _ (or_introl Hp)) as [b1 [Hb1 Hc1]] end.
  all: rewrite Heqo0 in Hb1; inversion Hb1; subst b1; exists b; split; [reflexivity|]; split; auto.
  all: destruct (b_restored b) eqn:Er; auto; destruct (i_rest _ HI _ _ Heqo0 Er); congruence.
Qed.

(** a balancer whose wait failed is never "ready", before or after *)
Lemma ready_not_failed : forall tr s j sj i lb,
  run step init tr = Some s -> run step init (firstn j tr) = Some sj -> lb_ready sj lb ->
  at_ tr i (KDeployWaited lb false) -> False.
Proof.
  intros tr s j sj i lb Hrun Hj Hr [[tm a k] [Hi Hk]]. cbn in Hk. subst k.
  destruct (run_split step _ _ _ _ _ Hrun Hi) as [si [si' [H1 [H2 H3]]]].
  destruct (step_waited _ _ _ _ _ _ H2) as [b [b' [Hb [Hn [Hb' [Hw' _]]]]]].
  destruct (le_lt_dec j i) as [Hle|Hlt].
  - pose proof (state_between _ step _ _ _ _ _ _ Hle Hj H1) as Hm.
    destruct (run_ready_stable _ _ _ _ Hm Hr) as [b2 [Hb2 [Hw2|Hr2]]]; [congruence|].
    destruct (step_waited_cmd _ _ _ _ _ _ (inv_run _ _ H1) H2) as [b3 [Hb3 [_ Hnr]]]. congruence.
  - assert (Hi' : nth_error (firstn j tr) i = Some (mkEv tm a (KDeployWaited lb false))) by (rewrite nth_error_firstn_lt; auto).
    destruct (run_split step _ _ _ _ _ Hj Hi') as [ti [ti' [G1 [G2 G3]]]].
    rewrite firstn_firstn in G1. replace (Nat.min i j) with i in G1 by lia. rewrite H1 in G1. inversion G1; subst ti.
    rewrite H2 in G2. inversion G2; subst ti'.
    destruct (run_bal_stable _ _ _ _ _ G3 Hb') as [b2 [Hb2 [_ [_ Hw2]]]].
    destruct Hr as [b3 [Hb3 Hw3]]. rewrite Hb2 in Hb3. inversion Hb3; subst b3.
    destruct Hw3 as [Hw3|Hr3].
    + rewrite (Hw2 _ Hw') in Hw3. discriminate.
    + destruct (i_rest _ (inv_run _ _ Hj) _ _ Hb2 Hr3) as [_ Hnone]. rewrite (Hw2 _ Hw') in Hnone. discriminate.
Qed.

(** the state just before a claim: the target's balancer has been waited for successfully *)
Lemma claim_ready : forall tr s j t r jn lb ts,
  run step init tr = Some s -> at_ tr j (KClaim t r) -> at_ tr jn (KLbNew lb ts) -> In t ts ->
  jn < j /\ exists sj b, run step init (firstn j tr) = Some sj /\ nget (bals sj) lb = Some b /\ b_ts b = ts /\ bal_ready b.
Proof.
  intros tr s j t r jn lb ts Hrun [[tm a k] [Hj Hk]] [[tm' a' k'] [Hn Hk']] Hin. cbn in Hk, Hk'. subst k k'.
  destruct (lt_eq_lt_dec jn j) as [[Hlt|Heq]|Hgt].
  - split; auto.
    destruct (run_two _ step _ _ _ _ _ _ _ Hrun Hn Hj Hlt) as [sa [sb [sc [sd [mid [H1 [H2 [H3 [H4 [H5 _]]]]]]]]]].
    destruct (step_lbnew _ _ _ _ _ _ H2) as [_ [_ [b0 [Hb0 [Hts _]]]]].
    destruct (run_bal_stable _ _ _ _ _ H3 Hb0) as [b [Hb [Hts' _]]].
    destruct (step_claim _ _ _ _ _ _ H5) as [p [x [Hp [Hc [Hx _]]]]].
    pose proof (inv_run _ _ H4) as HI.
    destruct (i_pend _ HI _ _ _ Hp Hc) as [b' [Hb' [Hw' Hin']]].
    assert (Hin2 : In t (b_ts b)) by (rewrite Hts', Hts; exact Hin).
    destruct (i_ts _ HI _ _ _ Hb Hin2) as [x1 [Hx1 Hl1]].
    destruct (i_ts _ HI _ _ _ Hb' Hin') as [x2 [Hx2 Hl2]].
    rewrite Hx1 in Hx2. inversion Hx2; subst x2.
    assert (Heq : p_lb p = lb) by congruence. rewrite Heq in Hb'.
    rewrite Hb in Hb'. inversion Hb'; subst b'.
    exists sc, b. repeat split; auto. congruence.
  - subst jn. rewrite Hj in Hn. discriminate.
  - exfalso.
    destruct (run_two _ step _ _ _ _ _ _ _ Hrun Hj Hn Hgt) as [sa [sb [sc [sd [mid [H1 [H2 [H3 [H4 [H5 _]]]]]]]]]].
    destruct (step_claim _ _ _ _ _ _ H2) as [p [x [_ [_ [Hx _]]]]].
    destruct (tgt_stable _ _ _ _ _ H2 Hx) as [x1 [Hx1 _]].
    destruct (run_tgt_stable _ _ _ _ _ H3 Hx1) as [x2 [Hx2 _]].
    destruct (step_lbnew _ _ _ _ _ _ H5) as [_ [Hfr _]]. rewrite (Hfr _ Hin) in Hx2. discriminate.
Qed.

(** the claim is licensed EITHER by the deploy (every target probed successfully, the wait succeeded)
    OR by a restore (an earlier KRestored names the balancer; every target was presumed healthy by it) *)
Theorem forward_after_all_probes : forall tr s i t r jn lb ts,
  run step init tr = Some s -> at_ tr i (KClaim t r) -> at_ tr jn (KLbNew lb ts) -> In t ts ->
  jn < i /\
  (((forall t', In t' ts -> exists j prev new, j < i /\ at_ tr j (KProbeApply t' true prev new)) /\
    (exists j, j < i /\ at_ tr j (KDeployWaited lb true)))
   \/
   ((exists j sv act roll, j < i /\ at_ tr j (KRestored sv act roll) /\ (act = Some lb \/ roll = Some lb)) /\
    (forall t', In t' ts -> exists j, j < i /\ at_ tr j (KStateSet t' TAdding THealthy)))).
Proof.
  intros tr s i t r jn lb ts Hrun Hc Hn Hin.
  destruct (claim_ready _ _ _ _ _ _ _ _ Hrun Hc Hn Hin) as [Hlt [si [b [Hsi [Hb [Hts Hw]]]]]].
  pose proof (inv_run _ _ Hsi) as HI. pose proof (hinv_run _ _ Hsi) as HH.
  split; auto. destruct Hw as [Hw|Hr]; [left|right]; split.
  - intros t' Hin'. rewrite <- Hts in Hin'.
    destruct (i_ts _ HI _ _ _ Hb Hin') as [x [Hx _]].
    pose proof (i_waited _ HI _ _ _ _ Hb Hw Hin' Hx) as Hwt.
    pose proof (i_wsig _ HI _ _ Hx Hwt) as Hsg.
    pose proof (i_sigpok _ HI _ _ Hx (or_introl Hsg)) as Hpk.
    destruct (h_pok _ _ HH _ _ Hx Hpk) as [prev [new Hh]].
    destruct (has_firstn_at _ _ _ Hh) as [j [Hj Ha]]. eauto.
  - apply has_firstn_at. eapply (h_waited _ _ HH); eauto.
  - destruct (h_restored _ _ HH _ _ Hb Hr) as [sv [act [roll [Hh Ho]]]].
    destruct (has_firstn_at _ _ _ Hh) as [j [Hj Ha]]. exists j, sv, act, roll. auto.
  - intros t' Hin'. rewrite <- Hts in Hin'.
    destruct (i_ts _ HI _ _ _ Hb Hin') as [x [Hx _]].
    pose proof (i_restp _ HI _ _ _ _ Hb Hr Hin' Hx) as Hp.
    apply has_firstn_at. eapply (h_presumed _ _ HH); eauto.
Qed.

Theorem failed_deploy_inert : forall tr s i lb,
  run step init tr = Some s -> at_ tr i (KDeployWaited lb false) ->
  (forall j sv sl rep, ~ at_ tr j (KSlot sv sl lb rep)) /\
  (forall j r sv, ~ at_ tr j (KPick r sv (Some lb))) /\
  (forall j jn ts t r, at_ tr jn (KLbNew lb ts) -> In t ts -> ~ at_ tr j (KClaim t r)).
Proof.
  intros tr s i lb Hrun Hf. repeat split.
  - intros j sv sl rep [[tm a k] [Hj Hk]]. cbn in Hk; subst k.
    destruct (run_split step _ _ _ _ _ Hrun Hj) as [sj [sj' [H1 [H2 _]]]].
    destruct (step_slot _ _ _ _ _ _ _ _ H2) as [b [Hb Hw]].
    exact (ready_not_failed _ _ _ _ _ _ Hrun H1 (ex_intro _ b (conj Hb (or_introl Hw))) Hf).
  - intros j r sv [[tm a k] [Hj Hk]]. cbn in Hk; subst k.
    destruct (run_split step _ _ _ _ _ Hrun Hj) as [sj [sj' [H1 [H2 _]]]].
    destruct (step_pick _ _ _ _ _ _ _ H2) as [x [Hx Hs]].
    pose proof (inv_run _ _ H1) as HI.
    exact (ready_not_failed _ _ _ _ _ _ Hrun H1 (i_slot _ HI _ _ _ Hx Hs) Hf).
  - intros j jn ts t r Hn Hin Hc.
    destruct (claim_ready _ _ _ _ _ _ _ _ Hrun Hc Hn Hin) as [_ [sj [b [Hsj [Hb [_ Hw]]]]]].
    exact (ready_not_failed _ _ _ _ _ _ Hrun Hsj (ex_intro _ b (conj Hb Hw)) Hf).
Qed.

Lemma nth_error_mid : forall A (l1 : list A) x l2, nth_error (l1 ++ x :: l2) (length l1) = Some x.
Proof. intros A l1 x l2. rewrite nth_error_app2 by lia. now rewrite Nat.sub_diag. Qed.

Lemma ptr_indices : forall tr i t lb, probe_then_rotation (firstn i tr) t lb ->
  exists p j e1 e2 hs, p < j /\ j < i /\ nth_error tr p = Some e1 /\ nth_error tr j = Some e2 /\
    e_k e1 = KProbeApply t true TAdding THealthy /\ e_k e2 = KRotation lb hs /\ In t hs /\ e_by e1 = e_by e2.
Proof.
  intros tr i t lb [l1 [e1 [l2 [e2 [l3 [hs [Hd [H1 [H2 [H3 H4]]]]]]]]]].
  assert (Hlen : length (firstn i tr) <= i) by apply firstn_le_length.
  assert (Hl : length (firstn i tr) = length l1 + S (length l2 + S (length l3))).
  { rewrite Hd. rewrite app_length. cbn. rewrite app_length. cbn. lia. }
  exists (length l1), (length l1 + S (length l2)), e1, e2, hs.
  repeat split; auto; try lia.
  - rewrite <- (nth_error_firstn_lt _ tr i) by lia. rewrite Hd. apply nth_error_mid.
  - rewrite <- (nth_error_firstn_lt _ tr i) by lia. rewrite Hd.
    replace (l1 ++ e1 :: l2 ++ e2 :: l3) with ((l1 ++ e1 :: l2) ++ e2 :: l3) by (rewrite <- app_assoc; reflexivity).
    replace (length l1 + S (length l2)) with (length (l1 ++ e1 :: l2)) by (rewrite app_length; cbn; lia).
    apply nth_error_mid.
Qed.

(** D1's repair: the wait succeeds only when every target was released, i.e. after the goroutine
    whose probe made it healthy had rebuilt the rotation with the target in it *)
Theorem waited_only_if_signalled : forall tr s i jn lb ts,
  run step init tr = Some s -> at_ tr i (KDeployWaited lb true) -> at_ tr jn (KLbNew lb ts) ->
  forall t, In t ts ->
  exists p j e1 e2 hs, p < j /\ j < i /\ nth_error tr p = Some e1 /\ nth_error tr j = Some e2 /\
    e_k e1 = KProbeApply t true TAdding THealthy /\ e_k e2 = KRotation lb hs /\ In t hs /\ e_by e1 = e_by e2.
Proof.
  intros tr s i jn lb ts Hrun [[tm a k] [Hi Hk]] [[tm' a' k'] [Hn Hk']] t Hin. cbn in Hk, Hk'. subst k k'.
  assert (Hlt : jn < i).
  { destruct (lt_eq_lt_dec jn i) as [[Hlt|Heq]|Hgt]; auto.
    - subst jn. rewrite Hi in Hn. discriminate.
    - exfalso.
      destruct (run_two _ step _ _ _ _ _ _ _ Hrun Hi Hn Hgt) as [sa [sb [sc [sd [mid [H1 [H2 [H3 [H4 [H5 _]]]]]]]]]].
      destruct (step_waited _ _ _ _ _ _ H2) as [b [b' [_ [_ [Hb' _]]]]].
      destruct (run_bal_stable _ _ _ _ _ H3 Hb') as [b2 [Hb2 _]].
      destruct (step_lbnew _ _ _ _ _ _ H5) as [Hnone _]. congruence. }
  destruct (run_two _ step _ _ _ _ _ _ _ Hrun Hn Hi Hlt) as [sa [sb [sc [sd [mid [H1 [H2 [H3 [H4 [H5 _]]]]]]]]]].
  destruct (step_lbnew _ _ _ _ _ _ H2) as [_ [_ [b0 [Hb0 [Hts _]]]]].
  destruct (run_bal_stable _ _ _ _ _ H3 Hb0) as [b [Hb [Hts' _]]].
  destruct (step_waited _ _ _ _ _ _ H5) as [b1 [b1' [Hb1 [_ [_ [_ Hall]]]]]].
  rewrite Hb in Hb1. inversion Hb1; subst b1.
  pose proof (inv_run _ _ H4) as HI. pose proof (hinv_run _ _ H4) as HH.
  assert (Hin' : In t (b_ts b)) by (rewrite Hts', Hts; exact Hin).
  destruct (i_ts _ HI _ _ _ Hb Hin') as [x [Hx Hl]].
  pose proof (waiter_is_true _ _ _ (Hall eq_refl _ Hin') Hx) as Hwt.
  pose proof (i_wsig _ HI _ _ Hx Hwt) as Hsg.
  pose proof (h_sig _ _ HH _ _ Hx Hsg) as Hp. rewrite Hl in Hp.
  apply ptr_indices. exact Hp.
Qed.

(** a waiter gives up only at the deploy deadline (creation time of the balancer + deploy timeout) *)
Lemma step_waiter_false : forall s tm a t s',
  step s (mkEv tm a (KWaiter t false)) = Some s' ->
  exists x, nget (tgts s) t = Some x /\
    forall b d, nget (bals s) (t_lb x) = Some b -> b_deadline b = Some d -> tm = d.
Proof.
  intros s tm a t s' H. step_inv H; eexists; split; try reflexivity; intros b0 d Hb Hd; inj_some; same_get; try congruence.
  rewrite Hd in *. inj_some. now apply N.eqb_eq.
Qed.

(** * The deploying command's phases and the routing view *)

Definition rank (p : option cphase) : nat :=
  match p with None => 0 | Some (CWaiting _) => 1 | Some (CProceed _) | Some CFailed => 2 | Some CReturned => 3 end.

Lemma phase_step : forall s e s' c, step s e = Some s' ->
  nget (cmds s') c = nget (cmds s) c \/ rank (nget (cmds s) c) < rank (nget (cmds s') c).
Proof.
  intros s [tm a k] s' c H. destruct k; step_inv H; proj_simp; auto.
  all: norm; auto.
  all: try (right; match goal with H : nget (cmds _) _ = _ |- _ => rewrite H end; cbn; lia).
  all: try (right; split_ands;
            match goal with H : fresh (cmds _) _ = true |- _ => apply fresh_none in H; rewrite H end; cbn; lia).
  all: try (right; split_ands; unfold phase_is_waiting in *;
            match goal with H : context [nget (cmds ?s) ?c] |- context [nget (cmds ?s) ?c] => destruct (nget (cmds s) c) as [[]|]; try discriminate end; cbn; lia).
Qed.

Lemma run_phase : forall tr s s' c, run step s tr = Some s' ->
  nget (cmds s') c = nget (cmds s) c \/ rank (nget (cmds s) c) < rank (nget (cmds s') c).
Proof.
  induction tr as [|e tr IH]; intros s s' c H; cbn in H.
  - inversion H; auto.
  - destruct (step s e) as [s1|] eqn:E; [|discriminate].
    destruct (phase_step _ _ _ c E) as [H1|H1]; destruct (IH _ _ c H) as [H2|H2].
    + left. congruence.
    + right. rewrite <- H1. exact H2.
    + right. rewrite H2. exact H1.
    + right. lia.
Qed.

Definition quiet (p : option cphase) : bool :=
  match p with Some (CWaiting _) | Some CFailed | Some CReturned => true | _ => false end.

Lemma routing_ext : forall s s', inst s' = inst s ->
  (forall sv, In sv (inst s) -> nget (snames s') sv = nget (snames s) sv /\ nget (svcs s') sv = nget (svcs s) sv) ->
  routing s' = routing s.
Proof.
  intros s s' Hi Hf. unfold routing. rewrite Hi. apply map_ext_in. intros sv Hin.
  destruct (Hf sv Hin) as [H1 H2]. now rewrite H1, H2.
Qed.

Lemma quiet_routing : forall s e s' c, step s e = Some s' -> e_by e = ACmd c ->
  quiet (nget (cmds s) c) = true \/ (exists lb ts, e_k e = KLbNew lb ts) ->
  routing s' = routing s.
Proof.
  intros s [tm a k] s' c H Ha Hq. cbn in Ha. subst a.
  destruct k; step_inv H; proj_simp; try reflexivity.
  all: try (apply routing_ext; proj_simp; auto; fail).
  - split_ands. apply routing_ext; proj_simp; auto. intros sv Hin. split; auto.
    rewrite nget_nset_other; auto. intros ->.
    match goal with H : negb _ = true |- _ => apply negb_true_iff in H; apply nmem_false in H end. contradiction.
  - exfalso. cbn in Heqo. inj_some. destruct Hq as [Hq|[? [? Hq]]]; [|discriminate Hq].
    split_ands. unfold phase_is_proceed in *. destruct (nget (cmds s) n) as [[]|]; discriminate.
  - exfalso. cbn in Heqo. inj_some. destruct Hq as [Hq|[? [? Hq]]]; [|discriminate Hq].
    split_ands. discriminate.
  - exfalso. cbn in Heqo. inj_some. destruct Hq as [Hq|[? [? Hq]]]; [|discriminate Hq].
    split_ands. discriminate.
  - exfalso. cbn in Heqo. inj_some. destruct Hq as [Hq|[? [? Hq]]]; [|discriminate Hq].
    unfold phase_proceeding in *. destruct (nget (cmds s) n) as [[]|]; discriminate.
  - exfalso. cbn in Heqo. inj_some. destruct Hq as [Hq|[? [? Hq]]]; [|discriminate Hq].
    split_ands. match goal with H : fresh _ _ = true |- _ => apply fresh_none in H; rewrite H in Hq end. discriminate.
  - (* KRestored is never a command's step *)
    exfalso. cbn in Heqo. discriminate.
Qed.

Lemma firstn_S_nth : forall A (l : list A) i x, nth_error l i = Some x -> firstn (S i) l = firstn i l ++ [x].
Proof.
  intros A l. induction l as [|y l IH]; intros i x H.
  - destruct i; discriminate.
  - destruct i as [|i]; cbn in *.
    + inversion H. reflexivity.
    + f_equal. now apply IH.
Qed.

Lemma state_after : forall tr s i e, run step init tr = Some s -> nth_error tr i = Some e ->
  exists si si', run step init (firstn i tr) = Some si /\ step si e = Some si' /\ run step init (firstn (S i) tr) = Some si'.
Proof.
  intros tr s i e Hrun Hi. destruct (run_split step _ _ _ _ _ Hrun Hi) as [si [si' [H1 [H2 _]]]].
  exists si, si'. repeat split; auto. rewrite (firstn_S_nth _ _ _ _ Hi). apply run_snoc. eauto.
Qed.

(** a deploy whose wait failed returns "unhealthy", and from the creation of its balancer to its
    return none of the command's own steps changes the routing view (installed objects, their
    names and slots) *)
Theorem failed_deploy_routing : forall tr s ia i k c lb ts r tm1 tm2,
  run step init tr = Some s ->
  nth_error tr ia = Some (mkEv tm1 (ACmd c) (KLbNew lb ts)) ->
  nth_error tr i = Some (mkEv tm2 (ACmd c) (KDeployWaited lb false)) ->
  at_ tr k (KReturn c r) -> i < k ->
  ia < i /\ r = CRErr err_unhealthy /\
  forall m e sm sm', ia <= m < k -> nth_error tr m = Some e -> e_by e = ACmd c ->
    run step init (firstn m tr) = Some sm -> step sm e = Some sm' -> routing sm' = routing sm.
Proof.
  intros tr s ia i k c lb ts r tm1 tm2 Hrun Ha Hi [[tm3 a3 k3] [Hk Hk3]] Hik. cbn in Hk3. subst k3.
  destruct (state_after _ _ _ _ Hrun Ha) as [sa [sa' [Ha1 [Ha2 Ha3]]]].
  destruct (state_after _ _ _ _ Hrun Hi) as [si [si' [Hi1 [Hi2 Hi3]]]].
  destruct (state_after _ _ _ _ Hrun Hk) as [sk [sk' [Hk1 [Hk2 Hk3]]]].
  (* phases at the landmarks *)
  assert (Pa' : nget (cmds sa') c = Some (CWaiting lb)).
  { clear - Ha2. step_inv Ha2; proj_simp; now rewrite nget_nset_same. }
  assert (Pa : nget (cmds sa) c = None).
  { clear - Ha2. step_inv Ha2; proj_simp; split_ands; now apply fresh_none. }
  assert (Pi : nget (cmds si) c = Some (CWaiting lb)).
  { clear - Hi2. step_inv Hi2; cbn in *; inj_some; split_ands; try discriminate. unfold phase_is_waiting in *.
    destruct (nget (cmds si) n) as [[l| | |]|]; try discriminate.
    match goal with H : (_ =? _) = true |- _ => apply Nat.eqb_eq in H; now subst end. }
  assert (Pi' : nget (cmds si') c = Some CFailed).
  { clear - Hi2. step_inv Hi2; cbn in *; inj_some; proj_simp; now rewrite nget_nset_same. }
  assert (Pk : nget (cmds sk) c <> Some CReturned).
  { clear - Hk2. intros Hc. step_inv Hk2; congruence. }
  assert (Hai : ia < i).
  { destruct (lt_eq_lt_dec ia i) as [[Hlt|Heq]|Hgt]; auto.
    - subst ia. rewrite Ha in Hi. discriminate.
    - exfalso. assert (Hle : S i <= ia) by lia.
      pose proof (state_between _ step _ _ _ _ _ _ Hle Hi3 Ha1) as Hm.
      destruct (run_phase _ _ _ c Hm) as [H|H]; rewrite Pi', Pa in H; [discriminate|cbn in H; lia]. }
  split; auto.
  (* the phase just before the return is still "failed" *)
  assert (Pk' : nget (cmds sk) c = Some CFailed).
  { assert (Hle : S i <= k) by lia.
    pose proof (state_between _ step _ _ _ _ _ _ Hle Hi3 Hk1) as Hm.
    destruct (run_phase _ _ _ c Hm) as [H|H]; [congruence|].
    rewrite Pi' in H. cbn in H. destruct (nget (cmds sk) c) as [[]|]; cbn in H; try lia. congruence. }
  split.
  { clear - Hk2 Pk'. step_inv Hk2; try congruence. inj_some. f_equal. now apply N.eqb_eq. }
  intros m e sm sm' Hm He Hby Hsm Hst.
  eapply quiet_routing; eauto.
  destruct (Nat.eq_dec m ia) as [->|Hne].
  { right. rewrite Ha in He. inversion He. cbn. eauto. }
  left.
  destruct (le_lt_dec m i) as [Hmi|Hmi].
  - (* between the creation and the end of the wait: still waiting *)
    assert (H1 : S ia <= m) by lia.
    pose proof (state_between _ step _ _ _ _ _ _ H1 Ha3 Hsm) as R1.
    pose proof (state_between _ step _ _ _ _ _ _ Hmi Hsm Hi1) as R2.
    destruct (run_phase _ _ _ c R1) as [G1|G1].
    + rewrite G1, Pa'. reflexivity.
    + destruct (run_phase _ _ _ c R2) as [G2|G2]; rewrite Pi in G2; rewrite Pa' in G1.
      * rewrite <- G2 in G1. cbn in G1. lia.
      * cbn in G1, G2. lia.
  - (* after the failed wait, before the return *)
    assert (H1 : S i <= m) by lia. assert (H2 : m <= k) by lia.
    pose proof (state_between _ step _ _ _ _ _ _ H1 Hi3 Hsm) as R1.
    pose proof (state_between _ step _ _ _ _ _ _ H2 Hsm Hk1) as R2.
    destruct (run_phase _ _ _ c R1) as [G1|G1].
    + rewrite G1, Pi'. reflexivity.
    + destruct (run_phase _ _ _ c R2) as [G2|G2]; rewrite Pk' in G2; rewrite Pi' in G1.
      * rewrite <- G2 in G1. cbn in G1. lia.
      * cbn in G1, G2. lia.
Qed.

