(** M5lbRestore.v — restored services (a proxy restart, [KRestored]) in the
    load-balancer acceptor model/M5lb.v: the lemmas behind props/C01restore.v and
    the full-strength form of props/C01.v's first theorem. *)
From KP Require Import model.Base model.Trace model.M5lb proofs.M5lbFacts proofs.M5lbHist proofs.M5lbC01 proofs.M5lbC09
  corr.C01corr corr.C09corr proofs.M5lbMon.
From Coq Require Import ZifyN ZifyNat ZifyBool.
Local Open Scope nat_scope.

(** [names act roll lb]: the KRestored event puts balancer [lb] into a slot *)
Definition names (act roll : option nat) (lb : nat) : Prop := act = Some lb \/ roll = Some lb.

Lemma names_in : forall n roll lb, names (Some n) roll lb -> In lb (n :: opt_list roll).
Proof.
  intros n roll lb [H|H].
  - inversion H. left. reflexivity.
  - subst roll. right. left. reflexivity.
Qed.

(** * Single steps *)

Lemma step_lbnew_flags : forall s tm a lb ts s',
  step s (mkEv tm a (KLbNew lb ts)) = Some s' ->
  exists b, nget (bals s') lb = Some b /\ b_ts b = ts /\ b_cmd b = is_cmd a /\ b_restored b = false /\ b_waited b = None.
Proof.
  intros s tm a lb ts s' H. step_inv H; proj_simp; rewrite nget_nset_same; eexists; (split; [reflexivity|]); auto.
Qed.

(** what an accepted KRestored event found and what it leaves, for a balancer it names *)
Lemma step_restored_named : forall s tm a sv act roll s' lb,
  step s (mkEv tm a (KRestored sv act roll)) = Some s' -> names act roll lb ->
  is_cmd a = false /\
  exists b b', nget (bals s) lb = Some b /\ b_cmd b = false /\ b_restored b = false /\ b_waited b = None /\
    (forall t, In t (b_ts b) -> is_presumed (tgts s) t = true) /\ b_rot b = b_ts b /\
    nget (bals s') lb = Some b' /\ b_restored b' = true /\ b_ts b' = b_ts b.
Proof.
  intros s tm a sv act roll s' lb H Hn.
  destruct (step_restored _ _ _ _ _ _ _ H) as [Ha [n [-> [Hall [Hbals _]]]]]. split; auto.
  apply names_in in Hn. rewrite forallb_forall in Hall.
  destruct (restorable_spec _ _ (Hall _ Hn)) as [b [Hb [Hc [Hr [_ [Hw [Hp Hrot]]]]]]].
  destruct (mark_fwd (n :: opt_list roll) _ _ _ Hb) as [b' [Hb' [[Hts _] [_ Hr']]]].
  exists b, b'. rewrite Hbals. repeat split; auto.
Qed.

(** * A balancer that exists was created before, by the KLbNew event that names it *)

Lemma created_before : forall tr s j sj lb b jn e ts,
  run step init tr = Some s -> run step init (firstn j tr) = Some sj -> nget (bals sj) lb = Some b ->
  nth_error tr jn = Some e -> e_k e = KLbNew lb ts ->
  jn < j /\ b_ts b = ts /\ b_cmd b = is_cmd (e_by e).
Proof.
  intros tr s j sj lb b jn [tm a k] ts Hrun Hj Hb Hn Hk. cbn in Hk. subst k. cbn [e_by].
  destruct (state_after _ _ _ _ Hrun Hn) as [sn [sn' [Hn1 [Hn2 Hn3]]]].
  destruct (le_lt_dec j jn) as [Hle|Hlt].
  - exfalso. pose proof (state_between _ step _ _ _ _ _ _ Hle Hj Hn1) as Hm.
    destruct (run_bal_stable _ _ _ _ _ Hm Hb) as [b1 [Hb1 _]].
    destruct (step_lbnew _ _ _ _ _ _ Hn2) as [Hnone _]. congruence.
  - split; auto. assert (Hle : S jn <= j) by lia.
    pose proof (state_between _ step _ _ _ _ _ _ Hle Hn3 Hj) as Hm.
    destruct (step_lbnew_flags _ _ _ _ _ _ Hn2) as [b0 [Hb0 [Hts [Hc _]]]].
    destruct (run_bal_stable _ _ _ _ _ Hm Hb0) as [b1 [Hb1 [Hts1 _]]].
    destruct (run_bal_flags_stable _ _ _ _ _ Hm Hb0) as [b2 [Hb2 [Hc2 _]]].
    rewrite Hb in Hb1, Hb2. inversion Hb1; subst b1. inversion Hb2; subst b2. split; congruence.
Qed.

(** * (a) Commands' balancers are never restored; restored balancers are never a deploy's *)

(** a balancer created by a command is named by no KRestored event, anywhere in the trace *)
Theorem cmd_balancer_never_restored : forall tr s jn tm c lb ts j sv act roll,
  run step init tr = Some s ->
  nth_error tr jn = Some (mkEv tm (ACmd c) (KLbNew lb ts)) ->
  at_ tr j (KRestored sv act roll) -> ~ names act roll lb.
Proof.
  intros tr s jn tm c lb ts j sv act roll Hrun Hn [[tm' a' k'] [Hj Hk]] Hnm. cbn in Hk. subst k'.
  destruct (run_split step _ _ _ _ _ Hrun Hj) as [sj [sj' [H1 [H2 _]]]].
  destruct (step_restored_named _ _ _ _ _ _ _ _ H2 Hnm) as [_ [b [b' [Hb [Hc _]]]]].
  destruct (created_before _ _ _ _ _ _ _ _ _ Hrun H1 Hb Hn eq_refl) as [_ [_ Hcm]].
  cbn in Hcm. congruence.
Qed.

(** everything about a balancer named by a KRestored event at index [j] *)
Theorem restored_balancer_facts : forall tr s j sv act roll lb jn ts,
  run step init tr = Some s -> at_ tr j (KRestored sv act roll) -> names act roll lb ->
  at_ tr jn (KLbNew lb ts) ->
  (* created before, by an actor that is not a command *)
  jn < j /\ (forall e, nth_error tr jn = Some e -> cmd_of (e_by e) = None) /\
  (* every target was presumed healthy by the restore before, and the rotation was all the targets *)
  (forall t, In t ts -> exists j', j' < j /\ at_ tr j' (KStateSet t TAdding THealthy)) /\
  last_rot (firstn j tr) lb = ts /\
  (* never the subject of a deploy's wait, never given a slot by a deploy, restored only once *)
  (forall i v, ~ at_ tr i (KDeployWaited lb v)) /\
  (forall i sv' sl rep, ~ at_ tr i (KSlot sv' sl lb rep)) /\
  (forall j' sv' act' roll', at_ tr j' (KRestored sv' act' roll') -> names act' roll' lb -> j' = j).
Proof.
  intros tr s j sv act roll lb jn ts Hrun [[tm a k] [Hj Hk]] Hnm [en [Hn Hkn]]. cbn in Hk. subst k.
  destruct (state_after _ _ _ _ Hrun Hj) as [sj [sj' [H1 [H2 H3]]]].
  destruct (step_restored_named _ _ _ _ _ _ _ _ H2 Hnm) as [Ha [b [b' [Hb [Hc [Hr [Hw [Hp [Hrot [Hb' [Hr' Hts']]]]]]]]]]].
  destruct (created_before _ _ _ _ _ _ _ _ _ Hrun H1 Hb Hn Hkn) as [Hlt [Hts Hcm]].
  pose proof (inv_run _ _ H1) as HI. pose proof (hinv_run _ _ H1) as HH.
  split; auto. split; [|split; [|split; [|split; [|split]]]].
  - intros e He. rewrite Hn in He. inversion He; subst e. rewrite Hc in Hcm.
    destruct (e_by en); try reflexivity. discriminate.
  - intros t Hin. rewrite <- Hts in Hin.
    destruct (is_presumed_true _ _ (Hp _ Hin)) as [x [Hx Hpx]].
    apply has_firstn_at. eapply (h_presumed _ _ HH); eauto.
  - rewrite <- (r_rot _ _ (rinv_run _ _ H1) _ _ Hb). congruence.
  - (* KDeployWaited *)
    intros i v [[tm' a' k'] [Hi Hk']]. cbn in Hk'. subst k'.
    destruct (state_after _ _ _ _ Hrun Hi) as [si [si' [G1 [G2 G3]]]].
    destruct (lt_eq_lt_dec i j) as [[Hij|Hij]|Hij].
    + destruct (step_waited _ _ _ _ _ _ G2) as [_ [b1 [_ [_ [Hb1 [Hw1 _]]]]]].
      assert (Hle : S i <= j) by lia.
      pose proof (state_between _ step _ _ _ _ _ _ Hle G3 H1) as Hm.
      destruct (run_bal_stable _ _ _ _ _ Hm Hb1) as [b2 [Hb2 [_ [_ Hw2]]]].
      rewrite Hb in Hb2. inversion Hb2; subst b2. rewrite (Hw2 _ Hw1) in Hw. discriminate.
    + subst i. rewrite Hj in Hi. discriminate.
    + assert (Hle : S j <= i) by lia.
      pose proof (state_between _ step _ _ _ _ _ _ Hle H3 G1) as Hm.
      destruct (run_bal_flags_stable _ _ _ _ _ Hm Hb') as [b2 [Hb2 [_ Hr2]]].
      destruct (step_waited_cmd _ _ _ _ _ _ (inv_run _ _ G1) G2) as [b3 [Hb3 [_ Hr3]]].
      rewrite Hb2 in Hb3. inversion Hb3; subst b3. rewrite (Hr2 Hr') in Hr3. discriminate.
  - (* KSlot *)
    intros i sv' sl rep [[tm' a' k'] [Hi Hk']]. cbn in Hk'. subst k'.
    destruct (state_after _ _ _ _ Hrun Hi) as [si [si' [G1 [G2 G3]]]].
    destruct (step_slot _ _ _ _ _ _ _ _ G2) as [b1 [Hb1 Hw1]].
    destruct (lt_eq_lt_dec i j) as [[Hij|Hij]|Hij].
    + assert (Hle : i <= j) by lia.
      pose proof (state_between _ step _ _ _ _ _ _ Hle G1 H1) as Hm.
      destruct (run_bal_stable _ _ _ _ _ Hm Hb1) as [b2 [Hb2 [_ [_ Hw2]]]].
      rewrite Hb in Hb2. inversion Hb2; subst b2. rewrite (Hw2 _ Hw1) in Hw. discriminate.
    + subst i. rewrite Hj in Hi. discriminate.
    + assert (Hle : S j <= i) by lia.
      pose proof (state_between _ step _ _ _ _ _ _ Hle H3 G1) as Hm.
      destruct (run_bal_flags_stable _ _ _ _ _ Hm Hb') as [b2 [Hb2 [_ Hr2]]].
      rewrite Hb1 in Hb2. inversion Hb2; subst b2.
      destruct (i_rest _ (inv_run _ _ G1) _ _ Hb1 (Hr2 Hr')) as [_ Hnone]. congruence.
  - (* restored once *)
    intros j' sv' act' roll' [[tm' a' k'] [Hj' Hk']] Hnm'. cbn in Hk'. subst k'.
    destruct (state_after _ _ _ _ Hrun Hj') as [si [si' [G1 [G2 G3]]]].
    destruct (step_restored_named _ _ _ _ _ _ _ _ G2 Hnm') as [_ [c1 [c1' [Hc1 [_ [Hcr [_ [_ [_ [Hc1' [Hcr' _]]]]]]]]]]].
    destruct (lt_eq_lt_dec j' j) as [[Hij|Hij]|Hij]; auto; exfalso.
    + assert (Hle : S j' <= j) by lia.
      pose proof (state_between _ step _ _ _ _ _ _ Hle G3 H1) as Hm.
      destruct (run_bal_flags_stable _ _ _ _ _ Hm Hc1') as [b2 [Hb2 [_ Hr2]]].
      rewrite Hb in Hb2. inversion Hb2; subst b2. rewrite (Hr2 Hcr') in Hr. discriminate.
    + assert (Hle : S j <= j') by lia.
      pose proof (state_between _ step _ _ _ _ _ _ Hle H3 G1) as Hm.
      destruct (run_bal_flags_stable _ _ _ _ _ Hm Hb') as [b2 [Hb2 [_ Hr2]]].
      rewrite Hc1 in Hb2. inversion Hb2; subst b2. rewrite (Hr2 Hr') in Hcr. discriminate.
Qed.

(** * The first theorem of C01 at full strength *)

(** A request is forwarded to a target of balancer [lb] only if EITHER every target of [lb] had a
    successful probe result and the deploy's wait on [lb] succeeded, all before the claim, OR [lb]
    was put into service by an earlier KRestored event — and then [lb] was created by an actor
    that is not a command, every one of its targets was presumed healthy by the restore before
    that event, and no deploy ever waited on it or gave it a slot. *)
Theorem forward_after_all_probes_or_restored : forall tr s i t r jn lb ts,
  run step init tr = Some s -> at_ tr i (KClaim t r) -> at_ tr jn (KLbNew lb ts) -> In t ts ->
  jn < i /\
  (((forall t', In t' ts -> exists j prev new, j < i /\ at_ tr j (KProbeApply t' true prev new)) /\
    (exists j, j < i /\ at_ tr j (KDeployWaited lb true)))
   \/
   (exists j sv act roll, jn < j /\ j < i /\ at_ tr j (KRestored sv act roll) /\ names act roll lb /\
      (forall e, nth_error tr jn = Some e -> cmd_of (e_by e) = None) /\
      (forall t', In t' ts -> exists j', j' < j /\ at_ tr j' (KStateSet t' TAdding THealthy)) /\
      last_rot (firstn j tr) lb = ts /\
      (forall k v, ~ at_ tr k (KDeployWaited lb v)) /\
      (forall k sv' sl rep, ~ at_ tr k (KSlot sv' sl lb rep)))).
Proof.
  intros tr s i t r jn lb ts Hrun Hc Hn Hin.
  destruct (forward_after_all_probes _ _ _ _ _ _ _ _ Hrun Hc Hn Hin) as [Hlt [Hd|[[j [sv [act [roll [Hji [Hj Hnm]]]]]] _]]].
  - split; auto.
  - split; auto. right.
    destruct (restored_balancer_facts _ _ _ _ _ _ _ _ _ Hrun Hj Hnm Hn) as [F1 [F2 [F3 [F4 [F5 [F6 _]]]]]].
    exists j, sv, act, roll. repeat split; auto.
Qed.

(** for a balancer created by a command the original statement holds unchanged *)
Theorem forward_after_all_probes_deploy : forall tr s i t r jn tm c lb ts,
  run step init tr = Some s -> at_ tr i (KClaim t r) ->
  nth_error tr jn = Some (mkEv tm (ACmd c) (KLbNew lb ts)) -> In t ts ->
  jn < i /\
  (forall t', In t' ts -> exists j prev new, j < i /\ at_ tr j (KProbeApply t' true prev new)) /\
  (exists j, j < i /\ at_ tr j (KDeployWaited lb true)).
Proof.
  intros tr s i t r jn tm c lb ts Hrun Hc Hn Hin.
  assert (Hn' : at_ tr jn (KLbNew lb ts)) by (eexists; split; [exact Hn|reflexivity]).
  destruct (forward_after_all_probes _ _ _ _ _ _ _ _ Hrun Hc Hn' Hin) as [Hlt [[Hd1 Hd2]|[[j [sv [act [roll [_ [Hj Hnm]]]]]] _]]].
  - auto.
  - exfalso. exact (cmd_balancer_never_restored _ _ _ _ _ _ _ _ _ _ _ Hrun Hn Hj Hnm).
Qed.

(** * (b) Claims on a restored balancer come from its rotation, after the restore *)

(** while a balancer is neither waited-for successfully nor restored, no request is picked for it *)
Lemma lbclaim_ready : forall s tm a lb c r s', Inv s ->
  step s (mkEv tm a (KLbClaim lb c r)) = Some s' -> lb_ready s lb.
Proof.
  intros s tm a lb c r s' HI H.
  assert (Hp : nget (picked s) r = Some lb).
  { step_inv H; match goal with Hq : (_ =? _) = true |- _ => apply Nat.eqb_eq in Hq; subst end; reflexivity. }
  exact (i_pick _ HI _ _ Hp).
Qed.

(** Every request handed to a target [t] of a restored balancer [lb] was given that target by a
    round-robin pick of [lb] made AFTER the KRestored event, and [t] was in the rotation of [lb]
    as last rebuilt before that pick. *)
Theorem restored_claims_in_rotation : forall tr s i t r jn lb ts jr sv act roll,
  run step init tr = Some s -> at_ tr i (KClaim t r) -> at_ tr jn (KLbNew lb ts) -> In t ts ->
  at_ tr jr (KRestored sv act roll) -> names act roll lb ->
  exists j, jr < j /\ j < i /\ at_ tr j (KLbClaim lb (Some t) r) /\ In t (last_rot (firstn j tr) lb).
Proof.
  intros tr s i t r jn lb ts jr sv act roll Hrun Hc Hn Hin Hr Hnm.
  destruct (claims_in_rotation _ _ _ _ _ Hrun Hc) as [j [lb' [Hji [Hj Hrot]]]].
  (* the balancer of the pick is the balancer of the target *)
  destruct Hj as [[tm a k] [Hj Hk]]. cbn in Hk. subst k.
  destruct (state_after _ _ _ _ Hrun Hj) as [sj [sj' [G1 [G2 G3]]]].
  pose proof (inv_run _ _ G1) as HI.
  destruct (step_lbclaim_some _ _ _ _ _ _ _ G2) as [b [Hb [Hinr _]]].
  pose proof (i_rot _ HI _ _ _ Hb Hinr) as Hint.
  destruct (i_ts _ HI _ _ _ Hb Hint) as [x [Hx Hl]].
  destruct (i_tlb _ HI _ _ Hx) as [b1 [Hb1 Hin1]]. rewrite Hl in Hb1.
  assert (Elb : lb' = lb).
  { destruct Hn as [en [Hn Hkn]].
    (* the target's creating event: t belongs to exactly one balancer *)
    destruct (le_lt_dec j jn) as [Hle|Hlt].
    - exfalso. destruct (state_after _ _ _ _ Hrun Hn) as [sn [sn' [N1 [N2 _]]]]. destruct en as [tmn an kn]. cbn in Hkn. subst kn.
      pose proof (state_between _ step _ _ _ _ _ _ Hle G1 N1) as Hm.
      destruct (run_tgt_stable _ _ _ _ _ Hm Hx) as [x2 [Hx2 _]].
      destruct (step_lbnew _ _ _ _ _ _ N2) as [_ [Hfr _]]. rewrite (Hfr _ Hin) in Hx2. discriminate.
    - destruct (state_after _ _ _ _ Hrun Hn) as [sn [sn' [N1 [N2 N3]]]]. destruct en as [tmn an kn]. cbn in Hkn. subst kn.
      assert (Hle : S jn <= j) by lia.
      pose proof (state_between _ step _ _ _ _ _ _ Hle N3 G1) as Hm.
      destruct (step_lbnew _ _ _ _ _ _ N2) as [_ [_ [b0 [Hb0 [Hts0 _]]]]].
      pose proof (inv_run _ _ N3) as HIn. rewrite <- Hts0 in Hin.
      destruct (i_ts _ HIn _ _ _ Hb0 Hin) as [x0 [Hx0 Hl0]].
      destruct (run_tgt_stable _ _ _ _ _ Hm Hx0) as [x2 [Hx2 [Hl2 _]]].
      rewrite Hx in Hx2. inversion Hx2; subst x2. congruence. }
  rewrite Elb in *. clear Elb. exists j. split; [|split; [exact Hji|split; [exists (mkEv tm a (KLbClaim lb (Some t) r)); auto|exact Hrot]]].
  (* the pick came after the restore: before it the balancer was not ready *)
  destruct Hr as [[tmr ar kr] [Hjr Hkr]]. cbn in Hkr. subst kr.
  destruct (state_after _ _ _ _ Hrun Hjr) as [sr [sr' [R1 [R2 R3]]]].
  destruct (step_restored_named _ _ _ _ _ _ _ _ R2 Hnm) as [_ [c0 [c0' [Hc0 [_ [Hcr [Hcw _]]]]]]].
  destruct (lt_eq_lt_dec j jr) as [[Hlt|Heq]|Hgt]; auto; exfalso.
  - destruct (lbclaim_ready _ _ _ _ _ _ _ HI G2) as [b2 [Hb2 Hrdy]].
    assert (Hle : j <= jr) by lia.
    pose proof (state_between _ step _ _ _ _ _ _ Hle G1 R1) as Hm.
    destruct (run_bal_stable _ _ _ _ _ Hm Hb2) as [b3 [Hb3 [_ [_ Hw3]]]].
    destruct (run_bal_flags_stable _ _ _ _ _ Hm Hb2) as [b4 [Hb4 [_ Hr4]]].
    rewrite Hc0 in Hb3, Hb4. inversion Hb3; subst b3. inversion Hb4; subst b4.
    destruct Hrdy as [Hw|Hrs]; [rewrite (Hw3 _ Hw) in Hcw|rewrite (Hr4 Hrs) in Hcr]; discriminate.
  - subst j. rewrite Hjr in Hj. discriminate.
Qed.

(** the rotation a restored balancer starts with is all its targets, and every later rotation is the
    set of its targets that are healthy at the rebuild (C09's [c09_rotation_is_healthy_set], which
    does not distinguish restored balancers); a target presumed healthy stays in it until a failing
    probe result or a drain takes it out of "healthy" *)
Theorem restored_presumed_stays_healthy : forall seg s s' t x,
  run step s seg = Some s' -> nget (tgts s) t = Some x -> t_st x = THealthy ->
  existsb (mk_unhealthy t) seg = false ->
  exists x', nget (tgts s') t = Some x' /\ t_st x' = THealthy.
Proof. exact run_stays_healthy. Qed.
