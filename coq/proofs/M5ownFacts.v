(** M5ownFacts.v — proofs about model/M5own.v (C05, concurrent form). *)
From KP Require Import model.Base model.ServiceMap model.Seq model.M5own proofs.ServiceMapFacts.
From Coq Require Import Lia.

(** ** one region *)

Lemma ostep_install t n hs ps ok t' :
  ostep t (OInstall n hs ps ok) = Some t' ->
  ok = negb (conflicts t n hs ps) /\ t' = (if ok then tbl_set t (mkBI n hs ps) else t).
Proof.
  cbn. destruct (Bool.eqb ok (negb (conflicts t n hs ps))) eqn:E; [|discriminate].
  intros H; injection H as <-. apply Bool.eqb_prop in E. auto.
Qed.

Lemma ostep_owned t e t' : owned_once t -> ostep t e = Some t' -> owned_once t'.
Proof.
  intros Ho H. destruct e as [n hs ps ok|n].
  - apply ostep_install in H as [Hok ->]. destruct ok; [|exact Ho].
    symmetry in Hok. apply Bool.negb_true_iff in Hok. rewrite conflicts_false_iff in Hok.
    intros h p n1 n2 B1 B2. apply binds_tbl_set in B1, B2. cbn [bi_name bi_hosts bi_prefixes] in B1, B2.
    destruct B1 as [(-> & Hh1 & Hp1)|[N1 B1]], B2 as [(-> & Hh2 & Hp2)|[N2 B2]].
    + reflexivity.
    + symmetry. eauto.
    + eauto.
    + eauto.
  - cbn in H. injection H as <-. intros h p n1 n2 B1 B2.
    apply binds_tbl_remove in B1 as [B1 _], B2 as [B2 _]. eauto.
Qed.

Lemma owned_once_nil : owned_once [].
Proof. intros h p n1 n2 (s & [] & _). Qed.

Lemma orun_owned_from l : forall t t', owned_once t -> orun t l = Some t' -> owned_once t'.
Proof.
  induction l as [|e l IH]; cbn; intros t t' Ho H.
  - injection H as <-. exact Ho.
  - destruct (ostep t e) as [t1|] eqn:E; [|discriminate]. eapply IH; [|exact H]. eapply ostep_owned; eauto.
Qed.

Lemma orun_app l1 : forall l2 t t', orun t (l1 ++ l2) = Some t' ->
  exists t1, orun t l1 = Some t1 /\ orun t1 l2 = Some t'.
Proof.
  induction l1 as [|e l1 IH]; cbn; intros l2 t t' H.
  - eauto.
  - destruct (ostep t e) as [t1|]; [|discriminate]. eauto.
Qed.

Lemma orun_app_intro l1 : forall l2 t t1 t', orun t l1 = Some t1 -> orun t1 l2 = Some t' -> orun t (l1 ++ l2) = Some t'.
Proof.
  induction l1 as [|e l1 IH]; cbn; intros l2 t t1 t' H1 H2.
  - injection H1 as ->. exact H2.
  - destruct (ostep t e) as [tx|]; [|discriminate]. eauto.
Qed.

(** every state the table goes through has each pair owned once *)
Lemma owned_always pre post t :
  orun [] (pre ++ post) = Some t ->
  exists t1, orun [] pre = Some t1 /\ pair_owned_once t1 = true.
Proof.
  intros H. apply orun_app in H as (t1 & H1 & _). exists t1. split; [exact H1|].
  apply pair_owned_once_iff. eapply orun_owned_from; [apply owned_once_nil|exact H1].
Qed.

(** a conflicting attempt fails and changes nothing; a conflict-free one succeeds and owns its pairs *)
Lemma conflict_rejected t n hs ps ok t' h p n' :
  ostep t (OInstall n hs ps ok) = Some t' ->
  In h hs -> In p ps -> binds t h p n' -> n' <> n -> ok = false /\ t' = t.
Proof.
  intros H Hh Hp B Hne. apply ostep_install in H as [Hok Ht].
  assert (C : conflicts t n hs ps = true) by (apply conflicts_iff; exists h, p, n'; auto).
  rewrite C in Hok. cbn in Hok. subst ok. auto.
Qed.

Lemma free_accepted t n hs ps ok t' :
  ostep t (OInstall n hs ps ok) = Some t' ->
  (forall h p n', In h hs -> In p ps -> binds t h p n' -> n' = n) ->
  ok = true /\ t' = tbl_set t (mkBI n hs ps) /\
  (forall h p, In h hs -> In p ps -> binds t' h p n).
Proof.
  intros H Hf. apply ostep_install in H as [Hok Ht].
  apply conflicts_false_iff in Hf. rewrite Hf in Hok. cbn in Hok. subst ok. split; [reflexivity|].
  split; [exact Ht|]. intros h p Hh Hp. subst t'. apply binds_tbl_set. left. cbn. auto.
Qed.

Lemma win_owns t n hs ps t' h p :
  ostep t (OInstall n hs ps true) = Some t' -> In h hs -> In p ps -> binds t' h p n.
Proof.
  intros H Hh Hp. apply ostep_install in H as [_ ->]. apply binds_tbl_set. left. cbn. auto.
Qed.

(** ** ownership persists until released *)

Lemma binds_kept t e t' n h p :
  ostep t e = Some t' -> binds t h p n -> releases e n h p = false -> binds t' h p n.
Proof.
  intros H B R. destruct e as [n' hs ps ok|n'].
  - apply ostep_install in H as [_ ->]. destruct ok; [|exact B].
    apply binds_tbl_set. cbn [bi_name bi_hosts bi_prefixes].
    cbn in R. destruct (str_eqb n' n) eqn:E.
    + apply str_eqb_eq in E. subst n'. cbn in R. apply Bool.negb_false_iff in R.
      apply andb_true_iff in R as [R1 R2]. apply mem_str_In in R1, R2. left. auto.
    + apply str_eqb_neq in E. right. split; [congruence|exact B].
  - cbn in H. injection H as <-. cbn in R. apply str_eqb_neq in R.
    apply binds_tbl_remove. split; [exact B|congruence].
Qed.

Lemma binds_kept_run mid : forall t t' n h p,
  orun t mid = Some t' -> binds t h p n ->
  (forall e, In e mid -> releases e n h p = false) -> binds t' h p n.
Proof.
  induction mid as [|e mid IH]; cbn; intros t t' n h p H B R.
  - injection H as <-. exact B.
  - destruct (ostep t e) as [t1|] eqn:E; [|discriminate].
    eapply IH; [exact H| |intros e' He'; apply R; auto].
    eapply binds_kept; eauto.
Qed.

Lemma orun_single t e : orun t [e] = ostep t e.
Proof. cbn [orun]. destruct (ostep t e); reflexivity. Qed.

(** Two successful installs of DIFFERENT services that both claim the pair (h, p):
    in between, the first owner released it (was removed, or was redeployed without it). *)
Lemma two_winners_release t0 n1 hs1 ps1 mid n2 hs2 ps2 t h p :
  orun t0 (OInstall n1 hs1 ps1 true :: mid ++ [OInstall n2 hs2 ps2 true]) = Some t ->
  n1 <> n2 -> In h hs1 -> In p ps1 -> In h hs2 -> In p ps2 ->
  exists e, In e mid /\ releases e n1 h p = true.
Proof.
  intros H Hne Hh1 Hp1 Hh2 Hp2.
  change (OInstall n1 hs1 ps1 true :: mid ++ [OInstall n2 hs2 ps2 true])
    with ([OInstall n1 hs1 ps1 true] ++ mid ++ [OInstall n2 hs2 ps2 true]) in H.
  apply orun_app in H as (t1 & H1 & H). apply orun_app in H as (t2 & H2 & H3).
  rewrite orun_single in H1, H3. rename H1 into E1. rename H3 into E2.
  destruct (existsb (fun e => releases e n1 h p) mid) eqn:Ex.
  - apply existsb_exists in Ex as (e & He & Hr). eauto.
  - exfalso.
    assert (B : binds t2 h p n1).
    { eapply binds_kept_run; [exact H2|eapply win_owns; eauto|].
      intros e He. destruct (releases e n1 h p) eqn:Er; [|reflexivity].
      assert (existsb (fun e => releases e n1 h p) mid = true) by (apply existsb_exists; eauto). congruence. }
    destruct (conflict_rejected _ _ _ _ _ _ h p n1 E2 Hh2 Hp2 B Hne) as [F _]. discriminate.
Qed.

(** ** racing deploys *)

(** a list of install attempts for the same options by services other than the owner [n0]:
    all fail, nothing changes *)
Lemma losers_all_fail racers : forall t t' n0 hs ps h p,
  orun t racers = Some t' ->
  In h hs -> In p ps -> binds t h p n0 ->
  Forall (fun e => exists n ok, e = OInstall n hs ps ok /\ n <> n0) racers ->
  t' = t /\ Forall (fun e => is_win e = false) racers.
Proof.
  induction racers as [|e racers IH]; cbn; intros t t' n0 hs ps h p H Hh Hp B F.
  - injection H as <-. auto.
  - inversion F as [|? ? (n & ok & -> & Hne) F']; subst.
    destruct (ostep t (OInstall n hs ps ok)) as [t1|] eqn:E; [|discriminate].
    assert (Hne' : n0 <> n) by congruence.
    destruct (conflict_rejected _ _ _ _ _ _ h p n0 E Hh Hp B Hne') as [-> ->].
    destruct (IH _ _ _ _ _ _ _ H Hh Hp B F') as [-> Hall]. split; [reflexivity|].
    constructor; [reflexivity|exact Hall].
Qed.

(** Several deploys of pairwise different services race for the same (non-empty) set of
    hosts and prefixes, none of which is bound when the first of them takes the lock:
    exactly one succeeds — the one that takes the lock first — and the others fail. *)
Lemma race_one_winner t n hs ps ok rest t' :
  orun t (OInstall n hs ps ok :: rest) = Some t' ->
  hs <> [] -> ps <> [] ->
  (forall h p n', In h hs -> In p ps -> ~ binds t h p n') ->
  Forall (fun e => exists n' ok', e = OInstall n' hs ps ok' /\ n' <> n) rest ->
  ok = true /\ Forall (fun e => is_win e = false) rest /\
  t' = tbl_set t (mkBI n hs ps) /\
  length (filter is_win (OInstall n hs ps ok :: rest)) = 1.
Proof.
  intros H Hhs Hps Hfree F.
  cbn [orun] in H. destruct (ostep t (OInstall n hs ps ok)) as [t1|] eqn:E; [|discriminate].
  destruct (free_accepted _ _ _ _ _ _ E) as (-> & -> & Hown).
  { intros h p n' Hh Hp B. exfalso. eapply Hfree; eauto. }
  destruct hs as [|h hs']; [congruence|]. destruct ps as [|p ps']; [congruence|].
  assert (B : binds (tbl_set t (mkBI n (h :: hs') (p :: ps'))) h p n) by (apply Hown; left; reflexivity).
  destruct (losers_all_fail _ _ _ _ _ _ h p H (in_eq _ _) (in_eq _ _) B F) as [-> Hall].
  repeat split; auto.
  cbn [filter is_win]. cbn [length]. f_equal.
  clear -Hall. induction rest as [|e rest IH]; [reflexivity|].
  inversion Hall as [|? ? He Hr]; subst. cbn. rewrite He. auto.
Qed.

(** ** the monitor follows from acceptance *)

Lemma replay_is_step t e t' : ostep t e = Some t' -> replay_step t e = t'.
Proof.
  destruct e as [n hs ps ok|n]; intros H.
  - apply ostep_install in H as [_ ->]. destruct ok; reflexivity.
  - cbn in H. injection H as <-. reflexivity.
Qed.

Lemma accepted_ok_from l : forall t t', owned_once t -> orun t l = Some t' -> c05c_ok_from t l = true.
Proof.
  induction l as [|e l IH]; cbn; intros t t' Ho H; [reflexivity|].
  destruct (ostep t e) as [t1|] eqn:E; [|discriminate].
  rewrite (replay_is_step _ _ _ E). apply andb_true_iff. split.
  - apply pair_owned_once_iff. eapply ostep_owned; eauto.
  - eapply IH; [|exact H]. eapply ostep_owned; eauto.
Qed.

Lemma accepted_ok l : oaccepted l = true -> c05c_ok l = true.
Proof.
  unfold oaccepted, c05c_ok. destruct (orun [] l) as [t|] eqn:E; [|discriminate]. intros _.
  eapply accepted_ok_from; [apply owned_once_nil|exact E].
Qed.
