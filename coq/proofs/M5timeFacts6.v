(** M5timeFacts6.v — the disposal invariant: what a command has stopped before it may return. *)
From Coq Require Import ZifyN ZifyNat ZifyBool.
From KP Require Import model.Base model.Trace model.M5time proofs.M5timeFacts proofs.M5timeFacts2 proofs.M5timeFacts3 proofs.M5timeFacts4 proofs.M5timeFacts5.
Local Open Scope N_scope.

Definition lbs_ok (s : state) : Prop :=
  forall lb l, nget (lbs s) lb = Some l -> forall t, In t (l_targets l) -> known s t.

Lemma lbs_ok_init : lbs_ok init.
Proof. intros lb l H; discriminate. Qed.

Lemma lbs_ok_ext s s' : lbs_ok s -> ext s s' -> lbs_ok s'.
Proof.
  intros Hok (E1 & E2 & E3) lb l' H t Ht.
  destruct (E3 _ _ H) as [(l & Hl & T)|K]; [|exact (K _ Ht)].
  rewrite T in Ht. exact (proj1 (E1 _ (Hok _ _ Hl _ Ht))).
Qed.

Lemma quiet_mono s s' lb : lbs_ok s -> ext s s' -> has_lb s lb -> lb_quiet s lb = true -> lb_quiet s' lb = true.
Proof.
  intros Hok (E1 & E2 & E3) Hlb Hq. unfold has_lb in Hlb. unfold lb_quiet in *.
  destruct (nget (lbs s) lb) as [l|] eqn:Hl; [|contradiction].
  destruct (E2 _ _ Hl) as (l' & Hl' & T & _). rewrite Hl', T.
  rewrite forallb_forall in Hq |- *. intros t Ht. specialize (Hq _ Ht).
  destruct (tgt_probing s' t) eqn:P; [|reflexivity].
  rewrite (proj2 (E1 _ (Hok _ _ Hl _ Ht)) P) in Hq. discriminate.
Qed.

Lemma has_lb_ext s s' lb : ext s s' -> has_lb s lb -> has_lb s' lb.
Proof.
  intros (_ & E2 & _) H. unfold has_lb in *. destruct (nget (lbs s) lb) as [l|] eqn:Hl; [|contradiction].
  destruct (E2 _ _ Hl) as (l' & Hl' & _). rewrite Hl'. discriminate.
Qed.

(** ** Disposal invariant *)

Definition disposed_or (s : state) (cm : cmd) (lb : nat) : Prop := c_disp cm = Some lb \/ lb_quiet s lb = true.

Definition cinv (s : state) (cm : cmd) : Prop :=
  (forall lb, c_new cm = Some lb -> has_lb s lb) /\
  (forall old, c_repl cm = Some (Some old) -> has_lb s old) /\
  match c_phase cm with
  | PNew | PStart => c_new cm = None /\ c_repl cm = None
  | PGate | PAfter => c_repl cm = None
  | PLb lb | PWait lb _ | PFailing lb | PWaited lb | PConflict lb => c_new cm = Some lb
  | PSlot lb rep => c_new cm = Some lb /\ c_repl cm = Some rep
  | PFailed | PConflictDone => exists lb, c_new cm = Some lb /\ disposed_or s cm lb
  | PInstalled rep => c_repl cm = Some rep
  | PDone => exists old, c_repl cm = Some (Some old) /\ disposed_or s cm old
  | _ => True
  end.

Lemma cinv_ext s s' cm : lbs_ok s -> ext s s' -> cinv s cm -> cinv s' cm.
Proof.
  intros Hok He (H1 & H2 & H3). split; [|split].
  - intros lb H; exact (has_lb_ext _ _ _ He (H1 _ H)).
  - intros lb H; exact (has_lb_ext _ _ _ He (H2 _ H)).
  - destruct (c_phase cm); try exact H3.
    + destruct H3 as (lb & Hn & [D|Q]); exists lb; split; [exact Hn|left; exact D|exact Hn|right].
      exact (quiet_mono _ _ _ Hok He (H1 _ Hn) Q).
    + destruct H3 as (lb & Hn & [D|Q]); exists lb; split; [exact Hn|left; exact D|exact Hn|right].
      exact (quiet_mono _ _ _ Hok He (H1 _ Hn) Q).
    + destruct H3 as (lb & Hn & [D|Q]); exists lb; split; [exact Hn|left; exact D|exact Hn|right].
      exact (quiet_mono _ _ _ Hok He (H2 _ Hn) Q).
Qed.

Definition dinv (s : state) : Prop := lbs_ok s /\ all (cinv s) (cmds s).

Lemma dinv_init : dinv init.
Proof. split; [apply lbs_ok_init|apply all_nil]. Qed.

Lemma cinv_state s s' cm : tgts s' = tgts s -> lbs s' = lbs s -> cinv s cm -> cinv s' cm.
Proof.
  intros Ht Hl. unfold cinv, disposed_or, has_lb, lb_quiet, tgt_probing. rewrite Ht, Hl. auto.
Qed.

Lemma new_lb_has st lb ts o st1 : new_lb st lb ts o = Some st1 -> has_lb st1 lb.
Proof.
  unfold new_lb. destruct (nget (lbs st) lb); [discriminate|]. destruct (existsb _ ts); [discriminate|].
  intros H; injection H as <-. unfold has_lb. cbn [lbs upd_lbs]. rewrite nget_nset_same. discriminate.
Qed.

Lemma disp_quiet st cm lb : disp_ok st cm = true -> disposed_or st cm lb -> lb_quiet st lb = true.
Proof. unfold disp_ok, disposed_or. intros H [D|Q]; [rewrite D in H; exact H|exact Q]. Qed.

Ltac cinv_goal Hci Hph Hdisp :=
  unfold cinv in Hci |- *; rewrite Hph in Hci; destruct Hci as (Hc1 & Hc2 & Hc3);
  cbn [stepped set_pending set_disp set_new set_repl set_last set_alt c_phase c_new c_repl c_disp] in *;
  repeat match goal with
         | H : _ && _ = true |- _ => apply andb_prop in H; destruct H
         | H : (_ =? _)%nat = true |- _ => apply Nat.eqb_eq in H; subst
         | H : exists _, _ |- _ => destruct H
         | H : _ /\ _ |- _ => destruct H
         end;
  repeat match goal with
         | |- context [if ?b then _ else _] => destruct b
         end;
  cbn [c_phase];
  repeat split; try assumption; try congruence; try discriminate;
  try (eexists; split; [eassumption|]; unfold disposed_or; cbn [c_disp];
       first [left; reflexivity | right; eapply disp_quiet; eassumption]).

Lemma own_step_cinv p st c cm e s' :
  lbs_ok st -> cinv st cm -> own_step p st c cm e = Some s' ->
  cmds s' = cmds st \/ exists cm', cmds s' = nset (cmds st) c cm' /\ cinv s' cm'.
Proof.
  intros Hok Hci. unfold own_step.
  destruct (own_time_ok st cm (e_t e)); cbn [negb]; [|discriminate].
  destruct (e_k e) eqn:Hk.
  all: try (inv_some; left; frame3).
  all: destruct (disp_ok st cm) eqn:Hdisp; cbn [negb]; [|discriminate].
  all: destruct (tc_ok st cm _ (e_t e)); cbn [negb]; [|discriminate].
  all: destruct (is_gate (c_phase cm) && negb (cont_ok st c cm)); [discriminate|].
  all: cbv zeta.
  all: destruct (c_phase cm) eqn:Hph; cbn [is_gate].
  all: repeat match goal with
              | |- (match ?x with _ => _ end) = Some _ -> _ => destruct x eqn:?
              | |- (if ?x then _ else _) = Some _ -> _ => destruct x eqn:?
              end.
  all: try (inv_some; fail).
  all: inv_some.
  all: right; eexists; split;
       [unfold put; cbn [cmds upd_cmds upd_svcs];
        rewrite ?(proj1 (mark_disposed_frame _ _));
        try match goal with H : new_lb _ _ _ _ = Some _ |- _ => rewrite (proj1 (new_lb_frame _ _ _ _ _ H)) end;
        reflexivity|].
  all: unfold put; match goal with |- cinv (upd_cmds ?X _) _ => apply (cinv_state X); [reflexivity|reflexivity|] end.
  all: try (cinv_goal Hci Hph Hdisp; fail).
  1: { (* KSlot *)
    apply (cinv_state st); [reflexivity|reflexivity|].
    unfold cinv in Hci |- *; rewrite Hph in Hci; destruct Hci as (Hc1 & Hc2 & Hc3).
    apply andb_prop in Heqb; destruct Heqb as [Hb Hex]. apply andb_prop in Hb; destruct Hb as [Hb Hr].
    apply Nat.eqb_eq in Hb; subst lb0. cbn. repeat split; try assumption.
    intros old Ho. injection Ho as ->. unfold has_lb. destruct (nget (lbs st) old); [discriminate|discriminate]. }
  1: { (* KLbNew *)
    assert (Hci' : cinv s cm) by (eapply cinv_ext; [exact Hok|eapply new_lb_ext; eassumption|exact Hci]).
    pose proof (new_lb_has _ _ _ _ _ Heqo) as Hhas.
    unfold cinv in Hci' |- *; rewrite Hph in Hci'; destruct Hci' as (Hc1 & Hc2 & Hc3).
    cbn. repeat split; try assumption. intros lb0 H0; injection H0 as <-; exact Hhas. }
  all: assert (Hci' : cinv (mark_disposed st lb) cm) by (eapply cinv_ext; [exact Hok|apply ext_mark_disposed|exact Hci]);
       cinv_goal Hci' Hph Hdisp.
Qed.

Lemma dinv_same st s' : dinv st -> ext st s' -> cmds s' = cmds st -> dinv s'.
Proof.
  intros [Hok Hall] He Hc. split; [exact (lbs_ok_ext _ _ Hok He)|].
  rewrite Hc. eapply all_impl; [|exact Hall]. intros cm; exact (cinv_ext _ _ _ Hok He).
Qed.

Lemma dinv_nset st s' c cm' : dinv st -> ext st s' -> cmds s' = nset (cmds st) c cm' -> cinv s' cm' -> dinv s'.
Proof.
  intros [Hok Hall] He Hc Hcm. split; [exact (lbs_ok_ext _ _ Hok He)|].
  rewrite Hc. apply all_nset; [|exact Hcm]. eapply all_impl; [|exact Hall]. intros cm; exact (cinv_ext _ _ _ Hok He).
Qed.

Lemma cinv_fields s cm cm' :
  c_phase cm' = c_phase cm -> c_new cm' = c_new cm -> c_repl cm' = c_repl cm -> c_disp cm' = c_disp cm ->
  cinv s cm -> cinv s cm'.
Proof. unfold cinv, disposed_or. intros -> -> -> ->. auto. Qed.

Lemma clear_pending_cinv s cs who t : all (cinv s) cs -> all (cinv s) (clear_pending cs who t).
Proof.
  intros H. unfold clear_pending. apply all_map; [|exact H].
  intros [c cm] Hc. cbn [fst snd] in *. destruct (nmem c who); [|exact Hc].
  cbn [snd]. eapply cinv_fields; [..|exact Hc]; reflexivity.
Qed.

Lemma notify_cinv s st d t cs : all (cinv s) (cmds st) -> notify st d t = Some cs -> all (cinv s) cs.
Proof.
  unfold notify. generalize (cmds st) as l. generalize (d_owners d) as os.
  induction os as [|o os IH]; intros l Hl; cbn [fold_left].
  - intros H; injection H as <-; exact Hl.
  - destruct (notify_one st d t (Some l) o) as [l1|] eqn:E.
    + apply IH. unfold notify_one in E. destruct (nget l (fst o)) as [cm|] eqn:Hg; [|injection E as <-; exact Hl].
      destruct (negb (in_drain_phase cm)); [injection E as <-; exact Hl|].
      destruct (parks st || _); [|discriminate]. injection E as <-.
      apply all_nset; [exact Hl|]. pose proof (all_nget _ _ _ _ Hl Hg) as Hcm.
      destruct (snd o); (eapply cinv_fields; [..|exact Hcm]; reflexivity).
    + intros H. exfalso. clear -H. induction os as [|o' os IH]; cbn [fold_left] in H; [discriminate|]. apply IH; exact H.
Qed.

Lemma step_dinv p st0 e s' : dinv st0 -> step_gen p st0 e = Some s' -> dinv s'.
Proof.
  intros Hd0 Hstep. pose proof (step_ext _ _ _ _ Hstep) as Hext. revert Hstep.
  unfold step_gen.
  destruct (e_t e <? clock st0); [discriminate|].
  assert (Hd : dinv (upd_clock st0 (e_t e))) by (eapply dinv_same; [exact Hd0|apply ext_fields; reflexivity|reflexivity]).
  assert (He : ext (upd_clock st0 (e_t e)) s') by (eapply ext_trans; [apply ext_fields; reflexivity|exact Hext]).
  clear Hd0 Hext.
  set (st := upd_clock st0 (e_t e)) in *. clearbody st. cbv zeta.
  assert (Hown : forall c cm, nget (cmds st) c = Some cm -> own_step p st c cm e = Some s' -> dinv s').
  { intros c cm Hc H. destruct Hd as [Hok Hall].
    destruct (own_step_cinv _ _ _ _ _ _ Hok (all_nget _ _ _ _ Hall Hc) H) as [E|(cm' & E & Hcm')].
    - eapply dinv_same; [split; eassumption|exact He|exact E].
    - eapply dinv_nset; [split; eassumption|exact He|exact E|exact Hcm']. }
  destruct (e_k e) eqn:Hk.
  all: try (destruct (e_by e) eqn:Hby;
            [inv_some; exact Hd
            |destruct (nget (cmds st) c) eqn:Hc; [intros H; eapply Hown; eassumption|inv_some; exact Hd]
            |inv_some; exact Hd|inv_some; exact Hd]; fail).
  all: try (step_destruct; try (inv_some; fail); intros Hs; injection Hs as Hs; subst s';
            (eapply dinv_same; [exact Hd|exact He|reflexivity]); fail).
  - (* KIssue *)
    destruct (nget (cmds st) c) eqn:Hc; [discriminate|]. intros Hs; injection Hs as Hs; subst s'.
    eapply dinv_nset; [exact Hd|exact He|reflexivity|].
    unfold cinv. cbn. repeat split; intros; discriminate.
  - (* KParams *)
    destruct (nget (cmds st) c) as [cm|] eqn:Hc; [|discriminate].
    destruct (c_phase cm) eqn:Hph; try discriminate.
    destruct (own_time_ok st cm (e_t e)); [|discriminate]. intros Hs; injection Hs as Hs; subst s'.
    eapply dinv_nset; [exact Hd|exact He|reflexivity|].
    destruct Hd as [Hok Hall]. pose proof (all_nget _ _ _ _ Hall Hc) as Hcm.
    unfold cinv in Hcm |- *. rewrite Hph in Hcm. cbn. exact Hcm.
  - (* KReturn *)
    destruct (nget (cmds st) c) as [cm|] eqn:Hc; [|discriminate].
    destruct (actor_eqb (e_by e) (ACmd c)); [|discriminate]. intros H. eapply Hown; eassumption.
  - (* KLbNew *)
    destruct (e_by e); [|destruct (nget (cmds st) c) eqn:Hc; [intros H; eapply Hown; eassumption|inv_some; exact Hd]| |];
      intros H; (eapply dinv_same; [exact Hd|exact He|exact (proj1 (new_lb_frame _ _ _ _ _ H))]).
  - (* KLbDispose *)
    destruct (e_by e); [|destruct (nget (cmds st) c) eqn:Hc; [intros H; eapply Hown; eassumption|inv_some; exact Hd]| |];
      intros Hs; injection Hs as Hs; subst s'; (eapply dinv_same; [exact Hd|exact He|frame3]).
  - (* KEnd *)
    intros Hs; injection Hs as Hs; subst s'. eapply dinv_same; [exact Hd|exact He|].
    destruct (nget (tgts st) t); reflexivity.
  - (* KWaiter *)
    destruct (nget (tgts st) t) as [x|]; [|discriminate].
    destruct (t_wait x); [discriminate|].
    destruct (nget (lbs st) (t_lb x)) as [l|]; [|discriminate].
    destruct (l_owner l) as [c|]; [|discriminate].
    destruct (nget (cmds st) c) as [cm|] eqn:Hc; [|discriminate].
    destruct (c_phase cm) eqn:Hph; try discriminate.
    destruct (_ && _); [|discriminate]. intros Hs; injection Hs as Hs; subst s'.
    eapply dinv_nset; [exact Hd|exact He|reflexivity|].
    destruct Hd as [Hok Hall]. pose proof (all_nget _ _ _ _ Hall Hc) as Hcm.
    eapply cinv_fields; [..|exact (cinv_ext _ _ _ Hok He Hcm)]; reflexivity.
  - (* KProbeStop *)
    destruct (e_by e); [|destruct (nget (cmds st) c) eqn:Hc; [intros H; eapply Hown; eassumption|inv_some; exact Hd]| |];
      intros Hs; injection Hs as Hs; subst s'; (eapply dinv_same; [exact Hd|exact He|frame3]).
  - (* restore *)
    destruct (nget (drains st) (goid (e_by e))) as [d|]; [|inv_some; exact Hd].
    destruct (d_cancel d); [|discriminate]. destruct (tstate_eqb _ _) eqn:Hnd; [discriminate|]. destruct (_ && _); [|discriminate].
    destruct (notify st d (e_t e)) as [cs|] eqn:Hn; [|discriminate]. intros Hs; injection Hs as Hs; subst s'.
    destruct Hd as [Hok Hall]. split; [exact (lbs_ok_ext _ _ Hok He)|].
    cbn [cmds upd_drains upd_cmds]. eapply notify_cinv; [|exact Hn].
    eapply all_impl; [|exact Hall]. intros cm; exact (cinv_ext _ _ _ Hok He).
  - (* KDrainBegin *)
    destruct Hd as [Hok Hall].
    assert (Hcp : all (cinv s') (clear_pending (cmds st) (candidates st t (e_t e) timeout) t)).
    { apply clear_pending_cinv. eapply all_impl; [|exact Hall]. intros cm; exact (cinv_ext _ _ _ Hok He). }
    step_destruct; try (inv_some; fail); intros Hs; injection Hs as Hs; subst s';
      (split; [exact (lbs_ok_ext _ _ Hok He)|exact Hcp]).
  - (* cancel-rest *)
    step_destruct; try (inv_some; fail); intros Hs; injection Hs as Hs; subst s'.
    eapply dinv_same; [exact Hd|exact He|]. destruct (nget (tgts st) t); reflexivity.
Qed.

Lemma run_dinv p tr s s' : dinv s -> run (step_gen p) s tr = Some s' -> dinv s'.
Proof. apply run_inv. intros s0 e s1 H Hs. exact (step_dinv _ _ _ _ H Hs). Qed.

Lemma run_ext p tr s s' : run (step_gen p) s tr = Some s' -> ext s s'.
Proof.
  revert s; induction tr as [|e tr IH]; intros s; cbn [run].
  - intros H; injection H as <-; apply ext_refl.
  - destruct (step_gen p s e) as [s1|] eqn:E; [|discriminate]. intros H.
    exact (ext_trans _ _ _ (step_ext _ _ _ _ E) (IH _ H)).
Qed.
