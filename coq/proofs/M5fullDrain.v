(** M5fullDrain.v — the life of a Drain call in the acceptor model/M5full.v:
    where drain records come from, what their snapshots contain, when requests
    are cancelled (the facts behind props/C03.v). *)
From KP Require Import model.Base model.Trace model.M5full proofs.M5fullFacts proofs.M5fullGuards proofs.M5fullInv.
From Coq Require Import ZifyN ZifyNat ZifyBool.
Local Open Scope nat_scope.

(** where an open Drain record of the new state comes from *)
Inductive drain_ev (s : state) (e : event) (s' : state) (t g : nat) (x : tgt) (d' : drain) : Prop :=
| DE_same : In (g, d') (t_drains x) -> drain_ev s e s' t g x d'
| DE_begin orig timeout :
    goid (e_by e) = g -> e_k e = KDrainBegin t orig timeout -> orig <> TDraining ->
    nget (t_drains x) g = None ->
    d' = mkD orig (e_t e + timeout)%N None false false -> drain_ev s e s' t g x d'
| DE_snap d rs :
    goid (e_by e) = g -> e_k e = KDrainSnapshot t rs -> nget (t_drains x) g = Some d ->
    d_snap d = None ->
    d' = mkD (d_orig d) (d_deadline d) (Some (map fst rs)) false false ->
    (forall r, In r (map fst rs) -> In r (t_inflight x)) -> length rs = length (t_inflight x) ->
    (forall r h, In (r, h) rs -> h = upgraded s r) ->
    (forall r, In (r, true) rs -> cancelled s' r = true) ->
    drain_ev s e s' t g x d'
| DE_deadline d sn :
    goid (e_by e) = g -> e_k e = KDrainDeadline t -> nget (t_drains x) g = Some d ->
    d_snap d = Some sn -> (d_deadline d <= e_t e)%N -> d_cancelled d = false ->
    d' = mkD (d_orig d) (d_deadline d) (Some sn) true false -> drain_ev s e s' t g x d'
| DE_cancel d sn :
    goid (e_by e) = g -> e_k e = KDrainCancelRest t -> nget (t_drains x) g = Some d ->
    d_snap d = Some sn ->
    d' = mkD (d_orig d) (d_deadline d) (Some sn) (d_deadline_hit d) true ->
    (forall r, In r sn -> In r (t_inflight x) -> phase_of s r <> None -> cancelled s' r = true) ->
    drain_ev s e s' t g x d'.

Lemma forallb_mem_In : forall (l inf : list nat),
  forallb (fun r => nmem r inf) l = true -> forall r, In r l -> In r inf.
Proof.
  intros l inf H r Hin. rewrite forallb_forall in H. apply nmem_In. auto.
Qed.

Lemma step_drain : forall s e s' t x x' g d',
  step s e = Some s' -> nget (targets s) t = Some x -> nget (targets s') t = Some x' ->
  In (g, d') (t_drains x') -> drain_ev s e s' t g x d'.
Proof.
  intros s e s' t x x' g d' H Hx Hx' Hin. step_inv H; norm.
  all: try (rewrite Hx in Hx'; inj_some; now apply DE_same).
  all: heap_cases; inj_some; tproj; try (rewrite Hx in *; inj_some; try now apply DE_same).
  all: try (apply In_ndel in Hin; now apply DE_same).
  all: try (apply In_nset in Hin; destruct Hin as [[-> ->]|Hin]; [|now apply DE_same]).
  - (* KLbNew *) rewrite add_new_get in Hx'. destruct (nmem t ts) eqn:E; [|rewrite Hx in Hx'; inj_some; now apply DE_same].
    apply nmem_In in E. rewrite (fresh_all _ _ _ Heqb E) in Hx. discriminate.
  - eapply DE_begin; eauto. congruence.
  - eapply DE_begin; eauto. congruence.
  - eapply DE_begin; eauto. congruence.
  - assert (Hfl : forall r h, In (r, h) inflight -> h = upgraded s r)
      by (match goal with Hf : forallb _ inflight = true |- _ => exact (flags_spec s inflight Hf) end).
    eapply DE_snap; eauto; try (apply forallb_mem_In; auto); try (now apply Nat.eqb_eq).
    intros r Hr. norm. apply orb_true_iff. right. apply andb_true_iff. split; [now apply hij_in_In|].
    pose proof (Hfl _ _ Hr) as Hu. symmetry in Hu. apply upgraded_phase in Hu. destruct Hu as (t' & Hu).
    unfold phase_of in Hu. destruct (nget (reqs s) r); congruence.
  - eapply DE_deadline; eauto; try (now apply N.leb_le).
  - eapply DE_cancel; eauto. intros r Hr Hfl Hrec. norm.
    apply orb_true_iff. right. apply andb_true_iff. split.
    + apply nmem_In, filter_In. split; auto. now apply nmem_In.
    + unfold phase_of in Hrec. destruct (nget (reqs s) r); congruence.
Qed.

(** * D: the requests of a drain's snapshot are past their claim *)

Lemma past_claim_step : forall p p', past_claim p = true -> (p' = p \/ rank p < rank p') -> past_claim p' = true.
Proof.
  intros p p' Hp [->|Hr]; auto. apply past_claim_rank in Hp. apply past_claim_rank. lia.
Qed.

Definition InvD (s : state) : Prop :=
  forall t x g d sn r, nget (targets s) t = Some x -> In (g, d) (t_drains x) -> d_snap d = Some sn -> In r sn ->
  exists p, phase_of s r = Some p /\ past_claim p = true.

Lemma invD_step : forall s e s', InvB s -> InvD s -> step s e = Some s' -> InvD s'.
Proof.
  intros s e s' HB HD H t x' g d' sn r Hx' Hin Hsn Hr.
  destruct (step_tgt_back _ _ _ _ _ H Hx') as [[x Hx]|(lb & ts & _ & _ & _ & ->)]; [|destruct Hin].
  assert (Hold : exists p, phase_of s r = Some p /\ past_claim p = true).
  { destruct (step_drain _ _ _ _ _ _ _ _ H Hx Hx' Hin)
      as [Hs|orig timeout Hg Hk Ho Hn ->|d rs Hg Hk Hd Hsd -> Hsub Hlen Hflg Hcut|d sn0 Hg Hk Hd Hsd Hle Hc ->|d sn0 Hg Hk Hd Hsd -> Hcr];
      cbn [d_snap] in Hsn.
    - eapply HD; eauto.
    - discriminate.
    - inj_some. destruct (HB _ _ _ Hx (Hsub _ Hr)) as (p & Hp & Ho). exists p; split; auto.
      eapply on_target_past; eauto.
    - inj_some. eapply HD; eauto. apply nget_In; eauto.
    - inj_some. eapply HD; eauto. apply nget_In; eauto. }
  destruct Hold as (p & Hp & Hpc). destruct (step_phase _ _ _ _ _ H Hp) as (p' & Hp' & Hr').
  exists p'. split; auto. eapply past_claim_step; eauto.
Qed.

(** * E: once "cancel the rest" is done, every request of the snapshot has
      left the in-flight set or is cancelled *)

Definition InvE (s : state) : Prop :=
  forall t x g d, nget (targets s) t = Some x -> In (g, d) (t_drains x) -> d_cancelled d = true ->
  exists sn, d_snap d = Some sn /\ forall r, In r sn -> ~ In r (t_inflight x) \/ cancelled s r = true.

Lemma invE_step : forall s e s', InvB s -> InvD s -> InvE s -> step s e = Some s' -> InvE s'.
Proof.
  intros s e s' HB HD HE H t x' g d' Hx' Hin Hc.
  destruct (step_tgt_back _ _ _ _ _ H Hx') as [[x Hx]|(lb & ts & _ & _ & _ & ->)]; [|destruct Hin].
  destruct (step_drain _ _ _ _ _ _ _ _ H Hx Hx' Hin)
    as [Hs|orig timeout Hg Hk Ho Hn ->|d rs Hg Hk Hd Hsd -> Hsub Hlen Hflg Hcut|d sn0 Hg Hk Hd Hsd Hle Hc0 ->|d sn0 Hg Hk Hd Hsd -> Hcr];
    cbn [d_cancelled d_snap] in *; try discriminate.
  - destruct (HE _ _ _ _ Hx Hs Hc) as (sn & Hsn & Hall). exists sn. split; auto.
    intros r Hr. destruct (Hall r Hr) as [Hnf|Hcc].
    + destruct (in_dec Nat.eq_dec r (t_inflight x')) as [Hi|Hi]; [|now left].
      destruct (step_inflight _ _ _ _ _ _ _ H Hx Hx' Hi) as [Hold|[Hk [lb Hp]]]; [contradiction|].
      destruct (HD _ _ _ _ _ _ Hx Hs Hsn Hr) as (p & Hp' & Hpc). rewrite Hp in Hp'. inj_some. discriminate.
    + right. eapply step_cancelled_mono; eauto.
  - exists sn0. split; auto. intros r Hr.
    destruct (in_dec Nat.eq_dec r (t_inflight x)) as [Hi|Hi].
    + right. apply Hcr; auto. destruct (HB _ _ _ Hx Hi) as (p & Hp & _). congruence.
    + left. intros Hi'. destruct (step_inflight _ _ _ _ _ _ _ H Hx Hx' Hi') as [Hold|[Hk' _]]; [contradiction|congruence].
Qed.

(** the three together *)
Definition InvBDE (s : state) : Prop := InvB s /\ InvD s /\ InvE s.

Lemma invBDE_run : forall tr s, run step init tr = Some s -> InvBDE s.
Proof.
  intros tr s H. eapply (run_inv step InvBDE); [| |exact H].
  - intros s0 e s' (HB & HD & HE) Hs. split; [|split].
    + eapply invB_step; eauto.
    + eapply invD_step; eauto.
    + eapply invE_step; eauto.
  - split; [|split]; intros t x; intros; discriminate.
Qed.

(** * F: every open drain record has its Drain call's events in the trace *)

Definition drain_hist (tr : trace) (t g : nat) (d : drain) : Prop :=
  exists pre eb mid orig timeout,
    tr = pre ++ eb :: mid /\ e_k eb = KDrainBegin t orig timeout /\ goid (e_by eb) = g /\
    d_deadline d = (e_t eb + timeout)%N /\ d_orig d = orig /\ orig <> TDraining /\
    (forall sn, d_snap d = Some sn ->
       exists es rs, In es mid /\ e_k es = KDrainSnapshot t rs /\ goid (e_by es) = g /\ map fst rs = sn) /\
    (d_deadline_hit d = true ->
       exists ed, In ed mid /\ e_k ed = KDrainDeadline t /\ goid (e_by ed) = g /\ (d_deadline d <= e_t ed)%N).

Definition InvF (tr : trace) (s : state) : Prop :=
  forall t x g d, nget (targets s) t = Some x -> In (g, d) (t_drains x) -> drain_hist tr t g d.

(** a later record of the same Drain call: same deadline and origin, snapshot
    and deadline facts either inherited or witnessed by the new event *)
Lemma drain_hist_next : forall tr e t g d d',
  drain_hist tr t g d -> d_deadline d' = d_deadline d -> d_orig d' = d_orig d ->
  (forall sn, d_snap d' = Some sn -> d_snap d = Some sn \/
     exists rs, e_k e = KDrainSnapshot t rs /\ goid (e_by e) = g /\ map fst rs = sn) ->
  (d_deadline_hit d' = true -> d_deadline_hit d = true \/
     (e_k e = KDrainDeadline t /\ goid (e_by e) = g /\ (d_deadline d <= e_t e)%N)) ->
  drain_hist (tr ++ [e]) t g d'.
Proof.
  intros tr e t g d d' (pre & eb & mid & orig & timeout & Htr & Hkb & Hgb & Hdl & Hor & Hno & Hsn & Hhit) Hd1 Hd2 Hs Hh.
  subst tr. exists pre, eb, (mid ++ [e]), orig, timeout. rewrite <- app_assoc. cbn [app].
  repeat split; auto; try congruence.
  - intros sn Hsn'. destruct (Hs sn Hsn') as [Ho|(rs & Hk & Hg & Hm)].
    + destruct (Hsn sn Ho) as (es & rs & Hi & Hk & Hg & Hm). exists es, rs. repeat split; auto.
      apply in_or_app. now left.
    + exists e, rs. repeat split; auto. apply in_or_app. right. now left.
  - intros Hh'. destruct (Hh Hh') as [Ho|(Hk & Hg & Hle)].
    + destruct (Hhit Ho) as (ed & Hi & Hk & Hg & Hle). exists ed. repeat split; auto.
      * apply in_or_app. now left.
      * congruence.
    + exists e. repeat split; auto.
      * apply in_or_app. right. now left.
      * congruence.
Qed.

Lemma invF_step : forall tr s e s', InvF tr s -> step s e = Some s' -> InvF (tr ++ [e]) s'.
Proof.
  intros tr s e s' HF H t x' g d' Hx' Hin.
  destruct (step_tgt_back _ _ _ _ _ H Hx') as [[x Hx]|(lb & ts & _ & _ & _ & ->)]; [|destruct Hin].
  destruct (step_drain _ _ _ _ _ _ _ _ H Hx Hx' Hin)
    as [Hs|orig timeout Hg Hk Ho Hn ->|d rs Hg Hk Hd Hsd -> Hsub Hlen Hflg Hcut|d sn0 Hg Hk Hd Hsd Hle Hc0 ->|d sn0 Hg Hk Hd Hsd -> Hcr].
  - eapply drain_hist_next; eauto.
  - exists tr, e, [], orig, timeout. cbn [d_deadline d_orig d_snap d_deadline_hit]. repeat split; auto; discriminate.
  - apply nget_In in Hd. eapply drain_hist_next; eauto; cbn [d_snap d_deadline_hit].
    + intros sn Hsn. inj_some. right. eauto.
    + discriminate.
  - apply nget_In in Hd. eapply drain_hist_next; eauto; cbn [d_snap d_deadline_hit].
    intros sn Hsn. inj_some. now left.
  - apply nget_In in Hd. eapply drain_hist_next; eauto; cbn [d_snap d_deadline_hit].
    intros sn Hsn. inj_some. now left.
Qed.

Lemma invF_run : forall tr s, run step init tr = Some s -> InvF tr s.
Proof.
  intros tr s H. apply (run_hinv0 step InvF init); auto.
  - intros t x g d Hx. discriminate.
  - intros pre s0 e s' _ HI Hs. eapply invF_step; eauto.
Qed.

(** * Times along an accepted trace *)

Lemma times_run : forall tr s, run step init tr = Some s -> forall e, In e tr -> (e_t e <= clock s)%N.
Proof.
  intros tr s H. apply (run_hinv0 step (fun tr s => forall e, In e tr -> (e_t e <= clock s)%N) init); auto.
  - intros e [].
  - intros pre s0 e s' _ HI Hs e' He'. destruct (step_clock _ _ _ Hs) as [H1 H2].
    apply in_app_or in He'. destruct He' as [He'|[<-|[]]]; [|lia]. specialize (HI e' He'). lia.
Qed.

(** * A request id is claimed at most once *)

Lemma claimed_once : forall a e1 b e2 c s t1 t2 r,
  run step init (a ++ e1 :: b ++ e2 :: c) = Some s ->
  e_k e1 = KClaim t1 r -> e_k e2 = KClaim t2 r -> False.
Proof.
  intros a e1 b e2 c s t1 t2 r Hrun Hk1 Hk2.
  destruct (run_app _ _ _ _ _ _ Hrun) as (s1 & s2 & Ha & He1 & Hrest).
  destruct (run_prefix _ _ _ _ _ Hrest) as (s3 & Hb & Hrest').
  cbn in Hrest'. destruct (step s3 e2) as [s4|] eqn:He2; [|discriminate].
  destruct (step_KClaim _ _ _ _ _ He1 Hk1) as (lb & x & _ & _ & _ & _ & ->).
  destruct (step_KClaim _ _ _ _ _ He2 Hk2) as (lb2 & x2 & Hp2 & _).
  assert (Hp : phase_of (set_phase (upd_targets (tick s1 (e_t e1))
             (nset (targets s1) t1 (mkT (t_lb x) (t_state x) (r :: t_inflight x) (t_drains x) (t_ever_drained x))))
             r (PClaimed t1)) r = Some (PClaimed t1)).
  { rewrite phase_of_set_phase. now rewrite Nat.eqb_refl. }
  destruct (run_phase _ _ _ _ _ Hb Hp) as (p' & Hp' & Hr). rewrite Hp2 in Hp'. inj_some. cbn in Hr. lia.
Qed.

(** * The C03 facts on accepted traces *)

(** "r is claimed on t and has not ended" in the events of [pre] *)
Definition open_in (pre : trace) (t r : nat) : Prop :=
  exists p1 ec p2, pre = p1 ++ ec :: p2 /\ e_k ec = KClaim t r /\ forall e', In e' p2 -> e_k e' <> KEnd t r.

Lemma c03_claim_lem : forall pre e post s t r,
  run step init (pre ++ e :: post) = Some s ->
  (e_k e = KClaim t r ->
     exists s1 x, run step init pre = Some s1 /\ nget (targets s1) t = Some x /\ t_state x <> TDraining) /\
  (e_k e = KClaimRefused t r ->
     exists s1 x, run step init pre = Some s1 /\ nget (targets s1) t = Some x /\ t_state x = TDraining).
Proof.
  intros pre e post s t r Hrun. destruct (run_app _ _ _ _ _ _ Hrun) as (s1 & s2 & Ha & He & _). split; intros Hk.
  - destruct (step_KClaim _ _ _ _ _ He Hk) as (lb & x & _ & Hx & Hst & _). eauto.
  - destruct (step_KClaimRefused _ _ _ _ _ He Hk) as (lb & x & _ & Hx & Hst & _). eauto.
Qed.

Lemma c03_snapshot_lem : forall pre e post s t rs,
  run step init (pre ++ e :: post) = Some s -> e_k e = KDrainSnapshot t rs ->
  NoDup (map fst rs) /\ forall r, In r (map fst rs) <-> open_in pre t r.
Proof.
  intros pre e post s t rs Hrun Hk. destruct (run_app _ _ _ _ _ _ Hrun) as (s1 & s2 & Ha & He & _).
  destruct (step_KDrainSnapshot _ _ _ _ _ He Hk) as (x & d & Hx & _ & _ & Hlen & Hsub & Hnd & _).
  split; auto. intros r. split.
  - intros Hr. apply (inflight_spec _ _ _ _ r Ha Hx). auto.
  - intros Hr. apply (inflight_spec _ _ _ _ r Ha Hx) in Hr.
    assert (Hincl : incl (t_inflight x) (map fst rs)).
    { apply NoDup_length_incl; [exact Hnd | rewrite map_length; lia | intros y Hy; auto]. }
    auto.
Qed.

Lemma c03_settled_lem : forall pre e post s t orig new s1 x d,
  run step init (pre ++ e :: post) = Some s -> e_k e = KStateSet t orig new -> new <> TDraining ->
  run step init pre = Some s1 -> nget (targets s1) t = Some x ->
  nget (t_drains x) (goid (e_by e)) = Some d ->
  d_cancelled d = true /\
  exists sn, d_snap d = Some sn /\
    (forall r, In r sn -> ~ In r (t_inflight x) \/ cancelled s1 r = true) /\
    (exists es rs, In es pre /\ e_k es = KDrainSnapshot t rs /\ goid (e_by es) = goid (e_by e) /\ map fst rs = sn).
Proof.
  intros pre e post s t orig new s1 x d Hrun Hk Hnew Ha Hx Hd.
  destruct (run_app _ _ _ _ _ _ Hrun) as (s1' & s2 & Ha' & He & _). rewrite Ha in Ha'. inj_some.
  destruct (step_KStateSet _ _ _ _ _ _ He Hk) as (x' & Hx' & _ & Hcases). rewrite Hx in Hx'. inj_some.
  assert (Hc : d_cancelled d = true).
  { destruct Hcases as [[-> _]|[(_ & Hn & _)|(_ & d' & Hd' & Hc & _)]]; congruence. }
  split; auto. destruct (invBDE_run _ _ Ha) as (_ & _ & HE).
  destruct (HE _ _ _ _ Hx (nget_In _ _ _ _ Hd) Hc) as (sn & Hsn & Hall).
  exists sn. repeat split; auto.
  destruct (invF_run _ _ Ha _ _ _ _ Hx (nget_In _ _ _ _ Hd))
    as (p0 & eb & mid & o & tmo & -> & _ & _ & _ & _ & _ & Hs & _).
  destruct (Hs sn Hsn) as (es & rs & Hi & Hke & Hg & Hm). exists es, rs. repeat split; auto.
  apply in_or_app. right. now right.
Qed.

(** a request becomes cancelled only (a) by "cancel the rest" of a drain that has it
    in its snapshot, after that drain's deadline = mark time + drain timeout, or
    (b) at the snapshot of a drain that lists it as upgraded (its target answered 101) *)
Definition cut_at_deadline (pre : trace) (e : event) (r : nat) : Prop :=
  exists t p1 eb mid orig timeout es rs ed,
    e_k e = KDrainCancelRest t /\ pre = p1 ++ eb :: mid /\
    e_k eb = KDrainBegin t orig timeout /\ goid (e_by eb) = goid (e_by e) /\
    In es mid /\ e_k es = KDrainSnapshot t rs /\ goid (e_by es) = goid (e_by e) /\ In r (map fst rs) /\
    In ed mid /\ e_k ed = KDrainDeadline t /\ goid (e_by ed) = goid (e_by e) /\
    (e_t eb + timeout <= e_t ed)%N /\ (e_t ed <= e_t e)%N /\ open_in pre t r.

Definition cut_as_upgraded (pre : trace) (e : event) (s1 : state) (r : nat) : Prop :=
  exists t rs, e_k e = KDrainSnapshot t rs /\ In (r, true) rs /\ open_in pre t r /\
               phase_of s1 r = Some (PReplied t 101%N).

Lemma c03_grace_lem : forall pre e post s s1 s2 r,
  run step init (pre ++ e :: post) = Some s ->
  run step init pre = Some s1 -> step s1 e = Some s2 ->
  cancelled s1 r = false -> cancelled s2 r = true ->
  cut_at_deadline pre e r \/ cut_as_upgraded pre e s1 r.
Proof.
  intros pre e post s s1 s2 r Hrun Ha He Hc Hc'.
  destruct (step_cancelled_new _ _ _ _ He Hc Hc')
    as [(t & x & d & sn & Hk & Hx & Hd & Hsn & Hhit & Hr & Hfl)|(t & x & rs & Hk & Hx & Hr & Hfl & Hup)].
  - left.
    destruct (invF_run _ _ Ha _ _ _ _ Hx (nget_In _ _ _ _ Hd))
      as (p1 & eb & mid & o & tmo & Hpre & Hkb & Hgb & Hdl & _ & _ & Hs & Hh).
    destruct (Hs sn Hsn) as (es & rs & Hi & Hke & Hg & Hm).
    destruct (Hh Hhit) as (ed & Hid & Hkd & Hgd & Hle).
    exists t, p1, eb, mid, o, tmo, es, rs, ed. repeat split; auto; try congruence.
    + assert (Hin : In ed pre). { rewrite Hpre. apply in_or_app. right. now right. }
      pose proof (times_run _ _ Ha _ Hin). destruct (step_clock _ _ _ He). lia.
    + apply (inflight_spec _ _ _ _ r Ha Hx). auto.
  - right. exists t, rs. repeat split; auto.
    + apply (inflight_spec _ _ _ _ r Ha Hx). auto.
    + apply upgraded_phase in Hup. destruct Hup as (t' & Hp).
      destruct (invB_run _ _ Ha _ _ _ Hx Hfl) as (p & Hp' & Ho). rewrite Hp in Hp'. inj_some. cbn in Ho. congruence.
Qed.

(** upgraded connections are cut as soon as draining begins: at an accepted snapshot the
    flag of an entry says exactly "the target answered 101", every flagged entry is
    cancelled in the resulting state, and every upgraded request in flight on t is such an entry *)
Lemma c03_upgraded_lem : forall pre e post s t rs,
  run step init (pre ++ e :: post) = Some s -> e_k e = KDrainSnapshot t rs ->
  exists s1 s2 x, run step init pre = Some s1 /\ step s1 e = Some s2 /\ nget (targets s1) t = Some x /\
    (forall r h, In (r, h) rs -> (h = true <-> exists t', phase_of s1 r = Some (PReplied t' 101%N))) /\
    (forall r, In (r, true) rs -> cancelled s2 r = true /\ phase_of s1 r = Some (PReplied t 101%N)) /\
    (forall r, In r (t_inflight x) -> phase_of s1 r = Some (PReplied t 101%N) ->
       In (r, true) rs /\ cancelled s2 r = true).
Proof.
  intros pre e post s t rs Hrun Hk. destruct (run_app _ _ _ _ _ _ Hrun) as (s1 & s2 & Ha & He & _).
  destruct (step_KDrainSnapshot _ _ _ _ _ He Hk) as (x & d & Hx & Hd & _ & Hlen & Hsub & Hnd & Hflg & Hs2).
  assert (Hcut : forall r, In (r, true) rs -> cancelled s2 r = true).
  { intros r Hi. subst s2. norm. apply orb_true_iff. right. apply andb_true_iff. split; [now apply hij_in_In|].
    pose proof (Hflg _ _ Hi) as Hu. symmetry in Hu. apply upgraded_phase in Hu. destruct Hu as (t' & Hu).
    unfold phase_of in Hu. destruct (nget (reqs s1) r); congruence. }
  exists s1, s2, x. split; auto. split; auto. split; auto. split; [|split].
  - intros r h Hi. split.
    + intros ->. apply upgraded_phase. symmetry. eauto.
    + intros Hp. apply upgraded_phase in Hp. rewrite (Hflg _ _ Hi). auto.
  - intros r Hi. split; auto.
    pose proof (Hflg _ _ Hi) as Hu. symmetry in Hu. apply upgraded_phase in Hu. destruct Hu as (t' & Hu).
    assert (Hin : In r (t_inflight x)) by (apply Hsub; apply in_map_iff; exists (r, true); auto).
    destruct (invB_run _ _ Ha _ _ _ Hx Hin) as (p & Hp' & Ho). rewrite Hu in Hp'. inj_some. cbn in Ho. congruence.
  - intros r Hin Hp.
    assert (Hincl : incl (t_inflight x) (map fst rs)).
    { apply NoDup_length_incl; [exact Hnd | rewrite map_length; lia | intros y Hy; auto]. }
    apply Hincl in Hin. apply in_map_iff in Hin. destruct Hin as ([r' h] & Hr' & Hi). cbn in Hr'. subst r'.
    assert (h = true). { rewrite (Hflg _ _ Hi). apply upgraded_phase. eauto. } subst h. auto.
Qed.

(** only upgraded connections are cut by a snapshot *)
Lemma c03_only_upgraded_lem : forall pre e post s s1 s2 r t rs,
  run step init (pre ++ e :: post) = Some s ->
  run step init pre = Some s1 -> step s1 e = Some s2 -> e_k e = KDrainSnapshot t rs ->
  cancelled s1 r = false -> cancelled s2 r = true ->
  In (r, true) rs /\ phase_of s1 r = Some (PReplied t 101%N) /\ open_in pre t r.
Proof.
  intros pre e post s s1 s2 r t rs Hrun Ha He Hk Hc Hc'.
  destruct (c03_grace_lem _ _ _ _ _ _ _ Hrun Ha He Hc Hc') as [(t' & ? & ? & ? & ? & ? & ? & ? & ? & Hk' & _)|(t' & rs' & Hk' & Hi & Ho & Hp)].
  - congruence.
  - rewrite Hk in Hk'. inversion Hk'; subst. auto.
Qed.

(** D11: a second Drain of a target that is already draining returns at once: no drain is opened *)
Lemma c03_early_return_lem : forall pre e post s t timeout,
  run step init (pre ++ e :: post) = Some s -> e_k e = KDrainBegin t TDraining timeout ->
  exists s1 s2, run step init pre = Some s1 /\ step s1 e = Some s2 /\
    targets s2 = targets s1 /\ lbs s2 = lbs s1 /\ reqs s2 = reqs s1.
Proof.
  intros pre e post s t timeout Hrun Hk. destruct (run_app _ _ _ _ _ _ Hrun) as (s1 & s2 & Ha & He & _).
  exists s1, s2. repeat split; auto.
  all: destruct (step_KDrainBegin _ _ _ _ _ _ He Hk) as (x & _ & _ & [[_ ->]|[Hn _]]); [reflexivity|congruence].
Qed.
