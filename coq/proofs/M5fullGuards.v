(** M5fullGuards.v — guard extraction: what an accepted event of a given kind
    says about the state before it, and the state after it.  All by the one
    inversion tactic [step_inv_k] of M5fullFacts.v. *)
From KP Require Import model.Base model.Trace model.M5full proofs.M5fullFacts.
From Coq Require Import ZifyN ZifyNat ZifyBool.
Local Open Scope nat_scope.

Lemma step_KClaim : forall s e s' t r,
  step s e = Some s' -> e_k e = KClaim t r ->
  exists lb x, phase_of s r = Some (PLbClaimed lb (Some t)) /\ nget (targets s) t = Some x /\
    t_state x <> TDraining /\ ~ In r (t_inflight x) /\
    s' = set_phase (upd_targets (tick s (e_t e))
           (nset (targets s) t (mkT (t_lb x) (t_state x) (r :: t_inflight x) (t_drains x) (t_ever_drained x))))
         r (PClaimed t).
Proof.
  intros s e s' t r H Hk. step_inv_k H Hk. eexists _, _. repeat split; eauto.
  - now apply tstate_eqb_neq.
  - now apply nmem_false.
Qed.

Lemma step_KClaimRefused : forall s e s' t r,
  step s e = Some s' -> e_k e = KClaimRefused t r ->
  exists lb x, phase_of s r = Some (PLbClaimed lb (Some t)) /\ nget (targets s) t = Some x /\
    t_state x = TDraining /\ s' = set_phase (tick s (e_t e)) r (PRefused t).
Proof.
  intros s e s' t r H Hk. step_inv_k H Hk. eexists _, _. repeat split; eauto.
Qed.

Lemma step_KEnd : forall s e s' t r,
  step s e = Some s' -> e_k e = KEnd t r ->
  exists p x st, phase_of s r = Some p /\ outcome_status p = Some (t, st) /\ nget (targets s) t = Some x /\
    In r (t_inflight x) /\
    s' = set_phase (upd_targets (tick s (e_t e))
           (nset (targets s) t (mkT (t_lb x) (t_state x) (nremove r (t_inflight x)) (t_drains x) (t_ever_drained x))))
         r (PEnded t st).
Proof.
  intros s e s' t r H Hk. step_inv_k H Hk. eexists _, _, _. repeat split; eauto.
  now apply nmem_In.
Qed.

Lemma step_KDrainBegin : forall s e s' t orig timeout,
  step s e = Some s' -> e_k e = KDrainBegin t orig timeout ->
  exists x, nget (targets s) t = Some x /\ t_state x = TDraining /\
    ((orig = TDraining /\ s' = tick s (e_t e)) \/
     (orig <> TDraining /\ nget (t_drains x) (goid (e_by e)) = None /\
      s' = taint (set_drains (tick s (e_t e)) t x
             (nset (t_drains x) (goid (e_by e)) (mkD orig (e_t e + timeout)%N None false false))) (t_lb x))).
Proof.
  intros s e s' t orig timeout H Hk. step_inv_k H Hk.
  all: eexists; split; [reflexivity|split; [assumption|]]; auto.
  all: right; repeat split; auto; discriminate.
Qed.

Lemma step_KDrainSnapshot : forall s e s' t rs,
  step s e = Some s' -> e_k e = KDrainSnapshot t rs ->
  exists x d, nget (targets s) t = Some x /\ nget (t_drains x) (goid (e_by e)) = Some d /\ d_snap d = None /\
    length rs = length (t_inflight x) /\ (forall r, In r (map fst rs) -> In r (t_inflight x)) /\
    NoDup (map fst rs) /\
    (forall r h, In (r, h) rs -> h = upgraded s r) /\
    s' = upd_reqs (set_drains (tick s (e_t e)) t x (nset (t_drains x) (goid (e_by e))
                     (mkD (d_orig d) (d_deadline d) (Some (map fst rs)) false false)))
                  (mark_hij rs (reqs s)).
Proof.
  intros s e s' t rs H Hk. step_inv_k H Hk. fold_markh. eexists _, _. repeat split; eauto.
  - intros r Hr. match goal with Hf : forallb _ (map fst rs) = true |- _ => rewrite forallb_forall in Hf; apply nmem_In; auto end.
  - now apply nodup_ids_NoDup.
  - match goal with Hf : forallb _ rs = true |- _ => exact (flags_spec s rs Hf) end.
Qed.

(** an accepted hijack: the target of the request has answered 101 *)
Lemma step_KHijacked : forall s e s' r,
  step s e = Some s' -> e_k e = KHijacked r ->
  upgraded s r = true /\ s' = tick s (e_t e).
Proof.
  intros s e s' r H Hk. step_inv_k H Hk. split; auto. unfold upgraded.
  match goal with Hp : phase_of s r = _ |- _ => rewrite Hp end. assumption.
Qed.

Lemma step_KDrainDeadline : forall s e s' t,
  step s e = Some s' -> e_k e = KDrainDeadline t ->
  exists x d sn, nget (targets s) t = Some x /\ nget (t_drains x) (goid (e_by e)) = Some d /\ d_snap d = Some sn /\
    (d_deadline d <= e_t e)%N /\ d_cancelled d = false /\
    s' = set_drains (tick s (e_t e)) t x (nset (t_drains x) (goid (e_by e))
           (mkD (d_orig d) (d_deadline d) (Some sn) true false)).
Proof.
  intros s e s' t H Hk. step_inv_k H Hk. eexists _, _, _. repeat split; eauto.
  now apply N.leb_le.
Qed.

Lemma step_KDrainCancelRest : forall s e s' t,
  step s e = Some s' -> e_k e = KDrainCancelRest t ->
  exists x d sn, nget (targets s) t = Some x /\ nget (t_drains x) (goid (e_by e)) = Some d /\ d_snap d = Some sn /\
    (d_deadline_hit d = true \/ forall r, In r sn -> ~ In r (t_inflight x) \/ cancelled s r = true) /\
    s' = upd_reqs (set_drains (tick s (e_t e)) t x (nset (t_drains x) (goid (e_by e))
                     (mkD (d_orig d) (d_deadline d) (Some sn) (d_deadline_hit d) true)))
                  (mark_cancelled (filter (fun r => nmem r (t_inflight x)) sn) (reqs s)).
Proof.
  intros s e s' t H Hk. step_inv_k H Hk. eexists _, _, _. repeat split; eauto.
  apply orb_true_iff in Heqb. destruct Heqb as [Hh|Hall]; [now left|right].
  intros r Hr. rewrite forallb_forall in Hall. specialize (Hall r Hr).
  apply orb_true_iff in Hall. destruct Hall as [Hn|Hc]; [left|right; exact Hc].
  apply negb_true_iff in Hn. now apply nmem_false.
Qed.

(** the end of a Drain call: the state is restored by the goroutine that has the open drain *)
Lemma step_KStateSet : forall s e s' t orig new,
  step s e = Some s' -> e_k e = KStateSet t orig new ->
  exists x, nget (targets s) t = Some x /\ orig = t_state x /\
    ((new = TDraining /\ s' = set_tstate (tick s (e_t e)) t x TDraining) \/
     (new <> TDraining /\ nget (t_drains x) (goid (e_by e)) = None /\ s' = set_tstate (tick s (e_t e)) t x new) \/
     (new <> TDraining /\ exists d, nget (t_drains x) (goid (e_by e)) = Some d /\ d_cancelled d = true /\ new = d_orig d /\
        s' = upd_targets (tick s (e_t e)) (nset (targets s) t
               (mkT (t_lb x) new (t_inflight x) (ndel (t_drains x) (goid (e_by e))) true)))).
Proof.
  intros s e s' t orig new H Hk. step_inv_k H Hk.
  all: eexists; split; [reflexivity|split; [reflexivity|]].
  all: try (left; split; [reflexivity|reflexivity]).
  all: try (right; left; repeat split; auto; discriminate).
  all: right; right; (split; [discriminate|]); eexists; repeat split; eauto.
Qed.

Lemma step_KTargetFailed : forall s e s' t r why,
  step s e = Some s' -> e_k e = KTargetFailed t r why ->
  phase_of s r = Some (PAtTarget t) /\ (why = 1%N -> cancelled s r = true) /\
  s' = set_phase (tick s (e_t e)) r (PFailed t why).
Proof.
  intros s e s' t r why H Hk. step_inv_k H Hk. repeat split; auto; try congruence.
  intros ->. cbn in *. congruence.
Qed.

Lemma step_KLbClaim : forall s e s' lb ot r,
  step s e = Some s' -> e_k e = KLbClaim lb ot r ->
  exists sv l, phase_of s r = Some (PPicked sv lb) /\ nget (lbs s) lb = Some l /\
    ((l_rot l = [] /\ ot = None) \/ (exists t, ot = Some t /\ In t (l_rot l))) /\
    phase_of s' r = Some (PLbClaimed lb ot) /\ targets s' = targets s.
Proof.
  intros s e s' lb ot r H Hk. step_inv_k H Hk; norm; rewrite Nat.eqb_refl.
  - eexists _, _. repeat split; eauto.
  - eexists _, _. repeat split; eauto. right. eexists. split; eauto.
    rewrite Heql0. eapply nth_error_In. eassumption.
Qed.

Lemma step_KSlot : forall s e s' sv rollout lb replaced,
  step s e = Some s' -> e_k e = KSlot sv rollout lb replaced ->
  exists l, nget (lbs s) lb = Some l /\ l_waited l = true.
Proof.
  intros s e s' sv rollout lb replaced H Hk. step_inv_k H Hk; eexists; split; eauto.
Qed.

Lemma step_KPick : forall s e s' r sv olb,
  step s e = Some s' -> e_k e = KPick r sv olb ->
  exists lb x, olb = Some lb /\ phase_of s r = Some (PGate sv AProceed) /\ nget (svcs s) sv = Some x /\
    is_slot x lb = true /\ s' = set_phase (tick s (e_t e)) r (PPicked sv lb).
Proof.
  intros s e s' r sv olb H Hk. step_inv_k H Hk. eexists _, _. repeat split; eauto.
Qed.

(** * Responses *)

Lemma byte_eqb_eq (a b : byte) : byte_eqb a b = true <-> a = b.
Proof. unfold byte_eqb. split; [apply byte_dec_bl | apply byte_dec_lb]. Qed.

Lemma str_eqb_eq (a b : str) : str_eqb a b = true <-> a = b.
Proof.
  revert b. induction a as [|x a IH]; intros [|y b]; cbn; try (split; congruence).
  rewrite andb_true_iff, byte_eqb_eq, IH. split.
  - intros [H1 H2]. congruence.
  - intros H. inversion H. auto.
Qed.

(** what the proxy may answer, by the phase the request is in *)
Definition respond_ok (p : rphase) (status : N) (sb : str) : Prop :=
  match p with
  | PRouted None => status = 404%N
  | PRouted (Some _) => (status = 200%N \/ status = 301%N \/ status = 503%N) /\ sb = []
  | PGate _ AStopped => status = 503%N
  | PGate _ ATimedOut => status = 504%N
  | PLbClaimed _ None => status = 503%N
  | PRefused _ => status = 503%N
  | PEnded t st => status = st /\ (sb = [] -> st <> 200%N)
  | _ => False
  end.

Ltac n_hyps :=
  repeat match goal with
  | H : N.eqb _ _ = true |- _ => apply N.eqb_eq in H
  | H : N.eqb _ _ = false |- _ => apply N.eqb_neq in H
  | H : _ || _ = true |- _ => apply orb_true_iff in H
  end.

Lemma step_KRespond : forall s e s' r status sb,
  step s e = Some s' -> e_k e = KRespond r status sb ->
  exists p, phase_of s r = Some p /\ respond_ok p status sb /\
    s' = set_phase (tick s (e_t e)) r PDone /\
    (forall t st, p = PEnded t st -> sb <> [] -> nget (tgt_names s) t = Some sb).
Proof.
  intros s e s' r status sb H Hk. step_inv_k H Hk; n_hyps.
  all: eexists; split; [eassumption|split; [|split; [reflexivity|]]]; cbn [respond_ok]; auto.
  all: try (intros t' st' Hp; discriminate Hp).
  all: try (split; [reflexivity|]).
  - split; auto. destruct Heqb as [Hb|Hb]; [apply orb_true_iff in Hb; destruct Hb as [Hb|Hb]|]; apply N.eqb_eq in Hb; auto.
  - intros t' st' _ Hne. congruence.
  - split; [assumption|discriminate].
  - intros t' st' Hp Hne. inversion Hp; subst. apply str_eqb_eq in Heqb0. congruence.
Qed.
