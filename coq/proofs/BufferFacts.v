(** BufferFacts.v — proofs about model/Buffer.v (property C14). *)
From KP Require Import model.Base model.Buffer.
From Coq Require Import ZifyN ZifyNat ZifyBool.

Local Open Scope N_scope.

(** ** Declarative layout of accepted bytes *)

(** Where [acc] (all bytes accepted so far) must sit: at most [maxm] bytes in
    memory, the rest in the spill, and a spill exists iff there is a rest. *)
Definition layout (maxm : N) (acc : str) : str * option str :=
  if lenN acc <=? maxm then (acc, None)
  else (firstn (N.to_nat maxm) acc, Some (skipn (N.to_nat maxm) acc)).

Definition would_overflow (maxb : N) (acc p : str) : bool :=
  (0 <? maxb) && (maxb <? lenN acc + lenN p).

(** State reachable by writes only (no read, no close yet). *)
Definition wf (b : buf) (acc : str) : Prop :=
  reading b = false /\ closed b = false /\ drained b = false /\
  (mem b, disk b) = layout (max_mem b) acc /\
  spill_live b = negb (lenN acc <=? max_mem b).

Lemma lenN_app {A} (a b : list A) : lenN (a ++ b) = lenN a + lenN b.
Proof. unfold lenN. rewrite app_length. lia. Qed.

Lemma lenN_nil {A} : lenN (@nil A) = 0.
Proof. reflexivity. Qed.

Lemma wf_new maxb maxm : wf (new_buf maxb maxm) [].
Proof.
  unfold wf, new_buf, layout; cbn. repeat split.
  destruct (0 <=? maxm) eqn:E; [reflexivity|lia].
  destruct (0 <=? maxm) eqn:E; [reflexivity|lia].
Qed.

Lemma wf_total b acc : wf b acc -> total_written b = lenN acc.
Proof.
  intros (_ & _ & _ & Hl & _). unfold total_written, mem_written, disk_written, layout in *.
  destruct (lenN acc <=? max_mem b) eqn:E; inversion Hl as [[Hm Hd]]; rewrite Hm, Hd.
  - lia.
  - rewrite <- lenN_app, firstn_skipn. reflexivity.
Qed.

Lemma firstn_app_exact {A} (a b : list A) n :
  (length a <= n)%nat -> firstn n (a ++ b) = a ++ firstn (n - length a) b.
Proof.
  intros H. rewrite firstn_app. rewrite firstn_all2 by exact H. reflexivity.
Qed.

Lemma skipn_app_exact {A} (a b : list A) n :
  (length a <= n)%nat -> skipn n (a ++ b) = skipn (n - length a) b.
Proof.
  intros H. rewrite skipn_app. rewrite skipn_all2 by exact H. reflexivity.
Qed.

(** One accepted or rejected write, characterised completely. *)
Lemma write_spec b acc p :
  wf b acc ->
  if would_overflow (max_bytes b) acc p
  then write b p = (set_overflow b, (0, WMaxExceeded))
  else exists b', write b p = (b', (lenN p, WOk)) /\ wf b' (acc ++ p) /\
                  max_bytes b' = max_bytes b /\ max_mem b' = max_mem b /\
                  overflowed b' = overflowed b.
Proof.
  intros Hwf. pose proof (wf_total _ _ Hwf) as Ht.
  destruct Hwf as (Hr & Hc & Hdr & Hl & Hs).
  unfold would_overflow, write. rewrite Hr, Ht.
  destruct ((0 <? max_bytes b) && (max_bytes b <? lenN acc + lenN p)) eqn:Eo; [reflexivity|].
  unfold layout in Hl.
  destruct (lenN acc <=? max_mem b) eqn:Em; inversion Hl as [[Hm Hd]]; rewrite Hd.
  - (* no spill yet *)
    unfold mem_written. rewrite Hm.
    destruct (lenN acc + lenN p <=? max_mem b) eqn:Ef.
    + eexists; split; [reflexivity|]. unfold wf, layout; cbn.
      rewrite lenN_app, Ef. repeat split; auto.
    + eexists; split; [reflexivity|]. unfold wf, layout; cbn.
      rewrite lenN_app, Ef. repeat split; auto.
      assert (Hle : (length acc <= N.to_nat (max_mem b))%nat) by (unfold lenN in *; lia).
      rewrite firstn_app_exact, skipn_app_exact by exact Hle.
      replace (N.to_nat (max_mem b - lenN acc)) with (N.to_nat (max_mem b) - length acc)%nat
        by (unfold lenN; lia).
      reflexivity.
  - (* spill exists *)
    eexists; split; [reflexivity|]. unfold wf, layout; cbn.
    rewrite lenN_app.
    assert (E2 : lenN acc + lenN p <=? max_mem b = false) by lia. rewrite E2.
    assert (Hge : (N.to_nat (max_mem b) <= length acc)%nat) by (unfold lenN in *; lia).
    assert (Hlay : (mem b, Some (skipn (N.to_nat (max_mem b)) acc ++ p)) =
       (firstn (N.to_nat (max_mem b)) (acc ++ p),
        Some (skipn (N.to_nat (max_mem b)) (acc ++ p)))).
    { rewrite firstn_app, skipn_app.
      replace (N.to_nat (max_mem b) - length acc)%nat with 0%nat by lia.
      cbn. rewrite app_nil_r, Hm. reflexivity. }
    repeat split; auto.
Qed.

(** ** Whole write sequences *)

(** Declarative result of a chunk sequence: the accepted bytes and whether
    some chunk was rejected. *)
Fixpoint accepted (maxb : N) (acc : str) (chunks : list str) : str * bool :=
  match chunks with
  | [] => (acc, false)
  | p :: cs =>
    if would_overflow maxb acc p
    then (fst (accepted maxb acc cs), true)
    else accepted maxb (acc ++ p) cs
  end.

Lemma set_overflow_wf b acc : wf b acc -> wf (set_overflow b) acc.
Proof. unfold wf, set_overflow; cbn; tauto. Qed.

Lemma writes_spec : forall chunks b acc,
  wf b acc ->
  let '(b', _) := writes b chunks in
  wf b' (fst (accepted (max_bytes b) acc chunks)) /\
  max_bytes b' = max_bytes b /\ max_mem b' = max_mem b /\
  overflowed b' = (overflowed b || snd (accepted (max_bytes b) acc chunks))%bool.
Proof.
  induction chunks as [|p cs IH]; intros b acc Hwf; cbn [writes accepted].
  - cbn. rewrite orb_false_r. auto.
  - pose proof (write_spec b acc p Hwf) as Hw.
    destruct (would_overflow (max_bytes b) acc p) eqn:Eo.
    + rewrite Hw. specialize (IH (set_overflow b) acc (set_overflow_wf _ _ Hwf)).
      destruct (writes (set_overflow b) cs) as [b2 rs]. cbn in IH |- *.
      destruct IH as (H1 & H2 & H3 & H4). refine (conj H1 (conj H2 (conj H3 _))).
      rewrite H4. rewrite orb_true_r. reflexivity.
    + destruct Hw as (b1 & Hw & Hwf1 & Hb & Hm & Ho). rewrite Hw.
      specialize (IH b1 (acc ++ p) Hwf1). destruct (writes b1 cs) as [b2 rs].
      rewrite Hb in IH. destruct IH as (H1 & H2 & H3 & H4).
      refine (conj H1 (conj _ (conj _ _))); congruence.
Qed.

(** Results returned by the individual writes. *)
Fixpoint write_results (maxb : N) (acc : str) (chunks : list str) : list (N * werr) :=
  match chunks with
  | [] => []
  | p :: cs =>
    if would_overflow maxb acc p
    then (0, WMaxExceeded) :: write_results maxb acc cs
    else (lenN p, WOk) :: write_results maxb (acc ++ p) cs
  end.

Lemma writes_results : forall chunks b acc,
  wf b acc -> snd (writes b chunks) = write_results (max_bytes b) acc chunks.
Proof.
  induction chunks as [|p cs IH]; intros b acc Hwf; cbn [writes write_results]; [reflexivity|].
  pose proof (write_spec b acc p Hwf) as Hw.
  destruct (would_overflow (max_bytes b) acc p) eqn:Eo.
  - rewrite Hw. specialize (IH (set_overflow b) acc (set_overflow_wf _ _ Hwf)).
    destruct (writes (set_overflow b) cs) as [b2 rs]. cbn in *. congruence.
  - destruct Hw as (b1 & Hw & Hwf1 & Hb & Hm & Ho). rewrite Hw.
    specialize (IH b1 (acc ++ p) Hwf1). destruct (writes b1 cs) as [b2 rs]. cbn in *.
    rewrite Hb in IH. congruence.
Qed.

(** ** Consequences used by the property theorems *)

Lemma layout_contents maxm acc :
  let '(m, d) := layout maxm acc in m ++ match d with Some x => x | None => [] end = acc.
Proof.
  unfold layout. destruct (lenN acc <=? maxm).
  - apply app_nil_r.
  - apply firstn_skipn.
Qed.

Lemma wf_contents b acc : wf b acc -> contents b = acc.
Proof.
  intros (_ & _ & _ & Hl & _). unfold contents.
  pose proof (layout_contents (max_mem b) acc) as H. rewrite <- Hl in H. exact H.
Qed.

Lemma wf_mem_bound b acc : wf b acc -> mem_written b <= max_mem b.
Proof.
  intros (_ & _ & _ & Hl & _). unfold mem_written, layout in *.
  destruct (lenN acc <=? max_mem b) eqn:E; inversion Hl as [[Hm Hd]]; rewrite Hm.
  - lia.
  - unfold lenN. rewrite firstn_length. lia.
Qed.

Lemma wf_mem_exact b acc : wf b acc ->
  mem b = firstn (N.to_nat (max_mem b)) acc.
Proof.
  intros (_ & _ & _ & Hl & _). unfold layout in *.
  destruct (lenN acc <=? max_mem b) eqn:E; inversion Hl as [[Hm Hd]]; rewrite Hm; auto.
  rewrite firstn_all2; auto. unfold lenN in E. lia.
Qed.

Lemma wf_spill_iff b acc : wf b acc ->
  (spill_live b = true <-> max_mem b < lenN acc) /\
  (disk b <> None <-> max_mem b < lenN acc) /\
  (forall d, disk b = Some d -> d = skipn (N.to_nat (max_mem b)) acc).
Proof.
  intros (_ & _ & _ & Hl & Hs). unfold layout in *.
  destruct (lenN acc <=? max_mem b) eqn:E; inversion Hl as [[Hm Hd]]; rewrite Hs, Hd; cbn.
  - repeat split; intros; try congruence; try (exfalso; rewrite ?Hm in *; lia).
  - repeat split; intros; try congruence; try lia.
Qed.

(** No chunk rejected: the accepted bytes are the concatenation. *)
Lemma accepted_no_overflow : forall chunks maxb acc,
  snd (accepted maxb acc chunks) = false ->
  fst (accepted maxb acc chunks) = acc ++ concat chunks.
Proof.
  induction chunks as [|p cs IH]; intros maxb acc H; cbn in *.
  - now rewrite app_nil_r.
  - destruct (would_overflow maxb acc p); [discriminate|].
    rewrite IH by exact H. now rewrite app_assoc.
Qed.

(** Accepted bytes never exceed a positive total limit. *)
Lemma accepted_bound : forall chunks maxb acc,
  0 < maxb -> lenN acc <= maxb -> lenN (fst (accepted maxb acc chunks)) <= maxb.
Proof.
  induction chunks as [|p cs IH]; intros maxb acc Hp Ha; cbn; [exact Ha|].
  unfold would_overflow. destruct ((0 <? maxb) && (maxb <? lenN acc + lenN p)) eqn:E; cbn.
  - apply IH; assumption.
  - apply IH; [assumption|]. rewrite lenN_app. lia.
Qed.

(** With unlimited size nothing is ever rejected. *)
Lemma accepted_unlimited : forall chunks acc, snd (accepted 0 acc chunks) = false.
Proof.
  induction chunks as [|p cs IH]; intros acc; cbn; [reflexivity|].
  unfold would_overflow. cbn. apply IH.
Qed.

(** Overflow iff the limit is positive and the whole body is too long
    (for a chunk sequence started on an empty buffer the first rejected
    chunk is the first one that takes the running total past the limit;
    stated on totals: some prefix sum exceeds the limit iff, because lengths
    are non-negative, ... the full characterisation is [overflow_iff_prefix]). *)
Fixpoint prefix_exceeds (maxb : N) (sofar : N) (chunks : list str) : bool :=
  match chunks with
  | [] => false
  | p :: cs => (maxb <? sofar + lenN p) || prefix_exceeds maxb (sofar + lenN p) cs
  end.

Lemma prefix_exceeds_total : forall chunks maxb sofar,
  prefix_exceeds maxb sofar chunks = true <-> chunks <> [] /\ maxb < sofar + lenN (concat chunks).
Proof.
  induction chunks as [|p cs IH]; intros maxb sofar; cbn.
  - split; [discriminate|intros [H _]; congruence].
  - rewrite lenN_app. rewrite orb_true_iff, IH. split.
    + intros [H|[H1 H2]]; split; try discriminate; lia.
    + intros [_ H]. destruct cs as [|q cs'].
      * left. cbn in *. lia.
      * destruct (maxb <? sofar + lenN p) eqn:E; [left; reflexivity|right].
        split; [discriminate|]. lia.
Qed.

Lemma accepted_overflow_iff : forall chunks maxb acc,
  snd (accepted maxb acc chunks) = ((0 <? maxb) && prefix_exceeds maxb (lenN acc) chunks)%bool.
Proof.
  induction chunks as [|p cs IH]; intros maxb acc; cbn.
  - now rewrite andb_false_r.
  - unfold would_overflow.
    destruct (0 <? maxb) eqn:Ep; cbn.
    + destruct (maxb <? lenN acc + lenN p) eqn:E; cbn; [reflexivity|].
      rewrite IH, Ep, lenN_app. reflexivity.
    + rewrite IH, Ep. reflexivity.
Qed.

(** ** copy_in (io.Copy into the buffer) *)

Lemma copy_in_spec : forall chunks b acc,
  wf b acc ->
  let '(b', e) := copy_in b chunks in
  if snd (accepted (max_bytes b) acc chunks)
  then e = WMaxExceeded /\ overflowed b' = true /\ exists acc', wf b' acc'
  else e = WOk /\ wf b' (acc ++ concat chunks) /\ overflowed b' = overflowed b /\
       max_mem b' = max_mem b.
Proof.
  induction chunks as [|p cs IH]; intros b acc Hwf; cbn [copy_in accepted].
  - cbn. rewrite app_nil_r. auto.
  - pose proof (write_spec b acc p Hwf) as Hw.
    destruct (would_overflow (max_bytes b) acc p) eqn:Eo.
    + rewrite Hw. cbn. repeat split; auto. exists acc. now apply set_overflow_wf.
    + destruct Hw as (b1 & Hw & Hwf1 & Hb & Hm & Ho). rewrite Hw.
      specialize (IH b1 (acc ++ p) Hwf1). destruct (copy_in b1 cs) as [b2 e].
      rewrite Hb in IH.
      destruct (snd (accepted (max_bytes b) (acc ++ p) cs)).
      * exact IH.
      * destruct IH as (H1 & H2 & H3 & H4). rewrite <- app_assoc in H2.
        cbn [concat]. refine (conj H1 (conj H2 (conj _ _))); congruence.
Qed.

(** ** close *)

Lemma close_no_spill b : spill_live (close b) = false \/ closed b = true.
Proof. unfold close. destruct (closed b); [right; reflexivity|left; reflexivity]. Qed.

Lemma close_idem b : close (close b) = close b.
Proof. unfold close. destruct (closed b) eqn:E; [now rewrite E|reflexivity]. Qed.

Lemma wf_close_no_spill b acc : wf b acc -> spill_live (close b) = false.
Proof. intros (_ & Hc & _). unfold close. now rewrite Hc. Qed.

(** ** Request middleware *)

Definition body_too_large (maxb : N) (body : str) : bool := (0 <? maxb) && (maxb <? lenN body).

Lemma overflow_chunking_irrelevant chunks maxb :
  snd (accepted maxb [] chunks) = body_too_large maxb (concat chunks).
Proof.
  rewrite accepted_overflow_iff. unfold body_too_large. cbn.
  destruct (0 <? maxb); cbn; [|reflexivity].
  destruct (prefix_exceeds maxb 0 chunks) eqn:E.
  - apply prefix_exceeds_total in E. lia.
  - destruct (maxb <? lenN (concat chunks)) eqn:E2; [|reflexivity].
    assert (H : prefix_exceeds maxb 0 chunks = true).
    { apply prefix_exceeds_total. split; [|lia]. intros ->. cbn in E2. lia. }
    congruence.
Qed.

Lemma wf_send b acc : wf b acc -> snd (send b) = acc /\ spill_live (close (fst (send b))) = false.
Proof.
  intros Hwf. pose proof (wf_contents _ _ Hwf) as Hc.
  destruct Hwf as (_ & Hcl & Hd & _). unfold send. rewrite Hd. cbn. split; [exact Hc|].
  unfold close. cbn. rewrite Hcl. reflexivity.
Qed.

(** The request middleware, for every limit setting and every chunking: the
    next handler is reached iff the body fits, with exactly the body; the
    spill file is gone afterwards in every case. *)
Lemma req_mw_spec maxm maxb chunks :
  req_mw maxm maxb chunks false =
    (if body_too_large maxb (concat chunks) then Req413 else ReqForward (concat chunks),
     snd (req_mw maxm maxb chunks false)) /\
  spill_live (snd (req_mw maxm maxb chunks false)) = false.
Proof.
  unfold req_mw.
  pose proof (copy_in_spec chunks (new_buf maxb maxm) [] (wf_new maxb maxm)) as H.
  destruct (copy_in (new_buf maxb maxm) chunks) as [b e].
  change (max_bytes (new_buf maxb maxm)) with maxb in H.
  rewrite overflow_chunking_irrelevant in H.
  destruct (body_too_large maxb (concat chunks)).
  - destruct H as (-> & _ & acc' & Hwf). cbn. split; [reflexivity|].
    eapply wf_close_no_spill; eauto.
  - destruct H as (-> & Hwf & _). cbn in Hwf.
    pose proof (wf_send _ _ Hwf) as [Hs Hc].
    destruct (send b) as [b1 body]. cbn in *. subst body. split; [reflexivity|exact Hc].
Qed.

Lemma req_mw_abort_spec maxm maxb chunks :
  fst (req_mw maxm maxb chunks true) <> ReqForward (concat chunks) /\
  (forall body, fst (req_mw maxm maxb chunks true) <> ReqForward body) /\
  spill_live (snd (req_mw maxm maxb chunks true)) = false.
Proof.
  unfold req_mw.
  pose proof (copy_in_spec chunks (new_buf maxb maxm) [] (wf_new maxb maxm)) as H.
  destruct (copy_in (new_buf maxb maxm) chunks) as [b e].
  destruct (snd (accepted (max_bytes (new_buf maxb maxm)) [] chunks)).
  - destruct H as (-> & _ & acc' & Hwf). cbn. repeat split; try discriminate.
    eapply wf_close_no_spill; eauto.
  - destruct H as (-> & Hwf & _). cbn. repeat split; try discriminate.
    eapply wf_close_no_spill; eauto.
Qed.

(** ** Response middleware *)

Definition body_op (o : hop) : Prop :=
  match o with HWrite _ | HFlush => True | _ => False end.

Definition hop_chunks (ops : list hop) : list str :=
  flat_map (fun o => match o with HWrite p => [p] | _ => [] end) ops.

Lemma fold_body_buffered : forall ops w,
  Forall body_op ops -> rbypass w = false ->
  let w' := fold_left rw_step ops w in
  rbuf w' = fst (writes (rbuf w) (hop_chunks ops)) /\ rstatus w' = rstatus w /\
  rheader_written w' = rheader_written w /\ rhijacked w' = rhijacked w /\
  rbypass w' = false /\ rout w' = rout w.
Proof.
  induction ops as [|o ops IH]; intros w Hall Hb; cbn [fold_left].
  - cbn. repeat split; auto.
  - inversion Hall as [|? ? Ho Hall']; subst.
    destruct o as [s sse|p| |]; cbn in Ho; try contradiction.
    + (* HWrite *)
      change (hop_chunks (HWrite p :: ops)) with (p :: hop_chunks ops).
      cbn [rw_step writes]. rewrite Hb.
      destruct (write (rbuf w) p) as [b1 r] eqn:Ew.
      specialize (IH (mkRw b1 (rstatus w) (rheader_written w) (rhijacked w) false (rout w)) Hall' eq_refl).
      cbn [rbuf rstatus rheader_written rhijacked rbypass rout] in IH.
      destruct (writes b1 (hop_chunks ops)) as [b2 rs] eqn:Ews. exact IH.
    + (* HFlush *)
      change (hop_chunks (HFlush :: ops)) with (hop_chunks ops).
      cbn [rw_step]. rewrite Hb. apply IH; assumption.
Qed.

Definition plain_view (status : N) (body : str) : client_view := mkView status body 0 false.

(** Non-streaming response: [WriteHeader s] followed by any writes/flushes. *)
Lemma resp_mw_buffered_spec maxm maxb s ops :
  is_informational s = false ->
  Forall body_op ops ->
  let body := concat (hop_chunks ops) in
  client_view_of (fst (resp_mw maxm maxb (HWriteHeader s false :: ops))) =
    (if body_too_large maxb body then plain_view 500 err500_body else plain_view s body) /\
  spill_live (snd (resp_mw maxm maxb (HWriteHeader s false :: ops))) = false.
Proof.
  intros Hinf Hall body. unfold resp_mw.
  set (w0 := mkRw (new_buf maxb maxm) s true false false []).
  assert (E0 : fold_left rw_step (HWriteHeader s false :: ops) (new_rw maxm maxb) = fold_left rw_step ops w0).
  { cbn [fold_left rw_step]. rewrite Hinf. reflexivity. }
  rewrite E0. clear E0.
  pose proof (fold_body_buffered ops w0 Hall eq_refl) as H. cbn in H.
  destruct H as (Hbuf & Hst & Hhw & Hhj & Hbp & Hout).
  set (w' := fold_left rw_step ops w0) in *.
  pose proof (writes_spec (hop_chunks ops) (new_buf maxb maxm) [] (wf_new maxb maxm)) as Hw.
  destruct (writes (new_buf maxb maxm) (hop_chunks ops)) as [b' rs]. cbn in Hbuf, Hw.
  destruct Hw as (Hwf & _ & _ & Hov).
  rewrite overflow_chunking_irrelevant in Hov. fold body in Hov.
  unfold rw_send. rewrite Hbuf, Hov.
  destruct (body_too_large maxb body) eqn:Eo.
  - cbn. rewrite Hout. cbn. split; [reflexivity|]. rewrite Hbuf. eapply wf_close_no_spill; eauto.
  - rewrite Hhj, Hhw, Hst, Hout.
    rewrite accepted_no_overflow in Hwf
      by (rewrite overflow_chunking_irrelevant; exact Eo).
    cbn [app] in Hwf. fold body in Hwf.
    pose proof (wf_send _ _ Hwf) as [Hs Hc].
    destruct (send b') as [b1 data]. cbn in Hs, Hc. subst data.
    destruct body as [|c body']; cbn; rewrite Hinf; cbn; (split; [reflexivity|exact Hc]).
Qed.

(** Event stream: everything after the header passes straight through, in
    order, with the flushes. *)
Definition passthrough (o : hop) : list cev :=
  match o with HWrite p => [CWrite p] | HFlush => [CFlush] | _ => [] end.

Lemma fold_body_bypass : forall ops w,
  Forall body_op ops -> rbypass w = true ->
  let w' := fold_left rw_step ops w in
  rbuf w' = rbuf w /\ rstatus w' = rstatus w /\
  rheader_written w' = rheader_written w /\ rhijacked w' = rhijacked w /\
  rbypass w' = true /\ rout w' = rev (flat_map passthrough ops) ++ rout w.
Proof.
  induction ops as [|o ops IH]; intros w Hall Hb; cbn [fold_left flat_map].
  - cbn. repeat split; auto.
  - inversion Hall as [|? ? Ho Hall']; subst.
    destruct o as [s sse|p| |]; cbn in Ho; try contradiction; cbn [rw_step]; rewrite Hb.
    + match goal with |- context [fold_left rw_step ops ?w1] => specialize (IH w1 Hall' eq_refl) end.
      cbn in IH. destruct IH as (? & ? & ? & ? & ? & Hout).
      repeat split; auto. rewrite Hout. cbn. rewrite <- app_assoc. reflexivity.
    + match goal with |- context [fold_left rw_step ops ?w1] => specialize (IH w1 Hall' eq_refl) end.
      cbn in IH. destruct IH as (? & ? & ? & ? & ? & Hout).
      repeat split; auto. rewrite Hout. cbn. rewrite <- app_assoc. reflexivity.
Qed.

Lemma resp_mw_stream_spec maxm maxb s ops :
  is_informational s = false ->
  Forall body_op ops ->
  fst (resp_mw maxm maxb (HWriteHeader s true :: ops)) =
    CWriteHeader s :: flat_map passthrough ops ++ [CWriteHeader s] /\
  spill_live (snd (resp_mw maxm maxb (HWriteHeader s true :: ops))) = false.
Proof.
  intros Hs Hall. unfold resp_mw. cbn [fold_left rw_step new_rw rheader_written]. rewrite Hs.
  cbn [rw_send rbuf new_buf overflowed rhijacked fst send drained rout rstatus rbypass].
  match goal with |- context [fold_left rw_step ops ?w1] =>
    pose proof (fold_body_bypass ops w1 Hall eq_refl) as H; set (w' := fold_left rw_step ops w1) in * end.
  cbn in H. destruct H as (Hbuf & Hst & Hhw & Hhj & Hbp & Hout).
  unfold rw_send. rewrite Hbuf, Hhj, Hhw, Hst, Hout. cbn.
  rewrite rev_app_distr. cbn. rewrite rev_involutive. split; reflexivity.
Qed.
