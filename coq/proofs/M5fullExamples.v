(** M5fullExamples.v — small hand-written traces in the vocabulary of
    model/Trace.v, used as non-vacuity witnesses by props/C02.v and props/C03.v. *)
From KP Require Import model.Base model.Trace model.M5full.
Local Open Scope N_scope.

Definition ev (t : N) (a : actor) (k : kind) : event := mkEv t a k.

(** deploy of the 2-target balancer lb0 = [t0 "a"; t1 "b"] into service object 0 "web" *)
Definition deploy0 : trace := [
  ev 0 (ACmd 0) (KLbNew 0 [0; 1]%nat);
  ev 0 (ACmd 0) (KTargetName 0 (bs "a"));
  ev 0 (ACmd 0) (KTargetName 1 (bs "b"));
  ev 1 AEnv (KProbeApply 0 true TAdding THealthy);
  ev 1 AEnv (KRotation 0 [0]%nat);
  ev 2 AEnv (KProbeApply 1 true TAdding THealthy);
  ev 2 AEnv (KRotation 0 [0; 1]%nat);
  ev 3 (ACmd 0) (KDeployWaited 0 true);
  ev 3 (ACmd 0) (KSvcName 0 (bs "web"));
  ev 3 (ACmd 0) (KSlot 0 false 0 None);
  ev 3 (ACmd 0) (KInstall 0 true)].

(** request r up to the pick of lb0 *)
Definition req_picked (r : nat) (t0 : N) : trace := [
  ev t0 (AReq r) (KArrive r);
  ev t0 (AReq r) (KRouted r (Some 0%nat));
  ev t0 (AReq r) (KGateResult r 0 AProceed);
  ev t0 (AReq r) (KPick r 0 (Some 0%nat))].

(** request r claimed on target t of lb0 and still being served *)
Definition req_hang_on (r t : nat) (t0 : N) : trace :=
  req_picked r t0 ++ [
  ev t0 (AReq r) (KLbClaim 0 (Some t) r);
  ev t0 (AReq r) (KClaim t r);
  ev t0 (AReq r) (KAtTarget t r)].

(** request r served 200 by t1 "b" (the first claim of lb0 goes to index 1) *)
Definition req_ok (r : nat) (t0 : N) : trace :=
  req_hang_on r 1 t0 ++ [
  ev (t0+1) (AReq r) (KTargetReplied 1 r 200);
  ev (t0+1) (AReq r) (KEnd 1 r);
  ev (t0+1) (AReq r) (KRespond r 200 (bs "b"))].

(** redeploy: lb1 = [t2 "c"] waited for, a copy (object 1) of the service gets it as active slot, is installed *)
Definition redeploy1 (t0 : N) : trace := [
  ev t0 (ACmd 1) (KLbNew 1 [2]%nat);
  ev t0 (ACmd 1) (KTargetName 2 (bs "c"));
  ev (t0+1) AEnv (KProbeApply 2 true TAdding THealthy);
  ev (t0+1) AEnv (KRotation 1 [2]%nat);
  ev (t0+1) (ACmd 1) (KDeployWaited 1 true);
  ev (t0+1) (ACmd 1) (KSvcCopy 0 1);
  ev (t0+1) (ACmd 1) (KSvcName 1 (bs "web"));
  ev (t0+1) (ACmd 1) (KSlot 1 false 1 (Some 0%nat));
  ev (t0+1) (ACmd 1) (KInstall 1 true)].

(** Drain of t0 by goroutine 1, timeout 100: request 1 never finishes, is cut off at the deadline with a 504 *)
Definition drain_t0_deadline (t0 : N) : trace := [
  ev t0 (AGo 1) (KStateSet 0 THealthy TDraining);
  ev t0 (AGo 1) (KDrainBegin 0 THealthy 100);
  ev t0 (AGo 1) (KDrainSnapshot 0 [(1%nat, false)]);
  ev (t0+100) (AGo 1) (KDrainDeadline 0);
  ev (t0+100) (AGo 1) (KDrainCancelRest 0);
  ev (t0+100) (AReq 1) (KTargetFailed 0 1 1);
  ev (t0+100) (AReq 1) (KEnd 0 1);
  ev (t0+100) (AReq 1) (KRespond 1 504 (bs "a"));
  ev (t0+100) (AGo 1) (KStateSet 0 TDraining THealthy);
  ev (t0+100) (ACmd 1) (KLbDispose 0)].

(** the same Drain when request 1 finishes after 5 ns *)
Definition drain_t0_early (t0 : N) : trace := [
  ev t0 (AGo 1) (KStateSet 0 THealthy TDraining);
  ev t0 (AGo 1) (KDrainBegin 0 THealthy 100);
  ev t0 (AGo 1) (KDrainSnapshot 0 [(1%nat, false)]);
  ev (t0+5) (AReq 1) (KTargetReplied 0 1 200);
  ev (t0+5) (AReq 1) (KEnd 0 1);
  ev (t0+5) (AReq 1) (KRespond 1 200 (bs "a"));
  ev (t0+5) (AGo 1) (KDrainCancelRest 0);
  ev (t0+5) (AGo 1) (KStateSet 0 TDraining THealthy);
  ev (t0+5) (ACmd 1) (KLbDispose 0)].

(** deploy; request 0 served; request 1 in flight on t0; redeploy; drain of t0 *)
Definition ex_prefix : trace := deploy0 ++ req_ok 0 10 ++ req_hang_on 1 0 20 ++ redeploy1 30.
Definition ex_deadline : trace := ex_prefix ++ drain_t0_deadline 40.
Definition ex_early : trace := ex_prefix ++ drain_t0_early 40.

(** D2/D3: request 1 picked lb0 before the swap and claims after the Drain of t0 began: 503 *)
Definition ex_race : trace := deploy0 ++ req_ok 0 10 ++ req_picked 1 20 ++ redeploy1 30 ++ [
  ev 40 (AGo 1) (KStateSet 0 THealthy TDraining);
  ev 40 (AGo 1) (KDrainBegin 0 THealthy 100);
  ev 41 (AReq 1) (KLbClaim 0 (Some 0%nat) 1);
  ev 41 (AReq 1) (KClaimRefused 0 1);
  ev 41 (AReq 1) (KRespond 1 503 [])].

(** D12: a successful probe flips the draining t0 back to healthy; a claim is accepted while the Drain is open *)
Definition ex_flip_pre : trace := deploy0 ++ req_ok 0 10 ++ req_picked 1 20.
Definition ex_flip_mid : trace := [
  ev 40 (AGo 1) (KDrainSnapshot 0 []);
  ev 41 AEnv (KProbeApply 0 true TDraining THealthy);
  ev 42 (AReq 1) (KLbClaim 0 (Some 0%nat) 1)].
Definition ex_flip : trace := ex_flip_pre ++
  ev 40 (AGo 1) (KStateSet 0 THealthy TDraining) ::
  ev 40 (AGo 1) (KDrainBegin 0 THealthy 100) :: ex_flip_mid ++ [ev 42 (AReq 1) (KClaim 0 1)].

(** a refusal between the mark and the drain-begin event: lb0 is not (yet) tainted *)
Definition ex_untainted_pre : trace := deploy0 ++ req_ok 0 10 ++ req_picked 1 20 ++ [
  ev 40 (AGo 1) (KStateSet 0 THealthy TDraining);
  ev 41 (AReq 1) (KLbClaim 0 (Some 0%nat) 1)].
Definition ex_untainted : trace := ex_untainted_pre ++ [ev 41 (AReq 1) (KClaimRefused 0 1)].

(** the state-set rule alone: a waited, untainted balancer with a draining target *)
Definition ex_marked : trace := deploy0 ++ [ev 40 (AGo 1) (KStateSet 0 THealthy TDraining)].

(** a snapshot that lists request 1 twice while requests 1 and 3 are in flight on t1: rejected (ids must be distinct) *)
Definition ex_dup_pre : trace := deploy0 ++ req_hang_on 1 1 20 ++ req_hang_on 2 0 21 ++ req_hang_on 3 1 22 ++ [
  ev 40 (AGo 1) (KStateSet 1 THealthy TDraining);
  ev 40 (AGo 1) (KDrainBegin 1 THealthy 100)].
Definition ex_dup_ev : event := ev 40 (AGo 1) (KDrainSnapshot 1 [(1%nat, false); (1%nat, false)]).
Definition ex_dup : trace := ex_dup_pre ++ [ex_dup_ev].

(** a second Drain of the draining t0 (goroutine 2) returns at once *)
Definition ex_second_drain : trace := ex_prefix ++ [
  ev 40 (AGo 1) (KStateSet 0 THealthy TDraining);
  ev 40 (AGo 1) (KDrainBegin 0 THealthy 100);
  ev 41 (AGo 2) (KStateSet 0 TDraining TDraining);
  ev 41 (AGo 2) (KDrainBegin 0 TDraining 100)].

(** upgraded connection (request 1: target answered 101, connection taken over) and a plain
    hanging request 3 on t1 "b"; Drain of t1 with timeout 3 s: request 1 is cut at the
    snapshot, request 3 at the deadline *)
Definition ex_upgrade_pre : trace := deploy0 ++
  req_hang_on 1 1 20 ++ [
  ev 21 (AReq 1) (KTargetReplied 1 1 101);
  ev 21 (AReq 1) (KHijacked 1)] ++
  req_hang_on 2 0 22 ++ req_hang_on 3 1 23 ++ [
  ev 40 (AGo 1) (KStateSet 1 THealthy TDraining);
  ev 40 (AGo 1) (KDrainBegin 1 THealthy 3000000000)].
Definition ex_upgrade_snap : event := ev 40 (AGo 1) (KDrainSnapshot 1 [(1%nat, true); (3%nat, false)]).
Definition ex_upgrade_mid : trace := [
  ev 41 (AReq 1) (KEnd 1 1);
  ev 41 (AReq 1) (KRespond 1 101 (bs "b"));
  ev 3000000040 (AGo 1) (KDrainDeadline 1)].
Definition ex_upgrade_rest : event := ev 3000000040 (AGo 1) (KDrainCancelRest 1).
Definition ex_upgrade_post : trace := [
  ev 3000000040 (AReq 3) (KTargetFailed 1 3 1);
  ev 3000000040 (AReq 3) (KEnd 1 3);
  ev 3000000040 (AReq 3) (KRespond 3 504 (bs "b"));
  ev 3000000040 (AGo 1) (KStateSet 1 TDraining THealthy)].
Definition ex_upgrade : trace :=
  ex_upgrade_pre ++ ex_upgrade_snap :: ex_upgrade_mid ++ ex_upgrade_rest :: ex_upgrade_post.

(** the same with request 3 upgraded: the duplicate snapshot [ex_dup_ev] is rejected here too *)
Definition ex_dup_up_pre : trace := deploy0 ++ req_hang_on 1 1 20 ++ req_hang_on 2 0 21 ++ req_hang_on 3 1 22 ++ [
  ev 23 (AReq 3) (KTargetReplied 1 3 101);
  ev 23 (AReq 3) (KHijacked 3);
  ev 40 (AGo 1) (KStateSet 1 THealthy TDraining);
  ev 40 (AGo 1) (KDrainBegin 1 THealthy 100)].
