(** C05refusalLink.v — the sequential machine M4 (model/Seq.v, variant [fixed]) satisfies the refusal
    monitor [c05_refusal_ok] of corr/C05cmd.v on EVERY command history: a deploy answered EHostInUse
    conflicts with another service of the commanded table as it stood before the command, a deploy
    answered OOk does not.

    The invariant is the one of proofs/C05cmdLink.v: the commanded table is a permutation of the model's
    table ([TRel], [step_trel]).  [conflicts] is invariant under permutation of the table (it is a
    statement about [binds]), the model answers EHostInUse exactly when [conflicts] holds of its own table
    and of the normalised options, and no other check of a deploy (certificate, pages, target names,
    health) answers EHostInUse. *)
From KP Require Import model.Base model.ServiceMap model.Seq corr.M4corr corr.C04cmd corr.C05cmd
  proofs.SeqFacts proofs.SeqInv proofs.M4Link proofs.M4LinkC05 proofs.C04cmdLink proofs.C05cmdLink.
From KP Require proofs.ServiceMapFacts.
From Coq Require Import Permutation.
Local Open Scope N_scope.

(** ** [conflicts] does not depend on the order of the table *)

Lemma binds_perm t1 t2 h p n :
  Permutation t1 t2 -> ServiceMapFacts.binds t1 h p n -> ServiceMapFacts.binds t2 h p n.
Proof.
  intros P (s & Hs & H). exists s. split; [|exact H]. now apply (Permutation_in s P).
Qed.

Lemma conflicts_perm t1 t2 name hs ps :
  Permutation t1 t2 -> conflicts t1 name hs ps = conflicts t2 name hs ps.
Proof.
  intros P. apply Bool.eq_true_iff_eq. rewrite !ServiceMapFacts.conflicts_iff.
  split; intros (h & p & n & Hh & Hp & B & Hne); exists h, p, n; repeat split; try assumption.
  - now apply (binds_perm t1 t2).
  - apply (binds_perm t2 t1); [now apply Permutation_sym|exact B].
Qed.

Lemma cmd_conflicts_trel l svcs name op :
  TRel l svcs ->
  cmd_conflicts l name op =
  conflicts (table_of svcs) name (normalize_hosts (o_hosts op)) (normalize_prefixes (o_prefixes op)).
Proof. intros HR. unfold cmd_conflicts. now apply conflicts_perm. Qed.

(** ** One command *)

(** the monitor's step on the command and its result alone (it reads nothing else of the observation) *)
Definition refusal_rc (l : list cmd_svc) (r : res_obs) (c : cmd) : bool :=
  refusal_step_ok l (mkStep c r [] None [] []).

Lemma refusal_step_state_obs ig st c r reqs l :
  refusal_step_ok l (state_obs ig st c r reqs) = refusal_rc l (res_obs_of r) c.
Proof. reflexivity. Qed.

(** the initialisation of a deploy (certificate, error pages) never answers "host in use" *)
Lemma init_check_not_host_in_use v o : init_check v o <> Some EHostInUse.
Proof.
  unfold init_check. intros H. cbv zeta in H.
  destruct (wants_cert v o); [destruct (o_cert o) eqn:Ec|];
    try destruct (existsb (fun h => contains_byte h star) (o_hosts o));
    destruct (o_pages o) eqn:Ep; discriminate H.
Qed.

Lemma step_refusal st l c :
  TRel l (st_services st) -> refusal_rc l (res_obs_of (fst (exec fixed st c))) c = true.
Proof.
  intros HR.
  destruct c as [name o t targets|name targets|name pct allow|name|name fa|name msg|name|name|];
    try reflexivity.
  unfold refusal_rc, refusal_step_ok. cbn [so_cmd so_result exec].
  destruct (init_check fixed (normalize o)) as [e|] eqn:Ei.
  - cbn [fst res_obs_of]. destruct e; try reflexivity.
    exfalso. now apply (init_check_not_host_in_use fixed (normalize o)).
  - rewrite deploy_into_fixed. cbv zeta.
    destruct (negb (forallb valid_target_name _)); [reflexivity|].
    destruct (negb (forallb tg_healthy _)); [reflexivity|].
    rewrite (cmd_conflicts_trel l (st_services st) name o HR).
    destruct (svc_get (st_services st) name) as [old|];
      cbn [s_name s_opts normalize o_hosts o_prefixes];
      destruct (conflicts _ _ _ _); reflexivity.
Qed.

(** ** Whole histories *)

Lemma c05_refusal_from_model ig reqs cs : forall st l,
  Inv st -> TRel l (st_services st) ->
  c05_refusal_from l (model_history_from ig fixed st cs reqs) = true.
Proof.
  induction cs as [|c cs IH]; intros st l HI HR; [reflexivity|].
  rewrite model_history_cons. cbn [c05_refusal_from].
  rewrite refusal_step_state_obs, cmd_apply_state_obs.
  rewrite (step_refusal st l c HR). cbn [andb].
  apply IH; [now apply exec_inv|now apply step_trel].
Qed.

(** The link: no hypothesis on the commands, none on the requests. *)
Lemma c05_refusal_of_model ig cs reqs : c05_refusal_ok (model_history ig fixed cs reqs) = true.
Proof.
  unfold c05_refusal_ok, model_history. apply c05_refusal_from_model; [apply Inv_init|apply TRel_nil].
Qed.

Lemma c05_refusal_of_model_steps ig crs : forall st l,
  Inv st -> TRel l (st_services st) ->
  c05_refusal_from l (model_history_steps_from ig fixed st crs) = true.
Proof.
  induction crs as [|[c reqs] crs IH]; intros st l HI HR; [reflexivity|].
  rewrite model_history_steps_cons. cbn [c05_refusal_from].
  rewrite refusal_step_state_obs, cmd_apply_state_obs.
  rewrite (step_refusal st l c HR). cbn [andb].
  apply IH; [now apply exec_inv|now apply step_trel].
Qed.

Lemma c05_refusal_of_model_per_step ig crs : c05_refusal_ok (model_history_steps ig fixed crs) = true.
Proof.
  unfold c05_refusal_ok, model_history_steps. apply c05_refusal_of_model_steps; [apply Inv_init|apply TRel_nil].
Qed.

(** One step, as a statement about the model alone: from a state whose table is the commanded table up
    to order, a deploy is answered EHostInUse only if the commanded options conflict, and OOk only if not. *)
Lemma step_refusal_deploy st l name op t ts :
  TRel l (st_services st) ->
  (fst (exec fixed st (Deploy name op t ts)) = Err EHostInUse -> cmd_conflicts l name op = true) /\
  (fst (exec fixed st (Deploy name op t ts)) = Ok -> cmd_conflicts l name op = false).
Proof.
  intros HR. pose proof (step_refusal st l (Deploy name op t ts) HR) as H.
  unfold refusal_rc, refusal_step_ok in H. cbn [so_cmd so_result] in H.
  split; intros E; rewrite E in H; cbn [res_obs_of] in H; [exact H|].
  now apply Bool.negb_true_iff in H.
Qed.

(** ** The monitor reads the property *)

(** the commanded options claim a pair that a service of another name owns in [l] *)
Definition claims_owned_pair (l : list cmd_svc) (name : str) (op : sopts) : Prop :=
  exists h p n, In h (normalize_hosts (o_hosts op)) /\ In p (normalize_prefixes (o_prefixes op)) /\
    cmd_owns l h p n /\ n <> name.

Lemma cmd_conflicts_iff l name op : cmd_conflicts l name op = true <-> claims_owned_pair l name op.
Proof.
  unfold cmd_conflicts, claims_owned_pair. rewrite ServiceMapFacts.conflicts_iff.
  split; intros (h & p & n & Hh & Hp & B & Hne); exists h, p, n; repeat split; try assumption;
    now apply cmd_owns_binds.
Qed.

Lemma c05_refusal_from_nth h : forall l k o,
  c05_refusal_from l h = true -> nth_error h k = Some o ->
  refusal_step_ok (cmd_list_from l (firstn k h)) o = true.
Proof.
  induction h as [|x h IH]; intros l k o H Hk; [destruct k; discriminate Hk|].
  cbn [c05_refusal_from] in H. apply andb_true_iff in H as [H0 H].
  destruct k as [|k]; cbn [nth_error] in Hk.
  - injection Hk as <-. exact H0.
  - cbn [firstn cmd_list_from fold_left]. now apply IH.
Qed.

(** [c05_refusal_ok] says: the k-th step, if a deploy answered EHostInUse, claims a pair owned by another
    service in the commanded list of the first k steps; if a deploy answered OOk, it claims none. *)
Lemma c05_refusal_ok_reads h k o name op t ts :
  c05_refusal_ok h = true -> nth_error h k = Some o -> so_cmd o = Deploy name op t ts ->
  (so_result o = OErr EHostInUse -> claims_owned_pair (cmd_list_of (firstn k h)) name op) /\
  (so_result o = OOk -> ~ claims_owned_pair (cmd_list_of (firstn k h)) name op).
Proof.
  intros H Hk Hc. pose proof (c05_refusal_from_nth h [] k o H Hk) as S.
  unfold refusal_step_ok in S. rewrite Hc in S. split; intros Er; rewrite Er in S.
  - now apply cmd_conflicts_iff.
  - intros C. apply cmd_conflicts_iff in C. unfold cmd_list_of in C. rewrite C in S. discriminate S.
Qed.

(** ** On the tree as given ([pinned]) the statement is false: D17 (the command list of
    proofs/C05cmdLink.v [d17_cs]): after the restart the pinned proxy is empty, the deploy of "thief" on a
    pair still commanded for "api" is answered OOk. *)
Lemma c05_refusal_of_model_pinned_refuted :
  exists ig cs reqs, c05_refusal_ok (model_history ig pinned cs reqs) = false.
Proof. exists rf_ig, d17_cs, []. vm_compute. reflexivity. Qed.
