(** Tls.v — which certificate a TLS handshake gets (property C16):
    Router.GetCertificate (router.go), the static certificate manager
    (cert.go) and, for automatic TLS, the decisions autocert.Manager takes
    BEFORE it contacts the ACME server (x/crypto v0.36.0 acme/autocert:
    name shape, idna.Lookup.ToASCII, HostWhitelist).  The request-side policy
    (redirect / refuse) is in model/Seq.v [serve]; the inheritance of the TLS
    flags by sub-path services is Seq.[sync_tls].

    Scope of [idna_lookup_ascii]: names written with ASCII letters, digits,
    '-' and '.', without "xn--" labels.  On other input the real
    idna.Lookup.ToASCII maps, normalises and punycode-encodes; the model
    answers [None] (refuse) there and the correspondence run does not generate
    such names.  Executable; no proofs. *)
From KP Require Import model.Base model.ServiceMap model.Seq.
Local Open Scope N_scope.

Inductive cert_answer :=
| CRefuse                  (* GetCertificate returns an error: the handshake fails *)
| CStatic                  (* the service's certificate from disk *)
| CAuto (domain : str).    (* autocert serves / obtains a certificate for [domain] *)

(** ** idna.Lookup.ToASCII on ASCII names *)

Definition to_lower (b : byte) : byte :=
  if is_upper b then match Byte.of_N (byte_n b + 32) with Some c => c | None => b end else b.

Definition hyphen : byte := x2d.
Definition is_ldh (b : byte) : bool := is_alnum b || byte_eqb b hyphen.

(** labels: split at '.' *)
Fixpoint labels_aux (s cur : str) : list str :=
  match s with
  | [] => [rev cur]
  | b :: r => if byte_eqb b dot then rev cur :: labels_aux r [] else labels_aux r (b :: cur)
  end.
Definition labels (s : str) : list str := labels_aux s [].

(** validateLabel with CheckHyphens: no leading or trailing '-', no "--" in
    positions 3-4 (which also rules out "xn--": such labels are outside the
    modelled domain).  Empty labels pass (VerifyDNSLength is off in Lookup). *)
Definition label_ok (l : str) : bool :=
  match l with
  | [] => true
  | b :: _ =>
    negb (byte_eqb b hyphen) && negb (byte_eqb (last l b) hyphen) &&
    negb (Nat.ltb 4 (length l) && byte_eqb (nth 2 l b) hyphen && byte_eqb (nth 3 l b) hyphen)
  end.

Definition idna_lookup_ascii (s : str) : option str :=
  if forallb (fun b => is_ldh b || byte_eqb b dot) s && forallb label_ok (labels s)
  then Some (map to_lower s) else None.

(** ** autocert.Manager.GetCertificate up to the host policy *)

(** strings.TrimSuffix(name, ".") *)
Definition trim_suffix_dot (s : str) : str :=
  if has_suffix s [dot] then firstn (length s - 1) s else s.

(** HostWhitelist(hosts...): entries that fail the conversion are dropped. *)
Definition whitelist (hosts : list str) : list str :=
  flat_map (fun h => match idna_lookup_ascii h with Some a => [a] | None => [] end) hosts.

(** [Some domain]: the manager accepts the name and goes on to serve or obtain
    a certificate for [domain]; [None]: it returns an error first. *)
Definition acme_domain (hosts : list str) (sni : str) : option str :=
  if negb (contains_byte (trim_byte dot sni) dot) then None        (* "server name component count invalid" *)
  else match idna_lookup_ascii sni with
       | None => None                                              (* "server name contains invalid character" *)
       | Some name => if mem_str name (whitelist hosts) then Some (trim_suffix_dot name)
                      else None                                    (* "host not configured in HostWhitelist" *)
       end.

(** ** Router.GetCertificate *)

Definition cert_for (st : state) (sni : str) : cert_answer :=
  match sni with
  | [] => CRefuse                                                  (* ErrorNoServerName *)
  | _ :: _ =>
    match service_for (table_of (st_services st)) sni root_path with
    | None => CRefuse                                              (* ErrorUnknownServerName *)
    | Some (n, _) =>
      match svc_get (st_services st) n with
      | None => CRefuse
      | Some s =>
        if negb (s_has_cert s) then CRefuse                        (* certManager == nil *)
        else match o_cert (s_opts s) with
             | CertGood => CStatic
             | CertBad => CRefuse                                  (* no such service is ever created *)
             | CertNone => match acme_domain (o_hosts (s_opts s)) sni with
                           | Some d => CAuto d
                           | None => CRefuse
                           end
             end
      end
    end
  end.

(** ** The specification of "the same host, port removed" (for the redirect) *)

(** "[v6]:port" and "[v6]" keep the bracketed literal; "host:port" gives host;
    anything else is kept as it is. *)
Definition host_without_port (h : str) : str :=
  match h with
  | x5b :: r =>
    match index_byte r x5d with
    | Some e => x5b :: firstn e r ++ [x5d]
    | None => h
    end
  | _ =>
    match index_byte h colon with
    | Some i => firstn i h
    | None => h
    end
  end.

(** Well-formed Host header: host, host:port, [v6], [v6]:port — port: digits;
    host: non-empty, no ':' '[' ']'; v6: contains ':' and no brackets. *)
Definition wf_host (h : str) : bool :=
  match h with
  | [] => false
  | x5b :: r =>
    match index_byte r x5d with
    | Some e =>
      negb (contains_byte (firstn e r) x5b) && contains_byte (firstn e r) colon &&
      match skipn (S e) r with
      | [] => true
      | c :: port => byte_eqb c colon && forallb is_digit port
      end
    | None => false
    end
  | _ =>
    negb (contains_byte h x5b) && negb (contains_byte h x5d) &&
    match index_byte h colon with
    | None => true
    | Some i => negb (Nat.eqb i 0) && forallb is_digit (skipn (S i) h)
    end
  end.
