(** Ticker.v — model of the probe loop of internal/server/health_check.go:

      func (hc *HealthCheck) run() {
          ticker := time.NewTicker(hc.interval); defer ticker.Stop()
          hc.check()
          for { select { case <-hc.ctx.Done(): return
                         case <-ticker.C:      hc.check() } }
      }
      func (hc *HealthCheck) check() { ctx := context.WithTimeout(hc.ctx, hc.timeout); ... }
      func (hc *HealthCheck) Close() { hc.cancel() }

    Times are nanoseconds on the (virtual) clock.  The loop starts at [t0].  The
    ticker fires at [t0 + k*interval] (k >= 1) into a channel with ONE slot: a tick
    that finds the slot full is dropped.  Checks run one at a time.

    Rules established by experiment on the real code under testing/synctest
    (tools/c09probe.py records them again on every run):

    - check 0 starts at [t0]; check i lasts [min (answer delay) timeout]
      (an answer arriving exactly when the timeout expires still counts: the
      responder's timer fires before the cancellation of the context is seen);
    - a tick firing at the very instant a check ends is already in the slot when
      the loop looks at the channel: ticks in the half-open window (s, e] of a check
      that started at [s] and ended at [e] are "missed" (the first is kept in the
      slot, the others are dropped);
    - if a tick was missed the next check starts at once ([e]); otherwise the loop
      waits for the first tick strictly later than [e];
    - [Close] at [x] (after everything else that happens at instant [x]): a check
      starts only at instants <= x, a result is reported only at instants <= x; the
      check in flight at [x] is abandoned without a result.

    Executable; no proofs here. *)
From KP Require Import model.Base.
Local Open Scope N_scope.

(** A scripted answer of the target: the delay after which it answers ([None] =
    never) and whether that answer is a good one (2xx). *)
Definition answer := (option N * bool)%type.

(** One probe: the instant it was sent and, unless it was abandoned, the instant
    its result was reported and the result. *)
Definition probe := (N * option (N * bool))%type.

(** How long check() lasts for this answer. *)
Definition dur (timeout : N) (a : answer) : N :=
  match fst a with
  | Some d => N.min d timeout
  | None => timeout
  end.

(** The result reported for this answer: success only if answered in time, well. *)
Definition verdict (timeout : N) (a : answer) : bool :=
  match fst a with
  | Some d => (d <=? timeout) && snd a
  | None => false
  end.

(** Number of ticks fired up to and including instant [t] (for t >= t0). *)
Definition ticks_upto (t0 interval t : N) : N := (t - t0) / interval.

(** Instant of tick number [k] (k >= 1). *)
Definition tick_at (t0 interval k : N) : N := t0 + k * interval.

(** Was a tick missed by a check that ran over (s, e] ? *)
Definition missed_tick (t0 interval s e : N) : bool :=
  ticks_upto t0 interval s <? ticks_upto t0 interval e.

(** Start of the check that follows a check which ran from [s] to [e]. *)
Definition next_start (t0 interval s e : N) : N :=
  if missed_tick t0 interval s e then e
  else tick_at t0 interval (ticks_upto t0 interval e + 1).

Definition after_stop (stop : option N) (t : N) : bool :=
  match stop with
  | Some x => x <? t
  | None => false
  end.

(** The loop from a check that is about to start at [s]; one scripted answer per
    check (the script bounds the run). *)
Fixpoint loop (t0 interval timeout : N) (stop : option N) (s : N) (script : list answer) : list probe :=
  match script with
  | [] => []
  | a :: rest =>
    if after_stop stop s then []
    else
      let e := s + dur timeout a in
      if after_stop stop e then [(s, None)]
      else (s, Some (e, verdict timeout a)) :: loop t0 interval timeout stop (next_start t0 interval s e) rest
  end.

(** For each probe: (send time, result time and success) *)
Definition probe_times (t0 interval timeout : N) (script : list answer) (stop : option N) : list probe :=
  loop t0 interval timeout stop t0 script.

(** The completed probes only: (send time, result time, success). *)
Definition probe_results (t0 interval timeout : N) (script : list answer) (stop : option N) : list (N * N * bool) :=
  flat_map (fun p : probe => match snd p with Some (e, ok) => [(fst p, e, ok)] | None => [] end)
           (probe_times t0 interval timeout script stop).

(** Phase of an instant relative to the tick grid. *)
Definition phase (t0 interval t : N) : N := (t - t0) mod interval.
Definition on_grid (t0 interval t : N) : bool := phase t0 interval t =? 0.
