(** Buffer.v — model of internal/server/buffer.go and of the request- and
    response-buffer middlewares (request_buffer_middleware.go,
    response_buffer_middleware.go).  Executable; no proofs here. *)
From KP Require Import model.Base.

(** * Buffer (buffer.go) *)

Record buf := mkBuf {
  max_bytes : N;          (* 0 = unlimited *)
  max_mem   : N;
  mem       : str;        (* memoryBuffer *)
  disk      : option str; (* Some _ once createSpill has run *)
  overflowed : bool;
  reading   : bool;       (* reader != nil *)
  drained   : bool;       (* the reader has been read to EOF *)
  closed    : bool;       (* closeOnce has fired *)
  spill_live : bool       (* the temporary file exists on disk *)
}.

Definition new_buf (maxb maxm : N) : buf :=
  mkBuf maxb maxm [] None false false false false false.

Inductive werr := WOk | WMaxExceeded | WAfterRead.

Definition werr_eqb (a b : werr) : bool :=
  match a, b with WOk, WOk | WMaxExceeded, WMaxExceeded | WAfterRead, WAfterRead => true | _, _ => false end.

Definition mem_written (b : buf) : N := lenN (mem b).
Definition disk_written (b : buf) : N := match disk b with Some d => lenN d | None => 0%N end.
Definition total_written (b : buf) : N := (mem_written b + disk_written b)%N.

Definition set_overflow (b : buf) : buf :=
  mkBuf (max_bytes b) (max_mem b) (mem b) (disk b) true (reading b) (drained b) (closed b) (spill_live b).

Definition set_data (b : buf) (m : str) (d : option str) (live : bool) : buf :=
  mkBuf (max_bytes b) (max_mem b) m d (overflowed b) (reading b) (drained b) (closed b) live.

(** Buffer.Write: returns the new buffer, the count written and the error. *)
Definition write (b : buf) (p : str) : buf * (N * werr) :=
  if reading b then (b, (0%N, WAfterRead)) else
  let len := lenN p in
  if ((0 <? max_bytes b) && (max_bytes b <? total_written b + len))%N
  then (set_overflow b, (0%N, WMaxExceeded))
  else match disk b with
  | Some d => (set_data b (mem b) (Some (d ++ p)) (spill_live b), (len, WOk))
  | None =>
    if (mem_written b + len <=? max_mem b)%N
    then (set_data b (mem b ++ p) None (spill_live b), (len, WOk))
    else
      let k := N.to_nat (max_mem b - mem_written b) in
      (set_data b (mem b ++ firstn k p) (Some (skipn k p)) true, (len, WOk))
  end.

(** Everything Read/Send would deliver (memory part, then spill). *)
Definition contents (b : buf) : str :=
  mem b ++ match disk b with Some d => d | None => [] end.

(** Buffer.Send / reading to EOF: sets the reader; a second call yields nothing. *)
Definition send (b : buf) : buf * str :=
  let out := if drained b then [] else contents b in
  (mkBuf (max_bytes b) (max_mem b) (mem b) (disk b) (overflowed b) true true (closed b) (spill_live b), out).

(** Buffer.Close (closeOnce + discardSpill). *)
Definition close (b : buf) : buf :=
  if closed b then b else
  mkBuf (max_bytes b) (max_mem b) (mem b) (disk b) (overflowed b) (reading b) (drained b) true false.

Fixpoint writes (b : buf) (chunks : list str) : buf * list (N * werr) :=
  match chunks with
  | [] => (b, [])
  | p :: cs => let '(b1, r) := write b p in
               let '(b2, rs) := writes b1 cs in (b2, r :: rs)
  end.

(** io.Copy(buf, r): stops at the first write error. *)
Fixpoint copy_in (b : buf) (chunks : list str) : buf * werr :=
  match chunks with
  | [] => (b, WOk)
  | p :: cs => let '(b1, (_, e)) := write b p in
               match e with WOk => copy_in b1 cs | _ => (b1, e) end
  end.

(** * Request buffering (NewBufferedReadCloser + RequestBufferMiddleware) *)

Inductive req_outcome :=
| ReqForward (body : str)   (* next handler called with exactly this body *)
| Req413                    (* "Request too large", target not contacted *)
| Req500.                   (* body read error, target not contacted *)

(** [chunks] is the chunking in which the client's body reaches io.Copy;
    [read_fails] says the body reader ends with an error (client abort)
    instead of EOF.  Returns the outcome and the final buffer (after the
    Close that every path performs: buf.Close() on error, the reverse proxy's
    outreq.Body.Close() otherwise). *)
Definition req_mw (maxm maxb : N) (chunks : list str) (read_fails : bool) : req_outcome * buf :=
  let '(b, e) := copy_in (new_buf maxb maxm) chunks in
  match e with
  | WMaxExceeded => (Req413, close b)
  | WAfterRead => (Req500, close b)
  | WOk =>
    if read_fails then (Req500, close b)
    else let '(b1, body) := send b in (ReqForward body, close b1)
  end.

(** * Response buffering (ResponseBufferMiddleware + bufferedResponseWriter) *)

(** What the inner handler (the reverse proxy) does to the writer. *)
Inductive hop :=
| HWriteHeader (status : N) (event_stream : bool)
| HWrite (p : str)
| HFlush
| HHijack.

(** What reaches the outer ResponseWriter (the client side). *)
Inductive cev :=
| CWriteHeader (status : N)
| CWrite (p : str)
| CFlush
| CHijack
| CError500.   (* http.Error(w, "Internal Server Error", 500) *)

Record rw := mkRw {
  rbuf : buf;
  rstatus : N;
  rheader_written : bool;
  rhijacked : bool;
  rbypass : bool;
  rout : list cev   (* most recent first *)
}.

Definition new_rw (maxm maxb : N) : rw := mkRw (new_buf maxb maxm) 200 false false false [].

(** bufferedResponseWriter.Send; returns false on ErrMaximumSizeExceeded *)
Definition rw_send (w : rw) : rw * bool :=
  if overflowed (rbuf w) then (w, false)
  else if rhijacked w then (w, true)
  else
    let out1 := if rheader_written w then CWriteHeader (rstatus w) :: rout w else rout w in
    let '(b1, data) := send (rbuf w) in
    let out2 := match data with [] => out1 | _ => CWrite data :: out1 end in
    (mkRw b1 (rstatus w) (rheader_written w) (rhijacked w) (rbypass w) out2, true).

(** 1xx other than 101: an interim response (103 Early Hints); it does not end
    the header phase. *)
Definition is_informational (s : N) : bool := (100 <=? s)%N && (s <=? 199)%N && negb (s =? 101)%N.

Definition rw_step (w : rw) (o : hop) : rw :=
  match o with
  | HWriteHeader s sse =>
    if is_informational s then   (* passed straight on; the final status is still to come *)
      mkRw (rbuf w) (rstatus w) (rheader_written w) (rhijacked w) (rbypass w) (CWriteHeader s :: rout w)
    else
    if rheader_written w then w else
    let w1 := mkRw (rbuf w) s true (rhijacked w) (rbypass w) (rout w) in
    if sse then
      let w2 := mkRw (rbuf w1) s true (rhijacked w1) true (rout w1) in
      fst (rw_send w2)
    else w1
  | HWrite p =>
    if rbypass w then mkRw (rbuf w) (rstatus w) (rheader_written w) (rhijacked w) true (CWrite p :: rout w)
    else let '(b1, _) := write (rbuf w) p in
         mkRw b1 (rstatus w) (rheader_written w) (rhijacked w) (rbypass w) (rout w)
  | HFlush =>
    if rbypass w then mkRw (rbuf w) (rstatus w) (rheader_written w) (rhijacked w) true (CFlush :: rout w)
    else w
  | HHijack =>
    mkRw (rbuf w) (rstatus w) (rheader_written w) true (rbypass w) (CHijack :: rout w)
  end.

(** The whole middleware: run the inner handler's operations, Send, and the
    deferred Close.  Result: client-side events in order, and the final buffer. *)
Definition resp_mw (maxm maxb : N) (ops : list hop) : list cev * buf :=
  let w := fold_left rw_step ops (new_rw maxm maxb) in
  let '(w1, ok) := rw_send w in
  let out := if ok then rout w1 else CError500 :: rout w1 in
  (rev out, close (rbuf w1)).

(** What an HTTP client (or httptest.ResponseRecorder) makes of the event
    list: the first status wins, an implicit 200 precedes a write without
    header, the body is the concatenation of the writes. *)
Definition err500_body : str := bs "Internal Server Error
".

Record client_view := mkView { v_status : N; v_body : str; v_flushes : N; v_hijacked : bool }.

Fixpoint view_aux (evs : list cev) (st : option N) (body : str) (fl : N) (hj : bool) : client_view :=
  match evs with
  | [] => mkView (match st with Some s => s | None => 200%N end) body fl hj
  | CWriteHeader s :: r =>
    if is_informational s then view_aux r st body fl hj       (* interim responses do not fix the status *)
    else view_aux r (match st with Some _ => st | None => Some s end) body fl hj
  | CWrite p :: r => view_aux r (match st with Some _ => st | None => Some 200%N end) (body ++ p) fl hj
  | CFlush :: r => view_aux r (match st with Some _ => st | None => Some 200%N end) body (fl + 1)%N hj
  | CHijack :: r => view_aux r st body fl true
  | CError500 :: r =>
      view_aux r (match st with Some _ => st | None => Some 500%N end) (body ++ err500_body) fl hj
  end.

Definition client_view_of (evs : list cev) : client_view := view_aux evs None [] 0%N false.
