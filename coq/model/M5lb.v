(** M5lb.v — the load-balancer view of the event traces (model/Trace.v):
    an acceptor for deploys (probe / rotation / waiter / slot / install) and for
    the claim path of requests (routed / pick / lb-claim / claim), used by the
    properties C01 and C09.  Executable; no proofs here (proofs/M5lbFacts.v).

    Every event is one lock region of the Go code (runs are recorded with
    GOMAXPROCS(1)).  The rules follow the REPAIRED code (D1, 7918930): a
    target's waiter is released only after the rotation of its balancer has
    been rebuilt by the goroutine whose probe made it healthy.  [step_gen true]
    is the pinned order (released at the probe result itself), kept for the
    refutation witness of props/C01.v.

    Restarts ([Router.RestoreLastSavedState], the [restart] op of the harness):
    the decoding goroutine (an actor that is not a command) creates the balancers
    of every saved service (KLbNew), marks every target healthy without a probe
    (KStateSet adding->healthy: ghost flag [t_presumed]) and rebuilds the
    rotation (KRotation with all the targets); [KRestored sv act roll] then puts
    the service object [sv] into the routing table (ServiceMap.Set: [install])
    with [act] in its active and [roll] in its rollout slot.  The rule accepts
    the event only for balancers that were created by a non-command actor
    ([b_cmd = false]), never waited on, not disposed, not restored before, whose
    targets are all presumed healthy and whose rotation is all their targets;
    it sets the ghost flag [b_restored].  A balancer in a slot is therefore one
    whose deploy wait succeeded OR one that was restored. *)
From KP Require Import model.Base model.Trace.
Local Open Scope nat_scope.

(** ** State *)

Record tgt := mkTgt {
  t_lb : nat;                     (* the balancer it was created for *)
  t_st : tstate;
  t_pok : bool;                   (* ghost: a successful probe result was applied *)
  t_presumed : bool;              (* ghost: made healthy by MarkAllHealthy (restore) *)
  t_by : option actor;            (* probe goroutine that took it adding->healthy and has not yet rebuilt the rotation *)
  t_sig : bool;                   (* becameHealthy closed *)
  t_waiter : option bool;         (* outcome of Target.WaitUntilHealthy *)
  t_probing : bool;
  t_infl : list nat               (* requests between claim and end *)
}.

Record bal := mkBal {
  b_ts : list nat;
  b_rot : list nat;               (* LoadBalancer.healthy *)
  b_idx : nat;                    (* LoadBalancer.index *)
  b_waited : option bool;         (* result of LoadBalancer.WaitUntilHealthy *)
  b_disp : bool;
  b_deadline : option N;          (* creation time + deploy timeout, when created by a command *)
  b_cmd : bool;                   (* ghost: created by a command (a deploy) *)
  b_restored : bool               (* ghost: put into service by a KRestored event *)
}.

Record svc := mkSvc { s_act : option nat; s_roll : option nat }.

(** where a deploying command stands *)
Inductive cphase := CWaiting (lb : nat) | CProceed (lb : nat) | CFailed | CReturned.

(** what claimTarget decided for a request, until StartRequest consumed it *)
Record pending := mkPend { p_lb : nat; p_choice : option nat }.

Record state := mkSt {
  tgts : list (nat * tgt);
  bals : list (nat * bal);
  svcs : list (nat * svc);
  snames : list (nat * str);      (* service object -> service name *)
  inst : list nat;                (* service objects in the routing table (one per name) *)
  routed : list (nat * nat);      (* request -> service object it was routed to *)
  picked : list (nat * nat);      (* request -> balancer chosen by loadBalancerForRequest *)
  pend : list (nat * pending);
  cmds : list (nat * cphase);
  ctimeout : list (nat * N);      (* command -> deploy timeout *)
  owe : list actor                (* probe goroutines that changed a target's state and have still to rebuild the rotation *)
}.

Definition init : state := mkSt [] [] [] [] [] [] [] [] [] [] [].

Definition set_tgts (s : state) v := mkSt v (bals s) (svcs s) (snames s) (inst s) (routed s) (picked s) (pend s) (cmds s) (ctimeout s) (owe s).
Definition set_bals (s : state) v := mkSt (tgts s) v (svcs s) (snames s) (inst s) (routed s) (picked s) (pend s) (cmds s) (ctimeout s) (owe s).
Definition set_svcs (s : state) v := mkSt (tgts s) (bals s) v (snames s) (inst s) (routed s) (picked s) (pend s) (cmds s) (ctimeout s) (owe s).
Definition set_snames (s : state) v := mkSt (tgts s) (bals s) (svcs s) v (inst s) (routed s) (picked s) (pend s) (cmds s) (ctimeout s) (owe s).
Definition set_inst (s : state) v := mkSt (tgts s) (bals s) (svcs s) (snames s) v (routed s) (picked s) (pend s) (cmds s) (ctimeout s) (owe s).
Definition set_routed (s : state) v := mkSt (tgts s) (bals s) (svcs s) (snames s) (inst s) v (picked s) (pend s) (cmds s) (ctimeout s) (owe s).
Definition set_picked (s : state) v := mkSt (tgts s) (bals s) (svcs s) (snames s) (inst s) (routed s) v (pend s) (cmds s) (ctimeout s) (owe s).
Definition set_pend (s : state) v := mkSt (tgts s) (bals s) (svcs s) (snames s) (inst s) (routed s) (picked s) v (cmds s) (ctimeout s) (owe s).
Definition set_cmds (s : state) v := mkSt (tgts s) (bals s) (svcs s) (snames s) (inst s) (routed s) (picked s) (pend s) v (ctimeout s) (owe s).
Definition set_ctimeout (s : state) v := mkSt (tgts s) (bals s) (svcs s) (snames s) (inst s) (routed s) (picked s) (pend s) (cmds s) v (owe s).
Definition set_owe (s : state) v := mkSt (tgts s) (bals s) (svcs s) (snames s) (inst s) (routed s) (picked s) (pend s) (cmds s) (ctimeout s) v.

Definition put_t (s : state) (t : nat) (x : tgt) := set_tgts s (nset (tgts s) t x).
Definition put_b (s : state) (l : nat) (x : bal) := set_bals s (nset (bals s) l x).

(** field updates of a target / balancer *)
Definition tg_st (x : tgt) v := mkTgt (t_lb x) v (t_pok x) (t_presumed x) (t_by x) (t_sig x) (t_waiter x) (t_probing x) (t_infl x).
Definition tg_pok (x : tgt) v := mkTgt (t_lb x) (t_st x) v (t_presumed x) (t_by x) (t_sig x) (t_waiter x) (t_probing x) (t_infl x).
Definition tg_presumed (x : tgt) v := mkTgt (t_lb x) (t_st x) (t_pok x) v (t_by x) (t_sig x) (t_waiter x) (t_probing x) (t_infl x).
Definition tg_by (x : tgt) v := mkTgt (t_lb x) (t_st x) (t_pok x) (t_presumed x) v (t_sig x) (t_waiter x) (t_probing x) (t_infl x).
Definition tg_sig (x : tgt) v := mkTgt (t_lb x) (t_st x) (t_pok x) (t_presumed x) (t_by x) v (t_waiter x) (t_probing x) (t_infl x).
Definition tg_waiter (x : tgt) v := mkTgt (t_lb x) (t_st x) (t_pok x) (t_presumed x) (t_by x) (t_sig x) v (t_probing x) (t_infl x).
Definition tg_probing (x : tgt) v := mkTgt (t_lb x) (t_st x) (t_pok x) (t_presumed x) (t_by x) (t_sig x) (t_waiter x) v (t_infl x).
Definition tg_infl (x : tgt) v := mkTgt (t_lb x) (t_st x) (t_pok x) (t_presumed x) (t_by x) (t_sig x) (t_waiter x) (t_probing x) v.

Definition bl_rot (x : bal) v := mkBal (b_ts x) v (b_idx x) (b_waited x) (b_disp x) (b_deadline x) (b_cmd x) (b_restored x).
Definition bl_idx (x : bal) v := mkBal (b_ts x) (b_rot x) v (b_waited x) (b_disp x) (b_deadline x) (b_cmd x) (b_restored x).
Definition bl_waited (x : bal) v := mkBal (b_ts x) (b_rot x) (b_idx x) v (b_disp x) (b_deadline x) (b_cmd x) (b_restored x).
Definition bl_restored (x : bal) v := mkBal (b_ts x) (b_rot x) (b_idx x) (b_waited x) (b_disp x) (b_deadline x) (b_cmd x) v.
Definition bl_disp (x : bal) v := mkBal (b_ts x) (b_rot x) (b_idx x) (b_waited x) v (b_deadline x) (b_cmd x) (b_restored x).

(** ** Helpers *)

Definition is_healthy (tg : list (nat * tgt)) (t : nat) : bool :=
  match nget tg t with Some x => tstate_eqb (t_st x) THealthy | None => false end.

(** updateHealthyTargets: the targets of the balancer whose state is healthy, in target order *)
Definition healthy_of (tg : list (nat * tgt)) (ts : list nat) : list nat := filter (is_healthy tg) ts.

Definition fresh {A} (l : list (nat * A)) (k : nat) : bool :=
  match nget l k with None => true | Some _ => false end.

Fixpoint nodupb (l : list nat) : bool :=
  match l with [] => true | x :: r => negb (nmem x r) && nodupb r end.

(** new targets of a balancer: adding, probe loop started *)
Fixpoint add_targets (tg : list (nat * tgt)) (lb : nat) (ts : list nat) : list (nat * tgt) :=
  match ts with
  | [] => tg
  | t :: r => add_targets (nset tg t (mkTgt lb TAdding false false None false None true [])) lb r
  end.

(** the locked transition of HealthCheckCompleted *)
Definition probe_next (st : tstate) (ok : bool) : tstate :=
  if ok then THealthy else match st with THealthy => TUnhealthy | _ => st end.

Definition opt_actor_is (o : option actor) (a : actor) : bool :=
  match o with Some b => actor_eqb a b | None => false end.

(** the target of the balancer (if any) that became healthy by a probe of goroutine [a]
    and whose waiters that goroutine has still to release *)
Definition becoming (tg : list (nat * tgt)) (a : actor) (ts : list nat) : option nat :=
  find (fun t => match nget tg t with Some x => opt_actor_is (t_by x) a | None => false end) ts.

Definition owes (l : list actor) (a : actor) : bool := existsb (actor_eqb a) l.
Definition unowe (l : list actor) (a : actor) : list actor := filter (fun b => negb (actor_eqb a b)) l.

Definition waiter_is (tg : list (nat * tgt)) (v : bool) (t : nat) : bool :=
  match nget tg t with
  | Some x => match t_waiter x with Some b => Bool.eqb b v | None => false end
  | None => false
  end.
Definition waiter_done (tg : list (nat * tgt)) (t : nat) : bool :=
  match nget tg t with Some x => match t_waiter x with Some _ => true | None => false end | None => false end.

Definition opt_nat_eqb := option_eqb Nat.eqb.

Definition slot_of (x : svc) (rollout_slot : bool) : option nat := if rollout_slot then s_roll x else s_act x.
Definition set_slot (x : svc) (rollout_slot : bool) (lb : nat) : svc :=
  if rollout_slot then mkSvc (s_act x) (Some lb) else mkSvc (Some lb) (s_roll x).
Definition in_slots (x : svc) (lb : nat) : bool :=
  opt_nat_eqb (s_act x) (Some lb) || opt_nat_eqb (s_roll x) (Some lb).

Definition same_name (nm : list (nat * str)) (a b : nat) : bool :=
  match nget nm a, nget nm b with
  | Some x, Some y => str_eqb x y
  | _, _ => false
  end.

(** ServiceMap.Set: the object takes the place of the one installed under the same name *)
Definition install (nm : list (nat * str)) (l : list nat) (s : nat) : list nat :=
  s :: filter (fun s' => negb (same_name nm s' s)) l.

(** LoadBalancer.nextTarget: index = (index + 1) % len(healthy) *)
Definition next_idx (idx k : nat) : nat := Nat.modulo (S idx) k.

Definition cmd_of (a : actor) : option nat := match a with ACmd c => Some c | _ => None end.

Definition phase_is_proceed (p : option cphase) (lb : nat) : bool :=
  match p with Some (CProceed l) => Nat.eqb l lb | _ => false end.
Definition phase_is_waiting (p : option cphase) (lb : nat) : bool :=
  match p with Some (CWaiting l) => Nat.eqb l lb | _ => false end.
Definition phase_proceeding (p : option cphase) : bool :=
  match p with Some (CProceed _) => true | _ => false end.

Definition err_unhealthy : N := 2%N.

(** restore: the balancers a KRestored event may name, and their marking *)
Definition opt_list (o : option nat) : list nat := match o with Some x => [x] | None => [] end.

Definition is_presumed (tg : list (nat * tgt)) (t : nat) : bool :=
  match nget tg t with Some x => t_presumed x | None => false end.

Definition restorable (s : state) (lb : nat) : bool :=
  match nget (bals s) lb with
  | Some b =>
    negb (b_cmd b) && negb (b_restored b) && negb (b_disp b)
    && match b_waited b with None => true | Some _ => false end
    && forallb (is_presumed (tgts s)) (b_ts b)
    && nlist_eqb (b_rot b) (b_ts b)
  | None => false
  end.

Definition mark_restored (lbs : list nat) (bl : list (nat * bal)) : list (nat * bal) :=
  map (fun lb_b => (fst lb_b, if nmem (fst lb_b) lbs then bl_restored (snd lb_b) true else snd lb_b)) bl.

(** ** The acceptor.  [pinned = false]: the repaired signal order. *)

Definition step_gen (pinned : bool) (s : state) (e : event) : option state :=
  let a := e_by e in
  match e_k e with
  (* ---- identities and commands ---- *)
  | KSvcName sv name =>
    (* inserted by the trace converter (actor AEnv) when the object id first appears *)
    match a with
    | AEnv =>
      if fresh (svcs s) sv && negb (nmem sv (inst s))
      then Some (set_snames (set_svcs s (nset (svcs s) sv (mkSvc None None))) (nset (snames s) sv name))
      else None
    | _ => None
    end
  | KParams c dt _ _ => Some (set_ctimeout s (nset (ctimeout s) c dt))
  | KReturn c r =>
    match nget (cmds s) c with
    | None => Some s
    | Some CReturned => None
    | Some CFailed =>
      match r with
      | CRErr code => if N.eqb code err_unhealthy then Some (set_cmds s (nset (cmds s) c CReturned)) else None
      | _ => None
      end
    | Some _ => Some (set_cmds s (nset (cmds s) c CReturned))
    end
  (* ---- balancer creation, probes, rotation, waiters ---- *)
  | KLbNew lb ts =>
    if fresh (bals s) lb && forallb (fresh (tgts s)) ts && nodupb ts then
      let mk dl cm := set_bals (set_tgts s (add_targets (tgts s) lb ts)) (nset (bals s) lb (mkBal ts [] 0 None false dl cm false)) in
      match a with
      | ACmd c =>
        if fresh (cmds s) c then
          let dl := match nget (ctimeout s) c with Some dt => Some (e_t e + dt)%N | None => None end in
          Some (set_cmds (mk dl true) (nset (cmds s) c (CWaiting lb)))
        else None
      | _ => Some (mk None false)
      end
    else None
  | KProbeApply t ok prev new =>
    match nget (tgts s) t with
    | Some x =>
      (* [previousState = t.state] is read inside the lock region that writes the new state
         (HealthCheckCompleted): the reported previous state is the state the target holds.
         A goroutine that saw a state change rebuilds the rotation before its next probe result *)
      if tstate_eqb prev (t_st x) && tstate_eqb new (probe_next (t_st x) ok) && negb (owes (owe s) a) then
        let s := if tstate_eqb prev new then s else set_owe s (a :: owe s) in
        let x1 := tg_st (if ok then tg_pok x true else x) new in
        if ok && tstate_eqb (t_st x) TAdding then
          (* becameHealthy (the previous state is "adding", so the rotation rebuild follows) *)
          Some (put_t s t (if pinned then tg_sig x1 true else tg_by x1 (Some a)))
        else Some (put_t s t x1)
      else None
    | None => None
    end
  | KRotation lb hs =>
    match nget (bals s) lb with
    | Some b =>
      if nlist_eqb hs (healthy_of (tgts s) (b_ts b)) then
        let s1 := set_owe (put_b s lb (bl_rot b hs)) (unowe (owe s) a) in
        match becoming (tgts s) a (b_ts b) with
        | Some t =>
          match nget (tgts s) t with
          | Some x => if nmem t hs then Some (put_t s1 t (tg_sig (tg_by x None) true)) else None
          | None => None
          end
        | None => Some s1
        end
      else None
    | None => None
    end
  | KWaiter t ok =>
    match nget (tgts s) t with
    | Some x =>
      match t_waiter x with
      | Some _ => None
      | None =>
        let dl := match nget (bals s) (t_lb x) with Some b => b_deadline b | None => None end in
        if ok then
          if t_sig x && match dl with Some d => N.leb (e_t e) d | None => true end
          then Some (put_t s t (tg_waiter x (Some true))) else None
        else
          if match dl with Some d => N.eqb (e_t e) d | None => true end
          then Some (put_t s t (tg_probing (tg_waiter x (Some false)) false)) else None
      end
    | None => None
    end
  | KProbeStop t =>
    match nget (tgts s) t with
    | Some x => Some (put_t s t (tg_probing x false))
    | None => None
    end
  | KStateSet t orig new =>
    match nget (tgts s) t with
    | Some x =>
      if tstate_eqb orig (t_st x) then
        let x1 := tg_st x new in
        Some (put_t s t (if tstate_eqb orig TAdding && tstate_eqb new THealthy then tg_presumed x1 true else x1))
      else None
    | None => None
    end
  | KLbDispose lb =>
    match nget (bals s) lb with
    | Some b => Some (put_b s lb (bl_disp b true))
    | None => None
    end
  (* ---- deploy ---- *)
  | KDeployLb sv _ lb =>
    match cmd_of a, nget (svcs s) sv with
    | Some c, Some _ => if phase_is_waiting (nget (cmds s) c) lb then Some s else None
    | _, _ => None
    end
  | KDeployWaited lb ok =>
    match cmd_of a, nget (bals s) lb with
    | Some c, Some b =>
      if phase_is_waiting (nget (cmds s) c) lb
         && match b_waited b with None => true | Some _ => false end
         && forallb (waiter_done (tgts s)) (b_ts b)
         && Bool.eqb ok (forallb (waiter_is (tgts s) true) (b_ts b))
      then Some (set_cmds (put_b s lb (bl_waited b (Some ok))) (nset (cmds s) c (if ok then CProceed lb else CFailed)))
      else None
    | _, _ => None
    end
  | KSvcCopy old new =>
    match nget (svcs s) old, nget (svcs s) new with
    | Some xo, Some (mkSvc None None) =>
      if same_name (snames s) old new && negb (nmem new (inst s)) then Some (set_svcs s (nset (svcs s) new xo)) else None
    | _, _ => None
    end
  | KSlot sv slot lb replaced =>
    match cmd_of a, nget (svcs s) sv, nget (bals s) lb with
    | Some c, Some x, Some b =>
      if phase_is_proceed (nget (cmds s) c) lb
         && match b_waited b with Some true => true | _ => false end
         && opt_nat_eqb replaced (slot_of x slot)
      then Some (set_svcs s (nset (svcs s) sv (set_slot x slot lb)))
      else None
    | _, _, _ => None
    end
  | KInstall sv ok =>
    match cmd_of a, nget (svcs s) sv, nget (snames s) sv with
    | Some c, Some _, Some _ =>
      if phase_proceeding (nget (cmds s) c) then
        if ok then Some (set_inst s (install (snames s) (inst s) sv)) else Some s
      else None
    | _, _, _ => None
    end
  | KRemoved sv =>
    match cmd_of a with
    | Some c =>
      if fresh (cmds s) c && nmem sv (inst s) then Some (set_inst s (nremove sv (inst s))) else None
    | None => None
    end
  (* ---- restart ---- *)
  | KRestored sv act roll =>
    (* RestoreLastSavedState, under the router's write lock: services.Set(service) *)
    match cmd_of a, act, nget (svcs s) sv, nget (snames s) sv with
    | None, Some lb, Some (mkSvc None None), Some _ =>
      if negb (nmem sv (inst s)) && forallb (restorable s) (lb :: opt_list roll) then
        Some (set_inst (set_svcs (set_bals s (mark_restored (lb :: opt_list roll) (bals s)))
                                 (nset (svcs s) sv (mkSvc (Some lb) roll)))
                       (install (snames s) (inst s) sv))
      else None
    | _, _, _, _ => None
    end
  (* ---- requests ---- *)
  | KRouted r (Some sv) =>
    if nmem sv (inst s) then Some (set_routed s (nset (routed s) r sv)) else None
  | KPick r sv (Some lb) =>
    match nget (routed s) r, nget (svcs s) sv with
    | Some sv', Some x =>
      if Nat.eqb sv' sv && in_slots x lb then Some (set_picked s (nset (picked s) r lb)) else None
    | _, _ => None
    end
  | KPick _ _ None => None
  | KLbClaim lb choice r =>
    match nget (picked s) r, nget (bals s) lb with
    | Some lb', Some b =>
      if Nat.eqb lb' lb then
        match choice with
        | None =>
          match b_rot b with
          | [] => Some (set_pend s (nset (pend s) r (mkPend lb None)))
          | _ :: _ => None
          end
        | Some t =>
          let k := length (b_rot b) in
          if Nat.ltb 0 k && opt_nat_eqb (nth_error (b_rot b) (next_idx (b_idx b) k)) (Some t) then
            Some (set_pend (put_b s lb (bl_idx b (next_idx (b_idx b) k))) (nset (pend s) r (mkPend lb (Some t))))
          else None
        end
      else None
    | _, _ => None
    end
  | KClaim t r =>
    match nget (pend s) r, nget (tgts s) t with
    | Some p, Some x =>
      if opt_nat_eqb (p_choice p) (Some t) && negb (tstate_eqb (t_st x) TDraining) then
        Some (set_pend (put_t s t (tg_infl x (r :: t_infl x))) (nset (pend s) r (mkPend (p_lb p) None)))
      else None
    | _, _ => None
    end
  | KClaimRefused t r =>
    match nget (pend s) r, nget (tgts s) t with
    | Some p, Some x =>
      if opt_nat_eqb (p_choice p) (Some t) && tstate_eqb (t_st x) TDraining then
        Some (set_pend s (nset (pend s) r (mkPend (p_lb p) None)))
      else None
    | _, _ => None
    end
  | KEnd t r =>
    match nget (tgts s) t with
    | Some x => if nmem r (t_infl x) then Some (put_t s t (tg_infl x (nremove r (t_infl x)))) else None
    | None => None
    end
  | _ => Some s
  end.

Definition step := step_gen false.
Definition step_pinned := step_gen true.

Definition accepted (tr : trace) : bool :=
  match run step init tr with Some _ => true | None => false end.

(** diagnostics for the correspondence run: index of the first rejected event *)
Definition reject_at (tr : trace) : option nat := first_reject step init tr 0.

(** the routing view: installed objects with their names and slots *)
Definition routing (s : state) : list (nat * option str * option svc) :=
  map (fun sv => (sv, nget (snames s) sv, nget (svcs s) sv)) (inst s).
