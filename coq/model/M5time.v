(** M5time.v — the timing view (property C17): an acceptor over the event traces
    of Trace.v that follows, per command, the chain of events the command waits
    for (its own steps, the waiters of the balancer it created, the Drain calls
    it started) with their virtual timestamps, and, per target, whether its
    probe loop is live.  Executable; no proofs here (proofs/M5timeFacts.v).

    Timer rules (virtual clock: timers fire exactly, CPU time is zero).  They
    are enforced while no goroutine has been parked at a harness yield
    ([parks st = false], "strict"); after the first [KParked] only the
    structure is checked:
    - own steps of a command carry the timestamp of the last event of its chain;
    - [KWaiter t false] exactly at arm + deploy_timeout, [KWaiter t true] at a
      time <= arm + deploy_timeout, where arm = time of the command's KDeployLb
      (WaitUntilHealthy is entered right there; time.After is armed when the
      waiter goroutines start, at the same instant);
    - [KDrainDeadline] exactly at mark + drain_timeout (mark = KDrainBegin);
    - [KDrainCancelRest] at the deadline event's time, or, without a deadline
      event, when every request of the snapshot has ended or been cancelled by
      another Drain, at the time of the last such end, and <= mark + timeout;
    - the restore [KStateSet t _ orig] at the time of the cancel-rest; [orig], the state
      the call found, is not "draining" (enforced also after a [KParked]); the state it
      overwrites need not be "draining" (a probe may have flipped it, finding D12);
    - a Drain call begins at the time of the last own step of a command that is
      in its drain phase and has the same drain timeout.
    [pinned = true] is the rule variant of the code before fix 3d904ad (D4):
    a deploy that fails at install returns without disposing its balancer. *)
From KP Require Import model.Base model.Trace.
Local Open Scope N_scope.

(** ** State *)

Inductive phase :=
| PNew                                    (* issued, durations not yet known *)
| PStart                                  (* nothing started *)
| PLb (lb : nat)                          (* balancer created, probes running *)
| PWait (lb : nat) (arm : N)              (* WaitUntilHealthy, armed at [arm] *)
| PFailing (lb : nat)                     (* waited, some target failed; must dispose lb *)
| PFailed                                 (* ... disposed *)
| PWaited (lb : nat)
| PSlot (lb : nat) (replaced : option nat)
| PConflict (lb : nat)                    (* install refused; must dispose lb (repaired code) *)
| PConflictDone
| PInstalled (replaced : option nat)      (* drains of the replaced balancer *)
| PDone                                   (* replaced balancer disposed *)
| PGate                                   (* pause/stop: gate set, drains *)
| PAfter
| PReturned.

Record cmd := mkC {
  c_kind : cmdkind;
  c_issue : N;
  c_dt : N;                               (* deploy timeout *)
  c_drt : N;                              (* drain timeout *)
  c_phase : phase;
  c_last : N;                             (* time of the latest event of its chain *)
  c_alt : option N;                       (* ... or this one (a Drain call that may be its own) *)
  c_tc : N;                               (* time of its latest own step *)
  c_pending : list nat;                   (* replaced targets whose Drain has not begun *)
  c_disp : option nat;                    (* balancer it is disposing right now *)
  c_new : option nat;                     (* ghost: the balancer it created *)
  c_repl : option (option nat)            (* ghost: it updated the slot, replacing this balancer *)
}.

Record lbr := mkL {
  l_targets : list nat;
  l_owner : option nat;                   (* the command that created it *)
  l_disposed : bool
}.

Record tgt := mkT {
  t_lb : nat;
  t_probing : bool;                       (* its probe loop is live *)
  t_wait : option bool;                   (* its waiter has finished (ok?) *)
  t_inflight : list nat;
  t_cancelled : list nat                  (* in flight, context cancelled by a Drain *)
}.

Record drain := mkD {
  d_t : nat;
  d_mark : N;
  d_timeout : N;
  d_snap : option (list nat);             (* requests of the snapshot *)
  d_wait : list nat;                      (* ... not yet ended or cancelled *)
  d_last : N;                             (* time of the latest event of this call's chain *)
  d_hit : bool;                           (* the deadline fired *)
  d_cancel : option N;                    (* cancel-rest done at *)
  d_owners : list (nat * bool)            (* commands that may have started it; true = certainly *)
}.

Record state := mkSt {
  cmds : list (nat * cmd);
  lbs : list (nat * lbr);
  tgts : list (nat * tgt);
  tnames : list (nat * str);
  drains : list (nat * drain);            (* open Drain calls, keyed by goroutine *)
  svcs : list (nat * (option nat * option nat));   (* service object -> active, rollout *)
  clock : N;
  parks : bool                            (* some goroutine was parked at a yield *)
}.

Definition init : state := mkSt [] [] [] [] [] [] 0 false.

Definition upd_cmds (st : state) x := mkSt x (lbs st) (tgts st) (tnames st) (drains st) (svcs st) (clock st) (parks st).
Definition upd_lbs (st : state) x := mkSt (cmds st) x (tgts st) (tnames st) (drains st) (svcs st) (clock st) (parks st).
Definition upd_tgts (st : state) x := mkSt (cmds st) (lbs st) x (tnames st) (drains st) (svcs st) (clock st) (parks st).
Definition upd_tnames (st : state) x := mkSt (cmds st) (lbs st) (tgts st) x (drains st) (svcs st) (clock st) (parks st).
Definition upd_drains (st : state) x := mkSt (cmds st) (lbs st) (tgts st) (tnames st) x (svcs st) (clock st) (parks st).
Definition upd_svcs (st : state) x := mkSt (cmds st) (lbs st) (tgts st) (tnames st) (drains st) x (clock st) (parks st).
Definition upd_clock (st : state) x := mkSt (cmds st) (lbs st) (tgts st) (tnames st) (drains st) (svcs st) x (parks st).
Definition set_parks (st : state) := mkSt (cmds st) (lbs st) (tgts st) (tnames st) (drains st) (svcs st) (clock st) true.

Fixpoint ndel {A} (l : list (nat * A)) (k : nat) : list (nat * A) :=
  match l with
  | [] => []
  | (k', v) :: r => if Nat.eqb k k' then r else (k', v) :: ndel r k
  end.

Definition goid (a : actor) : nat := match a with AGo g => g | ACmd c => c | AReq r => r | AEnv => 0 end.

Definition strict (st : state) : bool := negb (parks st).

Definition is_deploy (k : cmdkind) : bool :=
  match k with CkDeploy | CkRolloutDeploy => true | _ => false end.
Definition is_pause_stop (k : cmdkind) : bool :=
  match k with CkPause | CkStop => true | _ => false end.

Definition opt_N_eqb (a : option N) (b : N) : bool :=
  match a with Some x => x =? b | None => false end.

(** zero CPU time: an own step happens at the time of the last event of the chain *)
Definition own_time_ok (st : state) (cm : cmd) (t : N) : bool :=
  parks st || (t =? c_last cm) || opt_N_eqb (c_alt cm) t.

Definition tgt_probing (st : state) (t : nat) : bool :=
  match nget (tgts st) t with Some x => t_probing x | None => false end.

Definition lb_quiet (st : state) (lb : nat) : bool :=
  match nget (lbs st) lb with
  | Some l => forallb (fun t => negb (tgt_probing st t)) (l_targets l)
  | None => true
  end.

(** the balancer the command was disposing has no live loop left *)
Definition disp_ok (st : state) (cm : cmd) : bool :=
  match c_disp cm with Some lb => lb_quiet st lb | None => true end.

(** after an own step at time [t] *)
Definition stepped (cm : cmd) (t : N) (ph : phase) : cmd :=
  mkC (c_kind cm) (c_issue cm) (c_dt cm) (c_drt cm) ph t None t (c_pending cm) None (c_new cm) (c_repl cm).

Definition set_pending (cm : cmd) (p : list nat) : cmd :=
  mkC (c_kind cm) (c_issue cm) (c_dt cm) (c_drt cm) (c_phase cm) (c_last cm) (c_alt cm) (c_tc cm) p (c_disp cm) (c_new cm) (c_repl cm).
Definition set_disp (cm : cmd) (d : option nat) : cmd :=
  mkC (c_kind cm) (c_issue cm) (c_dt cm) (c_drt cm) (c_phase cm) (c_last cm) (c_alt cm) (c_tc cm) (c_pending cm) d (c_new cm) (c_repl cm).
Definition set_last (cm : cmd) (t : N) : cmd :=
  mkC (c_kind cm) (c_issue cm) (c_dt cm) (c_drt cm) (c_phase cm) t (c_alt cm) (c_tc cm) (c_pending cm) (c_disp cm) (c_new cm) (c_repl cm).
Definition set_new (cm : cmd) (lb : nat) : cmd :=
  mkC (c_kind cm) (c_issue cm) (c_dt cm) (c_drt cm) (c_phase cm) (c_last cm) (c_alt cm) (c_tc cm) (c_pending cm) (c_disp cm) (Some lb) (c_repl cm).
Definition set_repl (cm : cmd) (r : option (option nat)) : cmd :=
  mkC (c_kind cm) (c_issue cm) (c_dt cm) (c_drt cm) (c_phase cm) (c_last cm) (c_alt cm) (c_tc cm) (c_pending cm) (c_disp cm) (c_new cm) r.
Definition set_alt (cm : cmd) (t : N) : cmd :=
  mkC (c_kind cm) (c_issue cm) (c_dt cm) (c_drt cm) (c_phase cm) (c_last cm) (Some t) (c_tc cm) (c_pending cm) (c_disp cm) (c_new cm) (c_repl cm).

(** ** Drain calls and the commands that started them *)

Definition drain_candidate (st : state) (t : nat) (now timeout : N) (cm : cmd) : bool :=
  (c_drt cm =? timeout) && (parks st || (c_tc cm =? now)) &&
  match c_phase cm with
  | PInstalled (Some old) => is_deploy (c_kind cm) &&
      match nget (lbs st) old with Some l => nmem t (l_targets l) | None => false end
  | PGate => is_pause_stop (c_kind cm)
  | _ => false
  end.

Definition candidates (st : state) (t : nat) (now timeout : N) : list nat :=
  map fst (filter (fun p => drain_candidate st t now timeout (snd p)) (cmds st)).

(** a single candidate that still expects a Drain of [t] certainly started it *)
Definition certain (st : state) (t c : nat) : bool :=
  match nget (cmds st) c with
  | Some cm => match c_phase cm with PGate => true | _ => nmem t (c_pending cm) end
  | None => false
  end.

(** the Drain of [t] has begun for these commands *)
Definition clear_pending (cs : list (nat * cmd)) (who : list nat) (t : nat) : list (nat * cmd) :=
  map (fun p => if nmem (fst p) who then (fst p, set_pending (snd p) (nremove t (c_pending (snd p)))) else p) cs.

Definition owns (c : nat) (d : drain) : bool :=
  existsb (fun o => Nat.eqb (fst o) c && snd o) (d_owners d).

(** the command may leave its drain phase: every Drain it started has returned *)
Definition cont_ok (st : state) (c : nat) (cm : cmd) : bool :=
  match c_pending cm with [] => true | _ => false end &&
  forallb (fun p => negb (owns c (snd p))) (drains st).

Definition in_drain_phase (cm : cmd) : bool :=
  match c_phase cm with PInstalled (Some _) | PGate => true | _ => false end.

(** a Drain call returned at [t]: tell the commands that may have started it *)
Definition notify_one (st : state) (d : drain) (t : N) (cs : option (list (nat * cmd))) (o : nat * bool)
  : option (list (nat * cmd)) :=
  match cs with
  | None => None
  | Some l =>
    match nget l (fst o) with
    | None => Some l
    | Some cm =>
      if negb (in_drain_phase cm) then Some l else       (* it has gone on: this call was not its own *)
      if parks st || ((d_mark d =? c_tc cm) && (d_timeout d =? c_drt cm)) then
        Some (nset l (fst o) (if snd o then set_last cm t else set_alt cm t))
      else None
    end
  end.

Definition notify (st : state) (d : drain) (t : N) : option (list (nat * cmd)) :=
  fold_left (notify_one st d t) (d_owners d) (Some (cmds st)).

(** a request of target [t] left the wait set of the open Drain calls of [t] *)
Definition drain_done_req (t : nat) (rs : list nat) (now : N) (d : drain) : drain :=
  if Nat.eqb (d_t d) t && existsb (fun r => nmem r (d_wait d)) rs then
    mkD (d_t d) (d_mark d) (d_timeout d) (d_snap d) (filter (fun r => negb (nmem r rs)) (d_wait d)) now
        (d_hit d) (d_cancel d) (d_owners d)
  else d.

Definition drains_done_req (ds : list (nat * drain)) (t : nat) (rs : list nat) (now : N) : list (nat * drain) :=
  map (fun p => (fst p, drain_done_req t rs now (snd p))) ds.

(** ** Services (which balancers a remove must dispose) *)

Definition svc_slots (st : state) (s : nat) : option nat * option nat :=
  match nget (svcs st) s with Some x => x | None => (None, None) end.

Definition svc_lbs (st : state) (s : nat) : list nat :=
  let x := svc_slots st s in
  (match fst x with Some a => [a] | None => [] end) ++ (match snd x with Some r => [r] | None => [] end).

Definition lb_dead (st : state) (lb : nat) : bool :=
  lb_quiet st lb && match nget (lbs st) lb with Some l => l_disposed l | None => true end.

Definition lb_targets (st : state) (lb : nat) : list nat :=
  match nget (lbs st) lb with Some l => l_targets l | None => [] end.

Definition waiters_done (st : state) (ts : list nat) : bool :=
  forallb (fun t => match nget (tgts st) t with Some x => match t_wait x with Some _ => true | None => false end | None => false end) ts.
Definition waiters_ok (st : state) (ts : list nat) : bool :=
  forallb (fun t => match nget (tgts st) t with Some x => match t_wait x with Some b => b | None => false end | None => false end) ts.

Definition set_probing (st : state) (t : nat) (b : bool) : state :=
  match nget (tgts st) t with
  | Some x => upd_tgts st (nset (tgts st) t (mkT (t_lb x) b (t_wait x) (t_inflight x) (t_cancelled x)))
  | None => st
  end.

Definition mark_disposed (st : state) (lb : nat) : state :=
  match nget (lbs st) lb with
  | Some l => upd_lbs st (nset (lbs st) lb (mkL (l_targets l) (l_owner l) true))
  | None => st
  end.

Definition new_lb (st : state) (lb : nat) (ts : list nat) (owner : option nat) : option state :=
  match nget (lbs st) lb with
  | Some _ => None
  | None =>
    if existsb (fun t => match nget (tgts st) t with Some _ => true | None => false end) ts then None else
    Some (upd_lbs (upd_tgts st (fold_left (fun acc t => nset acc t (mkT lb true None [] [])) ts (tgts st)))
                  (nset (lbs st) lb (mkL ts owner false)))
  end.

(** which results a command may return in which phase *)
Definition return_ok (pinned : bool) (k : cmdkind) (ph : phase) (r : cresult) : bool :=
  match r with
  | CRPanic => false
  | CROk =>
    if is_deploy k then match ph with PInstalled None | PDone => true | _ => false end
    else if is_pause_stop k then match ph with PAfter => true | _ => false end
    else match ph with PStart => true | _ => false end
  | CRErr _ =>
    if is_deploy k then match ph with PStart | PFailed | PConflictDone => true | PConflict _ => pinned | _ => false end
    else match ph with PStart => true | _ => false end
  end.

(** ** The acceptor *)

(** between the install and the Drain calls a deploy takes no time: its own
    steps before the dispose of the replaced balancer are at the time of the install *)
Definition tc_ok (st : state) (cm : cmd) (k : kind) (now : N) : bool :=
  match c_phase cm, k with
  | PInstalled (Some _), KLbDispose _ => true
  | PInstalled (Some _), _ => parks st || (now =? c_tc cm)
  | _, _ => true
  end.

Definition put (st : state) (c : nat) (cm : cmd) : state := upd_cmds st (nset (cmds st) c cm).

Definition is_gate (ph : phase) : bool := match ph with PGate => true | _ => false end.

(** a step of command [c] itself (actor [ACmd c]) *)
Definition own_step (pinned : bool) (st : state) (c : nat) (cm : cmd) (e : event) : option state :=
  let now := e_t e in
  if negb (own_time_ok st cm now) then None else
  match e_k e with
  | KProbeStop t => Some (set_probing st t false)          (* part of a Dispose *)
  | k =>
    if negb (disp_ok st cm) then None else
    if negb (tc_ok st cm k now) then None else
    if is_gate (c_phase cm) && negb (cont_ok st c cm) then None else
    let ph := match c_phase cm with PGate => PAfter | p => p end in
    match k with
    | KLbNew lb ts =>
      match ph with
      | PStart => if is_deploy (c_kind cm) && match c_new cm with None => true | Some _ => false end then
                    match new_lb st lb ts (Some c) with
                    | Some st1 => Some (put st1 c (set_new (stepped cm now (PLb lb)) lb))
                    | None => None
                    end
                  else None
      | _ => None
      end
    | KDeployLb _ _ lb =>
      match ph with
      | PLb lb' => if Nat.eqb lb lb' then Some (put st c (stepped cm now (PWait lb now))) else None
      | _ => None
      end
    | KDeployWaited lb ok =>
      match ph with
      | PWait lb' _ =>
        if Nat.eqb lb lb' && waiters_done st (lb_targets st lb) && Bool.eqb ok (waiters_ok st (lb_targets st lb))
        then Some (put st c (stepped cm now (if ok then PWaited lb else PFailing lb)))
        else None
      | _ => None
      end
    | KSlot s ro lb rep =>
      match ph with
      | PWaited lb' =>
        if Nat.eqb lb lb' && match c_repl cm with None => true | Some _ => false end &&
           match rep with Some old => match nget (lbs st) old with Some _ => true | None => false end | None => true end then
          let x := svc_slots st s in
          Some (put (upd_svcs st (nset (svcs st) s (if ro then (fst x, Some lb) else (Some lb, snd x))))
                    c (set_repl (stepped cm now (PSlot lb rep)) (Some rep)))
        else None
      | _ => None
      end
    | KInstall _ ok =>
      match ph with
      | PSlot lb rep =>
        if ok then
          Some (put st c (set_pending (stepped cm now (PInstalled rep))
                            (match rep with Some old => lb_targets st old | None => [] end)))
        else Some (put st c (stepped cm now (PConflict lb)))
      | _ => None
      end
    | KLbDispose lb =>
      let st1 := mark_disposed st lb in
      let fin ph' := Some (put st1 c (set_disp (stepped cm now ph') (Some lb))) in
      match ph with
      | PFailing lb' => if Nat.eqb lb lb' then fin PFailed else None
      | PConflict lb' => if Nat.eqb lb lb' then fin PConflictDone else None
      | PInstalled (Some lb') => if Nat.eqb lb lb' && cont_ok st c cm then fin PDone else None
      | PStart => if is_deploy (c_kind cm) then None else fin PStart
      | _ => None
      end
    | KRemoved s =>
      if forallb (lb_dead st) (svc_lbs st s) then Some (put st c (stepped cm now ph)) else None
    | KGateSet _ _ _ =>
      match ph with
      | PStart => Some (put st c (stepped cm now (if is_pause_stop (c_kind cm) then PGate else PStart)))
      | _ => None
      end
    | KSvcCopy old new =>
      Some (put (upd_svcs st (nset (svcs st) new (svc_slots st old))) c (stepped cm now ph))
    | KReturn c' r =>
      if Nat.eqb c c' && return_ok pinned (c_kind cm) ph r then Some (put st c (stepped cm now PReturned)) else None
    | KIssue _ _ _ | KParams _ _ _ _ => None
    | _ =>
      match ph with
      | PReturned | PNew => None
      | _ => Some (put st c (stepped cm now ph))
      end
    end
  end.

Definition probe_live (st : state) (n : str) : bool :=
  existsb (fun p => tgt_probing st (fst p) &&
                    match nget (tnames st) (fst p) with Some n' => str_eqb n n' | None => false end) (tgts st).

Definition set_drain (st : state) (g : nat) (d : drain) : state := upd_drains st (nset (drains st) g d).

Definition step_gen (pinned : bool) (st0 : state) (e : event) : option state :=
  if e_t e <? clock st0 then None else                   (* the clock never runs backwards *)
  let st := upd_clock st0 (e_t e) in
  let now := e_t e in
  let g := goid (e_by e) in
  match e_k e with
  | KParked => Some (set_parks st)
  | KReleased | KSvcName _ _ => Some st
  | KTargetName t n => Some (upd_tnames st (nset (tnames st) t n))
  | KIssue c k _ =>
    match nget (cmds st) c with
    | Some _ => None
    | None => Some (put st c (mkC k now 0 0 PNew now None now [] None None None))
    end
  | KParams c dt drt _ =>
    match nget (cmds st) c with
    | Some cm =>
      match c_phase cm with
      | PNew => if own_time_ok st cm now
                then Some (put st c (mkC (c_kind cm) (c_issue cm) dt drt PStart now None now [] None (c_new cm) (c_repl cm)))
                else None
      | _ => None
      end
    | None => None
    end
  (* a probe reaches a target only from a live loop of a target of that name *)
  | KProbeSent n _ => if probe_live st n then Some st else None
  | KClaim t r =>
    match nget (tgts st) t with
    | Some x => Some (upd_tgts st (nset (tgts st) t (mkT (t_lb x) (t_probing x) (t_wait x) (r :: t_inflight x) (t_cancelled x))))
    | None => Some st
    end
  | KEnd t r =>
    let st1 := match nget (tgts st) t with
               | Some x => upd_tgts st (nset (tgts st) t (mkT (t_lb x) (t_probing x) (t_wait x)
                                                              (nremove r (t_inflight x)) (nremove r (t_cancelled x))))
               | None => st end in
    Some (upd_drains st1 (drains_done_req (drains st1) t [r] now))
  | KWaiter t ok =>
    match nget (tgts st) t with
    | Some x =>
      match t_wait x, nget (lbs st) (t_lb x) with
      | None, Some l =>
        match l_owner l with
        | Some c =>
          match nget (cmds st) c with
          | Some cm =>
            match c_phase cm with
            | PWait lb arm =>
              if Nat.eqb lb (t_lb x) &&
                 (parks st || (if ok then now <=? arm + c_dt cm else now =? arm + c_dt cm)) then
                Some (put (upd_tgts st (nset (tgts st) t
                             (mkT (t_lb x) (t_probing x && ok) (Some ok) (t_inflight x) (t_cancelled x))))
                          c (set_last cm now))
              else None
            | _ => None
            end
          | None => None
          end
        | None => None
        end
      | _, _ => None
      end
    | None => None
    end
  | KDrainBegin t orig timeout =>
    let cands := candidates st t now timeout in
    let st1 := upd_cmds st (clear_pending (cmds st) cands t) in
    match orig with
    | TDraining => Some st1                               (* already draining: this call returns at once *)
    | _ =>
      match nget (drains st) g, cands with
      | Some _, _ => None
      | None, [] => if parks st then Some (set_drain st1 g (mkD t now timeout None [] now false None [])) else None
      | None, [c] => Some (set_drain st1 g (mkD t now timeout None [] now false None [(c, certain st t c)]))
      | None, _ => Some (set_drain st1 g (mkD t now timeout None [] now false None (map (fun c => (c, false)) cands)))
      end
    end
  | KDrainSnapshot t rs =>
    match nget (drains st) g with
    | Some d =>
      match d_snap d with
      | None =>
        if Nat.eqb (d_t d) t && (parks st || (now =? d_last d)) then
          let canc := match nget (tgts st) t with Some x => t_cancelled x | None => [] end in
          let w := filter (fun r => negb (nmem r canc)) (map fst (filter (fun p => negb (snd p)) rs)) in
          Some (set_drain st g (mkD t (d_mark d) (d_timeout d) (Some (map fst rs)) w now false None (d_owners d)))
        else None
      | Some _ => None
      end
    | None => None
    end
  | KDrainDeadline t =>
    match nget (drains st) g with
    | Some d =>
      match d_snap d, d_cancel d with
      | Some sn, None =>
        if Nat.eqb (d_t d) t && negb (d_hit d) &&
           (if parks st then d_mark d + d_timeout d <=? now else now =? d_mark d + d_timeout d) then
          Some (set_drain st g (mkD t (d_mark d) (d_timeout d) (Some sn) (d_wait d) now true None (d_owners d)))
        else None
      | _, _ => None
      end
    | None => None
    end
  | KDrainCancelRest t =>
    match nget (drains st) g with
    | Some d =>
      match d_snap d, d_cancel d with
      | Some sn, None =>
        if Nat.eqb (d_t d) t &&
           (d_hit d || match d_wait d with [] => true | _ => false end) &&
           (parks st || ((now =? d_last d) && (now <=? d_mark d + d_timeout d))) then
          (* the requests of the snapshot still in flight are cancelled now *)
          let still := match nget (tgts st) t with
                       | Some x => filter (fun r => nmem r (t_inflight x)) sn | None => [] end in
          let st1 := match nget (tgts st) t with
                     | Some x => upd_tgts st (nset (tgts st) t (mkT (t_lb x) (t_probing x) (t_wait x) (t_inflight x)
                                                                    (still ++ t_cancelled x)))
                     | None => st end in
          let st2 := upd_drains st1 (drains_done_req (drains st1) t still now) in
          Some (set_drain st2 g (mkD t (d_mark d) (d_timeout d) (Some sn) [] now (d_hit d) (Some now) (d_owners d)))
        else None
      | _, _ => None
      end
    | None => None
    end
  | KStateSet t _ new =>
    match nget (drains st) g with
    | Some d =>                                           (* end of this goroutine's Drain call: restore *)
      match d_cancel d with
      | Some ct =>
        (* the restore never sets "draining": Drain returns at once when the state it found was
           "draining", and a goroutine inside Drain does no other state-set (its mark comes
           before its KDrainBegin, when it has no open call yet) *)
        if tstate_eqb new TDraining then None else
        if Nat.eqb (d_t d) t && (parks st || (now =? ct)) then
          match notify st d now with
          | Some cs => Some (upd_drains (upd_cmds st cs) (ndel (drains st) g))
          | None => None
          end
        else None
      | None => None
      end
    | None => Some st
    end
  | KReturn c _ =>                                         (* only the command itself returns *)
    match nget (cmds st) c with
    | Some cm => if actor_eqb (e_by e) (ACmd c) then own_step pinned st c cm e else None
    | None => None
    end
  | k =>
    match e_by e with
    | ACmd c =>
      match nget (cmds st) c with
      | Some cm => own_step pinned st c cm e
      | None => None                                      (* a command acts only after its KIssue *)
      end
    | _ =>
      match k with
      | KLbNew lb ts => new_lb st lb ts None              (* restored from the state file *)
      | KProbeStop t => Some (set_probing st t false)
      | KLbDispose lb => Some (mark_disposed st lb)
      | _ => Some st
      end
    end
  end.

Definition step := step_gen false.
Definition step_pinned := step_gen true.

Definition accepted (tr : trace) : bool :=
  match run step init tr with Some _ => true | None => false end.

(** projections for diagnostics *)
Definition dbg (st : state) := (map (fun p => (fst p, c_phase (snd p), c_last (snd p), c_alt (snd p), c_tc (snd p), c_pending (snd p))) (cmds st),
                                drains st, parks st).
