(** Locks.v — C18: vocabulary of the lock / access facts extracted from the Go
    source by /verif/harness/lockfacts, the written lock discipline of
    kamal-proxy's internal/server, and the executable checkers
    [check_guarded] and [lock_order_acyclic].  Executable definitions only;
    the proofs are in proofs/LocksFacts.v, the theorems in props/C18.v.

    A lock is identified by (struct type, mutex field), a location by
    (struct type, field path); "held" sets are the locks held LEXICALLY in the
    function at that point, the checker adds what every call path holds. *)
From KP Require Import model.Base.
Local Open Scope N_scope.

(** Identifiers (struct types, field paths, function names, file names) are
    interned by the translator: a fact mentions numbers, the generated file
    also defines [names : list (N * str)].  The written discipline mentions
    strings and is matched through that table. *)
Definition id := N.
Definition names := list (N * str).

Fixpoint name_of (nm : names) (i : id) : str :=
  match nm with
  | [] => []
  | (k, s) :: nm' => if N.eqb k i then s else name_of nm' i
  end.

(** 0 is never used by the translator: a string that does not occur in the
    source maps to it *)
Fixpoint id_of (nm : names) (s : str) : id :=
  match nm with
  | [] => 0
  | (k, t) :: nm' => if str_eqb t s then k else id_of nm' s
  end.

Inductive rw := Rd | Wr.
Inductive lmode := LR | LW.                 (* read (shared) / write (exclusive) mode *)
Definition lockid := (id * id)%type.        (* struct type, mutex field *)
Definition hlock := (lockid * lmode)%type.
(** base object of an access / receiver of a call: private to the function
    (freshly allocated there and not yet handed out, or a struct value), the
    function's own receiver, anything else *)
Inductive base := BLocal | BRecv | BShared.
Inductive chanop := ChSend | ChRecv | ChClose.
Definition pos := (id * N)%type.            (* file, line *)

Inductive fact :=
| FFunc (f : id) (p : pos)
| FRoot (f : id) (why : id)
| FAccess (f st fld : id) (k : rw) (held : list hlock) (b : base) (p : pos)
| FCall (f g : id) (held : list hlock) (recv : base) (p : pos)
| FGo (f g : id) (p : pos)
| FAcquire (f : id) (l : lockid) (m : lmode) (held : list hlock) (p : pos)
| FChan (f : id) (op : chanop) (st fld : id) (held : list hlock) (p : pos)
| FSync (f kind what : id) (p : pos)
| FUnbalanced (f : id) (l : lockid) (p : pos).

(** * The written discipline *)

Definition slock := (str * str)%type.       (* a lock, by name *)

Inductive fclass :=
| Guarded (l : slock)       (* every shared access holds l: readers at least LR, writers LW *)
| Immutable                 (* never written outside construction *)
| ByOrder (why : str)       (* ordered by go statement / WaitGroup / channel: by rule, not checked here *)
| Confined (why : str).     (* object used by one goroutine (per request / per call): by rule *)

Record discipline := mkDiscipline {
  d_fields : list (str * str * fclass);     (* struct, field path ("*" = any other field of the struct) *)
  d_ctors  : list str;                      (* functions whose receiver is a new, unpublished object by rule *)
  d_closes : list (str * str * str * N)     (* function, struct, channel field, number of close sites there *)
}.

Definition lock_eqb (a b : lockid) : bool := N.eqb (fst a) (fst b) && N.eqb (snd a) (snd b).
Definition lock_id (nm : names) (l : slock) : lockid := (id_of nm (fst l), id_of nm (snd l)).

Definition mode_le (need have : lmode) : bool :=
  match need, have with LR, _ => true | LW, LW => true | LW, LR => false end.

Definition holds (h : list hlock) (l : lockid) (need : lmode) : bool :=
  existsb (fun x => lock_eqb l (fst x) && mode_le need (snd x)) h.

Definition need_of (k : rw) : lmode := match k with Rd => LR | Wr => LW end.

(** field paths: "options.TLSEnabled" falls back to "options", then to "*" *)
Definition dot : byte := x2e.

Definition drop_last_seg (p : str) : option str :=
  match index_byte (rev p) dot with
  | Some n => Some (rev (skipn (S n) (rev p)))
  | None => None
  end.

Fixpoint parents (fuel : nat) (p : str) : list str :=
  match fuel with
  | O => [p]
  | S fuel' => p :: match drop_last_seg p with Some q => parents fuel' q | None => [] end
  end.

Fixpoint find_field (fl : list (str * str * fclass)) (st fld : str) : option fclass :=
  match fl with
  | [] => None
  | (s, f, c) :: fl' => if str_eqb s st && str_eqb f fld then Some c else find_field fl' st fld
  end.

Fixpoint first_some {A} (l : list (option A)) : option A :=
  match l with [] => None | Some a :: _ => Some a | None :: l' => first_some l' end.

Definition class_of_str (d : discipline) (st fld : str) : option fclass :=
  first_some (map (find_field (d_fields d) st) (parents (length fld) fld ++ [bs "*"])).

Definition class_of (nm : names) (d : discipline) (st fld : id) : option fclass :=
  class_of_str d (name_of nm st) (name_of nm fld).

Definition mem_id (x : id) (l : list id) : bool := existsb (N.eqb x) l.

(** * Call graph: what every call path holds at function entry *)

Definition funcs (fs : list fact) : list id :=
  flat_map (fun x => match x with FFunc f _ => [f] | _ => [] end) fs.

Definition call_edges (fs : list fact) : list (id * id * list hlock * base) :=
  flat_map (fun x => match x with FCall c g h b _ => [(c, g, h, b)] | _ => [] end) fs.

(** concurrent roots: rule-based entry points and targets of go statements *)
Definition root_names (fs : list fact) : list id :=
  flat_map (fun x => match x with FRoot g _ => [g] | FGo _ g _ => [g] | _ => [] end) fs.

(** entry map: functions reachable from a concurrent root, with the locks
    held on EVERY call path to them; absent = not reachable *)
Definition emap := list (id * list hlock).

Fixpoint elookup (m : emap) (f : id) : option (list hlock) :=
  match m with
  | [] => None
  | (g, h) :: m' => if N.eqb g f then Some h else elookup m' f
  end.

Fixpoint eupdate (m : emap) (f : id) (h : list hlock) : emap :=
  match m with
  | [] => [(f, h)]
  | (g, h') :: m' => if N.eqb g f then (g, h) :: m' else (g, h') :: eupdate m' f h
  end.

Definition subset_h (a b : list hlock) : bool :=
  forallb (fun x => holds b (fst x) (snd x)) a.

(** greatest common part of two held sets *)
Definition meet (a b : list hlock) : list hlock :=
  flat_map (fun x => if holds b (fst x) (snd x) then [x]
                     else if holds b (fst x) LR then [(fst x, LR)] else []) a.

(** one pass over the call edges, updating in place (chaotic iteration,
    descending from "unreachable"); the result is only trusted through
    [eh_ok] below *)
Definition eh_pass (es : list (id * id * list hlock * base)) (m : emap) : emap :=
  fold_left (fun m e => match e with (c, g, h, _) =>
                          match elookup m c with
                          | None => m
                          | Some hc => eupdate m g (match elookup m g with
                                                    | None => h ++ hc
                                                    | Some hg => meet hg (h ++ hc)
                                                    end)
                          end end) es m.

Fixpoint iter {A} (n : nat) (f : A -> A) (a : A) : A :=
  match n with O => a | S n' => iter n' f (f a) end.

Definition eh_fuel : nat := 40.
Definition entry_held (fs : list fact) : emap :=
  iter eh_fuel (eh_pass (call_edges fs)) (map (fun r => (r, [])) (root_names fs)).

(** the certificate actually used by the soundness proof: [m] is closed under
    the call edges and gives roots the empty set *)
Definition eh_ok_fact (m : emap) (x : fact) : bool :=
  match x with
  | FRoot f _ => match elookup m f with Some [] => true | _ => false end
  | FGo _ f _ => match elookup m f with Some [] => true | _ => false end
  | FCall c f h _ _ =>
      match elookup m c with
      | None => true
      | Some hc => match elookup m f with
                   | Some hf => subset_h hf (h ++ hc)
                   | None => false
                   end
      end
  | _ => true
  end.

Definition eh_ok (fs : list fact) (m : emap) : bool := forallb (eh_ok_fact m) fs.

(** * Construction phase: functions all of whose callers pass a private receiver *)

Definition has_caller (es : list (id * id * list hlock * base)) (f : id) : bool :=
  existsb (fun e => match e with (_, g, _, _) => N.eqb g f end) es.

Definition ctor_fn_ok (roots : list id) (es : list (id * id * list hlock * base)) (dc : list id) (cs : list id) (f : id) : bool :=
  mem_id f dc ||
  (negb (mem_id f roots) && has_caller es f &&
   forallb (fun e => match e with (c, g, _, b) =>
                       if N.eqb g f then
                         match b with BLocal => true | BRecv => mem_id c cs | BShared => false end
                       else true end) es).

Definition declared_ctors (nm : names) (d : discipline) : list id := map (id_of nm) (d_ctors d).

Definition ctor_set (nm : names) (fs : list fact) (d : discipline) : list id :=
  let roots := root_names fs in
  let es := call_edges fs in
  let dc := declared_ctors nm d in
  iter eh_fuel (fun cs => filter (ctor_fn_ok roots es dc cs) cs) (funcs fs).

Definition ctor_ok (nm : names) (fs : list fact) (d : discipline) (cs : list id) : bool :=
  forallb (ctor_fn_ok (root_names fs) (call_edges fs) (declared_ctors nm d) cs) cs.

Definition exempt (cs : list id) (f : id) (b : base) : bool :=
  match b with BLocal => true | BRecv => mem_id f cs | BShared => false end.

(** * check_guarded *)

Inductive violation :=
| VUnguarded (f st fld : id) (k : rw) (p : pos)      (* guarded field accessed without its guard *)
| VImmutableWrite (f st fld : id) (p : pos)          (* immutable field written outside construction *)
| VUndeclared (f st fld : id) (p : pos)              (* field without an entry in the discipline *)
| VUnbalanced (f : id) (l : lockid) (p : pos)        (* lock/unlock the translator cannot pair *)
| VClose (f st fld : id) (p : pos)                   (* close of a channel at an unlisted site *)
| VAnalysis (what : N).                              (* 1: entry-held map not closed; 2: construction set not stable *)

Definition count_closes (fs : list fact) (f st fld : id) : N :=
  N.of_nat (length (filter (fun x => match x with
                           | FChan g ChClose s c _ _ => N.eqb g f && N.eqb s st && N.eqb c fld
                           | _ => false end) fs)).

Definition close_listed (nm : names) (fs : list fact) (d : discipline) (f st fld : id) : bool :=
  existsb (fun e => match e with (g, s, c, n) =>
                      N.eqb (id_of nm g) f && N.eqb (id_of nm s) st && N.eqb (id_of nm c) fld &&
                      N.eqb (count_closes fs f st fld) n end)
          (d_closes d).

Definition viol_of_fact (nm : names) (fs : list fact) (d : discipline) (m : emap) (cs : list id) (x : fact) : list violation :=
  match x with
  | FAccess f st fld k held b p =>
      match elookup m f with
      | None => []                                     (* not reachable from a concurrent root *)
      | Some hf =>
          if exempt cs f b then []
          else match class_of nm d st fld with
               | None => [VUndeclared f st fld p]
               | Some (Guarded l) =>
                   if holds (held ++ hf) (lock_id nm l) (need_of k) then [] else [VUnguarded f st fld k p]
               | Some Immutable => match k with Wr => [VImmutableWrite f st fld p] | Rd => [] end
               | Some (ByOrder _) => []
               | Some (Confined _) => []
               end
      end
  | FUnbalanced f l p => [VUnbalanced f l p]
  | FChan f ChClose st fld _ p => if close_listed nm fs d f st fld then [] else [VClose f st fld p]
  | _ => []
  end.

Definition check_with (nm : names) (fs : list fact) (d : discipline) (m : emap) (cs : list id) : list violation :=
  flat_map (viol_of_fact nm fs d m cs) fs
  ++ (if eh_ok fs m then [] else [VAnalysis 1])
  ++ (if ctor_ok nm fs d cs then [] else [VAnalysis 2]).

Definition check_guarded (nm : names) (fs : list fact) (d : discipline) : list violation :=
  check_with nm fs d (entry_held fs) (ctor_set nm fs d).

(** * Lock order *)

Definition lmap := list (id * list lockid).

Fixpoint llookup (m : lmap) (f : id) : list lockid :=
  match m with
  | [] => []
  | (g, h) :: m' => if N.eqb g f then h else llookup m' f
  end.

Fixpoint lupdate (m : lmap) (f : id) (h : list lockid) : lmap :=
  match m with
  | [] => [(f, h)]
  | (g, h') :: m' => if N.eqb g f then (g, h) :: m' else (g, h') :: lupdate m' f h
  end.

Definition mem_lock (l : lockid) (ls : list lockid) : bool := existsb (lock_eqb l) ls.

Definition add_locks (new acc : list lockid) : list lockid :=
  fold_left (fun a l => if mem_lock l a then a else a ++ [l]) new acc.

(** locks that MAY be held at the entry of a function (union over call paths);
    trusted only through [may_ok] *)
Definition may_pass (es : list (id * id * list hlock * base)) (m : lmap) : lmap :=
  fold_left (fun m e => match e with (c, g, h, _) =>
                          lupdate m g (add_locks (map fst h ++ llookup m c) (llookup m g)) end) es m.
Definition may_held (fs : list fact) : lmap := iter eh_fuel (may_pass (call_edges fs)) [].

Definition subset_l (a b : list lockid) : bool := forallb (fun l => mem_lock l b) a.

Definition may_ok_fact (m : lmap) (x : fact) : bool :=
  match x with
  | FCall c f h _ _ => subset_l (map fst h ++ llookup m c) (llookup m f)
  | _ => true
  end.
Definition may_ok (fs : list fact) (m : lmap) : bool := forallb (may_ok_fact m) fs.

(** order edges: b is acquired while a is (or may be) held *)
Definition order_edges_with (fs : list fact) (m : lmap) : list (lockid * lockid) :=
  flat_map (fun x => match x with
                     | FAcquire f l _ h _ => map (fun a => (a, l)) (map fst h ++ llookup m f)
                     | _ => [] end) fs.

Definition order_edges (fs : list fact) : list (lockid * lockid) := order_edges_with fs (may_held fs).

(** ranks by longest-path relaxation; a cycle makes the final check fail *)
Definition rmap := list (lockid * nat).
Fixpoint rlookup (r : rmap) (l : lockid) : nat :=
  match r with
  | [] => O
  | (k, n) :: r' => if lock_eqb k l then n else rlookup r' l
  end.
Fixpoint rset (r : rmap) (l : lockid) (n : nat) : rmap :=
  match r with
  | [] => [(l, n)]
  | (k, v) :: r' => if lock_eqb k l then (k, n) :: r' else (k, v) :: rset r' l n
  end.
Definition relax (es : list (lockid * lockid)) (r : rmap) : rmap :=
  fold_left (fun r e => let a := rlookup r (fst e) in
                        if Nat.ltb a (rlookup r (snd e)) then r else rset r (snd e) (S a)) es r.
Definition ranks (es : list (lockid * lockid)) : rmap := iter (S (length es)) (relax es) [].
Definition ranked (es : list (lockid * lockid)) (r : rmap) : bool :=
  forallb (fun e => Nat.ltb (rlookup r (fst e)) (rlookup r (snd e))) es.

Definition lock_order_acyclic (fs : list fact) : bool :=
  let m := may_held fs in
  may_ok fs m && ranked (order_edges_with fs m) (ranks (order_edges_with fs m)).

(** * Statistics for the evidence file *)

Definition count {A} (p : A -> bool) (l : list A) : N := N.of_nat (length (filter p l)).

Record stats := mkStats {
  n_funcs : N; n_accesses : N; n_reachable_accesses : N; n_guarded_checked : N;
  n_exempt_local : N; n_by_rule : N; n_immutable : N; n_calls : N; n_roots : N; n_go : N;
  n_acquires : N; n_order_edges : N; n_chan : N; n_sync : N; n_reachable_funcs : N; n_ctor_funcs : N
}.

Definition stats_with (nm : names) (fs : list fact) (d : discipline) (m : emap) (cs : list id) (edges : list (lockid * lockid)) : stats :=
  let reachable f := match elookup m f with Some _ => true | None => false end in
  let cls x (want : fclass -> bool) :=
      match x with
      | FAccess f st fld _ _ b _ =>
          reachable f && negb (exempt cs f b) &&
          match class_of nm d st fld with Some c => want c | None => false end
      | _ => false end in
  mkStats (N.of_nat (length (funcs fs)))
          (count (fun x => match x with FAccess _ _ _ _ _ _ _ => true | _ => false end) fs)
          (count (fun x => match x with FAccess f _ _ _ _ _ _ => reachable f | _ => false end) fs)
          (count (fun x => cls x (fun c => match c with Guarded _ => true | _ => false end)) fs)
          (count (fun x => match x with FAccess f _ _ _ _ b _ => reachable f && exempt cs f b | _ => false end) fs)
          (count (fun x => cls x (fun c => match c with ByOrder _ => true | Confined _ => true | _ => false end)) fs)
          (count (fun x => cls x (fun c => match c with Immutable => true | _ => false end)) fs)
          (count (fun x => match x with FCall _ _ _ _ _ => true | _ => false end) fs)
          (count (fun x => match x with FRoot _ _ => true | _ => false end) fs)
          (count (fun x => match x with FGo _ _ _ => true | _ => false end) fs)
          (count (fun x => match x with FAcquire _ _ _ _ _ => true | _ => false end) fs)
          (N.of_nat (length edges))
          (count (fun x => match x with FChan _ _ _ _ _ _ => true | _ => false end) fs)
          (count (fun x => match x with FSync _ _ _ _ => true | _ => false end) fs)
          (N.of_nat (length m)) (N.of_nat (length cs)).

(** distinct order edges, for the report *)
Definition edge_eqb (a b : lockid * lockid) : bool := lock_eqb (fst a) (fst b) && lock_eqb (snd a) (snd b).
Fixpoint dedup_edges (es : list (lockid * lockid)) : list (lockid * lockid) :=
  match es with
  | [] => []
  | e :: es' => if existsb (edge_eqb e) es' then dedup_edges es' else e :: dedup_edges es'
  end.

(** * Known findings (from /verif/known_findings/C18.json, written into the
    evaluation file by tools/c18.py): a flagged access is explained when its
    function (closure suffix "$n" stripped), struct, field path and kind are listed *)
Definition known_site := (str * str * str * rw)%type.

Definition strip_closure (s : str) : str :=
  match index_byte s x24 with Some n => firstn n s | None => s end.

Definition rw_eqb (a b : rw) : bool := match a, b with Rd, Rd => true | Wr, Wr => true | _, _ => false end.

Definition is_known (nm : names) (ks : list known_site) (v : violation) : bool :=
  match v with
  | VUnguarded f st fld k _ =>
      existsb (fun e => match e with (kf, kst, kfld, kk) =>
                          str_eqb (strip_closure (name_of nm f)) kf && str_eqb (name_of nm st) kst &&
                          str_eqb (name_of nm fld) kfld && rw_eqb k kk end) ks
  | _ => false
  end.

Definition unexplained (nm : names) (ks : list known_site) (vs : list violation) : list violation :=
  filter (fun v => negb (is_known nm ks v)) vs.

(** everything the check needs, in one evaluation *)
Record verdict := mkVerdict {
  v_violations : list violation; v_unexplained : list violation; v_acyclic : bool; v_stats : stats;
  v_edges : list (lockid * lockid); v_ctors : list id }.
Definition verdict_of (nm : names) (fs : list fact) (d : discipline) (ks : list known_site) : verdict :=
  let m := entry_held fs in
  let cs := ctor_set nm fs d in
  let edges := order_edges fs in
  let vs := check_with nm fs d m cs in
  mkVerdict vs (unexplained nm ks vs) (lock_order_acyclic fs) (stats_with nm fs d m cs edges) (dedup_edges edges) cs.

(** * The discipline of internal/server (DESIGN.md Appendix B, checked against the code) *)

Definition L_router  : slock := (bs "Router", bs "serviceLock").
Definition L_service : slock := (bs "Service", bs "serviceLock").
Definition L_lb      : slock := (bs "LoadBalancer", bs "lock").
Definition L_target  : slock := (bs "Target", bs "inflightLock").
Definition L_pause   : slock := (bs "PauseController", bs "lock").

Definition per_request : str := bs "created for one request / call and used by the goroutine serving it".
Definition startup : str := bs "written while the server starts (before the goroutines that read it are started)".

Definition kamal_discipline : discipline := mkDiscipline
  [ (* the routing table *)
    (bs "Router", bs "services", Guarded L_router);
    (bs "Router", bs "statePath", Immutable);
    (bs "ServiceMap", bs "services", Guarded L_router);
    (bs "ServiceMap", bs "requestServiceMap", Guarded L_router);
    (bs "pathBinding", bs "*", Immutable);
    (* a service: balancer slots, split and - since fix ce2a27e - the TLS flags (rewritten by
       syncTLSOptionsFromRootDomain through setTLSSettings) under the service lock *)
    (bs "Service", bs "active", Guarded L_service);
    (bs "Service", bs "rollout", Guarded L_service);
    (bs "Service", bs "rolloutController", Guarded L_service);
    (bs "Service", bs "options.Hosts", Immutable);
    (bs "Service", bs "options.PathPrefixes", Immutable);
    (bs "Service", bs "options.StripPrefix", Immutable);
    (bs "Service", bs "options.TLSCertificatePath", Immutable);
    (bs "Service", bs "options.TLSPrivateKeyPath", Immutable);
    (bs "Service", bs "options.ACMEDirectory", Immutable);
    (bs "Service", bs "options.ACMECachePath", Immutable);
    (bs "Service", bs "options.ErrorPagePath", Immutable);
    (bs "Service", bs "options", Guarded L_service);  (* .TLSEnabled, .TLSRedirect and the struct as a whole *)
    (bs "Service", bs "*", Immutable);                (* name, targetOptions, pauseController, certManager, middleware *)
    (bs "ServiceOptions", bs "*", Immutable);         (* a value type: every holder has its own copy *)
    (bs "TargetOptions", bs "*", Immutable);
    (bs "RolloutController", bs "*", Immutable);
    (* balancer *)
    (bs "LoadBalancer", bs "healthy", Guarded L_lb);
    (bs "LoadBalancer", bs "index", Guarded L_lb);
    (bs "LoadBalancer", bs "all", Immutable);
    (* target *)
    (bs "Target", bs "state", Guarded L_target);
    (bs "Target", bs "inflight", Guarded L_target);
    (bs "inflightRequest", bs "hijacked", Guarded L_target);
    (bs "inflightRequest", bs "cancel", Immutable);
    (bs "Target", bs "healthcheck",
       ByOrder (bs "written by BeginHealthChecks (construction), by the deploy's waiter goroutine (joined by wg.Wait before the balancer is published or disposed), later only by Dispose under LoadBalancer.lock"));
    (bs "Target", bs "stateConsumer",
       ByOrder (bs "written by BeginHealthChecks before NewHealthCheck starts the probe goroutine"));
    (bs "Target", bs "becameHealthy",
       ByOrder (bs "written by BeginHealthChecks before NewHealthCheck starts the probe goroutine; then only closed / received from"));
    (bs "Target", bs "*", Immutable);                 (* targetURL, options, proxyHandler *)
    (bs "targetResponseWriter", bs "*", Immutable);
    (bs "HealthCheck", bs "*", Immutable);
    (* pause gate *)
    (bs "PauseController", bs "State", Guarded L_pause);
    (bs "PauseController", bs "StopMessage", Guarded L_pause);
    (bs "PauseController", bs "FailAfter", Guarded L_pause);
    (bs "PauseController", bs "pauseChannel", Guarded L_pause);
    (* command handler / server *)
    (bs "CommandHandler", bs "router", Immutable);
    (bs "CommandHandler", bs "rpcListener", ByOrder startup);
    (bs "ListResponse", bs "*", Confined per_request);
    (bs "Server", bs "*", ByOrder startup);
    (bs "Config", bs "*", Immutable);
    (* per-request objects and immutable middleware configuration *)
    (bs "Buffer", bs "*", Confined per_request);
    (bs "bufferedResponseWriter", bs "*", Confined per_request);
    (bs "loggerResponseWriter", bs "*", Confined per_request);
    (bs "errorResponse", bs "*", Confined per_request);
    (bs "loggingRequestContext", bs "*", Confined per_request);
    (bs "routingContext", bs "*", Immutable);
    (bs "ErrorPageMiddleware", bs "*", Immutable);
    (bs "LoggingMiddleware", bs "*", Immutable);
    (bs "RequestBufferMiddleware", bs "*", Immutable);
    (bs "ResponseBufferMiddleware", bs "*", Immutable);
    (bs "RequestIDMiddleware", bs "*", Immutable);
    (bs "RequestStartMiddleware", bs "*", Immutable);
    (bs "BufferPool", bs "*", Immutable);
    (bs "StaticCertManager", bs "*", Immutable);
    (* package variables: errors, context keys, regexps, defaults *)
    (bs "", bs "*", Immutable) ]
  (* encoding/json calls UnmarshalJSON on an object nobody else has yet *)
  [ bs "Service.UnmarshalJSON"; bs "PauseController.UnmarshalJSON" ]
  (* the only places that close a channel; that neither closes twice is the
     business of the sequential model (props/C18seq.v) *)
  [ (bs "PauseController.setState", bs "PauseController", bs "pauseChannel", 1);
    (bs "Target.HealthCheckCompleted", bs "Target", bs "becameHealthy", 1) ].

