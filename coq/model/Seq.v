(** Seq.v — "M4": the sequential command machine.  Commands run to
    completion one after the other (router.go, service.go, pause_controller.go,
    rollout_controller.go, service_map.go), requests are served between them,
    and the state file is rewritten by every command that defers a snapshot.
    Health outcomes, certificate and error-page readability are inputs of the
    command (the environment).  Executable; no proofs. *)
From KP Require Import model.Base model.ServiceMap.

(** Which repaired defects the modelled code contains ([pinned] = the tree as
    given, [fixed] = with the "fix:" commits recorded in known_findings.json). *)
Record variant := mkVariant {
  fix_dispose_on_conflict : bool;   (* D4: dispose the new balancer when install fails *)
  fix_restored_pause_chan : bool;   (* D5: restored paused controller gets a channel *)
  fix_restored_rollout : bool;      (* D6: no rollout balancer restored without rollout targets *)
  fix_cert_root_only : bool         (* D17: only root path services get a certificate manager *)
}.
Definition pinned : variant := mkVariant false false false false.
Definition fixed : variant := mkVariant true true true true.

(** ** Options *)

Inductive cert_in := CertNone | CertGood | CertBad.
Inductive pages_in := PagesNone | PagesGood | PagesBad.

Record sopts := mkSopts {
  o_hosts : list str; o_prefixes : list str;
  o_tls : bool; o_tls_redirect : bool;
  o_cert : cert_in; o_pages : pages_in; o_strip : bool }.

Record topts := mkTopts { t_health_path : str; t_tag : N }.

Definition normalize (o : sopts) : sopts :=
  mkSopts (normalize_hosts (o_hosts o)) (normalize_prefixes (o_prefixes o))
          (o_tls o) (o_tls_redirect o) (o_cert o) (o_pages o) (o_strip o).

Definition set_tls (o : sopts) (tls redir : bool) : sopts :=
  mkSopts (o_hosts o) (o_prefixes o) tls redir (o_cert o) (o_pages o) (o_strip o).

(** ** Service state *)

Inductive pstate := Running | Paused | Stopped.
Record pausectl := mkPause {
  p_state : pstate; p_msg : str; p_fail_after : N;
  p_chan_nil : bool   (* paused with a nil channel (restored, pinned tree) *) }.
Definition pause_new : pausectl := mkPause Running [] 0 false.

Record rollctl := mkRoll { r_pct : Z; r_allow : list str }.

Record service := mkSvc {
  s_name : str; s_opts : sopts; s_topts : topts;
  s_active : list str;
  s_rollout : option (list str);
  s_pause : pausectl;
  s_roll : option rollctl;
  s_has_cert : bool }.

Record state := mkState {
  st_services : list service;        (* unique names *)
  st_probing : list str;             (* targets with a live probe loop (multiset) *)
  st_disk : option (list service)    (* contents of the state file *) }.

Definition init_state : state := mkState [] [] None.

Inductive err :=
| ENotFound | EUnhealthy | EHostInUse | EInvalidTarget | ECert | EWildcardACME | EPages | ERolloutNotSet.
Inductive result := Ok | Err (e : err) | Panic.

(** ** Tables *)

Definition bi_of (s : service) : binding_info :=
  mkBI (s_name s) (o_hosts (s_opts s)) (o_prefixes (s_opts s)).
Definition table_of (svcs : list service) : table := map bi_of svcs.

Fixpoint svc_get (svcs : list service) (name : str) : option service :=
  match svcs with
  | [] => None
  | s :: r => if str_eqb (s_name s) name then Some s else svc_get r name
  end.

Fixpoint svc_remove (svcs : list service) (name : str) : list service :=
  match svcs with
  | [] => []
  | s :: r => if str_eqb (s_name s) name then svc_remove r name else s :: svc_remove r name
  end.

Definition svc_set (svcs : list service) (s : service) : list service := svc_remove svcs (s_name s) ++ [s].

Definition serves_root (s : service) : bool := mem_str root_path (o_prefixes (s_opts s)).

(** syncTLSOptionsFromRootDomain *)
Definition sync_tls (svcs : list service) : list service :=
  map (fun s =>
    if serves_root s then s else
    let host := match o_hosts (s_opts s) with h :: _ => h | [] => [] end in
    let '(tls, redir) :=
      match service_for (table_of svcs) host root_path with
      | Some (n, _) => match svc_get svcs n with
                       | Some r => (o_tls (s_opts r), o_tls_redirect (s_opts r))
                       | None => (false, true)
                       end
      | None => (false, true)
      end in
    mkSvc (s_name s) (set_tls (s_opts s) tls redir) (s_topts s) (s_active s) (s_rollout s)
          (s_pause s) (s_roll s) (s_has_cert s)) svcs.

(** ** Target names: hostRegex = ^(\w[-_.\w+]+)(:\d+)?$ *)

Definition is_word (b : byte) : bool := is_alnum b || byte_eqb b x5f.
Definition is_host_char (b : byte) : bool :=
  is_word b || byte_eqb b x2d || byte_eqb b x2e || byte_eqb b x2b.

Definition valid_target_name (n : str) : bool :=
  let '(h, port_ok) :=
    match index_byte n colon with
    | None => (n, true)
    | Some i => let p := skipn (S i) n in
                (firstn i n, negb (Nat.eqb (length p) 0) && forallb is_digit p)
    end in
  port_ok &&
  match h with
  | c :: (_ :: _) as rest => is_word c && forallb is_host_char (tl h)
  | _ => false
  end.

(** ** initialize(): certificate manager and middleware *)

Definition wants_cert (v : variant) (o : sopts) : bool :=
  o_tls o && (negb (fix_cert_root_only v) || mem_str root_path (o_prefixes o)).

Definition init_check (v : variant) (o : sopts) : option err :=
  let cert_err :=
    if wants_cert v o then
      match o_cert o with
      | CertGood => None
      | CertBad => Some ECert
      | CertNone => if existsb (fun h => contains_byte h star) (o_hosts o) then Some EWildcardACME else None
      end
    else None in
  match cert_err with
  | Some e => Some e
  | None => match o_pages o with PagesBad => Some EPages | _ => None end
  end.

(** ** Probing set *)

Fixpoint remove_one (x : str) (l : list str) : list str :=
  match l with
  | [] => []
  | y :: r => if str_eqb x y then r else y :: remove_one x r
  end.
Definition remove_all_of (xs l : list str) : list str := fold_left (fun acc x => remove_one x acc) xs l.

(** ** Snapshot *)

Definition save (st : state) : state := mkState (st_services st) (st_probing st) (Some (st_services st)).

(** ** Commands *)

Record tgt_in := mkTgt { tg_name : str; tg_healthy : bool }.

Inductive cmd :=
| Deploy (name : str) (o : sopts) (t : topts) (targets : list tgt_in)
| RolloutDeploy (name : str) (targets : list tgt_in)
| RolloutSet (name : str) (pct : Z) (allow : list str)
| RolloutStop (name : str)
| Pause (name : str) (fail_after : N)
| Stop (name : str) (msg : str)
| Resume (name : str)
| Remove (name : str)
| Restart.

Definition with_pause (s : service) (p : pausectl) : service :=
  mkSvc (s_name s) (s_opts s) (s_topts s) (s_active s) (s_rollout s) p (s_roll s) (s_has_cert s).
Definition with_roll (s : service) (r : option rollctl) : service :=
  mkSvc (s_name s) (s_opts s) (s_topts s) (s_active s) (s_rollout s) (s_pause s) r (s_has_cert s).
Definition with_rollout (s : service) (ts : option (list str)) : service :=
  mkSvc (s_name s) (s_opts s) (s_topts s) (s_active s) ts (s_pause s) (s_roll s) (s_has_cert s).

Definition install (svcs : list service) (s : service) : list service := sync_tls (svc_set svcs s).

(** deployTargetsIntoService, both slots. *)
Definition deploy_into (v : variant) (st : state) (s : service) (rollout_slot : bool) (targets : list tgt_in)
  : result * state :=
  let names := map tg_name targets in
  if negb (forallb valid_target_name names) then (Err EInvalidTarget, st) else
  if negb (forallb tg_healthy targets) then (Err EUnhealthy, st) else
  let replaced := if rollout_slot then match s_rollout s with Some ts => ts | None => [] end
                  else s_active s in
  let s' := if rollout_slot then with_rollout s (Some names)
            else mkSvc (s_name s) (s_opts s) (s_topts s) names (s_rollout s) (s_pause s) (s_roll s) (s_has_cert s) in
  if conflicts (table_of (st_services st)) (s_name s) (o_hosts (s_opts s)) (o_prefixes (s_opts s))
  then (Err EHostInUse,
        save (mkState (st_services st)
                      (if fix_dispose_on_conflict v then st_probing st else st_probing st ++ names)
                      (st_disk st)))
  else (Ok, save (mkState (install (st_services st) s')
                          (remove_all_of replaced (st_probing st ++ names)) (st_disk st))).

Definition on_service (st : state) (name : str) (f : service -> result * state) : result * state :=
  match svc_get (st_services st) name with
  | None => (Err ENotFound, save st)
  | Some s => f s
  end.

Definition replace_svc (st : state) (s : service) : state :=
  mkState (map (fun x => if str_eqb (s_name x) (s_name s) then s else x) (st_services st))
          (st_probing st) (st_disk st).

(** setState: closing the pause channel panics when it is nil. *)
Definition set_pause_state (s : service) (new : pstate) (msg : str) : option service :=
  let p := s_pause s in
  let closing := match p_state p, new with
                 | Paused, Paused => false
                 | Paused, _ => true
                 | _, _ => false end in
  if closing && p_chan_nil p then None
  else Some (with_pause s (mkPause new msg (p_fail_after p) (if closing then false else p_chan_nil p))).

(** ** Restore (RestoreLastSavedState + UnmarshalJSON) *)

Definition restore_svc (v : variant) (s : service) : option service :=
  match init_check v (s_opts s) with
  | Some _ => None
  | None =>
    let p := s_pause s in
    let p' := match p_state p with
              | Paused => mkPause Paused [] (p_fail_after p) (negb (fix_restored_pause_chan v))
              | Running => mkPause Running [] (p_fail_after p) false
              | Stopped => mkPause Stopped (p_msg p) (p_fail_after p) false
              end in
    let ro := match s_rollout s with
              | Some ts => Some ts
              | None => if fix_restored_rollout v then None else Some []
              end in
    Some (mkSvc (s_name s) (s_opts s) (s_topts s) (s_active s) ro p' (s_roll s) (wants_cert v (s_opts s)))
  end.

Fixpoint restore_all (v : variant) (saved : list service) : option (list service) :=
  match saved with
  | [] => Some []
  | s :: r => match restore_svc v s, restore_all v r with
              | Some s', Some r' => Some (s' :: r')
              | _, _ => None
              end
  end.

Definition targets_of (svcs : list service) : list str :=
  flat_map (fun s => s_active s ++ match s_rollout s with Some ts => ts | None => [] end) svcs.

Definition restart (v : variant) (st : state) : state :=
  match st_disk st with
  | None => mkState [] [] None
  | Some saved =>
    match restore_all v saved with
    | None => mkState [] [] (st_disk st)          (* error ignored by `run`: empty proxy *)
    | Some svcs =>
      let svcs' := fold_left (fun acc s => sync_tls (svc_set acc s)) svcs [] in
      mkState svcs' (targets_of svcs') (st_disk st)
    end
  end.

Definition exec (v : variant) (st : state) (c : cmd) : result * state :=
  match c with
  | Deploy name o t targets =>
    let o' := normalize o in
    match init_check v o' with
    | Some e => (Err e, st)
    | None =>
      let s := match svc_get (st_services st) name with
               | Some old => mkSvc name o' t (s_active old) (s_rollout old) (s_pause old) (s_roll old) (wants_cert v o')
               | None => mkSvc name o' t [] None pause_new None (wants_cert v o')
               end in
      deploy_into v st s false targets
    end
  | RolloutDeploy name targets =>
    match svc_get (st_services st) name with
    | None => (Err ENotFound, st)
    | Some s => deploy_into v st s true targets
    end
  | RolloutSet name pct allow =>
    on_service st name (fun s =>
      match s_rollout s with
      | None => (Err ERolloutNotSet, save st)
      | Some _ => (Ok, save (replace_svc st (with_roll s (Some (mkRoll pct allow)))))
      end)
  | RolloutStop name =>
    on_service st name (fun s => (Ok, save (replace_svc st (with_roll s None))))
  | Pause name fail_after =>
    on_service st name (fun s =>
      let p := s_pause s in
      let nil' := match p_state p with Paused => p_chan_nil p | _ => false end in
      (Ok, save (replace_svc st (with_pause s (mkPause Paused [] fail_after nil')))))
  | Stop name msg =>
    on_service st name (fun s =>
      match set_pause_state s Stopped msg with
      | Some s' => (Ok, save (replace_svc st s'))
      | None => (Panic, st)
      end)
  | Resume name =>
    on_service st name (fun s =>
      match set_pause_state s Running [] with
      | Some s' => (Ok, save (replace_svc st s'))
      | None => (Panic, st)
      end)
  | Remove name =>
    match svc_get (st_services st) name with
    | None => (Err ENotFound, save st)
    | Some s =>
      let gone := s_active s ++ match s_rollout s with Some ts => ts | None => [] end in
      (Ok, save (mkState (sync_tls (svc_remove (st_services st) name))
                         (remove_all_of gone (st_probing st)) (st_disk st)))
    end
  | Restart => (Ok, restart v st)
  end.

Fixpoint exec_all (v : variant) (st : state) (cs : list cmd) : state :=
  match cs with
  | [] => st
  | c :: r => exec_all v (snd (exec v st c)) r
  end.

(** ** Requests served between commands *)

Record request := mkReq {
  q_host : str;            (* Host header *)
  q_path : str;            (* decoded URL path *)
  q_uri : str;             (* RequestURI (escaped path + ?query) *)
  q_get : bool;            (* method is GET *)
  q_tls : bool;            (* arrived over TLS *)
  q_cookie : option str    (* value of the kamal-rollout cookie, if any *) }.

Inductive response :=
| R404
| R301 (location : str)
| R503_tls
| R200_health
| R503_stopped (msg : str)
| RHeld (fail_after : N) (chan_nil : bool)
| R503_no_targets
| RForward (svc : str) (targets : list str) (strip : option str).

Definition https_prefix : str := bs "https://".

(** redirectToHTTPS: the port is removed; SplitHostPort strips the brackets of
    an IPv6 literal, which are put back. *)
Definition redirect_host (h : str) : str :=
  match split_host_port h with
  | Some x => if contains_byte x colon then x5b :: x ++ [x5d] else x
  | None => h
  end.

(** the tree as given: brackets lost, "[::1]:80" gave "https://::1/..." *)
Definition redirect_host_pinned (h : str) : str :=
  match split_host_port h with Some x => x | None => h end.

(** [in_group] is RolloutController.RequestUsesRolloutGroup on the cookie value
    (model/Rollout.v); it is a parameter so that this file does not depend on it. *)
Definition serve (in_group : rollctl -> str -> bool) (st : state) (q : request) : response :=
  match route (table_of (st_services st)) (q_host q) (q_path q) with
  | None => R404
  | Some (n, prefix) =>
    match svc_get (st_services st) n with
    | None => R404
    | Some s =>
      let o := s_opts s in
      if o_tls o && o_tls_redirect o && negb (q_tls q)
      then R301 (https_prefix ++ redirect_host (q_host q) ++ q_uri q)
      else if negb (o_tls o) && q_tls q then R503_tls
      else
        let p := s_pause s in
        let health := q_get q && str_eqb (q_path q) (t_health_path (s_topts s)) in
        match p_state p with
        | Stopped => if health then R200_health else R503_stopped (p_msg p)
        | Paused => if health then R200_health else RHeld (p_fail_after p) (p_chan_nil p)
        | Running =>
          let use_rollout :=
            match s_rollout s, s_roll s, q_cookie q with
            | Some _, Some rc, Some c => negb (Nat.eqb (length c) 0) && in_group rc c
            | _, _, _ => false
            end in
          let ts := if use_rollout then match s_rollout s with Some x => x | None => [] end
                    else s_active s in
          match ts with
          | [] => R503_no_targets
          | _ => RForward n ts (if o_strip o && negb (str_eqb prefix root_path) then Some prefix else None)
          end
        end
    end
  end.

(** ** `list` *)

Definition pstate_name (p : pstate) : str :=
  match p with Running => bs "running" | Paused => bs "paused" | Stopped => bs "stopped" end.

Record list_row := mkRow { lr_name : str; lr_host : str; lr_path : str; lr_target : str; lr_state : str; lr_tls : bool }.

Definition comma : str := [x2c].
Definition list_services (st : state) : list list_row :=
  map (fun s =>
    let h := join comma (o_hosts (s_opts s)) in
    mkRow (s_name s) (match h with [] => [star] | _ => h end) (join comma (o_prefixes (s_opts s)))
          (join comma (s_active s)) (pstate_name (p_state (s_pause s))) (o_tls (s_opts s)))
      (st_services st).
