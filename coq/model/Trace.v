(** Trace.v — the vocabulary of the event traces recorded from the real code
    through the verifEvent hooks (harness/sim_test.go), on the virtual clock.
    One constructor per hook; identifiers are the small integers the harness
    assigns in first-seen order (targets in creation order).  The "M5" views
    (model/M5*.v) are acceptors over lists of these events. *)
From KP Require Import model.Base.

(** Go's TargetState iota: adding 0, draining 1, healthy 2, unhealthy 3 *)
Inductive tstate := TAdding | TDraining | THealthy | TUnhealthy.
Definition tstate_eqb (a b : tstate) : bool :=
  match a, b with
  | TAdding, TAdding | TDraining, TDraining | THealthy, THealthy | TUnhealthy, TUnhealthy => true
  | _, _ => false
  end.

(** PauseState iota: running 0, paused 1, stopped 2 *)
Inductive gstate := GRunning | GPaused | GStopped.
Definition gstate_eqb (a b : gstate) : bool :=
  match a, b with
  | GRunning, GRunning | GPaused, GPaused | GStopped, GStopped => true
  | _, _ => false
  end.

(** PauseWaitAction iota: proceed 0, timed out 1, stopped 2 *)
Inductive gaction := AProceed | ATimedOut | AStopped.

(** who performed the step *)
Inductive actor := AReq (r : nat) | ACmd (c : nat) | AGo (g : nat) | AEnv.
Definition actor_eqb (a b : actor) : bool :=
  match a, b with
  | AReq x, AReq y | ACmd x, ACmd y | AGo x, AGo y => Nat.eqb x y
  | AEnv, AEnv => true
  | _, _ => false
  end.

Inductive cmdkind :=
| CkDeploy | CkRolloutDeploy | CkRolloutSet | CkRolloutStop | CkPause | CkStop | CkResume | CkRemove.

Inductive cresult := CROk | CRErr (code : N) | CRPanic.

Inductive kind :=
(* environment *)
| KIssue (c : nat) (k : cmdkind) (name : str)
| KParams (c : nat) (deploy_timeout drain_timeout fail_after : N)   (* the command's durations (ns); follows its KIssue *)
| KReturn (c : nat) (r : cresult)
| KArrive (r : nat)
| KRespond (r : nat) (status : N) (served_by : str)
| KProbeSent (target_name : str) (outcome_ok : bool)
| KAtTarget (t r : nat)
| KTargetReplied (t r : nat) (status : N)
| KTargetFailed (t r : nat) (why : N)     (* 0 transport fault, 1 cancelled by a drain, 2 client went away *)
(* router / service *)
| KRouted (r : nat) (svc : option nat)
| KSvcCopy (old new : nat)
| KDeployLb (svc : nat) (rollout_slot : bool) (lb : nat)
| KDeployWaited (lb : nat) (ok : bool)
| KSlot (svc : nat) (rollout_slot : bool) (lb : nat) (replaced : option nat)
| KInstall (svc : nat) (ok : bool)
| KRemoved (svc : nat)
| KRestored (svc : nat) (active rollout : option nat)   (* RestoreLastSavedState put a service object read from the state file into the table *)
| KRolloutSet (svc : nat)
| KRolloutStop (svc : nat)
| KPick (r svc : nat) (lb : option nat)
(* pause controller *)
| KGateSet (pc : nat) (st : gstate) (chan : option nat)
| KGateRead (pc : nat) (st : gstate) (chan : option nat)
| KGateWake (pc : nat) (by_channel : bool)
| KGateResult (r svc : nat) (a : gaction)
(* load balancer / target *)
| KLbNew (lb : nat) (targets : list nat)
| KLbDispose (lb : nat)
| KLbClaim (lb : nat) (t : option nat) (r : nat)
| KRotation (lb : nat) (healthy : list nat)
| KClaim (t r : nat)
| KClaimRefused (t r : nat)
| KEnd (t r : nat)
| KHijacked (r : nat)
| KProbeApply (t : nat) (ok : bool) (prev new : tstate)
| KWaiter (t : nat) (ok : bool)
| KProbeStop (t : nat)
| KStateSet (t : nat) (orig new : tstate)
| KDrainBegin (t : nat) (orig : tstate) (timeout : N)       (* Drain entered: state before the mark, drain timeout (ns) *)
| KDrainSnapshot (t : nat) (inflight : list (nat * bool))   (* request, hijacked *)
| KDrainDeadline (t : nat)
| KDrainCancelRest (t : nat)
(* command <-> drain linkage (exact: the WaitGroup of a DrainAll call identifies the call) *)
| KSvcDrain (svc : nat) (lbs : list nat)          (* Service.Drain entered (pause / stop): the balancers it is about to drain *)
| KSvcDrainDone (svc : nat)                       (* ... both DrainAll calls have returned *)
| KDrainAll (lb w : nat)                          (* LoadBalancer.DrainAll call w entered *)
| KDrainChild (t w : nat)                         (* the goroutine call w spawned for target t is about to run Drain(t) *)
| KDrainAllDone (lb w : nat)                      (* wg.Wait() of call w has returned *)
(* state snapshot *)
| KSnapCollect (svcs : list nat)
| KSnapCreate
| KSnapWrite
| KSnapRename                       (* repaired snapshot: os.Rename(temp, state file) done *)
(* identities (emitted by the trace converter when an id first appears) *)
| KSvcName (svc : nat) (name : str)
| KTargetName (t : nat) (name : str)
(* schedule control (harness) *)
| KParked | KReleased
| KOther.

(** the linkage events (dropped from the traces offered to the views that predate them) *)
Definition is_link (k : kind) : bool :=
  match k with
  | KSvcDrain _ _ | KSvcDrainDone _ | KDrainAll _ _ | KDrainChild _ _ | KDrainAllDone _ _ => true
  | _ => false
  end.

Record event := mkEv { e_t : N; e_by : actor; e_k : kind }.

Definition trace := list event.

Definition unlinked (tr : trace) : trace := filter (fun e => negb (is_link (e_k e))) tr.

(** Generic helpers for association lists keyed by nat (the "heaps"). *)
Fixpoint nget {A} (l : list (nat * A)) (k : nat) : option A :=
  match l with
  | [] => None
  | (k', v) :: r => if Nat.eqb k k' then Some v else nget r k
  end.

Fixpoint nset {A} (l : list (nat * A)) (k : nat) (v : A) : list (nat * A) :=
  match l with
  | [] => [(k, v)]
  | (k', v') :: r => if Nat.eqb k k' then (k, v) :: r else (k', v') :: nset r k v
  end.

Definition nmem (k : nat) (l : list nat) : bool := existsb (Nat.eqb k) l.

Fixpoint nremove (k : nat) (l : list nat) : list nat :=
  match l with
  | [] => []
  | x :: r => if Nat.eqb k x then nremove k r else x :: nremove k r
  end.

Definition nlist_eqb := list_eqb Nat.eqb.

(** Fold an acceptor over a trace: [None] = the trace is not a behaviour of
    the model (correspondence failure at that event). *)
Fixpoint run {St} (step : St -> event -> option St) (s : St) (tr : trace) : option St :=
  match tr with
  | [] => Some s
  | e :: r => match step s e with Some s' => run step s' r | None => None end
  end.

(** Index of the first rejected event, for diagnostics. *)
Fixpoint first_reject {St} (step : St -> event -> option St) (s : St) (tr : trace) (n : nat) : option nat :=
  match tr with
  | [] => None
  | e :: r => match step s e with Some s' => first_reject step s' r (S n) | None => Some n end
  end.
