(** M5snap.v — the state-snapshot view of the event traces (model/Trace.v):
    the configuration in force, the commands in progress, the snapshot
    sections (collect, create, write, rename) and the state file on disk.

    [Pinned] is saveStateSnapshot as given: os.Create truncates the LIVE file,
    the encoder then writes into it, nothing orders the snapshots of
    overlapping commands.  [Repaired] is fixes/C12-atomic-snapshot.patch: a
    mutex from collect to rename, a temporary file in the same directory,
    close, os.Rename over the state file.

    The view is an acceptor ([snap_step] returns [None] when the trace is not a
    behaviour of the model).  What a process killed after any prefix of the
    trace leaves on disk is [s_live] of the state after that prefix; what the
    next start makes of it is [restored].  Executable; no proofs. *)
From KP Require Import model.Base model.Trace.

Inductive tree := Pinned | Repaired.

(** ** Configuration in force, as far as the state file describes it

    [g_set]: the service objects installed in the router's map (sorted ids);
    it changes at [KInstall s true] (which also evicts the object of the same
    name) and [KRemoved s].  [g_objs]: a version counter of everything the file
    says ABOUT a service object and that can change while the object stays
    installed — target slots ([KSlot]), rollout split ([KRolloutSet],
    [KRolloutStop]), pause state ([KGateSet]).

    A snapshot is made of the service objects found in the map when it
    COLLECTS (under the router's read lock) and of the state those objects are
    in when it WRITES (Service.MarshalJSON runs inside Encode). *)
Record cfg := mkCfg { g_set : list nat; g_objs : nat }.
Definition cfg0 : cfg := mkCfg [] 0.
Definition cfg_eqb (a b : cfg) : bool := nlist_eqb (g_set a) (g_set b) && Nat.eqb (g_objs a) (g_objs b).

(** ** The disk *)
Inductive disk :=
| DAbsent                (* no state file *)
| DTrunc                 (* pinned: created (truncated), nothing written yet: an empty file *)
| DTorn                  (* pinned: two writers wrote through their own descriptors *)
| DFile (c : cfg).       (* one complete snapshot *)

(** RestoreLastSavedState + `run` (which ignores its error): the services the
    next start serves. *)
Definition restored (d : disk) : option (list nat) :=
  match d with
  | DAbsent => Some []           (* "No previous state to restore" *)
  | DTrunc => Some []            (* decode error (EOF), ignored by run: empty proxy *)
  | DTorn => None                (* unspecified *)
  | DFile c => Some (g_set c)
  end.

Inductive phase := PCollected | PCreated | PWritten.

(** a snapshot in progress *)
Record writer := mkW {
  w_cmd : nat; w_phase : phase;
  w_set : list nat;      (* the objects collected *)
  w_k1 : nat;            (* index of its collect event *)
  w_k2 : nat;            (* index of its write event (once written) *)
  w_objs : nat;          (* object state read by the write *)
  w_clean : bool         (* pinned: nobody else wrote since this writer's create *) }.

(** a command in progress: has it changed the configuration without having
    collected a snapshot since? *)
Inductive cstatus := CFresh | CDirty | CSaved.
Record cmdst := mkC { c_id : nat; c_st : cstatus; c_t0 : nat (* index of its issue event *) }.

Record sstate := mkS {
  s_now : nat;                       (* events consumed *)
  s_names : list (nat * str);        (* service object -> service name *)
  s_cfg : cfg;                       (* configuration in force *)
  s_live : disk;                     (* the state file *)
  s_prov : nat * nat;                (* collect and write event indices of the live content *)
  s_temp : option (option cfg);      (* repaired: the temporary file (Some None: created, empty) *)
  s_writers : list writer;
  s_cmds : list cmdst;               (* in issue order *)
  s_used : list nat;                 (* command ids ever issued *)
  s_done : list cfg                  (* contents of the completed snapshots, newest first *) }.

Definition snap_init : sstate := mkS 0 [] cfg0 DAbsent (0, 0) None [] [] [] [].

(** ** Reading an event *)
Inductive chg := ChSet | ChObj.

Inductive sev :=
| VName (svc : nat) (nm : str)
| VIssue (c : nat)
| VReturn (c : nat)
| VInstall (c svc : nat)
| VRemoved (c svc : nat)
| VObj (c : nat)
| VCollect (c : nat) (svcs : list nat)
| VCreate (c : nat)
| VWrite (c : nat)
| VRename (c : nat)
| VSkip
| VBad.                              (* a configuration change or snapshot step outside any command *)

Definition by_cmd (a : actor) (f : nat -> sev) : sev :=
  match a with ACmd c => f c | _ => VBad end.

Definition read (e : event) : sev :=
  match e_k e with
  | KSvcName i nm => VName i nm
  | KIssue c _ _ => VIssue c
  | KReturn c _ => VReturn c
  | KInstall s true => by_cmd (e_by e) (fun c => VInstall c s)
  | KRemoved s => by_cmd (e_by e) (fun c => VRemoved c s)
  | KSlot _ _ _ _ | KRolloutSet _ | KRolloutStop _ | KGateSet _ _ _ => by_cmd (e_by e) VObj
  | KSnapCollect svcs => by_cmd (e_by e) (fun c => VCollect c svcs)
  | KSnapCreate => by_cmd (e_by e) VCreate
  | KSnapWrite => by_cmd (e_by e) VWrite
  | KSnapRename => by_cmd (e_by e) VRename
  | _ => VSkip
  end.

(** which command changed which part of the configuration *)
Definition sev_change (x : sev) : option (nat * chg) :=
  match x with
  | VInstall c _ | VRemoved c _ => Some (c, ChSet)
  | VObj c => Some (c, ChObj)
  | _ => None
  end.

(** ** Helpers *)
Fixpoint ins_sorted (x : nat) (l : list nat) : list nat :=
  match l with
  | [] => [x]
  | y :: r => if Nat.leb x y then (if Nat.eqb x y then l else x :: l) else y :: ins_sorted x r
  end.
Definition sort_ids (l : list nat) : list nat := fold_right ins_sorted [] l.

Definition has_name (names : list (nat * str)) (nm : str) (x : nat) : bool :=
  match nget names x with Some n' => str_eqb n' nm | None => false end.

Definition find_cmd (cs : list cmdst) (c : nat) : option cmdst := find (fun x => Nat.eqb (c_id x) c) cs.
Definition set_cmd (cs : list cmdst) (c : nat) (st : cstatus) : list cmdst :=
  map (fun x => if Nat.eqb (c_id x) c then mkC (c_id x) st (c_t0 x) else x) cs.
Definition del_cmd (cs : list cmdst) (c : nat) : list cmdst := filter (fun x => negb (Nat.eqb (c_id x) c)) cs.

Definition find_writer (ws : list writer) (c : nat) : option writer := find (fun w => Nat.eqb (w_cmd w) c) ws.
Definition del_writer (ws : list writer) (c : nat) : list writer := filter (fun w => negb (Nat.eqb (w_cmd w) c)) ws.
Definition put_writer (ws : list writer) (w : writer) : list writer := w :: del_writer ws (w_cmd w).

Definition with_cfg (s : sstate) (g : cfg) (cs : list cmdst) : sstate :=
  mkS (s_now s) (s_names s) g (s_live s) (s_prov s) (s_temp s) (s_writers s) cs (s_used s) (s_done s).
Definition with_cmds (s : sstate) (cs : list cmdst) (used : list nat) : sstate :=
  mkS (s_now s) (s_names s) (s_cfg s) (s_live s) (s_prov s) (s_temp s) (s_writers s) cs used (s_done s).
Definition with_disk (s : sstate) (d : disk) (prov : nat * nat) (tmp : option (option cfg)) (ws : list writer)
           (cs : list cmdst) (done : list cfg) : sstate :=
  mkS (s_now s) (s_names s) (s_cfg s) d prov tmp ws cs (s_used s) done.
Definition tick (s : sstate) : sstate :=
  mkS (S (s_now s)) (s_names s) (s_cfg s) (s_live s) (s_prov s) (s_temp s) (s_writers s) (s_cmds s) (s_used s) (s_done s).

(** a command may change the configuration until it has collected its snapshot *)
Definition changing (s : sstate) (c : nat) (g : cfg) : option sstate :=
  match find_cmd (s_cmds s) c with
  | Some x => match c_st x with
              | CSaved => None
              | _ => Some (with_cfg s g (set_cmd (s_cmds s) c CDirty))
              end
  | None => None
  end.

Definition content_of (w : writer) : cfg := mkCfg (w_set w) (w_objs w).

(** ** One step *)
Definition core (v : tree) (s : sstate) (x : sev) : option sstate :=
  let k := s_now s in
  let g := s_cfg s in
  match x with
  | VSkip => Some s
  | VBad => None
  | VName i nm =>
    Some (mkS (s_now s) ((i, nm) :: s_names s) g (s_live s) (s_prov s) (s_temp s) (s_writers s) (s_cmds s) (s_used s) (s_done s))
  | VIssue c =>
    if nmem c (s_used s) then None
    else Some (with_cmds s (s_cmds s ++ [mkC c CFresh k]) (c :: s_used s))
  | VReturn c =>
    (* every command that changed something saves a snapshot before it returns *)
    match find_cmd (s_cmds s) c, find_writer (s_writers s) c with
    | Some x, None => match c_st x with
                      | CDirty => None
                      | _ => Some (with_cmds s (del_cmd (s_cmds s) c) (s_used s))
                      end
    | _, _ => None
    end
  | VInstall c i =>
    match nget (s_names s) i with
    | Some nm => changing s c (mkCfg (ins_sorted i (filter (fun y => negb (has_name (s_names s) nm y)) (g_set g))) (g_objs g))
    | None => None
    end
  | VRemoved c i => changing s c (mkCfg (nremove i (g_set g)) (g_objs g))
  | VObj c => changing s c (mkCfg (g_set g) (S (g_objs g)))
  | VCollect c svcs =>
    (* reads the map under the router's read lock; repaired: inside the snapshot mutex *)
    match find_cmd (s_cmds s) c, find_writer (s_writers s) c with
    | Some x, None =>
      match c_st x with
      | CSaved => None                       (* one snapshot per command *)
      | _ =>
        if negb (nlist_eqb (sort_ids svcs) (g_set g)) then None
        else if (match v with Repaired => negb (Nat.eqb (length (s_writers s)) 0) | Pinned => false end) then None
        else Some (with_disk s (s_live s) (s_prov s) (s_temp s)
                             (mkW c PCollected (g_set g) k 0 0 true :: s_writers s)
                             (set_cmd (s_cmds s) c CSaved) (s_done s))
      end
    | _, _ => None
    end
  | VCreate c =>
    match find_writer (s_writers s) c with
    | Some w =>
      match w_phase w with
      | PCollected =>
        let w' := mkW c PCreated (w_set w) (w_k1 w) 0 0 true in
        match v with
        | Pinned => Some (with_disk s DTrunc (s_prov s) (s_temp s) (put_writer (s_writers s) w') (s_cmds s) (s_done s))
        | Repaired => Some (with_disk s (s_live s) (s_prov s) (Some None) (put_writer (s_writers s) w') (s_cmds s) (s_done s))
        end
      | _ => None
      end
    | None => None
    end
  | VWrite c =>
    match find_writer (s_writers s) c with
    | Some w =>
      match w_phase w with
      | PCreated =>
        let w' := mkW c PWritten (w_set w) (w_k1 w) k (g_objs g) (w_clean w) in
        match v with
        | Pinned =>
          (* the section ends here; the others who hold a descriptor opened
             before this write will write over it *)
          let others := map (fun o => mkW (w_cmd o) (w_phase o) (w_set o) (w_k1 o) (w_k2 o) (w_objs o)
                                          (match w_phase o with PCreated => false | _ => w_clean o end))
                            (del_writer (s_writers s) c) in
          Some (with_disk s (if w_clean w then DFile (content_of w') else DTorn) (w_k1 w, k) (s_temp s) others
                          (s_cmds s) (if w_clean w then content_of w' :: s_done s else s_done s))
        | Repaired =>
          Some (with_disk s (s_live s) (s_prov s) (Some (Some (content_of w'))) (put_writer (s_writers s) w') (s_cmds s) (s_done s))
        end
      | _ => None
      end
    | None => None
    end
  | VRename c =>
    match v, find_writer (s_writers s) c with
    | Repaired, Some w =>
      match w_phase w with
      | PWritten =>
        Some (with_disk s (DFile (content_of w)) (w_k1 w, w_k2 w) None (del_writer (s_writers s) c) (s_cmds s)
                        (content_of w :: s_done s))
      | _ => None
      end
    | _, _ => None
    end
  end.

Definition snap_step (v : tree) (s : sstate) (e : event) : option sstate :=
  match core v s (read e) with Some s' => Some (tick s') | None => None end.

Definition snap_run (v : tree) (tr : trace) : option sstate := run (snap_step v) snap_init tr.

(** the configuration in force after the first [k] events *)
Definition cfg_at (v : tree) (tr : trace) (k : nat) : option cfg :=
  match snap_run v (firstn k tr) with Some s => Some (s_cfg s) | None => None end.

(** start of the oldest command still in progress ([now] when there is none) *)
Definition wstart (s : sstate) : nat := fold_right (fun x m => Nat.min (c_t0 x) m) (s_now s) (s_cmds s).

Definition in_progress (s : sstate) : list nat := map c_id (s_cmds s).

(** all states along a trace (for the correspondence run): state after each
    prefix of length 0, 1, ..., up to the first rejected event *)
Fixpoint scan (v : tree) (s : sstate) (tr : trace) : list sstate :=
  s :: match tr with
       | [] => []
       | e :: r => match snap_step v s e with Some s' => scan v s' r | None => [] end
       end.

(** ** What the state directory sees (inotify vocabulary)

    The file-system projection of the repaired snapshot steps: the temporary
    file is created, written and closed; the state file is only ever the
    target of a rename.  [FsLive]/[FsTemp]: the state file / any other name. *)
Inductive fsk := FsCreate | FsDelete | FsModify | FsMovedFrom | FsMovedTo | FsCloseWrite | FsAttrib | FsOther.
Inductive fsname := FsLive | FsTemp.

Definition fs_of_sev (x : sev) : list (fsk * fsname) :=
  match x with
  | VCreate _ => [(FsCreate, FsTemp)]
  | VWrite _ => [(FsModify, FsTemp); (FsCloseWrite, FsTemp)]
  | VRename _ => [(FsMovedFrom, FsTemp); (FsMovedTo, FsLive)]
  | _ => []
  end.

Definition fs_of_trace (tr : trace) : list (fsk * fsname) := flat_map (fun e => fs_of_sev (read e)) tr.
