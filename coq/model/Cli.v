(** Cli.v — model of the command line of kamal-proxy (internal/cmd):
    option resolution of `run` (util.go, run.go) with strconv.Atoi /
    strconv.ParseBool on byte strings, the pre-run validation of `deploy`
    (deploy.go), the exit-code rule (root.go, util.go) and the table printed
    by `list` (list.go, formatting.go, router.go:ListActiveServices).
    Executable definitions only; proofs are in proofs/CliFacts.v. *)
From KP Require Import model.Base.

Local Open Scope Z_scope.

(** * strconv.Atoi (64-bit int) *)

Definition minus_sign : byte := x2d.
Definition plus_sign : byte := x2b.

Definition digit_val (c : byte) : Z := Z.of_N (byte_n c) - 48.

(** The decimal digits, most significant first, accumulated like ParseUint
    does; [None] on any byte that is not '0'..'9' (so no '_', no spaces, no
    "0x").  The accumulator is unbounded here; the range check of Go (cutoff
    and overflow of the addition) is the final [in_int] test of [atoi]. *)
Fixpoint digits_val (acc : Z) (s : str) : option Z :=
  match s with
  | [] => Some acc
  | c :: r => if is_digit c then digits_val (acc * 10 + digit_val c) r else None
  end.

Definition int_min : Z := - 2 ^ 63.
Definition int_max : Z := 2 ^ 63 - 1.
Definition in_int (z : Z) : bool := (int_min <=? z) && (z <=? int_max).

(** Splits an optional leading sign off. *)
Definition split_sign (s : str) : bool * str :=
  match s with
  | c :: r => if byte_eqb c minus_sign then (true, r)
              else if byte_eqb c plus_sign then (false, r) else (false, s)
  | [] => (false, [])
  end.

(** [atoi s = None] stands for every error of strconv.Atoi (ErrSyntax and
    ErrRange alike: the callers only test [err != nil]). *)
Definition atoi (s : str) : option Z :=
  let '(neg, ds) := split_sign s in
  match ds with
  | [] => None
  | _ => match digits_val 0 ds with
         | None => None
         | Some n => let z := if neg then - n else n in
                     if in_int z then Some z else None
         end
  end.

(** * strconv.ParseBool *)

Definition true_spellings : list str :=
  [bs "1"; bs "t"; bs "T"; bs "TRUE"; bs "true"; bs "True"].
Definition false_spellings : list str :=
  [bs "0"; bs "f"; bs "F"; bs "FALSE"; bs "false"; bs "False"].

Definition parse_bool (s : str) : option bool :=
  if mem_str s true_spellings then Some true
  else if mem_str s false_spellings then Some false
  else None.

(** * Environment lookup (util.go) *)

(** The process environment: the first binding of a name is the one
    os.LookupEnv reports. *)
Definition env := list (str * str).

Fixpoint lookup_env (e : env) (k : str) : option str :=
  match e with
  | [] => None
  | (k', v) :: e' => if str_eqb k k' then Some v else lookup_env e' k
  end.

Definition env_prefix : str := bs "KAMAL_PROXY_".

(** findEnv: the prefixed variable if it is SET (whatever its value), else
    the bare variable if set. *)
Definition find_env (e : env) (key : str) : option str :=
  match lookup_env e (env_prefix ++ key) with
  | Some v => Some v
  | None => lookup_env e key
  end.

(** getEnvInt / getEnvBool: a malformed value gives the default, it does not
    fall through to the other variable. *)
Definition get_env_int (e : env) (key : str) (def : Z) : Z :=
  match find_env e key with
  | None => def
  | Some v => match atoi v with Some z => z | None => def end
  end.

Definition get_env_bool (e : env) (key : str) (def : bool) : bool :=
  match find_env e key with
  | None => def
  | Some v => match parse_bool v with Some b => b | None => def end
  end.

(** A `run` option: the environment-derived value is the flag's default, an
    explicit flag replaces it (run.go:27-29). *)
Definition run_opt_int (e : env) (key : str) (flag : option Z) (def : Z) : Z :=
  match flag with Some v => v | None => get_env_int e key def end.

Definition run_opt_bool (e : env) (key : str) (flag : option bool) (def : bool) : bool :=
  match flag with Some v => v | None => get_env_bool e key def end.

Record run_flags := mkRunFlags {
  rf_http_port : option Z; rf_https_port : option Z; rf_debug : option bool }.
Record run_config := mkRunConfig { rc_http_port : Z; rc_https_port : Z; rc_debug : bool }.

Definition default_http_port : Z := 80.
Definition default_https_port : Z := 443.

Definition resolve_run (e : env) (f : run_flags) : run_config :=
  mkRunConfig (run_opt_int e (bs "HTTP_PORT") (rf_http_port f) default_http_port)
              (run_opt_int e (bs "HTTPS_PORT") (rf_https_port f) default_https_port)
              (run_opt_bool e (bs "DEBUG") (rf_debug f) false).

(** * `deploy` pre-run validation (deploy.go:83-110) *)

Definition is_nil {A} (l : list A) : bool := match l with [] => true | _ => false end.

(** server.NormalizeHosts / NormalizePathPrefixes (service_map.go:169-186) *)
Definition normalize_hosts (hs : list str) : list str :=
  match hs with [] => [[]] | _ => hs end.

Definition normalize_prefixes (ps : list str) : list str :=
  match ps with
  | [] => [[slash]]
  | _ => map (fun p => slash :: trim_byte slash p) ps
  end.

(** What the flag parser hands to preRun.  [di_hosts] / [di_prefixes] are the
    parsed values of --host / --path-prefix (empty when the flag is absent);
    the four [*_changed] fields are cobra's Flags().Changed for
    max-request-body, buffer-requests, max-response-body, buffer-responses;
    [di_fwd] is Some v iff --forward-headers was given. *)
Record deploy_in := mkDeployIn {
  di_tls : bool;
  di_hosts : list str;
  di_prefixes : list str;
  di_maxreq_changed : bool;
  di_bufreq_changed : bool;
  di_maxresp_changed : bool;
  di_bufresp_changed : bool;
  di_fwd : option bool }.

Inductive pre_err := ErrMaxReq | ErrMaxResp | ErrTlsHost | ErrTlsRoot.

Definition pre_err_eqb (a b : pre_err) : bool :=
  match a, b with
  | ErrMaxReq, ErrMaxReq | ErrMaxResp, ErrMaxResp | ErrTlsHost, ErrTlsHost | ErrTlsRoot, ErrTlsRoot => true
  | _, _ => false
  end.

Definition pre_err_msg (e : pre_err) : str :=
  match e with
  | ErrMaxReq => bs "max-request-body can only be set when request buffering is enabled"
  | ErrMaxResp => bs "max-response-body can only be set when response buffering is enabled"
  | ErrTlsHost => bs "host must be set when using TLS"
  | ErrTlsRoot => bs "TLS settings must be specified on the root path service"
  end.

(** Refused before the proxy is contacted, or passed on with the derived
    ForwardHeaders and the normalised hosts and path prefixes. *)
Inductive pre_result :=
| PreRefused (e : pre_err)
| PreOk (forward_headers : bool) (hosts prefixes : list str).

Definition has_host (hs : list str) : bool := existsb (fun h => negb (is_nil h)) hs.
Definition root_listed (ps : list str) : bool := mem_str [slash] (normalize_prefixes ps).

Definition forward_headers_of (i : deploy_in) : bool :=
  match di_fwd i with Some b => b | None => negb (di_tls i) end.

(** [host_missing] is the test applied to the hosts {e after} Normalize. *)
Definition deploy_prerun_with (host_missing : list str -> bool) (i : deploy_in) : pre_result :=
  let hosts := normalize_hosts (di_hosts i) in
  let prefixes := normalize_prefixes (di_prefixes i) in
  if di_maxreq_changed i && negb (di_bufreq_changed i) then PreRefused ErrMaxReq
  else if di_maxresp_changed i && negb (di_bufresp_changed i) then PreRefused ErrMaxResp
  else if di_tls i && host_missing hosts then PreRefused ErrTlsHost
  else if di_tls i && negb (mem_str [slash] prefixes) then PreRefused ErrTlsRoot
  else PreOk (forward_headers_of i) hosts prefixes.

(** The repaired tree (fixes/C20-tls-host.patch): no non-empty host. *)
Definition deploy_prerun : deploy_in -> pre_result :=
  deploy_prerun_with (fun hs => negb (has_host hs)).

(** The pinned tree: [len(Hosts) == 0] on the normalised list, which is never
    empty. *)
Definition deploy_prerun_pinned : deploy_in -> pre_result :=
  deploy_prerun_with (fun hs => Nat.eqb (length hs) 0).

Definition refused_of (r : pre_result) : option pre_err :=
  match r with PreRefused e => Some e | PreOk _ _ _ => None end.

(** The table of the property statement. *)
Definition should_refuse (i : deploy_in) : bool :=
  (di_tls i && (negb (has_host (di_hosts i)) || negb (root_listed (di_prefixes i))))
  || (di_maxreq_changed i && negb (di_bufreq_changed i))
  || (di_maxresp_changed i && negb (di_bufresp_changed i)).

(** * Exit status and error output of a client command *)

Inductive outcome :=
| OValidation (msg : str)   (* argument / flag / pre-run error: nothing dialled *)
| ODial (msg : str)         (* rpc.Dial failed *)
| ORpc (msg : str)          (* the proxy answered with an error *)
| OSuccess.

(** What happened, in the order the command goes through it. *)
Definition client_outcome (validation dial rpc : option str) : outcome :=
  match validation with
  | Some m => OValidation m
  | None => match dial with
            | Some m => ODial m
            | None => match rpc with Some m => ORpc m | None => OSuccess end
            end
  end.

Definition exit_code (o : outcome) : N :=
  match o with OSuccess => 0%N | _ => 1%N end.

Definition newline : byte := x0a.

(** cobra prints "Error: <err>" on stderr (usage is silenced). *)
Definition stderr_of (o : outcome) : str :=
  match o with
  | OSuccess => []
  | OValidation m | ODial m | ORpc m => bs "Error: " ++ m ++ [newline]
  end.

(** * `list` *)

Definition comma : byte := x2c.
Definition space : byte := x20.
Definition esc : byte := x1b.

(** A deployed service as the router holds it (hosts and prefixes normalised). *)
Record service := mkService {
  sv_name : str; sv_hosts : list str; sv_paths : list str; sv_targets : list str;
  sv_state : str; sv_tls : bool }.

(** server.ServiceDescription plus its key in the map. *)
Record desc := mkDesc {
  d_name : str; d_host : str; d_path : str; d_target : str; d_state : str; d_tls : bool }.

Definition describe (s : service) : desc :=
  let h := join [comma] (sv_hosts s) in
  mkDesc (sv_name s) (if is_nil h then [star] else h) (join [comma] (sv_paths s))
         (join [comma] (sv_targets s)) (sv_state s) (sv_tls s).

(** The service a successful `deploy` installs. *)
Definition deployed_service (name : str) (i : deploy_in) (targets : list str) (state : str) : service :=
  mkService name (normalize_hosts (di_hosts i)) (normalize_prefixes (di_prefixes i)) targets state (di_tls i).

(** Go's string order: bytewise lexicographic. *)
Fixpoint str_leb (a b : str) : bool :=
  match a, b with
  | [], _ => true
  | _ :: _, [] => false
  | x :: a', y :: b' =>
    if (byte_n x <? byte_n y)%N then true
    else if (byte_n y <? byte_n x)%N then false
    else str_leb a' b'
  end.

Fixpoint insert_by_name (d : desc) (l : list desc) : list desc :=
  match l with
  | [] => [d]
  | e :: r => if str_leb (d_name d) (d_name e) then d :: l else e :: insert_by_name d r
  end.

Definition sort_by_name (l : list desc) : list desc := fold_right insert_by_name [] l.

Definition row := list str.

Definition header_row : row :=
  [bs "Service"; bs "Host"; bs "Path"; bs "Target"; bs "State"; bs "TLS"].

Definition tls_cell (b : bool) : str := if b then bs "yes" else bs "no".

Definition desc_row (d : desc) : row :=
  [d_name d; d_host d; d_path d; d_target d; d_state d; tls_cell (d_tls d)].

(** Table.updateColumnWidths *)
Fixpoint upd_widths (ws : list nat) (r : row) : list nat :=
  match r, ws with
  | [], _ => ws
  | c :: r', [] => length c :: upd_widths [] r'
  | c :: r', w :: ws' => Nat.max w (length c) :: upd_widths ws' r'
  end.

Definition widths (rows : list row) : list nat := fold_left upd_widths rows [].

Definition style_plain : str := [].
Definition style_bold : str := bs "1;34".
Definition style_italic : str := bs "3;94".

Definition style_open (sty : str) : str := esc :: x5b :: sty ++ [x6d].       (* ESC [ sty m *)
Definition style_close : str := [esc; x5b; x30; x6d].                        (* ESC [ 0 m *)

Definition cell_style (rownum col : nat) : str :=
  if Nat.eqb rownum 0 then style_italic else if Nat.eqb col 0 then style_bold else style_plain.

(** One cell as Table.Print writes it: styled value, padding to the column
    width, two spaces. *)
Definition render_cell (sty : str) (w : nat) (v : str) : str :=
  style_open sty ++ v ++ style_close ++ repeat space (w - length v) ++ [space; space].

Fixpoint render_cells (rownum col : nat) (ws : list nat) (cells : row) : str :=
  match cells with
  | [] => []
  | c :: r =>
    render_cell (cell_style rownum col) (hd 0%nat ws) c ++ render_cells rownum (S col) (tl ws) r
  end.

Definition render_row (rownum : nat) (ws : list nat) (cells : row) : str :=
  render_cells rownum 0 ws cells ++ [newline].

Fixpoint render_rows (rownum : nat) (ws : list nat) (rows : list row) : str :=
  match rows with
  | [] => []
  | r :: rs => render_row rownum ws r ++ render_rows (S rownum) ws rs
  end.

Definition render_table (rows : list row) : str := render_rows 0 (widths rows) rows.

Definition table_rows (ds : list desc) : list row := header_row :: map desc_row ds.

(** What `kamal-proxy list` writes on stdout for these services. *)
Definition render_list (svcs : list service) : str :=
  render_table (table_rows (sort_by_name (map describe svcs))).

(** ** Reading the table back *)

(** Split at every newline: "a\nb\n" gives ["a"; "b"; ""]. *)
Fixpoint split_on (sep : byte) (s : str) : list str :=
  match s with
  | [] => [[]]
  | c :: r =>
    if byte_eqb c sep then [] :: split_on sep r
    else match split_on sep r with
         | l :: ls => (c :: l) :: ls
         | [] => [[c]]
         end
  end.

(** The lines of a text whose every line is newline-terminated. *)
Definition lines_of (s : str) : option (list str) :=
  match rev (split_on newline s) with
  | [] :: l => Some (rev l)
  | _ => None
  end.

(** [until c s]: the bytes before the first [c] and the bytes after it. *)
Fixpoint until (c : byte) (s : str) : option (str * str) :=
  match s with
  | [] => None
  | x :: r =>
    if byte_eqb x c then Some ([], r)
    else match until c r with Some (a, b) => Some (x :: a, b) | None => None end
  end.

(** One cell: ESC [ style m value ESC [ 0 m, then padding. *)
Definition parse_cell (s : str) : option (str * str * str) :=
  match s with
  | e :: b :: r =>
    if byte_eqb e esc && byte_eqb b x5b then
      match until x6d r with
      | Some (sty, r1) =>
        match until esc r1 with
        | Some (v, b1 :: b2 :: b3 :: r2) =>
          if byte_eqb b1 x5b && byte_eqb b2 x30 && byte_eqb b3 x6d
          then Some (sty, v, drop_while_eq space r2) else None
        | _ => None
        end
      | None => None
      end
    else None
  | _ => None
  end.

(** Exactly [n] cells and then the end of the line; styles and values. *)
Fixpoint parse_cells (n : nat) (s : str) : option (list (str * str)) :=
  match n with
  | O => if is_nil s then Some [] else None
  | S n' =>
    match parse_cell s with
    | Some (sty, v, rest) =>
      match parse_cells n' rest with Some l => Some ((sty, v) :: l) | None => None end
    | None => None
    end
  end.

Definition styles_ok (rownum : nat) (cells : list (str * str)) : bool :=
  list_eqb str_eqb (map fst cells) (map (cell_style rownum) (seq 0 (length cells))).

Definition parse_tls (s : str) : option bool :=
  if str_eqb s (bs "yes") then Some true else if str_eqb s (bs "no") then Some false else None.

Definition parse_header (line : str) : bool :=
  match parse_cells 6 line with
  | Some cells => styles_ok 0 cells && strs_eqb (map snd cells) header_row
  | None => false
  end.

Definition parse_desc (line : str) : option desc :=
  match parse_cells 6 line with
  | Some cells =>
    if styles_ok 1 cells then
      match map snd cells with
      | [n; h; p; t; st; tl] =>
        match parse_tls tl with Some b => Some (mkDesc n h p t st b) | None => None end
      | _ => None
      end
    else None
  | None => None
  end.

Fixpoint parse_descs (ls : list str) : option (list desc) :=
  match ls with
  | [] => Some []
  | l :: r =>
    match parse_desc l, parse_descs r with
    | Some d, Some ds => Some (d :: ds)
    | _, _ => None
    end
  end.

(** The services shown by a `list` output, in the order shown. *)
Definition parse_table (out : str) : option (list desc) :=
  match lines_of out with
  | Some (h :: ls) => if parse_header h then parse_descs ls else None
  | _ => None
  end.

Definition desc_eqb (a b : desc) : bool :=
  str_eqb (d_name a) (d_name b) && str_eqb (d_host a) (d_host b) && str_eqb (d_path a) (d_path b)
  && str_eqb (d_target a) (d_target b) && str_eqb (d_state a) (d_state b) && Bool.eqb (d_tls a) (d_tls b).

(** Well-formedness under which the table can be read back: no ESC and no
    newline inside a value. *)
Definition clean (s : str) : bool :=
  forallb (fun c => negb (byte_eqb c esc) && negb (byte_eqb c newline)) s.

Definition wf_desc (d : desc) : bool :=
  clean (d_name d) && clean (d_host d) && clean (d_path d) && clean (d_target d) && clean (d_state d).

Definition wf_service (s : service) : bool :=
  clean (sv_name s) && forallb clean (sv_hosts s) && forallb clean (sv_paths s)
  && forallb clean (sv_targets s) && clean (sv_state s).

(** Elements of a comma-joined field can be recovered when none of them
    contains a comma. *)
Definition comma_free (s : str) : bool := negb (contains_byte s comma).

(** * Specification vocabulary (used in the statements of props/C20.v) *)

(** The value of a digit string, positionally. *)
Fixpoint pos_value (ds : str) : Z :=
  match ds with
  | [] => 0
  | c :: r => digit_val c * 10 ^ Z.of_nat (length r) + pos_value r
  end.

Definition signed (neg : bool) (n : Z) : Z := if neg then - n else n.

(** The three shapes of an accepted string. *)
Inductive int_syntax : str -> bool -> str -> Prop :=
| syn_plain : forall ds, int_syntax ds false ds
| syn_plus : forall ds, int_syntax (plus_sign :: ds) false ds
| syn_minus : forall ds, int_syntax (minus_sign :: ds) true ds.

Definition or_default {A} (parse : str -> option A) (def : A) (s : str) : A :=
  match parse s with Some v => v | None => def end.

(** The four clauses of the statement, for a value [v] obtained with [parse]. *)
Definition precedence {A} (parse : str -> option A) (e : env) (key : str)
           (flag : option A) (def : A) (v : A) : Prop :=
  (forall f, flag = Some f -> v = f) /\
  (flag = None -> forall s, lookup_env e (env_prefix ++ key) = Some s -> v = or_default parse def s) /\
  (flag = None -> lookup_env e (env_prefix ++ key) = None ->
     forall s, lookup_env e key = Some s -> v = or_default parse def s) /\
  (flag = None -> lookup_env e (env_prefix ++ key) = None -> lookup_env e key = None -> v = def).

Definition is_some {A} (o : option A) : bool := match o with Some _ => true | None => false end.

Definition name_le (a b : desc) : Prop := str_leb (d_name a) (d_name b) = true.

Fixpoint visible_len (ws : list nat) (cells : row) : nat :=
  match cells with
  | [] => 0%nat
  | c :: r => (length c + (hd 0 ws - length c) + 2 + visible_len (tl ws) r)%nat
  end.
