(** Url.v — net/url (Go 1.24.2) path handling as used on the proxy path:
    the server-side parse of the request target (url.ParseRequestURI), the
    outgoing URL computed by ReverseProxy (ProxyRequest.SetURL with a target
    URL [http://host], i.e. an empty base path), the prefix trimming of
    target.go [rewrite], and the request target written by the HTTP client
    (URL.RequestURI).  Executable definitions only; proofs are in
    proofs/UrlFacts.v.

    Anchors: net/url/url.go  ishex unhex shouldEscape(encodePath) unescape escape
             setPath EscapedPath validEncoded RequestURI getScheme parse;
             net/http/httputil/reverseproxy.go  singleJoiningSlash joinURLPath
             rewriteRequestURL;  internal/server/target.go rewrite;
             internal/server/router.go ServeHTTP; service_map.go serviceFor. *)
From KP Require Import model.Base.
Local Open Scope N_scope.

Definition pct : byte := x25.      (* % *)
Definition qmark : byte := x3f.    (* ? *)

Definition is_empty {A} (l : list A) : bool := match l with [] => true | _ => false end.

Definition mem_byte (c : byte) (s : str) : bool := existsb (byte_eqb c) s.

Definition byte_of_N (n : N) : byte := match Byte.of_N n with Some b => b | None => x00 end.

(** ** hex digits *)

Definition is_hex (c : byte) : bool := is_digit c || in_range 97 102 c || in_range 65 70 c.

Definition unhex (c : byte) : N :=
  if is_digit c then byte_n c - 48
  else if in_range 97 102 c then byte_n c - 97 + 10
  else if in_range 65 70 c then byte_n c - 65 + 10
  else 0.

(** "0123456789ABCDEF"[n] *)
Definition upperhex (n : N) : byte := if n <? 10 then byte_of_N (48 + n) else byte_of_N (55 + n).

(** ** shouldEscape(c, encodePath) *)
Definition should_escape (c : byte) : bool :=
  if is_alnum c then false
  else if mem_byte c (bs "-_.~") then false
  else if mem_byte c (bs "$&+,/:;=?@") then byte_eqb c qmark
  else true.

(** ** validEncoded(s, encodePath) *)
Definition valid_encoded_byte (c : byte) : bool :=
  mem_byte c (bs "!$&'()*+,;=:@") || mem_byte c (bs "[]") || byte_eqb c pct || negb (should_escape c).
Definition valid_encoded (s : str) : bool := forallb valid_encoded_byte s.

(** ** unescape(s, encodePath): [None] is the EscapeError *)
Fixpoint unescape (s : str) : option str :=
  match s with
  | [] => Some []
  | c :: r =>
    if byte_eqb c pct then
      match r with
      | h1 :: h2 :: r' =>
        if is_hex h1 && is_hex h2
        then match unescape r' with
             | Some d => Some (byte_of_N (unhex h1 * 16 + unhex h2) :: d)
             | None => None
             end
        else None
      | _ => None
      end
    else match unescape r with Some d => Some (c :: d) | None => None end
  end.

(** ** escape(s, encodePath) *)
Definition escape_byte (c : byte) : str :=
  if should_escape c then [pct; upperhex (byte_n c / 16); upperhex (byte_n c mod 16)] else [c].
Definition escape (s : str) : str := flat_map escape_byte s.

(** ** The URL fields that matter here *)
Record url := mkUrl { u_path : str; u_raw_path : str; u_force_query : bool; u_raw_query : str }.

(** (u *URL) setPath(p) *)
Definition set_path (p : str) : option (str * str) :=
  match unescape p with
  | None => None
  | Some d => Some (d, if str_eqb (escape d) p then [] else p)
  end.

(** (u *URL) EscapedPath() *)
Definition escaped_path_of (path raw : str) : str :=
  if negb (is_empty raw) && valid_encoded raw
     && match unescape raw with Some d => str_eqb d path | None => false end
  then raw
  else if str_eqb path (bs "*") then bs "*" else escape path.
Definition escaped_path (u : url) : str := escaped_path_of (u_path u) (u_raw_path u).

(** (u *URL) RequestURI() with Opaque = "" *)
Definition request_uri (u : url) : str :=
  let r := escaped_path u in
  (if is_empty r then [slash] else r)
  ++ (if u_force_query u || negb (is_empty (u_raw_query u)) then qmark :: u_raw_query u else []).

(** ** Server side: url.ParseRequestURI on the request target *)

(** stringContainsCTLByte *)
Definition is_ctl (c : byte) : bool := (byte_n c <? 32) || (byte_n c =? 127).
Definition has_ctl (s : str) : bool := existsb is_ctl s.

(** getScheme, reduced to what decides acceptance of a target that does not
    start with '/': [SNone] no scheme, [SBad] "missing protocol scheme",
    [SSome] a scheme was split off (absolute-form / opaque: not modelled). *)
Inductive scheme_res := SNone | SBad | SSome.
Fixpoint get_scheme_aux (first : bool) (s : str) : scheme_res :=
  match s with
  | [] => SNone
  | c :: r =>
    if is_alpha c then get_scheme_aux false r
    else if is_digit c || mem_byte c (bs "+-.") then (if first then SNone else get_scheme_aux false r)
    else if byte_eqb c colon then (if first then SBad else SSome)
    else SNone
  end.
Definition get_scheme (s : str) : scheme_res := get_scheme_aux true s.

Definition count_byte (c : byte) (s : str) : nat := length (filter (byte_eqb c) s).

(** strings.Cut(s, "?") *)
Fixpoint cut_q (s : str) : str * option str :=
  match s with
  | [] => ([], None)
  | c :: r => if byte_eqb c qmark then ([], Some r)
              else let '(a, b) := cut_q r in (c :: a, b)
  end.

(** The split of [rest] into path, ForceQuery and RawQuery done by parse. *)
Definition split_query (t : str) : str * bool * str :=
  if has_suffix t [qmark] && Nat.eqb (count_byte qmark t) 1
  then (removelast t, true, [])
  else match cut_q t with
       | (p, Some q) => (p, false, q)
       | (p, None) => (p, false, [])
       end.

Inductive parse_res := PAccept (u : url) | PReject | PUnmodelled.

(** url.ParseRequestURI(target) as called by net/http's readRequest, for
    origin-form targets and "*".  (Targets carrying a scheme are accepted by
    net/http but are outside this model.) *)
Definition parse_request_target (t : str) : parse_res :=
  if has_ctl t then PReject
  else if is_empty t then PReject
  else if str_eqb t (bs "*") then PAccept (mkUrl (bs "*") [] false [])
  else if has_prefix t [slash] then
    let '(p, force, q) := split_query t in
    match set_path p with
    | Some (d, raw) => PAccept (mkUrl d raw force q)
    | None => PReject
    end
  else match get_scheme t with
       | SNone => PReject        (* "invalid URI for request" *)
       | SBad => PReject         (* "missing protocol scheme" *)
       | SSome => PUnmodelled
       end.

(** The raw path of a target: everything before the first '?'. *)
Definition raw_path_of (t : str) : str := fst (cut_q t).
(** … and the rest, '?' included. *)
Definition query_suffix_of (t : str) : str := skipn (length (raw_path_of t)) t.

(** Acceptance of a raw path by the server-side parser, as a boolean. *)
Definition path_accepted (p : str) : bool :=
  negb (has_ctl p) && has_prefix p [slash] && negb (mem_byte qmark p)
  && match unescape p with Some _ => true | None => false end.

(** ** Routing on the decoded path (service_map.go serviceFor) *)
Definition ensure_trailing_slash (p : str) : str := if has_suffix p [slash] then p else p ++ [slash].
Definition prefix_matches (decoded prefix : str) : bool :=
  has_prefix (ensure_trailing_slash decoded) (ensure_trailing_slash prefix).

(** "The client spelled the prefix literally": the raw path is the prefix
    itself or continues with '/' right after it. *)
Definition literal_prefix (raw prefix : str) : bool :=
  has_prefix raw prefix &&
  match skipn (length prefix) raw with [] => true | c :: _ => byte_eqb c slash end.

(** ** Proxy side *)

(** singleJoiningSlash *)
Definition single_joining_slash (a b : str) : str :=
  match has_suffix a [slash], has_prefix b [slash] with
  | true, true => a ++ tl b
  | false, false => a ++ [slash] ++ b
  | _, _ => a ++ b
  end.

(** joinURLPath(a, b) with a = the target URL "http://host": Path "" RawPath "" *)
Definition join_target (u : url) : str * str :=
  if is_empty (u_raw_path u) then (single_joining_slash [] (u_path u), [])
  else
    let bpath := escaped_path u in
    if has_prefix bpath [slash] then (u_path u, bpath)
    else ([slash] ++ u_path u, [slash] ++ bpath).

(** strings.CutPrefix *)
Definition cut_prefix (s p : str) : option str :=
  if has_prefix s p then Some (skipn (length p) s) else None.

(** target.go rewrite, path part.  [matched] is routingContext.MatchedPrefix
    ([None]: no routing context).  [repaired = true] is the tree with
    fixes/C13-strip-rawpath.patch; [false] the pinned tree, which trims Path only. *)
Definition rewrite_url (repaired : bool) (matched : option str) (u : url) : url :=
  let '(p, rp) := join_target u in
  match matched with
  | None => mkUrl p rp (u_force_query u) (u_raw_query u)
  | Some q =>
    let p' := trim_prefix p q in
    let rp' :=
      if repaired then
        match cut_prefix rp q with
        | Some r => if is_empty r || has_prefix r [slash] then r else rp
        | None => rp
        end
      else rp in
    mkUrl p' rp' (u_force_query u) (u_raw_query u)
  end.

(** router.go ServeHTTP: the routing context exists only when stripping is
    on and the matched prefix is not the root. *)
Definition matched_prefix (strip : bool) (prefix : str) : option str :=
  if strip && negb (str_eqb prefix [slash]) then Some prefix else None.

(** The request target the proxy writes to the target server. *)
Definition forward_target_gen (repaired : bool) (matched : option str) (u : url) : str :=
  request_uri (rewrite_url repaired matched u).

Definition forward_target := forward_target_gen true.
Definition forward_target_pinned := forward_target_gen false.
