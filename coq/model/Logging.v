(** Logging.v — logging_middleware.go: the loggerResponseWriter as a state
    machine over what the handler below does to it, the access-log record as a
    function of the request, of the request-scoped logging context and of the
    writer's final state, and the handler chain of server.go buildHandler as
    far as it decides what ends up in the record (which service / target were
    entered into the context, which calls reach the writer, for every way a
    request can end).  Executable definitions only. *)
From KP Require Import model.Base model.Url model.ServiceMap model.Headers model.Buffer
  model.ProxyError model.ErrorPage.
Local Open Scope N_scope.

(** ** loggerResponseWriter *)

(** What the handler does to the writer.  [accepted] is what the underlying
    ResponseWriter.Write returned for the [offered] bytes. *)
Inductive wop :=
| OpWriteHeader (s : N)
| OpWrite (offered accepted : N)
| OpFlush
| OpHijack (ok : bool).     (* ok = the underlying writer is a Hijacker and its Hijack succeeded *)

Record lw := mkLw { lw_status : N; lw_bytes : N }.

Definition lw_init : lw := mkLw 200 0.    (* newLoggerResponseWriter: http.StatusOK, 0 *)

Definition lw_step (w : lw) (o : wop) : lw :=
  match o with
  | OpWriteHeader s => mkLw s (lw_bytes w)                 (* r.statusCode = statusCode, every time *)
  | OpWrite _ n => mkLw (lw_status w) (lw_bytes w + n)     (* += what the underlying writer accepted *)
  | OpFlush => w
  | OpHijack true => mkLw 101 (lw_bytes w)                 (* http.StatusSwitchingProtocols *)
  | OpHijack false => w
  end.

Definition lw_run (ops : list wop) : lw := fold_left lw_step ops lw_init.

(** What the client is told, by net/http's rules, when the same calls reach
    the real response: informational (1xx) headers do not end the header
    phase; the first other WriteHeader fixes the status; a Write (or Flush)
    before any header implies 200; a successful Hijack before a final header
    leaves the status to whoever writes on the connection — for ReverseProxy
    that is the target's 101 response. *)
Definition informational (s : N) : bool := (100 <=? s) && (s <? 200) && negb (s =? 101).

Fixpoint client_status (ops : list wop) : N :=
  match ops with
  | [] => 200
  | OpWriteHeader s :: r => if informational s then client_status r else s
  | OpWrite _ _ :: _ => 200
  | OpFlush :: _ => 200
  | OpHijack true :: _ => 101
  | OpHijack false :: r => client_status r
  end.

(** ** The record *)

Record request := mkReq {
  rq_host : str;             (* r.Host *)
  rq_tls : bool;             (* r.TLS != nil *)
  rq_path : str;             (* r.URL.Path (decoded) *)
  rq_query : str;            (* r.URL.RawQuery *)
  rq_method : str;
  rq_proto : str;
  rq_content_length : Z;     (* r.ContentLength, -1 unknown *)
  rq_remote_addr : str;      (* r.RemoteAddr *)
  rq_headers : headers }.    (* r.Header: canonical keys, as the handler chain sees them *)

(** loggingRequestContext, filled in further down the chain *)
Record lctx := mkCtx {
  lc_service : str; lc_target : str;
  lc_req_headers : list str; lc_resp_headers : list str }.   (* header names as stored in the target's options *)

Definition lctx_init : lctx := mkCtx [] [] [] [].

Record record := mkRec {
  r_host : str; r_port : N; r_path : str; r_request_id : str; r_status : N;
  r_service : str; r_target : str; r_method : str;
  r_req_content_length : Z; r_req_content_type : str;
  r_resp_content_length : N; r_resp_content_type : str;
  r_client_addr : str; r_client_port : str; r_remote_addr : str;
  r_user_agent : str; r_proto : str; r_scheme : str; r_query : str;
  r_extra : list (str * str) }.   (* configured headers: attribute name, value; request ones first *)

(** net.SplitHostPort(r.RemoteAddr): (host, port), or the whole string and "". *)
Definition split_remote (a : str) : str * str :=
  match split_host_port a, last_index_byte a colon with
  | Some h, Some i => (h, skipn (S i) a)
  | _, _ => (a, [])
  end.

(** strings.ReplaceAll(strings.ToLower(name), "-", "_") *)
Definition attr_name (prefix name : str) : str :=
  prefix ++ bs "_" ++ map (fun c => if byte_eqb c x2d then x5f else c) (lower_str name).

(** retrieveCustomHeaders: header[headerName] — a plain map index, no
    canonicalisation at this point. *)
Definition custom_attrs (names : list str) (h : headers) (prefix : str) : list (str * str) :=
  map (fun n => (attr_name prefix n, join (bs ",") (hvalues n h))) names.

(** TargetOptions.canonicalizeLogHeaders, at target creation *)
Definition canonicalize_names (names : list str) : list str := map canonical_key names.

Definition K_ct' := bs "Content-Type".

Definition make_record (http_port https_port : N) (q : request) (c : lctx) (w : lw) (resp_h : headers) : record :=
  let '(caddr, cport) := split_remote (rq_remote_addr q) in
  let xff := hget K_xff (rq_headers q) in
  mkRec (rq_host q) (if rq_tls q then https_port else http_port) (rq_path q)
        (hget K_rid (rq_headers q)) (lw_status w) (lc_service c) (lc_target c) (rq_method q)
        (rq_content_length q) (hget K_ct' (rq_headers q))
        (lw_bytes w) (hget K_ct' resp_h)
        caddr cport (if is_empty xff then caddr else xff)
        (hget K_ua (rq_headers q)) (rq_proto q) (if rq_tls q then bs "https" else bs "http") (rq_query q)
        (custom_attrs (lc_req_headers c) (rq_headers q) (bs "req") ++
         custom_attrs (lc_resp_headers c) resp_h (bs "resp")).

(** ** The middleware: one deferred LogAttrs however the handler ends *)

Inductive hend := HReturn | HPanic.

(** What the handler below did: context updates, writer calls, the response
    header map as it stands at the end, and how it ended. *)
Record handler_run := mkRun {
  hr_ctx : lctx; hr_ops : list wop; hr_resp_headers : headers; hr_end : hend }.

(** LoggingMiddleware.ServeHTTP: the records emitted for one request. *)
Definition logging_mw (http_port https_port : N) (q : request) (h : handler_run) : list record :=
  match hr_end h with
  | HReturn | HPanic =>     (* the log call is deferred: it runs on a panic too *)
    [make_record http_port https_port q (hr_ctx h) (lw_run (hr_ops h)) (hr_resp_headers h)]
  end.

(** ** The chain below the logging middleware, as far as the record is concerned *)

(** The options of the target that was claimed. *)
Record target_info := mkTi { ti_name : str; ti_log_req : list str; ti_log_resp : list str }.

(** Router -> Service -> LoadBalancer -> Target: every way a request can end. *)
Inductive ending :=
| ENoRoute                                   (* no service: 404 *)
| ERedirect                                  (* TLS service, plain request: 301 by http.Redirect *)
| ETlsRefused                                (* request over TLS to a service without TLS: 503 *)
| EHealthWhilePaused                         (* health check path while paused/stopped: bare 200 *)
| EPausedOut                                 (* pause expired: 504 *)
| EStopped                                   (* stopped: 503 (with message) *)
| ENoTarget                                  (* no healthy target / claim refused: 503 *)
| EProxied (t : target_info) (b : target_behaviour)   (* claimed: whatever the target does *)
| EProxiedHints (t : target_info) (s : N) (body : str)   (* claimed: 103 Early Hints, then a complete response *)
| EReqTooLarge (t : target_info)             (* request buffering: 413 by http.Error *)
| EReqReadError (t : target_info)            (* request buffering: body read failed: 500 by http.Error *)
| EUpgraded (t : target_info).               (* 101 from the target: hijacked *)

Definition wev_op (e : wev) : list wop :=
  match e with
  | WSetCT _ => []
  | WWriteHeader s => [OpWriteHeader s]
  | WWrite b => [OpWrite (lenN b) (lenN b)]
  end.

Definition claim_ctx (svc : str) (t : target_info) : lctx :=
  mkCtx svc (ti_name t) (canonicalize_names (ti_log_req t)) (canonicalize_names (ti_log_resp t)).

(** [svc] is the routed service's name, [c] its page/buffering configuration;
    [body] lengths of proxy-generated plain bodies are parameters of the model
    ([redirect_len]: the body http.Redirect writes for GET/HEAD, else 0). *)
Definition chain (svc : str) (c : chain_cfg) (redirect_len : N) (e : ending) : lctx * list wop * hend :=
  let page s := flat_map wev_op (fst (error_pages (c_custom c) (c_builtin c) (Some s))) in
  match e with
  | ENoRoute => (lctx_init, flat_map wev_op (fst (error_pages None (c_builtin c) (Some 404))), HReturn)
  | ERedirect => (mkCtx svc [] [] [], OpWriteHeader 301 :: (if redirect_len =? 0 then [] else [OpWrite redirect_len redirect_len]), HReturn)
  | ETlsRefused => (mkCtx svc [] [] [], page 503, HReturn)
  | EHealthWhilePaused => (mkCtx svc [] [] [], [OpWriteHeader 200], HReturn)
  | EPausedOut => (mkCtx svc [] [] [], page 504, HReturn)
  | EStopped => (mkCtx svc [] [] [], page 503, HReturn)
  | ENoTarget => (mkCtx svc [] [] [], page 503, HReturn)
  | EProxied t b =>
    let o := serve c b in
    (claim_ctx svc t, flat_map wev_op (o_events o), if o_aborted o then HPanic else HReturn)
  | EProxiedHints t s body =>
    (* ReverseProxy passes the informational header on (Got1xxResponse: rw.WriteHeader(103)), then the
       final one; the response-buffer middleware, if any, sits in between *)
    let hops := [HWriteHeader 103 false; HWriteHeader s false; HWrite body] in
    (claim_ctx svc t,
     flat_map wev_op (if c_buffer_resp c
                      then flat_map cev_wev (fst (resp_mw (c_maxm c) (c_max_resp c) hops))
                      else flat_map hop_wev hops),
     HReturn)
  | EReqTooLarge t => (claim_ctx svc t, [OpWriteHeader 413; OpWrite 18 18], HReturn)   (* "Request too large\n" *)
  | EReqReadError t => (claim_ctx svc t, [OpWriteHeader 500; OpWrite 22 22], HReturn)  (* "Internal Server Error\n" *)
  | EUpgraded t => (claim_ctx svc t, [OpHijack true], HReturn)
  end.

(** *** The pinned buffered writer (before repair 59cbdb7)

    bufferedResponseWriter.WriteHeader took the FIRST status as final, whatever
    it was: an informational header (103 Early Hints) ahead of the final one
    made Send() pass WriteHeader(103) on and the final status was lost. *)
Definition rw_step_pinned (w : rw) (o : hop) : rw :=
  match o with
  | HWriteHeader s sse =>
    if rheader_written w then w else
    let w1 := mkRw (rbuf w) s true (rhijacked w) (rbypass w) (rout w) in
    if sse then
      let w2 := mkRw (rbuf w1) s true (rhijacked w1) true (rout w1) in
      fst (rw_send w2)
    else w1
  | _ => rw_step w o
  end.

Definition resp_mw_pinned (maxm maxb : N) (ops : list hop) : list cev :=
  let w := fold_left rw_step_pinned ops (new_rw maxm maxb) in
  let '(w1, ok) := rw_send w in
  rev (if ok then rout w1 else CError500 :: rout w1).

(** the calls reaching the logging writer for 103 + final response under the pinned code *)
Definition hints_ops_pinned (maxm maxb s : N) (body : str) : list wop :=
  flat_map wev_op (flat_map cev_wev
    (resp_mw_pinned maxm maxb [HWriteHeader 103 false; HWriteHeader s false; HWrite body])).

(** The service / target the property speaks of: the one routed to, the one claimed. *)
Definition used_service (svc : str) (e : ending) : str :=
  match e with ENoRoute => [] | _ => svc end.
Definition used_target (e : ending) : str :=
  match e with
  | EProxied t _ | EProxiedHints t _ _ | EReqTooLarge t | EReqReadError t | EUpgraded t => ti_name t
  | _ => []
  end.
