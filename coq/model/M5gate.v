(** M5gate.v — the pause-gate view of the event traces (model/Trace.v).

    An acceptor over the events of the pause controllers and of the requests
    that consult them (pause_controller.go, service.go:handlePausedAndStoppedRequests):

      - [KParams c _ _ fa]          the max-pause argument of command c;
      - [KGateSet pc st chan]       Pause / Resume / Stop under the write lock: state and
                                    channel AFTER the call.  Pause opens a new generation
                                    only when the controller is not already paused;
                                    Resume / Stop of a paused controller close the generation;
      - [KGateRead pc st chan]      getWaitState under the read lock, by the request goroutine:
                                    running => proceeds, stopped => 503, paused => parks on
                                    (generation, timer armed now with the max-pause in force now);
      - [KGateWake pc by_channel]   the select in Wait: by channel only once the generation
                                    has been closed; by timer exactly at the deadline, and not
                                    later than the instant at which the generation was closed
                                    (a goroutine blocked in the select is woken by the close at
                                    that very instant; at the SAME instant both cases are ready
                                    and either may win, so the tie is accepted);
      - [KGateResult r svc a]       what Wait returned: the re-read of the state after a
                                    channel wake decides between proceed and stopped;
      - [KPick / KLbClaim / KClaim / KClaimRefused]  only after the gate let the request pass;
      - [KRespond r status by]      503 after "stopped", 504 after "timed out", once; these two are
                                    the proxy's own answers, so they name no target ([by] empty);
      - [KSvcCopy old new]          a redeployed copy shares the controller of the original.

    Everything else is ignored.  No proofs here (proofs/M5gateFacts.v). *)
From KP Require Import model.Base model.Trace.
Local Open Scope N_scope.

(** ** Controllers *)

Record ctl := mkCtl { c_state : gstate; c_chan : option nat; c_fail : N }.
Definition ctl0 : ctl := mkCtl GRunning None 0.     (* NewPauseController() *)

Definition onat_eqb (a b : option nat) : bool :=
  match a, b with
  | Some x, Some y => Nat.eqb x y
  | None, None => true
  | _, _ => false
  end.

(** ** Requests *)

(** a request parked at the gate: controller, generation, time of the read,
    max-pause in force at the read *)
Record hold := mkHold { h_pc : nat; h_gen : nat; h_tread : N; h_fail : N }.
(** how it woke: by channel?, when, and the state of the controller at that
    moment (= at the re-read [GetState()] that follows a channel wake) *)
Record wake := mkWake { w_chan : bool; w_t : N; w_st : gstate }.

Definition action_of (w : wake) : gaction :=
  if w_chan w then match w_st w with GStopped => AStopped | _ => AProceed end
  else ATimedOut.

Inductive phase :=
| PhPass (pc : nat) (st : gstate)                       (* read running / stopped; result pending *)
| PhParked (h : hold)
| PhWoken (h : hold) (w : wake)
| PhDone (pc : nat) (hw : option (hold * wake)) (a : gaction)       (* Wait returned [a] *)
| PhAnswered (hw : option (hold * wake)) (a : option gaction) (status : N).

Record gst := mkG {
  g_cmds : list (nat * N);            (* command -> fail_after (KParams) *)
  g_ctl : list (nat * ctl);
  g_opened : list nat;                (* generations ever created *)
  g_closed : list (nat * gstate);     (* closed generation -> state set by the closing call *)
  g_ctime : list (nat * N);           (* closed generation -> time of the closing call *)
  g_req : list (nat * phase);
  g_known : list nat;                 (* service objects seen *)
  g_parent : list (nat * nat);        (* copy -> original object of its lineage *)
  g_pc : list (nat * nat)             (* original object -> its pause controller *)
}.

Definition ginit : gst := mkG [] [] [] [] [] [] [] [] [].

Definition ctl_of (s : gst) (pc : nat) : ctl :=
  match nget (g_ctl s) pc with Some c => c | None => ctl0 end.

Definition root (s : gst) (svc : nat) : nat :=
  match nget (g_parent s) svc with Some p => p | None => svc end.

Definition pc_of (s : gst) (svc : nat) : option nat := nget (g_pc s) (root s svc).

Definition set_ctl (s : gst) (pc : nat) (c : ctl) : gst :=
  mkG (g_cmds s) (nset (g_ctl s) pc c) (g_opened s) (g_closed s) (g_ctime s) (g_req s) (g_known s) (g_parent s) (g_pc s).

Definition set_req (s : gst) (r : nat) (p : phase) : gst :=
  mkG (g_cmds s) (g_ctl s) (g_opened s) (g_closed s) (g_ctime s) (nset (g_req s) r p) (g_known s) (g_parent s) (g_pc s).

(** ** Steps *)

Definition step_params (s : gst) (c : nat) (fa : N) : option gst :=
  Some (mkG (nset (g_cmds s) c fa) (g_ctl s) (g_opened s) (g_closed s) (g_ctime s) (g_req s) (g_known s) (g_parent s) (g_pc s)).

(** PauseController.Pause(failAfter) by command [who] *)
Definition step_pause (s : gst) (who : actor) (pc : nat) (ch : option nat) : option gst :=
  match who with
  | ACmd k =>
    match nget (g_cmds s) k with
    | Some fa =>
      let c := ctl_of s pc in
      match c_state c, c_chan c with
      | GPaused, Some g =>
        (* already paused: the generation stays, the max-pause is replaced *)
        if onat_eqb ch (Some g) then Some (set_ctl s pc (mkCtl GPaused (Some g) fa)) else None
      | _, _ =>
        match ch with
        | Some g =>
          if nmem g (g_opened s) then None
          else Some (mkG (g_cmds s) (nset (g_ctl s) pc (mkCtl GPaused (Some g) fa)) (g :: g_opened s)
                         (g_closed s) (g_ctime s) (g_req s) (g_known s) (g_parent s) (g_pc s))
        | None => None
        end
      end
    | None => None
    end
  | _ => None
  end.

(** PauseController.setState(st, _) with st = running (Resume) or stopped (Stop), at time [t] *)
Definition step_setstate (s : gst) (t : N) (pc : nat) (st : gstate) (ch : option nat) : option gst :=
  let c := ctl_of s pc in
  if onat_eqb ch (c_chan c) then
    match c_state c with
    | GPaused =>
      match c_chan c with
      | Some g =>
        match nget (g_closed s) g with
        | Some _ => None
        | None => Some (mkG (g_cmds s) (nset (g_ctl s) pc (mkCtl st ch (c_fail c))) (g_opened s)
                            ((g, st) :: g_closed s) ((g, t) :: g_ctime s) (g_req s) (g_known s) (g_parent s) (g_pc s))
        end
      | None => None       (* close(nil) would panic *)
      end
    | _ => Some (set_ctl s pc (mkCtl st ch (c_fail c)))
    end
  else None.

Definition step_set (s : gst) (t : N) (who : actor) (pc : nat) (st : gstate) (ch : option nat) : option gst :=
  match st with
  | GPaused => step_pause s who pc ch
  | _ => step_setstate s t pc st ch
  end.

Definition step_read (s : gst) (t : N) (who : actor) (pc : nat) (st : gstate) (ch : option nat) : option gst :=
  match who with
  | AReq r =>
    match nget (g_req s) r with
    | Some _ => None
    | None =>
      let c := ctl_of s pc in
      if gstate_eqb st (c_state c) && onat_eqb ch (c_chan c) then
        match st with
        | GPaused =>
          match ch with
          | Some g => Some (set_req s r (PhParked (mkHold pc g t (c_fail c))))
          | None => None
          end
        | _ => Some (set_req s r (PhPass pc st))
        end
      else None
    end
  | _ => None
  end.

(** the select in Wait.  A timer wake happens at the deadline; if the generation of the request has been
    closed, it was closed at this very instant or later in virtual time — never strictly earlier: the close
    wakes a goroutine blocked in the select at once (the tie "same instant" stays: both cases ready). *)
Definition step_wake (s : gst) (t : N) (who : actor) (pc : nat) (by_chan : bool) : option gst :=
  match who with
  | AReq r =>
    match nget (g_req s) r with
    | Some (PhParked h) =>
      if Nat.eqb pc (h_pc h) &&
         (if by_chan then match nget (g_closed s) (h_gen h) with Some _ => true | None => false end
          else (t =? h_tread h + h_fail h) &&
               match nget (g_ctime s) (h_gen h) with Some tc => t <=? tc | None => true end)
      then Some (set_req s r (PhWoken h (mkWake by_chan t (c_state (ctl_of s pc)))))
      else None
    | _ => None
    end
  | _ => None
  end.

Definition gaction_eqb (a b : gaction) : bool :=
  match a, b with
  | AProceed, AProceed | ATimedOut, ATimedOut | AStopped, AStopped => true
  | _, _ => false
  end.

(** the controller of a service object: every copy of a lineage has the one of the original *)
Definition bind_pc (s : gst) (svc pc : nat) : option gst :=
  match pc_of s svc with
  | Some p => if Nat.eqb p pc then Some s else None
  | None => Some (mkG (g_cmds s) (g_ctl s) (g_opened s) (g_closed s) (g_ctime s) (g_req s)
                      (svc :: g_known s) (g_parent s) (nset (g_pc s) (root s svc) pc))
  end.

Definition step_result (s : gst) (who : actor) (r svc : nat) (a : gaction) : option gst :=
  match who with
  | AReq r' =>
    if Nat.eqb r r' then
      match nget (g_req s) r with
      | Some (PhPass pc st) =>
        if gaction_eqb a (match st with GStopped => AStopped | _ => AProceed end)
        then match bind_pc s svc pc with Some s' => Some (set_req s' r (PhDone pc None a)) | None => None end
        else None
      | Some (PhWoken h w) =>
        if gaction_eqb a (action_of w)
        then match bind_pc s svc (h_pc h) with
             | Some s' => Some (set_req s' r (PhDone (h_pc h) (Some (h, w)) a))
             | None => None
             end
        else None
      | _ => None
      end
    else None
  | _ => None
  end.

(** pick / lb-claim / claim / claim-refused: only after Wait returned proceed *)
Definition step_path (s : gst) (r : nat) : option gst :=
  match nget (g_req s) r with
  | Some (PhDone _ _ AProceed) => Some s
  | _ => None
  end.

(** the answer.  After "stopped" / "timed out" it is the proxy's own 503 / 504: no target served it. *)
Definition step_respond (s : gst) (r : nat) (status : N) (sb : str) : option gst :=
  match nget (g_req s) r with
  | None => Some (set_req s r (PhAnswered None None status))
  | Some (PhDone _ hw a) =>
    if match a with
       | AStopped => (status =? 503) && str_eqb sb []
       | ATimedOut => (status =? 504) && str_eqb sb []
       | AProceed => true
       end
    then Some (set_req s r (PhAnswered hw (Some a) status))
    else None
  | Some _ => None
  end.

Definition step_copy (s : gst) (old new : nat) : option gst :=
  if nmem new (g_known s) || Nat.eqb old new then None
  else Some (mkG (g_cmds s) (g_ctl s) (g_opened s) (g_closed s) (g_ctime s) (g_req s)
                 (new :: old :: g_known s) (nset (g_parent s) new (root s old)) (g_pc s)).

Definition gstep (s : gst) (e : event) : option gst :=
  match e_k e with
  | KParams c _ _ fa => step_params s c fa
  | KGateSet pc st ch => step_set s (e_t e) (e_by e) pc st ch
  | KGateRead pc st ch => step_read s (e_t e) (e_by e) pc st ch
  | KGateWake pc b => step_wake s (e_t e) (e_by e) pc b
  | KGateResult r svc a => step_result s (e_by e) r svc a
  | KPick r _ _ => step_path s r
  | KLbClaim _ _ r => step_path s r
  | KClaim _ r => step_path s r
  | KClaimRefused _ r => step_path s r
  | KRespond r status sb => step_respond s r status sb
  | KSvcCopy old new => step_copy s old new
  | _ => Some s
  end.

(** At the end of a complete run every request that consulted the gate has been answered. *)
Definition quiescent (s : gst) : bool :=
  forallb (fun rp => match snd rp with PhAnswered _ _ _ => true | _ => false end) (g_req s).

Definition gate_accepts (tr : trace) : bool :=
  match run gstep ginit tr with
  | Some s => quiescent s
  | None => false
  end.
