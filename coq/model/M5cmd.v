(** M5cmd.v — the command <-> drain LINKAGE view (property C03, command level).

    An acceptor over the event traces of Trace.v INCLUDING the linkage events
    ([KSvcDrain], [KSvcDrainDone], [KDrainAll], [KDrainChild], [KDrainAllDone];
    hooks of /repo commit deea238).  It tracks ONLY structure — no clock, no
    timeouts, nothing about requests:

    - balancers and their targets ([KLbNew]), the slots of the service objects
      ([KSlot], [KSvcCopy]);
    - per command [c] (its own events carry the actor [ACmd c]): where it is in
      its program.  A deploy / rollout deploy: slot update -> install -> (if the
      install succeeded and a balancer [old] was replaced) [KDrainAll old w] ->
      [KDrainAllDone old w] -> [KLbDispose old] -> return Ok.  A pause / stop:
      gate set -> [KSvcDrain svc lbs] -> [KSvcDrainDone svc] -> return Ok;
    - per [LoadBalancer.DrainAll] call [w] (its WaitGroup identifies it): its
      balancer, who entered it, the child goroutines it spawned (one per target),
      whether its [wg.Wait()] has returned;
    - per child goroutine [g]: registered -> marked -> begun (open, or "found
      draining": finding D11, the call returns at once) -> cancel-rest done ->
      ended (the restoring state-set).

    The state also remembers the POSITIONS (index in the trace, [tick]) of the
    events that moved a command / call / child on; they are ghost data for the
    proofs (proofs/M5cmdFacts.v) except [a_at] and the [iV] of [CSvcDraining],
    which implement "a DrainAll call entered AFTER this command's KSvcDrain".

    Slack of the view (harmless for the theorems of props/C03link.v): the two
    DrainAll calls of a pause / stop run in goroutines started by
    PerformConcurrently; nothing in the trace ties those goroutines to the
    command by identity, so [KSvcDrainDone] is accepted as soon as, for every
    balancer of the [KSvcDrain], SOME DrainAll call on it that was entered after
    the [KSvcDrain] is done — it may be a call of an overlapping command.

    Actors are identified by their number ([goid]) where the sister views
    M5full / M5time do so: a Drain event or state-set by ANY actor numbered [g]
    while child goroutine [g] is in its Drain call must be the next step of
    that child and must carry the actor [AGo g].

    Traces recorded WITHOUT the linkage events are not the domain of this view
    (every Drain event must come from a registered child).
    Executable; no proofs here. *)
From KP Require Import model.Base model.Trace.

(** ** State *)

(** where a command is in its program; the numbers [i_] are trace positions *)
Inductive cphase :=
| CRun                                                     (* issued; nothing relevant yet *)
| CSlotted (iS : nat) (rep : option nat)                   (* deploy: KSlot done, [rep] replaced *)
| CConflict (iS : nat) (rep : option nat) (iI : nat)       (* install refused *)
| CFree (iS iI : nat)                                      (* installed, nothing replaced *)
| CInst (iS old iI : nat)                                  (* installed, must drain [old] *)
| CDraining (iS old iI iA w : nat)                         (* KDrainAll old w entered *)
| CDrained (iS old iI iA w iD : nat)                       (* KDrainAllDone old w *)
| CDisposed (iS old iI iA w iD : nat)                      (* KLbDispose old *)
| CGate                                                    (* pause / stop: gate set *)
| CSvcDraining (svc : nat) (ls : list nat) (iV : nat)      (* KSvcDrain svc ls *)
| CSvcDone (svc : nat) (ls : list nat) (iV iW : nat).      (* KSvcDrainDone svc *)

Record cmd := mkC {
  c_kind : cmdkind;
  c_ph : cphase;
  c_ret : bool                                             (* it has returned *)
}.

(** one LoadBalancer.DrainAll call *)
Record call := mkA {
  a_lb : nat;
  a_by : actor;                                            (* who entered it *)
  a_at : nat;                                              (* position of its KDrainAll *)
  a_kids : list (nat * nat);                               (* target -> child goroutine *)
  a_done : option nat                                      (* position of its KDrainAllDone *)
}.

(** the Drain call of one child goroutine *)
Inductive kphase :=
| KReg                                                     (* KDrainChild seen *)
| KMarked (orig : tstate)                                  (* state-set _ -> draining; [orig] = state before *)
| KOpen (b : nat)                                          (* KDrainBegin (orig <> draining) at [b] *)
| KCancelled (b c : nat)                                   (* KDrainCancelRest at [c] *)
| KEarly (b : nat)                                         (* KDrainBegin with orig = draining: returned at once *)
| KEnded (b c r : nat).                                    (* restoring state-set at [r] *)

Record kid := mkK {
  k_t : nat;                                               (* the target it was spawned for *)
  k_w : nat;                                               (* by this DrainAll call *)
  k_reg : nat;                                             (* position of its KDrainChild *)
  k_ph : kphase
}.

Record state := mkSt {
  cmds : list (nat * cmd);
  lbs : list (nat * list nat);                             (* balancer -> targets *)
  svcs : list (nat * (option nat * option nat));           (* service object -> active, rollout *)
  calls : list (nat * call);                               (* DrainAll calls, keyed by WaitGroup *)
  kids : list (nat * kid);                                 (* children, keyed by goroutine *)
  tick : nat                                               (* number of events consumed *)
}.

Definition init : state := mkSt [] [] [] [] [] 0.

Definition goid (a : actor) : nat := match a with AGo g => g | ACmd c => c | AReq r => r | AEnv => 0 end.

Definition is_deploy (k : cmdkind) : bool :=
  match k with CkDeploy | CkRolloutDeploy => true | _ => false end.
Definition is_pause_stop (k : cmdkind) : bool :=
  match k with CkPause | CkStop => true | _ => false end.

Definition opt_nat_eqb (a b : option nat) : bool := option_eqb Nat.eqb a b.

Definition svc_slots (st : state) (s : nat) : option nat * option nat :=
  match nget (svcs st) s with Some x => x | None => (None, None) end.

(** the balancers Service.Drain drains: active, then rollout *)
Definition svc_lbs (st : state) (s : nat) : list nat :=
  let x := svc_slots st s in
  (match fst x with Some a => [a] | None => [] end) ++ (match snd x with Some r => [r] | None => [] end).

Definition lb_targets (st : state) (lb : nat) : list nat :=
  match nget (lbs st) lb with Some ts => ts | None => [] end.

(** a command acts only between its KIssue and its KReturn *)
Definition actor_ok (st : state) (e : event) : bool :=
  match e_by e with
  | ACmd c =>
    match e_k e with
    | KIssue _ _ _ => true
    | _ => match nget (cmds st) c with Some cm => negb (c_ret cm) | None => false end
    end
  | _ => true
  end.

(** the command whose own step this event is *)
Definition own (st : state) (e : event) : option (nat * cmd) :=
  match e_by e with
  | ACmd c => match nget (cmds st) c with Some cm => Some (c, cm) | None => None end
  | _ => None
  end.

(** which results a command may return where *)
Definition return_ok (k : cmdkind) (ph : cphase) (r : cresult) : bool :=
  match r with
  | CROk =>
    if is_deploy k then match ph with CFree _ _ | CDisposed _ _ _ _ _ _ => true | _ => false end
    else if is_pause_stop k then match ph with CSvcDone _ _ _ _ => true | _ => false end
    else true
  | CRErr _ =>
    if is_deploy k then match ph with CRun | CSlotted _ _ | CConflict _ _ _ => true | _ => false end
    else if is_pause_stop k then match ph with CRun => true | _ => false end
    else true
  | CRPanic => true
  end.

Definition kid_ended (st : state) (g : nat) : bool :=
  match nget (kids st) g with
  | Some k => match k_ph k with KEarly _ | KEnded _ _ _ => true | _ => false end
  | None => false
  end.

(** every target has a registered child and every child has finished its Drain call *)
Definition call_complete (st : state) (a : call) : bool :=
  forallb (fun t => match nget (a_kids a) t with Some g => kid_ended st g | None => false end)
          (lb_targets st (a_lb a)).

(** some DrainAll call on [lb] entered after position [iV] is done *)
Definition drained_since (st : state) (iV lb : nat) : bool :=
  existsb (fun p => Nat.eqb (a_lb (snd p)) lb && Nat.ltb iV (a_at (snd p)) &&
                    match a_done (snd p) with Some _ => true | None => false end) (calls st).

(** the child goroutine numbered like the actor, while it is in its Drain call *)
Definition live_kid (st : state) (e : event) : option kid :=
  match nget (kids st) (goid (e_by e)) with
  | Some k => match k_ph k with KEarly _ | KEnded _ _ _ => None | _ => Some k end
  | None => None
  end.

Definition is_go (e : event) : bool := actor_eqb (e_by e) (AGo (goid (e_by e))).

(** ** The acceptor: every component of the state follows its own rule (all rules read the
       state BEFORE the event, [n] = position of the event); an event is accepted iff every
       component accepts it *)

(** *** commands: the next step of the program of command [cm] (actor [ACmd c]).
    [None] = not a step of its program here; [Some None] = no progress; [Some (Some ph)] = new phase *)
Definition own_trans (st : state) (n : nat) (k : kind) (cm : cmd) : option (option cphase) :=
  match k with
  | KSlot _ _ _ rep =>
    match c_ph cm with
    | CRun => if is_deploy (c_kind cm) then Some (Some (CSlotted n rep)) else None
    | _ => None
    end
  | KInstall _ ok =>
    match c_ph cm with
    | CSlotted iS rep =>
      Some (Some (if ok then match rep with Some old => CInst iS old n | None => CFree iS n end
                  else CConflict iS rep n))
    | _ => None
    end
  | KDrainAll lb w =>                                      (* a command calls DrainAll itself only in a deploy *)
    match c_ph cm with
    | CInst iS old iI => if Nat.eqb lb old then Some (Some (CDraining iS old iI n w)) else None
    | _ => None
    end
  | KDrainAllDone lb w =>
    match c_ph cm with
    | CDraining iS old iI iA w' =>
      if Nat.eqb lb old && Nat.eqb w w' then Some (Some (CDrained iS old iI iA w n)) else None
    | _ => None
    end
  | KLbDispose lb =>
    match c_ph cm with
    | CInst _ _ _ | CDraining _ _ _ _ _ => None            (* not before the replaced balancer is drained *)
    | CDrained iS old iI iA w iD => if Nat.eqb lb old then Some (Some (CDisposed iS old iI iA w iD)) else None
    | _ => Some None
    end
  | KGateSet _ _ _ =>
    if is_pause_stop (c_kind cm) then
      match c_ph cm with CRun => Some (Some CGate) | _ => None end
    else Some None
  | KSvcDrain s ls =>
    match c_ph cm with
    | CGate => if nlist_eqb ls (svc_lbs st s) then Some (Some (CSvcDraining s ls n)) else None
    | _ => None
    end
  | KSvcDrainDone s =>
    match c_ph cm with
    | CSvcDraining s' ls iV =>
      if Nat.eqb s s' && forallb (drained_since st iV) ls then Some (Some (CSvcDone s ls iV n)) else None
    | _ => None
    end
  | _ => Some None
  end.

Definition cmds_step (st : state) (n : nat) (e : event) : option (list (nat * cmd)) :=
  match e_k e with
  | KIssue c k _ =>
    match nget (cmds st) c with
    | Some _ => None
    | None => Some (nset (cmds st) c (mkC k CRun false))
    end
  | KReturn c r =>
    match own st e with
    | Some (c', cm) =>
      if Nat.eqb c c' && return_ok (c_kind cm) (c_ph cm) r
      then Some (nset (cmds st) c' (mkC (c_kind cm) (c_ph cm) true))
      else None
    | None => None                                         (* only the command itself returns *)
    end
  | k =>
    match own st e with
    | Some (c, cm) =>
      match own_trans st n k cm with
      | None => None
      | Some None => Some (cmds st)
      | Some (Some ph) => Some (nset (cmds st) c (mkC (c_kind cm) ph (c_ret cm)))
      end
    | None =>
      match k with
      | KSvcDrain _ _ | KSvcDrainDone _ => None            (* Service.Drain is called by Pause / Stop only *)
      | _ => Some (cmds st)
      end
    end
  end.

(** *** balancers and the slots of the service objects *)
Definition lbs_step (st : state) (e : event) : option (list (nat * list nat)) :=
  match e_k e with
  | KLbNew lb ts =>
    match nget (lbs st) lb with
    | Some _ => None
    | None => Some (nset (lbs st) lb ts)
    end
  | _ => Some (lbs st)
  end.

Definition svcs_step (st : state) (e : event) : option (list (nat * (option nat * option nat))) :=
  match e_k e with
  | KSvcCopy old new => Some (nset (svcs st) new (svc_slots st old))
  | KSlot s ro lb rep =>
    let x := svc_slots st s in
    if opt_nat_eqb (if ro then snd x else fst x) rep
    then Some (nset (svcs st) s (if ro then (fst x, Some lb) else (Some lb, snd x)))
    else None
  | _ => Some (svcs st)
  end.

(** *** DrainAll calls *)
Definition calls_step (st : state) (n : nat) (e : event) : option (list (nat * call)) :=
  match e_k e with
  | KDrainAll lb w =>
    match nget (calls st) w, nget (lbs st) lb with
    | None, Some _ => Some (nset (calls st) w (mkA lb (e_by e) n [] None))
    | _, _ => None
    end
  | KDrainChild t w =>
    match nget (calls st) w with
    | Some a =>
      match a_done a, nget (a_kids a) t with
      | None, None =>
        if nmem t (lb_targets st (a_lb a))
        then Some (nset (calls st) w (mkA (a_lb a) (a_by a) (a_at a) (nset (a_kids a) t (goid (e_by e))) None))
        else None
      | _, _ => None                                       (* the call is over / a second child for [t] *)
      end
    | None => None
    end
  | KDrainAllDone lb w =>
    match nget (calls st) w with
    | Some a =>
      match a_done a with
      | None =>
        if Nat.eqb (a_lb a) lb && actor_eqb (a_by a) (e_by e) && call_complete st a
        then Some (nset (calls st) w (mkA (a_lb a) (a_by a) (a_at a) (a_kids a) (Some n)))
        else None
      | Some _ => None
      end
    | None => None
    end
  | _ => Some (calls st)
  end.

(** *** the Drain call of a child goroutine *)

(** the target a Drain event is about *)
Definition drain_target (k : kind) : option nat :=
  match k with
  | KStateSet t _ _ | KDrainBegin t _ _ | KDrainSnapshot t _ | KDrainDeadline t | KDrainCancelRest t => Some t
  | _ => None
  end.

(** the next step of a child in its Drain call *)
Definition kid_trans (n : nat) (k : kind) (ph : kphase) : option kphase :=
  match k, ph with
  | KStateSet _ o TDraining, KReg => Some (KMarked o)                 (* the mark *)
  | KDrainBegin _ o _, KMarked o' =>
    if tstate_eqb o o' then Some (match o with TDraining => KEarly n | _ => KOpen n end) else None
  | KDrainSnapshot _ _, KOpen b | KDrainDeadline _, KOpen b => Some (KOpen b)
  | KDrainCancelRest _, KOpen b => Some (KCancelled b n)
  | KStateSet _ _ TDraining, KCancelled _ _ => None
  | KStateSet _ _ _, KCancelled b c => Some (KEnded b c n)            (* the restore *)
  | _, _ => None
  end.

Definition kids_step (st : state) (n : nat) (e : event) : option (list (nat * kid)) :=
  let g := goid (e_by e) in
  match e_k e with
  | KDrainChild t w =>
    match e_by e, nget (kids st) g with
    | AGo _, None => Some (nset (kids st) g (mkK t w n KReg))
    | _, _ => None
    end
  | k =>
    match drain_target k with
    | Some t =>
      match live_kid st e with
      | Some kd =>
        if is_go e && Nat.eqb t (k_t kd) then
          match kid_trans n k (k_ph kd) with
          | Some ph => Some (nset (kids st) g (mkK (k_t kd) (k_w kd) (k_reg kd) ph))
          | None => None
          end
        else None
      | None =>
        match k with
        | KStateSet _ _ _ => Some (kids st)                (* MarkAllHealthy after a restore *)
        | _ => None                                        (* Drain is called by DrainAll's children only *)
        end
      end
    | None => Some (kids st)
    end
  end.

Definition step (st : state) (e : event) : option state :=
  let n := tick st in
  if negb (actor_ok st e) then None else
  match cmds_step st n e, lbs_step st e, svcs_step st e, calls_step st n e, kids_step st n e with
  | Some c, Some l, Some s, Some a, Some k => Some (mkSt c l s a k (S n))
  | _, _, _, _, _ => None
  end.

Definition accepted (tr : trace) : bool :=
  match run step init tr with Some _ => true | None => false end.

(** projections for diagnostics *)
Definition dbg (st : state) :=
  (map (fun p => (fst p, c_ph (snd p), c_ret (snd p))) (cmds st), calls st, kids st, svcs st).
