(** M5path.v — the routing / balancer / drain view of the event traces
    (model/Trace.v), as far as property C07 needs it.

    State: which service object is installed under each name (router.go:
    installService / RemoveService), the balancers in the slots of each service
    OBJECT (a redeploy works on a copy: CopyWithOptions copies the slots,
    UpdateLoadBalancer changes the copy), the targets of each balancer, the
    state of each target, the commands that are in their drain phase, and per
    request the object it was routed to, the balancer it picked and the target
    the balancer gave it.

    Rules:
      - [KRouted r (Some svc)]   svc is the object installed under its name;
      - [KPick r svc lb]         svc is the object r was routed to (it keeps it), lb is in one of ITS slots now;
      - [KLbClaim lb t r]        lb is the balancer r picked, t one of its targets;
      - [KClaim t r]             t is what the balancer gave r, and t is not draining;
      - [KClaimRefused t r]      the same, and t is draining;
      - [KStateSet t orig new]   orig is t's state; a mark (new = draining) happens only in the drain phase of
                                 a pause / stop (after its gate-set, before its return; t in a slot of the object
                                 that was installed under the command's name) or of a deploy (after its install,
                                 before its return; t in the balancer it replaced);
      - [KProbeApply t ok _ new] a good probe makes the target healthy (whatever it was), a bad one makes a
                                 healthy target unhealthy.
    Everything else is ignored.  No proofs here (proofs/M5pathFacts.v). *)
From KP Require Import model.Base model.Trace.
Local Open Scope N_scope.

Fixpoint sget {A} (l : list (str * A)) (k : str) : option A :=
  match l with
  | [] => None
  | (k', v) :: r => if str_eqb k k' then Some v else sget r k
  end.

Fixpoint sset {A} (l : list (str * A)) (k : str) (v : A) : list (str * A) :=
  match l with
  | [] => [(k, v)]
  | (k', v') :: r => if str_eqb k k' then (k, v) :: r else (k', v') :: sset r k v
  end.

Fixpoint sdel {A} (l : list (str * A)) (k : str) : list (str * A) :=
  match l with
  | [] => []
  | (k', v') :: r => if str_eqb k k' then sdel r k else (k', v') :: sdel r k
  end.

(** why a target may be marked draining *)
Inductive dcause :=
| DPause (svc : nat)      (* pause / stop: the object found under the name at the gate-set *)
| DDeploy (lb : nat).     (* deploy: the balancer it replaced *)

(** a request on its way *)
Record preq := mkPr { pr_svc : nat; pr_lb : option nat; pr_t : option nat }.

Record pst := mkP {
  p_cmd : list (nat * str);                          (* command -> service name (KIssue) *)
  p_name : list (nat * str);                         (* service object -> name (KSvcName) *)
  p_inst : list (str * nat);                         (* name -> installed object *)
  p_slots : list (nat * (option nat * option nat));  (* object -> (active, rollout) *)
  p_lbt : list (nat * list nat);                     (* balancer -> targets *)
  p_ts : list (nat * tstate);                        (* target -> state *)
  p_repl : list (nat * nat);                         (* deploy command -> balancer its slot update replaced *)
  p_drain : list (nat * dcause);                     (* commands in their drain phase *)
  p_req : list (nat * preq)
}.

Definition pinit : pst := mkP [] [] [] [] [] [] [] [] [].

Definition name_of (s : pst) (svc : nat) : str := match nget (p_name s) svc with Some n => n | None => [] end.
Definition installed (s : pst) (n : str) : option nat := sget (p_inst s) n.
Definition slots_of (s : pst) (svc : nat) : option nat * option nat :=
  match nget (p_slots s) svc with Some x => x | None => (None, None) end.
Definition targets_of (s : pst) (lb : nat) : list nat := match nget (p_lbt s) lb with Some l => l | None => [] end.
Definition tstate_of (s : pst) (t : nat) : tstate := match nget (p_ts s) t with Some x => x | None => TAdding end.

Definition in_slot (sl : option nat * option nat) (lb : nat) : bool :=
  (match fst sl with Some a => Nat.eqb a lb | None => false end) ||
  (match snd sl with Some a => Nat.eqb a lb | None => false end).

(** the balancers a service object has now *)
Definition balancers (s : pst) (svc : nat) : list nat :=
  (match fst (slots_of s svc) with Some a => [a] | None => [] end) ++
  (match snd (slots_of s svc) with Some a => [a] | None => [] end).

Definition covers (s : pst) (c : dcause) (t : nat) : bool :=
  match c with
  | DPause svc => existsb (fun lb => nmem t (targets_of s lb)) (balancers s svc)
  | DDeploy lb => nmem t (targets_of s lb)
  end.

Definition onat_eq (a b : option nat) : bool :=
  match a, b with
  | Some x, Some y => Nat.eqb x y
  | None, None => true
  | _, _ => false
  end.

Definition ndel {A} (l : list (nat * A)) (k : nat) : list (nat * A) := filter (fun kv => negb (Nat.eqb k (fst kv))) l.

Definition upd_cmd s x := mkP x (p_name s) (p_inst s) (p_slots s) (p_lbt s) (p_ts s) (p_repl s) (p_drain s) (p_req s).
Definition upd_name s x := mkP (p_cmd s) x (p_inst s) (p_slots s) (p_lbt s) (p_ts s) (p_repl s) (p_drain s) (p_req s).
Definition upd_inst s x := mkP (p_cmd s) (p_name s) x (p_slots s) (p_lbt s) (p_ts s) (p_repl s) (p_drain s) (p_req s).
Definition upd_slots s x := mkP (p_cmd s) (p_name s) (p_inst s) x (p_lbt s) (p_ts s) (p_repl s) (p_drain s) (p_req s).
Definition upd_lbt s x := mkP (p_cmd s) (p_name s) (p_inst s) (p_slots s) x (p_ts s) (p_repl s) (p_drain s) (p_req s).
Definition upd_ts s x := mkP (p_cmd s) (p_name s) (p_inst s) (p_slots s) (p_lbt s) x (p_repl s) (p_drain s) (p_req s).
Definition upd_repl s x := mkP (p_cmd s) (p_name s) (p_inst s) (p_slots s) (p_lbt s) (p_ts s) x (p_drain s) (p_req s).
Definition upd_drain s x := mkP (p_cmd s) (p_name s) (p_inst s) (p_slots s) (p_lbt s) (p_ts s) (p_repl s) x (p_req s).
Definition upd_req s x := mkP (p_cmd s) (p_name s) (p_inst s) (p_slots s) (p_lbt s) (p_ts s) (p_repl s) (p_drain s) x.

Definition pstep (s : pst) (e : event) : option pst :=
  match e_k e with
  | KIssue c _ n => Some (upd_cmd s (nset (p_cmd s) c n))
  | KSvcName svc n =>
    match nget (p_name s) svc with
    | Some _ => Some s
    | None => Some (upd_name s (nset (p_name s) svc n))
    end
  | KSvcCopy old new => Some (upd_slots s (nset (p_slots s) new (slots_of s old)))
  | KLbNew lb ts => Some (upd_lbt s (nset (p_lbt s) lb ts))
  | KSlot svc rollout lb replaced =>
    let sl := slots_of s svc in
    if onat_eq replaced (if rollout then snd sl else fst sl) then
      let s1 := upd_slots s (nset (p_slots s) svc (if rollout then (fst sl, Some lb) else (Some lb, snd sl))) in
      match e_by e, replaced with
      | ACmd c, Some rep => Some (upd_repl s1 (nset (p_repl s) c rep))
      | _, _ => Some s1
      end
    else None
  | KInstall svc true =>
    match nget (p_name s) svc with
    | Some n =>
      let s1 := upd_inst s (sset (p_inst s) n svc) in
      match e_by e with
      | ACmd c => match nget (p_repl s) c with
                  | Some rep => Some (upd_drain s1 (nset (p_drain s) c (DDeploy rep)))
                  | None => Some s1
                  end
      | _ => Some s1
      end
    | None => None
    end
  | KRemoved svc =>
    match nget (p_name s) svc with
    | Some n =>
      match installed s n with
      | Some x => if Nat.eqb x svc then Some (upd_inst s (sdel (p_inst s) n)) else None
      | None => None
      end
    | None => None
    end
  | KGateSet _ st _ =>
    match st, e_by e with
    | GRunning, _ => Some s
    | _, ACmd c =>
      (* pause / stop: the object found under the command's name will be drained *)
      match nget (p_cmd s) c with
      | Some n => match installed s n with
                  | Some svc => Some (upd_drain s (nset (p_drain s) c (DPause svc)))
                  | None => None
                  end
      | None => None
      end
    | _, _ => Some s      (* restore of a saved state: no drain *)
    end
  | KReturn c _ => Some (upd_drain (upd_repl s (ndel (p_repl s) c)) (ndel (p_drain s) c))
  | KRouted r (Some svc) =>
    match nget (p_req s) r with
    | Some _ => None
    | None =>
      match nget (p_name s) svc with
      | Some n =>
        match installed s n with
        | Some x => if Nat.eqb x svc then Some (upd_req s (nset (p_req s) r (mkPr svc None None))) else None
        | None => None
        end
      | None => None
      end
    end
  | KPick r svc lb =>
    match nget (p_req s) r, lb with
    | Some q, Some l =>
      if Nat.eqb (pr_svc q) svc && in_slot (slots_of s svc) l && onat_eq (pr_lb q) None
      then Some (upd_req s (nset (p_req s) r (mkPr svc (Some l) None)))
      else None
    | _, _ => None
    end
  | KLbClaim lb t r =>
    match nget (p_req s) r with
    | Some q =>
      if onat_eq (pr_lb q) (Some lb) && onat_eq (pr_t q) None &&
         match t with Some x => nmem x (targets_of s lb) | None => true end
      then Some (upd_req s (nset (p_req s) r (mkPr (pr_svc q) (pr_lb q) t)))
      else None
    | None => None
    end
  | KClaim t r =>
    match nget (p_req s) r with
    | Some q => if onat_eq (pr_t q) (Some t) && negb (tstate_eqb (tstate_of s t) TDraining) then Some s else None
    | None => None
    end
  | KClaimRefused t r =>
    match nget (p_req s) r with
    | Some q => if onat_eq (pr_t q) (Some t) && tstate_eqb (tstate_of s t) TDraining then Some s else None
    | None => None
    end
  | KStateSet t orig new =>
    if tstate_eqb orig (tstate_of s t) then
      match new with
      | TDraining =>
        if existsb (fun cc => covers s (snd cc) t) (p_drain s)
        then Some (upd_ts s (nset (p_ts s) t new))
        else None
      | _ => Some (upd_ts s (nset (p_ts s) t new))
      end
    else None
  | KProbeApply t ok _ new =>
    let cur := tstate_of s t in
    if tstate_eqb new (if ok then THealthy else match cur with THealthy => TUnhealthy | _ => cur end)
    then Some (upd_ts s (nset (p_ts s) t new))
    else None
  | _ => Some s
  end.

Definition path_accepts (tr : trace) : bool :=
  match run pstep pinit tr with Some _ => true | None => false end.

(** The kinds of events that the gate view (model/M5gate.v), this view or the
    monitor (corr/C07corr.v) look at; every other event leaves both acceptors
    where they are (proofs/M5pathFacts.v: [unkept_ignored]), so the driver may
    drop them before building the trace term. *)
Definition kept (e : event) : bool :=
  match e_k e with
  | KIssue _ _ _ | KParams _ _ _ _ | KReturn _ _ | KRespond _ _ _ | KRouted _ _ | KSvcCopy _ _ | KSlot _ _ _ _
  | KInstall _ _ | KRemoved _ | KPick _ _ _ | KGateSet _ _ _ | KGateRead _ _ _ | KGateWake _ _ | KGateResult _ _ _
  | KLbNew _ _ | KLbClaim _ _ _ | KClaim _ _ | KClaimRefused _ _ | KProbeApply _ _ _ _ | KStateSet _ _ _
  | KSvcName _ _ => true
  | _ => false
  end.
