(** ProxyError.v — how a failure of the target becomes a response
    (target.go: SendRequest, handleProxyError and its four classifiers,
    createProxyHandler; net/http/httputil ReverseProxy.ServeHTTP error paths),
    and the in-flight bookkeeping around one request (StartRequest /
    deferred endInflightRequest / pendingRequestsToCancel).
    Executable definitions only. *)
From KP Require Import model.Base model.Trace.
Local Open Scope N_scope.

(** ** What the error handler can tell about an error value

    The four classifiers look at the error chain only through
    [errors.As(err, **http.MaxBytesError)], [errors.As(err, *net.Error)] +
    [Timeout()], [errors.Is(err, context.Canceled)] and
    [errors.Is(err, ErrorDraining)]. *)
Record errinfo := mkErr {
  is_max_bytes : bool;   (* a *http.MaxBytesError is in the chain *)
  is_timeout   : bool;   (* a net.Error whose Timeout() is true is in the chain *)
  is_canceled  : bool;   (* context.Canceled is in the chain *)
  is_draining  : bool    (* ErrorDraining is in the chain *)
}.

(** The failures of a round trip as [http.Transport] reports them to
    ReverseProxy's ErrorHandler (Go 1.24: a cancelled request context is
    reported by its cause). *)
Inductive fault :=
| FBodyTooLarge     (* reading the request body hit an http.MaxBytesReader *)
| FHeaderTimeout    (* "net/http: timeout awaiting response headers" (ResponseHeaderTimeout) *)
| FDialTimeout      (* dial tcp: i/o timeout *)
| FClientCancel     (* the client went away: cause context.Canceled *)
| FDrainCancel      (* Drain cancelled the request: cause ErrorDraining *)
| FRefused          (* dial tcp: connection refused *)
| FReset            (* read: connection reset by peer *)
| FEOF              (* EOF / "server closed idle connection" before a status line *)
| FMalformed        (* malformed HTTP response / status line *)
| FPartialHeader    (* unexpected EOF inside the header block *)
| FOther            (* any error value none of the classifiers recognises *)
| FInfo (e : errinfo).  (* an error value with an arbitrary combination of the four marks *)

Definition info_of (f : fault) : errinfo :=
  match f with
  | FBodyTooLarge => mkErr true false false false
  | FHeaderTimeout | FDialTimeout => mkErr false true false false
  | FClientCancel => mkErr false false true false
  | FDrainCancel => mkErr false false false true
  | FRefused | FReset | FEOF | FMalformed | FPartialHeader | FOther => mkErr false false false false
  | FInfo e => e
  end.

(** handleProxyError: the if-chain, in the order of the source. *)
Definition classify_info (e : errinfo) : N :=
  if is_max_bytes e then 413
  else if is_timeout e then 504
  else if is_canceled e then 499
  else if is_draining e then 504
  else 502.

Definition classify (f : fault) : N := classify_info (info_of f).

(** How the status is handed on: 499 is written straight to the
    ResponseWriter ([w.WriteHeader(499)], for the sake of the logs), everything
    else goes through [SetErrorResponse] into the request-scoped slot that the
    error-page middlewares render after the handler has returned. *)
Inductive action :=
| ASetError (status : N)      (* SetErrorResponse(w, r, status, nil) *)
| AWriteHeader (status : N).  (* w.WriteHeader(status) *)

Definition handle_proxy_error (f : fault) : action :=
  let s := classify f in
  if s =? 499 then AWriteHeader 499 else ASetError s.

Definition action_status (a : action) : N :=
  match a with ASetError s | AWriteHeader s => s end.

(** ** When does the target fail?  (ReverseProxy.ServeHTTP)

    Before [transport.RoundTrip] has returned a response (dial, request write,
    status line, header block, ResponseHeaderTimeout) the ErrorHandler runs and
    nothing has been written.  After that the header block has been passed on
    ([rw.WriteHeader(res.StatusCode)]) and a read error while copying the body
    makes ReverseProxy [panic(http.ErrAbortHandler)]: no ErrorHandler, no error
    page; net/http aborts the connection. *)
Inductive proxy_result :=
| PRServed (status : N) (body : str)       (* complete response copied *)
| PRError (a : action)                     (* failure before the response header block *)
| PRAbort (status : N) (sent : str).       (* failure after it: panic(http.ErrAbortHandler) *)

Inductive target_behaviour :=
| TBRespond (status : N) (body : str)
| TBFailBefore (f : fault)
| TBFailAfter (status : N) (sent : str) (f : fault).

Definition reverse_proxy (b : target_behaviour) : proxy_result :=
  match b with
  | TBRespond s body => PRServed s body
  | TBFailBefore f => PRError (handle_proxy_error f)
  | TBFailAfter s sent _ => PRAbort s sent
  end.

Definition panics (r : proxy_result) : bool :=
  match r with PRAbort _ _ => true | _ => false end.

(** ** In-flight bookkeeping of one target

    [inflight] is the key set of [Target.inflight].  [SendRequest] is
    "look the entry up; defer endInflightRequest; run the handler": the
    deferred call runs however the handler ends, a panic included. *)
Definition inflight := list nat.

Inductive ending :=
| EndResponse            (* the handler returned after a complete response *)
| EndFault (f : fault)   (* the error handler ran *)
| EndAbort               (* panic(http.ErrAbortHandler) while copying the body *)
| EndHijackDone.         (* an upgraded connection finished *)

Definition ending_of (b : target_behaviour) : ending :=
  match b with
  | TBRespond _ _ => EndResponse
  | TBFailBefore f => EndFault f
  | TBFailAfter _ _ _ => EndAbort
  end.

(** StartRequest: refused while draining, else the request is entered. *)
Definition start_request (draining : bool) (infl : inflight) (r : nat) : option inflight :=
  if draining then None else Some (r :: infl).

(** endInflightRequest: delete the key if present. *)
Definition end_inflight (infl : inflight) (r : nat) : inflight := nremove r infl.

(** SendRequest: every ending passes through the deferred end. *)
Definition send_request (infl : inflight) (r : nat) (e : ending) : inflight :=
  match e with
  | EndResponse | EndFault _ | EndAbort | EndHijackDone => end_inflight infl r
  end.

(** pendingRequestsToCancel: a copy of the map. *)
Definition drain_snapshot (infl : inflight) : inflight := infl.

(** The events [SendRequest] contributes to the trace (hooks "claim" in
    StartRequest, "end" in endInflightRequest). *)
Definition ev (k : kind) : event := mkEv 0 AEnv k.
Definition request_events (t r : nat) (e : ending) : trace :=
  match e with
  | EndResponse | EndFault _ | EndAbort | EndHijackDone => [ev (KClaim t r); ev (KEnd t r)]
  end.

(** ** The acceptor over traces: per target, the set of claimed, not yet ended
    requests; a drain's snapshot must be exactly that set. *)
Definition ifstate := list (nat * list nat).

Definition if_get (s : ifstate) (t : nat) : list nat :=
  match nget s t with Some l => l | None => [] end.

Definition subset (a b : list nat) : bool := forallb (fun x => nmem x b) a.
Definition same_set (a b : list nat) : bool := subset a b && subset b a.

Definition if_step (s : ifstate) (e : event) : option ifstate :=
  match e_k e with
  | KClaim t r =>
    if nmem r (if_get s t) then None else Some (nset s t (r :: if_get s t))
  | KEnd t r =>
    if nmem r (if_get s t) then Some (nset s t (nremove r (if_get s t))) else None
  | KDrainSnapshot t snap =>
    if same_set (map fst snap) (if_get s t) then Some s else None
  | _ => Some s
  end.

Definition if_init : ifstate := [].
