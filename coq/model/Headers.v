(** Headers.v — what happens to the header set of a proxied request and of
    the target's response.  Executable definitions only.

    Anchors: net/textproto CanonicalMIMEHeaderKey; net/http Header Get/Set/Del;
    request_start_middleware.go, request_id_middleware.go (server.go
    buildHandler: start runs first, then id); net/http/httputil/reverseproxy.go
    ServeHTTP (removeHopByHopHeaders, deletion of Forwarded / X-Forwarded-*,
    User-Agent rule), ProxyRequest.SetXForwarded; target.go forwardHeaders;
    net/http Transport (Accept-Encoding: gzip and transparent decoding);
    net/http server response (Date, Content-Type sniffing).

    A header set is a list of (canonical key, value) in arrival order; only the
    order of the values of one key is meaningful. *)
From KP Require Import model.Base model.Url.
Local Open Scope N_scope.

Definition headers := list (str * str).

(** ** textproto.CanonicalMIMEHeaderKey *)
Definition is_token_byte (c : byte) : bool := is_alnum c || mem_byte c (bs "!#$%&'*+-.^_`|~").

Definition to_upper (c : byte) : byte := if is_lower c then byte_of_N (byte_n c - 32) else c.
Definition to_lower (c : byte) : byte := if is_upper c then byte_of_N (byte_n c + 32) else c.

Fixpoint canon_aux (upper : bool) (s : str) : str :=
  match s with
  | [] => []
  | c :: r => (if upper then to_upper c else to_lower c) :: canon_aux (byte_eqb c x2d) r
  end.
Definition canonical_key (s : str) : str :=
  if forallb is_token_byte s then canon_aux true s else s.

Definition lower_str (s : str) : str := map to_lower s.

(** ** Header.Get / Values / Set / Del on canonical keys *)
Definition hvalues (k : str) (h : headers) : list str :=
  map snd (filter (fun kv => str_eqb (fst kv) k) h).
Definition hget (k : str) (h : headers) : str :=
  match hvalues k h with v :: _ => v | [] => [] end.
Definition hhas (k : str) (h : headers) : bool := negb (is_empty (hvalues k h)).
Definition hdel (k : str) (h : headers) : headers := filter (fun kv => negb (str_eqb (fst kv) k)) h.
Definition hset (k v : str) (h : headers) : headers := hdel k h ++ [(k, v)].
Definition hset_all (k : str) (vs : list str) (h : headers) : headers :=
  hdel k h ++ map (fun v => (k, v)) vs.
Definition hdel_all (ks : list str) (h : headers) : headers := fold_left (fun a k => hdel k a) ks h.

Definition K_host := bs "Host".
Definition K_xff := bs "X-Forwarded-For".
Definition K_xfh := bs "X-Forwarded-Host".
Definition K_xfp := bs "X-Forwarded-Proto".
Definition K_forwarded := bs "Forwarded".
Definition K_rid := bs "X-Request-Id".
Definition K_rstart := bs "X-Request-Start".
Definition K_connection := bs "Connection".
Definition K_ua := bs "User-Agent".
Definition K_ae := bs "Accept-Encoding".
Definition K_range := bs "Range".
Definition K_ct := bs "Content-Type".
Definition K_ce := bs "Content-Encoding".
Definition K_cl := bs "Content-Length".
Definition K_te := bs "Transfer-Encoding".
Definition K_date := bs "Date".

(** The header map net/http's server hands to the handler: keys
    canonicalised, Host moved to Request.Host, and fixPragmaCacheControl
    ("Pragma: no-cache" without Cache-Control adds "Cache-Control: no-cache"). *)
Definition K_pragma := bs "Pragma".
Definition K_cache_control := bs "Cache-Control".
Definition fix_pragma (h : headers) : headers :=
  match hvalues K_pragma h with
  | v :: _ => if str_eqb v (bs "no-cache") && negb (hhas K_cache_control h)
              then h ++ [(K_cache_control, bs "no-cache")] else h
  | [] => h
  end.
Definition server_headers (raw : headers) : headers :=
  fix_pragma (hdel K_host (map (fun kv => (canonical_key (fst kv), snd kv)) raw)).

(** ** Request-start and request-id middleware *)
Definition mw_default (k fresh : str) (h : headers) : headers :=
  if is_empty (hget k h) then hset k fresh h else h.

(** ** Hop-by-hop removal *)
Definition is_ows (c : byte) : bool := byte_eqb c x20 || byte_eqb c x09.
(** textproto.TrimString: trims any mix of space and tab *)
Fixpoint drop_ows (s : str) : str :=
  match s with c :: r => if is_ows c then drop_ows r else s | [] => [] end.
Definition trim_string (s : str) : str := rev (drop_ows (rev (drop_ows s))).

(** strings.Split(s, ",") *)
Fixpoint split_comma_aux (cur : str) (s : str) : list str :=
  match s with
  | [] => [rev cur]
  | c :: r => if byte_eqb c x2c then rev cur :: split_comma_aux [] r else split_comma_aux (c :: cur) r
  end.
Definition split_comma (s : str) : list str := split_comma_aux [] s.

Definition hop_headers : list str :=
  [bs "Connection"; bs "Proxy-Connection"; bs "Keep-Alive"; bs "Proxy-Authenticate";
   bs "Proxy-Authorization"; bs "Te"; bs "Trailer"; bs "Transfer-Encoding"; bs "Upgrade"].

(** The keys named in Connection header values. *)
Definition connection_listed (h : headers) : list str :=
  flat_map (fun f =>
    flat_map (fun sf => let t := trim_string sf in if is_empty t then [] else [canonical_key t])
             (split_comma f))
    (hvalues K_connection h).

Definition remove_hop_by_hop (h : headers) : headers :=
  hdel_all hop_headers (hdel_all (connection_listed h) h).

(** ** X-Forwarded-* (forwardHeaders + SetXForwarded) *)
Definition comma_space : str := [x2c; x20].

Definition proto_of (tls : bool) : str := if tls then bs "https" else bs "http".

(** [inh] is the inbound header map (req.In.Header), [out] the outbound one
    after the deletions of ReverseProxy.ServeHTTP. *)
Definition forward_headers (fwd : bool) (client_ip : str) (tls : bool) (host : str)
           (inh out : headers) : headers :=
  let out1 := if fwd then hset_all K_xff (hvalues K_xff inh) out else out in
  let prior := hvalues K_xff out1 in
  let xff := if is_empty prior then client_ip else join comma_space prior ++ comma_space ++ client_ip in
  let out2 := hset K_xfp (proto_of tls) (hset K_xfh host (hset K_xff xff out1)) in
  if fwd then
    let out3 := if is_empty (hget K_xfp inh) then out2 else hset K_xfp (hget K_xfp inh) out2 in
    if is_empty (hget K_xfh inh) then out3 else hset K_xfh (hget K_xfh inh) out3
  else out2.

(** ** The whole request-header pipeline *)
Record env := mkEnv { e_client_ip : str; e_tls : bool; e_fresh_id : str; e_fresh_start : str }.

(** After the two middlewares (what Router.ServeHTTP sees). *)
Definition after_middleware (e : env) (raw : headers) : headers :=
  mw_default K_rid (e_fresh_id e) (mw_default K_rstart (e_fresh_start e) (server_headers raw)).

(** ReverseProxy.ServeHTTP up to and including Rewrite. *)
Definition proxy_headers (e : env) (fwd : bool) (host : str) (raw : headers) : headers :=
  let inh := after_middleware e raw in
  let out := hdel_all [K_forwarded; K_xff; K_xfh; K_xfp] (remove_hop_by_hop inh) in
  forward_headers fwd (e_client_ip e) (e_tls e) host inh out.

(** What Request.write and the Transport put on the wire, framing headers
    (Content-Length, Transfer-Encoding) aside: User-Agent is written once, from
    Get, and only when non-empty; Accept-Encoding: gzip is added when the
    Transport decides to ask for compression. *)
Definition asks_gzip (method : str) (h : headers) : bool :=
  is_empty (hget K_ae h) && is_empty (hget K_range h) && negb (str_eqb method (bs "HEAD")).

Definition wire_headers (method : str) (h : headers) : headers :=
  let ua := hget K_ua h in
  let h1 := hdel K_cl (hdel K_te (hdel K_ua h)) in
  let h2 := if is_empty ua then h1 else h1 ++ [(K_ua, ua)] in
  if asks_gzip method h then h2 ++ [(K_ae, bs "gzip")] else h2.

Definition target_headers (e : env) (fwd : bool) (method host : str) (raw : headers) : headers :=
  wire_headers method (proxy_headers e fwd host raw).

(** ** Response side *)
Definition resp_canonical (raw : headers) : headers :=
  map (fun kv => (canonical_key (fst kv), snd kv)) raw.

Definition ascii_eq_fold (a b : str) : bool := str_eqb (lower_str a) (lower_str b).

(** Transport: transparent gzip decoding applies *)
Definition gzip_decoded (req_method : str) (req_h : headers) (resp_h : headers) : bool :=
  asks_gzip req_method req_h && ascii_eq_fold (hget K_ce resp_h) (bs "gzip").

(** Headers the client receives, framing headers aside.  The proxy-side
    net/http server suppresses Content-Type on a 304.  The second component says
    whether that server adds a sniffed Content-Type (when the response length is
    not known up front ReverseProxy flushes the header from a timer goroutine
    that races with the first body write, so the sniffing may or may not happen:
    the correspondence accepts both in that case), the third whether it adds Date. *)
Definition client_headers (status : N) (gz : bool) (body_nonempty : bool) (raw : headers) : headers * bool * bool :=
  let h0 := resp_canonical raw in
  let h1 := if gz then hdel K_ce h0 else h0 in
  let h2 := hdel K_cl (remove_hop_by_hop h1) in
  let h3 := if status =? 304 then hdel K_ct h2 else h2 in
  let sniff := negb (hhas K_ct h3) && body_nonempty && is_empty (hget K_ce h3) in
  (h3, sniff, negb (hhas K_date h3)).

(** ** Multimap equality: same values, in order, for every key *)
Definition keys_of (h : headers) : list str := map fst h.
Definition headers_eqb (a b : headers) : bool :=
  forallb (fun k => strs_eqb (hvalues k a) (hvalues k b)) (keys_of a ++ keys_of b).
