(** Html.v — html/template (Go 1.24.2) as far as the 503 page needs it:

    - [decode_rune]      utf8.DecodeRuneInString (rune value and width)
    - [html_escape_go]   html.go htmlReplacer(s, htmlReplacementTable, badRunes = true),
                         i.e. htmlEscaper on a plain string value in HTML text context,
                         written as the rune loop of the Go source
    - [html_escape]      the same function written byte by byte (equal to
                         [html_escape_go] on every byte string: proofs/HtmlFacts.v)
    - [html_unescape]    decoder of exactly the entities the escaper emits
    - [render503]        body of the 503 response: custom page of the service or
                         the built-in page internal/pages/503.html

    Executable; no proofs. *)
From KP Require Import model.Base.
Local Open Scope N_scope.

(** ** utf8.DecodeRuneInString *)

Definition rune_error : N := 65533.          (* U+FFFD *)

(** continuation byte 0x80..0xBF *)
Definition is_cont (b : byte) : bool := in_range 128 191 b.

(** Rune and width of the first rune of [s].  Any ill-formed or truncated
    sequence decodes as (RuneError, 1); the empty string as (RuneError, 0).
    Second-byte ranges are those of utf8's acceptRanges table (no overlong
    forms, no surrogates, nothing above U+10FFFF). *)
Definition decode_rune (s : str) : N * nat :=
  match s with
  | [] => (rune_error, 0%nat)
  | b0 :: r =>
    let n0 := byte_n b0 in
    if n0 <? 128 then (n0, 1%nat)
    else if n0 <? 194 then (rune_error, 1%nat)                  (* 80..C1 *)
    else if n0 <? 224 then                                      (* C2..DF: 2 bytes *)
      match r with
      | b1 :: _ =>
        if is_cont b1 then ((n0 - 192) * 64 + (byte_n b1 - 128), 2%nat) else (rune_error, 1%nat)
      | _ => (rune_error, 1%nat)
      end
    else if n0 <? 240 then                                      (* E0..EF: 3 bytes *)
      match r with
      | b1 :: b2 :: _ =>
        let lo := if n0 =? 224 then 160 else 128 in
        let hi := if n0 =? 237 then 159 else 191 in
        if in_range lo hi b1 && is_cont b2
        then ((n0 - 224) * 4096 + (byte_n b1 - 128) * 64 + (byte_n b2 - 128), 3%nat)
        else (rune_error, 1%nat)
      | _ => (rune_error, 1%nat)
      end
    else if n0 <? 245 then                                      (* F0..F4: 4 bytes *)
      match r with
      | b1 :: b2 :: b3 :: _ =>
        let lo := if n0 =? 240 then 144 else 128 in
        let hi := if n0 =? 244 then 143 else 191 in
        if in_range lo hi b1 && is_cont b2 && is_cont b3
        then ((n0 - 240) * 262144 + (byte_n b1 - 128) * 4096 + (byte_n b2 - 128) * 64 + (byte_n b3 - 128), 4%nat)
        else (rune_error, 1%nat)
      | _ => (rune_error, 1%nat)
      end
    else (rune_error, 1%nat)                                    (* F5..FF *)
  end.

(** ** htmlReplacementTable (len 63: indices 0 .. '>') *)

Definition ent_nul : str := [xef; xbf; xbd].       (* U+FFFD in UTF-8 *)
Definition ent_quot : str := bs "&#34;".
Definition ent_amp : str := bs "&amp;".
Definition ent_apos : str := bs "&#39;".
Definition ent_plus : str := bs "&#43;".
Definition ent_lt : str := bs "&lt;".
Definition ent_gt : str := bs "&gt;".

Definition replacement_table_len : N := 63.

(** replacementTable[r] when non-empty *)
Definition replacement (r : N) : option str :=
  if r =? 0 then Some ent_nul
  else if r =? 34 then Some ent_quot
  else if r =? 38 then Some ent_amp
  else if r =? 39 then Some ent_apos
  else if r =? 43 then Some ent_plus
  else if r =? 60 then Some ent_lt
  else if r =? 62 then Some ent_gt
  else None.

(** htmlReplacer(s, htmlReplacementTable, true): rune by rune, keeping the
    input width of every rune; runes outside the table (all multi-byte runes
    and every undecodable byte, which reads as U+FFFD of width 1) are copied
    unchanged ("badRunes" = true: no-op branch). *)
Fixpoint html_replacer (fuel : nat) (s : str) : str :=
  match fuel with
  | O => []
  | S f =>
    match s with
    | [] => []
    | _ :: _ =>
      let '(r, w) := decode_rune s in
      let out := match (if r <? replacement_table_len then replacement r else None) with
                 | Some e => e
                 | None => firstn w s
                 end in
      out ++ html_replacer f (skipn w s)
    end
  end.

Definition html_escape_go (s : str) : str := html_replacer (length s) s.

(** ** The same, byte by byte *)

Definition esc_byte (b : byte) : str :=
  match replacement (byte_n b) with Some e => e | None => [b] end.

Definition html_escape (s : str) : str := flat_map esc_byte s.

(** ** Decoder of the emitted entities *)

Definition amp : byte := x26.

(** Entity tails (after '&') and the byte each stands for. *)
Definition entity_tails : list (str * byte) :=
  [(bs "#34;", x22); (bs "amp;", x26); (bs "#39;", x27); (bs "#43;", x2b); (bs "lt;", x3c); (bs "gt;", x3e)].

Fixpoint match_entity (l : list (str * byte)) (r : str) : option (nat * byte) :=
  match l with
  | [] => None
  | (t, c) :: l' => if has_prefix r t then Some (length t, c) else match_entity l' r
  end.

(** [skip] bytes are dropped first (the tail of an entity just decoded). *)
Fixpoint unescape_aux (skip : nat) (s : str) : str :=
  match s with
  | [] => []
  | b :: r =>
    match skip with
    | S k => unescape_aux k r
    | O =>
      if byte_eqb b amp then
        match match_entity entity_tails r with
        | Some (n, c) => c :: unescape_aux n r
        | None => b :: unescape_aux 0 r
        end
      else b :: unescape_aux 0 r
    end
  end.

Definition html_unescape (s : str) : str := unescape_aux 0 s.

(** What a message becomes after escaping and unescaping: NUL is replaced by
    U+FFFD, every other byte (valid UTF-8 or not) is kept. *)
Definition nul_replaced (s : str) : str :=
  flat_map (fun b => if byte_eqb b x00 then ent_nul else [b]) s.

(** ** The 503 page *)

(** internal/pages/503.html, cut at its only dynamic part:
      prefix {{ if .Message }} if_open {{ .Message }} if_close {{ else }} default {{ end }} suffix
    The five texts are read from the file by tools/c08.py on every run. *)
Record page503 := mkPage {
  pg_prefix : str; pg_if_open : str; pg_if_close : str; pg_default : str; pg_suffix : str }.

(** A custom 503.html of the shape  cprefix {{ .Message }} csuffix. *)
Definition custom_page := option (str * str).

(** Body of a 503 answer with template argument struct{Message string}{msg}.
    ({{ if .Message }} tests the RAW message for emptiness.) *)
Definition render503 (pg : page503) (custom : custom_page) (msg : str) : str :=
  match custom with
  | Some (cpre, csuf) => cpre ++ html_escape msg ++ csuf
  | None =>
    pg_prefix pg ++
    (match msg with
     | [] => pg_default pg
     | _ :: _ => pg_if_open pg ++ html_escape msg ++ pg_if_close pg
     end) ++ pg_suffix pg
  end.

(** The same body as a function of the ESCAPED message only. *)
Definition render503_escaped (pg : page503) (custom : custom_page) (e : str) : str :=
  match custom with
  | Some (cpre, csuf) => cpre ++ e ++ csuf
  | None =>
    pg_prefix pg ++
    (match e with
     | [] => pg_default pg
     | _ :: _ => pg_if_open pg ++ e ++ pg_if_close pg
     end) ++ pg_suffix pg
  end.

(** 503 answers set with template arguments nil (TLS refusal, no healthy
    target): {{ .Message }} of nil data renders as the empty message. *)
Definition render503_nil (pg : page503) (custom : custom_page) : str := render503 pg custom [].
