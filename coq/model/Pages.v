(** Pages.v — which error page a stopped service answers with, over histories in which the operator replaces the
    custom error pages IN PLACE (same directory) between deploys.

    Go: Service.createMiddleware parses the directory named by the deploy (`template.ParseFS(os.DirFS(path), "*.html")`)
    when the service object is built, i.e. once per deploy of that service; the parsed templates live in the service's
    middleware until the next deploy of the same service.  A directory without 503.html leaves 503 to the built-in page
    (the per-service middleware is not the root one).  The pause controller (stopped + message) is shared across redeploys.

    Services and page versions are small numbers; the rendering itself is model/Html.v. *)
From KP Require Import model.Base model.Trace.
Local Open Scope nat_scope.

(** what the deploy names: no directory, the directory with a 503 page, a directory with pages for other statuses only *)
Inductive pdir := DNone | DGood | DPartial.

Inductive pop :=
| PWrite (v : nat)                 (* the operator replaces the custom 503 page in the directory by version v *)
| PDeploy (svc : nat) (d : pdir)   (* a successful deploy of svc naming d *)
| PStop (svc : nat) (msg : str)
| PResume (svc : nat)
| PAsk (svc : nat).                (* a request for svc *)

Record psvc := mkPs { p_page : option nat;      (* version of the custom 503 page read by the latest deploy; None: built-in *)
                      p_stop : option str }.    (* stopped with this message *)

Record pstate := mkP { p_dir : nat; p_svcs : list (nat * psvc) }.

Definition p_init : pstate := mkP 1 [].

Definition pstep (st : pstate) (o : pop) : pstate :=
  match o with
  | PWrite v => mkP v (p_svcs st)
  | PDeploy s d =>
    let page := match d with DGood => Some (p_dir st) | _ => None end in
    let stop := match nget (p_svcs st) s with Some x => p_stop x | None => None end in
    mkP (p_dir st) (nset (p_svcs st) s (mkPs page stop))
  | PStop s m =>
    match nget (p_svcs st) s with
    | Some x => mkP (p_dir st) (nset (p_svcs st) s (mkPs (p_page x) (Some m)))
    | None => st
    end
  | PResume s =>
    match nget (p_svcs st) s with
    | Some x => mkP (p_dir st) (nset (p_svcs st) s (mkPs (p_page x) None))
    | None => st
    end
  | PAsk _ => st
  end.

Definition prun (st : pstate) (ops : list pop) : pstate := fold_left pstep ops st.

(** the answer to a request: None = forwarded (running) or no such service; Some (page version, message) = the proxy's 503 *)
Definition p_answer (st : pstate) (s : nat) : option (option nat * str) :=
  match nget (p_svcs st) s with
  | Some x => match p_stop x with Some m => Some (p_page x, m) | None => None end
  | None => None
  end.

(** the answers to the requests of a history, in order *)
Fixpoint p_answers (st : pstate) (ops : list pop) : list (option (option nat * str)) :=
  match ops with
  | [] => []
  | PAsk s :: r => p_answer st s :: p_answers st r
  | o :: r => p_answers (pstep st o) r
  end.
