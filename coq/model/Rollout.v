(** Rollout.v — executable model of the rollout split (C10).
    Anchors: internal/server/rollout_controller.go, service.go
    (loadBalancerForRequest, SetRolloutSplit, StopRollout, UpdateLoadBalancer,
    CopyWithOptions, MarshalJSON/UnmarshalJSON),
    net/http cookie.go (readCookies, parseCookieValue) and request.go
    (Request.Cookie) of Go 1.24.2, hash/fnv (New32a).
    Definitions only; proofs are in proofs/RolloutFacts.v. *)
From KP Require Import model.Base.
From Coq Require Import Floats Uint63.
Local Open Scope N_scope.

(** * hash/fnv: 32-bit FNV-1a, [hash ^= b; hash *= prime32] in uint32 *)

Definition two32 : N := 4294967296.
Definition fnv_offset32 : N := 2166136261.
Definition fnv_prime32 : N := 16777619.
Definition fnv_step (h : N) (b : byte) : N := (N.lxor h (byte_n b) * fnv_prime32) mod two32.
Definition fnv1a (s : str) : N := fold_left fnv_step s fnv_offset32.

(** * net/http: Request.Cookie(name) = first element of readCookies(h, name) *)

(** textproto.isASCIISpace *)
Definition is_ascii_space (b : byte) : bool :=
  match b with x20 | x09 | x0a | x0d => true | _ => false end.

Fixpoint drop_while (f : byte -> bool) (s : str) : str :=
  match s with
  | x :: s' => if f x then drop_while f s' else s
  | [] => []
  end.

(** textproto.TrimString *)
Definition trim_space (s : str) : str :=
  rev (drop_while is_ascii_space (rev (drop_while is_ascii_space s))).

(** strings.Cut(s, one byte): before, after, found *)
Fixpoint cut_byte (c : byte) (s : str) : str * str * bool :=
  match s with
  | [] => ([], [], false)
  | x :: s' =>
    if byte_eqb x c then ([], s', true)
    else let '(a, b, f) := cut_byte c s' in (x :: a, b, f)
  end.

(** The loop [for len(line) > 0 { part, line, _ = strings.Cut(line, ";") ... }]
    visits the pieces between semicolons; a trailing empty piece is not
    visited by Go and is skipped by the model (empty parts are skipped
    anyway), so the two enumerate the same non-empty parts in the same order. *)
Fixpoint split_byte (c : byte) (s : str) : list str :=
  match s with
  | [] => [[]]
  | x :: s' =>
    if byte_eqb x c then [] :: split_byte c s'
    else match split_byte c s' with
         | p :: r => (x :: p) :: r
         | [] => [[x]]
         end
  end.

(** httpguts.isTokenTable; runes >= 0x80 (and invalid UTF-8) are not tokens. *)
Definition is_token_byte (b : byte) : bool :=
  is_alnum b ||
  match b with
  | x21 | x23 | x24 | x25 | x26 | x27 | x2a | x2b | x2d | x2e | x5e | x5f | x60 | x7c | x7e => true
  | _ => false
  end.

(** isCookieNameValid *)
Definition cookie_name_valid (name : str) : bool :=
  match name with [] => false | _ => forallb is_token_byte name end.

(** validCookieValueByte: 0x20 <= b < 0x7f, not one of double quote, semicolon, backslash *)
Definition valid_cookie_value_byte (b : byte) : bool :=
  (32 <=? byte_n b) && (byte_n b <? 127) &&
  match b with x22 | x3b | x5c => false | _ => true end.

(** parseCookieValue(raw, true): strip one pair of double quotes when
    len(raw) > 1 and both ends are quotes; then every byte must be valid. *)
Definition strip_quotes (raw : str) : str :=
  match raw with
  | x22 :: r => match rev r with x22 :: m => rev m | _ => raw end
  | _ => raw
  end.

Definition parse_cookie_value (raw : str) : option str :=
  let v := strip_quotes raw in
  if forallb valid_cookie_value_byte v then Some v else None.

(** One iteration of the inner loop of readCookies with a non-empty filter. *)
Definition cookie_of_part (filter : str) (part0 : str) : option str :=
  let part := trim_space part0 in
  match part with
  | [] => None
  | _ =>
    let '(name0, val, _) := cut_byte x3d part in
    let name := trim_space name0 in
    if negb (cookie_name_valid name) then None
    else if negb (str_eqb filter name) then None
    else parse_cookie_value val
  end.

Fixpoint first_some {A B} (f : A -> option B) (l : list A) : option B :=
  match l with
  | [] => None
  | x :: l' => match f x with Some y => Some y | None => first_some f l' end
  end.

Definition cookie_parts (lines : list str) : list str :=
  flat_map (fun line => split_byte x3b (trim_space line)) lines.

(** [r.Cookie(name)] over the values of the [Cookie] header, in order:
    [Some v] is the Value of the cookie returned, [None] is ErrNoCookie. *)
Definition request_cookie (name : str) (lines : list str) : option str :=
  match name with
  | [] => None
  | _ => first_some (cookie_of_part name) (cookie_parts lines)
  end.

Definition rollout_cookie_name : str := bs "kamal-rollout".

(** * The split point, as the code computes it (IEEE-754 binary64) *)

(** float64(int) for |z| < 2^63 *)
Definition float_of_int (z : Z) : float :=
  if (z <? 0)%Z then PrimFloat.opp (of_uint63 (Uint63.of_Z (- z)))
  else of_uint63 (Uint63.of_Z z).

Definition max_hash_value : float := of_uint63 4294967295%uint63.

(** NewRolloutController: maxHashValue * (float64(percentage) / 100.0) *)
Definition split_point (pct : Z) : float :=
  PrimFloat.mul max_hash_value (PrimFloat.div (float_of_int pct) (of_uint63 100%uint63)).

(** valueInRolloutPercentage: float64(hash) <= PercentageSplitPoint *)
Definition float_in_percentage (pct : Z) (h : N) : bool :=
  PrimFloat.leb (of_uint63 (Uint63.of_Z (Z.of_N h))) (split_point pct).

(** The greatest integer [t] with [t <= c] for a float that is zero, negative
    (then any negative number serves: -1) or positive with a non-positive
    exponent; [None] otherwise (NaN, infinities, huge values). *)
Definition float_threshold (c : float) : option Z :=
  match Prim2SF c with
  | S754_zero _ => Some 0%Z
  | S754_finite false m e => if (e <=? 0)%Z then Some (Z.pos m / 2 ^ (- e))%Z else None
  | S754_finite true _ _ => Some (-1)%Z
  | _ => None
  end.

(** * The integer threshold: hash values 0 .. T pct are inside the percentage.
    For 0..100 this is floor(pct * (2^32-1) / 100) (tied to [split_point] in
    RolloutFacts.v); a negative percentage includes no hash, one above 100
    every hash. *)
Definition T (pct : Z) : Z :=
  if (pct <? 0)%Z then (-1)%Z
  else if (100 <? pct)%Z then 4294967295%Z
  else (pct * 4294967295 / 100)%Z.

Definition T_table : list Z := [
  0; 42949672; 85899345; 128849018; 171798691; 214748364; 257698037; 300647710; 343597383; 386547056;
  429496729; 472446402; 515396075; 558345748; 601295421; 644245094; 687194767; 730144440; 773094113; 816043786;
  858993459; 901943131; 944892804; 987842477; 1030792150; 1073741823; 1116691496; 1159641169; 1202590842; 1245540515;
  1288490188; 1331439861; 1374389534; 1417339207; 1460288880; 1503238553; 1546188226; 1589137899; 1632087572; 1675037245;
  1717986918; 1760936590; 1803886263; 1846835936; 1889785609; 1932735282; 1975684955; 2018634628; 2061584301; 2104533974;
  2147483647; 2190433320; 2233382993; 2276332666; 2319282339; 2362232012; 2405181685; 2448131358; 2491081031; 2534030704;
  2576980377; 2619930049; 2662879722; 2705829395; 2748779068; 2791728741; 2834678414; 2877628087; 2920577760; 2963527433;
  3006477106; 3049426779; 3092376452; 3135326125; 3178275798; 3221225471; 3264175144; 3307124817; 3350074490; 3393024163;
  3435973836; 3478923508; 3521873181; 3564822854; 3607772527; 3650722200; 3693671873; 3736621546; 3779571219; 3822520892;
  3865470565; 3908420238; 3951369911; 3994319584; 4037269257; 4080218930; 4123168603; 4166118276; 4209067949; 4252017622;
  4294967295 ]%Z.

Definition in_percentage (pct : Z) (h : N) : bool := (Z.of_N h <=? T pct)%Z.

(** * RolloutController.RequestUsesRolloutGroup *)

Record split := mkSplit { sp_pct : Z; sp_allow : list str }.

(** The decision for a cookie value: non-empty, and allowlisted or inside the percentage. *)
Definition value_uses_rollout (c : split) (v : str) : bool :=
  match v with
  | [] => false
  | _ => mem_str v (sp_allow c) || in_percentage (sp_pct c) (fnv1a v)
  end.

Definition uses_rollout (c : split) (lines : list str) : bool :=
  match request_cookie rollout_cookie_name lines with
  | None => false
  | Some v => value_uses_rollout c v
  end.

(** * Service.loadBalancerForRequest *)

Inductive side := Active | Rollout.
Definition side_eqb (a b : side) : bool :=
  match a, b with Active, Active | Rollout, Rollout => true | _, _ => false end.

(** [has_rollout]: s.rollout != nil; [ctrl]: s.rolloutController *)
Definition pick (has_rollout : bool) (ctrl : option split) (lines : list str) : side :=
  if has_rollout then
    match ctrl with
    | Some c => if uses_rollout c lines then Rollout else Active
    | None => Active
    end
  else Active.

(** * Command histories on one service (sequential).
    Deployments are identified by a number chosen by the history; a
    deployment always succeeds here (failing deploys are C06's subject). *)

(** The rollout slot: nil or the balancer of deployment [id]. *)
Inductive slot := NoLB | LB (id : nat).

Record svc := mkSvc { sv_active : nat; sv_rollout : slot; sv_ctrl : option split }.

Inductive hcmd :=
| HDeploy (id : nat)                    (* deploy: replaces the active targets *)
| HRolloutDeploy (id : nat)             (* rollout deploy *)
| HSet (pct : Z) (allow : list str)     (* rollout set *)
| HStop                                 (* rollout stop *)
| HRestart                              (* save, new process, restore *)
| HRequest (lines : list str).          (* a request with these Cookie header values *)

Inductive hobs :=
| OOk
| OErrNoRollout                         (* ErrorRolloutTargetNotSet *)
| OServed (id : nat).

Definition init_svc (id : nat) : svc := mkSvc id NoLB None.

Definition has_rollout_slot (s : svc) : bool :=
  match sv_rollout s with NoLB => false | _ => true end.

Definition hstep (s : svc) (c : hcmd) : svc * hobs :=
  match c with
  | HDeploy id => (mkSvc id (sv_rollout s) (sv_ctrl s), OOk)     (* CopyWithOptions keeps rollout and controller *)
  | HRolloutDeploy id => (mkSvc (sv_active s) (LB id) (sv_ctrl s), OOk)
  | HSet pct allow =>
    if has_rollout_slot s then (mkSvc (sv_active s) (sv_rollout s) (Some (mkSplit pct allow)), OOk)
    else (s, OErrNoRollout)
  | HStop => (mkSvc (sv_active s) (sv_rollout s) None, OOk)
  | HRestart => (s, OOk)     (* the snapshot holds targets, rollout targets (if any) and the controller;
                                UnmarshalJSON builds a rollout balancer only when rollout targets were saved *)
  | HRequest lines =>
    (s, match pick (has_rollout_slot s) (sv_ctrl s) lines with
        | Active => OServed (sv_active s)
        | Rollout => match sv_rollout s with
                     | LB id => OServed id
                     | NoLB => OServed (sv_active s)     (* unreachable: [pick false] is [Active] *)
                     end
        end)
  end.

Fixpoint hrun (s : svc) (cmds : list hcmd) : svc * list hobs :=
  match cmds with
  | [] => (s, [])
  | c :: r =>
    let '(s1, o) := hstep s c in
    let '(s2, os) := hrun s1 r in
    (s2, o :: os)
  end.

(** * The property's own reading of a history (what C10 says must happen;
    used by the theorems of props/C10.v and by the monitor of corr/C10corr.v).
    Rollout targets exist once a rollout deploy has succeeded; a split is in
    force after an accepted [rollout set] until [rollout stop]; a restart
    changes nothing. *)
Record spec_state := mkSpec { ss_active : nat; ss_targets : option nat; ss_split : option split }.

Definition init_spec (id : nat) : spec_state := mkSpec id None None.

Definition spec_step (s : spec_state) (c : hcmd) : spec_state * hobs :=
  match c with
  | HDeploy id => (mkSpec id (ss_targets s) (ss_split s), OOk)
  | HRolloutDeploy id => (mkSpec (ss_active s) (Some id) (ss_split s), OOk)
  | HSet pct allow =>
    match ss_targets s with
    | Some _ => (mkSpec (ss_active s) (ss_targets s) (Some (mkSplit pct allow)), OOk)
    | None => (s, OErrNoRollout)
    end
  | HStop => (mkSpec (ss_active s) (ss_targets s) None, OOk)
  | HRestart => (s, OOk)
  | HRequest lines =>
    (s, match ss_targets s, ss_split s with
        | Some r, Some c => if uses_rollout c lines then OServed r else OServed (ss_active s)
        | _, _ => OServed (ss_active s)
        end)
  end.

Fixpoint spec_run (s : spec_state) (cmds : list hcmd) : spec_state * list hobs :=
  match cmds with
  | [] => (s, [])
  | c :: r =>
    let '(s1, o) := spec_step s c in
    let '(s2, os) := spec_run s1 r in
    (s2, o :: os)
  end.

Definition is_restart (c : hcmd) : bool := match c with HRestart => true | _ => false end.
Definition is_set (c : hcmd) : bool := match c with HSet _ _ => true | _ => false end.
Definition is_rollout_deploy (c : hcmd) : bool := match c with HRolloutDeploy _ => true | _ => false end.
